(* GENERATED on every run by translator/loops from the Go source of /tmp/wt-lifetime - do not edit.
   Shapes of the for/select service loops; the obligation is closed by computation. *)
From Relay Require Import Base.Prelude Model.LoopIR Proofs.LoopIR_proofs.
Open Scope string_scope.

Definition loops : list loop := [
  mkloop "internal/relay/relay.go:Relay:L40" true false
     [mkcase "closed" Return; mkcase "time.After(config.PruneEvery)" Fall];
  mkloop "internal/crossbar/crossbar.go:writePump:L300" true false
     [mkcase "c.send" Fall; mkcase "ticker.C" Fall; mkcase "closed" Return; mkcase "cancelled" Return];
  mkloop "internal/crossbar/crossbar.go:run:L511" false false
     [mkcase "h.register" Fall; mkcase "h.unregister" Fall; mkcase "h.broadcast" Fall];
  mkloop "internal/crossbar/crossbar.go:statsReporter:L814" true false
     [mkcase "closed" Return; mkcase "c.send" Fall; mkcase "time.After(statsEvery)" Fall];
  mkloop "internal/crossbar/crossbar.go:handleConnections:L1070" true false
     [mkcase "closed" Return; mkcase "deny" Fall];
  mkloop "internal/ttlcode/ttlcode.go:keepClean:L87" true false
     [mkcase "c.closed" Return; mkcase "time.After(time.Duration(2*c.ttl)*time.Second)" Fall]
].

(* the translator's self-test corpus: shapes with known verdicts, checked by the same checker *)
Example selftest_return_on_closed_0 : loop_ok (mkloop "return_on_closed.go:f:L3" true false
     [mkcase "closed" Return; mkcase "c" Fall]) = true.
Proof. vm_compute. reflexivity. Qed.
Example selftest_break_only_leaves_select_0 : loop_ok (mkloop "break_only_leaves_select.go:f:L5" true false
     [mkcase "closed" BreakSelect; mkcase "time.After(time.Second)" Fall]) = false.
Proof. vm_compute. reflexivity. Qed.
Example selftest_labelled_break_leaves_loop_0 : loop_ok (mkloop "labelled_break_leaves_loop.go:f:L5" false false
     [mkcase "ctx.Done()" BreakLabel; mkcase "c" Continue]) = true.
Proof. vm_compute. reflexivity. Qed.
Example selftest_label_on_select_is_a_select_break_0 : loop_ok (mkloop "label_on_select_is_a_select_break.go:f:L3" true false
     [mkcase "closed" BreakSelect]) = false.
Proof. vm_compute. reflexivity. Qed.
Example selftest_field_closed_and_statements_around_select_0 : loop_ok (mkloop "field_closed_and_statements_around_select.go:run:L8" true false
     [mkcase "s.closed" Return; mkcase "s.in" Fall; mkcase "send:s.in" Fall]) = true.
Proof. vm_compute. reflexivity. Qed.
Example selftest_sees_closed_but_never_listens_0 : loop_ok (mkloop "sees_closed_but_never_listens.go:f:L3" true false
     [mkcase "c" Fall]) = false.
Proof. vm_compute. reflexivity. Qed.
Example selftest_no_closed_in_scope_is_exempt_0 : loop_ok (mkloop "no_closed_in_scope_is_exempt.go:run:L4" false false
     [mkcase "h.reg" Fall]) = true.
Proof. vm_compute. reflexivity. Qed.
Example selftest_default_arm_never_blocks_0 : loop_ok (mkloop "default_arm_never_blocks.go:f:L3" true true
     [mkcase "closed" Return]) = false.
Proof. vm_compute. reflexivity. Qed.

Definition DEAF := Eval vm_compute in (deaf loops).
Print DEAF.
Definition OFFENDERS := Eval vm_compute in (offenders loops).
Print OFFENDERS.

Example loops_ok : stops_on_close loops = true.
Proof. vm_compute. reflexivity. Qed.

(* hence, by the generic theorem, for the loops of the current source: *)
Lemma current_loops_stop :
  forall l, In l loops -> forall i c, nth_error (cases l) i = Some c -> is_shutdown c = true ->
  forall sched, In i sched -> run l sched = Exited.
Proof. exact (loops_stop loops loops_ok). Qed.
