(* Second batch of lemmas about Model/Hub.v (statement-coverage round): the tie between admission
   (ws_accept) and hub histories, what an eviction presupposes, writer progress, the read limit. *)
From Relay Require Import Base.Prelude Model.Hub Proofs.Hub_proofs.

(* ---- every connection of a reachable state was registered in the history, with these fixed fields ---- *)

Definition registered_as (c r : client) : Prop :=
  name c = name r /\ topic c = topic r /\ can_read c = can_read r /\ can_write c = can_write r /\ cap c = cap r.

Lemma conn_from_register evs : forall c,
  In c (conns (run init evs)) -> exists r, In (Register r) evs /\ registered_as c r.
Proof.
  induction evs as [|e evs IH] using rev_ind; intros c Hin.
  - cbn in Hin. contradiction.
  - rewrite run_snoc in Hin. apply in_step in Hin.
    destruct Hin as [(c0 & Hc0 & ->)|(r & -> & ->)].
    + destruct (IH c0 Hc0) as (r & Hr & Hn & Ht & Hcr & Hcw & Hcp).
      exists r. split; [apply in_or_app; left; exact Hr|].
      unfold registered_as.
      rewrite cstep_name, cstep_topic, cstep_can_read, cstep_can_write, cstep_cap. repeat split; assumption.
    + exists r. split; [apply in_or_app; right; left; reflexivity|].
      unfold registered_as. cbn [fresh name topic can_read can_write cap]. repeat split; reflexivity.
Qed.

(* a history whose registrations all come out of websocket admission *)
Definition accepted_history (evs : list event) : Prop :=
  forall r, In (Register r) evs -> exists rq, ws_accept rq = Some r.

Lemma accepted_prefix evs1 e evs2 : accepted_history (evs1 ++ e :: evs2) -> accepted_history evs1.
Proof. intros H r Hr. apply H. apply in_or_app. left. exact Hr. Qed.

(* ---- C03: isolation stated on the tokens ---- *)

Lemma isolation_by_token_topic evs c m :
  accepted_history evs -> In c (conns (run init evs)) -> In m (content c) ->
  exists rs rqs rc rqc,
    In (Register rs) evs /\ ws_accept rqs = Some rs /\ name rs = m_name m /\
    In (Register rc) evs /\ ws_accept rqc = Some rc /\ name rc = name c /\
    r_token_topic rqs = r_token_topic rqc /\ r_token_topic rqs = m_topic m /\
    topic_of_path (slashify (r_path rqs)) = topic_of_path (slashify (r_path rqc)) /\
    name rs <> name rc.
Proof.
  intros Hacc Hc Hm.
  destruct (conn_from_register evs c Hc) as (rc & Hrc & Hnc & Htc & _).
  destruct (Hacc rc Hrc) as (rqc & Hqc).
  apply In_nth_error in Hc. destruct Hc as [i Hi].
  destruct (queue_inv evs i c m Hi Hm)
    as (evs1 & n & mt & d & evs2 & sd & c0 & Hevs & Hsd & Hw & Hmsg & _ & _ & _ & _ & Htop & Hne).
  apply sender_spec in Hsd. destruct Hsd as (Hsn & Hsin & _).
  destruct (conn_from_register evs1 sd Hsin) as (rs & Hrs & Hns & Hts & _).
  assert (Hrs' : In (Register rs) evs) by (rewrite Hevs; apply in_or_app; left; exact Hrs).
  destruct (Hacc rs Hrs') as (rqs & Hqs).
  exists rs, rqs, rc, rqc.
  pose proof (accept_fields rqs rs Hqs) as (Hs1 & Hs2 & _).
  pose proof (accept_fields rqc rc Hqc) as (Hc1 & Hc2 & _).
  subst m. cbn [m_name m_topic].
  repeat split; try assumption; try congruence.
Qed.

(* ---- C04: the capability clauses stated on the tokens ---- *)

Lemma accept_caps rq r :
  ws_accept rq = Some r ->
  (can_read r = true <-> In "read"%string (r_scopes rq)) /\
  (can_write r = true <-> In "write"%string (r_scopes rq)) /\
  (In "read"%string (r_scopes rq) \/ In "write"%string (r_scopes rq)).
Proof.
  intros H. pose proof (accept_fields rq r H) as (_ & _ & _ & _ & Hcaps & _).
  pose proof (caps_membership (r_scopes rq)) as [Hr Hw].
  assert (Hfst : can_read r = fst (caps (r_scopes rq))) by (rewrite <- Hcaps; reflexivity).
  assert (Hsnd : can_write r = snd (caps (r_scopes rq))) by (rewrite <- Hcaps; reflexivity).
  rewrite Hfst, Hsnd. split; [exact Hr|split; [exact Hw|]].
  destruct (in_dec string_dec "read"%string (r_scopes rq)) as [Hi|Hn]; [left; exact Hi|].
  destruct (in_dec string_dec "write"%string (r_scopes rq)) as [Hi|Hn2]; [right; exact Hi|].
  rewrite (neither_refused rq Hn Hn2) in H. discriminate.
Qed.

(* nothing sent by connections whose tokens lack the write scope is held by anybody *)
Lemma token_without_write_never_heard evs n :
  (forall r, In (Register r) evs -> name r = n ->
             exists rq, ws_accept rq = Some r /\ ~ In "write"%string (r_scopes rq)) ->
  forall c m, In c (conns (run init evs)) -> In m (content c) -> m_name m <> n.
Proof.
  intros Hn c m Hc Hm Heq.
  destruct (heard_only_from_writers evs c m Hc Hm) as (evs1 & n' & mt & d & evs2 & sd & Hevs & Hsd & Hw & Hmsg).
  apply sender_spec in Hsd. destruct Hsd as (Hsn & Hsin & _).
  destruct (conn_from_register evs1 sd Hsin) as (r & Hr & Hrn & _ & _ & Hrw & _).
  assert (Hr' : In (Register r) evs) by (rewrite Hevs; apply in_or_app; left; exact Hr).
  subst m. cbn [m_name] in Heq.
  destruct (Hn r Hr') as (rq & Hq & Hnw); [congruence|].
  apply accept_caps in Hq. destruct Hq as (_ & Hcw & _).
  apply Hnw, Hcw. congruence.
Qed.

(* a connection whose token lacks the read scope never has a frame written *)
Lemma token_without_read_deaf evs c :
  In c (conns (run init evs)) ->
  (forall r, In (Register r) evs -> name r = name c ->
             exists rq, ws_accept rq = Some r /\ ~ In "read"%string (r_scopes rq)) ->
  out c = [] /\ cur c = [].
Proof.
  intros Hc Hn. apply (nonreader_deaf evs c Hc).
  destruct (conn_from_register evs c Hc) as (r & Hr & Hrn & _ & Hrr & _).
  destruct (Hn r Hr (eq_sym Hrn)) as (rq & Hq & Hnr).
  apply accept_caps in Hq. destruct Hq as (Hcr & _).
  destruct (can_read c) eqn:E; [|reflexivity].
  exfalso. apply Hnr, Hcr. congruence.
Qed.

(* every connection the hub ever holds has at least one of the two capabilities *)
Lemma members_have_a_scope evs c :
  accepted_history evs -> In c (conns (run init evs)) -> can_read c = true \/ can_write c = true.
Proof.
  intros Hacc Hc.
  destruct (conn_from_register evs c Hc) as (r & Hr & _ & _ & Hrr & Hrw & _).
  destruct (Hacc r Hr) as (rq & Hq).
  apply accept_caps in Hq. destruct Hq as (Hcr & Hcw & [Hi|Hi]).
  - left. rewrite Hrr. apply Hcr. exact Hi.
  - right. rewrite Hrw. apply Hcw. exact Hi.
Qed.

(* ---- C05: an eviction presupposes more messages than the queue holds ---- *)

Lemma content_length_queue c : length (queue c) <= length (content c).
Proof. unfold content. rewrite !app_length. lia. Qed.

Lemma evicted_held_full evs c :
  In c (conns (run init evs)) -> can_read c = true -> st c = Evicted -> cap c <= length (content c).
Proof.
  revert evs c.
  apply (reach_client_ind (fun _ c => can_read c = true -> st c = Evicted -> cap c <= length (content c))).
  - intros evs r _ H. cbn [fresh st] in H. discriminate.
  - intros evs e c _ IH Hr Hst. rewrite cstep_can_read in Hr. rewrite cstep_cap.
    destruct e as [r|n|n mt d|n|n|n]; cbn [cstep] in *; unfold on in *.
    + apply IH; assumption.
    + destruct (N.eqb (name c) n); [cbn [set_st st] in Hst; discriminate|apply IH; assumption].
    + destruct (event_msg (run init evs) (Recv n mt d)) as [m|]; [|apply IH; assumption].
      unfold offer in *. destruct (is_joined c && wants c m) eqn:Hj; [|apply IH; assumption].
      destruct (length (queue c) <? cap c) eqn:Hlt.
      * cbn [set_queue st] in Hst. apply andb_true_iff in Hj. destruct Hj as [Hj _].
        unfold is_joined in Hj. rewrite Hst in Hj. discriminate.
      * rewrite content_set_st. apply Nat.ltb_ge in Hlt.
        pose proof (content_length_queue c). lia.
    + destruct (N.eqb (name c) n); [|apply IH; assumption].
      rewrite (content_take_reader c Hr).
      destruct (take_st c) as [E|[E1 E2]]; [apply IH; [exact Hr|congruence]|congruence].
    + destruct (N.eqb (name c) n); [|apply IH; assumption].
      rewrite content_more. rewrite more_st in Hst. apply IH; assumption.
    + destruct (N.eqb (name c) n); [|apply IH; assumption].
      rewrite content_close. rewrite close_st in Hst. apply IH; assumption.
Qed.

(* a reader is dropped for a full queue only if more messages than its queue holds were sent to it
   since it joined; so with at most cap of them it is never dropped *)
Lemma evicted_only_beyond_capacity evs c :
  In c (conns (run init evs)) -> can_read c = true -> st c = Evicted ->
  cap c < length (relevant c (log_since (run init evs) c)).
Proof.
  intros Hc Hr Hst.
  destruct (stream_inv evs c Hc Hr) as (rest & Heq & _ & HE).
  pose proof (evicted_held_full evs c Hc Hr Hst) as Hfull.
  rewrite <- Heq, app_length.
  specialize (HE Hst). destruct rest; [congruence|]. cbn [length]. lia.
Qed.

Lemma within_capacity_never_dropped evs c :
  In c (conns (run init evs)) -> can_read c = true ->
  length (relevant c (log_since (run init evs) c)) <= cap c -> st c <> Evicted.
Proof.
  intros Hc Hr Hle Hst. pose proof (evicted_only_beyond_capacity evs c Hc Hr Hst). lia.
Qed.

(* ---- C05: the writer makes progress: head of the queue becomes the next frame ---- *)

Lemma drain_progress c h q :
  is_closed c = false -> can_read c = true -> cur c = [] -> queue c = h :: q ->
  out (close_frame (take c)) = out c ++ [[h]] /\ queue (close_frame (take c)) = q /\
  cur (close_frame (take c)) = [] /\ st (close_frame (take c)) = st c.
Proof.
  intros Hcl Hr Hcur Hq. unfold take. rewrite Hcl, Hcur, Hq, Hr.
  unfold close_frame.
  assert (H : is_closed (set_cur q [h] c) = false) by (unfold is_closed in *; cbn [set_cur st]; exact Hcl).
  rewrite H. cbn [set_cur cur out queue st set_out]. repeat split; reflexivity.
Qed.

(* merged: head and k follow-ons into one frame, in queue order *)
Lemma more_progress c h q :
  is_closed c = false -> cur c <> [] -> queue c = h :: q ->
  cur (more c) = cur c ++ [h] /\ queue (more c) = q /\ out (more c) = out c.
Proof.
  intros Hcl Hcur Hq. unfold more. rewrite Hcl, Hq.
  destruct (cur c) as [|x l] eqn:E; [congruence|]. cbn [set_cur cur queue out]. repeat split; reflexivity.
Qed.

(* ---- C05: the read limit ---- *)

Lemma oversize_drops_writer s n mt size d :
  (max_message_size < size)%N ->
  read_event n mt size d = Unregister n /\
  log (step s (read_event n mt size d)) = log s /\
  (forall c', In c' (conns (step s (read_event n mt size d))) -> name c' = n -> st c' = Closed) /\
  (forall c', In c' (conns (step s (read_event n mt size d))) -> exists c, In c (conns s) /\ content c' = content c).
Proof.
  intros Hsz. unfold read_event. apply N.ltb_lt in Hsz. rewrite Hsz.
  split; [reflexivity|]. split; [rewrite log_step; unfold accepted; cbn [event_msg]; apply app_nil_r|].
  split.
  - intros c' Hin Hn. apply in_step in Hin. destruct Hin as [(c & _ & ->)|(r & Hr & _)]; [|discriminate].
    cbn [cstep]. unfold on. rewrite cstep_name in Hn. cbn [cstep] in Hn. unfold on in Hn.
    destruct (N.eqb (name c) n) eqn:E.
    + reflexivity.
    + apply N.eqb_neq in E. congruence.
  - intros c' Hin. apply in_step in Hin. destruct Hin as [(c & Hc & ->)|(r & Hr & _)]; [|discriminate].
    exists c. split; [exact Hc|]. cbn [cstep]. unfold on.
    destruct (N.eqb (name c) n); [apply content_set_st|reflexivity].
Qed.

Lemma within_limit_is_received n mt size d :
  (size <= max_message_size)%N -> read_event n mt size d = Recv n mt d.
Proof.
  intros Hsz. unfold read_event. destruct (max_message_size <? size)%N eqn:E; [|reflexivity].
  apply N.ltb_lt in E. lia.
Qed.
