(* Serial equivalence (per-object linearizability + locality) for the value-level model of Model/SerialEq.v:
   every complete execution, under any schedule, leaves every object in the state, and has returned to every
   operation the result, of the ONE-AT-A-TIME execution of the same operations in the order of their Acq steps;
   that single order contains each thread's operations in program order. *)
From Relay Require Import Base.Prelude Model.SerialEq.

Section Proofs.
  Context {Lk Op St Res : Type}.
  Variable lk_eqb : Lk -> Lk -> bool.
  Hypothesis lk_eqb_spec : forall a b, lk_eqb a b = true <-> a = b.
  Variable upd : Lk -> Op -> St -> St * Res.

  Notation call := (@call Lk Op).
  Notation thread := (@thread Lk Op).
  Notation state := (@state Lk Op St Res).
  Notation set := (set lk_eqb).
  Notation holdsb := (holdsb lk_eqb).
  Notation free := (free lk_eqb).
  Notation stepf := (stepf lk_eqb upd).
  Notation run := (run lk_eqb upd).
  Notation serial_step := (serial_step lk_eqb upd).
  Notation serial := (serial lk_eqb upd).
  Notation on_lock := (on_lock lk_eqb).
  Notation ret_on := (@ret_on Lk Op Res lk_eqb).
  Notation pendcalls := (pendcalls lk_eqb).

  Lemma lk_refl m : lk_eqb m m = true.
  Proof. apply lk_eqb_spec; reflexivity. Qed.

  Lemma lk_neq a b : a <> b -> lk_eqb a b = false.
  Proof. intro H. destruct (lk_eqb a b) eqn:E; [apply lk_eqb_spec in E; contradiction|reflexivity]. Qed.

  Lemma lk_dec (a b : Lk) : {a = b} + {a <> b}.
  Proof.
    destruct (lk_eqb a b) eqn:E; [left; apply lk_eqb_spec; exact E|right].
    intro H. apply lk_eqb_spec in H. congruence.
  Qed.

  (* ------------------------------------------------------------ lists *)
  Lemma nth_replace_same {A} (l : list A) i x y : nth_error l i = Some y -> nth_error (replace l i x) i = Some x.
  Proof. revert i; induction l as [|a l IH]; intros [|i]; cbn; try discriminate; auto. Qed.

  Lemma nth_replace_other {A} (l : list A) i j x : i <> j -> nth_error (replace l i x) j = nth_error l j.
  Proof.
    revert i j; induction l as [|a l IH]; intros i j H; destruct i, j; cbn; try reflexivity; try congruence.
    apply IH; lia.
  Qed.

  Lemma nth_replace_inv {A} (l : list A) i j x y : nth_error (replace l i x) j = Some y ->
    (i = j /\ y = x /\ exists z, nth_error l i = Some z) \/ (i <> j /\ nth_error l j = Some y).
  Proof.
    destruct (Nat.eq_dec i j) as [->|Hne].
    - destruct (nth_error l j) eqn:E.
      + rewrite (nth_replace_same _ _ _ _ E). intros [= <-]. left; eauto.
      + intro H. exfalso. revert j E H.
        induction l as [|a l IH]; intros [|j]; cbn; try discriminate; eauto.
    - rewrite nth_replace_other by assumption. right; auto.
  Qed.

  Lemma length_replace {A} (l : list A) i x : length (replace l i x) = length l.
  Proof. revert i; induction l as [|a l IH]; intros [|i]; cbn; auto. Qed.

  Lemma filter_snoc {A} (f : A -> bool) l x : filter f (l ++ [x]) = filter f l ++ (if f x then [x] else []).
  Proof. rewrite filter_app. cbn. destruct (f x); reflexivity. Qed.

  (* ------------------------------------------------------------ the sequential execution *)
  Lemma serial_snoc l c s0 : serial (l ++ [c]) s0 = serial_step (serial l s0) c.
  Proof. unfold SerialEq.serial. rewrite fold_left_app. reflexivity. Qed.

  (* LOCALITY: what the sequential execution does to the object of m, and the results of the operations on m,
     depend only on the operations on m and their order - operations on different locks commute *)
  Lemma fold_proj m l : forall a b,
    fst a m = fst b m -> ret_on m (snd a) = ret_on m (snd b) ->
    fst (fold_left serial_step l a) m = fst (fold_left serial_step (on_lock m l) b) m /\
    ret_on m (snd (fold_left serial_step l a)) = ret_on m (snd (fold_left serial_step (on_lock m l) b)).
  Proof.
    induction l as [|c l IH]; intros a b H1 H2; cbn [fold_left SerialEq.on_lock filter]; [auto|].
    fold (on_lock m l). destruct (lk_eqb (c_lock c) m) eqn:E.
    - apply lk_eqb_spec in E. cbn [fold_left]. apply IH.
      + unfold SerialEq.serial_step. cbn [fst]. unfold SerialEq.set. subst m. rewrite lk_refl, H1. reflexivity.
      + unfold SerialEq.serial_step. cbn [snd fst]. unfold SerialEq.ret_on in *. rewrite !filter_snoc. cbn [fst].
        subst m. rewrite lk_refl, H2, H1. reflexivity.
    - apply IH.
      + unfold SerialEq.serial_step. cbn [fst]. unfold SerialEq.set.
        destruct (lk_eqb m (c_lock c)) eqn:E2; [apply lk_eqb_spec in E2; subst; rewrite lk_refl in E; discriminate|exact H1].
      + unfold SerialEq.serial_step. cbn [snd fst]. unfold SerialEq.ret_on in *. rewrite filter_snoc. cbn [fst].
        rewrite E, app_nil_r. exact H2.
  Qed.

  Theorem serial_locality m l1 l2 s0 :
    on_lock m l1 = on_lock m l2 ->
    fst (serial l1 s0) m = fst (serial l2 s0) m /\ ret_on m (snd (serial l1 s0)) = ret_on m (snd (serial l2 s0)).
  Proof.
    intro H. unfold SerialEq.serial.
    destruct (fold_proj m l1 (s0, []) (s0, []) eq_refl eq_refl) as [A1 A2].
    destruct (fold_proj m l2 (s0, []) (s0, []) eq_refl eq_refl) as [B1 B2].
    rewrite A1, A2, B1, B2, H. auto.
  Qed.

  (* ------------------------------------------------------------ pending calls *)
  Definition contrib (m : Lk) (i : nat) (t : thread) : list call :=
    match t with
    | (Acquired, k, (m', o) :: _) => if lk_eqb m' m then [mkcall i k m' o] else []
    | _ => []
    end.

  Lemma pendcalls_cons m i0 t ts : pendcalls m i0 (t :: ts) = contrib m i0 t ++ pendcalls m (S i0) ts.
  Proof. destruct t as [[[| |] k] [|[m' o] r]]; reflexivity. Qed.

  Lemma contrib_not_held m i t : holdsb m t = false -> contrib m i t = [].
  Proof.
    destruct t as [[[| |] k] [|[m' o] r]]; cbn; try reflexivity. intro H. rewrite H. reflexivity.
  Qed.

  Lemma pend_none m (ts : list thread) : forall i0,
    (forall j t, nth_error ts j = Some t -> holdsb m t = false) -> pendcalls m i0 ts = [].
  Proof.
    induction ts as [|t ts IH]; intros i0 H; [reflexivity|].
    rewrite pendcalls_cons, (contrib_not_held m i0 t (H 0 t eq_refl)), IH; [reflexivity|].
    intros j u Hj. apply (H (S j)). exact Hj.
  Qed.

  (* only thread i may hold m: the pending calls on m are those of thread i *)
  Lemma pend_single m (ts : list thread) : forall i0 i t',
    (forall j t, j <> i -> nth_error ts j = Some t -> holdsb m t = false) ->
    i < length ts ->
    pendcalls m i0 (replace ts i t') = contrib m (i0 + i) t'.
  Proof.
    induction ts as [|t ts IH]; intros i0 i t' H Hl; [cbn in Hl; lia|].
    destruct i as [|i]; cbn [SerialEq.replace].
    - rewrite pendcalls_cons, pend_none, app_nil_r, Nat.add_0_r; [reflexivity|].
      intros j u Hj. apply (H (S j)); [lia|exact Hj].
    - rewrite pendcalls_cons, (contrib_not_held m i0 t (H 0 t ltac:(lia) eq_refl)). cbn [app].
      rewrite IH; [f_equal; lia| |cbn in Hl; lia].
      intros j u Hne Hj. apply (H (S j)); [lia|exact Hj].
  Qed.

  Lemma pend_same_contrib m (ts : list thread) : forall i0 i t t',
    nth_error ts i = Some t -> contrib m (i0 + i) t' = contrib m (i0 + i) t ->
    pendcalls m i0 (replace ts i t') = pendcalls m i0 ts.
  Proof.
    induction ts as [|u ts IH]; intros i0 i t t' Hi Hc; destruct i as [|i]; cbn in Hi; try discriminate.
    - inversion Hi; subst u. cbn [SerialEq.replace]. rewrite !pendcalls_cons. rewrite Nat.add_0_r in Hc. rewrite Hc. reflexivity.
    - cbn [SerialEq.replace]. rewrite !pendcalls_cons. f_equal. apply (IH (S i0) i t t' Hi).
      replace (S i0 + i) with (i0 + S i) by lia. exact Hc.
  Qed.

  (* ------------------------------------------------------------ the invariant *)
  Definition excl (ts : list thread) : Prop :=
    forall i j ti tj m, nth_error ts i = Some ti -> nth_error ts j = Some tj ->
      holdsb m ti = true -> holdsb m tj = true -> i = j.

  Definition bodies (s : state) : list call := map fst (hist s).

  Definition cur (i : nat) (ph : phase) (k : nat) (todo : list (Lk * Op)) (want : phase -> bool) : list call :=
    match todo with
    | (m, o) :: _ => if want ph then [mkcall i k m o] else []
    | [] => []
    end.
  Definition not_idle (p : phase) := match p with Idle => false | _ => true end.
  Definition is_applied (p : phase) := match p with Applied => true | _ => false end.

  Record inv (progs : list (list (Lk * Op))) (s0 : Lk -> St) (s : state) : Prop := {
    i_excl : excl (thr s);
    (* values: the objects and the results are those of the sequential execution in body order *)
    i_val : (forall m, st s m = fst (serial (bodies s) s0) m) /\ hist s = snd (serial (bodies s) s0);
    (* per lock, Acq order = body order, up to the call that holds the lock and has not run its body yet *)
    i_ord : forall m, on_lock m (acqs s) = on_lock m (bodies s) ++ pendcalls m 0 (thr s);
    (* program order *)
    i_len : length (thr s) = length progs;
    i_prog : forall i ph k todo, nth_error (thr s) i = Some (ph, k, todo) ->
      exists pre, nth_error progs i = Some (pre ++ todo) /\ length pre = k /\
        by_thread i (acqs s) = mkcalls i 0 pre ++ cur i ph k todo not_idle /\
        by_thread i (bodies s) = mkcalls i 0 pre ++ cur i ph k todo is_applied
  }.

  Lemma mkcalls_app i k (a b : list (Lk * Op)) : mkcalls i k (a ++ b) = mkcalls i k a ++ mkcalls i (k + length a) b.
  Proof.
    revert k; induction a as [|[m o] a IH]; intro k; cbn; [rewrite Nat.add_0_r; reflexivity|].
    rewrite IH. do 3 f_equal. lia.
  Qed.

  Lemma free_not_held m (ts : list thread) : free m ts = true -> forall j t, nth_error ts j = Some t -> holdsb m t = false.
  Proof.
    unfold SerialEq.free. rewrite forallb_forall. intros H j t Hj.
    apply nth_error_In in Hj. apply H in Hj. destruct (holdsb m t); [discriminate|reflexivity].
  Qed.

  Lemma init_inv progs s0 : inv progs s0 (init progs s0).
  Proof.
    constructor; cbn.
    - intros i j ti tj m Hi _ Hh _. rewrite nth_error_map in Hi.
      destruct (nth_error progs i); inversion Hi; subst. discriminate.
    - split; reflexivity.
    - intro m. rewrite pend_none; [reflexivity|]. intros j t Hj. rewrite nth_error_map in Hj.
      destruct (nth_error progs j); inversion Hj; subst. reflexivity.
    - apply map_length.
    - intros i ph k todo Hi. rewrite nth_error_map in Hi.
      destruct (nth_error progs i) eqn:E; inversion Hi; subst. exists []. unfold cur. cbn.
      destruct todo as [|[m o] r]; auto.
  Qed.

  Lemma by_thread_snoc i (l : list call) c :
    by_thread i (l ++ [c]) = by_thread i l ++ (if Nat.eqb (c_tid c) i then [c] else []).
  Proof. unfold by_thread. rewrite filter_snoc. reflexivity. Qed.

  Lemma excl_replace (ts : list thread) i t t' :
    excl ts -> nth_error ts i = Some t -> (forall m, holdsb m t' = true -> holdsb m t = true) ->
    excl (replace ts i t').
  Proof.
    intros Hex Hi Hsub a b ta tb m Ha Hb Hha Hhb.
    apply nth_replace_inv in Ha as [(Ea & -> & _)|(Hna & Ha)];
    apply nth_replace_inv in Hb as [(Eb & -> & _)|(Hnb & Hb)].
    - congruence.
    - subst a. eapply (Hex i b); eauto.
    - subst b. eapply (Hex a i); eauto.
    - eapply Hex; eauto.
  Qed.

  Lemma step_inv progs s0 s i s' : inv progs s0 s -> stepf s i = Some s' -> inv progs s0 s'.
  Proof.
    intros [Hex [Hv1 Hv2] Hord Hlen Hprog] Hs. unfold bodies in *. unfold SerialEq.stepf in Hs.
    destruct (nth_error (thr s) i) as [[[ph k] todo]|] eqn:Hi; [|discriminate].
    destruct todo as [|[m o] r]; [discriminate|].
    assert (Hil : i < length (thr s)) by (apply nth_error_Some; congruence).
    destruct ph.
    - (* Acq *)
      destruct (free m (thr s)) eqn:Hf; [|discriminate]. inversion Hs; subst s'; clear Hs.
      pose proof (free_not_held _ _ Hf) as Hnh.
      constructor; unfold bodies; cbn [thr st acqs hist].
      + intros a b ta tb m' Ha Hb Hha Hhb.
        apply nth_replace_inv in Ha as [(-> & -> & _)|(Hna & Ha)];
        apply nth_replace_inv in Hb as [(Eb & -> & _)|(Hnb & Hb)]; try congruence.
        * cbn in Hha. apply lk_eqb_spec in Hha. subst m'. rewrite (Hnh _ _ Hb) in Hhb. discriminate.
        * cbn in Hhb. apply lk_eqb_spec in Hhb. subst m'. rewrite (Hnh _ _ Ha) in Hha. discriminate.
        * eapply Hex; eauto.
      + split; assumption.
      + intro m'. unfold SerialEq.on_lock. rewrite filter_snoc. cbn [c_lock]. fold (on_lock m' (acqs s)). rewrite Hord.
        destruct (lk_eqb m m') eqn:E.
        * apply lk_eqb_spec in E. subst m'.
          rewrite (pend_none m (thr s) 0 Hnh), app_nil_r.
          rewrite pend_single; [cbn; rewrite lk_refl; reflexivity| |exact Hil].
          intros j t _ Hj. eapply Hnh; eauto.
        * rewrite app_nil_r. f_equal. symmetry. apply (pend_same_contrib m' (thr s) 0 i _ _ Hi).
          cbn. rewrite E. reflexivity.
      + rewrite length_replace. exact Hlen.
      + intros j ph' k' todo' Hj. apply nth_replace_inv in Hj as [(-> & E & _)|(Hne & Hj)].
        * inversion E; subst. destruct (Hprog _ _ _ _ Hi) as (pre & P1 & P2 & P3 & P4).
          exists pre. split; [exact P1|split; [exact P2|split]].
          -- rewrite by_thread_snoc. cbn [c_tid]. rewrite Nat.eqb_refl, P3. unfold cur. cbn. rewrite app_nil_r. reflexivity.
          -- rewrite P4. reflexivity.
        * destruct (Hprog _ _ _ _ Hj) as (pre & P1 & P2 & P3 & P4).
          exists pre. split; [exact P1|split; [exact P2|split; [|exact P4]]].
          rewrite by_thread_snoc. cbn [c_tid]. rewrite (proj2 (Nat.eqb_neq i j) Hne), app_nil_r. exact P3.
    - (* body *)
      inversion Hs; subst s'; clear Hs.
      assert (Hothers : forall j t, j <> i -> nth_error (thr s) j = Some t -> holdsb m t = false).
      { intros j t Hne Hj. destruct (holdsb m t) eqn:E; [|reflexivity]. exfalso. apply Hne.
        eapply (Hex j i); eauto. cbn. apply lk_refl. }
      constructor; unfold bodies; cbn [thr st acqs hist].
      + eapply excl_replace; [exact Hex|exact Hi|]. intros m' H. exact H.
      + rewrite map_app. cbn [map fst]. rewrite serial_snoc. split.
        * intro m'. unfold SerialEq.serial_step. cbn [fst c_lock c_op]. unfold SerialEq.set.
          rewrite <- (Hv1 m). destruct (lk_eqb m' m); [reflexivity|apply Hv1].
        * unfold SerialEq.serial_step. cbn [snd fst c_lock c_op]. rewrite <- (Hv1 m), <- Hv2. reflexivity.
      + intro m'. rewrite map_app. cbn [map fst]. fold (bodies s).
        unfold SerialEq.on_lock at 2. rewrite filter_snoc. cbn [c_lock]. fold (on_lock m' (map fst (hist s))). rewrite Hord.
        destruct (lk_eqb m m') eqn:E.
        * apply lk_eqb_spec in E. subst m'. rewrite <- app_assoc. f_equal.
          rewrite (pend_single m (thr s) 0 i (Applied, k, (m, o) :: r) Hothers Hil). cbn. rewrite ?app_nil_r.
          (* before the step the only pending call on m was this one *)
          assert (R : replace (thr s) i (Acquired, k, (m, o) :: r) = thr s).
          { clear -Hi. revert i Hi. induction (thr s) as [|t ts IH]; intros [|i] Hi; cbn in *; try discriminate.
            - inversion Hi; reflexivity.
            - rewrite IH; auto. }
          rewrite <- R at 1. rewrite (pend_single m (thr s) 0 i _ Hothers Hil). cbn. rewrite lk_refl. reflexivity.
        * rewrite app_nil_r. f_equal. symmetry. apply (pend_same_contrib m' (thr s) 0 i _ _ Hi).
          cbn. rewrite E. reflexivity.
      + rewrite length_replace. exact Hlen.
      + intros j ph' k' todo' Hj. apply nth_replace_inv in Hj as [(-> & E & _)|(Hne & Hj)].
        * inversion E; subst. destruct (Hprog _ _ _ _ Hi) as (pre & P1 & P2 & P3 & P4).
          exists pre. split; [exact P1|split; [exact P2|split; [exact P3|]]].
          rewrite map_app. cbn [map fst]. rewrite by_thread_snoc. cbn [c_tid].
          rewrite Nat.eqb_refl, P4. unfold cur. cbn. rewrite app_nil_r. reflexivity.
        * destruct (Hprog _ _ _ _ Hj) as (pre & P1 & P2 & P3 & P4).
          exists pre. split; [exact P1|split; [exact P2|split; [exact P3|]]].
          rewrite map_app. cbn [map fst]. rewrite by_thread_snoc. cbn [c_tid].
          rewrite (proj2 (Nat.eqb_neq i j) Hne), app_nil_r. exact P4.
    - (* release *)
      inversion Hs; subst s'; clear Hs.
      constructor; unfold bodies; cbn [thr st acqs hist].
      + eapply excl_replace; [exact Hex|exact Hi|]. intros m' H. discriminate.
      + split; assumption.
      + intro m'. rewrite Hord. f_equal. symmetry. apply (pend_same_contrib m' (thr s) 0 i _ _ Hi).
        cbn. destruct (lk_eqb m m'); reflexivity.
      + rewrite length_replace. exact Hlen.
      + intros j ph' k' todo' Hj. apply nth_replace_inv in Hj as [(-> & E & _)|(Hne & Hj)].
        * inversion E; subst. destruct (Hprog _ _ _ _ Hi) as (pre & P1 & P2 & P3 & P4).
          exists (pre ++ [(m, o)]). rewrite <- app_assoc. cbn [app]. split; [exact P1|split; [|split]].
          -- rewrite app_length. cbn. lia.
          -- rewrite P3, mkcalls_app. unfold cur. cbn. rewrite ?Nat.add_0_l, ?P2.
             destruct r as [|[m2 o2] r2]; rewrite ?app_nil_r; reflexivity.
          -- rewrite P4, mkcalls_app. unfold cur. cbn. rewrite ?Nat.add_0_l, ?P2.
             destruct r as [|[m2 o2] r2]; rewrite ?app_nil_r; reflexivity.
        * apply Hprog. exact Hj.
  Qed.

  Lemma run_inv progs s0 sched : forall s s', inv progs s0 s -> run sched s = Some s' -> inv progs s0 s'.
  Proof.
    induction sched as [|i sched IH]; intros s s' Hinv Hr; cbn in Hr.
    - inversion Hr; subst; exact Hinv.
    - destruct (stepf s i) as [s1|] eqn:E; [|discriminate]. eapply IH; [|exact Hr]. eapply step_inv; eauto.
  Qed.

  Lemma finished_thread (s : state) i t : finished s = true -> nth_error (thr s) i = Some t -> exists k, t = (Idle, k, []).
  Proof.
    unfold finished. rewrite forallb_forall. intros H Hi. apply nth_error_In in Hi. apply H in Hi.
    destruct t as [[[| |] k] [|x r]]; try discriminate. eauto.
  Qed.

  (* SERIAL EQUIVALENCE. For every schedule that runs all threads to completion: let [lin] be the calls in the
     order of their Acq steps. Then
     (1) lin contains, for every thread, exactly its program, in program order;
     (2) every object ends in the state the one-at-a-time execution of lin leaves it in;
     (3) per object, the operations ran in that order and returned what the one-at-a-time execution returns;
     (4) hence every operation got exactly the result it gets in the one-at-a-time execution of lin. *)
  Theorem serial_equivalence progs s0 sched (s : state) :
    run sched (init progs s0) = Some s -> finished s = true ->
    (forall i p, nth_error progs i = Some p -> by_thread i (acqs s) = mkcalls i 0 p) /\
    (forall m, st s m = fst (serial (acqs s) s0) m) /\
    (forall m, ret_on m (hist s) = ret_on m (snd (serial (acqs s) s0))) /\
    (forall x, In x (hist s) <-> In x (snd (serial (acqs s) s0))).
  Proof.
    intros Hr Hf. pose proof (run_inv progs s0 sched _ _ (init_inv progs s0) Hr) as [Hex [Hv1 Hv2] Hord Hlen Hprog].
    assert (Hnopend : forall m, pendcalls m 0 (thr s) = []).
    { intro m. apply pend_none. intros j t Hj. destruct (finished_thread _ _ _ Hf Hj) as [k ->]. reflexivity. }
    assert (Hsame : forall m, on_lock m (acqs s) = on_lock m (bodies s)).
    { intro m. rewrite Hord, Hnopend, app_nil_r. reflexivity. }
    assert (H3 : forall m, ret_on m (hist s) = ret_on m (snd (serial (acqs s) s0))).
    { intro m. destruct (serial_locality m _ _ s0 (Hsame m)) as [_ L2]. rewrite L2, <- Hv2. reflexivity. }
    split; [|split; [|split]].
    - intros i p Hp.
      assert (Hi : i < length (thr s)) by (rewrite Hlen; apply nth_error_Some; congruence).
      destruct (nth_error (thr s) i) as [t|] eqn:E; [|apply nth_error_None in E; lia].
      destruct (finished_thread _ _ _ Hf E) as [k ->].
      destruct (Hprog _ _ _ _ E) as (pre & P1 & _ & P3 & _).
      rewrite Hp in P1. inversion P1; subst p. rewrite P3. unfold cur. rewrite !app_nil_r. reflexivity.
    - intro m. destruct (serial_locality m _ _ s0 (Hsame m)) as [L1 _]. rewrite L1. apply Hv1.
    - exact H3.
    - intro x. split; intro Hx.
      + assert (Hx' : In x (ret_on (c_lock (fst x)) (hist s))) by (apply filter_In; split; [exact Hx|apply lk_refl]).
        rewrite H3 in Hx'. apply filter_In in Hx'. tauto.
      + assert (Hx' : In x (ret_on (c_lock (fst x)) (snd (serial (acqs s) s0)))) by (apply filter_In; split; [exact Hx|apply lk_refl]).
        rewrite <- H3 in Hx'. apply filter_In in Hx'. tauto.
  Qed.

  (* the same with the linearization point at the body: then the history IS the sequential one, entry by entry *)
  Theorem serial_equivalence_body_order progs s0 sched (s : state) :
    run sched (init progs s0) = Some s ->
    (forall m, st s m = fst (serial (map fst (hist s)) s0) m) /\ hist s = snd (serial (map fst (hist s)) s0).
  Proof.
    intro Hr. pose proof (run_inv progs s0 sched _ _ (init_inv progs s0) Hr) as [_ Hv _ _ _]. exact Hv.
  Qed.

  (* mutual exclusion at the value level, for completeness *)
  Theorem at_most_one_holder progs s0 sched (s : state) i j ti tj m :
    run sched (init progs s0) = Some s ->
    nth_error (thr s) i = Some ti -> nth_error (thr s) j = Some tj ->
    holdsb m ti = true -> holdsb m tj = true -> i = j.
  Proof.
    intro Hr. pose proof (run_inv progs s0 sched _ _ (init_inv progs s0) Hr) as [Hex _ _ _ _]. apply Hex.
  Qed.
End Proofs.
