(* C20, parser half: every scanner of Model/PlayParse.v is characterised by the split of the line
   it finds (scan_*_spec, for all byte strings), and from that: parse_line is the unique item the
   declarative grammar LineSpec allows for a text line. *)
From Coq Require Import Sorted.
From Relay Require Import Base.Prelude Model.Filter Model.PlayParse.
Local Open Scope string_scope.

Arguments ltrim : simpl never.
Arguments take_line : simpl never.

(* ---------------------------------------------------------------- strings *)
Lemma app_assoc_s (a b c : string) : (a ++ b) ++ c = a ++ b ++ c.
Proof. induction a as [|x a IH]; cbn; [reflexivity|rewrite IH; reflexivity]. Qed.

Lemma app_nil_r_s (a : string) : a ++ "" = a.
Proof. induction a as [|x a IH]; cbn; [reflexivity|rewrite IH; reflexivity]. Qed.

Lemma allb_app p a b : allb p (a ++ b) = allb p a && allb p b.
Proof. induction a as [|x a IH]; cbn; [reflexivity|rewrite IH, andb_assoc; reflexivity]. Qed.

Lemma anyb_app p a b : anyb p (a ++ b) = anyb p a || anyb p b.
Proof. induction a as [|x a IH]; cbn; [reflexivity|rewrite IH, orb_assoc; reflexivity]. Qed.

Lemma nofirst_cons p c s : nofirst p (String c s) <-> p c = false.
Proof. reflexivity. Qed.

Lemma nofirst_app p a b : nofirst p a -> nofirst p b -> nofirst p (a ++ b).
Proof. destruct a; cbn; auto. Qed.

(* a run of class q does not start with a byte of a disjoint class p *)
Lemma nofirst_run p q a b :
  (forall c, q c = true -> p c = false) -> allb q a = true -> nofirst p b -> nofirst p (a ++ b).
Proof.
  intros D Ha Hb. destruct a as [|c a]; cbn in *; [exact Hb|].
  apply andb_prop in Ha as [Hc _]. apply D; exact Hc.
Qed.

(* ---------------------------------------------------------------- span *)
Lemma span_eq p s a b : span p s = (a, b) -> s = a ++ b /\ allb p a = true /\ nofirst p b.
Proof.
  revert a b; induction s as [|c s IH]; intros a b H; cbn in H.
  - injection H as <- <-. repeat split.
  - destruct (p c) eqn:Pc.
    + destruct (span p s) as [a' b'] eqn:E. injection H as <- <-.
      destruct (IH a' b' eq_refl) as (-> & Ha & Hb). cbn. rewrite Pc, Ha. repeat split; assumption.
    + injection H as <- <-. cbn. repeat split. exact Pc.
Qed.

Lemma span_intro p a b : allb p a = true -> nofirst p b -> span p (a ++ b) = (a, b).
Proof.
  induction a as [|c a IH]; cbn; intros Ha Hb.
  - destruct b as [|x b]; cbn in *; [reflexivity|rewrite Hb; reflexivity].
  - apply andb_prop in Ha as [Hc Ha]. rewrite Hc, (IH Ha Hb). reflexivity.
Qed.

Lemma span_all p s : allb p s = true -> span p s = (s, "").
Proof. intros H. rewrite <- (app_nil_r_s s) at 1. apply span_intro; [exact H|exact I]. Qed.

(* a run followed by more text: the scan of the whole is the run plus the scan of the rest *)
Lemma span_run p a b : allb p a = true -> span p (a ++ b) = (a ++ fst (span p b), snd (span p b)).
Proof.
  induction a as [|c a IH]; cbn; intros Ha; [destruct (span p b); reflexivity|].
  apply andb_prop in Ha as [Hc Ha]. rewrite Hc, (IH Ha). reflexivity.
Qed.

Lemma ltrim_eq l : exists pre, l = pre ++ ltrim l /\ blank pre /\ nofirst is_ws (ltrim l).
Proof.
  unfold ltrim. destruct (span is_ws l) as [a b] eqn:E. apply span_eq in E as (-> & Ha & Hb).
  exists a. repeat split; assumption.
Qed.

Lemma ltrim_intro pre r : blank pre -> nofirst is_ws r -> ltrim (pre ++ r) = r.
Proof. intros Hp Hr. unfold ltrim. rewrite (span_intro _ _ _ Hp Hr). reflexivity. Qed.

Lemma ltrim_id r : nofirst is_ws r -> ltrim r = r.
Proof. intros Hr. apply (ltrim_intro "" r); [reflexivity|exact Hr]. Qed.

Lemma take_line_id s : no_nl s -> take_line s = s.
Proof. intros H. unfold take_line. rewrite (span_all _ _ H). reflexivity. Qed.

Lemma take_line_no_nl s : no_nl (take_line s).
Proof.
  unfold take_line. destruct (span not_nl s) as [a b] eqn:E. apply span_eq in E as (_ & Ha & _). exact Ha.
Qed.

Lemma take_line_eq s : exists rest, s = take_line s ++ rest.
Proof.
  unfold take_line. destruct (span not_nl s) as [a b] eqn:E. apply span_eq in E as (-> & _ & _).
  exists b; reflexivity.
Qed.

Lemma expect_some c s r : expect c s = Some r <-> s = String c r.
Proof.
  destruct s as [|c' s]; cbn; [split; discriminate|].
  destruct (Ascii.eqb c c') eqn:E.
  - apply Ascii.eqb_eq in E; subst c'. split; intros H; injection H as ->; reflexivity.
  - apply Ascii.eqb_neq in E. split; [discriminate|intros H; injection H as -> _; contradiction].
Qed.

Lemma expect_same c r : expect c (String c r) = Some r.
Proof. apply expect_some; reflexivity. Qed.

(* ---------------------------------------------------------------- byte classes *)
Ltac bytes c := destruct c as [[] [] [] [] [] [] [] []]; vm_compute; try reflexivity; try discriminate.

Lemma hash_is c : is_hash c = true -> c = "#"%char.            Proof. bytes c. Qed.
Lemma gt_is c : is_gt c = true -> c = ">"%char.                Proof. bytes c. Qed.
Lemma quote_is c : is_quote c = true -> c = "'"%char.          Proof. bytes c. Qed.
Lemma hash_not_ws c : is_hash c = true -> is_ws c = false.     Proof. bytes c. Qed.
Lemma pm_not_ws c : is_pm c = true -> is_ws c = false.         Proof. bytes c. Qed.
Lemma pm_not_hash c : is_pm c = true -> is_hash c = false.     Proof. bytes c. Qed.
Lemma ws_not_hash c : is_ws c = true -> is_hash c = false.     Proof. bytes c. Qed.
Lemma ws_not_pm c : is_ws c = true -> is_pm c = false.         Proof. bytes c. Qed.
Lemma alnumdot_not_ws c : is_alnumdot c = true -> is_ws c = false. Proof. bytes c. Qed.
Lemma digit_not_ws c : is_digit c = true -> is_ws c = false.   Proof. bytes c. Qed.
Lemma durch_not_ws c : is_durch c = true -> is_ws c = false.   Proof. bytes c. Qed.
Lemma verbch_not_ws c : is_verbch c = true -> is_ws c = false. Proof. bytes c. Qed.

(* ---------------------------------------------------------------- \s*(class* )\s* before a literal *)
Lemma mid_run p b1 d b2 R :
  (forall c, p c = true -> is_ws c = false) ->
  blank b1 -> allb p d = true -> blank b2 -> nofirst is_ws R -> nofirst p R ->
  exists r, span p (ltrim (b1 ++ d ++ b2 ++ R)) = (d, r) /\ ltrim r = R.
Proof.
  intros D B1 Hd B2 Rw Rp. destruct d as [|c d].
  - cbn [append]. rewrite <- app_assoc_s.
    rewrite ltrim_intro by (try exact Rw; unfold blank; rewrite allb_app, B1, B2; reflexivity).
    exists R. split; [apply (span_intro p "" R); [reflexivity|exact Rp]|apply ltrim_id; exact Rw].
  - cbn in Hd. apply andb_prop in Hd as [Hc Hd].
    rewrite ltrim_intro by (try exact B1; cbn; apply D; exact Hc).
    exists (b2 ++ R). split.
    + change (String c d ++ b2 ++ R) with (String c d ++ (b2 ++ R)).
      apply span_intro; [cbn; rewrite Hc, Hd; reflexivity|].
      destruct b2 as [|x b2]; [exact Rp|]. cbn in B2 |- *. apply andb_prop in B2 as [Hx _].
      destruct (p x) eqn:Px; [|reflexivity]. rewrite (D x Px) in Hx; discriminate.
    + apply ltrim_intro; assumption.
Qed.

(* the converse split:  scanning  \s* class* \s*  yields blank, run, blank *)
Lemma mid_split p s d r :
  span p (ltrim s) = (d, r) ->
  exists b1 b2, s = b1 ++ d ++ b2 ++ ltrim r /\ blank b1 /\ allb p d = true /\ blank b2 /\ nofirst is_ws (ltrim r).
Proof.
  intros E. destruct (ltrim_eq s) as (b1 & Es & B1 & _). apply span_eq in E as (E & Hd & _).
  destruct (ltrim_eq r) as (b2 & Er & B2 & Nr).
  exists b1, b2. repeat split; try assumption. rewrite <- Er, <- E. exact Es.
Qed.

(* ---------------------------------------------------------------- the quoted pattern *)
Lemma qbody_sound n : forall s a b, String.length s <= n -> qbody s = (a, b) -> s = a ++ b /\ qpat a.
Proof.
  induction n as [|n IH]; intros s a b Hn H.
  - destruct s; [|cbn in Hn; lia]. cbn in H. injection H as <- <-. split; [reflexivity|constructor].
  - destruct s as [|c s]; cbn in H.
    + injection H as <- <-. split; [reflexivity|constructor].
    + cbn in Hn. destruct (is_quote c) eqn:Q.
      * injection H as <- <-. split; [reflexivity|constructor].
      * destruct (is_bslash c) eqn:B.
        -- destruct s as [|c2 s2]; [injection H as <- <-; split; [reflexivity|constructor]|].
           destruct (not_nl c2) eqn:NL; [|injection H as <- <-; split; [reflexivity|constructor]].
           destruct (qbody s2) as [a' b'] eqn:E. injection H as <- <-.
           cbn in Hn. destruct (IH s2 a' b' ltac:(lia) E) as (-> & Qa).
           split; [reflexivity|apply qp_esc; assumption].
        -- destruct (qbody s) as [a' b'] eqn:E. injection H as <- <-.
           destruct (IH s a' b' ltac:(lia) E) as (-> & Qa).
           split; [reflexivity|apply qp_chr; assumption].
Qed.

Lemma qbody_stops s a b : qbody s = (a, b) -> s = a ++ b /\ qpat a.
Proof. apply (qbody_sound (String.length s)); lia. Qed.

Lemma qbody_complete a r : qpat a -> qbody (a ++ String "'" r) = (a, String "'" r).
Proof.
  induction 1 as [|c s Q B _ IH|c c2 s B NL _ IH]; cbn [append qbody].
  - reflexivity.
  - rewrite Q, B, IH. reflexivity.
  - assert (Q : is_quote c = false) by (revert B; bytes c).
    rewrite Q, B, NL, IH. reflexivity.
Qed.

(* ================================================================ the scanners, for ALL byte strings *)
Ltac step_expect H c E r :=
  match type of H with
  | context [expect c ?X] => destruct (expect c X) as [r|] eqn:E; cbn [bind] in H; [apply expect_some in E|discriminate]
  end.

(* mre *)
Lemma scan_comment_spec l f msg :
  scan_comment l = Some (f, msg) <-> exists m, comment_form l f m /\ msg = take_line m.
Proof.
  split.
  - unfold scan_comment. destruct (ltrim_eq l) as (pre & El & Bp & _).
    destruct (span is_hash (ltrim l)) as [h r1] eqn:E1.
    destruct h as [|c h]; [discriminate|].
    destruct (span is_pm r1) as [f' r2] eqn:E2. intros H; injection H as <- <-.
    apply span_eq in E1 as (E1 & Hh & N1). apply span_eq in E2 as (E2 & Hf & N2).
    destruct (ltrim_eq r2) as (b & Er2 & Bb & Nm).
    exists (ltrim r2). split; [|reflexivity].
    exists pre, (String c h), b. repeat split; try assumption.
    + rewrite <- Er2, <- E2, <- E1. exact El.
    + discriminate.
    + rewrite <- Er2, <- E2. exact N1.
    + rewrite <- Er2. exact N2.
  - intros (m & (pre & h & b & El & Bp & Hh & Hne & Hf & Bb & N1 & N2 & Nm) & ->). subst l.
    destruct h as [|c h]; [contradiction|]. unfold scan_comment.
    rewrite ltrim_intro; [|exact Bp|cbn in Hh |- *; apply andb_prop in Hh as [Hc _]; apply hash_not_ws; exact Hc].
    change (String c h ++ f ++ b ++ m) with (String c h ++ (f ++ b ++ m)).
    rewrite (span_intro _ _ _ Hh N1). cbv beta iota.
    change (f ++ b ++ m) with (f ++ (b ++ m)).
    rewrite (span_intro _ _ _ Hf N2). rewrite (ltrim_intro _ _ Bb Nm). reflexivity.
Qed.

(* dre *)
Lemma scan_delay_spec l d msg :
  scan_delay l = Some (d, msg) <-> exists m, delay_form l d m /\ msg = take_line m.
Proof.
  split.
  - unfold scan_delay. intros H. destruct (ltrim_eq l) as (pre & El & Bp & _).
    step_expect H "["%char E1 r1.
    destruct (span is_alnumdot (ltrim r1)) as [d' r2] eqn:E2.
    step_expect H "]"%char E3 r3. injection H as <- <-.
    apply mid_split in E2 as (b1 & b2 & Er1 & B1 & Hd & B2 & _).
    destruct (ltrim_eq r3) as (b3 & Er3 & B3 & Nm).
    exists (ltrim r3); split; [|reflexivity]. exists pre, b1, b2, b3. repeat split; try assumption.
    cbn [append]. rewrite <- Er3, <- E3, <- Er1, <- E1. exact El.
  - intros (m & (pre & b1 & b2 & b3 & El & Bp & B1 & Hd & B2 & B3 & Nm) & ->). subst l.
    cbn [append]. unfold scan_delay.
    rewrite (ltrim_intro pre _ Bp) by reflexivity. rewrite expect_same. cbn [bind].
    destruct (mid_run is_alnumdot b1 d b2 (String "]" (b3 ++ m)) alnumdot_not_ws B1 Hd B2 eq_refl eq_refl)
      as (r & Es & Er).
    rewrite Es, Er, expect_same. cbn [bind]. rewrite (ltrim_intro _ _ B3 Nm). reflexivity.
Qed.

(* cfre *)
Lemma scan_cond_spec l p n t msg :
  scan_cond l = Some (p, n, t, msg) <-> exists m, cond_form l p n t m /\ msg = take_line m.
Proof.
  split.
  - unfold scan_cond. intros H. destruct (ltrim_eq l) as (pre & El & Bp & _).
    step_expect H "<"%char E0 r0.
    destruct (ltrim_eq r0) as (b0 & Er0 & B0 & _).
    step_expect H "'"%char E1 r1.
    destruct (qbody r1) as [p' r2] eqn:Eq.
    step_expect H "'"%char E2 r3.
    destruct (ltrim_eq r3) as (b1 & Er3 & B1 & _).
    step_expect H ","%char E3 r4.
    destruct (span is_digit (ltrim r4)) as [n' r5] eqn:E4.
    step_expect H ","%char E5 r6.
    destruct (span is_durch (ltrim r6)) as [t' r7] eqn:E6.
    step_expect H ">"%char E7 r8. injection H as <- <- <- <-.
    apply qbody_stops in Eq as (Eq & Qp).
    apply mid_split in E4 as (b2 & b3 & Er4 & B2 & Hn & B3 & _).
    apply mid_split in E6 as (b4 & b5 & Er6 & B4 & Ht & B5 & _).
    destruct (ltrim_eq r8) as (b6 & Er8 & B6 & Nm).
    exists (ltrim r8); split; [|reflexivity].
    exists pre, b0, b1, b2, b3, b4, b5, b6. repeat split; try assumption.
    cbn [append].
    rewrite <- Er8, <- E7, <- Er6, <- E5, <- Er4, <- E3, <- Er3, <- E2, <- Eq, <- E1, <- Er0, <- E0. exact El.
  - intros (m & (pre & b0 & b1 & b2 & b3 & b4 & b5 & b6 & El & Bp & B0 & Qp & B1 & B2 & Hn & B3 & B4 & Ht & B5 & B6 & Nm) & ->).
    subst l. cbn [append]. unfold scan_cond.
    rewrite (ltrim_intro pre _ Bp) by reflexivity. rewrite expect_same. cbn [bind].
    rewrite (ltrim_intro b0 _ B0) by reflexivity. rewrite expect_same. cbn [bind].
    rewrite (qbody_complete _ _ Qp). cbv beta iota. rewrite expect_same. cbn [bind].
    rewrite (ltrim_intro b1 _ B1) by reflexivity. rewrite expect_same. cbn [bind].
    destruct (mid_run is_digit b2 n b3 (String "," (b4 ++ t ++ b5 ++ String ">" (b6 ++ m)))
                digit_not_ws B2 Hn B3 eq_refl eq_refl) as (r & Es & Er).
    rewrite Es, Er, expect_same. cbn [bind].
    destruct (mid_run is_durch b4 t b5 (String ">" (b6 ++ m)) durch_not_ws B4 Ht B5 eq_refl eq_refl)
      as (r' & Es' & Er').
    rewrite Es', Er', expect_same. cbn [bind]. rewrite (ltrim_intro _ _ B6 Nm). reflexivity.
Qed.

(* fre *)
Lemma scan_filter_spec l v msg :
  scan_filter l = Some (v, msg) <-> exists a, filter_form l v a /\ msg = take_line a.
Proof.
  split.
  - unfold scan_filter. intros H. destruct (ltrim_eq l) as (pre & El & Bp & _).
    step_expect H "|"%char E1 r1.
    destruct (span is_verbch (ltrim r1)) as [v' r2] eqn:E2.
    destruct v' as [|c v']; [discriminate|].
    step_expect H ">"%char E3 r3. injection H as <- <-.
    apply mid_split in E2 as (b1 & b2 & Er1 & B1 & Hv & B2 & _).
    destruct (ltrim_eq r3) as (b3 & Er3 & B3 & Nm).
    exists (ltrim r3); split; [|reflexivity]. exists pre, b1, b2, b3. repeat split; try assumption.
    + cbn [append]. rewrite <- Er3, <- E3. cbn [append] in Er1. rewrite <- Er1, <- E1. exact El.
    + discriminate.
  - intros (a & (pre & b1 & b2 & b3 & El & Bp & B1 & Hv & Hne & B2 & B3 & Nm) & ->). subst l.
    cbn [append]. unfold scan_filter.
    rewrite (ltrim_intro pre _ Bp) by reflexivity. rewrite expect_same. cbn [bind].
    destruct (mid_run is_verbch b1 v b2 (String ">" (b3 ++ a)) verbch_not_ws B1 Hv B2 eq_refl eq_refl)
      as (r & Es & Er).
    rewrite Es. destruct v as [|c v]; [contradiction|]. cbv beta iota.
    rewrite Er, expect_same. cbn [bind]. rewrite (ltrim_intro _ _ B3 Nm). reflexivity.
Qed.

(* cire *)
Lemma anyb_split p s : anyb p s = true -> exists x c y, s = x ++ String c y /\ p c = true.
Proof.
  induction s as [|c s IH]; cbn; [discriminate|]. destruct (p c) eqn:Pc.
  - intros _. exists "", c, s. split; [reflexivity|exact Pc].
  - cbn. intros H. destruct (IH H) as (x & c' & y & -> & Hc). exists (String c x), c', y. split; [reflexivity|exact Hc].
Qed.

Lemma cond_gate_spec l : cond_gate l = true <-> cond_gate_form l.
Proof.
  split.
  - unfold cond_gate. destruct (ltrim_eq l) as (pre & El & Bp & _).
    destruct (expect "<" (ltrim l)) as [r|] eqn:E; [|discriminate]. apply expect_some in E.
    intros H. apply anyb_split in H as (x & c & y & Ex & Hc). apply gt_is in Hc; subst c.
    destruct (take_line_eq r) as (rest & Er).
    pose proof (take_line_no_nl r) as NL. rewrite Ex in NL. unfold no_nl in NL. rewrite allb_app in NL.
    apply andb_prop in NL as [NLx _].
    exists pre, x, (y ++ rest). repeat split; try assumption.
    cbn [append]. rewrite El, E, Er, Ex. rewrite app_assoc_s. reflexivity.
  - intros (pre & x & y & -> & Bp & NLx). cbn [append]. unfold cond_gate.
    rewrite (ltrim_intro pre _ Bp) by reflexivity. rewrite expect_same.
    unfold take_line. rewrite (span_run _ _ _ NLx). cbn [fst].
    rewrite anyb_app. cbn [span]. change (not_nl ">") with true. cbv iota.
    destruct (span not_nl y). cbn. apply orb_true_r.
Qed.

(* ---------------------------------------------------------------- text lines (no newline inside) *)
Lemma no_nl_suffix a b : no_nl (a ++ b) -> no_nl b.
Proof. unfold no_nl. rewrite allb_app. intros H; apply andb_prop in H as [_ H]; exact H. Qed.

Lemma no_nl_prefix a b : no_nl (a ++ b) -> no_nl a.
Proof. unfold no_nl. rewrite allb_app. intros H; apply andb_prop in H as [H _]; exact H. Qed.

Lemma no_nl_cons c s : no_nl (String c s) -> no_nl s.
Proof. unfold no_nl. cbn. intros H; apply andb_prop in H as [_ H]; exact H. Qed.

Ltac to_tail H := repeat first [apply no_nl_cons in H | apply no_nl_suffix in H].

Lemma comment_msg l f m : no_nl l -> comment_form l f m -> take_line m = m.
Proof. intros NL (pre & h & b & -> & _). apply take_line_id. to_tail NL. exact NL. Qed.

Lemma delay_msg l d m : no_nl l -> delay_form l d m -> take_line m = m.
Proof. intros NL (pre & b1 & b2 & b3 & -> & _). apply take_line_id. cbn [append] in NL. to_tail NL. exact NL. Qed.

Lemma cond_msg l p n t m : no_nl l -> cond_form l p n t m -> take_line m = m.
Proof.
  intros NL (pre & b0 & b1 & b2 & b3 & b4 & b5 & b6 & -> & _). apply take_line_id.
  cbn [append] in NL. to_tail NL. exact NL.
Qed.

Lemma filter_msg l v a : no_nl l -> filter_form l v a -> take_line a = a.
Proof. intros NL (pre & b1 & b2 & b3 & -> & _). apply take_line_id. cbn [append] in NL. to_tail NL. exact NL. Qed.

Lemma cond_form_gate l p n t m : no_nl l -> cond_form l p n t m -> cond_gate_form l.
Proof.
  intros NL (pre & b0 & b1 & b2 & b3 & b4 & b5 & b6 & El & Bp & _).
  assert (E : l = pre ++ "<" ++ (b0 ++ "'" ++ p ++ "'" ++ b1 ++ "," ++ b2 ++ n ++ b3 ++ "," ++ b4 ++ t ++ b5)
                     ++ ">" ++ b6 ++ m).
  { rewrite El. cbn [append]. repeat first [rewrite app_assoc_s | progress cbn [append]]. reflexivity. }
  exists pre, (b0 ++ "'" ++ p ++ "'" ++ b1 ++ "," ++ b2 ++ n ++ b3 ++ "," ++ b4 ++ t ++ b5), (b6 ++ m).
  repeat split; try assumption.
  rewrite E in NL. apply no_nl_suffix in NL. cbn [append] in NL. apply no_nl_cons in NL.
  apply no_nl_prefix in NL. exact NL.
Qed.

(* ---------------------------------------------------------------- the four commands exclude each other:
   each is decided by the first byte after the leading blanks *)
Definition head_nb (l : string) : option ascii :=
  match ltrim l with String c _ => Some c | EmptyString => None end.

Lemma head_intro pre c r : blank pre -> is_ws c = false -> head_nb (pre ++ String c r) = Some c.
Proof. intros Bp Hc. unfold head_nb. rewrite ltrim_intro by assumption. reflexivity. Qed.

Lemma comment_head l f m : comment_form l f m -> head_nb l = Some "#"%char.
Proof.
  intros (pre & h & b & -> & Bp & Hh & Hne & _). destruct h as [|c h]; [contradiction|].
  cbn in Hh. apply andb_prop in Hh as [Hc _]. cbn [append].
  rewrite head_intro; [|exact Bp|apply hash_not_ws; exact Hc]. apply hash_is in Hc; subst; reflexivity.
Qed.

Lemma delay_head l d m : delay_form l d m -> head_nb l = Some "["%char.
Proof. intros (pre & b1 & b2 & b3 & -> & Bp & _). cbn [append]. apply head_intro; [exact Bp|reflexivity]. Qed.

Lemma gate_head l : cond_gate_form l -> head_nb l = Some "<"%char.
Proof. intros (pre & x & y & -> & Bp & _). cbn [append]. apply head_intro; [exact Bp|reflexivity]. Qed.

Lemma filter_head l v a : filter_form l v a -> head_nb l = Some "|"%char.
Proof. intros (pre & b1 & b2 & b3 & -> & Bp & _). cbn [append]. apply head_intro; [exact Bp|reflexivity]. Qed.

Lemma comment_none l c : head_nb l = Some c -> c <> "#"%char -> scan_comment l = None.
Proof.
  intros H N. destruct (scan_comment l) as [[f m]|] eqn:E; [|reflexivity].
  apply scan_comment_spec in E as (m' & F & _). apply comment_head in F. congruence.
Qed.

Lemma delay_none l c : head_nb l = Some c -> c <> "["%char -> scan_delay l = None.
Proof.
  intros H N. destruct (scan_delay l) as [[f m]|] eqn:E; [|reflexivity].
  apply scan_delay_spec in E as (m' & F & _). apply delay_head in F. congruence.
Qed.

Lemma gate_false l c : head_nb l = Some c -> c <> "<"%char -> cond_gate l = false.
Proof.
  intros H N. destruct (cond_gate l) eqn:E; [|reflexivity].
  apply cond_gate_spec in E. apply gate_head in E. congruence.
Qed.

(* ---------------------------------------------------------------- verbs *)
Ltac verb_cases :=
  intros w;
  repeat match goal with |- context [String.eqb w ?k] => destruct (String.eqb_spec w k); [subst w|] end;
  cbn; intuition (try discriminate; try congruence).

Lemma verb_deny v : verb_of v = VDeny <-> is_deny_word v.
Proof. unfold verb_of, is_deny_word. generalize (lower v). verb_cases. Qed.

Lemma verb_accept v : verb_of v = VAccept <-> is_accept_word v.
Proof. unfold verb_of, is_accept_word. generalize (lower v). verb_cases. Qed.

Lemma verb_reset v : verb_of v = VReset <-> is_reset_word v.
Proof. unfold verb_of, is_reset_word. generalize (lower v). verb_cases. Qed.

Lemma filter_none l c : head_nb l = Some c -> c <> "|"%char -> scan_filter l = None.
Proof.
  intros H N. destruct (scan_filter l) as [[f m]|] eqn:E; [|reflexivity].
  apply scan_filter_spec in E as (m' & F & _). apply filter_head in F. congruence.
Qed.

(* ================================================================ ParseLine against the grammar *)
Section Main.
  Variable parse_dur : string -> option Z.
  Variable regex_ok : string -> bool.
  Variable atoi : string -> option Z.
  Notation P := (parse_line parse_dur regex_ok atoi).
  Notation Spec := (LineSpec parse_dur regex_ok atoi).
  Notation Bad := (malformed parse_dur regex_ok atoi).

  (* completeness of each scanner on a text line, in the form the main proofs use *)
  Lemma comment_scan l f m : no_nl l -> comment_form l f m -> scan_comment l = Some (f, m).
  Proof.
    intros NL F. apply scan_comment_spec. exists m. split; [exact F|]. symmetry; eapply comment_msg; eassumption.
  Qed.
  Lemma delay_scan l d m : no_nl l -> delay_form l d m -> scan_delay l = Some (d, m).
  Proof.
    intros NL F. apply scan_delay_spec. exists m. split; [exact F|]. symmetry; eapply delay_msg; eassumption.
  Qed.
  Lemma cond_scan l p n t m : no_nl l -> cond_form l p n t m -> scan_cond l = Some (p, n, t, m).
  Proof.
    intros NL F. apply scan_cond_spec. exists m. split; [exact F|]. symmetry; eapply cond_msg; eassumption.
  Qed.
  Lemma filter_scan l v a : no_nl l -> filter_form l v a -> scan_filter l = Some (v, a).
  Proof.
    intros NL F. apply scan_filter_spec. exists a. split; [exact F|]. symmetry; eapply filter_msg; eassumption.
  Qed.

  (* and soundness *)
  Lemma scan_comment_form l f m : no_nl l -> scan_comment l = Some (f, m) -> comment_form l f m.
  Proof.
    intros NL E. apply scan_comment_spec in E as (m' & F & ->). rewrite (comment_msg _ _ _ NL F). exact F.
  Qed.
  Lemma scan_delay_form l d m : no_nl l -> scan_delay l = Some (d, m) -> delay_form l d m.
  Proof.
    intros NL E. apply scan_delay_spec in E as (m' & F & ->). rewrite (delay_msg _ _ _ NL F). exact F.
  Qed.
  Lemma scan_cond_form l p n t m : no_nl l -> scan_cond l = Some (p, n, t, m) -> cond_form l p n t m.
  Proof.
    intros NL E. apply scan_cond_spec in E as (m' & F & ->). rewrite (cond_msg _ _ _ _ _ NL F). exact F.
  Qed.
  Lemma scan_filter_form l v a : no_nl l -> scan_filter l = Some (v, a) -> filter_form l v a.
  Proof.
    intros NL E. apply scan_filter_spec in E as (m' & F & ->). rewrite (filter_msg _ _ _ NL F). exact F.
  Qed.

  (* ---- the cascade yields an item the grammar allows ---- *)
  Theorem parse_meets_spec l : no_nl l -> Spec l (P l).
  Proof.
    intros NL. unfold parse_line.
    destruct (scan_comment l) as [[f m]|] eqn:EC.
    { apply LS_comment. apply scan_comment_form; assumption. }
    destruct (scan_delay l) as [[d m]|] eqn:ED.
    { pose proof (scan_delay_form _ _ _ NL ED) as F.
      destruct (dur_of parse_dur d) as [t|] eqn:Ed.
      - destruct (String.eqb_spec m "") as [->|Hm].
        + eapply LS_wait; eassumption.
        + eapply LS_send_delay; eassumption.
      - apply LS_error. left. exists d, m. split; assumption. }
    destruct (cond_gate l) eqn:EG.
    { apply cond_gate_spec in EG.
      destruct (scan_cond l) as [[[[p n] t] m]|] eqn:ES.
      - pose proof (scan_cond_form _ _ _ _ _ NL ES) as F.
        assert (U : forall p' n' t' m', cond_form l p' n' t' m' -> p' = p /\ n' = n /\ t' = t).
        { intros p' n' t' m' F'. pose proof (cond_scan _ _ _ _ _ NL F') as E'. rewrite ES in E'.
          injection E' as -> -> -> ->. repeat split. }
        destruct (regex_ok p) eqn:Rp.
        + destruct (atoi n) as [k|] eqn:An.
          * destruct (parse_dur t) as [T|] eqn:Dt.
            -- eapply LS_send_cond; eassumption.
            -- apply LS_error. right; left. split; [exact EG|].
               intros (p' & n' & t' & m' & k' & T' & F' & _ & _ & D'). destruct (U _ _ _ _ F') as (-> & -> & ->). congruence.
          * apply LS_error. right; left. split; [exact EG|].
            intros (p' & n' & t' & m' & k' & T' & F' & _ & A' & _). destruct (U _ _ _ _ F') as (-> & -> & ->). congruence.
        + apply LS_error. right; left. split; [exact EG|].
          intros (p' & n' & t' & m' & k' & T' & F' & R' & _). destruct (U _ _ _ _ F') as (-> & -> & ->). congruence.
      - apply LS_error. right; left. split; [exact EG|].
        intros (p' & n' & t' & m' & k' & T' & F' & _). rewrite (cond_scan _ _ _ _ _ NL F') in ES. discriminate. }
    destruct (scan_filter l) as [[v a]|] eqn:EF.
    { pose proof (scan_filter_form _ _ _ NL EF) as F.
      destruct (verb_of v) eqn:EV.
      - apply verb_deny in EV. destruct (regex_ok a) eqn:Ra.
        + eapply LS_deny; eassumption.
        + apply LS_error. right; right. exists v, a.
          assert (U : forall v' a', filter_form l v' a' -> v' = v /\ a' = a) by
            (intros v' a' F'; pose proof (filter_scan _ _ _ NL F') as E'; rewrite EF in E'; injection E' as -> ->; split; reflexivity).
          split; [exact F|]. repeat split.
          * intros W. apply verb_reset in W. apply verb_deny in EV. congruence.
          * intros [_ R]. congruence.
          * intros [_ R]. congruence.
      - apply verb_accept in EV. destruct (regex_ok a) eqn:Ra.
        + eapply LS_accept; eassumption.
        + apply LS_error. right; right. exists v, a. split; [exact F|]. repeat split.
          * intros W. apply verb_reset in W. apply verb_accept in EV. congruence.
          * intros [_ R]. congruence.
          * intros [_ R]. congruence.
      - apply verb_reset in EV. eapply LS_reset; eassumption.
      - apply LS_error. right; right. exists v, a. split; [exact F|]. repeat split.
        + intros W. apply verb_reset in W. congruence.
        + intros [W _]. apply verb_accept in W. congruence.
        + intros [W _]. apply verb_deny in W. congruence. }
    apply LS_send_now. intros [(f & m & F)|[(d & m & F)|[G|(v & a & F)]]].
    - rewrite (comment_scan _ _ _ NL F) in EC. discriminate.
    - rewrite (delay_scan _ _ _ NL F) in ED. discriminate.
    - apply cond_gate_spec in G. congruence.
    - rewrite (filter_scan _ _ _ NL F) in EF. discriminate.
  Qed.
End Main.

Section Unique.
  Variable parse_dur : string -> option Z.
  Variable regex_ok : string -> bool.
  Variable atoi : string -> option Z.
  Notation P := (parse_line parse_dur regex_ok atoi).
  Notation Spec := (LineSpec parse_dur regex_ok atoi).
  Notation Bad := (malformed parse_dur regex_ok atoi).

  (* ---- and it is the only one: the grammar is unambiguous ---- *)
  Theorem spec_unique l i : no_nl l -> Spec l i -> i = P l.
  Proof.
    intros NL S. unfold parse_line. destruct S as [f m F|d t F Dd|d m t F Hm Dd|p n t m k T F Rp An Dt|v a F W Ra|v a F W Ra|v a F W|B|NC].
    - rewrite (comment_scan _ _ _ NL F). reflexivity.
    - pose proof (delay_head _ _ _ F) as HD.
      rewrite (comment_none _ _ HD) by discriminate. rewrite (delay_scan _ _ _ NL F), Dd. reflexivity.
    - pose proof (delay_head _ _ _ F) as HD.
      rewrite (comment_none _ _ HD) by discriminate. rewrite (delay_scan _ _ _ NL F), Dd.
      destruct (String.eqb_spec m ""); [contradiction|reflexivity].
    - pose proof (cond_form_gate _ _ _ _ _ NL F) as G. pose proof (gate_head _ G) as HD.
      rewrite (comment_none _ _ HD) by discriminate. rewrite (delay_none _ _ HD) by discriminate.
      rewrite (proj2 (cond_gate_spec l) G). rewrite (cond_scan _ _ _ _ _ NL F), Rp, An, Dt. reflexivity.
    - pose proof (filter_head _ _ _ F) as HD.
      rewrite (comment_none _ _ HD) by discriminate. rewrite (delay_none _ _ HD) by discriminate.
      rewrite (gate_false _ _ HD) by discriminate. rewrite (filter_scan _ _ _ NL F).
      rewrite (proj2 (verb_accept v) W), Ra. reflexivity.
    - pose proof (filter_head _ _ _ F) as HD.
      rewrite (comment_none _ _ HD) by discriminate. rewrite (delay_none _ _ HD) by discriminate.
      rewrite (gate_false _ _ HD) by discriminate. rewrite (filter_scan _ _ _ NL F).
      rewrite (proj2 (verb_deny v) W), Ra. reflexivity.
    - pose proof (filter_head _ _ _ F) as HD.
      rewrite (comment_none _ _ HD) by discriminate. rewrite (delay_none _ _ HD) by discriminate.
      rewrite (gate_false _ _ HD) by discriminate. rewrite (filter_scan _ _ _ NL F).
      rewrite (proj2 (verb_reset v) W). reflexivity.
    - destruct B as [(d & m & F & Dd)|[(G & NV)|(v & a & F & NR & NA & ND)]].
      + pose proof (delay_head _ _ _ F) as HD.
        rewrite (comment_none _ _ HD) by discriminate. rewrite (delay_scan _ _ _ NL F), Dd. reflexivity.
      + pose proof (gate_head _ G) as HD.
        rewrite (comment_none _ _ HD) by discriminate. rewrite (delay_none _ _ HD) by discriminate.
        rewrite (proj2 (cond_gate_spec l) G).
        destruct (scan_cond l) as [[[[p n] t] m]|] eqn:ES; [|reflexivity].
        pose proof (scan_cond_form _ _ _ _ _ NL ES) as F.
        destruct (regex_ok p) eqn:Rp; [|reflexivity].
        destruct (atoi n) as [k|] eqn:An; [|reflexivity].
        destruct (parse_dur t) as [T|] eqn:Dt; [|reflexivity].
        exfalso. apply NV. exists p, n, t, m, k, T. repeat split; assumption.
      + pose proof (filter_head _ _ _ F) as HD.
        rewrite (comment_none _ _ HD) by discriminate. rewrite (delay_none _ _ HD) by discriminate.
        rewrite (gate_false _ _ HD) by discriminate. rewrite (filter_scan _ _ _ NL F).
        destruct (verb_of v) eqn:EV.
        * apply verb_deny in EV. destruct (regex_ok a) eqn:Ra; [|reflexivity]. exfalso; apply ND; split; auto.
        * apply verb_accept in EV. destruct (regex_ok a) eqn:Ra; [|reflexivity]. exfalso; apply NA; split; auto.
        * apply verb_reset in EV. contradiction.
        * reflexivity.
    - destruct (scan_comment l) as [[f m]|] eqn:EC.
      { exfalso; apply NC. left. exists f, m. apply scan_comment_form; assumption. }
      destruct (scan_delay l) as [[d m]|] eqn:ED.
      { exfalso; apply NC. right; left. exists d, m. apply scan_delay_form; assumption. }
      destruct (cond_gate l) eqn:EG.
      { exfalso; apply NC. right; right; left. apply cond_gate_spec; exact EG. }
      destruct (scan_filter l) as [[v a]|] eqn:EF.
      { exfalso; apply NC. right; right; right. exists v, a. apply scan_filter_form; assumption. }
      reflexivity.
  Qed.

  (* every text line has exactly one reading *)
  Theorem parse_total_unique l : no_nl l -> Spec l (P l) /\ forall i, Spec l i -> i = P l.
  Proof. intros NL. split; [apply parse_meets_spec; exact NL|intros i S; apply spec_unique; assumption]. Qed.

  (* ---- corollaries of the property statement ---- *)
  (* a comment is never sent (any byte string whose first non-blank byte is '#') *)
  Theorem comment_never_sent l :
    head_nb l = Some "#"%char -> exists e m, P l = IComment e m.
  Proof.
    intros H. unfold parse_line, scan_comment, head_nb in *.
    destruct (ltrim l) as [|c r] eqn:E; [discriminate|]. injection H as ->.
    cbn [span]. change (is_hash "#") with true. cbv iota.
    destruct (span is_hash r) as [h r1]. destruct (span is_pm r1) as [f r2].
    eexists; eexists; reflexivity.
  Qed.

  Theorem comment_form_is_comment l f m : no_nl l -> comment_form l f m -> P l = IComment (f =? "+") m.
  Proof. intros NL F. symmetry. apply spec_unique; [exact NL|apply LS_comment; exact F]. Qed.

  (* a line that is not a command is sent verbatim, at once, without a condition *)
  Theorem noncommand_verbatim l : no_nl l -> ~ is_command l -> P l = ISend l 0 "" 0 0.
  Proof. intros NL NC. symmetry. apply spec_unique; [exact NL|apply LS_send_now; exact NC]. Qed.

  (* in particular every line whose first non-blank byte is none of # [ < | (any byte string) *)
  Theorem plain_text_verbatim l c :
    head_nb l = Some c -> c <> "#"%char -> c <> "["%char -> c <> "<"%char -> c <> "|"%char ->
    P l = ISend l 0 "" 0 0.
  Proof.
    intros H N1 N2 N3 N4. unfold parse_line.
    rewrite (comment_none _ _ H N1), (delay_none _ _ H N2), (gate_false _ _ H N3), (filter_none _ _ H N4).
    reflexivity.
  Qed.

  (* a delayed send carries exactly the text after "[d]" with leading blanks dropped, and d *)
  Theorem delayed_send_exact l d m t :
    no_nl l -> delay_form l d m -> m <> "" -> dur_of parse_dur d = Some t -> P l = ISend m t "" 0 0.
  Proof. intros NL F Hm Dd. symmetry. apply spec_unique; [exact NL|eapply LS_send_delay; eassumption]. Qed.

  Theorem wait_exact l d t :
    no_nl l -> delay_form l d "" -> dur_of parse_dur d = Some t -> P l = IWait t.
  Proof. intros NL F Dd. symmetry. apply spec_unique; [exact NL|eapply LS_wait; eassumption]. Qed.

  (* a conditional send carries exactly the text after "<'p',n,t>" and the stated p, n, t *)
  Theorem conditional_send_exact l p n t m k T :
    no_nl l -> cond_form l p n t m -> regex_ok p = true -> atoi n = Some k -> parse_dur t = Some T ->
    P l = ISend m 0 p k T.
  Proof. intros NL F Rp An Dt. symmetry. apply spec_unique; [exact NL|eapply LS_send_cond; eassumption]. Qed.

  (* the one-character operand is no longer special (F14a): an operand that is not a duration is an error *)
  Theorem bad_delay_is_error l d m :
    no_nl l -> delay_form l d m -> d <> "" -> parse_dur d = None -> P l = IError.
  Proof.
    intros NL F Hd Dd. symmetry. apply spec_unique; [exact NL|]. apply LS_error. left. exists d, m. split; [exact F|].
    unfold dur_of. destruct (String.eqb_spec d ""); [contradiction|exact Dd].
  Qed.

  (* ---- Check: an error is reported iff some line is malformed ---- *)
  Lemma error_iff_malformed l : no_nl l -> (P l = IError <-> Bad l).
  Proof.
    intros NL. split.
    - intros E. pose proof (parse_meets_spec parse_dur regex_ok atoi l NL) as S. rewrite E in S.
      inversion S; assumption.
    - intros B. symmetry. apply spec_unique; [exact NL|apply LS_error; exact B].
  Qed.

  Theorem check_iff_malformed ls :
    (forall l, In l ls -> no_nl l) ->
    (check_fails (parse_file parse_dur regex_ok atoi ls) = true <-> exists l, In l ls /\ Bad l).
  Proof.
    intros NL. unfold check_fails, parse_file. rewrite existsb_exists. split.
    - intros (i & Hi & E). apply in_map_iff in Hi as (l & <- & Hl). exists l. split; [exact Hl|].
      apply error_iff_malformed; [apply NL; exact Hl|]. destruct (P l); try discriminate; reflexivity.
    - intros (l & Hl & B). exists (P l). split; [apply in_map; exact Hl|].
      rewrite (proj2 (error_iff_malformed l (NL l Hl)) B). reflexivity.
  Qed.

  Theorem check_count_is_malformed_count ls :
    check_count (parse_file parse_dur regex_ok atoi ls) =
    count_true (fun l => is_error (P l)) ls.
  Proof.
    unfold check_count, count_true, parse_file. f_equal.
    induction ls as [|l ls IH]; cbn; [reflexivity|]. destruct (is_error (P l)); cbn; rewrite IH; reflexivity.
  Qed.
End Unique.

(* ================================================================ whole files *)
Definition nl : ascii := ascii_of_N 10.

(* the text of a file whose lines are ls, each ended by a newline *)
Fixpoint unlines (ls : list string) : string :=
  match ls with [] => "" | l :: r => l ++ String nl (unlines r) end.

Lemma not_nl_is_nl c : not_nl c = negb (is_nl c).
Proof. reflexivity. Qed.

Lemma raw_lines_line l r : no_nl l -> raw_lines (l ++ String nl r) = l :: raw_lines r.
Proof.
  induction l as [|c l IH]; intros NL.
  - reflexivity.
  - unfold no_nl in NL. cbn in NL. apply andb_prop in NL as [Hc NL]. rewrite not_nl_is_nl in Hc.
    cbn [append raw_lines]. destruct (is_nl c); [discriminate|]. rewrite (IH NL). reflexivity.
Qed.

Lemma raw_lines_last l : no_nl l -> l <> "" -> raw_lines l = [l].
Proof.
  induction l as [|c l IH]; intros NL NE; [contradiction|].
  unfold no_nl in NL. cbn in NL. apply andb_prop in NL as [Hc NL]. rewrite not_nl_is_nl in Hc.
  cbn [raw_lines]. destruct (is_nl c); [discriminate|].
  destruct l as [|c' l']; [reflexivity|]. rewrite (IH NL) by discriminate. reflexivity.
Qed.

(* one line per physical line, in order; an unterminated last line is a line *)
Theorem raw_lines_unlines ls last :
  (forall l, In l ls -> no_nl l) -> no_nl last ->
  raw_lines (unlines ls ++ last) = (ls ++ (if last =? "" then [] else [last]))%list.
Proof.
  intros NL NLl. induction ls as [|l ls IH].
  - cbn [unlines append app]. destruct (String.eqb_spec last "") as [->|NE]; [reflexivity|].
    apply raw_lines_last; assumption.
  - cbn [unlines]. rewrite app_assoc_s. cbn [append].
    rewrite raw_lines_line by (apply NL; left; reflexivity).
    rewrite IH by (intros x Hx; apply NL; right; exact Hx). reflexivity.
Qed.

Lemma no_nl_drop_cr l : no_nl l -> no_nl (drop_cr l).
Proof.
  unfold no_nl. induction l as [|c l IH]; intros H; [reflexivity|].
  cbn in H. apply andb_prop in H as [Hc H]. cbn [drop_cr]. destruct l as [|c' l'].
  - destruct (is_cr c); cbn; [reflexivity|rewrite Hc; reflexivity].
  - cbn [allb]. rewrite Hc. exact (IH H).
Qed.

Section Files.
  Variable parse_dur : string -> option Z.
  Variable regex_ok : string -> bool.
  Variable atoi : string -> option Z.
  Notation P := (parse_line parse_dur regex_ok atoi).

  Definition phys (ls : list string) (last : string) : list string :=
    (ls ++ (if last =? "" then [] else [last]))%list.

  (* every physical line of the file (LF or CRLF ended, or the unterminated last one), of ANY
     length, gives exactly one item, ParseLine of that line, in order *)
  Theorem load_text_items ls last :
    (forall l, In l ls -> no_nl l) -> no_nl last ->
    load_text parse_dur regex_ok atoi (unlines ls ++ last) = map (fun l => P (drop_cr l)) (phys ls last).
  Proof.
    intros NL NLl. unfold load_text, file_lines. rewrite (raw_lines_unlines _ _ NL NLl).
    fold (phys ls last). unfold parse_file. rewrite map_map. reflexivity.
  Qed.

  (* checking a loaded file reports an error precisely when some physical line is malformed *)
  Theorem file_check_iff_malformed ls last :
    (forall l, In l ls -> no_nl l) -> no_nl last ->
    (check_fails (load_text parse_dur regex_ok atoi (unlines ls ++ last)) = true <->
     exists l, In l (phys ls last) /\ malformed parse_dur regex_ok atoi (drop_cr l)).
  Proof.
    intros NL NLl. rewrite (load_text_items _ _ NL NLl).
    rewrite <- (map_map drop_cr P). change (map P (map drop_cr (phys ls last))) with
      (parse_file parse_dur regex_ok atoi (map drop_cr (phys ls last))).
    rewrite check_iff_malformed.
    - split.
      + intros (x & Hx & B). apply in_map_iff in Hx as (l & <- & Hl). exists l. split; assumption.
      + intros (l & Hl & B). exists (drop_cr l). split; [apply in_map; exact Hl|exact B].
    - intros x Hx. apply in_map_iff in Hx as (l & <- & Hl). apply no_nl_drop_cr.
      unfold phys in Hl. apply in_app_or in Hl as [Hl|Hl]; [apply NL; exact Hl|].
      destruct (last =? ""); [destruct Hl|]. destruct Hl as [<-|[]]. exact NLl.
  Qed.
End Files.

(* ================================================================ the scanner limit that F14d removed *)
(* n copies of a byte *)
Definition rep (n : N) (c : ascii) : string := N.iter n (String c) "".

(* with the old 64 KiB limit a file that consists of one line of 65536 bytes gave no item at all
   and the load failed; without the limit it gives its one item *)
Lemma old_limit_refused pd ro ai :
  List.length (raw_lines (rep 65536 "=")) = 1%nat /\ load_text_limited pd ro ai (rep 65536 "=") = ([], true).
Proof. split; vm_compute; reflexivity. Qed.

Lemma long_line_read pd ro ai :
  List.length (load_text pd ro ai (rep 65536 "=")) = 1%nat.
Proof. vm_compute; reflexivity. Qed.

(* ================================================================ the texts Check reports *)
Section Report.
  Variable parse_dur : string -> option Z.
  Variable regex_ok : string -> bool.
  Variable atoi : string -> option Z.
  Variable regex_err : string -> string.
  Variable dur_err : string -> string.
  Notation P := (parse_line parse_dur regex_ok atoi).
  Notation E := (error_of parse_dur regex_ok atoi regex_err dur_err).
  Notation R := (check_report parse_dur regex_ok atoi regex_err dur_err).
  Notation Rf := (check_report_from parse_dur regex_ok atoi regex_err dur_err).

  (* a text exactly for the lines that parse to an Error item (any byte string) *)
  Lemma error_of_iff l : (exists t, E l = Some t) <-> P l = IError.
  Proof.
    unfold error_of, parse_line.
    destruct (scan_comment l) as [[f m]|]; [split; [intros [t H]; discriminate|discriminate]|].
    destruct (scan_delay l) as [[d m]|].
    { destruct (dur_of parse_dur d); [|split; [reflexivity|eexists; reflexivity]].
      split; [intros [t H]; discriminate|]. destruct (m =? ""); discriminate. }
    destruct (cond_gate l).
    { destruct (scan_cond l) as [[[[p n] t] m]|]; [|split; [reflexivity|eexists; reflexivity]].
      destruct (regex_ok p); [|split; [reflexivity|eexists; reflexivity]].
      destruct (atoi n); [|split; [reflexivity|eexists; reflexivity]].
      destruct (parse_dur t); [|split; [reflexivity|eexists; reflexivity]].
      split; [intros [x H]; discriminate|discriminate]. }
    destruct (scan_filter l) as [[v a]|]; [|split; [intros [t H]; discriminate|discriminate]].
    destruct (verb_of v).
    - destruct (regex_ok a); [split; [intros [t H]; discriminate|discriminate]|split; [reflexivity|eexists; reflexivity]].
    - destruct (regex_ok a); [split; [intros [t H]; discriminate|discriminate]|split; [reflexivity|eexists; reflexivity]].
    - split; [intros [t H]; discriminate|discriminate].
    - split; [reflexivity|eexists; reflexivity].
  Qed.

  Lemma error_of_none l : E l = None <-> P l <> IError.
  Proof.
    rewrite <- error_of_iff. destruct (E l) as [t|]; split; try discriminate.
    - intros H; exfalso; apply H; eexists; reflexivity.
    - intros _ [t H]; discriminate.
    - reflexivity.
  Qed.

  Lemma ends_intro (a l t : string) : Some (a ++ l) = Some t -> exists pre, t = pre ++ l.
  Proof. intros H; injection H as <-; exists a; reflexivity. Qed.

  (* the text embeds the offending line verbatim, as its end; the one text that does not is the
     unknown filter verb's, which ends with the verb as written *)
  Theorem error_text_names_its_line l t :
    E l = Some t ->
    (exists pre, t = pre ++ l) \/
    (exists v a pre, scan_filter l = Some (v, a) /\ verb_of v = VUnknown /\ t = pre ++ v).
  Proof.
    unfold error_of.
    destruct (scan_comment l) as [[f m]|]; [discriminate|].
    destruct (scan_delay l) as [[d m]|].
    { destruct (dur_of parse_dur d); [discriminate|]. intros H. left. eapply ends_intro; exact H. }
    destruct (cond_gate l).
    { destruct (scan_cond l) as [[[[p n] to] m]|]; [|intros H; left; eapply ends_intro; exact H].
      destruct (regex_ok p); [|intros H; left; eapply ends_intro; exact H].
      destruct (atoi n); [|intros H; left; eapply ends_intro; exact H].
      destruct (parse_dur to); [discriminate|intros H; left; eapply ends_intro; exact H]. }
    destruct (scan_filter l) as [[v a]|] eqn:SF; [|discriminate].
    destruct (verb_of v) eqn:EV.
    - destruct (regex_ok a); [discriminate|intros H; left; eapply ends_intro; exact H].
    - destruct (regex_ok a); [discriminate|intros H; left; eapply ends_intro; exact H].
    - discriminate.
    - intros H. right. exists v, a. destruct (ends_intro _ _ _ H) as [pre Hp]. exists pre. split; [reflexivity|split; [exact EV|exact Hp]].
  Qed.

  (* ---- the report: exactly the malformed lines, each once, in order, with its own number ---- *)
  Lemma report_from_in k ls n t :
    In (n, t) (Rf k ls) <-> exists i l, nth_error ls i = Some l /\ n = (k + N.of_nat i)%N /\ E l = Some t.
  Proof.
    revert k; induction ls as [|x ls IH]; intros k; cbn [check_report_from].
    - split; [intros []|intros (i & l & H & _); destruct i; discriminate].
    - assert (Tail : In (n, t) (Rf (N.succ k) ls) <->
                     exists i l, nth_error ls i = Some l /\ n = (k + N.of_nat (S i))%N /\ E l = Some t).
      { rewrite IH. split; intros (i & l & H1 & H2 & H3); exists i, l; repeat split; try assumption; lia. }
      destruct (E x) as [tx|] eqn:Ex.
      + cbn [In]. rewrite Tail. split.
        * intros [H|(i & l & H1 & H2 & H3)].
          -- injection H as <- <-. exists 0%nat, x. repeat split; [lia|exact Ex].
          -- exists (S i), l. repeat split; assumption.
        * intros (i & l & H1 & H2 & H3). destruct i as [|i].
          -- cbn in H1. injection H1 as <-. left. f_equal; [lia|congruence].
          -- right. exists i, l. repeat split; assumption.
      + rewrite Tail. split.
        * intros (i & l & H1 & H2 & H3). exists (S i), l. repeat split; assumption.
        * intros (i & l & H1 & H2 & H3). destruct i as [|i].
          -- cbn in H1. injection H1 as <-. congruence.
          -- exists i, l. repeat split; assumption.
  Qed.

  Lemma report_from_lower k ls n t : In (n, t) (Rf k ls) -> (k <= n)%N.
  Proof. intros H. apply report_from_in in H as (i & l & _ & -> & _). lia. Qed.

  Lemma report_from_sorted k ls : StronglySorted (fun a b => (fst a < fst b)%N) (Rf k ls).
  Proof.
    revert k; induction ls as [|x ls IH]; intros k; cbn [check_report_from]; [constructor|].
    destruct (E x) as [tx|]; [|apply IH].
    constructor; [apply IH|]. apply Forall_forall. intros [n t] H. cbn.
    apply report_from_lower in H. lia.
  Qed.

  Lemma report_from_length k ls : N.of_nat (List.length (Rf k ls)) = count_true (fun l => is_error (P l)) ls.
  Proof.
    unfold count_true. revert k; induction ls as [|x ls IH]; intros k; cbn [check_report_from filter]; [reflexivity|].
    destruct (E x) as [tx|] eqn:Ex.
    - assert (H : P x = IError) by (apply error_of_iff; eexists; exact Ex). rewrite H. cbn [is_error List.length].
      specialize (IH (N.succ k)). lia.
    - apply error_of_none in Ex. destruct (P x); try contradiction; cbn [is_error]; apply IH.
  Qed.

  (* for every list of lines: line number n (1-based) with text t is in the report iff line n
     is an error line and t is its text; the numbers strictly increase (each malformed line once,
     in the order of the file); as many entries as Check counts; empty iff no line is an error *)
  Theorem check_report_exact ls :
    (forall n t, In (n, t) (R ls) <->
       exists l, nth_error ls (N.to_nat n - 1) = Some l /\ (1 <= n)%N /\ P l = IError /\ E l = Some t) /\
    StronglySorted (fun a b => (fst a < fst b)%N) (R ls) /\
    N.of_nat (List.length (R ls)) = check_count (parse_file parse_dur regex_ok atoi ls) /\
    (R ls = [] <-> check_fails (parse_file parse_dur regex_ok atoi ls) = false).
  Proof.
    unfold check_report. repeat split.
    - intros H. apply report_from_in in H as (i & l & H1 & -> & H3). exists l.
      replace (N.to_nat (1 + N.of_nat i) - 1)%nat with i by lia.
      repeat split; [exact H1|lia|apply error_of_iff; eexists; exact H3|exact H3].
    - intros (l & H1 & H2 & _ & H4). apply report_from_in. exists (N.to_nat n - 1)%nat, l.
      repeat split; [exact H1|lia|exact H4].
    - apply report_from_sorted.
    - rewrite report_from_length. symmetry. apply check_count_is_malformed_count.
    - intros H. unfold check_fails, parse_file. destruct (existsb _ _) eqn:X; [|reflexivity].
      apply existsb_exists in X as (i & Hi & Ei). apply in_map_iff in Hi as (l & <- & Hl).
      assert (PE : P l = IError) by (destruct (P l); try discriminate; reflexivity).
      apply error_of_iff in PE as [t Et]. apply In_nth_error in Hl as [k Hk].
      assert (In (1 + N.of_nat k, t)%N (Rf 1 ls)) by (apply report_from_in; exists k, l; repeat split; assumption).
      rewrite H in H0. destruct H0.
    - intros H. destruct (Rf 1 ls) as [|[n t] r] eqn:X; [reflexivity|].
      assert (I : In (n, t) (Rf 1 ls)) by (rewrite X; left; reflexivity).
      apply report_from_in in I as (i & l & H1 & _ & H3).
      assert (PE : P l = IError) by (apply error_of_iff; eexists; exact H3).
      unfold check_fails, parse_file in H.
      assert (existsb is_error (map P ls) = true).
      { apply existsb_exists. exists (P l). split; [apply in_map; eapply nth_error_In; exact H1|rewrite PE; reflexivity]. }
      congruence.
  Qed.
End Report.

Section FileReport.
  Variable parse_dur : string -> option Z.
  Variable regex_ok : string -> bool.
  Variable atoi : string -> option Z.
  Variable regex_err : string -> string.
  Variable dur_err : string -> string.
  Notation E := (error_of parse_dur regex_ok atoi regex_err dur_err).
  Notation Bad := (malformed parse_dur regex_ok atoi).

  Lemma file_lines_unlines ls last :
    (forall l, In l ls -> no_nl l) -> no_nl last ->
    file_lines (unlines ls ++ last) = map drop_cr (phys ls last).
  Proof. intros NL NLl. unfold file_lines. rewrite (raw_lines_unlines _ _ NL NLl). reflexivity. Qed.

  Lemma phys_no_nl ls last l :
    (forall x, In x ls -> no_nl x) -> no_nl last -> In l (map drop_cr (phys ls last)) -> no_nl l.
  Proof.
    intros NL NLl H. apply in_map_iff in H as (x & <- & Hx). apply no_nl_drop_cr.
    unfold phys in Hx. apply in_app_or in Hx as [Hx|Hx]; [apply NL; exact Hx|].
    destruct (last =? ""); [destruct Hx|]. destruct Hx as [<-|[]]. exact NLl.
  Qed.

  (* Check on a loaded file: its report lists exactly the malformed lines of the file, each once,
     in the order of the file, each with its own 1-based physical line number and the text
     ParseLine formats for it; as many as Check counts; empty iff no line is malformed *)
  Theorem check_reports_exactly_the_malformed_lines ls last :
    (forall l, In l ls -> no_nl l) -> no_nl last ->
    let lines := map drop_cr (phys ls last) in
    let rep := check_report parse_dur regex_ok atoi regex_err dur_err (file_lines (unlines ls ++ last)) in
    (forall n t, In (n, t) rep <->
       exists l, nth_error lines (N.to_nat n - 1) = Some l /\ (1 <= n)%N /\ Bad l /\ E l = Some t) /\
    StronglySorted (fun a b => (fst a < fst b)%N) rep /\
    N.of_nat (List.length rep) = check_count (load_text parse_dur regex_ok atoi (unlines ls ++ last)) /\
    (rep = [] <-> ~ exists l, In l lines /\ Bad l).
  Proof.
    intros NL NLl. cbv zeta. unfold load_text. rewrite (file_lines_unlines _ _ NL NLl).
    set (lines := map drop_cr (phys ls last)).
    assert (LNL : forall l, In l lines -> no_nl l) by (intros l H; eapply phys_no_nl; eassumption).
    destruct (check_report_exact parse_dur regex_ok atoi regex_err dur_err lines) as (HI & HS & HL & HE).
    repeat split.
    - intros H. apply HI in H as (l & H1 & H2 & H3 & H4). exists l. repeat split; try assumption.
      apply error_iff_malformed; [apply LNL; eapply nth_error_In; exact H1|exact H3].
    - intros (l & H1 & H2 & H3 & H4). apply HI. exists l. repeat split; try assumption.
      apply error_iff_malformed; [apply LNL; eapply nth_error_In; exact H1|exact H3].
    - exact HS.
    - exact HL.
    - intros H (l & Hl & B). apply HE in H.
      assert (check_fails (parse_file parse_dur regex_ok atoi lines) = true).
      { apply check_iff_malformed; [exact LNL|]. exists l. split; assumption. }
      congruence.
    - intros H. apply HE. destruct (check_fails _) eqn:X; [|reflexivity].
      exfalso. apply H. apply check_iff_malformed in X; [exact X|exact LNL].
  Qed.
End FileReport.

(* ================================================================ playing: the timing judgement *)
(* An idealised Play: T is the true instant at which Play starts on the remaining items; every
   step takes its stated time PLUS any non-negative overhead; consumers stamp as described in the
   model (ready <= hand-over <= after; reached-condition <= recv; sat <= continues). *)
Definition add_sent x (o : pobs) := mkobs (x :: o_sent o) (o_cond o) (o_act o) (o_echo o).
Definition add_cond x (o : pobs) := mkobs (o_sent o) (x :: o_cond o) (o_act o) (o_echo o).
Definition add_act x (o : pobs) := mkobs (o_sent o) (o_cond o) (x :: o_act o) (o_echo o).
Definition add_echo x (o : pobs) := mkobs (o_sent o) (o_cond o) (o_act o) (x :: o_echo o).

Inductive plays : Z -> list item -> pobs -> Prop :=
| P_nil T : plays T [] (mkobs [] [] [] [])
| P_comment T m r o : plays T r o -> plays T (IComment false m :: r) o
| P_error T r o : plays T r o -> plays T (IError :: r) o
| P_echo T T' m r o : (T <= T')%Z -> plays T' r o -> plays T (IComment true m :: r) (add_echo m o)
| P_wait T T' d r o : (T + d <= T')%Z -> plays T' r o -> plays T (IWait d :: r) o
| P_filter T T' a r o : (T <= T')%Z -> plays T' r o -> plays T (IFilter a :: r) (add_act a o)
| P_send T m d p k Tm H ready after r o :
    complete_cond p k Tm = false ->
    (T + d <= H)%Z -> (ready <= H)%Z -> (H <= after)%Z ->
    plays H r o -> plays T (ISend m d p k Tm :: r) (add_sent (m, ready, after) o)
| P_send_cond T m d p k Tm C recv sat S H ready after r o :
    complete_cond p k Tm = true ->
    (T + d <= C)%Z -> (C <= recv)%Z -> (C <= S)%Z -> (sat <= S)%Z ->
    (S <= H)%Z -> (ready <= H)%Z -> (H <= after)%Z ->
    plays H r o ->
    plays T (ISend m d p k Tm :: r) (add_cond (p, k, Tm, recv, sat) (add_sent (m, ready, after) o)).

Lemma faction_same_refl a : faction_same a a = true.
Proof. destruct a; cbn; try reflexivity; apply String.eqb_refl. Qed.

(* no false alarm: whatever the overheads, a Play that keeps every stated delay passes *)
Theorem play_check_accepts_correct_play T its o :
  plays T its o -> forall tol L, (0 <= tol)%Z -> (L <= T)%Z -> play_check tol L its o = true.
Proof.
  induction 1 as [T|T m r o _ IH|T r o _ IH|T T' m r o Le _ IH|T T' d r o Le _ IH|T T' a r o Le _ IH
                  |T m d p k Tm H ready after r o CC L1 L2 L3 _ IH
                  |T m d p k Tm C recv sat S H ready after r o CC L1 L2 L3 L4 L5 L6 L7 _ IH];
    intros tol L Ht HL; cbn [play_check].
  - reflexivity.
  - apply IH; assumption.
  - apply IH; assumption.
  - destruct o. cbn. rewrite String.eqb_refl. cbn [andb]. apply IH; [assumption|lia].
  - apply IH; [assumption|lia].
  - destruct o. cbn. rewrite faction_same_refl. cbn [andb]. apply IH; [assumption|lia].
  - rewrite CC. unfold take_sent. cbn [add_sent o_sent o_cond o_act o_echo].
    rewrite String.eqb_refl. cbn [andb].
    destruct (Z.leb_spec (Z.max (L + d) ready - tol) after) as [_|C]; [|lia].
    destruct o; apply IH; [assumption|lia].
  - rewrite CC. cbn [add_cond add_sent o_sent o_cond o_act o_echo].
    rewrite String.eqb_refl, !Z.eqb_refl. cbn [andb].
    destruct (Z.leb_spec (L + d - tol) recv) as [_|Cx]; [|lia].
    unfold take_sent. cbn [o_sent o_cond o_act o_echo]. rewrite String.eqb_refl. cbn [andb].
    destruct (Z.leb_spec (Z.max (Z.max (L + d) sat) ready - tol) after) as [_|Cx]; [|lia].
    destruct o; apply IH; [assumption|lia].
Qed.

(* and what passing means for a delayed send: its hand-over stamp is at least the stated delay
   after the earliest finish of everything before it (less the tolerance) *)
Theorem play_check_keeps_stated_delay tol L m d p k Tm r o :
  complete_cond p k Tm = false ->
  play_check tol L (ISend m d p k Tm :: r) o = true ->
  exists ready after ss, o_sent o = (m, ready, after) :: ss /\ (L + d - tol <= after)%Z.
Proof.
  intros CC. cbn [play_check]. rewrite CC. unfold take_sent.
  destruct (o_sent o) as [|[[m' ready] after] ss]; [discriminate|].
  destruct (m' =? m) eqn:Em; [|discriminate]. apply String.eqb_eq in Em; subst m'. cbn [andb].
  destruct (Z.leb_spec (Z.max (L + d) ready - tol) after) as [Le|_]; [|discriminate].
  intros _. exists ready, after, ss. split; [reflexivity|lia].
Qed.

(* a conditional send: the checker got exactly the stated pattern, count and timeout, not before
   the stated delay, and the message went out only after the checker said "satisfied" *)
Theorem play_check_honours_condition tol L m d p k Tm r o :
  complete_cond p k Tm = true ->
  play_check tol L (ISend m d p k Tm :: r) o = true ->
  exists recv sat cs ready after ss,
    o_cond o = (p, k, Tm, recv, sat) :: cs /\ (L + d - tol <= recv)%Z /\
    o_sent o = (m, ready, after) :: ss /\ (sat - tol <= after)%Z /\ (L + d - tol <= after)%Z.
Proof.
  intros CC. cbn [play_check]. rewrite CC.
  destruct (o_cond o) as [|[[[[p' k'] T'] recv] sat] cs]; [discriminate|].
  destruct (p' =? p) eqn:Ep; [|discriminate]. apply String.eqb_eq in Ep; subst p'.
  destruct (Z.eqb_spec k' k) as [->|]; [|discriminate].
  destruct (Z.eqb_spec T' Tm) as [->|]; [|discriminate]. cbn [andb].
  destruct (Z.leb_spec (L + d - tol) recv) as [Lr|_]; [|discriminate].
  unfold take_sent. cbn [o_sent].
  destruct (o_sent o) as [|[[m' ready] after] ss]; [discriminate|].
  destruct (m' =? m) eqn:Em; [|discriminate]. apply String.eqb_eq in Em; subst m'. cbn [andb].
  destruct (Z.leb_spec (Z.max (Z.max (L + d) sat) ready - tol) after) as [Le|_]; [|discriminate].
  intros _. exists recv, sat, cs, ready, after, ss. repeat split; try reflexivity; lia.
Qed.
