(* Lemmas for C14: the hub's listing against the history (part 1), the encoding of reports is
   well-formed JSON and the published decoder reads back [normalize] (part 2). *)
From Relay Require Import Base.Prelude Base.Json Base.Dur Model.Status.
From Relay Require Import Proofs.Json_proofs Proofs.Dur_proofs.
From Coq Require Import Permutation.
Local Open Scope N_scope.

(* ------------------------------------------------------------------ bytes_eqb *)

Lemma bytes_eqb_iff a b : bytes_eqb a b = true <-> a = b.
Proof.
  revert b; induction a as [|x a IH]; intros [|y b]; cbn [bytes_eqb]; try (split; congruence).
  rewrite andb_true_iff, IH, N.eqb_eq. split; [intros [-> ->]; reflexivity|intros H; inversion H; auto].
Qed.

Lemma bytes_eqb_refl a : bytes_eqb a a = true.
Proof. apply bytes_eqb_iff; reflexivity. Qed.

Lemma bytes_eqb_neq a b : a <> b -> bytes_eqb a b = false.
Proof. intros H. destruct (bytes_eqb a b) eqn:E; [apply bytes_eqb_iff in E; contradiction|reflexivity]. Qed.

(* ------------------------------------------------------------------ part 1: the hub *)

Lemma bucket_set_same t b h : bucket t (set_bucket t b h) = b.
Proof.
  induction h as [|[t' b'] r IH]; cbn [set_bucket bucket].
  - rewrite bytes_eqb_refl. reflexivity.
  - destruct (bytes_eqb t t') eqn:E; cbn [bucket]; [rewrite bytes_eqb_refl; reflexivity|rewrite E; exact IH].
Qed.

Lemma bucket_set_other t t' b h : t' <> t -> bucket t' (set_bucket t b h) = bucket t' h.
Proof.
  intros Hn. induction h as [|[t2 b2] r IH]; cbn [set_bucket bucket].
  - rewrite (bytes_eqb_neq _ _ Hn). reflexivity.
  - destruct (bytes_eqb t t2) eqn:E.
    + apply bytes_eqb_iff in E; subst t2. cbn [bucket]. rewrite (bytes_eqb_neq _ _ Hn). reflexivity.
    + cbn [bucket]. destruct (bytes_eqb t' t2); [reflexivity|exact IH].
Qed.

(* replacing a bucket replaces one segment of the listing *)
Lemma split_bucket t b h :
  exists l1 l2, listed h = l1 ++ bucket t h ++ l2 /\ listed (set_bucket t b h) = l1 ++ b ++ l2.
Proof.
  induction h as [|[t' b'] r IH]; cbn [set_bucket bucket listed flat_map snd].
  - exists [], []. cbn. rewrite app_nil_r. split; reflexivity.
  - destruct (bytes_eqb t t') eqn:E.
    + exists [], (listed r). cbn [listed flat_map snd app]. split; reflexivity.
    + destruct IH as (l1 & l2 & H1 & H2). exists (b' ++ l1), l2.
      cbn [listed flat_map snd]. fold (listed r). fold (listed (set_bucket t b r)).
      rewrite H1, H2, <- !app_assoc. split; reflexivity.
Qed.

Definition ids (l : list member) : list N := map m_id l.

Lemma in_ids id l : In id (ids l) <-> exists m, In m l /\ m_id m = id.
Proof.
  unfold ids. rewrite in_map_iff. split; intros (m & A & B); exists m; auto.
Qed.

Lemma without_in m id l : In m (without id l) <-> In m l /\ m_id m <> id.
Proof.
  unfold without. rewrite filter_In. split; intros [A B]; split; auto; lia.
Qed.

Lemma without_notin id l : ~ In id (ids l) -> without id l = l.
Proof.
  intros H. unfold without. induction l as [|m l IH]; cbn [filter]; [reflexivity|].
  destruct (m_id m =? id) eqn:E.
  - exfalso. apply H. apply in_ids. exists m. split; [left; reflexivity|lia].
  - cbn [negb]. f_equal. apply IH. intros Hin. apply H. cbn. right. exact Hin.
Qed.

Lemma nodup_ids_without id l : NoDup (ids l) -> NoDup (ids (without id l)).
Proof.
  unfold ids, without. induction l as [|m l IH]; cbn [filter map]; intros H; [constructor|].
  inversion H as [|? ? Hn Hr]; subst.
  destruct (m_id m =? id); cbn [negb map]; [apply IH; exact Hr|].
  constructor; [|apply IH; exact Hr].
  intros Hin. apply Hn. apply in_map_iff in Hin. destruct Hin as (x & A & B).
  apply filter_In in B. apply in_map_iff. exists x. split; [exact A|apply B].
Qed.

Lemma nodup_ids_filter (p : member -> bool) l : NoDup (ids l) -> NoDup (ids (filter p l)).
Proof.
  unfold ids. induction l as [|m l IH]; cbn [filter map]; intros H; [constructor|].
  inversion H as [|? ? Hn Hr]; subst.
  destruct (p m); cbn [map]; [|apply IH; exact Hr].
  constructor; [|apply IH; exact Hr].
  intros Hin. apply Hn. apply in_map_iff in Hin. destruct Hin as (x & A & B).
  apply filter_In in B. apply in_map_iff. exists x. split; [exact A|apply B].
Qed.

(* histories seen from their end *)
Lemma registered_topic_snoc l e id :
  registered_topic (l ++ [e]) id =
  match registered_topic l id with Some t => Some t | None => registered_topic [e] id end.
Proof.
  induction l as [|x l IH]; cbn [app registered_topic].
  - destruct (registered_topic [e] id); reflexivity.
  - destruct x; try exact IH. destruct (m_id m =? id); [reflexivity|exact IH].
Qed.

Definition event_ok (seen : list event) (e : event) : Prop :=
  match e with
  | Register m => registered_topic seen (m_id m) = None
  | Unregister id t => topic_agrees seen id t
  | Broadcast t slow => forall id, In id slow -> topic_agrees seen id t
  | Traffic _ _ _ => True
  end.

Lemma wf_from_snoc evs : forall seen e,
  wf_history_from seen (evs ++ [e]) <-> wf_history_from seen evs /\ event_ok (seen ++ evs) e.
Proof.
  induction evs as [|x evs IH]; intros seen e; cbn [app wf_history_from].
  - rewrite app_nil_r. unfold event_ok. destruct e; tauto.
  - rewrite IH, <- app_assoc. cbn [app]. unfold event_ok. destruct x; tauto.
Qed.

(* what holds of the hub after every history the code can produce *)
Record hub_inv (evs : list event) (h : hub) : Prop := {
  inv_topic : forall t m, In m (bucket t h) -> m_topic m = t;
  inv_home : forall m, In m (listed h) -> In m (bucket (m_topic m) h);
  inv_nodup : NoDup (ids (listed h));
  inv_reg : forall m, In m (listed h) -> registered_topic evs (m_id m) = Some (m_topic m);
  inv_present : forall id, In id (ids (listed h)) <-> present evs id = true;
  inv_identity : forall m, In m (listed h) ->
                 exists m0, joined_as evs (m_id m) = Some m0 /\ identity m = identity m0 }.

Lemma present_snoc evs e id : present (evs ++ [e]) id = present_rev (e :: rev evs) id.
Proof. unfold present. rewrite rev_app_distr. reflexivity. Qed.

Lemma joined_snoc evs e id : joined_as (evs ++ [e]) id = joined_as_rev (e :: rev evs) id.
Proof. unfold joined_as. rewrite rev_app_distr. reflexivity. Qed.

Lemma nodup_app {A} (l1 l2 : list A) :
  NoDup (l1 ++ l2) <-> NoDup l1 /\ NoDup l2 /\ (forall x, In x l1 -> ~ In x l2).
Proof.
  induction l1 as [|a l1 IH]; cbn [app].
  - split; [intros H; repeat split; [constructor|exact H|intros x []]|intros (_ & H & _); exact H].
  - split.
    + intros H. inversion H as [|? ? Hn Hr]; subst. apply IH in Hr. destruct Hr as (H1 & H2 & H3).
      repeat split; [constructor; [intros Hin; apply Hn; apply in_or_app; left; exact Hin|exact H1]|exact H2|].
      intros x [Hx|Hx] Hy; [subst; apply Hn; apply in_or_app; right; exact Hy|exact (H3 x Hx Hy)].
    + intros (H1 & H2 & H3). inversion H1 as [|? ? Hn Hr]; subst. constructor.
      * intros Hin. apply in_app_or in Hin. destruct Hin as [Hin|Hin]; [contradiction|].
        exact (H3 a (or_introl eq_refl) Hin).
      * apply IH. repeat split; [exact Hr|exact H2|intros x Hx; apply H3; right; exact Hx].
Qed.

Lemma nodup_app_mid {A} (l1 b b' l2 : list A) :
  NoDup (l1 ++ b ++ l2) -> NoDup b' -> (forall x, In x b' -> In x b) -> NoDup (l1 ++ b' ++ l2).
Proof.
  intros H Hb' Hsub. apply nodup_app in H. destruct H as (H1 & H23 & Hd).
  apply nodup_app in H23. destruct H23 as (H2 & H3 & Hd2).
  apply nodup_app. repeat split; [exact H1| |].
  - apply nodup_app. repeat split; [exact Hb'|exact H3|intros x Hx; apply Hd2; apply Hsub; exact Hx].
  - intros x Hx Hy. apply (Hd x Hx). apply in_app_or in Hy. apply in_or_app.
    destruct Hy as [Hy|Hy]; [left; apply Hsub; exact Hy|right; exact Hy].
Qed.

Lemma hub_inv_nil : hub_inv [] [].
Proof.
  constructor; cbn; try (intros; contradiction); try constructor.
  - intros []. - discriminate.
Qed.

(* a member of the listing outside the replaced bucket, with the same id as one inside, cannot exist *)
Lemma mid_unique (l1 b l2 : list member) m m' :
  NoDup (ids (l1 ++ b ++ l2)) -> In m b -> In m' (l1 ++ l2) -> m_id m' <> m_id m.
Proof.
  unfold ids. rewrite !map_app. intros H Hm Hm' E.
  apply nodup_app in H. destruct H as (H1 & H23 & Hd). apply nodup_app in H23. destruct H23 as (H2 & H3 & Hd2).
  apply in_app_or in Hm'. destruct Hm' as [Hm'|Hm'].
  - apply (Hd (m_id m')); [apply in_map; exact Hm'|]. apply in_or_app. left. rewrite E. apply in_map. exact Hm.
  - apply (Hd2 (m_id m)); [apply in_map; exact Hm|]. rewrite <- E. apply in_map. exact Hm'.
Qed.

Lemma in_mid {A} (x : A) l1 b l2 : In x (l1 ++ b ++ l2) <-> In x b \/ In x (l1 ++ l2).
Proof. rewrite !in_app_iff. tauto. Qed.

Lemma reg_topic_keep evs e id t :
  registered_topic evs id = Some t -> registered_topic (evs ++ [e]) id = Some t.
Proof. intros H. rewrite registered_topic_snoc, H. reflexivity. Qed.

(* unregister and eviction: some ids leave the bucket of topic t *)
Lemma hub_inv_removal evs h e t (gone : N -> bool) b' :
  hub_inv evs h ->
  (forall x, In x b' <-> In x (bucket t h) /\ gone (m_id x) = false) ->
  NoDup (ids b') ->
  (forall id, gone id = true -> topic_agrees evs id t) ->
  (forall id, present_rev (e :: rev evs) id = if gone id then false else present_rev (rev evs) id) ->
  (forall id, joined_as_rev (e :: rev evs) id = joined_as_rev (rev evs) id) ->
  hub_inv (evs ++ [e]) (set_bucket t b' h).
Proof.
  intros Hinv Hb' Hnd Hgone Hpres Hjoin.
  destruct (split_bucket t b' h) as (l1 & l2 & HL & HL').
  destruct Hinv as [Itopic Ihome Inodup Ireg Ipres Iident].
  assert (Hsub : forall x, In x (listed (set_bucket t b' h)) -> In x (listed h)).
  { intros x Hx. rewrite HL' in Hx. rewrite HL. apply in_mid in Hx. apply in_mid.
    destruct Hx as [Hx|Hx]; [left; apply Hb' in Hx; apply Hx|right; exact Hx]. }
  (* a listed member outside the bucket is not one of those that leave *)
  assert (Hout : forall x, In x (l1 ++ l2) -> gone (m_id x) = false).
  { intros x Hx. destruct (gone (m_id x)) eqn:G; [|reflexivity]. exfalso.
    assert (Hxl : In x (listed h)) by (rewrite HL; apply in_mid; right; exact Hx).
    pose proof (Hgone _ G) as Ha. unfold topic_agrees in Ha. rewrite (Ireg x Hxl) in Ha.
    pose proof (Ihome x Hxl) as Hh. rewrite Ha in Hh.
    rewrite HL in Inodup. exact (mid_unique l1 (bucket t h) l2 x x Inodup Hh Hx eq_refl). }
  constructor.
  - intros t' x Hx. destruct (bytes_eqb t' t) eqn:E.
    + apply bytes_eqb_iff in E; subst t'. rewrite bucket_set_same in Hx. apply Hb' in Hx. apply (Itopic t x), Hx.
    + rewrite bucket_set_other in Hx; [exact (Itopic t' x Hx)|]. intros ->. rewrite bytes_eqb_refl in E. discriminate.
  - intros x Hx. rewrite HL' in Hx. apply in_mid in Hx. destruct Hx as [Hx|Hx].
    + pose proof Hx as Hx'. apply Hb' in Hx'. destruct Hx' as [Hxb _].
      rewrite (Itopic t x Hxb), bucket_set_same. exact Hx.
    + assert (Hxl : In x (listed h)) by (rewrite HL; apply in_mid; right; exact Hx).
      pose proof (Ihome x Hxl) as Hh. destruct (bytes_eqb (m_topic x) t) eqn:E.
      * apply bytes_eqb_iff in E. rewrite E in *. rewrite bucket_set_same. apply Hb'. split; [exact Hh|apply Hout; exact Hx].
      * rewrite bucket_set_other; [exact Hh|]. intros Heq. rewrite Heq, bytes_eqb_refl in E. discriminate.
  - rewrite HL'. rewrite HL in Inodup. unfold ids in *. rewrite !map_app in *.
    eapply nodup_app_mid; [exact Inodup|exact Hnd|].
    intros i Hi. apply in_map_iff in Hi. destruct Hi as (x & <- & Hx). apply in_map. apply Hb' in Hx. apply Hx.
  - intros x Hx. apply reg_topic_keep. apply Ireg. apply Hsub. exact Hx.
  - intros id. rewrite present_snoc, Hpres. fold (present evs id). rewrite !in_ids. split.
    + intros (x & Hx & <-). rewrite HL' in Hx. apply in_mid in Hx.
      assert (G : gone (m_id x) = false) by (destruct Hx as [Hx|Hx]; [apply Hb' in Hx; apply Hx|apply Hout; exact Hx]).
      rewrite G. apply Ipres. apply in_ids. exists x. split; [apply Hsub; rewrite HL'; apply in_mid; exact Hx|reflexivity].
    + destruct (gone id) eqn:G; [discriminate|]. intros Hp. apply Ipres in Hp. apply in_ids in Hp.
      destruct Hp as (x & Hx & <-). exists x. split; [|reflexivity].
      rewrite HL in Hx. rewrite HL'. apply in_mid in Hx. apply in_mid.
      destruct Hx as [Hx|Hx]; [left; apply Hb'; split; assumption|right; exact Hx].
  - intros x Hx. rewrite joined_snoc, Hjoin. apply Iident. apply Hsub. exact Hx.
Qed.

Lemma hub_inv_register evs h m :
  hub_inv evs h -> registered_topic evs (m_id m) = None ->
  hub_inv (evs ++ [Register m]) (hub_step h (Register m)).
Proof.
  intros Hinv Hfresh. cbn [hub_step]. set (t := m_topic m). set (B := bucket t h).
  destruct Hinv as [Itopic Ihome Inodup Ireg Ipres Iident].
  assert (Hnew : ~ In (m_id m) (ids (listed h))).
  { intros Hin. apply in_ids in Hin. destruct Hin as (x & Hx & E). pose proof (Ireg x Hx) as Hr.
    rewrite E, Hfresh in Hr. discriminate. }
  destruct (split_bucket t (m :: without (m_id m) B) h) as (l1 & l2 & HL & HL'). fold B in HL.
  assert (HB : without (m_id m) B = B).
  { apply without_notin. intros Hin. apply Hnew. rewrite HL. unfold ids in *. rewrite !map_app.
    apply in_or_app. right. apply in_or_app. left. exact Hin. }
  rewrite HB in *.
  assert (Hin' : forall x, In x (listed (set_bucket t (m :: B) h)) <-> x = m \/ In x (listed h)).
  { intros x. rewrite HL', HL, !in_mid. cbn [In]. split; [intros [[H|H]|H]|intros [H|[H|H]]]; auto. }
  constructor.
  - intros t' x Hx. destruct (bytes_eqb t' t) eqn:E.
    + apply bytes_eqb_iff in E; subst t'. rewrite bucket_set_same in Hx. destruct Hx as [<-|Hx]; [reflexivity|exact (Itopic t x Hx)].
    + rewrite bucket_set_other in Hx; [exact (Itopic t' x Hx)|]. intros ->. rewrite bytes_eqb_refl in E. discriminate.
  - intros x Hx. apply Hin' in Hx. destruct Hx as [->|Hx].
    + fold t. rewrite bucket_set_same. left. reflexivity.
    + pose proof (Ihome x Hx) as Hh. destruct (bytes_eqb (m_topic x) t) eqn:E.
      * apply bytes_eqb_iff in E. rewrite E in *. rewrite bucket_set_same. right. exact Hh.
      * rewrite bucket_set_other; [exact Hh|]. intros Heq. rewrite Heq, bytes_eqb_refl in E. discriminate.
  - rewrite HL'. eapply Permutation_NoDup with (l := m_id m :: ids (listed h)).
    + rewrite HL. unfold ids. rewrite !map_app. cbn [map].
      apply Permutation_cons_app. reflexivity.
    + constructor; assumption.
  - intros x Hx. apply Hin' in Hx. destruct Hx as [->|Hx].
    + rewrite registered_topic_snoc, Hfresh. cbn [registered_topic]. rewrite N.eqb_refl. reflexivity.
    + apply reg_topic_keep. apply Ireg. exact Hx.
  - intros id. rewrite present_snoc. cbn [present_rev]. fold (present evs id). rewrite in_ids. split.
    + intros (x & Hx & <-). apply Hin' in Hx. destruct Hx as [->|Hx]; [rewrite N.eqb_refl; reflexivity|].
      destruct (m_id m =? m_id x); [reflexivity|]. apply Ipres. apply in_ids. exists x. split; [exact Hx|reflexivity].
    + destruct (m_id m =? id) eqn:E.
      * intros _. exists m. split; [apply Hin'; left; reflexivity|lia].
      * intros Hp. apply Ipres in Hp. apply in_ids in Hp. destruct Hp as (x & Hx & <-).
        exists x. split; [apply Hin'; right; exact Hx|reflexivity].
  - intros x Hx. rewrite joined_snoc. cbn [joined_as_rev]. apply Hin' in Hx. destruct Hx as [->|Hx].
    + rewrite N.eqb_refl. exists m. split; reflexivity.
    + destruct (m_id m =? m_id x) eqn:E.
      * exfalso. apply Hnew. apply in_ids. exists x. split; [exact Hx|lia].
      * apply Iident. exact Hx.
Qed.

Definition upd (id : N) (dir : direction) (f : frames) (x : member) : member :=
  if m_id x =? id then set_frames dir f x else x.

Lemma upd_same id dir f x : m_id (upd id dir f x) = m_id x /\ m_topic (upd id dir f x) = m_topic x
                            /\ identity (upd id dir f x) = identity x.
Proof. unfold upd. destruct (m_id x =? id); [destruct dir|]; repeat split; reflexivity. Qed.

Lemma listed_traffic id dir f h :
  listed (hub_step h (Traffic id dir f)) = map (upd id dir f) (listed h).
Proof.
  cbn [hub_step]. induction h as [|[t b] r IH]; [reflexivity|].
  cbn [map listed flat_map fst snd]. fold (listed r). rewrite map_app. f_equal. exact IH.
Qed.

Lemma bucket_traffic id dir f t h :
  bucket t (hub_step h (Traffic id dir f)) = map (upd id dir f) (bucket t h).
Proof.
  cbn [hub_step]. induction h as [|[t' b] r IH]; [reflexivity|].
  cbn [map bucket fst snd]. destruct (bytes_eqb t t'); [reflexivity|exact IH].
Qed.

Lemma hub_inv_traffic evs h id dir f :
  hub_inv evs h -> hub_inv (evs ++ [Traffic id dir f]) (hub_step h (Traffic id dir f)).
Proof.
  intros [Itopic Ihome Inodup Ireg Ipres Iident].
  assert (Hids : ids (map (upd id dir f) (listed h)) = ids (listed h)).
  { unfold ids. rewrite map_map. apply map_ext. intros x. apply upd_same. }
  constructor.
  - intros t x Hx. rewrite bucket_traffic in Hx. apply in_map_iff in Hx. destruct Hx as (y & <- & Hy).
    destruct (upd_same id dir f y) as (_ & -> & _). exact (Itopic t y Hy).
  - intros x Hx. rewrite listed_traffic in Hx. apply in_map_iff in Hx. destruct Hx as (y & <- & Hy).
    destruct (upd_same id dir f y) as (_ & -> & _). rewrite bucket_traffic. apply in_map. exact (Ihome y Hy).
  - rewrite listed_traffic, Hids. exact Inodup.
  - intros x Hx. rewrite listed_traffic in Hx. apply in_map_iff in Hx. destruct Hx as (y & <- & Hy).
    destruct (upd_same id dir f y) as (-> & -> & _). apply reg_topic_keep. exact (Ireg y Hy).
  - intros i. rewrite listed_traffic, Hids, present_snoc. cbn [present_rev]. apply Ipres.
  - intros x Hx. rewrite listed_traffic in Hx. apply in_map_iff in Hx. destruct Hx as (y & <- & Hy).
    destruct (upd_same id dir f y) as (-> & _ & ->). rewrite joined_snoc. cbn [joined_as_rev]. exact (Iident y Hy).
Qed.

Lemma hub_inv_step evs h e : hub_inv evs h -> event_ok evs e -> hub_inv (evs ++ [e]) (hub_step h e).
Proof.
  intros Hinv Hok. destruct e as [m|id t|t slow|id dir f].
  - apply hub_inv_register; assumption.
  - cbn [hub_step]. apply (hub_inv_removal evs h _ t (fun i => i =? id)); try assumption.
    + intros x. rewrite without_in. split; intros [A B]; (split; [exact A|lia]).
    + apply nodup_ids_without. pose proof (inv_nodup _ _ Hinv) as Hn.
      destruct (split_bucket t [] h) as (l1 & l2 & HL & _). rewrite HL in Hn. unfold ids in *.
      rewrite !map_app in Hn. apply nodup_app in Hn. destruct Hn as (_ & Hn & _).
      apply nodup_app in Hn. apply Hn.
    + intros i Hi. cbn [event_ok] in Hok. assert (i = id) by lia. subst. exact Hok.
    + intros i. cbn [present_rev]. rewrite N.eqb_sym. reflexivity.
    + reflexivity.
  - cbn [hub_step].
    apply (hub_inv_removal evs h _ t (fun i => existsb (N.eqb i) slow && negb (internal_rev (rev evs) i))); try assumption.
    + intros x. rewrite filter_In. split; intros [A B]; (split; [exact A|]).
      * assert (Hx : In x (listed h)).
        { destruct (split_bucket t [] h) as (l1 & l2 & HL & _). rewrite HL. apply in_mid. left. exact A. }
        destruct (inv_identity _ _ Hinv x Hx) as (m0 & Hj & Hid). unfold internal_rev. unfold joined_as in Hj. rewrite Hj.
        assert (Hi : m_internal x = m_internal m0) by (unfold identity in Hid; inversion Hid; reflexivity).
        rewrite <- Hi. destruct (existsb (N.eqb (m_id x)) slow && negb (m_internal x)); [discriminate|reflexivity].
      * assert (Hx : In x (listed h)).
        { destruct (split_bucket t [] h) as (l1 & l2 & HL & _). rewrite HL. apply in_mid. left. exact A. }
        destruct (inv_identity _ _ Hinv x Hx) as (m0 & Hj & Hid). unfold internal_rev in B. unfold joined_as in Hj. rewrite Hj in B.
        assert (Hi : m_internal x = m_internal m0) by (unfold identity in Hid; inversion Hid; reflexivity).
        rewrite Hi, B. reflexivity.
    + apply nodup_ids_filter. pose proof (inv_nodup _ _ Hinv) as Hn.
      destruct (split_bucket t [] h) as (l1 & l2 & HL & _). rewrite HL in Hn. unfold ids in *.
      rewrite !map_app in Hn. apply nodup_app in Hn. destruct Hn as (_ & Hn & _).
      apply nodup_app in Hn. apply Hn.
    + intros i Hi. cbn [event_ok] in Hok. apply Hok. apply andb_true_iff in Hi. destruct Hi as [Hi _].
      apply existsb_exists in Hi. destruct Hi as (y & Hy & Hxy). apply N.eqb_eq in Hxy. subst. exact Hy.
    + intros i. cbn [present_rev]. reflexivity.
    + reflexivity.
  - apply hub_inv_traffic. exact Hinv.
Qed.

Lemma hub_inv_run_from evs : forall seen h,
  hub_inv seen h -> wf_history_from seen evs -> hub_inv (seen ++ evs) (fold_left hub_step evs h).
Proof.
  induction evs as [|e evs IH]; intros seen h Hinv Hwf; cbn [fold_left].
  - rewrite app_nil_r. exact Hinv.
  - cbn [wf_history_from] in Hwf. destruct Hwf as [Hok Hwf].
    replace (seen ++ e :: evs) with ((seen ++ [e]) ++ evs) by (rewrite <- app_assoc; reflexivity).
    apply IH; [|exact Hwf]. apply hub_inv_step; [exact Hinv|]. destruct e; exact Hok.
Qed.

Theorem hub_inv_run evs : wf_history evs -> hub_inv evs (hub_run evs).
Proof. intros H. exact (hub_inv_run_from evs [] [] hub_inv_nil H). Qed.

(* the listing of reports is the image of the membership, member by member *)
Lemma report_shows_identity now m :
  let r := report_of_member now m in
  r_topic r = m_topic m /\ r_scopes r = m_scopes m /\ r_canRead r = m_canRead m /\ r_canWrite r = m_canWrite m
  /\ r_connected r = m_connected m /\ r_expiresAt r = m_expiresAt m /\ r_userAgent r = m_userAgent m
  /\ r_remoteAddr r = m_remoteAddr m.
Proof. cbn. repeat split; reflexivity. Qed.

Theorem status_lists_members_lemma evs now :
  wf_history evs ->
  let h := hub_run evs in
  get_stats now h = map (report_of_member now) (listed h)
  /\ NoDup (map m_id (listed h))
  /\ (forall id, In id (map m_id (listed h)) <-> present evs id = true)
  /\ (forall m, In m (listed h) ->
        exists m0, joined_as evs (m_id m) = Some m0 /\ identity m = identity m0).
Proof.
  intros Hwf h. pose proof (hub_inv_run evs Hwf) as Hinv. fold h in Hinv.
  split; [reflexivity|]. split; [exact (inv_nodup _ _ Hinv)|]. split; [exact (inv_present _ _ Hinv)|exact (inv_identity _ _ Hinv)].
Qed.

(* ------------------------------------------------------------------ part 2: encoding and decoding *)

Lemma num_json_some f j : num_json f = Some j -> exists l, f = Finite l /\ j = JNum l /\ num_ok l = true.
Proof.
  unfold num_json. destruct f as [l|]; [|discriminate]. destruct (num_ok l) eqn:E; [|discriminate].
  intros H; inversion H; subst. exists l. auto.
Qed.

Lemma stats_json_some s j :
  stats_json s = Some j ->
  exists la sz fp, s = mk_rstats la (Finite sz) (Finite fp) /\ num_ok sz = true /\ num_ok fp = true
                   /\ j = JObj [(k_last, jstr la); (k_size, JNum sz); (k_fps, JNum fp)].
Proof.
  unfold stats_json. destruct s as [la sz fp]. cbn [rs_size rs_fps rs_last].
  destruct (num_json sz) as [a|] eqn:Ea; [|discriminate]. destruct (num_json fp) as [b|] eqn:Eb; [|discriminate].
  apply num_json_some in Ea. apply num_json_some in Eb.
  destruct Ea as (l1 & -> & -> & H1). destruct Eb as (l2 & -> & -> & H2).
  intros H; inversion H; subst. exists la, l1, l2. auto.
Qed.

Lemma report_json_some r j :
  report_json r = Some j ->
  exists t x, stats_json (r_tx r) = Some t /\ stats_json (r_rx r) = Some x /\
    j = JObj [(k_canRead, JBool (r_canRead r)); (k_canWrite, JBool (r_canWrite r));
              (k_connected, jstr (r_connected r)); (k_expiresAt, jstr (r_expiresAt r));
              (k_remoteAddr, jstr (r_remoteAddr r)); (k_scopes, scopes_json (r_scopes r));
              (k_stats, JObj [(k_tx, t); (k_rx, x)]);
              (k_topic, jstr (r_topic r)); (k_userAgent, jstr (r_userAgent r))].
Proof.
  unfold report_json. destruct (stats_json (r_tx r)) as [t|]; [|discriminate].
  destruct (stats_json (r_rx r)) as [x|]; [|discriminate]. intros H; inversion H; subst. exists t, x. auto.
Qed.

Lemma jstr_list_printable l : forallb printable (map jstr l) = true.
Proof. induction l; [reflexivity|exact IHl]. Qed.

Lemma jstr_list_depth l : fold_right (fun x a => N.max (jdepth x) a) 0 (map jstr l) = 0.
Proof. induction l as [|x l IH]; [reflexivity|]. cbn [map fold_right jstr jdepth]. rewrite IH. reflexivity. Qed.

Lemma scopes_json_ok o : printable (scopes_json o) = true /\ jdepth (scopes_json o) <= 1.
Proof.
  destruct o as [l|]; cbn [scopes_json printable jdepth]; [|split; [reflexivity|lia]].
  rewrite jstr_list_printable, jstr_list_depth. split; [reflexivity|lia].
Qed.

Lemma stats_json_ok s j : stats_json s = Some j -> printable j = true /\ jdepth j = 1.
Proof.
  intros H. apply stats_json_some in H. destruct H as (la & sz & fp & -> & H1 & H2 & ->).
  cbn [printable forallb snd jstr jdepth fold_right]. rewrite H1, H2. split; reflexivity.
Qed.

Lemma report_json_ok r j : report_json r = Some j -> printable j = true /\ jdepth j <= 3.
Proof.
  intros H. apply report_json_some in H. destruct H as (t & x & Ht & Hx & ->).
  apply stats_json_ok in Ht. apply stats_json_ok in Hx. destruct Ht as [Pt Dt]. destruct Hx as [Px Dx].
  destruct (scopes_json_ok (r_scopes r)) as [Ps Ds].
  cbn [printable forallb snd jstr jdepth fold_right]. rewrite Pt, Px, Ps, Dt, Dx. split; [reflexivity|lia].
Qed.

Lemma map_opt_report_ok rs l :
  map_opt report_json rs = Some l ->
  forallb printable l = true /\ fold_right (fun x a => N.max (jdepth x) a) 0 l <= 3.
Proof.
  revert l. induction rs as [|r rs IH]; intros l; cbn [map_opt].
  - intros H; inversion H; subst. split; [reflexivity|cbn; lia].
  - destruct (report_json r) as [j|] eqn:Ej; [|discriminate].
    destruct (map_opt report_json rs) as [js|]; [|discriminate]. intros H; inversion H; subst.
    destruct (IH js eq_refl) as [P D]. apply report_json_ok in Ej. destruct Ej as [Pj Dj].
    cbn [forallb fold_right]. rewrite Pj, P. split; [reflexivity|lia].
Qed.

Lemma reports_json_ok rs j : reports_json rs = Some j -> printable j = true /\ jdepth j <= max_depth.
Proof.
  unfold reports_json, max_depth. destruct rs as [|r rs]; [intros H; inversion H; subst; split; [reflexivity|cbn; lia]|].
  destruct (map_opt report_json (r :: rs)) as [l|] eqn:E; [|discriminate]. intros H; inversion H; subst.
  apply map_opt_report_ok in E. destruct E as [P D]. cbn [printable jdepth]. split; [exact P|lia].
Qed.

Theorem encode_wf_lemma rs s : encode_reports rs = Some s -> json_wf s = true.
Proof.
  unfold encode_reports. destruct (reports_json rs) as [j|] eqn:E; [|discriminate].
  intros H; inversion H; subst. apply reports_json_ok in E. apply print_wf; apply E.
Qed.

(* closed computations on the field names *)
Ltac keys :=
  repeat match goal with
         | |- context [key_is ?a ?b] =>
           let v := eval vm_compute in (key_is a b) in change (key_is a b) with v
         end.

Ltac san_keys :=
  change (sanitize k_canRead) with k_canRead; change (sanitize k_canWrite) with k_canWrite;
  change (sanitize k_connected) with k_connected; change (sanitize k_expiresAt) with k_expiresAt;
  change (sanitize k_remoteAddr) with k_remoteAddr; change (sanitize k_scopes) with k_scopes;
  change (sanitize k_stats) with k_stats; change (sanitize k_topic) with k_topic;
  change (sanitize k_userAgent) with k_userAgent; change (sanitize k_tx) with k_tx;
  change (sanitize k_rx) with k_rx; change (sanitize k_last) with k_last;
  change (sanitize k_size) with k_size; change (sanitize k_fps) with k_fps.

Section DecodeEncode.
  Variable lr : N -> N.
  Variable ptime : bytes -> option (Z * Z).
  Variable ncanon : bytes -> option bytes.

  Lemma unmarshal_stats_canon cur s j :
    stats_json s = Some j ->
    unmarshal_statistics lr ncanon cur (canon true j) = view_stats_with lr ncanon sanitize s.
  Proof.
    intros H. apply stats_json_some in H. destruct H as (la & sz & fp & -> & _ & _ & ->).
    cbn [canon map fst snd jstr]. san_keys.
    unfold unmarshal_statistics, view_stats_with.
    cbn [bind_tmp_string]. keys. cbn [bind_float].
    destruct (ncanon sz) as [a|] eqn:Ea.
    - destruct (ncanon fp) as [b|] eqn:Eb.
      + destruct (read_last lr (sanitize la)) as [[d nv]|]; reflexivity.
      + cbn [bind_tmp_number]. keys. destruct (read_last lr (sanitize la)) as [[d nv]|]; reflexivity.
    - cbn [bind_tmp_number]. keys. destruct (read_last lr (sanitize la)) as [[d nv]|]; reflexivity.
  Qed.

  Lemma bind_elems_canon l cur :
    bind_elems (map (canon true) (map jstr l)) cur = Some (map sanitize l).
  Proof.
    revert cur. induction l as [|x l IH]; intros cur; [reflexivity|].
    cbn [map jstr canon bind_elems bind_string]. rewrite IH. reflexivity.
  Qed.

  Lemma bind_scopes_canon o cur :
    bind_scopes cur (canon true (scopes_json o)) = Some (option_map (map sanitize) o).
  Proof.
    destruct o as [l|]; cbn [scopes_json canon bind_scopes option_map]; [|reflexivity].
    rewrite bind_elems_canon. reflexivity.
  Qed.

  (* one member at a time: the tail of the member list is hidden while the head is decided *)
  Ltac step_report :=
    match goal with
    | |- context [bind_report _ _ _ (_ :: ?r) _] =>
      let rest := fresh "rest" in
      let H := fresh "Hrest" in
      remember r as rest eqn:H; cbn [bind_report]; keys; cbv iota; subst rest
    end.

  Lemma report_of_json_canon r j :
    report_json r = Some j ->
    report_of_json lr ptime ncanon (canon true j) = normalize lr ptime ncanon r.
  Proof.
    intros H. apply report_json_some in H. destruct H as (t & x & Ht & Hx & ->).
    pose proof (unmarshal_stats_canon dstats_zero _ _ Ht) as Et.
    pose proof (unmarshal_stats_canon dstats_zero _ _ Hx) as Ex.
    unfold normalize, normalize_with.
    cbn [canon map fst snd jstr report_of_json]. san_keys.
    step_report. cbn [bind_bool].
    step_report. cbn [bind_bool].
    step_report. cbn [bind_time].
    destruct (ptime (quote_body true (r_connected r))) as [c|]; [|reflexivity].
    step_report. cbn [bind_time].
    destruct (ptime (quote_body true (r_expiresAt r))) as [e|]; [|reflexivity].
    step_report. cbn [bind_string].
    step_report. rewrite bind_scopes_canon.
    step_report.
    cbn [bind_rxtx d_tx d_rx set_canRead set_canWrite set_connected set_expiresAt set_remoteAddr set_scopes dreport_zero fst snd].
    keys. cbv iota. cbn [fst snd]. rewrite Et.
    destruct (view_stats_with lr ncanon sanitize (r_tx r)) as [vt|]; [|reflexivity].
    cbn [fst snd]. rewrite Ex.
    destruct (view_stats_with lr ncanon sanitize (r_rx r)) as [vx|]; [|reflexivity].
    step_report. cbn [bind_string].
    step_report. cbn [bind_string].
    reflexivity.
  Qed.

  Lemma map_opt_reports_canon rs l :
    map_opt report_json rs = Some l ->
    map_opt (report_of_json lr ptime ncanon) (map (canon true) l) = map_opt (normalize lr ptime ncanon) rs.
  Proof.
    revert l. induction rs as [|r rs IH]; intros l; cbn [map_opt].
    - intros H; inversion H; subst. reflexivity.
    - destruct (report_json r) as [j|] eqn:Ej; [|discriminate].
      destruct (map_opt report_json rs) as [js|] eqn:Ejs; [|discriminate]. intros H; inversion H; subst.
      cbn [map map_opt]. rewrite (report_of_json_canon _ _ Ej), (IH js eq_refl). reflexivity.
  Qed.

  Lemma reports_of_json_canon rs j :
    reports_json rs = Some j ->
    reports_of_json lr ptime ncanon (canon true j) = map_opt (normalize lr ptime ncanon) rs.
  Proof.
    unfold reports_json. destruct rs as [|r rs]; [intros H; inversion H; subst; reflexivity|].
    destruct (map_opt report_json (r :: rs)) as [l|] eqn:E; [|discriminate]. intros H; inversion H; subst.
    cbn [canon reports_of_json]. apply map_opt_reports_canon. exact E.
  Qed.

  (* what the published decoder makes of any encoded report list is [normalize], report by report,
     whatever the library oracles are *)
  Theorem decode_encode_sanitized_lemma rs s :
    encode_reports rs = Some s ->
    decode_reports lr ptime ncanon s = map_opt (normalize lr ptime ncanon) rs.
  Proof.
    unfold encode_reports, decode_reports. destruct (reports_json rs) as [j|] eqn:E; [|discriminate].
    intros H; inversion H; subst. pose proof (reports_json_ok _ _ E) as [P D].
    rewrite (parse_print true j P D). apply reports_of_json_canon. exact E.
  Qed.

  (* strings that are valid UTF-8 arrive unchanged *)
  Definition stats_valid (s : rstats) : bool := valid_utf8 (rs_last s).
  Definition report_valid (r : report) : bool :=
    valid_utf8 (r_remoteAddr r) && valid_utf8 (r_topic r) && valid_utf8 (r_userAgent r)
    && match r_scopes r with Some l => forallb valid_utf8 l | None => true end
    && stats_valid (r_tx r) && stats_valid (r_rx r).

  Lemma map_sanitize_valid l : forallb valid_utf8 l = true -> map sanitize l = l.
  Proof.
    induction l as [|x l IH]; cbn [forallb map]; [reflexivity|]. intros H. apply andb_true_iff in H.
    destruct H as [H1 H2]. rewrite (sanitize_valid _ H1), (IH H2). reflexivity.
  Qed.

  Lemma view_stats_valid s : stats_valid s = true ->
    view_stats_with lr ncanon sanitize s = view_stats_with lr ncanon (fun x => x) s.
  Proof.
    destruct s as [la sz fp]. unfold stats_valid. cbn [rs_last]. intros H.
    unfold view_stats_with. rewrite (sanitize_valid _ H). reflexivity.
  Qed.

  Lemma normalize_valid r : report_valid r = true -> normalize lr ptime ncanon r = read_back lr ptime ncanon r.
  Proof.
    unfold report_valid, normalize, read_back, normalize_with. intros H.
    repeat (apply andb_true_iff in H; let H' := fresh "V" in destruct H as [H H']).
    rewrite (view_stats_valid _ V0), (view_stats_valid _ V), (sanitize_valid _ H), (sanitize_valid _ V3), (sanitize_valid _ V2).
    destruct (r_scopes r) as [l|]; cbn [option_map]; [rewrite (map_sanitize_valid _ V1), map_id|]; reflexivity.
  Qed.

  Lemma map_opt_ext {A B} (f g : A -> option B) l : (forall x, In x l -> f x = g x) -> map_opt f l = map_opt g l.
  Proof.
    induction l as [|x l IH]; intros H; [reflexivity|]. cbn [map_opt].
    rewrite (H x (or_introl eq_refl)), IH; [reflexivity|]. intros y Hy. apply H. right. exact Hy.
  Qed.

  Theorem decode_encode_lemma rs s :
    encode_reports rs = Some s -> forallb report_valid rs = true ->
    decode_reports lr ptime ncanon s = map_opt (read_back lr ptime ncanon) rs.
  Proof.
    intros He Hv. rewrite (decode_encode_sanitized_lemma _ _ He). apply map_opt_ext.
    intros r Hr. apply normalize_valid. rewrite forallb_forall in Hv. apply Hv. exact Hr.
  Qed.
End DecodeEncode.

(* ------------------------------------------------------------------ reports of hub members *)

(* the float texts supplied for a member are JSON numbers (Go's formatter writes nothing else) *)
Definition frames_ok (f : frames) : Prop :=
  num_ok (fr_size f) = true /\ (forall l, fr_rate f = Finite l -> num_ok l = true).
Definition member_ok (m : member) : Prop := frames_ok (m_tx m) /\ frames_ok (m_rx m).

Lemma num_ok_zero : num_ok lex_zero = true.
Proof. vm_compute. reflexivity. Qed.

Lemma stats_json_frames now f : frames_ok f -> exists j, stats_json (stats_of_frames fps_from_ns now f) = Some j.
Proof.
  intros [Hs Hr]. unfold stats_of_frames, stats_json. destruct (0 <? fr_count f).
  - cbn [rs_size rs_fps rs_last num_json]. rewrite Hs.
    destruct (fr_rate f) as [l|] eqn:E; cbn [fps_from_ns num_json].
    + rewrite (Hr l eq_refl). eexists; reflexivity.
    + rewrite num_ok_zero. eexists; reflexivity.
  - cbn [rs_size rs_fps rs_last num_json]. rewrite num_ok_zero. eexists; reflexivity.
Qed.

Lemma report_json_member now m : member_ok m -> exists j, report_json (report_of_member now m) = Some j.
Proof.
  intros [Ht Hx]. unfold report_json, report_of_member, report_of_member_with. cbn [r_tx r_rx].
  destruct (stats_json_frames now _ Ht) as (jt & ->). destruct (stats_json_frames now _ Hx) as (jx & ->).
  eexists; reflexivity.
Qed.

Lemma map_opt_total {A B} (f : A -> option B) l : (forall x, In x l -> exists y, f x = Some y) -> exists ys, map_opt f l = Some ys.
Proof.
  induction l as [|x l IH]; intros H; [exists []; reflexivity|]. cbn [map_opt].
  destruct (H x (or_introl eq_refl)) as (y & ->). destruct IH as (ys & ->); [intros z Hz; apply H; right; exact Hz|].
  eexists; reflexivity.
Qed.

(* with the repaired fpsFromNs every listing encodes, whatever the accumulators hold *)
Theorem encode_total_lemma now ms :
  Forall member_ok ms -> exists s, encode_reports (map (report_of_member now) ms) = Some s.
Proof.
  intros H. unfold encode_reports, reports_json.
  destruct (map (report_of_member now) ms) as [|r rs] eqn:E; [eexists; reflexivity|]. rewrite <- E.
  destruct (map_opt_total report_json (map (report_of_member now) ms)) as (l & ->); [|eexists; reflexivity].
  intros r' Hr'. apply in_map_iff in Hr'. destruct Hr' as (m & <- & Hm). apply report_json_member.
  rewrite Forall_forall in H. apply H. exact Hm.
Qed.

(* before the repair (fpsFromNs = 1/(ns*1e-9) as is): one member with mean inter-arrival 0 ns
   and every listing fails to encode - statsReporter returns, /status fails (F13) *)
Definition zero_mean_member : member :=
  mk_member 7 [102; 49; 51] (Some [[114; 101; 97; 100]]) true true [] [] [] [] false
            (mk_frames 1 0 [53] NonFinite) (mk_frames 0 0 lex_zero (Finite lex_zero)).

Lemma encode_total_unguarded_refuted_lemma :
  member_ok zero_mean_member /\
  encode_reports [report_of_member_with fps_from_ns_unguarded 5 zero_mean_member] = None /\
  exists s, encode_reports [report_of_member 5 zero_mean_member] = Some s.
Proof.
  split; [|split].
  - repeat split; try (vm_compute; reflexivity); intros l H; try discriminate H.
    cbn in H. inversion H; subst. vm_compute. reflexivity.
  - vm_compute. reflexivity.
  - eexists. vm_compute. reflexivity.
Qed.

Section Truth.
  Variable lr : N -> N.
  Variable ptime : bytes -> option (Z * Z).
  Variable ncanon : bytes -> option bytes.
  (* what is assumed of the library: ToLower leaves the micro sign alone; a float text written by
     the encoder reads back as the same float (shortest round-trip formatting) *)
  Hypothesis lr_micro : lr 181 = 181.
  Hypothesis ncanon_zero : ncanon lex_zero = Some lex_zero.

  Definition frames_read_back (f : frames) : Prop :=
    ncanon (fr_size f) = Some (fr_size f) /\ (forall l, fr_rate f = Finite l -> ncanon l = Some l).

  Definition rate_text (f : frames) : bytes :=
    match fr_rate f with Finite l => l | NonFinite => lex_zero end.

  (* the truth about one direction of a connection, as the client should see it *)
  Definition true_stats (now : Z) (f : frames) : dstats :=
    if 0 <? fr_count f then mk_dstats (now - fr_last f) (fr_size f) (rate_text f) false
    else mk_dstats dur_999h lex_zero lex_zero true.

  Lemma view_stats_frames now f :
    frames_read_back f -> (- two63 <= now - fr_last f < two63)%Z ->
    view_stats_with lr ncanon sanitize (stats_of_frames fps_from_ns now f) = Some (true_stats now f).
  Proof.
    intros [Hs Hr] Hrange. unfold stats_of_frames, true_stats, view_stats_with, rate_text.
    destruct (0 <? fr_count f).
    - fold (sanitize (duration_bytes (now - fr_last f))).
      assert (Hsan : sanitize (duration_bytes (now - fr_last f)) = duration_bytes (now - fr_last f))
        by (apply sanitize_ok; apply duration_bytes_okstr; exact Hrange).
      destruct (fr_rate f) as [l|] eqn:E; cbn [fps_from_ns].
      + rewrite Hsan, (duration_roundtrip lr _ lr_micro Hrange), Hs, (Hr l eq_refl). reflexivity.
      + rewrite Hsan, (duration_roundtrip lr _ lr_micro Hrange), Hs, ncanon_zero. reflexivity.
    - change (sanitize lit_Never) with lit_Never.
      destruct (never_roundtrip lr) as [Hn _]. unfold lit_Never. rewrite Hn, ncanon_zero. reflexivity.
  Qed.

  Definition true_view (now : Z) (tc te : Z * Z) (m : member) : dreport :=
    mk_dreport (m_canRead m) (m_canWrite m) tc te (sanitize (m_remoteAddr m))
               (option_map (map sanitize) (m_scopes m))
               (true_stats now (m_tx m)) (true_stats now (m_rx m))
               (sanitize (m_topic m)) (sanitize (m_userAgent m)).

  Theorem client_reads_truth_lemma now m tc te :
    ptime (quote_body true (m_connected m)) = Some tc ->
    ptime (quote_body true (m_expiresAt m)) = Some te ->
    frames_read_back (m_tx m) -> frames_read_back (m_rx m) ->
    (- two63 <= now - fr_last (m_tx m) < two63)%Z -> (- two63 <= now - fr_last (m_rx m) < two63)%Z ->
    normalize lr ptime ncanon (report_of_member now m) = Some (true_view now tc te m).
  Proof.
    intros Hc He Ht Hx Rt Rx. unfold normalize, normalize_with, report_of_member, report_of_member_with, true_view.
    cbn [r_connected r_expiresAt r_tx r_rx r_canRead r_canWrite r_remoteAddr r_scopes r_topic r_userAgent].
    rewrite Hc, He, (view_stats_frames now _ Ht Rt), (view_stats_frames now _ Hx Rx). reflexivity.
  Qed.
End Truth.

(* ------------------------------------------------------------------ how a connection stops being listed *)

Definition removes (id : N) (e : event) : Prop :=
  match e with
  | Unregister i _ => i = id
  | Broadcast _ slow => In id slow
  | _ => False
  end.

Lemma leaves_only_by_rev revs id :
  present_rev revs id = false -> (exists m, joined_as_rev revs id = Some m) ->
  exists e, In e revs /\ removes id e.
Proof.
  induction revs as [|e r IH]; cbn [present_rev joined_as_rev]; intros Hp [m Hj]; [discriminate|].
  destruct e as [m'|i t|t slow|i dir f].
  - destruct (m_id m' =? id); [discriminate|]. destruct (IH Hp (ex_intro _ m Hj)) as (e & He & Hr).
    exists e. split; [right; exact He|exact Hr].
  - destruct (i =? id) eqn:E.
    + exists (Unregister i t). split; [left; reflexivity|cbn; lia].
    + destruct (IH Hp (ex_intro _ m Hj)) as (e & He & Hr). exists e. split; [right; exact He|exact Hr].
  - destruct (existsb (N.eqb id) slow && negb (internal_rev r id)) eqn:E.
    + exists (Broadcast t slow). split; [left; reflexivity|]. cbn. apply andb_true_iff in E. destruct E as [E _].
      apply existsb_exists in E.
      destruct E as (y & Hy & Hxy). apply N.eqb_eq in Hxy. subst. exact Hy.
    + destruct (IH Hp (ex_intro _ m Hj)) as (e & He & Hr). exists e. split; [right; exact He|exact Hr].
  - destruct (IH Hp (ex_intro _ m Hj)) as (e & He & Hr). exists e. split; [right; exact He|exact Hr].
Qed.

(* a connection that joined is listed until it unregisters or the hub evicts it as a slow reader *)
Theorem leaves_only_by_lemma evs id m :
  joined_as evs id = Some m -> present evs id = false -> exists e, In e evs /\ removes id e.
Proof.
  unfold joined_as, present. intros Hj Hp. destruct (leaves_only_by_rev _ id Hp (ex_intro _ m Hj)) as (e & He & Hr).
  exists e. split; [apply in_rev; exact He|exact Hr].
Qed.

(* the relay's own reporter (internal) is never evicted: once registered it stays listed unless it
   unregisters, which the code never does *)
Lemma internal_stays_rev revs id m :
  joined_as_rev revs id = Some m -> m_internal m = true ->
  (forall t, ~ In (Unregister id t) revs) -> present_rev revs id = true.
Proof.
  induction revs as [|e r IH]; cbn [joined_as_rev present_rev]; intros Hj Hi Hu; [discriminate|].
  assert (Hu' : forall t, ~ In (Unregister id t) r) by (intros t H; apply (Hu t); right; exact H).
  destruct e as [m'|i t|t slow|i dir f].
  - destruct (m_id m' =? id); [reflexivity|apply IH; assumption].
  - destruct (i =? id) eqn:E; [|apply IH; assumption].
    exfalso. apply (Hu t). left. f_equal. lia.
  - unfold internal_rev. rewrite Hj, Hi. cbn [negb]. rewrite andb_false_r. apply IH; assumption.
  - apply IH; assumption.
Qed.

Theorem feeder_always_listed_lemma evs id m :
  wf_history evs -> joined_as evs id = Some m -> m_internal m = true ->
  (forall t, ~ In (Unregister id t) evs) ->
  present evs id = true /\ In id (map m_id (listed (hub_run evs))).
Proof.
  intros Hwf Hj Hi Hu.
  assert (Hp : present evs id = true).
  { unfold present, joined_as in *. apply (internal_stays_rev _ id m Hj Hi). intros t H. apply (Hu t). apply in_rev. exact H. }
  split; [exact Hp|]. apply (inv_present _ _ (hub_inv_run evs Hwf)). exact Hp.
Qed.

(* before the repair the reporter was a member like any other: the same burst evicts a member
   that is not marked internal although it never unregisters (F15) *)
Definition ex_reporter (internal : bool) : member :=
  mk_member 1 (bytes_of "stats") (Some [bytes_of "read"; bytes_of "stats"; bytes_of "write"]) true true
            [] (bytes_of "0001-01-01T00:00:00Z") (bytes_of "crossbar") (bytes_of "internal") internal
            (mk_frames 0 0 lex_zero (Finite lex_zero)) (mk_frames 0 0 lex_zero (Finite lex_zero)).
Definition ex_writer : member :=
  mk_member 2 (bytes_of "stats") (Some [bytes_of "write"]) false true [] [] [] [] false
            (mk_frames 0 0 lex_zero (Finite lex_zero)) (mk_frames 0 0 lex_zero (Finite lex_zero)).
Definition ex_burst (internal : bool) : list event :=
  [Register (ex_reporter internal); Register ex_writer; Traffic 2 Tx (mk_frames 1000 9 [49; 52] (Finite [49]));
   Broadcast (bytes_of "stats") [1]].

Lemma burst_example_lemma :
  (forall b, wf_history (ex_burst b)) /\
  map m_id (listed (hub_run (ex_burst false))) = [2] /\ present (ex_burst false) 1 = false /\
  map m_id (listed (hub_run (ex_burst true))) = [2; 1] /\ present (ex_burst true) 1 = true.
Proof.
  split; [intros b; cbn; repeat split; try reflexivity; intros id [<-|[]]; reflexivity|].
  repeat split; vm_compute; reflexivity.
Qed.

(* ------------------------------------------------------------------ one report per websocket message *)

Lemma emit_times_gaps now waits : gaps_geb rate_limit_ms (emit_times now waits) = true.
Proof.
  revert now. induction waits as [|w r IH]; intros now; [reflexivity|].
  cbn [emit_times]. destruct r as [|w2 r2]; [reflexivity|].
  specialize (IH (now + rate_limit_ms + Z.max 0 w)%Z). cbn [emit_times] in IH |- *.
  cbn [gaps_geb] in IH |- *. rewrite IH. unfold rate_limit_ms. 
  assert (H : (1000 <=? now + 1000 + Z.max 0 w + 1000 + Z.max 0 w2 - (now + 1000 + Z.max 0 w))%Z = true) by lia.
  unfold rate_limit_ms in *. rewrite H. reflexivity.
Qed.

Lemma pump_singletons g : forall fuel ts lats,
  (length ts <= fuel)%nat -> gaps_geb g ts = true -> Forall (fun l => 0 <= l < g)%Z lats ->
  (0 < g)%Z -> pump fuel ts lats = map (fun t => [t]) ts.
Proof.
  induction fuel as [|k IH]; intros ts lats Hf Hg Hl Hpos.
  - destruct ts; [reflexivity|cbn [length] in Hf; lia].
  - destruct ts as [|t r]; [reflexivity|]. cbn [pump map].
    assert (Hlat : (0 <= hd 0%Z lats < g)%Z) by (destruct Hl; cbn [hd]; lia).
    assert (Htl : Forall (fun l => (0 <= l < g)%Z) (tl lats)) by (destruct Hl; cbn [tl]; [constructor|assumption]).
    destruct r as [|t2 r2].
    + cbn [take_until]. f_equal. destruct k; reflexivity.
    + cbn [gaps_geb] in Hg. apply andb_true_iff in Hg. destruct Hg as [H1 H2].
      cbn [take_until]. assert (E : (t2 <=? t + hd 0%Z lats)%Z = false) by lia. rewrite E.
      f_equal. apply IH; [cbn [length] in *; lia|exact H2|exact Htl|exact Hpos].
Qed.

(* the rate limit (at most one report a second) means that a viewer whose pump takes each report
   within a second of its being queued never finds two reports in one websocket message *)
Theorem one_report_per_message_lemma now waits lats :
  Forall (fun l => 0 <= l < rate_limit_ms)%Z lats ->
  messages (emit_times now waits) lats = map (fun t => [t]) (emit_times now waits).
Proof.
  intros Hl. unfold messages. apply (pump_singletons rate_limit_ms); [lia|apply emit_times_gaps|exact Hl|reflexivity].
Qed.

(* without a gap between two reports the second travels in the first one's message *)
Lemma merged_message_example : messages [5000; 5000; 7000]%Z [0; 0; 0]%Z = [[5000; 5000]; [7000]]%Z.
Proof. vm_compute. reflexivity. Qed.

(* ------------------------------------------------------------------ one unreadable time spoils the list (F16) *)

Lemma map_opt_none_in {A B} (f : A -> option B) l x : In x l -> f x = None -> map_opt f l = None.
Proof.
  induction l as [|y l IH]; intros Hin Hx; [contradiction|]. cbn [map_opt].
  destruct Hin as [->|Hin]; [rewrite Hx; reflexivity|].
  rewrite (IH Hin Hx). destruct (f y); reflexivity.
Qed.

(* GetStats writes string(MarshalText(expiry)), which is the empty string when MarshalText fails
   (years above 9999).  If the client's time parser refuses the text of ONE report's expiry, the
   whole list is refused: nobody's report can be read while that connection is joined *)
Theorem unreadable_expiry_lemma lr ptime ncanon rs s r :
  encode_reports rs = Some s -> In r rs -> ptime (quote_body true (r_expiresAt r)) = None ->
  decode_reports lr ptime ncanon s = None.
Proof.
  intros He Hin Hp. rewrite (decode_encode_sanitized_lemma lr ptime ncanon _ _ He).
  apply (map_opt_none_in _ _ r Hin). unfold normalize, normalize_with. rewrite Hp.
  destruct (ptime (quote_body true (r_connected r))); reflexivity.
Qed.

Definition far_ptime (raw : bytes) : option (Z * Z) :=
  match raw with [] => None | _ => Some (1678457085, 0)%Z end.
Definition far_member (id : N) (exp_text : bytes) : member :=
  mk_member id [102; 97; 114] (Some [[114; 101; 97; 100]]) true false (bytes_of "2023-03-10T14:04:45Z") exp_text
            [117; 97] [] false (mk_frames 0 0 lex_zero (Finite lex_zero)) (mk_frames 0 0 lex_zero (Finite lex_zero)).

Lemma far_expiry_refuted_lemma :
  let ordinary := far_member 1 (bytes_of "2023-03-10T15:04:45Z") in
  let far := far_member 2 [] in       (* MarshalText of a year above 9999 failed: "" *)
  (exists s, encode_reports [report_of_member 0 ordinary] = Some s /\
             exists l, decode_reports (fun r => r) far_ptime (fun l => Some l) s = Some l /\ length l = 1%nat) /\
  (exists s, encode_reports (map (report_of_member 0) [ordinary; far]) = Some s /\ json_wf s = true /\
             decode_reports (fun r => r) far_ptime (fun l => Some l) s = None).
Proof.
  split.
  - eexists. split; [vm_compute; reflexivity|]. eexists. split; vm_compute; reflexivity.
  - eexists. split; [vm_compute; reflexivity|]. split; vm_compute; reflexivity.
Qed.

(* ------------------------------------------------------------------ the reporter keeps reporting (F18) *)

Lemma round_len_pos every r : (rate_limit_ms <= round_len every r)%Z.
Proof. unfold round_len. destruct r; lia. Qed.

(* repaired reporter: at the end of every round the last report is less than StatsEvery old (or was
   made in that round), whatever messages arrive *)
Lemma silences_bounded every : forall rs now last,
  (last <= now)%Z -> Forall (fun s => 0 <= s < Z.max 1 every)%Z (silences true every now last rs).
Proof.
  induction rs as [|r rs IH]; intros now last Hl; cbn [silences]; [constructor|].
  pose proof (round_len_pos every r) as Hp. unfold rate_limit_ms in Hp.
  set (now' := (now + round_len every r)%Z).
  assert (Hn : (last <= now')%Z) by (unfold now'; lia).
  destruct r as [w|w|w [|]|].
  - constructor; [lia|]. apply IH. lia.
  - cbn [andb]. destruct (every <=? now' - last)%Z eqn:E.
    + constructor; [lia|]. apply IH. lia.
    + constructor; [lia|]. apply IH. exact Hn.
  - constructor; [lia|]. apply IH. lia.
  - cbn [andb]. destruct (every <=? now' - last)%Z eqn:E.
    + constructor; [lia|]. apply IH. lia.
    + constructor; [lia|]. apply IH. exact Hn.
  - constructor; [lia|]. apply IH. lia.
Qed.

Theorem reporter_keeps_reporting_lemma every rs start :
  Forall (fun s => 0 <= s < Z.max 1 every)%Z (silences true every start start rs).
Proof. apply silences_bounded. lia. Qed.

Lemma last_cons_ne {A} (a : A) l d : l <> [] -> last (a :: l) d = last l d.
Proof. destruct l; [contradiction|reflexivity]. Qed.

(* the reporter as it was: messages that are not update commands postpone the report for ever *)
Lemma reporter_starved_lemma :
  forall n, silences false 1000 0 0 (repeat (RNoise 300) (S n)) <> [] /\
            last (silences false 1000 0 0 (repeat (RNoise 300) (S n))) 0%Z = (1300 * Z.of_nat (S n))%Z.
Proof.
  assert (G : forall n now, (0 <= now)%Z ->
             last (silences false 1000 now 0 (repeat (RNoise 300) (S n))) 0%Z = (now + 1300 * Z.of_nat (S n))%Z).
  { induction n as [|n IH]; intros now Hn.
    - cbn. lia.
    - change (repeat (RNoise 300) (S (S n))) with (RNoise 300 :: repeat (RNoise 300) (S n)).
      cbn [silences andb]. set (now' := (now + round_len 1000 (RNoise 300))%Z).
      assert (Hn' : now' = (now + 1300)%Z) by (unfold now', round_len, rate_limit_ms; lia).
      assert (Hne : silences false 1000 now' 0 (repeat (RNoise 300) (S n)) <> []) by (cbn; discriminate).
      rewrite (last_cons_ne _ _ _ Hne). rewrite IH by lia. lia. }
  intros n. split; [cbn; discriminate|]. rewrite G by lia. lia.
Qed.

(* ------------------------------------------------------------------ what a report says about an admission *)

Lemma join_binds_identity_lemma now id topic scopes connected expires ua xff :
  let r := report_of_member now (member_at_join id topic scopes connected expires ua xff) in
  r_topic r = topic /\ r_scopes r = Some scopes /\ r_connected r = connected /\ r_expiresAt r = expires
  /\ r_userAgent r = ua /\ r_remoteAddr r = xff
  /\ (r_canRead r = true <-> In lit_read scopes) /\ (r_canWrite r = true <-> In lit_write scopes)
  /\ rs_last (r_tx r) = lit_Never /\ rs_last (r_rx r) = lit_Never.
Proof.
  intros r. subst r.
  change (r_canRead (report_of_member now (member_at_join id topic scopes connected expires ua xff)))
    with (existsb (bytes_eqb lit_read) scopes).
  change (r_canWrite (report_of_member now (member_at_join id topic scopes connected expires ua xff)))
    with (existsb (bytes_eqb lit_write) scopes).
  repeat split; try reflexivity.
  - intros H. apply existsb_exists in H. destruct H as (x & Hx & E). apply bytes_eqb_iff in E. subst. exact Hx.
  - intros H. apply existsb_exists. exists lit_read. split; [exact H|apply bytes_eqb_refl].
  - intros H. apply existsb_exists in H. destruct H as (x & Hx & E). apply bytes_eqb_iff in E. subst. exact Hx.
  - intros H. apply existsb_exists. exists lit_write. split; [exact H|apply bytes_eqb_refl].
Qed.

(* ------------------------------------------------------------------ GET /status bodies are well-formed *)

(* an array is parsed back whatever follows it (no look-ahead is needed after the closing bracket) *)
Lemma parse_value_print_arr html l fuel depth rest :
  printable (JArr l) = true -> depth + jdepth (JArr l) <= max_depth ->
  (length (print html (JArr l)) < fuel)%nat ->
  parse_value fuel depth (print html (JArr l) ++ rest) = Some (canon html (JArr l), rest).
Proof.
  intros Hpr Hd Hf. destruct fuel as [|k]; [lia|].
  assert (IH : Forall (PV html) l) by (apply Forall_forall; intros x _; apply parse_value_print_all).
  rewrite print_arr in *. cbn [canon printable jdepth length] in *.
  destruct l as [|x r].
  - cbn [print_elems app map]. apply pv_arr_empty. cbn [fold_right] in Hd. lia.
  - assert (Hne : x :: r <> []) by discriminate.
    destruct (print_elems_head html (x :: r) Hne Hpr) as (c & t & Hc & Hw & H93).
    cbn [app]. rewrite Hc. cbn [app]. rewrite pv_arr by (try assumption; lia).
    change (c :: t ++ rest) with ((c :: t) ++ rest). rewrite <- Hc.
    rewrite (elems_ok html (x :: r) IH Hne k (depth + 1) rest []); [reflexivity|assumption| |lia].
    eapply Forall_impl; [|apply (jdepth_fold_arr (x :: r) (max_depth - (depth + 1))); lia].
    cbn beta. intros a Ha. lia.
Qed.

Lemma omit_num_ok k f l : omit_num k f = Some l -> forallb (fun kv => printable (snd kv)) l = true /\ Forall (fun kv => jdepth (snd kv) = 0) l.
Proof.
  unfold omit_num. destruct f as [lex|]; [|discriminate]. destruct (zero_lex lex).
  - intros H; inversion H; subst. split; [reflexivity|constructor].
  - destruct (num_ok lex) eqn:E; [|discriminate]. intros H; inversion H; subst.
    cbn [forallb snd printable]. rewrite E. split; [reflexivity|repeat constructor].
Qed.

Lemma omit_str_ok k s : forallb (fun kv => printable (snd kv)) (omit_str k s) = true /\ Forall (fun kv => jdepth (snd kv) = 0) (omit_str k s).
Proof. unfold omit_str. destruct s; split; try reflexivity; repeat constructor. Qed.

Lemma omit_bool_ok k b : forallb (fun kv => printable (snd kv)) (omit_bool k b) = true /\ Forall (fun kv => jdepth (snd kv) = 0) (omit_bool k b).
Proof. unfold omit_bool. destruct b; split; try reflexivity; repeat constructor. Qed.

Lemma members_depth_le (l : list (bytes * json)) m :
  Forall (fun kv => jdepth (snd kv) <= m) l -> fold_right (fun kv a => N.max (jdepth (snd kv)) a) 0 l <= m.
Proof. induction 1 as [|kv l H _ IH]; cbn [fold_right]; lia. Qed.

Lemma forallb_app_true {A} (p : A -> bool) a b : forallb p a = true -> forallb p b = true -> forallb p (a ++ b) = true.
Proof. intros Ha Hb. rewrite forallb_app, Ha, Hb. reflexivity. Qed.

Lemma rest_details_ok s j : rest_details s = Some j -> printable j = true /\ jdepth j <= 1.
Proof.
  unfold rest_details. destruct (omit_num k_fps (rs_fps s)) as [f|] eqn:Ef; [|discriminate].
  destruct (omit_num k_size (rs_size s)) as [z|] eqn:Ez; [|discriminate]. intros H; inversion H; subst.
  destruct (omit_num_ok _ _ _ Ef) as [Pf Df]. destruct (omit_num_ok _ _ _ Ez) as [Pz Dz].
  destruct (omit_str_ok k_last (rs_last s)) as [Ps Ds].
  cbn [printable jdepth]. split.
  - repeat apply forallb_app_true; assumption.
  - assert (fold_right (fun kv a => N.max (jdepth (snd kv)) a) 0 (f ++ omit_str k_last (rs_last s) ++ z) <= 0); [|lia].
    apply members_depth_le. repeat (apply Forall_app; split); eapply Forall_impl; try eassumption; cbn beta; intros; lia.
Qed.

Definition mdepth (l : list (bytes * json)) : N := fold_right (fun kv a => N.max (jdepth (snd kv)) a) 0 l.

Lemma mdepth_app a b : mdepth (a ++ b) = N.max (mdepth a) (mdepth b).
Proof. unfold mdepth. induction a as [|x a IH]; cbn [app fold_right]; [lia|]. rewrite IH. lia. Qed.

Lemma mdepth_zero l : Forall (fun kv => jdepth (snd kv) = 0) l -> mdepth l = 0.
Proof. unfold mdepth. induction 1 as [|kv l H _ IH]; cbn [fold_right]; lia. Qed.

Lemma rest_report_ok r j : rest_report r = Some j -> printable j = true /\ jdepth j <= 3.
Proof.
  unfold rest_report. destruct (rest_details (r_rx r)) as [x|] eqn:Ex; [|discriminate].
  destruct (rest_details (r_tx r)) as [t|] eqn:Et; [|discriminate]. intros H.
  apply rest_details_ok in Ex. apply rest_details_ok in Et. destruct Ex as [Px Dx]. destruct Et as [Pt Dt].
  destruct (scopes_json_ok (r_scopes r)) as [Psc Dsc].
  destruct (omit_bool_ok rk_can_read (r_canRead r)) as [B1 E1]. destruct (omit_bool_ok rk_can_write (r_canWrite r)) as [B2 E2].
  destruct (omit_str_ok rk_connected (r_connected r)) as [S1 F1]. destruct (omit_str_ok rk_expires_at (r_expiresAt r)) as [S2 F2].
  destruct (omit_str_ok rk_remote_addr (r_remoteAddr r)) as [S3 F3]. destruct (omit_str_ok rk_topic (r_topic r)) as [S4 F4].
  destruct (omit_str_ok rk_user_agent (r_userAgent r)) as [S5 F5].
  remember [(rk_scopes, scopes_json (r_scopes r)); (rk_stats, JObj [(k_rx, x); (k_tx, t)])] as mid eqn:Hmid.
  assert (Pm : forallb (fun kv : bytes * json => printable (snd kv)) mid = true).
  { subst mid. cbn [forallb snd printable]. rewrite Psc, Px, Pt. reflexivity. }
  assert (Dm : mdepth mid <= 2).
  { subst mid. unfold mdepth. cbn [fold_right snd jdepth]. lia. }
  clear Hmid.
  inversion H; subst j. clear H. cbn [printable jdepth].
  match goal with |- _ /\ 1 + ?f <= 3 =>
    change f with (mdepth (omit_bool rk_can_read (r_canRead r) ++ omit_bool rk_can_write (r_canWrite r) ++
      omit_str rk_connected (r_connected r) ++ omit_str rk_expires_at (r_expiresAt r) ++
      omit_str rk_remote_addr (r_remoteAddr r) ++ mid ++ omit_str rk_topic (r_topic r) ++ omit_str rk_user_agent (r_userAgent r)))
  end.
  split.
  - rewrite !forallb_app. repeat (apply andb_true_iff; split); assumption.
  - rewrite !mdepth_app, (mdepth_zero _ E1), (mdepth_zero _ E2), (mdepth_zero _ F1), (mdepth_zero _ F2),
      (mdepth_zero _ F3), (mdepth_zero _ F4), (mdepth_zero _ F5). lia.
Qed.

Lemma map_opt_rest_ok rs l :
  map_opt rest_report rs = Some l ->
  forallb printable l = true /\ fold_right (fun x a => N.max (jdepth x) a) 0 l <= 3.
Proof.
  revert l. induction rs as [|r rs IH]; intros l; cbn [map_opt].
  - intros H; inversion H; subst. split; [reflexivity|cbn; lia].
  - destruct (rest_report r) as [j|] eqn:Ej; [|discriminate].
    destruct (map_opt rest_report rs) as [js|]; [|discriminate]. intros H; inversion H; subst.
    destruct (IH js eq_refl) as [P D]. apply rest_report_ok in Ej. destruct Ej as [Pj Dj].
    cbn [forallb fold_right]. rewrite Pj, P. split; [reflexivity|lia].
Qed.

(* whatever GET /status writes is well-formed JSON, and reading it back gives the projected values
   (strings with invalid UTF-8 replaced) *)
Theorem encode_rest_wf_lemma rs s :
  encode_rest rs = Some s ->
  json_wf s = true /\
  exists l, map_opt rest_report rs = Some l /\ parse s = Some (canon false (JArr l)).
Proof.
  unfold encode_rest. destruct (map_opt rest_report rs) as [l|] eqn:E; [|discriminate].
  intros H. assert (Hs : s = print false (JArr l) ++ [10]) by congruence. clear H. subst s.
  pose proof (map_opt_rest_ok _ _ E) as [P D].
  assert (Hp : parse (print false (JArr l) ++ [10]) = Some (canon false (JArr l))).
  { unfold parse. rewrite parse_value_print_arr.
    - reflexivity.
    - exact P.
    - cbn [jdepth]. unfold max_depth. lia.
    - rewrite app_length. cbn [length]. lia. }
  split; [unfold json_wf; rewrite Hp; reflexivity|]. exists l. split; [reflexivity|exact Hp].
Qed.
