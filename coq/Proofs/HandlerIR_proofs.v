(* The programs of Model/HandlerIR.v describe the model's steps: a thread whose program counter is pc performs
   exactly the group number pc of its program (and nothing else happens to the stores); a thread past its program
   does not move. Together with the generated obligation gen_handlers_follow_the_programs this is the static half of
   the tie between the Go handlers and the interleaving model (the dynamic half is the schedule enumeration). *)
From Relay Require Import Base.Prelude Model.RelaySys Model.HandlerIR Proofs.RelaySys_proofs.
Open Scope string_scope.

(* same stores, whatever the thread table *)
Definition same_stores (s1 s2 : sys) : Prop :=
  deny s1 = deny s2 /\ allow s1 = allow s2 /\ codes s1 = codes s2 /\ nextc s1 = nextc s2 /\ chm s1 = chm s2 /\
  closed s1 = closed s2 /\ members s1 = members s2 /\ ended s1 = ended s2 /\ q s1 = q s2 /\ dexp s1 = dexp s2.

Lemma same_stores_with s ts : same_stores (with_threads s ts) s.
Proof. repeat split. Qed.

Ltac step_done := eexists; split; [reflexivity|]; eexists; split; [vm_compute; reflexivity|apply same_stores_with].

Theorem session_follows_program s i b pc st g :
  thr s i = Some (TSession b pc st) -> nth_error program_session pc = Some g ->
  exists s', tstep s i = Some s' /\ exists s0, group_sem g i b 0 0 s = Some s0 /\ same_stores s' s0.
Proof.
  intros Hi Hg. unfold thr in Hi. unfold tstep; rewrite Hi.
  destruct pc as [|[|pc]]; cbn in Hg; try (destruct pc; discriminate Hg); injection Hg as <-.
  - destruct (memN b (deny s)) eqn:Hd; eexists; (split; [reflexivity|]); eexists; (split; [cbn; rewrite Hd; reflexivity|apply same_stores_with]).
  - eexists; split; [reflexivity|]. eexists; split; [cbn; reflexivity|apply same_stores_with].
Qed.

Theorem deny_follows_program s i b e pc g :
  thr s i = Some (TDeny b e pc) -> nth_error program_deny pc = Some g ->
  exists s', tstep s i = Some s' /\ exists s0, group_sem g i b e 0 s = Some s0 /\ same_stores s' s0.
Proof.
  intros Hi Hg. unfold thr in Hi. unfold tstep; rewrite Hi.
  destruct pc as [|[|[|pc]]]; cbn in Hg; try (destruct pc; discriminate Hg); injection Hg as <-;
    (eexists; split; [reflexivity|]; eexists; split; [cbn; reflexivity|apply same_stores_with]).
Qed.

Theorem allow_follows_program s i b pc g :
  thr s i = Some (TAllow b pc) -> nth_error program_allow pc = Some g ->
  exists s', tstep s i = Some s' /\ exists s0, group_sem g i b 0 0 s = Some s0 /\ same_stores s' s0.
Proof.
  intros Hi Hg. unfold thr in Hi. unfold tstep; rewrite Hi.
  destruct pc as [|pc]; cbn in Hg; try (destruct pc; discriminate Hg); injection Hg as <-.
  eexists; split; [reflexivity|]; eexists; split; [cbn; reflexivity|apply same_stores_with].
Qed.

(* a websocket admission: step 0 exchanges the code and records the deny channel under the code's booking; from then
   on the thread carries that booking; a refused one (pc 9) does not move *)
Theorem ws_follows_program s i c pc tok g :
  thr s i = Some (TWs c pc tok) -> nth_error program_ws pc = Some g -> (pc = 0 \/ exists b, tok = Some b) ->
  exists s', tstep s i = Some s' /\
    exists s0, group_sem g i (match tok with Some b => b | None => 0%N end) 0 c s = Some s0 /\ same_stores s' s0.
Proof.
  intros Hi Hg Htok. unfold thr in Hi. unfold tstep; rewrite Hi.
  destruct pc as [|[|[|pc]]]; cbn in Hg; try (destruct pc; discriminate Hg); injection Hg as <-.
  - destruct (lookupc c (codes s)) as [b'|] eqn:Hl; eexists; (split; [reflexivity|]); eexists;
      (split; [cbn; rewrite Hl; reflexivity|apply same_stores_with]).
  - destruct Htok as [Hz|[b ->]]; [discriminate|].
    destruct (memN b (deny s)) eqn:Hd; eexists; (split; [reflexivity|]); eexists;
      (split; [cbn; rewrite Hd; reflexivity|apply same_stores_with]).
  - destruct Htok as [Hz|[b ->]]; [discriminate|].
    eexists; split; [reflexivity|]; eexists; split; [cbn; reflexivity|apply same_stores_with].
Qed.

Theorem drop_follows_program s i k pc g :
  thr s i = Some (TLeave k pc) -> nth_error program_drop pc = Some g ->
  exists s', tstep s i = Some s' /\ exists s0, group_sem g k 0 0 0 s = Some s0 /\ same_stores s' s0.
Proof.
  intros Hi Hg. unfold thr in Hi. unfold tstep; rewrite Hi.
  destruct pc as [|pc]; cbn in Hg; try (destruct pc; discriminate Hg); injection Hg as <-.
  eexists; split; [reflexivity|]; eexists; split; [cbn; reflexivity|apply same_stores_with].
Qed.

(* and a thread that has run through its program is finished: no further effect *)
Theorem past_the_program_nothing_moves s i t :
  thr s i = Some t ->
  match t with
  | TSession _ pc _ => length program_session <= pc
  | TDeny _ _ pc => length program_deny <= pc
  | TAllow _ pc => length program_allow <= pc
  | TWs _ pc _ => length program_ws <= pc
  | TLeave _ pc => length program_drop <= pc
  | TPrune _ pc => 1 <= pc
  end -> tstep s i = None.
Proof.
  intros Hi Hpc. unfold thr in Hi. unfold tstep; rewrite Hi.
  destruct t as [b pc st|b e pc|b pc|c pc tok|k pc|tm pc]; cbn in Hpc.
  - do 2 (destruct pc as [|pc]; [lia|]). reflexivity.
  - do 3 (destruct pc as [|pc]; [lia|]). reflexivity.
  - destruct pc as [|pc]; [lia|]. reflexivity.
  - do 3 (destruct pc as [|pc]; [lia|]). destruct tok; reflexivity.
  - destruct pc as [|pc]; [lia|]. reflexivity.
  - destruct pc as [|pc]; [lia|]. reflexivity.
Qed.
