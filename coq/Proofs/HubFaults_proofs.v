(* C08: the hub loop, the deny loop and the shared-state part of serveWs never panic and never
   block, for every list of events with fresh connection names; a fault is local; the canary
   works after any history; histories of the access API lower to such event lists. *)
From Relay Require Import Base.Prelude Base.AList Model.ChanMap Proofs.ChanMap_proofs Model.HubFaults.

Local Notation E := N.eqb_eq.

(* ---- small facts ---- *)
Lemma members_of_tins t t' l m d cl :
  members_of t (mkhub (tins t' l m) cl d) = if N.eqb t t' then l else members_of t (mkhub m cl d).
Proof.
  unfold members_of; cbn [members]. destruct (N.eqb_spec t t') as [->|Hn].
  - rewrite lookup_insert_eq by exact E. reflexivity.
  - rewrite lookup_insert_neq by (exact E || exact Hn). reflexivity.
Qed.

Lemma members_of_indep t m cl cl' d d' : members_of t (mkhub m cl d) = members_of t (mkhub m cl' d').
Proof. reflexivity. Qed.

Lemma in_del_member x n l : In x (del_member n l) <-> In x l /\ x <> n.
Proof.
  unfold del_member. rewrite filter_In. split; intros [H1 H2]; split; try exact H1.
  - apply negb_true_iff in H2. apply N.eqb_neq. exact H2.
  - apply negb_true_iff. apply N.eqb_neq. exact H2.
Qed.

Lemma nodup_del_member n l : NoDup l -> NoDup (del_member n l).
Proof. apply NoDup_filter. Qed.

Lemma in_add_member x n l : In x (add_member n l) <-> x = n \/ In x l.
Proof.
  unfold add_member. destruct (memN n l) eqn:M.
  - apply memN_true in M. split; [intros H; right; exact H|intros [->|H]; assumption].
  - cbn. split; intros [H|H]; auto.
Qed.

Lemma nodup_add_member n l : NoDup l -> NoDup (add_member n l).
Proof.
  unfold add_member. intros H. destruct (memN n l) eqn:M; [exact H|].
  constructor; [apply memN_false; exact M|exact H].
Qed.

(* ---- the invariant ---- *)
Record HInv (h : hub) (ua ur : list N) : Prop := mkHInv {
  hi_mem : forall t n, In n (members_of t h) -> exists c, clk n (clients h) = Some c /\ c_topic c = t /\ c_open c = true;
  hi_nd : forall t, NoDup (members_of t h);
  hi_reg : forall n c, clk n (clients h) = Some c -> In n ur;
  hi_dcs : Inv (dcs h);
  hi_bound : Bound (dcs h) ua ua
}.

Lemma hinv_init : HInv hub_init [] [].
Proof.
  constructor; cbn.
  - intros t n H. destruct H.
  - intros t. constructor.
  - intros n c H. discriminate.
  - exact inv_init.
  - exact bound_init.
Qed.

Lemma hinv_weaken h ua ur ua' ur' : HInv h ua ur -> incl ua ua' -> incl ur ur' -> HInv h ua' ur'.
Proof.
  intros [H1 H2 H3 H4 H5] Ia Ir. constructor; try assumption.
  - intros n c H. apply Ir. eapply H3; exact H.
  - eapply bound_weaken; [exact H5|exact Ia|exact Ia].
Qed.

(* the part of a client record the invariant looks at *)
Definition shape (c : client) : N * bool := (c_topic c, c_open c).
Definition same_shape (cl cl' : alist N client) : Prop :=
  forall n, option_map shape (clk n cl') = option_map shape (clk n cl).

Lemma same_shape_refl cl : same_shape cl cl.
Proof. intros n; reflexivity. Qed.

Lemma same_shape_trans a b c : same_shape a b -> same_shape b c -> same_shape a c.
Proof. intros H1 H2 n. rewrite H2, H1. reflexivity. Qed.

Lemma same_shape_set_queue cl n c q : clk n cl = Some c -> same_shape cl (cins n (set_queue q c) cl).
Proof.
  intros L k. destruct (N.eq_dec k n) as [->|Hn].
  - rewrite lookup_insert_eq by exact E. rewrite L. reflexivity.
  - rewrite lookup_insert_neq by (exact E || exact Hn). reflexivity.
Qed.

Lemma hinv_shape m cl cl' d ua ur :
  HInv (mkhub m cl d) ua ur -> same_shape cl cl' -> HInv (mkhub m cl' d) ua ur.
Proof.
  intros [H1 H2 H3 H4 H5] S. constructor; cbn [clients dcs] in *; try assumption.
  - intros t n Hin. destruct (H1 t n Hin) as [c [L [Ht Ho]]].
    specialize (S n). rewrite L in S. cbn in S.
    destruct (clk n cl') as [c'|]; [|discriminate]. cbn in S. inversion S as [[St So]].
    exists c'. repeat split; congruence.
  - intros n c L. specialize (S n). rewrite L in S. destruct (clk n cl) as [c0|] eqn:L0; [|discriminate].
    eapply H3; exact L0.
Qed.

(* ---- chanmap calls ---- *)
Lemma dcs_call_ok h ua ur o w :
  HInv h ua ur -> op_fresh ua ua o -> (match o with Add _ c ch => c = ch | _ => True end) ->
  exists d', dcs_call h o w = HOk (mkhub (members h) (clients h) d') /\
             HInv (mkhub (members h) (clients h) d') (fst (used_after ua ua o)) ur /\
             d' = fst (cstep (dcs h) o).
Proof.
  intros [H1 H2 H3 H4 H5] F Hsame. unfold dcs_call.
  destruct (cstep_inv (dcs h) o ua ua H4 H5 F) as [Hp [I1 B1]].
  destruct (cstep (dcs h) o) as [d r]. cbn [fst snd] in *. rewrite Hp.
  exists d. split; [reflexivity|]. split; [|reflexivity].
  constructor; cbn [clients dcs members]; try assumption.
  destruct o as [p c ch|c|c|p|p]; cbn [used_after fst snd] in *; try exact B1.
  (* the hub uses the connection name as the channel identity: both lists are the same *)
  subst ch. destruct (effective p c c); cbn [fst snd] in *; exact B1.
Qed.

(* ---- drop ---- *)
Lemma drop_ok h ua ur n :
  HInv h ua ur -> exists h', drop h n = HOk h' /\ HInv h' ua ur.
Proof.
  intros HI. unfold drop. destruct (clk n (clients h)) as [c|] eqn:L; [|exists h; split; [reflexivity|exact HI]].
  destruct (memN n (members_of (c_topic c) h)) eqn:M.
  - apply memN_true in M. destruct (hi_mem h ua ur HI _ _ M) as [c0 [L0 [_ Ho]]].
    rewrite L in L0. inversion L0; subst c0. rewrite Ho.
    set (h1 := mkhub (tins (c_topic c) (del_member n (members_of (c_topic c) h)) (members h))
                     (cins n (set_closed c) (clients h)) (dcs h)).
    assert (HI1 : HInv h1 ua ur).
    { destruct HI as [H1 H2 H3 H4 H5]. constructor; cbn [dcs h1]; try assumption.
      - intros t k Hin. unfold h1 in Hin. rewrite members_of_tins in Hin. cbn [clients h1].
        destruct (N.eqb_spec t (c_topic c)) as [->|Hn].
        + apply in_del_member in Hin. destruct Hin as [Hin Hk].
          rewrite lookup_insert_neq by (exact E || exact Hk). apply H1. exact Hin.
        + assert (k <> n) as Hk.
          { intros ->. destruct (H1 t n Hin) as [c1 [L1 [Ht _]]]. rewrite L in L1. inversion L1; subst. congruence. }
          rewrite lookup_insert_neq by (exact E || exact Hk). apply H1. exact Hin.
      - intros t. unfold h1. rewrite members_of_tins. destruct (N.eqb t (c_topic c)); [apply nodup_del_member|]; apply H2.
      - intros k ck Lk. cbn [clients h1] in Lk. destruct (N.eq_dec k n) as [->|Hk].
        + eapply H3; exact L.
        + rewrite lookup_insert_neq in Lk by (exact E || exact Hk). eapply H3; exact Lk. }
    destruct (dcs_call_ok h1 ua ur (DelChild n) SHub HI1 Logic.I Logic.I) as [d' [Hc [HI2 _]]].
    eexists. split; [exact Hc|exact HI2].
  - destruct (dcs_call_ok h ua ur (DelChild n) SHub HI Logic.I Logic.I) as [d' [Hc [HI2 _]]].
    eexists. split; [exact Hc|exact HI2].
Qed.

Lemma drop_all_ok l : forall h ua ur, HInv h ua ur -> exists h', drop_all h l = HOk h' /\ HInv h' ua ur.
Proof.
  induction l as [|n r IH]; intros h ua ur HI; [exists h; split; [reflexivity|exact HI]|].
  cbn [drop_all]. destruct (drop_ok h ua ur n HI) as [h1 [Hd HI1]]. rewrite Hd. apply IH. exact HI1.
Qed.

(* ---- the broadcast loop ---- *)
Definition room (c : client) : bool := Nat.ltb (length (c_queue c)) (c_cap c).
Definition hit (from : N) (ms : list N) (n : N) : bool := memN n ms && negb (N.eqb n from).
Definition enq (msg : N) (c : client) : client := set_queue (c_queue c ++ [msg]) c.

Lemma offer_spec from msg ms : forall cl,
  NoDup ms ->
  (forall n, In n ms -> exists c, clk n cl = Some c /\ c_open c = true) ->
  exists cl' slow, offer from msg cl ms = Some (cl', slow) /\
    (forall n, clk n cl' = option_map (fun c => if hit from ms n && room c then enq msg c else c) (clk n cl)) /\
    (forall n, In n slow <-> hit from ms n = true /\ exists c, clk n cl = Some c /\ room c = false).
Proof.
  induction ms as [|k r IH]; intros cl Hnd Hopen.
  - exists cl, []. split; [reflexivity|]. split.
    + intros n. unfold hit. cbn. destruct (clk n cl); reflexivity.
    + intros n. unfold hit. cbn. split; [intros []|intros [X _]; discriminate].
  - inversion Hnd as [|? ? Hk Hr]; subst. cbn [offer].
    assert (Hopen_r : forall cl1, (forall n, n <> k -> clk n cl1 = clk n cl) ->
                      forall n, In n r -> exists c, clk n cl1 = Some c /\ c_open c = true).
    { intros cl1 Hsame n Hin. rewrite Hsame by (intros ->; contradiction). apply Hopen. right. exact Hin. }
    assert (Hhit_other : forall n, n <> k -> hit from (k :: r) n = hit from r n).
    { intros n Hn. unfold hit, memN. cbn [existsb]. apply N.eqb_neq in Hn. rewrite Hn. reflexivity. }
    assert (Hhit_k_r : hit from r k = false).
    { unfold hit. assert (memN k r = false) as -> by (apply memN_false; exact Hk). reflexivity. }
    destruct (N.eqb_spec k from) as [->|Hkf].
    + (* the sender itself *)
      destruct (IH cl Hr (Hopen_r cl (fun _ _ => eq_refl))) as [cl' [slow [H1 [H2 H3]]]].
      exists cl', slow. split; [exact H1|]. split.
      * intros n. rewrite H2. destruct (N.eq_dec n from) as [->|Hn].
        -- unfold hit. rewrite N.eqb_refl. rewrite !andb_false_r. reflexivity.
        -- rewrite Hhit_other by exact Hn. reflexivity.
      * intros n. rewrite H3. destruct (N.eq_dec n from) as [->|Hn].
        -- unfold hit. rewrite N.eqb_refl. rewrite !andb_false_r. tauto.
        -- rewrite Hhit_other by exact Hn. tauto.
    + destruct (Hopen k (or_introl eq_refl)) as [c [L Ho]]. rewrite L, Ho. cbn [negb].
      assert (Hhit_k : hit from (k :: r) k = true).
      { unfold hit, memN. cbn [existsb]. rewrite N.eqb_refl. cbn. apply N.eqb_neq in Hkf. rewrite Hkf. reflexivity. }
      fold (room c). destruct (room c) eqn:R.
      * set (cl1 := cins k (set_queue (c_queue c ++ [msg]) c) cl).
        assert (Hsame : forall n, n <> k -> clk n cl1 = clk n cl).
        { intros n Hn. unfold cl1. apply lookup_insert_neq; [exact E|exact Hn]. }
        destruct (IH cl1 Hr (Hopen_r cl1 Hsame)) as [cl' [slow [H1 [H2 H3]]]].
        exists cl', slow. split; [exact H1|]. split.
        -- intros n. rewrite H2. destruct (N.eq_dec n k) as [->|Hn].
           ++ unfold cl1. rewrite lookup_insert_eq by exact E. rewrite L. cbn [option_map].
              rewrite Hhit_k_r, Hhit_k, R. cbn. reflexivity.
           ++ rewrite Hsame by exact Hn. rewrite Hhit_other by exact Hn. reflexivity.
        -- intros n. rewrite H3. destruct (N.eq_dec n k) as [->|Hn].
           ++ rewrite Hhit_k_r. split; [intros [X _]; discriminate|].
              intros [_ [c2 [L2 R2]]]. rewrite L in L2. inversion L2; subst. congruence.
           ++ rewrite Hsame by exact Hn. rewrite Hhit_other by exact Hn. tauto.
      * destruct (IH cl Hr (Hopen_r cl (fun _ _ => eq_refl))) as [cl' [slow [H1 [H2 H3]]]].
        rewrite H1. exists cl', (k :: slow). split; [reflexivity|]. split.
        -- intros n. rewrite H2. destruct (N.eq_dec n k) as [->|Hn].
           ++ rewrite L. cbn [option_map]. rewrite Hhit_k_r, Hhit_k, R. reflexivity.
           ++ rewrite Hhit_other by exact Hn. reflexivity.
        -- intros n. cbn [In]. rewrite H3. destruct (N.eq_dec n k) as [->|Hn].
           ++ rewrite Hhit_k, Hhit_k_r. split.
              ** intros _. split; [reflexivity|]. exists c. split; assumption.
              ** intros _. left. reflexivity.
           ++ rewrite Hhit_other by exact Hn. split.
              ** intros [X|X]; [congruence|exact X].
              ** intros X. right. exact X.
Qed.

Lemma offer_shape from msg ms cl cl' :
  (forall n, clk n cl' = option_map (fun c => if hit from ms n && room c then enq msg c else c) (clk n cl)) ->
  same_shape cl cl'.
Proof.
  intros H n. rewrite H. destruct (clk n cl) as [c|]; [|reflexivity]. cbn [option_map].
  destruct (hit from ms n && room c); reflexivity.
Qed.

(* ---- one step ---- *)
Definition ev_fresh (ua ur : list N) (e : ev) : Prop :=
  match e with
  | WsAdd _ n => ~ In n ua
  | Register n _ _ => ~ In n ur
  | _ => True
  end.

Definition ua_after (ua : list N) (e : ev) : list N := match e with WsAdd _ n => n :: ua | _ => ua end.
Definition ur_after (ur : list N) (e : ev) : list N := match e with Register n _ _ => n :: ur | _ => ur end.

Lemma step_ok h ua ur e :
  HInv h ua ur -> ev_fresh ua ur e ->
  exists h', step h e = HOk h' /\ HInv h' (ua_after ua e) (ur_after ur e).
Proof.
  intros HI F. destruct e as [bid n|n|n t cap|n|from msg|n k|bid]; cbn [step step_gen ua_after ur_after].
  - (* WsAdd *)
    assert (op_fresh ua ua (Add bid n n)) as Fo by (intros _; split; exact F).
    destruct (dcs_call_ok h ua ur (Add bid n n) SHandler HI Fo eq_refl) as [d' [Hc [HI2 _]]].
    eexists. split; [exact Hc|]. cbn [used_after fst] in HI2.
    destruct (effective bid n n); cbn [fst] in HI2; [exact HI2|].
    eapply hinv_weaken; [exact HI2|apply incl_tl, incl_refl|apply incl_refl].
  - (* WsRefuse *)
    destruct (dcs_call_ok h ua ur (DelChild n) SHandler HI Logic.I Logic.I) as [d' [Hc [HI2 _]]].
    eexists. split; [exact Hc|exact HI2].
  - (* Register *)
    eexists. split; [reflexivity|]. cbn [ev_fresh] in F.
    destruct HI as [H1 H2 H3 H4 H5]. constructor; cbn [dcs]; try assumption.
    + intros t0 k Hin. rewrite members_of_tins in Hin. cbn [clients].
      destruct (N.eqb_spec t0 t) as [->|Hn].
      * apply in_add_member in Hin. destruct Hin as [->|Hin].
        -- rewrite lookup_insert_eq by exact E. eexists. repeat split.
        -- assert (k <> n) as Hk.
           { intros ->. destruct (H1 t n Hin) as [c [L _]]. apply F. eapply H3; exact L. }
           rewrite lookup_insert_neq by (exact E || exact Hk). apply H1. exact Hin.
      * assert (k <> n) as Hk.
        { intros ->. destruct (H1 t0 n Hin) as [c [L _]]. apply F. eapply H3; exact L. }
        rewrite lookup_insert_neq by (exact E || exact Hk). apply H1. exact Hin.
    + intros t0. rewrite members_of_tins. destruct (N.eqb t0 t); [apply nodup_add_member|]; apply H2.
    + intros k c Lk. cbn [clients] in Lk. destruct (N.eq_dec k n) as [->|Hk]; [left; reflexivity|].
      rewrite lookup_insert_neq in Lk by (exact E || exact Hk). right. eapply H3; exact Lk.
  - (* Unregister *)
    apply drop_ok. exact HI.
  - (* Broadcast *)
    destruct (clk from (clients h)) as [sc|] eqn:L; [|exists h; split; [reflexivity|exact HI]].
    destruct (offer_spec from msg (members_of (c_topic sc) h) (clients h) (hi_nd h ua ur HI _))
      as [cl' [slow [Ho [Hcl _]]]].
    { intros n Hin. destruct (hi_mem h ua ur HI _ _ Hin) as [c [Lc [_ Hop]]]. exists c. split; assumption. }
    rewrite Ho. apply drop_all_ok.
    destruct h as [m cl d]. cbn [members clients dcs] in *.
    eapply hinv_shape; [exact HI|]. eapply offer_shape; exact Hcl.
  - (* Drain *)
    destruct (clk n (clients h)) as [c|] eqn:L; [|exists h; split; [reflexivity|exact HI]].
    eexists. split; [reflexivity|]. destruct h as [m cl d]. cbn [members clients dcs] in *.
    eapply hinv_shape; [exact HI|]. apply same_shape_set_queue. exact L.
  - (* DenyBid *)
    destruct (dcs_call_ok h ua ur (DelCloseParent bid) SDeny HI Logic.I Logic.I) as [d' [Hc [HI2 _]]].
    eexists. split; [exact Hc|exact HI2].
Qed.

Lemma run_ok evs : forall h ua ur,
  HInv h ua ur -> evs_fresh ua ur evs -> exists h' ua' ur', run h evs = HOk h' /\ HInv h' ua' ur' /\ incl ua ua' /\ incl ur ur'.
Proof.
  induction evs as [|e r IH]; intros h ua ur HI F.
  - exists h, ua, ur. split; [reflexivity|]. split; [exact HI|]. split; apply incl_refl.
  - assert (ev_fresh ua ur e /\ evs_fresh (ua_after ua e) (ur_after ur e) r) as [Fe Fr].
    { destruct e; cbn [evs_fresh ev_fresh ua_after ur_after] in *; try (split; [exact Logic.I|exact F]); exact F. }
    destruct (step_ok h ua ur e HI Fe) as [h1 [Hs HI1]].
    destruct (IH h1 _ _ HI1 Fr) as [h2 [ua2 [ur2 [Hr [HI2 [Ia Ir]]]]]].
    exists h2, ua2, ur2. unfold run in *. cbn [run_gen]. unfold step in Hs. rewrite Hs.
    split; [exact Hr|]. split; [exact HI2|].
    split; [intros x Hx; apply Ia|intros x Hx; apply Ir]; destruct e; cbn [ua_after ur_after]; try exact Hx; right; exact Hx.
Qed.

Lemma hub_total evs : evs_fresh [] [] evs -> exists h, run hub_init evs = HOk h.
Proof.
  intros F. destruct (run_ok evs hub_init [] [] hinv_init F) as [h [ua [ur [H _]]]]. exists h. exact H.
Qed.

Lemma hub_never_panics evs w : evs_fresh [] [] evs -> run hub_init evs <> HPanic w.
Proof. intros F. destruct (hub_total evs F) as [h H]. rewrite H. discriminate. Qed.

Lemma hub_never_stuck evs : evs_fresh [] [] evs -> run hub_init evs <> HStuck.
Proof. intros F. destruct (hub_total evs F) as [h H]. rewrite H. discriminate. Qed.

(* ---- locality of a fault ---- *)
Lemma del_child_noclose_local d n :
  let d' := fst (do_del_child d n false) in
  closedl d' = closedl d /\
  forall n', n' <> n ->
    mlk n' (pbc d') = mlk n' (pbc d) /\ (forall p ch, entry d' p n' ch <-> entry d p n' ch).
Proof.
  unfold do_del_child. destruct (n =? 0)%N; [cbn; split; [reflexivity|intros; split; [reflexivity|tauto]]|].
  destruct (mlk n (pbc d)) as [p|] eqn:L; [|cbn; split; [reflexivity|intros; split; [reflexivity|tauto]]].
  destruct (plk p (children d)) as [[m|]|] eqn:Lp.
  - destruct (mlk n m) as [ch|] eqn:Lc; cbn [fst closedl pbc]; (split; [reflexivity|]); intros n' Hn;
      (split; [apply lookup_remove_neq; [exact E|exact Hn]|]); intros p1 ch1; unfold entry; cbn [children].
    + destruct (N.eq_dec p1 p) as [->|Hp].
      * rewrite (store_back_entry p (mrm n m) (children d) n' ch1). rewrite Lp.
        rewrite lookup_remove_neq by (exact E || exact Hn). split.
        -- intros H. exists m. split; [reflexivity|exact H].
        -- intros [m1 [H1 H2]]. inversion H1; subst m1. exact H2.
      * rewrite store_back_other by exact Hp. tauto.
    + destruct (N.eq_dec p1 p) as [->|Hp].
      * rewrite (store_back_entry p m (children d) n' ch1). rewrite Lp. split.
        -- intros H. exists m. split; [reflexivity|exact H].
        -- intros [m1 [H1 H2]]. inversion H1; subst m1. exact H2.
      * rewrite store_back_other by exact Hp. tauto.
  - cbn [fst closedl pbc]. split; [reflexivity|]. intros n' Hn.
    split; [apply lookup_remove_neq; [exact E|exact Hn]|]. intros p1 ch1; unfold entry; cbn [children].
    destruct (N.eq_dec p1 p) as [->|Hp].
    + rewrite lookup_remove_eq by exact E. rewrite Lp. split; intros [m1 [H1 _]]; discriminate.
    + rewrite lookup_remove_neq by (exact E || exact Hp). tauto.
  - cbn [fst closedl pbc]. split; [reflexivity|]. intros n' Hn.
    split; [apply lookup_remove_neq; [exact E|exact Hn]|]. intros p1 ch1; unfold entry; cbn [children].
    destruct (N.eq_dec p1 p) as [->|Hp].
    + rewrite lookup_remove_eq by exact E. rewrite Lp. split; intros [m1 [H1 _]]; discriminate.
    + rewrite lookup_remove_neq by (exact E || exact Hp). tauto.
Qed.

Definition untouched (h h' : hub) (n' : N) : Prop :=
  clk n' (clients h') = clk n' (clients h) /\
  (forall t, In n' (members_of t h') <-> In n' (members_of t h)) /\
  mlk n' (pbc (dcs h')) = mlk n' (pbc (dcs h)) /\
  (forall p ch, entry (dcs h') p n' ch <-> entry (dcs h) p n' ch).

Lemma untouched_refl h n : untouched h h n.
Proof. repeat split; tauto. Qed.

Lemma untouched_trans a b c n : untouched a b n -> untouched b c n -> untouched a c n.
Proof.
  intros (A1 & A2 & A3 & A4) (B1 & B2 & B3 & B4). repeat split; try congruence.
  - intros H. apply A2, B2. exact H.
  - intros H. apply B2, A2. exact H.
  - intros H. apply A4, B4. exact H.
  - intros H. apply B4, A4. exact H.
Qed.

Lemma dcs_delchild_untouched h n w h' n' :
  dcs_call h (DelChild n) w = HOk h' -> n' <> n -> untouched h h' n' /\ closedl (dcs h') = closedl (dcs h).
Proof.
  unfold dcs_call. cbn [cstep]. pose proof (del_child_noclose_local (dcs h) n) as [Hc Hl].
  destruct (do_del_child (dcs h) n false) as [d r]. cbn [fst] in *.
  destruct (is_panic r); [discriminate|]. intros H; inversion H; subst h'. intros Hn.
  destruct (Hl n' Hn) as [Hp He]. cbn [dcs clients]. split; [|exact Hc].
  repeat split; try tauto; try exact Hp; apply He.
Qed.

Lemma drop_local h n h' :
  drop h n = HOk h' -> forall n', n' <> n -> untouched h h' n' /\ closedl (dcs h') = closedl (dcs h).
Proof.
  unfold drop. destruct (clk n (clients h)) as [c|] eqn:L.
  - destruct (memN n (members_of (c_topic c) h)) eqn:M.
    + destruct (c_open c); [|discriminate]. intros H n' Hn.
      destruct (dcs_delchild_untouched _ _ _ _ _ H Hn) as [U Hc]. cbn [dcs] in Hc. split; [|exact Hc].
      eapply untouched_trans; [|exact U]. repeat split; cbn [clients dcs]; try tauto.
      * apply lookup_insert_neq; [exact E|exact Hn].
      * rewrite members_of_tins. destruct (N.eqb_spec t (c_topic c)) as [->|Ht].
        -- intros X. apply in_del_member in X. apply X.
        -- unfold members_of; cbn [members]; tauto.
      * rewrite members_of_tins. destruct (N.eqb_spec t (c_topic c)) as [->|Ht].
        -- intros X. apply in_del_member. split; assumption.
        -- unfold members_of; cbn [members]; tauto.
    + intros H n' Hn. apply (dcs_delchild_untouched _ _ _ _ _ H Hn).
  - intros H; inversion H; subst. intros n' _. split; [apply untouched_refl|reflexivity].
Qed.

(* a read error / abrupt close / oversize frame on n: only n changes *)
Lemma fault_is_local h n h' :
  step h (Unregister n) = HOk h' ->
  forall n', n' <> n -> untouched h h' n' /\ closedl (dcs h') = closedl (dcs h).
Proof. cbn [step step_gen]. apply drop_local. Qed.

Lemma drop_all_local l : forall h h',
  drop_all h l = HOk h' -> forall n', ~ In n' l -> untouched h h' n'.
Proof.
  induction l as [|n r IH]; intros h h' H n' Hn.
  - inversion H; subst. apply untouched_refl.
  - cbn [drop_all] in H. destruct (drop h n) as [h1| |] eqn:D; try discriminate.
    eapply untouched_trans.
    + apply (drop_local _ _ _ D). intros ->. apply Hn. left. reflexivity.
    + eapply IH; [exact H|]. intros X. apply Hn. right. exact X.
Qed.

(* a flood evicts only readers whose queue is full; everybody else on the topic gets the message,
   and other topics are untouched *)
Lemma eviction_is_local h ua ur from msg h' sc :
  HInv h ua ur -> step h (Broadcast from msg) = HOk h' -> clk from (clients h) = Some sc ->
  forall n' c', clk n' (clients h) = Some c' ->
    (is_member n' h = false \/ c_topic c' <> c_topic sc \/ n' = from ->
       clk n' (clients h') = Some c' /\ (forall t, In n' (members_of t h') <-> In n' (members_of t h))) /\
    (is_member n' h = true -> c_topic c' = c_topic sc -> n' <> from -> room c' = true ->
       clk n' (clients h') = Some (enq msg c') /\ In n' (members_of (c_topic c') h')).
Proof.
  intros HI Hs Lf n' c' L'. cbn [step step_gen] in Hs. rewrite Lf in Hs.
  destruct (offer_spec from msg (members_of (c_topic sc) h) (clients h) (hi_nd h ua ur HI _))
    as [cl' [slow [Ho [Hcl Hslow]]]].
  { intros n Hin. destruct (hi_mem h ua ur HI _ _ Hin) as [c [Lc [_ Hop]]]. exists c. split; assumption. }
  rewrite Ho in Hs.
  assert (Hmem : is_member n' h = memN n' (members_of (c_topic c') h)) by (unfold is_member; rewrite L'; reflexivity).
  split.
  - intros Hcase.
    assert (hit from (members_of (c_topic sc) h) n' = false) as Hh.
    { unfold hit. destruct Hcase as [Hc|[Hc|Hc]].
      - destruct (memN n' (members_of (c_topic sc) h)) eqn:M; [|reflexivity].
        apply memN_true in M. destruct (hi_mem h ua ur HI _ _ M) as [c1 [L1 [Ht _]]].
        rewrite L' in L1. inversion L1; subst c1. rewrite Hmem, Ht in Hc.
        apply memN_true in M. congruence.
      - destruct (memN n' (members_of (c_topic sc) h)) eqn:M; [|reflexivity].
        apply memN_true in M. destruct (hi_mem h ua ur HI _ _ M) as [c1 [L1 [Ht _]]].
        rewrite L' in L1. inversion L1; subst c1. congruence.
      - subst n'. rewrite N.eqb_refl. apply andb_false_r. }
    assert (~ In n' slow) as Hns by (rewrite Hslow; intros [X _]; congruence).
    pose proof (drop_all_local slow _ _ Hs n' Hns) as (U1 & U2 & _).
    cbn [clients] in U1. rewrite U1, Hcl, L'. cbn [option_map]. rewrite Hh. cbn.
    split; [reflexivity|]. intros t. rewrite U2. destruct h; reflexivity.
  - intros Hm Ht Hnf Hroom.
    assert (hit from (members_of (c_topic sc) h) n' = true) as Hh.
    { unfold hit. rewrite <- Ht, <- Hmem, Hm. apply N.eqb_neq in Hnf. rewrite Hnf. reflexivity. }
    assert (~ In n' slow) as Hns.
    { rewrite Hslow. intros [_ [c2 [L2 R2]]]. rewrite L' in L2. inversion L2; subst. congruence. }
    pose proof (drop_all_local slow _ _ Hs n' Hns) as (U1 & U2 & _).
    cbn [clients] in U1. rewrite U1, Hcl, L'. cbn [option_map]. rewrite Hh, Hroom. cbn.
    split; [reflexivity|]. apply U2. rewrite Hmem in Hm. apply memN_true in Hm. destruct h; exact Hm.
Qed.

(* ---- the canary ---- *)
Lemma run_cons_ok h e r h1 : step h e = HOk h1 -> run h (e :: r) = run h1 r.
Proof. intros H. unfold run, step in *. cbn [run_gen]. rewrite H. reflexivity. Qed.

Lemma canary_works h ua ur a b t bid_a bid_b cap msg :
  HInv h ua ur -> a <> b -> ~ In a ua -> ~ In b ua -> ~ In a ur -> ~ In b ur ->
  members_of t h = [] -> (1 <= cap)%nat ->
  exists h', run h [WsAdd bid_a a; Register a t cap; WsAdd bid_b b; Register b t cap; Broadcast a msg] = HOk h' /\
             clk b (clients h') = Some (mkclient t cap [msg] true) /\
             clk a (clients h') = Some (mkclient t cap [] true).
Proof.
  intros HI Hab Ha Hb Hra Hrb Hm Hcap.
  destruct (step_ok h ua ur (WsAdd bid_a a) HI Ha) as [h1 [S1 HI1]].
  assert (Hm1 : members h1 = members h /\ clients h1 = clients h).
  { cbn [step step_gen] in S1. unfold dcs_call in S1. destruct (cstep (dcs h) (Add bid_a a a)) as [d r].
    destruct (is_panic r); [discriminate|]. inversion S1; subst. split; reflexivity. }
  destruct Hm1 as [Hm1 Hc1].
  set (h2 := mkhub (tins t (add_member a (members_of t h1)) (members h1))
                   (cins a (mkclient t cap [] true) (clients h1)) (dcs h1)).
  assert (S2 : step h1 (Register a t cap) = HOk h2) by reflexivity.
  assert (Fr2 : ev_fresh (ua_after ua (WsAdd bid_a a)) ur (Register a t cap)) by exact Hra.
  destruct (step_ok h1 _ _ (Register a t cap) HI1 Fr2) as [h2' [S2' HI2]].
  rewrite S2 in S2'. inversion S2'; subst h2'. clear S2'.
  cbn [ua_after ur_after] in HI2.
  assert (Fa3 : ev_fresh (a :: ua) (a :: ur) (WsAdd bid_b b)).
  { cbn. intros [X|X]; [apply Hab; exact X|contradiction]. }
  destruct (step_ok h2 _ _ (WsAdd bid_b b) HI2 Fa3) as [h3 [S3 HI3]].
  assert (Hm3 : members h3 = members h2 /\ clients h3 = clients h2).
  { cbn [step step_gen] in S3. unfold dcs_call in S3. destruct (cstep (dcs h2) (Add bid_b b b)) as [d r].
    destruct (is_panic r); [discriminate|]. inversion S3; subst. split; reflexivity. }
  destruct Hm3 as [Hm3 Hc3].
  set (h4 := mkhub (tins t (add_member b (members_of t h3)) (members h3))
                   (cins b (mkclient t cap [] true) (clients h3)) (dcs h3)).
  assert (Hmem1 : members_of t h1 = []) by (unfold members_of in *; rewrite Hm1; exact Hm).
  assert (Hmem3 : members_of t h3 = [a]).
  { unfold members_of. rewrite Hm3. unfold h2. cbn [members]. rewrite lookup_insert_eq by exact E.
    rewrite Hmem1. reflexivity. }
  assert (Hmem4 : members_of t h4 = [b; a]).
  { unfold members_of, h4. cbn [members]. rewrite lookup_insert_eq by exact E. rewrite Hmem3.
    unfold add_member, memN. cbn [existsb]. apply N.eqb_neq in Hab.
    rewrite N.eqb_sym in Hab. rewrite Hab. reflexivity. }
  assert (La : clk a (clients h4) = Some (mkclient t cap [] true)).
  { unfold h4. cbn [clients]. rewrite lookup_insert_neq by (exact E || exact Hab).
    rewrite Hc3. unfold h2. cbn [clients]. apply lookup_insert_eq; exact E. }
  assert (Lb : clk b (clients h4) = Some (mkclient t cap [] true)).
  { unfold h4. cbn [clients]. apply lookup_insert_eq; exact E. }
  assert (S4 : step h3 (Register b t cap) = HOk h4) by reflexivity.
  assert (S5 : step h4 (Broadcast a msg) =
               HOk (mkhub (members h4) (cins b (set_queue ([] ++ [msg]) (mkclient t cap [] true)) (clients h4)) (dcs h4))).
  { cbn [step step_gen]. rewrite La. cbn [c_topic]. rewrite Hmem4. cbn [offer].
    assert ((b =? a)%N = false) as Hba by (apply N.eqb_neq; congruence). rewrite Hba.
    rewrite Lb. cbn [c_open negb c_queue c_cap length].
    assert (Nat.ltb 0 cap = true) as Hlt by (apply Nat.ltb_lt; lia). rewrite Hlt.
    rewrite N.eqb_refl. cbn [drop_all]. reflexivity. }
  eexists. split.
  - rewrite (run_cons_ok _ _ _ _ S1), (run_cons_ok _ _ _ _ S2), (run_cons_ok _ _ _ _ S3),
            (run_cons_ok _ _ _ _ S4), (run_cons_ok _ _ _ _ S5). reflexivity.
  - cbn [clients]. split.
    + rewrite lookup_insert_eq by exact E. reflexivity.
    + rewrite lookup_insert_neq by (exact E || exact Hab). exact La.
Qed.

Lemma canary_always_works :
  forall evs h, evs_fresh [] [] evs -> run hub_init evs = HOk h ->
    exists ua ur, HInv h ua ur /\
    forall a b t bid_a bid_b cap msg,
      a <> b -> ~ In a ua -> ~ In b ua -> ~ In a ur -> ~ In b ur -> members_of t h = [] -> (1 <= cap)%nat ->
      exists h', run h [WsAdd bid_a a; Register a t cap; WsAdd bid_b b; Register b t cap; Broadcast a msg] = HOk h' /\
                 clk b (clients h') = Some (mkclient t cap [msg] true) /\
                 clk a (clients h') = Some (mkclient t cap [] true).
Proof.
  intros evs h F R. destruct (run_ok evs hub_init [] [] hinv_init F) as [h1 [ua [ur [R1 [HI _]]]]].
  rewrite R in R1. inversion R1; subst h1. exists ua, ur. split; [exact HI|].
  intros a b t bid_a bid_b cap msg. exact (canary_works h ua ur a b t bid_a bid_b cap msg HI).
Qed.

(* ---- histories of the access API ---- *)
Lemma evs_fresh_app a : forall ua ur b,
  evs_fresh ua ur (a ++ b) <->
  evs_fresh ua ur a /\ evs_fresh (fold_left ua_after a ua) (fold_left ur_after a ur) b.
Proof.
  induction a as [|e r IH]; intros ua ur b; [cbn; tauto|].
  destruct e; cbn [app evs_fresh fold_left ua_after ur_after]; rewrite IH; tauto.
Qed.

Definition quiet (e : ev) : bool := match e with WsAdd _ _ | Register _ _ _ => false | _ => true end.

Lemma evs_fresh_quiet a : forall ua ur, forallb quiet a = true ->
  evs_fresh ua ur a /\ fold_left ua_after a ua = ua /\ fold_left ur_after a ur = ur.
Proof.
  induction a as [|e r IH]; intros ua ur H; [cbn; tauto|].
  cbn [forallb] in H. apply andb_true_iff in H. destruct H as [He Hr].
  destruct e; try discriminate; cbn [evs_fresh fold_left ua_after ur_after]; apply IH; exact Hr.
Qed.

Lemma evs_fresh_mono evs : forall ua ur ua' ur',
  incl ua' ua -> incl ur' ur -> evs_fresh ua ur evs -> evs_fresh ua' ur' evs.
Proof.
  induction evs as [|e r IH]; intros ua ur ua' ur' Ia Ir F; [exact Logic.I|].
  destruct e; cbn [evs_fresh] in *; try (eapply IH; eassumption).
  - destruct F as [F1 F2]. split; [intros X; apply F1, Ia, X|].
    eapply IH; [| |exact F2]; [apply incl_cons; [left; reflexivity|apply incl_tl; exact Ia]|exact Ir].
  - destruct F as [F1 F2]. split; [intros X; apply F1, Ir, X|].
    eapply IH; [| |exact F2]; [exact Ia|apply incl_cons; [left; reflexivity|apply incl_tl; exact Ir]].
Qed.

Lemma lower_fresh ae aevs : forall l u, aconn_fresh u aevs -> evs_fresh u u (lower_all ae l aevs).
Proof.
  induction aevs as [|a r IH]; intros l u F; [exact Logic.I|].
  cbn [lower_all]. destruct (lower ae l a) as [[l1 es] o] eqn:Lw.
  assert (Hq : forall es0 l0 o0, lower ae l a = (l0, es0, o0) -> forallb quiet es0 = true ->
               (match a with AConnect _ _ _ => False | _ => True end) -> evs_fresh u u (es0 ++ lower_all ae l0 r)).
  { intros es0 l0 o0 _ Hqt Hna. apply evs_fresh_app. destruct (evs_fresh_quiet es0 u u Hqt) as [Q1 [Q2 Q3]].
    split; [exact Q1|]. rewrite Q2, Q3. apply IH. destruct a; cbn [aconn_fresh] in F; try exact F. destruct Hna. }
  destruct a as [code bid topic|code n cap|n|bid|bid|n msg]; cbn [lower] in Lw.
  - apply (Hq es l1 o Lw); [|exact Logic.I].
    destruct (((bid =? 0)%N && negb ae) || memN bid (denied l)); inversion Lw; reflexivity.
  - cbn [aconn_fresh] in F. destruct F as [Fn Fr].
    destruct (lookup N.eqb code (codes l)) as [[bid topic]|].
    + destruct (memN bid (denied l)); inversion Lw; subst; cbn [app evs_fresh].
      * split; [exact Fn|]. eapply evs_fresh_mono; [| |apply IH; exact Fr]; [apply incl_refl|apply incl_tl, incl_refl].
      * split; [exact Fn|]. split; [exact Fn|]. apply IH. exact Fr.
    + inversion Lw; subst. cbn [app].
      eapply evs_fresh_mono; [| |apply IH; exact Fr]; apply incl_tl, incl_refl.
  - apply (Hq es l1 o Lw); [|exact Logic.I].
    destruct (lookup N.eqb n (conns l)); inversion Lw; reflexivity.
  - apply (Hq es l1 o Lw); [|exact Logic.I].
    destruct (bid =? 0)%N; inversion Lw; [reflexivity|]. cbn [forallb quiet andb].
    clear. induction (filter (fun kv : N * N => (snd kv =? bid)%N) (conns l)) as [|x xs IHx]; [reflexivity|exact IHx].
  - apply (Hq es l1 o Lw); [|exact Logic.I].
    destruct (bid =? 0)%N; inversion Lw; reflexivity.
  - apply (Hq es l1 o Lw); [|exact Logic.I].
    destruct (lookup N.eqb n (conns l)); inversion Lw; reflexivity.
Qed.

Lemma admin_never_fails ae aevs :
  aconn_fresh [] aevs -> exists h, run hub_init (lower_all ae lite_init aevs) = HOk h.
Proof. intros F. apply hub_total. apply lower_fresh. exact F. Qed.

(* ---- the relay keeps letting connections in: after ANY history of API calls, a session for a booking that is not
   denied followed by a connect presenting its code puts the new connection on the topic ---- *)
Lemma run_app a : forall h b, run h (a ++ b) = match run h a with HOk h1 => run h1 b | x => x end.
Proof.
  induction a as [|e r IH]; intros h b; [reflexivity|].
  unfold run in *. cbn [app run_gen]. destruct (step_gen true h e); [apply IH|reflexivity|reflexivity].
Qed.

Lemma lower_all_app ae a : forall l b,
  lower_all ae l (a ++ b) = lower_all ae l a ++ lower_all ae (lite_after ae l a) b.
Proof.
  induction a as [|x r IH]; intros l b; [reflexivity|].
  cbn [app lower_all lite_after]. destruct (lower ae l x) as [[l1 es] o]. cbn [fst]. rewrite IH, app_assoc. reflexivity.
Qed.

Lemma register_joins h n t cap h' : step h (Register n t cap) = HOk h' -> is_member n h' = true.
Proof.
  cbn [step step_gen]. intros H; inversion H; subst h'. unfold is_member. cbn [clients].
  rewrite lookup_insert_eq by exact E. cbn [c_topic]. rewrite members_of_tins, N.eqb_refl.
  apply memN_true. apply in_add_member. left. reflexivity.
Qed.

Lemma valid_connect_joins ae aevs code bid topic n cap :
  aconn_fresh [] (aevs ++ [ASession code bid topic; AConnect code n cap]) ->
  memN bid (denied (lite_after ae lite_init aevs)) = false ->
  ((bid =? 0)%N && negb ae)%bool = false ->
  exists h, run hub_init (lower_all ae lite_init (aevs ++ [ASession code bid topic; AConnect code n cap])) = HOk h /\
            is_member n h = true.
Proof.
  intros F Hd H0.
  destruct (admin_never_fails ae _ F) as [h Hrun].
  exists h. split; [exact Hrun|].
  rewrite lower_all_app in Hrun. set (l := lite_after ae lite_init aevs) in *.
  cbn [lower_all lower] in Hrun. rewrite H0, Hd in Hrun. cbn [orb codes denied conns] in Hrun.
  rewrite lookup_insert_eq in Hrun by exact E. rewrite Hd in Hrun.
  change ([] ++ [WsAdd bid n; Register n topic cap] ++ []) with [WsAdd bid n; Register n topic cap] in Hrun.
  rewrite run_app in Hrun.
  destruct (run hub_init (lower_all ae lite_init aevs)) as [h1| |]; try discriminate.
  unfold run in Hrun. cbn [run_gen] in Hrun.
  destruct (step_gen true h1 (WsAdd bid n)) as [h2| |]; try discriminate.
  destruct (step_gen true h2 (Register n topic cap)) as [h3| |] eqn:S3; try discriminate.
  inversion Hrun; subst h3. eapply register_joins. exact S3.
Qed.
