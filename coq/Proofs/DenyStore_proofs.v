(* Invariants and the refinement of the two-map store to a single register (C10). *)
From Relay Require Import Base.Prelude Base.AList Base.SortN Model.DenyStore.

Local Notation E := N.eqb_eq.
Ltac al := try exact E; try assumption.
Ltac sim := cbn [allowl denyl now entries snow fst snd do_deny do_allow do_prune].

Definition Inv (s : st) : Prop :=
  NoDup (keys (allowl s)) /\ NoDup (keys (denyl s)) /\
  (forall id, lk id (denyl s) <> None -> lk id (allowl s) = None).

Lemma inv_init t : Inv (init t).
Proof. repeat split; cbn; try constructor. Qed.

Lemma inv_deny s id e : Inv s -> Inv (do_deny s id e).
Proof.
  intros (Ha & Hd & Hx). unfold do_deny; repeat split; sim.
  - apply nodup_remove; al.
  - apply nodup_insert; al.
  - intros k Hk. destruct (N.eq_dec k id) as [->|Hn].
    + apply lookup_remove_eq; exact E.
    + rewrite lookup_remove_neq by (exact E || exact Hn).
      rewrite lookup_insert_neq in Hk by (exact E || exact Hn). apply Hx; exact Hk.
Qed.

Lemma inv_allow s id e : Inv s -> Inv (do_allow s id e).
Proof.
  intros (Ha & Hd & Hx). unfold do_allow; repeat split; sim.
  - apply nodup_insert; al.
  - apply nodup_remove; al.
  - intros k Hk. destruct (N.eq_dec k id) as [->|Hn].
    + rewrite lookup_remove_eq in Hk by exact E. contradiction.
    + rewrite lookup_remove_neq in Hk by (exact E || exact Hn).
      rewrite lookup_insert_neq by (exact E || exact Hn). apply Hx; exact Hk.
Qed.

Lemma inv_prune s : Inv s -> Inv (do_prune s).
Proof.
  intros (Ha & Hd & Hx). unfold do_prune; repeat split; sim.
  - apply nodup_filterv; al.
  - apply nodup_filterv; al.
  - intros k Hk. 
    rewrite lookup_filterv in Hk by (exact E || exact Hd).
    rewrite lookup_filterv by (exact E || exact Ha).
    destruct (lookup N.eqb k (denyl s)) eqn:L; [|contradiction].
    rewrite Hx by congruence. reflexivity.
Qed.

Lemma inv_step s o : Inv s -> Inv (fst (step s o)).
Proof.
  intros H. destruct o; cbn [step fst].
  - apply inv_deny; exact H.
  - apply inv_allow; exact H.
  - exact H.
  - apply inv_prune; exact H.
  - exact H.
  - exact H.
  - exact H.
  - destruct (id =? 0)%N; [exact H|]. destruct (e <? now s)%Z; [exact H|apply inv_deny; exact H].
  - destruct (id =? 0)%N; [exact H|]. destruct (e <? now s)%Z; [exact H|apply inv_allow; exact H].
  - exact H.
  - exact H.
  - destruct ((id =? 0)%N && negb allow_empty)%bool; [exact H|].
    destruct (has id (denyl s)); [exact H|apply inv_allow; exact H].
Qed.

Lemma inv_final s ops : Inv s -> Inv (final s ops).
Proof.
  revert s; induction ops as [|o r IH]; intros s H; [exact H|].
  unfold final; cbn [fold_left]. apply IH. apply inv_step; exact H.
Qed.

(* ---- refinement ---- *)
Definition R (s : st) (sp : spec) : Prop :=
  snow sp = now s /\ NoDup (keys (entries sp)) /\ forall id, rlk id (entries sp) = abs_lookup s id.

Lemma R_init t : R (init t) (mkspec [] t).
Proof. repeat split; cbn; try constructor. Qed.

Lemma spec_denied_has s sp id : R s sp -> spec_denied id (entries sp) = has id (denyl s).
Proof.
  intros (_ & _ & H). unfold spec_denied, mem. rewrite H. unfold abs_lookup.
  destruct (lookup N.eqb id (denyl s)); [reflexivity|].
  destruct (lookup N.eqb id (allowl s)); reflexivity.
Qed.

Lemma spec_list_denied s sp : Inv s -> R s sp -> spec_list Denied (entries sp) = sortN (keys (denyl s)).
Proof.
  intros (Ha & Hd & Hx) (_ & Hn & H). unfold spec_list. apply sortN_set_eq.
  - apply nodup_filterv; al.
  - exact Hd.
  - intros x. rewrite !(in_keys_lookup N.eqb E). rewrite lookup_filterv by (exact E || exact Hn).
    rewrite H. unfold abs_lookup.
    destruct (lookup N.eqb x (denyl s)) eqn:L; cbn; [split; congruence|].
    destruct (lookup N.eqb x (allowl s)); cbn; split; congruence.
Qed.

Lemma spec_list_allowed s sp : Inv s -> R s sp -> spec_list Allowed (entries sp) = sortN (keys (allowl s)).
Proof.
  intros (Ha & Hd & Hx) (_ & Hn & H). unfold spec_list. apply sortN_set_eq.
  - apply nodup_filterv; al.
  - exact Ha.
  - intros x. rewrite !(in_keys_lookup N.eqb E). rewrite lookup_filterv by (exact E || exact Hn).
    rewrite H. unfold abs_lookup.
    destruct (lookup N.eqb x (denyl s)) eqn:L; cbn.
    + rewrite Hx by congruence. split; congruence.
    + destruct (lookup N.eqb x (allowl s)); cbn; split; congruence.
Qed.

Lemma R_deny s sp id e : Inv s -> R s sp ->
  R (do_deny s id e) (mkspec (rins id (Denied, e) (entries sp)) (snow sp)).
Proof.
  intros _ (Ht & Hn & H). repeat split; sim; [exact Ht|apply nodup_insert; al|].
  intros k. unfold abs_lookup; sim.
  destruct (N.eq_dec k id) as [->|Hne].
  - rewrite !lookup_insert_eq by exact E. reflexivity.
  - rewrite !lookup_insert_neq by (exact E || exact Hne).
    rewrite lookup_remove_neq by (exact E || exact Hne). apply H.
Qed.

Lemma R_allow s sp id e : Inv s -> R s sp ->
  R (do_allow s id e) (mkspec (rins id (Allowed, e) (entries sp)) (snow sp)).
Proof.
  intros _ (Ht & Hn & H). repeat split; sim; [exact Ht|apply nodup_insert; al|].
  intros k. unfold abs_lookup; sim.
  destruct (N.eq_dec k id) as [->|Hne].
  - rewrite lookup_insert_eq by exact E. rewrite lookup_remove_eq by exact E.
    rewrite lookup_insert_eq by exact E. reflexivity.
  - rewrite !lookup_insert_neq by (exact E || exact Hne).
    rewrite lookup_remove_neq by (exact E || exact Hne). apply H.
Qed.

Lemma R_prune s sp : Inv s -> R s sp ->
  R (do_prune s) (mkspec (filterv (fun _ v => negb (snd v <? snow sp)%Z) (entries sp)) (snow sp)).
Proof.
  intros (Ha & Hd & Hx) (Ht & Hn & H). repeat split; sim; [exact Ht|apply nodup_filterv; al|].
  intros k. unfold abs_lookup; sim.
  rewrite !lookup_filterv by (exact E || assumption).
  rewrite H. unfold abs_lookup, stale. rewrite Ht.
  destruct (lookup N.eqb k (denyl s)) eqn:L; cbn.
  - destruct (z <? now s)%Z; cbn; [|reflexivity].
    rewrite Hx by congruence. reflexivity.
  - destruct (lookup N.eqb k (allowl s)); cbn; [destruct (z <? now s)%Z; reflexivity|reflexivity].
Qed.

Theorem refinement s sp o :
  Inv s -> R s sp ->
  R (fst (step s o)) (fst (spec_step sp o)) /\ snd (step s o) = snd (spec_step sp o).
Proof.
  intros HI HR. pose proof HR as (Ht & Hn & H).
  destruct o; cbn [step spec_step].
  - split; [apply R_deny; assumption|reflexivity].
  - split; [apply R_allow; assumption|reflexivity].
  - split; [exact HR|]. cbn [snd]. rewrite (spec_denied_has s sp) by exact HR. reflexivity.
  - split; [apply R_prune; assumption|reflexivity].
  - split; [exact HR|]. cbn [snd]. rewrite (spec_list_denied s sp) by assumption. reflexivity.
  - split; [exact HR|]. cbn [snd]. rewrite (spec_list_allowed s sp) by assumption. reflexivity.
  - split; [|reflexivity]. repeat split; cbn; [exact Hn|exact H].
  - rewrite <- Ht. destruct (id =? 0)%N; [split; [exact HR|reflexivity]|].
    destruct (e <? snow sp)%Z; [split; [exact HR|reflexivity]|].
    split; [apply R_deny; assumption|reflexivity].
  - rewrite <- Ht. destruct (id =? 0)%N; [split; [exact HR|reflexivity]|].
    destruct (e <? snow sp)%Z; [split; [exact HR|reflexivity]|].
    split; [apply R_allow; assumption|reflexivity].
  - split; [exact HR|]. cbn [snd]. rewrite (spec_list_denied s sp) by assumption. reflexivity.
  - split; [exact HR|]. cbn [snd]. rewrite (spec_list_allowed s sp) by assumption. reflexivity.
  - destruct ((id =? 0)%N && negb allow_empty)%bool; [split; [exact HR|reflexivity]|].
    rewrite (spec_denied_has s sp) by exact HR.
    destruct (has id (denyl s)); [split; [exact HR|reflexivity]|].
    split; [apply R_allow; assumption|reflexivity].
Qed.

(* run of the spec, mirroring [run] *)
Fixpoint spec_run (s : spec) (ops : list op) : spec * list out :=
  match ops with
  | [] => (s, [])
  | o :: r => let '(s1, x) := spec_step s o in let '(s2, xs) := spec_run s1 r in (s2, x :: xs)
  end.

Theorem refinement_run ops : forall s sp,
  Inv s -> R s sp ->
  R (fst (run s ops)) (fst (spec_run sp ops)) /\ snd (run s ops) = snd (spec_run sp ops).
Proof.
  induction ops as [|o r IH]; intros s sp HI HR; cbn; [split; [exact HR|reflexivity]|].
  destruct (refinement s sp o HI HR) as [HR1 Ho].
  pose proof (inv_step s o HI) as HI1.
  destruct (step s o) as [s1 x] eqn:S1. destruct (spec_step sp o) as [sp1 x'] eqn:S2. cbn in *.
  destruct (IH s1 sp1 HI1 HR1) as [HR2 Ho2].
  destruct (run s1 r) as [s2 xs]. destruct (spec_run sp1 r) as [sp2 xs']. cbn in *.
  split; [exact HR2|congruence].
Qed.

(* ---- corollaries in the words of the property ---- *)

Definition on_deny (s : st) id := lk id (denyl s) <> None.
Definition on_allow (s : st) id := lk id (allowl s) <> None.

Lemma never_both s ops id : Inv s -> ~ (on_deny (final s ops) id /\ on_allow (final s ops) id).
Proof.
  intros H [Hd Ha]. destruct (inv_final s ops H) as (_ & _ & Hx). apply Ha. apply Hx. exact Hd.
Qed.

(* which operations set the status of [id] *)
Definition sets (s : st) (o : op) (id : N) : option (status * Z) :=
  match o with
  | ODeny i e => if (i =? id)%N then Some (Denied, e) else None
  | OAllow i e => if (i =? id)%N then Some (Allowed, e) else None
  | HDeny i e => if (i =? id)%N && negb (i =? 0)%N && negb (e <? now s)%Z then Some (Denied, e) else None
  | HAllow i e => if (i =? id)%N && negb (i =? 0)%N && negb (e <? now s)%Z then Some (Allowed, e) else None
  | HSession ae i e =>
      if (i =? id)%N && negb ((i =? 0)%N && negb ae) && negb (has i (denyl s)) then Some (Allowed, e) else None
  | _ => None
  end.

(* one step: the status of id afterwards is what the operation set, or what it was before,
   unless the operation is a prune and the entry's own expiry is in the past *)
Lemma step_status s o id : Inv s ->
  abs_lookup (fst (step s o)) id =
    match sets s o id with
    | Some v => Some v
    | None =>
        match o, abs_lookup s id with
        | OPrune, Some (w, e) => if (e <? now s)%Z then None else Some (w, e)
        | _, r => r
        end
    end.
Proof.
  intros (Ha & Hd & Hx).
  assert (Hden : forall i e, abs_lookup (do_deny s i e) id = if (i =? id)%N then Some (Denied, e) else abs_lookup s id).
  { intros i e. unfold abs_lookup, do_deny; sim.
    destruct (N.eqb_spec i id) as [->|Hn].
    - rewrite lookup_insert_eq by exact E. reflexivity.
    - rewrite lookup_insert_neq by (exact E || congruence).
      rewrite lookup_remove_neq by (exact E || congruence). reflexivity. }
  assert (Hall : forall i e, abs_lookup (do_allow s i e) id = if (i =? id)%N then Some (Allowed, e) else abs_lookup s id).
  { intros i e. unfold abs_lookup, do_allow; sim.
    destruct (N.eqb_spec i id) as [->|Hn].
    - rewrite lookup_remove_eq by exact E. rewrite lookup_insert_eq by exact E. reflexivity.
    - rewrite lookup_insert_neq by (exact E || congruence).
      rewrite lookup_remove_neq by (exact E || congruence). reflexivity. }
  destruct o; cbn [step fst sets].
  - rewrite Hden. destruct (id0 =? id)%N; reflexivity.
  - rewrite Hall. destruct (id0 =? id)%N; reflexivity.
  - reflexivity.
  - unfold abs_lookup, do_prune; sim. rewrite !lookup_filterv by (exact E || assumption). unfold stale.
    destruct (lookup N.eqb id (denyl s)) eqn:L; cbn.
    + destruct (z <? now s)%Z; cbn; [|reflexivity]. rewrite Hx by congruence. reflexivity.
    + destruct (lookup N.eqb id (allowl s)); cbn; [destruct (z <? now s)%Z; reflexivity|reflexivity].
  - reflexivity.
  - reflexivity.
  - unfold abs_lookup; sim. destruct (lk id (denyl s)); [reflexivity|]. destruct (lk id (allowl s)); reflexivity.
  - destruct (id0 =? 0)%N eqn:Z0; cbn [fst]; [rewrite andb_false_r; cbn; destruct (abs_lookup s id) as [[? ?]|]; reflexivity|].
    destruct (e <? now s)%Z; cbn [fst negb]; [rewrite !andb_false_r; destruct (abs_lookup s id) as [[? ?]|]; reflexivity|].
    rewrite Hden. destruct (id0 =? id)%N; cbn; [reflexivity|destruct (abs_lookup s id) as [[? ?]|]; reflexivity].
  - destruct (id0 =? 0)%N eqn:Z0; cbn [fst]; [rewrite andb_false_r; cbn; destruct (abs_lookup s id) as [[? ?]|]; reflexivity|].
    destruct (e <? now s)%Z; cbn [fst negb]; [rewrite !andb_false_r; destruct (abs_lookup s id) as [[? ?]|]; reflexivity|].
    rewrite Hall. destruct (id0 =? id)%N; cbn; [reflexivity|destruct (abs_lookup s id) as [[? ?]|]; reflexivity].
  - destruct (abs_lookup s id) as [[? ?]|]; reflexivity.
  - destruct (abs_lookup s id) as [[? ?]|]; reflexivity.
  - destruct ((id0 =? 0)%N && negb allow_empty)%bool; cbn [fst negb];
      [rewrite andb_false_r; cbn; destruct (abs_lookup s id) as [[? ?]|]; reflexivity|].
    destruct (has id0 (denyl s)); cbn [fst negb];
      [rewrite !andb_false_r; destruct (abs_lookup s id) as [[? ?]|]; reflexivity|].
    rewrite Hall. destruct (id0 =? id)%N; cbn; [reflexivity|destruct (abs_lookup s id) as [[? ?]|]; reflexivity].
Qed.

(* last writer wins: after [ops1 ++ o :: ops2], if [o] set the status of id to v and nothing in ops2
   sets it again or prunes it past its expiry, the status at the end is v *)
Fixpoint quiet (s : st) (ops : list op) (id : N) (e : Z) : Prop :=
  match ops with
  | [] => True
  | o :: r => sets s o id = None /\ (o = OPrune -> (now s <= e)%Z) /\ quiet (fst (step s o)) r id e
  end.

Lemma quiet_keeps ops : forall s id w e, Inv s -> abs_lookup s id = Some (w, e) -> quiet s ops id e ->
  abs_lookup (final s ops) id = Some (w, e).
Proof.
  induction ops as [|o r IH]; intros s id w e HI Hs Hq; [exact Hs|].
  destruct Hq as (Hset & Hpr & Hq). unfold final; cbn [fold_left]. apply IH; [apply inv_step; exact HI| |exact Hq].
  rewrite step_status by exact HI. rewrite Hset, Hs.
  destruct o; try reflexivity. specialize (Hpr eq_refl). destruct (Z.ltb_spec e (now s)); [lia|reflexivity].
Qed.

Theorem last_writer_wins s ops1 o ops2 id w e :
  Inv s ->
  sets (final s ops1) o id = Some (w, e) ->
  quiet (fst (step (final s ops1) o)) ops2 id e ->
  abs_lookup (final s (ops1 ++ o :: ops2)) id = Some (w, e).
Proof.
  intros HI Hset Hq. unfold final. rewrite fold_left_app. cbn [fold_left].
  fold (final s ops1). set (s1 := final s ops1) in *.
  assert (HI1 : Inv s1) by (apply inv_final; exact HI).
  apply (quiet_keeps ops2 (fst (step s1 o)) id w e); [apply inv_step; exact HI1| |exact Hq].
  rewrite step_status by exact HI1. rewrite Hset. reflexivity.
Qed.

(* entries disappear or change only by an operation on the same id, or by a prune past their own expiry *)
Theorem vanish_only_by_own_expiry s o id w e :
  Inv s -> abs_lookup s id = Some (w, e) -> abs_lookup (fst (step s o)) id <> Some (w, e) ->
  sets s o id <> None \/ (o = OPrune /\ (e < now s)%Z).
Proof.
  intros HI Hs Hch. rewrite step_status in Hch by exact HI. rewrite Hs in Hch.
  destruct (sets s o id); [left; discriminate|]. right.
  destruct o; try (exfalso; apply Hch; reflexivity).
  split; [reflexivity|]. destruct (Z.ltb_spec e (now s)); [assumption|exfalso; apply Hch; reflexivity].
Qed.

Theorem prune_boundary s id w e :
  Inv s -> abs_lookup s id = Some (w, e) -> (now s <= e)%Z -> abs_lookup (fst (step s OPrune)) id = Some (w, e).
Proof.
  intros HI Hs Hle. rewrite step_status by exact HI. cbn. rewrite Hs.
  destruct (Z.ltb_spec e (now s)); [lia|reflexivity].
Qed.

Theorem lists_exact s id : Inv s ->
  (forall l, snd (step s HListDeny) = RList l -> (In id l <-> exists e, abs_lookup s id = Some (Denied, e))) /\
  (forall l, snd (step s HListAllow) = RList l -> (In id l <-> exists e, abs_lookup s id = Some (Allowed, e))).
Proof.
  intros (Ha & Hd & Hx). split; intros l Hl; cbn in Hl; inversion Hl; subst; clear Hl;
    rewrite in_sortN, (in_keys_lookup N.eqb E); unfold abs_lookup.
  - destruct (lookup N.eqb id (denyl s)) eqn:L.
    + split; [intros _; eexists; reflexivity|intros _; discriminate].
    + split; [intros H; exfalso; apply H; reflexivity|].
      intros [e He]. destruct (lookup N.eqb id (allowl s)); discriminate.
  - destruct (lookup N.eqb id (denyl s)) eqn:L.
    + rewrite Hx by congruence. split; [intros H; exfalso; apply H; reflexivity|intros [e He]; discriminate].
    + destruct (lookup N.eqb id (allowl s)).
      * split; [intros _; eexists; reflexivity|intros _; discriminate].
      * split; [intros H; exfalso; apply H; reflexivity|intros [e He]; discriminate].
Qed.

Theorem bad_request_noop s id e :
  ((id = 0)%N \/ (e < now s)%Z) ->
  step s (HDeny id e) = (s, RStatus 400) /\ step s (HAllow id e) = (s, RStatus 400).
Proof.
  intros [->|Hlt]; cbn; [split; reflexivity|].
  destruct (id =? 0)%N; [split; reflexivity|].
  destruct (Z.ltb_spec e (now s)); [split; reflexivity|lia].
Qed.

Theorem session_refused_when_denied s ae id e :
  has id (denyl s) = true -> step s (HSession ae id e) = (s, RStatus 400).
Proof. intros H; cbn. destruct ((id =? 0)%N && negb ae)%bool; [reflexivity|]. rewrite H. reflexivity. Qed.
