(* Invariant of the per-connection resource machine and the release theorems (C13). *)
From Relay Require Import Base.Prelude Base.AList Model.Resources.

Local Notation E := N.eqb_eq.

Ltac proj := cbn [joined ended topic h_sock h_reader h_writer h_watcher h_member h_chan h_timer
                  sock_dead send_closed cancelled done_ timer_fired denied_ shutdown_] in *.

Ltac split_ifs :=
  repeat match goal with
         | |- context [if ?b then _ else _] => let Hb := fresh "Hb" in destruct b eqn:Hb; proj
         end.

(* ---- well-formedness of a connection record, as a boolean so that it can be computed with ---- *)
Definition triggered (c : conn) : bool :=
  sock_dead c || send_closed c || cancelled c || done_ c || timer_fired c || denied_ c || shutdown_ c.

Definition wfb (c : conn) : bool :=
  (* refused: nothing but, possibly, the socket *)
  implb (negb (joined c))
        (ended c && negb (h_reader c) && negb (h_writer c) && negb (h_watcher c) && negb (h_member c)
         && negb (h_chan c) && negb (h_timer c) && negb (triggered c)) &&
  (* joined and nothing has ended it: untouched *)
  implb (joined c && negb (ended c))
        (h_sock c && h_reader c && h_writer c && h_watcher c && h_member c && h_timer c && negb (triggered c)) &&
  (* joined and ended: some goroutine can see it *)
  implb (joined c && ended c) (triggered c) &&
  (* a goroutine that has gone left these behind *)
  implb (joined c && negb (h_reader c))
        (negb (h_member c) && negb (h_chan c) && negb (h_sock c) && done_ c && sock_dead c && send_closed c) &&
  implb (joined c && negb (h_writer c)) (negb (h_sock c) && sock_dead c) &&
  implb (joined c && negb (h_watcher c)) (negb (h_timer c) && negb (h_sock c) && sock_dead c && cancelled c) &&
  implb (h_timer c) (h_watcher c) &&
  implb (joined c && negb (h_sock c)) (sock_dead c) &&
  (* the reader's exit is the only thing that sets done *)
  implb (done_ c) (negb (h_reader c)).

Definition holds_none (c : conn) : bool :=
  negb (h_sock c) && negb (h_reader c) && negb (h_writer c) && negb (h_watcher c) &&
  negb (h_member c) && negb (h_chan c) && negb (h_timer c).

(* ---- deciding a boolean property of ALL connection records by computation: a record is its
        topic and sixteen booleans, so a property that does not look at the topic is checked on
        the 2^16 records by vm_compute ---- *)
Fixpoint forall_bools (n : nat) (f : list bool -> bool) : bool :=
  match n with
  | O => f []
  | S n' => forall_bools n' (fun l => f (true :: l)) && forall_bools n' (fun l => f (false :: l))
  end.

Lemma forall_bools_spec n : forall f, forall_bools n f = true -> forall l, length l = n -> f l = true.
Proof.
  induction n as [|n IH]; intros f H l Hl.
  - destruct l; [exact H|discriminate].
  - destruct l as [|b l]; [discriminate|]. cbn [forall_bools] in H. apply andb_true_iff in H. destruct H as [Ht Hf].
    inversion Hl as [Hl']. destruct b; [apply (IH _ Ht l Hl')|apply (IH _ Hf l Hl')].
Qed.

Definition bits (c : conn) : list bool :=
  [joined c; ended c; h_sock c; h_reader c; h_writer c; h_watcher c; h_member c; h_chan c; h_timer c;
   sock_dead c; send_closed c; cancelled c; done_ c; timer_fired c; denied_ c; shutdown_ c].

Definition conn_of (tp : N) (l : list bool) : conn :=
  match l with
  | [j; e; hs; hr; hw; hwa; hm; hc; ht; sd; sc; ca; dn; tf; de; sh] => mkconn j e tp hs hr hw hwa hm hc ht sd sc ca dn tf de sh
  | _ => mkconn false true tp false false false false false false false false false false false false false false
  end.

Lemma conn_of_bits c : conn_of (topic c) (bits c) = c.
Proof. destruct c; reflexivity. Qed.

Lemma all_conn (P : conn -> bool) :
  (forall tp, forall_bools 16 (fun l => P (conn_of tp l)) = true) -> forall c, P c = true.
Proof.
  intros H c. rewrite <- (conn_of_bits c).
  apply (forall_bools_spec 16 (fun l => P (conn_of (topic c) l)) (H (topic c)) (bits c)). reflexivity.
Qed.

Ltac by_all_conn := apply all_conn; intros tp; vm_compute; reflexivity.

Lemma conn_ext c d : bits c = bits d -> topic c = topic d -> c = d.
Proof.
  destruct c as [j e tp hs hr hw hwa hm hc ht sd sc ca dn tf de sh].
  destruct d as [j' e' tp' hs' hr' hw' hwa' hm' hc' ht' sd' sc' ca' dn' tf' de' sh'].
  unfold bits; proj. intros H Ht; inversion H; subst; reflexivity.
Qed.

Definition same_bits (c d : conn) : bool := list_eqb Bool.eqb (bits c) (bits d).
Lemma same_bits_eq c d : same_bits c d = true -> bits c = bits d.
Proof.
  unfold same_bits. apply list_eqb_eq. intros x y. destruct x, y; cbn; split; intros H; try reflexivity; discriminate.
Qed.

Lemma held_nil c : holds_none c = true -> held c = [].
Proof.
  destruct c as [j e tp hs hr hw hwa hm hc ht sd sc ca dn tf de sh]. unfold holds_none, held, all_res, holds. proj.
  destruct hs, hr, hw, hwa, hm, hc, ht; cbn; intros H; try discriminate; reflexivity.
Qed.

Lemma held_holds c k : In k (held c) <-> holds c k = true.
Proof.
  unfold held. rewrite filter_In. split; [intros [_ H]; exact H|intros H; split; [|exact H]].
  destruct k; cbn; auto 10.
Qed.

Lemma wf_connect o tp b : wfb (connect o tp b) = true.
Proof. destruct o as [|r]; [destruct b; reflexivity|destruct r; reflexivity]. Qed.

Definition real_reasons : list reason := [ClientClose; NetLoss; Expiry; Cancel; Evict; Shutdown].

Lemma wf_end_all : forall c, implb (wfb c) (forallb (fun r => wfb (end_with r c)) real_reasons) = true.
Proof. by_all_conn. Qed.

Lemma wf_end r c : wfb c = true -> wfb (end_with r c) = true.
Proof.
  intros H. pose proof (wf_end_all c) as Ha. rewrite H in Ha. cbn [implb] in Ha.
  rewrite forallb_forall in Ha.
  destruct r as [| | | | | |rr]; [apply Ha; cbn; auto 10 ..|].
  unfold end_with. destruct (negb (joined c)); exact H.
Qed.

Lemma wf_steps_all : forall c,
  implb (wfb c) (wfb (step_reader c) && wfb (step_writer c) && wfb (step_watcher c)) = true.
Proof. by_all_conn. Qed.

Lemma wf_steps c : wfb c = true -> wfb (step_reader c) = true /\ wfb (step_writer c) = true /\ wfb (step_watcher c) = true.
Proof.
  intros H. pose proof (wf_steps_all c) as Ha. rewrite H in Ha. cbn [implb] in Ha.
  apply andb_true_iff in Ha. destruct Ha as [Ha Hc]. apply andb_true_iff in Ha. destruct Ha as [Ha Hb]. auto.
Qed.

Lemma wf_reader c : wfb c = true -> wfb (step_reader c) = true.
Proof. intros H. apply (wf_steps c H). Qed.
Lemma wf_writer c : wfb c = true -> wfb (step_writer c) = true.
Proof. intros H. apply (wf_steps c H). Qed.
Lemma wf_watcher c : wfb c = true -> wfb (step_watcher c) = true.
Proof. intros H. apply (wf_steps c H). Qed.

(* the topic is never touched *)
Lemma topic_end r c : topic (end_with r c) = topic c.
Proof.
  unfold end_with. destruct (negb (joined c)); [reflexivity|].
  destruct r; reflexivity.
Qed.
Lemma topic_reader c : topic (step_reader c) = topic c.
Proof. unfold step_reader. destruct (h_reader c && sock_dead c); reflexivity. Qed.
Lemma topic_writer c : topic (step_writer c) = topic c.
Proof. unfold step_writer. destruct (h_writer c && (send_closed c || cancelled c || shutdown_ c)); reflexivity. Qed.
Lemma topic_watcher c : topic (step_watcher c) = topic c.
Proof. unfold step_watcher. destruct (h_watcher c && (timer_fired c || denied_ c || done_ c)); reflexivity. Qed.
Lemma topic_settle c : topic (settle c) = topic c.
Proof.
  assert (Hr : forall d, topic (round d) = topic d)
    by (intros d; unfold round; rewrite topic_reader, topic_watcher, topic_writer; reflexivity).
  unfold settle. rewrite Hr, Hr. reflexivity.
Qed.

(* ---- the heart: once something has ended a joined connection, two rounds of its goroutines
        give everything back ---- *)
Lemma settle_releases_all : forall c,
  implb (wfb c && joined c && ended c) (holds_none (settle c)) = true.
Proof. by_all_conn. Qed.

Lemma settle_releases c :
  wfb c = true -> joined c = true -> ended c = true -> holds_none (settle c) = true.
Proof.
  intros H J En. pose proof (settle_releases_all c) as Ha.
  destruct (holds_none (settle c)); [reflexivity|]. rewrite H, J, En in Ha. discriminate Ha.
Qed.

(* a connection nothing has ended is left alone by its goroutines; a refused one has no
   goroutines: nothing moves, the socket (if there was an upgrade) stays *)
Lemma settle_fixed_all : forall c,
  implb (wfb c && (negb (joined c) || negb (ended c))) (same_bits (settle c) c) = true.
Proof. by_all_conn. Qed.

Lemma settle_untouched c :
  wfb c = true -> joined c = true -> ended c = false -> settle c = c.
Proof.
  intros H J En. pose proof (settle_fixed_all c) as Ha.
  destruct (same_bits (settle c) c) eqn:Sb; [|rewrite H, J, En in Ha; discriminate Ha].
  apply conn_ext; [apply same_bits_eq; exact Sb|apply topic_settle].
Qed.

Lemma settle_refused c : wfb c = true -> joined c = false -> settle c = c.
Proof.
  intros H J. pose proof (settle_fixed_all c) as Ha.
  destruct (same_bits (settle c) c) eqn:Sb; [|rewrite H, J in Ha; discriminate Ha].
  apply conn_ext; [apply same_bits_eq; exact Sb|apply topic_settle].
Qed.

Lemma refused_only_socket_all : forall c,
  implb (wfb c && negb (joined c))
        (negb (h_reader c) && negb (h_writer c) && negb (h_watcher c) && negb (h_member c) && negb (h_chan c) && negb (h_timer c)) = true.
Proof. by_all_conn. Qed.

Lemma refused_holds_at_most_socket c k :
  wfb c = true -> joined c = false -> holds c k = true -> k = Sock.
Proof.
  intros H J Hk. pose proof (refused_only_socket_all c) as Ha. rewrite H, J in Ha. cbn [andb orb negb implb] in Ha.
  repeat (apply andb_true_iff in Ha; destruct Ha as [Ha ?]).
  destruct k; cbn [holds] in Hk; try reflexivity; rewrite Hk in *; discriminate.
Qed.

Lemma live_untouched_all : forall c,
  implb (wfb c && joined c && negb (ended c)) (h_reader c && h_writer c && h_watcher c) = true.
Proof. by_all_conn. Qed.

(* ---- systems ---- *)
Definition Wf (s : sys) : Prop := NoDup (keys s) /\ forall id c, clk id s = Some c -> wfb c = true.

Lemma wf_empty : Wf [].
Proof. split; [constructor|intros id c H; discriminate]. Qed.

Lemma lookup_In (s : sys) id c : clk id s = Some c -> In (id, c) s.
Proof.
  induction s as [|[k v] r IH]; cbn; [discriminate|].
  destruct (N.eqb id k) eqn:Ek; [apply E in Ek; subst; intros H; inversion H; left; reflexivity|].
  intros H; right; apply IH; exact H.
Qed.

Lemma In_lookup (s : sys) id c : NoDup (keys s) -> In (id, c) s -> clk id s = Some c.
Proof.
  induction s as [|[k v] r IH]; cbn [In keys map fst lookup]; intros Hnd Hin; [destruct Hin|].
  inversion Hnd as [|? ? Hn Hr]; subst.
  destruct Hin as [Heq|Hin].
  - inversion Heq; subst. rewrite N.eqb_refl. reflexivity.
  - destruct (N.eqb id k) eqn:Ek.
    + apply E in Ek; subst. exfalso. apply Hn. change k with (fst (k, c)). apply in_map. exact Hin.
    + apply IH; assumption.
Qed.

Lemma wf_upd s id f :
  (forall c, wfb c = true -> wfb (f c) = true) -> Wf s -> Wf (upd s id f).
Proof.
  intros Hf [Hnd Hwf]. unfold upd. destruct (clk id s) as [c|] eqn:L; [|split; assumption].
  split; [apply nodup_insert; [exact E|exact Hnd]|].
  intros k c' Hk. destruct (N.eq_dec k id) as [->|Hn].
  - rewrite lookup_insert_eq in Hk by exact E. inversion Hk; subst. apply Hf. eapply Hwf; exact L.
  - rewrite lookup_insert_neq in Hk by (exact E || exact Hn). eapply Hwf; exact Hk.
Qed.

Lemma wf_step s e : Wf s -> Wf (step s e).
Proof.
  intros H. destruct e; cbn [step].
  - destruct (clk id s) eqn:L; [exact H|]. destruct H as [Hnd Hwf].
    split; [apply nodup_insert; [exact E|exact Hnd]|].
    intros k c' Hk. destruct (N.eq_dec k id) as [->|Hn].
    + rewrite lookup_insert_eq in Hk by exact E. inversion Hk; subst. apply wf_connect.
    + rewrite lookup_insert_neq in Hk by (exact E || exact Hn). eapply Hwf; exact Hk.
  - apply wf_upd; [intros c; apply wf_end|exact H].
  - apply wf_upd; [exact wf_reader|exact H].
  - apply wf_upd; [exact wf_writer|exact H].
  - apply wf_upd; [exact wf_watcher|exact H].
Qed.

Lemma wf_fold h : forall s, Wf s -> Wf (fold_left step h s).
Proof. induction h as [|e r IH]; intros s H; cbn [fold_left]; [exact H|apply IH, wf_step, H]. Qed.

Lemma wf_run h : Wf (run h).
Proof. apply wf_fold, wf_empty. Qed.

(* ---- the property theorems ---- *)
Lemma released_after_end h id c :
  clk id (run h) = Some c -> joined c = true -> ended c = true -> held (settle c) = [].
Proof.
  intros L J En. apply held_nil, settle_releases; [|exact J|exact En].
  destruct (wf_run h) as [_ Hwf]. eapply Hwf; exact L.
Qed.

Lemma refused_keeps_only_socket h id c k :
  clk id (run h) = Some c -> joined c = false -> In k (held (settle c)) -> k = Sock.
Proof.
  intros L J Hin. destruct (wf_run h) as [_ Hwf]. pose proof (Hwf _ _ L) as Hc.
  rewrite settle_refused in Hin by assumption.
  apply held_holds in Hin. eapply refused_holds_at_most_socket; eassumption.
Qed.

(* F08a: and it does keep it *)
Lemma refused_socket_left_open :
  exists h id c, clk id (run h) = Some c /\ ended c = true /\ held (settle c) = [Sock].
Proof.
  exists [EConnect 1%N (Refuse BadCode) 7%N true], 1%N, (connect (Refuse BadCode) 7%N true).
  vm_compute. repeat split.
Qed.

Lemma not_listed_all : forall c, implb (wfb c && ended c) (negb (h_member (settle c))) = true.
Proof. by_all_conn. Qed.

Lemma not_listed c : wfb c = true -> ended c = true -> h_member (settle c) = false.
Proof.
  intros Hw En. pose proof (not_listed_all c) as Ha.
  destruct (h_member (settle c)); [|reflexivity]. rewrite Hw, En in Ha. discriminate Ha.
Qed.

Lemma settle_all_lookup s id :
  clk id (settle_all s) = match clk id s with Some c => Some (settle c) | None => None end.
Proof.
  induction s as [|[k v] r IH]; cbn [settle_all map lookup fst snd]; [reflexivity|].
  destruct (N.eqb id k); [reflexivity|exact IH].
Qed.

Lemma keys_settle_all s : keys (settle_all s) = keys s.
Proof. unfold settle_all, keys. rewrite map_map. reflexivity. Qed.

Lemma not_listed_after_end h id c :
  clk id (run h) = Some c -> ended c = true ->
  ~ In id (status_report (settle_all (run h))) /\
  forall tp sender, ~ In id (fanout (settle_all (run h)) tp sender).
Proof.
  intros L En. destruct (wf_run h) as [Hnd Hwf].
  assert (Hm : forall c', In (id, c') (settle_all (run h)) -> h_member c' = false).
  { intros c' Hin.
    assert (Hnd' : NoDup (keys (settle_all (run h)))) by (rewrite keys_settle_all; exact Hnd).
    pose proof (In_lookup _ _ _ Hnd' Hin) as L'. rewrite settle_all_lookup, L in L'. inversion L'; subst.
    apply not_listed; [eapply Hwf; exact L|exact En]. }
  split.
  - unfold status_report. rewrite in_map_iff. intros ([k c'] & Hk & Hin). cbn in Hk; subst k.
    apply filter_In in Hin. destruct Hin as [Hin Hmem]. cbn [snd] in Hmem. rewrite (Hm _ Hin) in Hmem. discriminate.
  - intros tp sender. unfold fanout. rewrite in_map_iff. intros ([k c'] & Hk & Hin). cbn in Hk; subst k.
    apply filter_In in Hin. destruct Hin as [Hin Hmem]. cbn [snd fst] in Hmem. rewrite (Hm _ Hin) in Hmem. discriminate.
Qed.

(* ---- the footprint is a function of the live connections (plus the sockets F08a leaves) ---- *)
Lemma count_le {A} (p q : A -> bool) (l : list A) :
  (forall x, In x l -> p x = true -> q x = true) -> (count_true p l <= count_true q l)%N.
Proof.
  unfold count_true. intros H. induction l as [|x r IH]; cbn [filter length]; [lia|].
  assert (IH' : (N.of_nat (length (filter p r)) <= N.of_nat (length (filter q r)))%N)
    by (apply IH; intros y Hy; apply H; right; exact Hy).
  destruct (p x) eqn:Px.
  - rewrite (H x (or_introl eq_refl) Px). cbn [length]. lia.
  - destruct (q x); cbn [length]; lia.
Qed.

Lemma count_settle_all (p : conn -> bool) s :
  count_true (fun kv : N * conn => p (snd kv)) (settle_all s) = count_true (fun kv => p (settle (snd kv))) s.
Proof.
  unfold count_true, settle_all. f_equal.
  induction s as [|[k v] r IH]; cbn [map filter fst snd]; [reflexivity|].
  destruct (p (settle v)); cbn [length]; rewrite IH; reflexivity.
Qed.

Lemma count_add {A} (p q : A -> bool) (l : list A) :
  (forall x, In x l -> p x && q x = false) ->
  count_true (fun x => p x || q x) l = (count_true p l + count_true q l)%N.
Proof.
  unfold count_true. intros H. induction l as [|x r IH]; cbn [filter length]; [reflexivity|].
  assert (IH' : N.of_nat (length (filter (fun x => p x || q x) r)) =
                (N.of_nat (length (filter p r)) + N.of_nat (length (filter q r)))%N)
    by (apply IH; intros y Hy; apply H; right; exact Hy).
  specialize (H x (or_introl eq_refl)).
  destruct (p x), (q x); cbn [orb andb length] in *; try discriminate; lia.
Qed.

Lemma footprint_bounded h k :
  (count_res k (settle_all (run h)) <= live (run h) + (match k with Sock => refused_open (run h) | _ => 0 end))%N.
Proof.
  destruct (wf_run h) as [Hnd Hwf]. set (s := run h) in *.
  unfold count_res. rewrite (count_settle_all (fun c => holds c k)).
  assert (Hcase : forall kv, In kv s -> holds (settle (snd kv)) k = true ->
            (joined (snd kv) && negb (ended (snd kv))) ||
            (match k with Sock => negb (joined (snd kv)) && h_sock (snd kv) | _ => false end) = true).
  { intros [id c] Hin Hk. cbn [snd] in *.
    pose proof (Hwf id c (In_lookup _ _ _ Hnd Hin)) as Hc.
    destruct (joined c) eqn:J.
    - destruct (ended c) eqn:En; [|reflexivity]. exfalso.
      pose proof (held_nil _ (settle_releases c Hc J En)) as Hn.
      apply held_holds in Hk. rewrite Hn in Hk. destruct Hk.
    - rewrite settle_refused in Hk by assumption.
      pose proof (refused_holds_at_most_socket c k Hc J Hk) as ->. cbn [holds] in Hk. rewrite Hk. reflexivity. }
  eapply N.le_trans; [apply (count_le _ _ s Hcase)|].
  destruct k; try (rewrite N.add_0_r; unfold live; apply count_le; intros x _ Hx; rewrite orb_false_r in Hx; exact Hx).
  unfold live, refused_open. rewrite count_add; [lia|].
  intros [id c] _. cbn [snd]. destruct (joined c); cbn; [rewrite andb_false_r; reflexivity|reflexivity].
Qed.

(* the goroutine footprint exactly: three per live connection, none for anything that ended *)
Lemma goroutines_exact h k :
  k = Reader \/ k = Writer \/ k = Watcher ->
  count_res k (settle_all (run h)) = live (run h).
Proof.
  intros Hk. destruct (wf_run h) as [Hnd Hwf]. set (s := run h) in *.
  unfold count_res, live. rewrite (count_settle_all (fun c => holds c k)).
  apply N.le_antisymm; apply count_le; intros [id c] Hin Hx; cbn [snd] in *;
    pose proof (Hwf id c (In_lookup _ _ _ Hnd Hin)) as Hc.
  - destruct (joined c) eqn:J.
    + destruct (ended c) eqn:En; [|reflexivity]. exfalso.
      pose proof (held_nil _ (settle_releases c Hc J En)) as Hn.
      apply held_holds in Hx. rewrite Hn in Hx. destruct Hx.
    + rewrite settle_refused in Hx by assumption.
      pose proof (refused_holds_at_most_socket c k Hc J Hx) as ->.
      destruct Hk as [Hk|[Hk|Hk]]; discriminate.
  - apply andb_true_iff in Hx. destruct Hx as [J En]. apply negb_true_iff in En.
    rewrite settle_untouched by assumption.
    pose proof (live_untouched_all c) as Ha. rewrite Hc, J, En in Ha. cbn [andb orb negb implb] in Ha.
    repeat (apply andb_true_iff in Ha; destruct Ha as [Ha ?]).
    destruct Hk as [-> | [-> | ->]]; cbn [holds]; assumption.
Qed.

(* ---- no ghosts: in every reachable state whoever is listed / has a deny channel recorded is an
        accepted connection whose reader is still running ---- *)
Lemma no_ghost_all : forall c,
  implb (wfb c && (h_member c || h_chan c)) (joined c && h_reader c) = true.
Proof. by_all_conn. Qed.

Lemma listed_has_reader h id c :
  clk id (run h) = Some c -> h_member c = true \/ h_chan c = true -> joined c = true /\ h_reader c = true.
Proof.
  intros L Hm. destruct (wf_run h) as [_ Hwf]. pose proof (Hwf _ _ L) as Hc.
  pose proof (no_ghost_all c) as Ha.
  destruct (joined c && h_reader c) eqn:E1; [apply andb_true_iff in E1; exact E1|].
  exfalso. rewrite Hc in Ha. destruct Hm as [Hm|Hm]; rewrite Hm in Ha; [|rewrite orb_true_r in Ha]; discriminate Ha.
Qed.

(* ---- the idle baseline: with no live connection nothing but F08a's sockets is held ---- *)
Lemma idle_baseline h k :
  live (run h) = 0%N -> k <> Sock -> count_res k (settle_all (run h)) = 0%N.
Proof.
  intros Hl Hk. pose proof (footprint_bounded h k) as Hb. rewrite Hl in Hb.
  destruct k; try congruence; lia.
Qed.

(* ---- any end reason that reaches an accepted connection marks it ended, hence releases it ---- *)
Lemma run_snoc h e : run (h ++ [e]) = step (run h) e.
Proof. unfold run. rewrite fold_left_app. reflexivity. Qed.

Lemma end_sets_ended r c :
  joined c = true -> (forall x, r <> Refused x) -> ended (end_with r c) = true /\ joined (end_with r c) = true.
Proof.
  intros J Hr. unfold end_with. rewrite J. cbn [negb].
  destruct r; try (split; [reflexivity|exact J]). exfalso. eapply Hr. reflexivity.
Qed.

Lemma joined_end r c : joined (end_with r c) = joined c.
Proof. unfold end_with. destruct (negb (joined c)) eqn:E; [reflexivity|]. destruct r; reflexivity. Qed.

Lemma any_end_releases h id r c :
  (forall x, r <> Refused x) ->
  clk id (run (h ++ [EEnd id r])) = Some c -> joined c = true -> held (settle c) = [].
Proof.
  intros Hr L J. apply (released_after_end (h ++ [EEnd id r]) id c L J).
  rewrite run_snoc in L. cbn [step] in L. unfold upd in L.
  destruct (clk id (run h)) as [c0|] eqn:L0; [|rewrite L0 in L; discriminate].
  rewrite lookup_insert_eq in L by exact E. inversion L; subst c.
  rewrite joined_end in J. apply (end_sets_ended r c0 J Hr).
Qed.

Lemma reader_gone_after_end h id c :
  clk id (run h) = Some c -> joined c = true -> ended c = true -> h_reader (settle c) = false.
Proof.
  intros L J En. pose proof (released_after_end h id c L J En) as Hn.
  destruct (h_reader (settle c)) eqn:Hr; [|reflexivity].
  assert (Hin : In Reader (held (settle c))) by (apply held_holds; exact Hr).
  rewrite Hn in Hin. destruct Hin.
Qed.

(* after its end (and its goroutines' next steps) nothing is relayed from a connection - its reader,
   the only thing that hands its messages to the hub, is gone - nor to it - it is in no fan-out set *)
Lemma nothing_relayed_after_end h id c :
  clk id (run h) = Some c -> joined c = true -> ended c = true ->
  h_reader (settle c) = false /\ forall tp sender, ~ In id (fanout (settle_all (run h)) tp sender).
Proof.
  intros L J En. split; [eapply reader_gone_after_end; eassumption|].
  apply (not_listed_after_end h id c L En).
Qed.
