(* C10 under concurrent use: the deny store is ONE object behind ONE mutex and each of its methods is one critical
   section (C12: generated obligation single_section / store_methods_reduce on the lock IR regenerated from the
   source). Instantiating the value-level serial-equivalence theorem of Model/SerialEq.v with the store's own step
   function gives: whatever the schedule of any number of threads calling store operations, the store ends in the
   state that the SEQUENTIAL history of the same operations, in the order in which they took the lock, leaves it in -
   so every theorem of C10 about histories holds of every concurrent execution. *)
From Relay Require Import Base.Prelude Base.AList Model.DenyStore Proofs.DenyStore_proofs.
From Relay Require Model.SerialEq Proofs.SerialEq_proofs.

Definition ueqb (_ _ : unit) : bool := true.
Lemma ueqb_spec a b : ueqb a b = true <-> a = b.
Proof. destruct a, b; split; reflexivity. Qed.

(* a store operation as the body of a critical section on the store's (only) lock *)
Definition dupd (_ : unit) (o : op) (s : st) : st * out := step s o.

Definition cstate := @SerialEq.state unit op st out.
Definition ccall := @SerialEq.call unit op.

Lemma serial_fst_is_final (l : list ccall) :
  forall (f : unit -> st) (acc : list (ccall * out)),
    fst (fold_left (SerialEq.serial_step ueqb dupd) l (f, acc)) tt = final (f tt) (map (@SerialEq.c_op unit op) l).
Proof.
  induction l as [|c l IH]; intros f acc; cbn [fold_left map]; [reflexivity|].
  unfold SerialEq.serial_step at 2. cbn [fst snd].
  rewrite IH. unfold SerialEq.set, ueqb, dupd. cbn.
  destruct (SerialEq.c_lock c). reflexivity.
Qed.

(* any schedule of any threads running to completion = the sequential history in lock-acquisition order *)
Theorem concurrent_store_is_sequential progs (s0 : st) sched (s : cstate) :
  SerialEq.run ueqb dupd sched (SerialEq.init progs (fun _ => s0)) = Some s -> SerialEq.finished s = true ->
  SerialEq.st s tt = final s0 (map (@SerialEq.c_op unit op) (SerialEq.acqs s)) /\
  (forall i p, nth_error progs i = Some p -> SerialEq.by_thread i (SerialEq.acqs s) = SerialEq.mkcalls i 0 p).
Proof.
  intros Hr Hf.
  destruct (SerialEq_proofs.serial_equivalence ueqb ueqb_spec dupd progs (fun _ => s0) sched s Hr Hf) as (Hp & Hst & _ & _).
  split; [|exact Hp].
  rewrite (Hst tt). unfold SerialEq.serial. apply (serial_fst_is_final (SerialEq.acqs s) (fun _ => s0) []).
Qed.

(* hence the register invariants hold of every concurrent execution from the empty store *)
Theorem concurrent_never_on_both_lists t progs sched (s : cstate) id :
  SerialEq.run ueqb dupd sched (SerialEq.init progs (fun _ => init t)) = Some s -> SerialEq.finished s = true ->
  ~ (on_deny (SerialEq.st s tt) id /\ on_allow (SerialEq.st s tt) id).
Proof.
  intros Hr Hf. destruct (concurrent_store_is_sequential progs (init t) sched s Hr Hf) as [-> _].
  exact (never_both (init t) _ id (inv_init t)).
Qed.

(* [final] is the state component of [run] (the harness evaluates [run]; the theorems speak of [final]) *)
Lemma final_is_fst_run ops : forall s, fst (run s ops) = final s ops.
Proof.
  induction ops as [|o r IH]; intros s; cbn [run]; [reflexivity|].
  unfold final; cbn [fold_left]. fold (final (fst (step s o)) r). rewrite <- IH.
  destruct (step s o) as [s1 x]. cbn [fst]. destruct (run s1 r) as [s2 xs]. reflexivity.
Qed.

(* every concurrent execution from the empty store leaves the two Go maps in the state of ONE register
   id -> (status, expiry) that has seen the same operations in lock-acquisition order *)
Theorem concurrent_refines_single_register t progs sched (s : cstate) :
  SerialEq.run ueqb dupd sched (SerialEq.init progs (fun _ => init t)) = Some s -> SerialEq.finished s = true ->
  R (SerialEq.st s tt) (fst (spec_run (mkspec [] t) (map (@SerialEq.c_op unit op) (SerialEq.acqs s)))).
Proof.
  intros Hr Hf. destruct (concurrent_store_is_sequential progs (init t) sched s Hr Hf) as [-> _].
  rewrite <- final_is_fst_run.
  exact (proj1 (refinement_run _ (init t) (mkspec [] t) (inv_init t) (R_init t))).
Qed.

(* ... and the list endpoints, asked after any concurrent execution, report exactly its contents *)
Theorem concurrent_lists_exact t progs sched (s : cstate) id :
  SerialEq.run ueqb dupd sched (SerialEq.init progs (fun _ => init t)) = Some s -> SerialEq.finished s = true ->
  (forall l, snd (step (SerialEq.st s tt) HListDeny) = RList l ->
     (In id l <-> exists e, abs_lookup (SerialEq.st s tt) id = Some (Denied, e))) /\
  (forall l, snd (step (SerialEq.st s tt) HListAllow) = RList l ->
     (In id l <-> exists e, abs_lookup (SerialEq.st s tt) id = Some (Allowed, e))).
Proof.
  intros Hr Hf. destruct (concurrent_store_is_sequential progs (init t) sched s Hr Hf) as [-> _].
  exact (lists_exact _ id (inv_final _ _ (inv_init t))).
Qed.

(* ... and an entry that no later operation touched and whose expiry has not passed is still there, unchanged:
   the last deny/allow for an id, in lock-acquisition order, decides its status *)
Theorem concurrent_last_writer_wins t progs sched (s : cstate) ops1 o ops2 id w e :
  SerialEq.run ueqb dupd sched (SerialEq.init progs (fun _ => init t)) = Some s -> SerialEq.finished s = true ->
  map (@SerialEq.c_op unit op) (SerialEq.acqs s) = ops1 ++ o :: ops2 ->
  sets (final (init t) ops1) o id = Some (w, e) ->
  quiet (fst (step (final (init t) ops1) o)) ops2 id e ->
  abs_lookup (SerialEq.st s tt) id = Some (w, e).
Proof.
  intros Hr Hf Hh Hs Hq. destruct (concurrent_store_is_sequential progs (init t) sched s Hr Hf) as [-> _].
  rewrite Hh. exact (last_writer_wins (init t) ops1 o ops2 id w e (inv_init t) Hs Hq).
Qed.

(* ---- the answers the concurrent callers get ---- *)
Lemma ret_on_all (l : list (ccall * out)) : SerialEq.ret_on ueqb tt l = l.
Proof. induction l as [|x l IH]; cbn; [reflexivity|]. f_equal. exact IH. Qed.

Lemma serial_snd_is_run (l : list ccall) :
  forall (f : unit -> st) (acc : list (ccall * out)),
    map fst (snd (fold_left (SerialEq.serial_step ueqb dupd) l (f, acc))) = map fst acc ++ l /\
    map snd (snd (fold_left (SerialEq.serial_step ueqb dupd) l (f, acc))) =
      map snd acc ++ snd (run (f tt) (map (@SerialEq.c_op unit op) l)).
Proof.
  induction l as [|c l IH]; intros f acc; cbn [fold_left map run snd].
  - rewrite !app_nil_r. split; reflexivity.
  - pose (f' := SerialEq.set ueqb f (SerialEq.c_lock c) (fst (dupd (SerialEq.c_lock c) (SerialEq.c_op c) (f (SerialEq.c_lock c))))).
    pose (acc' := acc ++ [(c, snd (dupd (SerialEq.c_lock c) (SerialEq.c_op c) (f (SerialEq.c_lock c))))]).
    change (SerialEq.serial_step ueqb dupd (f, acc) c) with (f', acc').
    destruct (IH f' acc') as [IH1 IH2].
    rewrite IH1, IH2. unfold acc' at 1 2. rewrite !map_app. cbn [map fst snd]. rewrite <- !app_assoc. cbn [app].
    split; [reflexivity|]. f_equal.
    unfold acc', f', SerialEq.set, ueqb, dupd. destruct (SerialEq.c_lock c).
    destruct (step (f tt) (SerialEq.c_op c)) as [s1 x]. cbn [fst snd].
    destruct (run s1 (map (@SerialEq.c_op unit op) l)) as [s2 xs]. reflexivity.
Qed.

(* linearizability with return values: the calls, in the order in which their bodies ran, are the calls in
   lock-acquisition order, and every caller got the answer the sequential history gives at that position *)
Theorem concurrent_responses_are_sequential progs (s0 : st) sched (s : cstate) :
  SerialEq.run ueqb dupd sched (SerialEq.init progs (fun _ => s0)) = Some s -> SerialEq.finished s = true ->
  map fst (SerialEq.hist s) = SerialEq.acqs s /\
  map snd (SerialEq.hist s) = snd (run s0 (map (@SerialEq.c_op unit op) (SerialEq.acqs s))).
Proof.
  intros Hr Hf.
  destruct (SerialEq_proofs.serial_equivalence ueqb ueqb_spec dupd progs (fun _ => s0) sched s Hr Hf) as (_ & _ & Hret & _).
  specialize (Hret tt). rewrite !ret_on_all in Hret. rewrite Hret. unfold SerialEq.serial.
  destruct (serial_snd_is_run (SerialEq.acqs s) (fun _ => s0) []) as [H1 H2]. split; [exact H1|exact H2].
Qed.
