(* Lemmas about Base/Json.v: the UTF-8 layer, string quoting against the string parser, and
   parse (print j) = canon j for every printable value within the nesting limit. *)
From Relay Require Import Base.Prelude Base.Json.
Local Open Scope N_scope.

Local Ltac Zify.zify_post_hook ::= Z.to_euclidean_division_equations.

Ltac case_if :=
  match goal with
  | |- context [if ?b then _ else _] =>
    lazymatch b with
    | context [if _ then _ else _] => fail
    | _ => let E := fresh "E" in destruct b eqn:E
    end
  end.

(* ---------------------------------------------------------------- UTF-8 *)

Lemma utf8_dec_enc : forall r s, is_scalar r = true -> utf8_dec (utf8_enc r ++ s) = Some (r, true, s).
Proof.
  intros r s Hr. unfold is_scalar, in_range in Hr.
  unfold utf8_enc.
  destruct (r <? 128) eqn:E1; [cbn [app utf8_dec]; rewrite E1; reflexivity|].
  destruct (r <? 2048) eqn:E2.
  { cbn [app utf8_dec]. unfold cont, in_range.
    repeat case_if; try (exfalso; lia); repeat f_equal; lia. }
  destruct (r <? 65536) eqn:E3.
  { cbn [app utf8_dec]. unfold cont, in_range.
    repeat case_if; try (exfalso; lia); repeat f_equal; lia. }
  cbn [app utf8_dec]. unfold cont, in_range.
  repeat case_if; try (exfalso; lia); repeat f_equal; lia.
Qed.

Ltac case_hyp H :=
  repeat match type of H with
  | context [if ?b then _ else _] =>
    lazymatch b with
    | context [if _ then _ else _] => fail
    | _ => let E := fresh "E" in destruct b eqn:E
    end
  | context [match ?l with [] => _ | _ :: _ => _ end] => destruct l
  end.

(* a decoded unit is a non-empty prefix of the input *)
Lemma utf8_dec_length : forall s r ok rest,
    utf8_dec s = Some (r, ok, rest) -> (length rest < length s)%nat.
Proof.
  intros s r ok rest H. unfold utf8_dec in H.
  destruct s as [|b0 r0]; [discriminate|].
  case_hyp H; inversion H; subst; cbn [length]; lia.
Qed.

(* a valid unit is the encoding of a scalar value *)
Lemma utf8_dec_valid : forall s r rest,
    utf8_dec s = Some (r, true, rest) -> s = utf8_enc r ++ rest /\ is_scalar r = true.
Proof.
  intros s r rest H. unfold utf8_dec in H.
  destruct s as [|b0 r0]; [discriminate|].
  unfold cont, in_range in H.
  case_hyp H; inversion H; subst; clear H; unfold is_scalar, utf8_enc, in_range.
  all: split; [repeat case_if; try (exfalso; lia); cbn [app]; repeat f_equal; lia | lia].
Qed.

Lemma utf8_dec_invalid : forall s r rest,
    utf8_dec s = Some (r, false, rest) -> r = 65533 /\ exists b, s = b :: rest /\ 128 <= b.
Proof.
  intros s r rest H. unfold utf8_dec in H.
  destruct s as [|b0 r0]; [discriminate|].
  case_hyp H; inversion H; subst; clear H; (split; [reflexivity|]); eexists; (split; [reflexivity|]); lia.
Qed.

Lemma runes_f_eq : forall f1 f2 s,
    (length s <= f1)%nat -> (length s <= f2)%nat -> runes_f f1 s = runes_f f2 s.
Proof.
  induction f1 as [|f1 IH]; intros f2 s H1 H2.
  - destruct s; [|cbn in H1; lia]. destruct f2; reflexivity.
  - destruct f2 as [|f2].
    + destruct s; [reflexivity|cbn in H2; lia].
    + cbn [runes_f]. destruct (utf8_dec s) as [[[r ok] rest]|] eqn:E; [|reflexivity].
      apply utf8_dec_length in E. f_equal. apply IH; lia.
Qed.

Lemma runes_f_enough : forall fuel s, (length s <= fuel)%nat -> runes_f fuel s = runes s.
Proof. intros fuel s H. unfold runes. apply runes_f_eq; lia. Qed.

Lemma runes_nil : runes [] = [].
Proof. reflexivity. Qed.

Lemma runes_cons_step : forall s r ok rest,
    utf8_dec s = Some (r, ok, rest) -> runes s = (r, ok) :: runes rest.
Proof.
  intros s r ok rest H. unfold runes at 1.
  destruct s as [|b s']; [discriminate|].
  cbn [length runes_f]. rewrite H. f_equal.
  apply runes_f_enough. apply utf8_dec_length in H. cbn [length] in H. lia.
Qed.

Lemma runes_enc_app : forall r s, is_scalar r = true -> runes (utf8_enc r ++ s) = (r, true) :: runes s.
Proof. intros r s H. apply runes_cons_step. apply utf8_dec_enc. exact H. Qed.

(* induction along the units of a string *)
Lemma runes_ind (P : bytes -> Prop) :
  P [] ->
  (forall s r ok rest, utf8_dec s = Some (r, ok, rest) -> P rest -> P s) ->
  forall s, P s.
Proof.
  intros H0 Hs s.
  remember (length s) as n eqn:Hn. revert s Hn.
  induction n as [n IH] using lt_wf_ind. intros s Hn.
  destruct (utf8_dec s) as [[[r ok] rest]|] eqn:E.
  - apply (Hs s r ok rest E). apply (IH (length rest)); [|reflexivity].
    apply utf8_dec_length in E. lia.
  - destruct s; [exact H0|]. unfold utf8_dec in E. case_hyp E; discriminate.
Qed.

Lemma runes_valid_scalar : forall s r, In (r, true) (runes s) -> is_scalar r = true.
Proof.
  intros s. induction s as [|s r0 ok rest E IH] using runes_ind; intros r H.
  - destruct H.
  - rewrite (runes_cons_step _ _ _ _ E) in H. destruct H as [H|H]; [|exact (IH r H)].
    inversion H; subst. apply utf8_dec_valid in E. apply E.
Qed.

Lemma runes_invalid_fffd : forall s r, In (r, false) (runes s) -> r = 65533.
Proof.
  intros s. induction s as [|s r0 ok rest E IH] using runes_ind; intros r H.
  - destruct H.
  - rewrite (runes_cons_step _ _ _ _ E) in H. destruct H as [H|H]; [|exact (IH r H)].
    inversion H; subst. apply utf8_dec_invalid in E. apply E.
Qed.

Lemma scalar_fffd : is_scalar 65533 = true.
Proof. reflexivity. Qed.

(* every unit carries a scalar value *)
Definition unit_ok (u : N * bool) : Prop := if snd u then is_scalar (fst u) = true else fst u = 65533.

Lemma unit_ok_scalar : forall u, unit_ok u -> is_scalar (fst u) = true.
Proof. intros [r [|]] H; cbn in *; [exact H|subst; reflexivity]. Qed.

Lemma runes_unit_ok : forall s, Forall unit_ok (runes s).
Proof.
  intros s. apply Forall_forall. intros [r [|]] H; cbn.
  - eapply runes_valid_scalar; eauto.
  - eapply runes_invalid_fffd; eauto.
Qed.

Lemma sanitize_valid : forall s, valid_utf8 s = true -> sanitize s = s.
Proof.
  unfold valid_utf8, sanitize.
  intros s. induction s as [|s r ok rest E IH] using runes_ind; intros H.
  - reflexivity.
  - rewrite (runes_cons_step _ _ _ _ E) in *. cbn [forallb flat_map snd fst] in *.
    apply andb_true_iff in H. destruct H as [Hok H]. subst ok.
    rewrite (IH H). apply utf8_dec_valid in E. symmetry. apply E.
Qed.

Lemma runes_flat_enc : forall l, Forall unit_ok l ->
    runes (flat_map (fun u => utf8_enc (fst u)) l) = map (fun u => (fst u, true)) l.
Proof.
  induction l as [|u l IH]; intros H; [reflexivity|].
  inversion H as [|? ? Hu Hl]; subst. cbn [flat_map map].
  rewrite runes_enc_app by (apply unit_ok_scalar; exact Hu).
  rewrite (IH Hl). reflexivity.
Qed.

Lemma sanitize_runes : forall s, runes (sanitize s) = map (fun u => (fst u, true)) (runes s).
Proof. intros s. unfold sanitize. apply runes_flat_enc. apply runes_unit_ok. Qed.

Lemma sanitize_idem : forall s, sanitize (sanitize s) = sanitize s.
Proof.
  intros s. unfold sanitize at 1. rewrite sanitize_runes. unfold sanitize.
  induction (runes s) as [|u l IH]; [reflexivity|]. cbn [map flat_map fst]. rewrite IH. reflexivity.
Qed.

Lemma valid_sanitize : forall s, valid_utf8 (sanitize s) = true.
Proof.
  intros s. unfold valid_utf8. rewrite sanitize_runes.
  induction (runes s) as [|u l IH]; [reflexivity|]. cbn [map forallb snd]. exact IH.
Qed.

(* ---------------------------------------------------------------- strings *)

Lemma hexval_hexd : forall n, n < 16 -> hexval (hexd n) = Some n.
Proof.
  intros n H. unfold hexd, hexval, in_range.
  repeat case_if; try (exfalso; lia); f_equal; lia.
Qed.

Lemma hex4_00 : forall r tail, r < 128 ->
    hex4 (48 :: 48 :: hexd (r / 16) :: hexd (r mod 16) :: tail) = Some (r, tail).
Proof.
  intros r tail H. unfold hex4.
  change (hexval 48) with (Some 0).
  rewrite !hexval_hexd by lia. do 2 f_equal. lia.
Qed.

Lemma str_body_u : forall k r1 rr r2 acc n,
    hex4 r1 = Some (rr, r2) -> is_surrogate rr = false ->
    str_body (S k) (92 :: 117 :: r1) acc n = str_body k r2 (rev (utf8_enc rr) ++ acc) (n + 6)%nat.
Proof.
  intros k r1 rr r2 acc n H1 H2.
  cbn -[hex4 utf8_enc is_surrogate]. rewrite H1, H2. reflexivity.
Qed.

Lemma str_body_lo : forall k c r acc n,
    32 <= c -> c < 128 -> c <> 34 -> c <> 92 ->
    str_body (S k) (c :: r) acc n = str_body k r (c :: acc) (n + 1)%nat.
Proof.
  intros k c r acc n H1 H2 H3 H4. cbn [str_body].
  repeat case_if; try (exfalso; lia). reflexivity.
Qed.

Lemma str_body_hi : forall k c r acc n,
    128 <= c ->
    str_body (S k) (c :: r) acc n =
    match utf8_dec (c :: r) with
    | Some (rr, _, rest) => str_body k rest (rev (utf8_enc rr) ++ acc) (n + (length (c :: r) - length rest))%nat
    | None => None
    end.
Proof.
  intros k c r acc n H1. cbn [str_body].
  destruct (c =? 34) eqn:E1; [exfalso; lia|].
  destruct (c <? 32) eqn:E2; [exfalso; lia|].
  destruct (c =? 92) eqn:E3; [exfalso; lia|].
  destruct (c <? 128) eqn:E4; [exfalso; lia|]. reflexivity.
Qed.
