(* Lemmas about Base/Json.v: the UTF-8 layer, string quoting against the string parser, and
   parse (print j) = canon j for every printable value within the nesting limit. *)
From Relay Require Import Base.Prelude Base.Json.
Local Open Scope N_scope.

Local Ltac Zify.zify_post_hook ::= Z.to_euclidean_division_equations.

Ltac case_if :=
  match goal with
  | |- context [if ?b then _ else _] =>
    lazymatch b with
    | context [if _ then _ else _] => fail
    | _ => let E := fresh "E" in destruct b eqn:E
    end
  end.

(* ---------------------------------------------------------------- UTF-8 *)

Lemma utf8_dec_enc : forall r s, is_scalar r = true -> utf8_dec (utf8_enc r ++ s) = Some (r, true, s).
Proof.
  intros r s Hr. unfold is_scalar, in_range in Hr.
  unfold utf8_enc.
  destruct (r <? 128) eqn:E1; [cbn [app utf8_dec]; rewrite E1; reflexivity|].
  destruct (r <? 2048) eqn:E2.
  { cbn [app utf8_dec]. unfold cont, in_range.
    repeat case_if; try (exfalso; lia); repeat f_equal; lia. }
  destruct (r <? 65536) eqn:E3.
  { cbn [app utf8_dec]. unfold cont, in_range.
    repeat case_if; try (exfalso; lia); repeat f_equal; lia. }
  cbn [app utf8_dec]. unfold cont, in_range.
  repeat case_if; try (exfalso; lia); repeat f_equal; lia.
Qed.

Ltac case_hyp H :=
  repeat match type of H with
  | context [if ?b then _ else _] =>
    lazymatch b with
    | context [if _ then _ else _] => fail
    | _ => let E := fresh "E" in destruct b eqn:E
    end
  | context [match ?l with [] => _ | _ :: _ => _ end] => destruct l
  end.

(* a decoded unit is a non-empty prefix of the input *)
Lemma utf8_dec_length : forall s r ok rest,
    utf8_dec s = Some (r, ok, rest) -> (length rest < length s)%nat.
Proof.
  intros s r ok rest H. unfold utf8_dec in H.
  destruct s as [|b0 r0]; [discriminate|].
  case_hyp H; inversion H; subst; cbn [length]; lia.
Qed.

(* a valid unit is the encoding of a scalar value *)
Lemma utf8_dec_valid : forall s r rest,
    utf8_dec s = Some (r, true, rest) -> s = utf8_enc r ++ rest /\ is_scalar r = true.
Proof.
  intros s r rest H. unfold utf8_dec in H.
  destruct s as [|b0 r0]; [discriminate|].
  unfold cont, in_range in H.
  case_hyp H; inversion H; subst; clear H; unfold is_scalar, utf8_enc, in_range.
  all: split; [repeat case_if; try (exfalso; lia); cbn [app]; repeat f_equal; lia | lia].
Qed.

Lemma utf8_dec_invalid : forall s r rest,
    utf8_dec s = Some (r, false, rest) -> r = 65533 /\ exists b, s = b :: rest /\ 128 <= b.
Proof.
  intros s r rest H. unfold utf8_dec in H.
  destruct s as [|b0 r0]; [discriminate|].
  case_hyp H; inversion H; subst; clear H; (split; [reflexivity|]); eexists; (split; [reflexivity|]); lia.
Qed.

Lemma runes_f_eq : forall f1 f2 s,
    (length s <= f1)%nat -> (length s <= f2)%nat -> runes_f f1 s = runes_f f2 s.
Proof.
  induction f1 as [|f1 IH]; intros f2 s H1 H2.
  - destruct s; [|cbn in H1; lia]. destruct f2; reflexivity.
  - destruct f2 as [|f2].
    + destruct s; [reflexivity|cbn in H2; lia].
    + cbn [runes_f]. destruct (utf8_dec s) as [[[r ok] rest]|] eqn:E; [|reflexivity].
      apply utf8_dec_length in E. f_equal. apply IH; lia.
Qed.

Lemma runes_f_enough : forall fuel s, (length s <= fuel)%nat -> runes_f fuel s = runes s.
Proof. intros fuel s H. unfold runes. apply runes_f_eq; lia. Qed.

Lemma runes_nil : runes [] = [].
Proof. reflexivity. Qed.

Lemma runes_cons_step : forall s r ok rest,
    utf8_dec s = Some (r, ok, rest) -> runes s = (r, ok) :: runes rest.
Proof.
  intros s r ok rest H. unfold runes at 1.
  destruct s as [|b s']; [discriminate|].
  cbn [length runes_f]. rewrite H. f_equal.
  apply runes_f_enough. apply utf8_dec_length in H. cbn [length] in H. lia.
Qed.

Lemma runes_enc_app : forall r s, is_scalar r = true -> runes (utf8_enc r ++ s) = (r, true) :: runes s.
Proof. intros r s H. apply runes_cons_step. apply utf8_dec_enc. exact H. Qed.

(* induction along the units of a string *)
Lemma runes_ind (P : bytes -> Prop) :
  P [] ->
  (forall s r ok rest, utf8_dec s = Some (r, ok, rest) -> P rest -> P s) ->
  forall s, P s.
Proof.
  intros H0 Hs s.
  remember (length s) as n eqn:Hn. revert s Hn.
  induction n as [n IH] using lt_wf_ind. intros s Hn.
  destruct (utf8_dec s) as [[[r ok] rest]|] eqn:E.
  - apply (Hs s r ok rest E). apply (IH (length rest)); [|reflexivity].
    apply utf8_dec_length in E. lia.
  - destruct s; [exact H0|]. unfold utf8_dec in E. case_hyp E; discriminate.
Qed.

Lemma runes_valid_scalar : forall s r, In (r, true) (runes s) -> is_scalar r = true.
Proof.
  intros s. induction s as [|s r0 ok rest E IH] using runes_ind; intros r H.
  - destruct H.
  - rewrite (runes_cons_step _ _ _ _ E) in H. destruct H as [H|H]; [|exact (IH r H)].
    inversion H; subst. apply utf8_dec_valid in E. apply E.
Qed.

Lemma runes_invalid_fffd : forall s r, In (r, false) (runes s) -> r = 65533.
Proof.
  intros s. induction s as [|s r0 ok rest E IH] using runes_ind; intros r H.
  - destruct H.
  - rewrite (runes_cons_step _ _ _ _ E) in H. destruct H as [H|H]; [|exact (IH r H)].
    inversion H; subst. apply utf8_dec_invalid in E. apply E.
Qed.

Lemma scalar_fffd : is_scalar 65533 = true.
Proof. reflexivity. Qed.

(* every unit carries a scalar value *)
Definition unit_ok (u : N * bool) : Prop := if snd u then is_scalar (fst u) = true else fst u = 65533.

Lemma unit_ok_scalar : forall u, unit_ok u -> is_scalar (fst u) = true.
Proof. intros [r [|]] H; cbn in *; [exact H|subst; reflexivity]. Qed.

Lemma runes_unit_ok : forall s, Forall unit_ok (runes s).
Proof.
  intros s. apply Forall_forall. intros [r [|]] H; cbn.
  - eapply runes_valid_scalar; eauto.
  - eapply runes_invalid_fffd; eauto.
Qed.

Lemma sanitize_valid : forall s, valid_utf8 s = true -> sanitize s = s.
Proof.
  unfold valid_utf8, sanitize.
  intros s. induction s as [|s r ok rest E IH] using runes_ind; intros H.
  - reflexivity.
  - rewrite (runes_cons_step _ _ _ _ E) in *. cbn [forallb flat_map snd fst] in *.
    apply andb_true_iff in H. destruct H as [Hok H]. subst ok.
    rewrite (IH H). apply utf8_dec_valid in E. symmetry. apply E.
Qed.

Lemma runes_flat_enc : forall l, Forall unit_ok l ->
    runes (flat_map (fun u => utf8_enc (fst u)) l) = map (fun u => (fst u, true)) l.
Proof.
  induction l as [|u l IH]; intros H; [reflexivity|].
  inversion H as [|? ? Hu Hl]; subst. cbn [flat_map map].
  rewrite runes_enc_app by (apply unit_ok_scalar; exact Hu).
  rewrite (IH Hl). reflexivity.
Qed.

Lemma sanitize_runes : forall s, runes (sanitize s) = map (fun u => (fst u, true)) (runes s).
Proof. intros s. unfold sanitize. apply runes_flat_enc. apply runes_unit_ok. Qed.

Lemma sanitize_idem : forall s, sanitize (sanitize s) = sanitize s.
Proof.
  intros s. unfold sanitize at 1. rewrite sanitize_runes. unfold sanitize.
  induction (runes s) as [|u l IH]; [reflexivity|]. cbn [map flat_map fst]. rewrite IH. reflexivity.
Qed.

Lemma valid_sanitize : forall s, valid_utf8 (sanitize s) = true.
Proof.
  intros s. unfold valid_utf8. rewrite sanitize_runes.
  induction (runes s) as [|u l IH]; [reflexivity|]. cbn [map forallb snd]. exact IH.
Qed.

(* ---------------------------------------------------------------- strings *)

Lemma hexval_hexd : forall n, n < 16 -> hexval (hexd n) = Some n.
Proof.
  intros n H. unfold hexd, hexval, in_range.
  repeat case_if; try (exfalso; lia); f_equal; lia.
Qed.

Lemma hex4_00 : forall r tail, r < 128 ->
    hex4 (48 :: 48 :: hexd (r / 16) :: hexd (r mod 16) :: tail) = Some (r, tail).
Proof.
  intros r tail H. unfold hex4.
  change (hexval 48) with (Some 0).
  rewrite !hexval_hexd by lia. do 2 f_equal. lia.
Qed.

Lemma str_body_u : forall k r1 rr r2 acc n,
    hex4 r1 = Some (rr, r2) -> is_surrogate rr = false ->
    str_body (S k) (92 :: 117 :: r1) acc n = str_body k r2 (rev (utf8_enc rr) ++ acc) (n + 6)%nat.
Proof.
  intros k r1 rr r2 acc n H1 H2.
  cbn -[hex4 utf8_enc is_surrogate]. rewrite H1, H2. reflexivity.
Qed.

Lemma str_body_lo : forall k c r acc n,
    32 <= c -> c < 128 -> c <> 34 -> c <> 92 ->
    str_body (S k) (c :: r) acc n = str_body k r (c :: acc) (n + 1)%nat.
Proof.
  intros k c r acc n H1 H2 H3 H4. cbn [str_body].
  repeat case_if; try (exfalso; lia). reflexivity.
Qed.

Lemma str_body_hi : forall k c r acc n,
    128 <= c ->
    str_body (S k) (c :: r) acc n =
    match utf8_dec (c :: r) with
    | Some (rr, _, rest) => str_body k rest (rev (utf8_enc rr) ++ acc) (n + (length (c :: r) - length rest))%nat
    | None => None
    end.
Proof.
  intros k c r acc n H1. cbn [str_body].
  destruct (c =? 34) eqn:E1; [exfalso; lia|].
  destruct (c <? 32) eqn:E2; [exfalso; lia|].
  destruct (c =? 92) eqn:E3; [exfalso; lia|].
  destruct (c <? 128) eqn:E4; [exfalso; lia|]. reflexivity.
Qed.

Lemma utf8_enc_lo : forall r, r < 128 -> utf8_enc r = [r].
Proof. intros r H. unfold utf8_enc. destruct (r <? 128) eqn:E; [reflexivity|exfalso; lia]. Qed.

Lemma utf8_enc_hi : forall r, 128 <= r -> exists b bs, utf8_enc r = b :: bs /\ 128 <= b.
Proof.
  intros r H. unfold utf8_enc. repeat case_if; try (exfalso; lia); eexists; eexists; (split; [reflexivity|lia]).
Qed.

Lemma str_body_unit : forall html u k tail acc n,
    unit_ok u ->
    str_body (S k) (quote_unit html u ++ tail) acc n
    = str_body k tail (rev (utf8_enc (fst u)) ++ acc) (n + length (quote_unit html u))%nat.
Proof.
  intros html [r ok] k tail acc n Hu. unfold unit_ok in Hu. cbn [fst snd] in *.
  destruct ok; cbn [quote_unit negb]; [|subst r; reflexivity].
  destruct (r <? 128) eqn:Hr.
  - destruct (r =? 34) eqn:E1; [apply N.eqb_eq in E1; subst r; reflexivity|].
    destruct (r =? 92) eqn:E2; [apply N.eqb_eq in E2; subst r; reflexivity|].
    destruct (r =? 8) eqn:E3; [apply N.eqb_eq in E3; subst r; reflexivity|].
    destruct (r =? 12) eqn:E4; [apply N.eqb_eq in E4; subst r; reflexivity|].
    destruct (r =? 10) eqn:E5; [apply N.eqb_eq in E5; subst r; reflexivity|].
    destruct (r =? 13) eqn:E6; [apply N.eqb_eq in E6; subst r; reflexivity|].
    destruct (r =? 9) eqn:E7; [apply N.eqb_eq in E7; subst r; reflexivity|].
    destruct ((r <? 32) || html && ((r =? 60) || (r =? 62) || (r =? 38))) eqn:E8.
    + cbn [app]. rewrite (str_body_u k _ r tail); [reflexivity| apply hex4_00; lia |].
      unfold is_surrogate, in_range. lia.
    + cbn [app]. rewrite str_body_lo by lia. rewrite utf8_enc_lo by lia. reflexivity.
  - destruct (r =? 8232) eqn:E1; [apply N.eqb_eq in E1; subst r; reflexivity|].
    destruct (r =? 8233) eqn:E2; [apply N.eqb_eq in E2; subst r; reflexivity|].
    destruct (utf8_enc_hi r ltac:(lia)) as (b & bs & Hb & Hb1).
    pose proof (utf8_dec_enc r tail Hu) as Hd.
    rewrite Hb in *. cbn [app] in *. rewrite str_body_hi by exact Hb1. rewrite Hd.
    replace (length (b :: bs ++ tail) - length tail)%nat with (length (b :: bs)) by (cbn [length]; rewrite app_length; lia).
    rewrite Hb. reflexivity.
Qed.

Lemma quote_unit_len : forall html u, (1 <= length (quote_unit html u))%nat.
Proof.
  intros html [r ok]. unfold quote_unit. repeat case_if; cbn [length]; try lia.
  unfold utf8_enc. repeat case_if; cbn [length]; lia.
Qed.

Lemma str_body_units : forall html l rest fuel acc n,
    Forall unit_ok l ->
    (length (flat_map (quote_unit html) l) < fuel)%nat ->
    str_body fuel (flat_map (quote_unit html) l ++ 34 :: rest) acc n
    = Some (rev acc ++ flat_map (fun u => utf8_enc (fst u)) l,
            (n + length (flat_map (quote_unit html) l))%nat, rest).
Proof.
  intros html l. induction l as [|u l IH]; intros rest fuel acc n Hl Hf.
  - cbn [flat_map app length] in *. destruct fuel as [|k]; [lia|].
    cbn. rewrite app_nil_r. rewrite Nat.add_0_r. reflexivity.
  - inversion Hl as [|? ? Hu Hl']; subst.
    cbn [flat_map] in *. rewrite app_length in Hf. pose proof (quote_unit_len html u) as H1.
    destruct fuel as [|k]; [lia|].
    rewrite <- app_assoc. rewrite str_body_unit by exact Hu.
    rewrite IH by (try exact Hl'; lia).
    rewrite rev_app_distr, rev_involutive, app_length, <- app_assoc, Nat.add_assoc. reflexivity.
Qed.

Lemma str_body_quote : forall html s rest fuel acc n,
    (length (quote_body html s) < fuel)%nat ->
    str_body fuel (quote_body html s ++ 34 :: rest) acc n
    = Some (rev acc ++ sanitize s, (n + length (quote_body html s))%nat, rest).
Proof.
  intros html s rest fuel acc n H. unfold quote_body, sanitize in *.
  apply str_body_units; [apply runes_unit_ok | exact H].
Qed.

Lemma firstn_app_exact : forall (a b : bytes), firstn (length a) (a ++ b) = a.
Proof. induction a as [|x a IH]; intros b; [reflexivity|]. cbn. rewrite IH. reflexivity. Qed.

Lemma parse_string_quote : forall html s rest,
    parse_string (quote_body html s ++ 34 :: rest) = Some (quote_body html s, sanitize s, rest).
Proof.
  intros html s rest. unfold parse_string.
  rewrite (str_body_quote html s rest) by (rewrite app_length; cbn [length]; lia).
  cbn [rev app Nat.add]. rewrite firstn_app_exact. reflexivity.
Qed.

(* ---------------------------------------------------------------- numbers *)

(* case analysis of a byte down to its bits, to evaluate a match against byte literals *)
Ltac deepN c :=
  let p := fresh "p" in
  destruct c as [|p];
  [try reflexivity | repeat (destruct p as [p|p|]; try reflexivity)].

Definition rest_ok (rest : bytes) : bool :=
  match rest with
  | [] => true
  | c :: _ => (c =? 44) || (c =? 93) || (c =? 125)
  end.

Lemma rest_ok_cases : forall rest, rest_ok rest = true ->
    rest = [] \/ exists t, rest = 44 :: t \/ rest = 93 :: t \/ rest = 125 :: t.
Proof.
  intros [|c t] H; [left; reflexivity|right]. exists t. cbn [rest_ok] in H.
  destruct (c =? 44) eqn:E1; [apply N.eqb_eq in E1; subst; auto|].
  destruct (c =? 93) eqn:E2; [apply N.eqb_eq in E2; subst; auto|].
  destruct (c =? 125) eqn:E3; [apply N.eqb_eq in E3; subst; auto|]. discriminate.
Qed.

Ltac rest_cases H :=
  let t := fresh "t" in
  destruct (rest_ok_cases _ H) as [->|[t [->|[->| ->]]]].

(* the stages of parse_number *)
Definition st_sign (s : bytes) : bytes * bytes :=
  match s with 45 :: r => ([45], r) | _ => ([], s) end.

Definition st_int (s1 : bytes) : option (bytes * bytes) :=
  match s1 with
  | [] => None
  | c :: r =>
    if c =? 48 then Some ([48], r)
    else if in_range 49 57 c then let '(d, r') := span_digits r in Some (c :: d, r')
    else None
  end.

Definition st_frac (s2 : bytes) : option (bytes * bytes) :=
  match s2 with
  | 46 :: r2 => let '(d, r') := span_digits r2 in
                match d with [] => None | _ => Some (46 :: d, r') end
  | _ => Some ([], s2)
  end.

Definition st_esign (r3 : bytes) : bytes * bytes :=
  match r3 with
  | 43 :: r' => ([43], r')
  | 45 :: r' => ([45], r')
  | _ => ([], r3)
  end.

Definition st_exp (s3 : bytes) : option (bytes * bytes) :=
  match s3 with
  | e :: r3 =>
    if (e =? 101) || (e =? 69) then
      let '(es, r4) := st_esign r3 in
      let '(d, r') := span_digits r4 in
      match d with [] => None | _ => Some (e :: es ++ d, r') end
    else Some ([], s3)
  | [] => Some ([], s3)
  end.

Lemma parse_number_stages : forall s,
    parse_number s =
    let '(sg, s1) := st_sign s in
    match st_int s1 with
    | None => None
    | Some (i, s2) =>
      match st_frac s2 with
      | None => None
      | Some (f, s3) =>
        match st_exp s3 with
        | None => None
        | Some (x, s4) => Some (sg ++ i ++ f ++ x, s4)
        end
      end
    end.
Proof.
  intros [|c r]; [reflexivity|]. deepN c. destruct r; reflexivity.
Qed.

Lemma st_sign_eq : forall s,
    st_sign s = match s with
                | c :: r => if c =? 45 then ([45], r) else ([], s)
                | [] => ([], s)
                end.
Proof.
  intros [|c r]; [reflexivity|]. unfold st_sign.
  destruct (c =? 45) eqn:E; [apply N.eqb_eq in E; subst; reflexivity|].
  deepN c. vm_compute in E; discriminate E.
Qed.

Lemma st_frac_eq : forall s2,
    st_frac s2 = match s2 with
                 | c :: r2 =>
                   if c =? 46 then
                     let '(d, r') := span_digits r2 in
                     match d with [] => None | _ => Some (46 :: d, r') end
                   else Some ([], s2)
                 | [] => Some ([], s2)
                 end.
Proof.
  intros [|c r]; [reflexivity|]. unfold st_frac.
  destruct (c =? 46) eqn:E; [apply N.eqb_eq in E; subst; reflexivity|].
  deepN c. vm_compute in E; discriminate E.
Qed.

Lemma st_esign_eq : forall r3,
    st_esign r3 = match r3 with
                  | c :: r' => if c =? 43 then ([43], r') else if c =? 45 then ([45], r') else ([], r3)
                  | [] => ([], r3)
                  end.
Proof.
  intros [|c r]; [reflexivity|]. unfold st_esign.
  destruct (c =? 43) eqn:E; [apply N.eqb_eq in E; subst; reflexivity|].
  destruct (c =? 45) eqn:E'; [apply N.eqb_eq in E'; subst; reflexivity|].
  deepN c; first [vm_compute in E; discriminate E | vm_compute in E'; discriminate E'].
Qed.

Definition ext (rest : bytes) (o : option (bytes * bytes)) : option (bytes * bytes) :=
  match o with Some (a, b) => Some (a, b ++ rest) | None => None end.

Lemma span_digits_app : forall rest s, rest_ok rest = true ->
    span_digits (s ++ rest) = let '(d, r) := span_digits s in (d, r ++ rest).
Proof.
  intros rest s H. induction s as [|c s IH].
  - cbn [app span_digits]. rest_cases H; reflexivity.
  - cbn [app span_digits]. destruct (is_digit c); [|reflexivity].
    rewrite IH. destruct (span_digits s) as [d r]. reflexivity.
Qed.

Lemma st_sign_app : forall rest s, rest_ok rest = true ->
    st_sign (s ++ rest) = let '(a, b) := st_sign s in (a, b ++ rest).
Proof.
  intros rest s H. destruct s as [|c s].
  - cbn [app]. rest_cases H; reflexivity.
  - rewrite !st_sign_eq. cbn [app]. destruct (c =? 45); reflexivity.
Qed.

Lemma st_int_app : forall rest s, rest_ok rest = true -> st_int (s ++ rest) = ext rest (st_int s).
Proof.
  intros rest s H. destruct s as [|c s].
  - cbn [app]. rest_cases H; reflexivity.
  - cbn [app st_int]. destruct (c =? 48); [reflexivity|].
    destruct (in_range 49 57 c); [|reflexivity].
    rewrite span_digits_app by exact H. destruct (span_digits s) as [d r]. reflexivity.
Qed.

Lemma st_frac_app : forall rest s, rest_ok rest = true -> st_frac (s ++ rest) = ext rest (st_frac s).
Proof.
  intros rest s H. destruct s as [|c s].
  - cbn [app]. rest_cases H; reflexivity.
  - rewrite !st_frac_eq. cbn [app]. destruct (c =? 46); [|reflexivity].
    rewrite span_digits_app by exact H. destruct (span_digits s) as [[|d0 d] r]; reflexivity.
Qed.

Lemma st_esign_app : forall rest s, rest_ok rest = true ->
    st_esign (s ++ rest) = let '(a, b) := st_esign s in (a, b ++ rest).
Proof.
  intros rest s H. destruct s as [|c s].
  - cbn [app]. rest_cases H; reflexivity.
  - rewrite !st_esign_eq. cbn [app]. destruct (c =? 43); [reflexivity|]. destruct (c =? 45); reflexivity.
Qed.

Lemma st_exp_app : forall rest s, rest_ok rest = true -> st_exp (s ++ rest) = ext rest (st_exp s).
Proof.
  intros rest s H. destruct s as [|c s].
  - cbn [app]. rest_cases H; reflexivity.
  - cbn [app st_exp]. destruct ((c =? 101) || (c =? 69)); [|reflexivity].
    rewrite st_esign_app by exact H. destruct (st_esign s) as [es r4].
    rewrite span_digits_app by exact H. destruct (span_digits r4) as [[|d0 d] r]; reflexivity.
Qed.

Lemma parse_number_app : forall rest s, rest_ok rest = true ->
    parse_number (s ++ rest) = ext rest (parse_number s).
Proof.
  intros rest s H. rewrite !parse_number_stages.
  rewrite st_sign_app by exact H. destruct (st_sign s) as [sg s1].
  rewrite st_int_app by exact H. destruct (st_int s1) as [[i s2]|]; [|reflexivity]. cbn [ext].
  rewrite st_frac_app by exact H. destruct (st_frac s2) as [[f s3]|]; [|reflexivity]. cbn [ext].
  rewrite st_exp_app by exact H. destruct (st_exp s3) as [[x s4]|]; reflexivity.
Qed.

Lemma bytes_eqb_eq : forall a b, bytes_eqb a b = true -> a = b.
Proof.
  induction a as [|x a IH]; intros [|y b] H; cbn in H; try discriminate; [reflexivity|].
  apply andb_true_iff in H. destruct H as [H1 H2]. apply N.eqb_eq in H1. subst. f_equal. auto.
Qed.

Lemma parse_number_ok : forall lex rest, num_ok lex = true -> rest_ok rest = true ->
    parse_number (lex ++ rest) = Some (lex, rest).
Proof.
  intros lex rest Hn Hr. rewrite parse_number_app by exact Hr. unfold num_ok in Hn.
  destruct (parse_number lex) as [[l [|? ?]]|]; try discriminate.
  apply bytes_eqb_eq in Hn. subst. reflexivity.
Qed.

Definition num_start (c : N) : bool := (c =? 45) || is_digit c.

Lemma num_ok_head : forall lex, num_ok lex = true -> exists c t, lex = c :: t /\ num_start c = true.
Proof.
  intros lex H. unfold num_ok in H. rewrite parse_number_stages in H.
  destruct lex as [|c t]; [discriminate|]. exists c, t. split; [reflexivity|].
  unfold num_start. rewrite st_sign_eq in H. destruct (c =? 45) eqn:E; [reflexivity|].
  cbn [st_int] in H. unfold is_digit, in_range in *.
  destruct (c =? 48) eqn:E1; [lia|].
  destruct ((49 <=? c) && (c <=? 57)) eqn:E2; [lia|discriminate].
Qed.

(* ---------------------------------------------------------------- documents *)

Section JsonInd.
  Variable P : json -> Prop.
  Hypothesis Hnull : P JNull.
  Hypothesis Hbool : forall b, P (JBool b).
  Hypothesis Hnum : forall lex, P (JNum lex).
  Hypothesis Hstr : forall raw s, P (JStr raw s).
  Hypothesis Harr : forall l, Forall P l -> P (JArr l).
  Hypothesis Hobj : forall l, Forall (fun kv => P (snd kv)) l -> P (JObj l).

  Fixpoint json_nested_ind (j : json) : P j :=
    match j with
    | JNull => Hnull
    | JBool b => Hbool b
    | JNum lex => Hnum lex
    | JStr raw s => Hstr raw s
    | JArr l =>
      Harr l ((fix go (l : list json) : Forall P l :=
                 match l with
                 | [] => Forall_nil P
                 | x :: r => Forall_cons x (json_nested_ind x) (go r)
                 end) l)
    | JObj l =>
      Hobj l ((fix go (l : list (bytes * json)) : Forall (fun kv => P (snd kv)) l :=
                 match l with
                 | [] => Forall_nil _
                 | kv :: r => Forall_cons (P := fun kv => P (snd kv)) kv (json_nested_ind (snd kv)) (go r)
                 end) l)
    end.
End JsonInd.

Fixpoint print_elems (html : bool) (l : list json) : bytes :=
  match l with
  | [] => [93]
  | x :: r => print html x ++ match r with [] => [93] | _ => 44 :: print_elems html r end
  end.

Fixpoint print_members (html : bool) (l : list (bytes * json)) : bytes :=
  match l with
  | [] => [125]
  | (k, x) :: r => quote html k ++ 58 :: print html x ++ match r with [] => [125] | _ => 44 :: print_members html r end
  end.

Lemma print_arr : forall html l, print html (JArr l) = 91 :: print_elems html l.
Proof.
  intros html l. cbn [print]. f_equal.
  induction l as [|x r IH]; [reflexivity|].
  cbn [print_elems]. rewrite <- IH. reflexivity.
Qed.

Lemma print_obj : forall html l, print html (JObj l) = 123 :: print_members html l.
Proof.
  intros html l. cbn [print]. f_equal.
  induction l as [|[k x] r IH]; [reflexivity|].
  cbn [print_members]. rewrite <- IH. reflexivity.
Qed.

Lemma skip_ws_nws : forall c r, is_ws c = false -> skip_ws (c :: r) = c :: r.
Proof. intros c r H. cbn [skip_ws]. rewrite H. reflexivity. Qed.

(* unfolding steps of the mutual parser on the shapes the printer emits *)
Lemma pv_null : forall k d r, parse_value (S k) d (110 :: 117 :: 108 :: 108 :: r) = Some (JNull, r).
Proof. reflexivity. Qed.
Lemma pv_true : forall k d r, parse_value (S k) d (116 :: 114 :: 117 :: 101 :: r) = Some (JBool true, r).
Proof. reflexivity. Qed.
Lemma pv_false : forall k d r, parse_value (S k) d (102 :: 97 :: 108 :: 115 :: 101 :: r) = Some (JBool false, r).
Proof. reflexivity. Qed.
Lemma pv_str : forall k d r,
    parse_value (S k) d (34 :: r) =
    match parse_string r with Some (raw, v, r') => Some (JStr raw v, r') | None => None end.
Proof. reflexivity. Qed.

Lemma pv_num : forall k d c r, num_start c = true ->
    parse_value (S k) d (c :: r) =
    match parse_number (c :: r) with Some (lex, r') => Some (JNum lex, r') | None => None end.
Proof.
  intros k d c r H. unfold num_start, is_digit, in_range in H.
  cbn [parse_value]. rewrite skip_ws_nws by (unfold is_ws; lia).
  destruct (c =? 123) eqn:E1; [exfalso; lia|].
  destruct (c =? 91) eqn:E2; [exfalso; lia|].
  destruct (c =? 34) eqn:E3; [exfalso; lia|].
  destruct (c =? 116) eqn:E4; [exfalso; lia|].
  destruct (c =? 102) eqn:E5; [exfalso; lia|].
  destruct (c =? 110) eqn:E6; [exfalso; lia|]. reflexivity.
Qed.

Lemma pv_arr_empty : forall k d r, d + 1 <= max_depth ->
    parse_value (S k) d (91 :: 93 :: r) = Some (JArr [], r).
Proof.
  intros k d r H. cbn [parse_value]. rewrite skip_ws_nws by reflexivity.
  change (91 =? 123) with false. change (91 =? 91) with true. cbv iota.
  destruct (max_depth <? d + 1) eqn:E; [exfalso; lia|]. reflexivity.
Qed.

Lemma pv_arr : forall k d c r, d + 1 <= max_depth -> is_ws c = false -> c <> 93 ->
    parse_value (S k) d (91 :: c :: r) =
    match parse_elems k (d + 1) (c :: r) [] with Some (l, r') => Some (JArr l, r') | None => None end.
Proof.
  intros k d c r H Hw Hc. cbn [parse_value]. rewrite skip_ws_nws by reflexivity.
  change (91 =? 123) with false. change (91 =? 91) with true. cbv iota.
  destruct (max_depth <? d + 1) eqn:E; [exfalso; lia|].
  rewrite skip_ws_nws by exact Hw.
  deepN c. exfalso; apply Hc; reflexivity.
Qed.

Lemma pv_obj_empty : forall k d r, d + 1 <= max_depth ->
    parse_value (S k) d (123 :: 125 :: r) = Some (JObj [], r).
Proof.
  intros k d r H. cbn [parse_value]. rewrite skip_ws_nws by reflexivity.
  change (123 =? 123) with true. cbv iota.
  destruct (max_depth <? d + 1) eqn:E; [exfalso; lia|]. reflexivity.
Qed.

Lemma pv_obj : forall k d r, d + 1 <= max_depth ->
    parse_value (S k) d (123 :: 34 :: r) =
    match parse_members k (d + 1) (34 :: r) [] with Some (l, r') => Some (JObj l, r') | None => None end.
Proof.
  intros k d r H. cbn [parse_value]. rewrite skip_ws_nws by reflexivity.
  change (123 =? 123) with true. cbv iota.
  destruct (max_depth <? d + 1) eqn:E; [exfalso; lia|]. reflexivity.
Qed.

Lemma pe_step : forall k d s acc,
    parse_elems (S k) d s acc =
    match parse_value k d s with
    | None => None
    | Some (x, r) =>
      match skip_ws r with
      | 44 :: r' => parse_elems k d r' (x :: acc)
      | 93 :: r' => Some (rev (x :: acc), r')
      | _ => None
      end
    end.
Proof. reflexivity. Qed.

Lemma pm_step : forall k d r0 acc,
    parse_members (S k) d (34 :: r0) acc =
    match parse_string r0 with
    | None => None
    | Some (_, key, r1) =>
      match skip_ws r1 with
      | 58 :: r2 =>
        match parse_value k d r2 with
        | None => None
        | Some (x, r3) =>
          match skip_ws r3 with
          | 44 :: r' => parse_members k d r' ((key, x) :: acc)
          | 125 :: r' => Some (rev ((key, x) :: acc), r')
          | _ => None
          end
        end
      | _ => None
      end
    end.
Proof. reflexivity. Qed.

Lemma num_start_props : forall c, num_start c = true -> is_ws c = false /\ c <> 93.
Proof. intros c H. unfold num_start, is_digit, in_range in H. unfold is_ws. lia. Qed.

Lemma print_head : forall html j, printable j = true ->
    exists c t, print html j = c :: t /\ is_ws c = false /\ c <> 93.
Proof.
  intros html j H. destruct j as [|[|]|lex|raw s|l|l].
  - eexists; eexists; split; [reflexivity|split; [reflexivity|discriminate]].
  - eexists; eexists; split; [reflexivity|split; [reflexivity|discriminate]].
  - eexists; eexists; split; [reflexivity|split; [reflexivity|discriminate]].
  - cbn [printable] in H. destruct (num_ok_head lex H) as (c & t & -> & Hc).
    exists c, t. split; [reflexivity|]. apply num_start_props; exact Hc.
  - eexists; eexists; split; [reflexivity|split; [reflexivity|discriminate]].
  - rewrite print_arr. eexists; eexists; split; [reflexivity|split; [reflexivity|discriminate]].
  - rewrite print_obj. eexists; eexists; split; [reflexivity|split; [reflexivity|discriminate]].
Qed.

Lemma print_elems_one : forall html x, print_elems html [x] = print html x ++ [93].
Proof. reflexivity. Qed.
Lemma print_elems_cons2 : forall html x y r,
    print_elems html (x :: y :: r) = print html x ++ 44 :: print_elems html (y :: r).
Proof. reflexivity. Qed.

Lemma print_members_one : forall html k x,
    print_members html [(k, x)] = 34 :: quote_body html k ++ 34 :: 58 :: print html x ++ [125].
Proof.
  intros. cbn [print_members]. unfold quote. cbn [app]. rewrite <- app_assoc. reflexivity.
Qed.
Lemma print_members_cons2 : forall html k x y r,
    print_members html ((k, x) :: y :: r)
    = 34 :: quote_body html k ++ 34 :: 58 :: print html x ++ 44 :: print_members html (y :: r).
Proof.
  intros. cbn [print_members]. unfold quote. cbn [app]. rewrite <- app_assoc. reflexivity.
Qed.

Definition PV (html : bool) (j : json) : Prop :=
  forall fuel depth rest,
    printable j = true -> depth + jdepth j <= max_depth ->
    (length (print html j) < fuel)%nat -> rest_ok rest = true ->
    parse_value fuel depth (print html j ++ rest) = Some (canon html j, rest).

Lemma elems_ok : forall html l, Forall (PV html) l -> l <> [] ->
    forall fuel depth rest acc,
      forallb printable l = true ->
      Forall (fun x => depth + jdepth x <= max_depth) l ->
      (length (print_elems html l) < fuel)%nat ->
      parse_elems fuel depth (print_elems html l ++ rest) acc
      = Some (rev acc ++ map (canon html) l, rest).
Proof.
  intros html l. induction l as [|x r IH]; intros HP Hne fuel depth rest acc Hpr Hd Hf; [contradiction|].
  inversion HP as [|? ? HPx HPr]; subst.
  inversion Hd as [|? ? Hdx Hdr]; subst.
  cbn [forallb] in Hpr. apply andb_true_iff in Hpr. destruct Hpr as [Hpx Hpr].
  destruct fuel as [|k]; [lia|]. rewrite pe_step.
  destruct r as [|y r'].
  - rewrite print_elems_one in *. rewrite app_length in Hf. cbn [length] in Hf.
    rewrite <- app_assoc. cbn [app].
    rewrite (HPx k depth (93 :: rest) Hpx Hdx) by (try reflexivity; lia).
    rewrite skip_ws_nws by reflexivity. cbv iota.
    cbn [rev map]. reflexivity.
  - rewrite print_elems_cons2 in *. rewrite app_length in Hf. cbn [length] in Hf.
    rewrite <- app_assoc. cbn [app].
    rewrite (HPx k depth (44 :: _) Hpx Hdx) by (try reflexivity; lia).
    rewrite skip_ws_nws by reflexivity. cbv iota.
    rewrite (IH HPr) by (try discriminate; try assumption; lia).
    cbn [rev map]. rewrite <- app_assoc. reflexivity.
Qed.

Lemma members_ok : forall html l, Forall (fun kv => PV html (snd kv)) l -> l <> [] ->
    forall fuel depth rest acc,
      forallb (fun kv => printable (snd kv)) l = true ->
      Forall (fun kv => depth + jdepth (snd kv) <= max_depth) l ->
      (length (print_members html l) < fuel)%nat ->
      parse_members fuel depth (print_members html l ++ rest) acc
      = Some (rev acc ++ map (fun kv => (sanitize (fst kv), canon html (snd kv))) l, rest).
Proof.
  intros html l. induction l as [|[key x] r IH]; intros HP Hne fuel depth rest acc Hpr Hd Hf; [contradiction|].
  inversion HP as [|? ? HPx HPr]; subst.
  inversion Hd as [|? ? Hdx Hdr]; subst.
  cbn [forallb snd] in *. apply andb_true_iff in Hpr. destruct Hpr as [Hpx Hpr].
  destruct fuel as [|k]; [lia|].
  destruct r as [|y r'].
  - rewrite print_members_one in *. cbn [length] in Hf. rewrite app_length in Hf. cbn [length] in Hf.
    rewrite app_length in Hf. cbn [length] in Hf.
    cbn [app]. rewrite <- app_assoc. cbn [app]. rewrite <- app_assoc. cbn [app].
    rewrite pm_step. rewrite parse_string_quote.
    rewrite skip_ws_nws by reflexivity. cbv iota.
    rewrite (HPx k depth (125 :: rest) Hpx Hdx) by (try reflexivity; lia).
    rewrite skip_ws_nws by reflexivity. cbv iota.
    cbn [rev map fst snd]. reflexivity.
  - rewrite print_members_cons2 in *. cbn [length] in Hf. rewrite app_length in Hf. cbn [length] in Hf.
    rewrite app_length in Hf. cbn [length] in Hf.
    cbn [app]. rewrite <- app_assoc. cbn [app]. rewrite <- app_assoc. cbn [app].
    rewrite pm_step. rewrite parse_string_quote.
    rewrite skip_ws_nws by reflexivity. cbv iota.
    rewrite (HPx k depth (44 :: _) Hpx Hdx) by (try reflexivity; lia).
    rewrite skip_ws_nws by reflexivity. cbv iota.
    rewrite (IH HPr) by (try discriminate; try assumption; lia).
    cbn [rev map fst snd]. rewrite <- app_assoc. reflexivity.
Qed.

Lemma jdepth_fold_arr : forall l m,
    fold_right (fun x a => N.max (jdepth x) a) 0 l <= m -> Forall (fun x => jdepth x <= m) l.
Proof.
  induction l as [|x l IH]; intros m H; [constructor|].
  cbn [fold_right] in H. constructor; [lia|apply IH; lia].
Qed.

Lemma jdepth_fold_obj : forall (l : list (bytes * json)) m,
    fold_right (fun kv a => N.max (jdepth (snd kv)) a) 0 l <= m -> Forall (fun kv => jdepth (snd kv) <= m) l.
Proof.
  induction l as [|x l IH]; intros m H; [constructor|].
  cbn [fold_right] in H. constructor; [lia|apply IH; lia].
Qed.

Lemma print_elems_head : forall html l, l <> [] -> forallb printable l = true ->
    exists c t, print_elems html l = c :: t /\ is_ws c = false /\ c <> 93.
Proof.
  intros html [|x r] Hne H; [contradiction|].
  cbn [forallb] in H. apply andb_true_iff in H. destruct H as [Hx _].
  destruct (print_head html x Hx) as (c & t & Hc & Hw & H93).
  cbn [print_elems]. rewrite Hc. cbn [app]. eexists; eexists; split; [reflexivity|split; assumption].
Qed.

Lemma print_members_head : forall html l, l <> [] ->
    exists t, print_members html l = 34 :: t.
Proof.
  intros html [|[k x] r] Hne; [contradiction|].
  cbn [print_members]. unfold quote. cbn [app]. eexists; reflexivity.
Qed.

Lemma parse_value_print_all : forall html j, PV html j.
Proof.
  intros html j. induction j as [| b | lex | raw s | l IH | l IH] using json_nested_ind;
    intros fuel depth rest Hpr Hd Hf Hr; (destruct fuel as [|k]; [lia|]).
  - apply pv_null.
  - destruct b; [apply pv_true|apply pv_false].
  - cbn [printable] in Hpr. cbn [print canon].
    destruct (num_ok_head lex Hpr) as (c & t & Hl & Hc).
    rewrite Hl at 1. cbn [app]. rewrite pv_num by exact Hc.
    change (c :: t ++ rest) with ((c :: t) ++ rest). rewrite <- Hl.
    rewrite parse_number_ok by assumption. reflexivity.
  - cbn [print canon]. unfold quote. cbn [app]. rewrite <- app_assoc. cbn [app].
    rewrite pv_str, parse_string_quote. reflexivity.
  - rewrite print_arr in *. cbn [canon printable jdepth length] in *.
    destruct l as [|x r].
    + cbn [print_elems app map]. apply pv_arr_empty. cbn [fold_right] in Hd. lia.
    + assert (Hne : x :: r <> []) by discriminate.
      destruct (print_elems_head html (x :: r) Hne Hpr) as (c & t & Hc & Hw & H93).
      cbn [app]. rewrite Hc. cbn [app]. rewrite pv_arr by (try assumption; lia).
      change (c :: t ++ rest) with ((c :: t) ++ rest). rewrite <- Hc.
      rewrite (elems_ok html (x :: r) IH Hne k (depth + 1) rest []); [reflexivity|assumption| |lia].
      eapply Forall_impl; [|apply (jdepth_fold_arr (x :: r) (max_depth - (depth + 1))); lia].
      cbn beta. intros a Ha. lia.
  - rewrite print_obj in *. cbn [canon printable jdepth length] in *.
    destruct l as [|kv r].
    + cbn [print_members app map]. apply pv_obj_empty. cbn [fold_right] in Hd. lia.
    + assert (Hne : kv :: r <> []) by discriminate.
      destruct (print_members_head html (kv :: r) Hne) as (t & Hc).
      cbn [app]. rewrite Hc. cbn [app]. rewrite pv_obj by lia.
      change (34 :: t ++ rest) with ((34 :: t) ++ rest). rewrite <- Hc.
      rewrite (members_ok html (kv :: r) IH Hne k (depth + 1) rest []); [reflexivity|assumption| |lia].
      eapply Forall_impl; [|apply (jdepth_fold_obj (kv :: r) (max_depth - (depth + 1))); lia].
      cbn beta. intros a Ha. lia.
Qed.

Lemma parse_value_print : forall html j fuel depth rest,
    printable j = true -> depth + jdepth j <= max_depth ->
    (length (print html j) < fuel)%nat -> rest_ok rest = true ->
    parse_value fuel depth (print html j ++ rest) = Some (canon html j, rest).
Proof. intros html j. exact (parse_value_print_all html j). Qed.

Theorem parse_print : forall html j, printable j = true -> jdepth j <= max_depth ->
    parse (print html j) = Some (canon html j).
Proof.
  intros html j Hp Hd. unfold parse.
  rewrite <- (app_nil_r (print html j)) at 2.
  rewrite parse_value_print by (try assumption; try reflexivity; lia). reflexivity.
Qed.

Corollary print_wf : forall html j, printable j = true -> jdepth j <= max_depth ->
    json_wf (print html j) = true.
Proof. intros html j Hp Hd. unfold json_wf. rewrite parse_print by assumption. reflexivity. Qed.

Print Assumptions parse_print.
Print Assumptions print_wf.
Print Assumptions sanitize_idem.
Print Assumptions parse_string_quote.
