(* C07: invariants of the interleaving model, for every schedule and any number of threads/bookings. *)
From Relay Require Import Base.Prelude Model.RelaySys.

Arguments memn : simpl never.
Arguments memN : simpl never.

(* ---- lists ---- *)
Lemma nth_upd_eq {A} (l : list A) i x y : nth_error l i = Some x -> nth_error (upd l i y) i = Some y.
Proof. revert i; induction l as [|a l IH]; intros [|i]; cbn; intros H; try discriminate; auto. Qed.

Lemma nth_upd_neq {A} (l : list A) i k y : i <> k -> nth_error (upd l i y) k = nth_error l k.
Proof.
  revert i k; induction l as [|a l IH]; intros [|i] [|k] H; cbn; try reflexivity; try congruence.
  apply IH; congruence.
Qed.

Lemma memN_cons x y l : memN x (y :: l) = (N.eqb x y || memN x l)%bool.
Proof. reflexivity. Qed.

Lemma memN_rm_same b l : memN b (rmN b l) = false.
Proof.
  unfold memN, rmN. induction l as [|y l IH]; cbn; [reflexivity|].
  destruct (N.eqb_spec y b) as [->|Hn]; cbn; [exact IH|].
  destruct (N.eqb_spec b y) as [->|_]; [congruence|exact IH].
Qed.

Lemma memN_rm_other b b' l : b <> b' -> memN b (rmN b' l) = memN b l.
Proof.
  intros Hn. unfold memN, rmN. induction l as [|y l IH]; cbn; [reflexivity|].
  destruct (N.eqb_spec y b') as [->|Hy]; cbn.
  - destruct (N.eqb_spec b b'); [congruence|exact IH].
  - rewrite IH. reflexivity.
Qed.

Lemma memN_filter_sub x f l : memN x (filter f l) = true -> memN x l = true.
Proof.
  unfold memN. rewrite !existsb_exists. intros [y [Hy He]]. apply filter_In in Hy. exists y. split; [apply Hy|exact He].
Qed.

Lemma memN_app x l1 l2 : memN x (l1 ++ l2) = (memN x l1 || memN x l2)%bool.
Proof. unfold memN. apply existsb_app. Qed.

Lemma memn_app x l1 l2 : memn x (l1 ++ l2) = (memn x l1 || memn x l2)%bool.
Proof. unfold memn. apply existsb_app. Qed.

Lemma memn_in x l : memn x l = true <-> In x l.
Proof.
  unfold memn. rewrite existsb_exists. split.
  - intros [y [Hy He]]. apply Nat.eqb_eq in He. subst. exact Hy.
  - intros H. exists x. split; [exact H|apply Nat.eqb_refl].
Qed.

Lemma memn_cons x y l : memn x (y :: l) = (Nat.eqb x y || memn x l)%bool.
Proof. reflexivity. Qed.

Lemma closed_by_loop k b (chm0 : list (nat * N)) cl :
  In (k, b) chm0 -> memn k (map fst (filter (fun kb => N.eqb (snd kb) b) chm0) ++ cl) = true.
Proof.
  intros H. rewrite memn_app. apply orb_true_iff. left. apply memn_in.
  apply in_map_iff. exists (k, b). split; [reflexivity|]. apply filter_In. split; [exact H|]. cbn. apply N.eqb_refl.
Qed.

Lemma kept_by_loop k b b' (chm0 : list (nat * N)) :
  In (k, b) chm0 -> b <> b' -> In (k, b) (filter (fun kb => negb (N.eqb (snd kb) b')) chm0).
Proof.
  intros H Hn. apply filter_In. split; [exact H|]. cbn. destruct (N.eqb_spec b b'); [congruence|reflexivity].
Qed.

Lemma kept_by_delchild k k' b (chm0 : list (nat * N)) :
  In (k, b) chm0 -> k <> k' -> In (k, b) (filter (fun kb => negb (Nat.eqb (fst kb) k')) chm0).
Proof.
  intros H Hn. apply filter_In. split; [exact H|]. cbn. destruct (Nat.eqb_spec k k'); [congruence|reflexivity].
Qed.

(* ---- the invariant ---- *)
Definition thr (s : sys) (k : nat) := nth_error (threads s) k.

Definition pending (s : sys) (b : N) : Prop :=
  memN b (q s) = true \/ exists i e pc, thr s i = Some (TDeny b e pc) /\ (pc = 1 \/ pc = 2).

(* J: the deny channel of every connection past the exchange is recorded, unless already closed / gone *)
Definition InvJ (s : sys) : Prop :=
  forall k c pc b, thr s k = Some (TWs c pc (Some b)) -> (pc = 1 \/ pc = 2 \/ pc = 3) ->
    In (k, b) (chm s) \/ memn k (closed s) = true \/ memn k (ended s) = true.

(* I: a connection that passed the re-check on a booking now denied is closed, gone, or about to be closed *)
Definition InvI (s : sys) : Prop :=
  forall k c pc b, thr s k = Some (TWs c pc (Some b)) -> (pc = 2 \/ pc = 3) -> memN b (deny s) = true ->
    memn k (closed s) = true \/ memn k (ended s) = true \/ pending s b.

(* M: hub members are exactly connections whose websocket thread joined *)
Definition InvM (s : sys) : Prop :=
  forall k b, In (k, b) (members s) -> exists c, thr s k = Some (TWs c 3 (Some b)).

Definition Inv (s : sys) : Prop := InvJ s /\ InvI s /\ InvM s.

Definition initial_thread (t : thread) : Prop :=
  match t with
  | TSession _ pc _ => pc = 0
  | TDeny _ _ pc => pc = 0
  | TAllow _ pc => pc = 0
  | TWs _ pc tok => pc = 0 /\ tok = None
  | TLeave _ pc => pc = 0
  | TPrune _ pc => pc = 0
  end.

Lemma inv_init ts cs n : Forall initial_thread ts -> Inv (init ts cs n).
Proof.
  intros Hall. repeat split.
  - intros k c pc b Hk Hpc. unfold thr in Hk; cbn in Hk. apply nth_error_In in Hk.
    rewrite Forall_forall in Hall. specialize (Hall _ Hk). cbn in Hall. destruct Hall as [_ Hd]. discriminate.
  - intros k c pc b Hk Hpc. unfold thr in Hk; cbn in Hk. apply nth_error_In in Hk.
    rewrite Forall_forall in Hall. specialize (Hall _ Hk). cbn in Hall. destruct Hall as [_ Hd]. discriminate.
  - intros k b H. cbn in H. contradiction.
Qed.

(* inversion of one thread step into the shape of the thread that moved *)
Ltac tstep_inv H Hnth :=
  unfold tstep in H;
  let t := fresh "t" in let b := fresh "b" in let pc := fresh "pc" in let st := fresh "st" in
  let c := fresh "c" in let tok := fresh "tok" in let k0 := fresh "k0" in let e := fresh "e" in let tm := fresh "tm" in
  match type of H with
  | context [nth_error (threads ?s) ?i] => destruct (nth_error (threads s) i) as [t|] eqn:Hnth; [|discriminate H]
  end;
  destruct t as [b pc st|b e pc|b pc|c pc tok|k0 pc|tm pc];
  try (destruct pc as [|[|[|pc]]]; try discriminate H);
  try (destruct tok as [b|]; try discriminate H).

Lemma thr_put s s0 i t' k :
  threads s0 = threads s ->
  thr (with_threads s0 (upd (threads s) i t')) k = if Nat.eqb i k then (match thr s i with Some _ => Some t' | None => None end) else thr s k.
Proof.
  intros _. unfold thr, with_threads; cbn.
  destruct (Nat.eqb_spec i k) as [->|Hn].
  - destruct (nth_error (threads s) k) eqn:E; [eapply nth_upd_eq; exact E|].
    clear -E. revert k E. induction (threads s) as [|a l IH]; intros [|k] E; cbn in *; try discriminate; auto.
  - apply nth_upd_neq; exact Hn.
Qed.

(* pending survives every step except the loop's own pop (handled separately) *)
Lemma pending_put s s0 i t t' b :
  threads s0 = threads s -> thr s i = Some t ->
  (forall x, memN x (q s) = true -> memN x (q s0) = true) ->
  (forall e pc, t = TDeny b e pc -> (pc = 1 \/ pc = 2) -> (exists pc', t' = TDeny b e pc' /\ (pc' = 1 \/ pc' = 2)) \/ memN b (q s0) = true) ->
  pending s b -> pending (with_threads s0 (upd (threads s) i t')) b.
Proof.
  intros Hts Hi Hq Hd [Hp|[j [e [pc [Hj Hpc]]]]].
  - left. cbn. apply Hq; exact Hp.
  - destruct (Nat.eq_dec i j) as [->|Hn].
    + rewrite Hi in Hj. inversion Hj; subst t. destruct (Hd e pc eq_refl Hpc) as [[pc' [-> Hpc']]|Hq'].
      * right. exists j, e, pc'. split; [|exact Hpc']. rewrite (thr_put s s0 j _ j Hts), Nat.eqb_refl, Hi. reflexivity.
      * left. cbn. exact Hq'.
    + right. exists j, e, pc. split; [|exact Hpc]. rewrite (thr_put s s0 i _ j Hts).
      destruct (Nat.eqb_spec i j); [contradiction|exact Hj].
Qed.

Lemma step_inv s w s' : Inv s -> step s w = Some s' -> Inv s'.
Proof.
  intros (HJ & HI & HM) Hstep. destruct w as [i|]; cbn [step] in Hstep.
  2:{ (* the crossbar's deny loop *)
    unfold denyloop in Hstep. destruct (q s) as [|b' r] eqn:Hq; [discriminate|]. inversion Hstep; subst s'; clear Hstep.
    repeat split.
    - intros k c pc b Hk Hpc. unfold thr in *; cbn in *.
      destruct (HJ k c pc b Hk Hpc) as [Hin|[Hc|He]].
      + destruct (N.eq_dec b b') as [->|Hn].
        * right; left. apply closed_by_loop; exact Hin.
        * left. apply kept_by_loop; assumption.
      + right; left. rewrite memn_app, Hc. apply orb_true_r.
      + right; right. exact He.
    - intros k c pc b Hk Hpc Hd. unfold thr in *; cbn in *.
      destruct (HI k c pc b Hk Hpc Hd) as [Hc|[He|Hp]].
      + left. rewrite memn_app, Hc. apply orb_true_r.
      + right; left. exact He.
      + destruct Hp as [Hp|[j [ej [pcj [Hj Hpcj]]]]].
        * rewrite Hq, memN_cons in Hp. destruct (N.eqb_spec b b') as [->|Hn].
          -- assert (Hpc' : pc = 1 \/ pc = 2 \/ pc = 3) by (destruct Hpc; auto).
             destruct (HJ k c pc b' Hk Hpc') as [Hin|[Hc|He]].
             ++ left. apply closed_by_loop; exact Hin.
             ++ left. rewrite memn_app, Hc. apply orb_true_r.
             ++ right; left. exact He.
          -- right; right. left. cbn. exact Hp.
        * right; right. right. exists j, ej, pcj. split; [exact Hj|exact Hpcj].
    - intros k b Hin. cbn in Hin. destruct (HM k b Hin) as [c Hc]. exists c. exact Hc. }
  (* a thread step *)
  tstep_inv Hstep Hnth.
  - (* TSession b 0 : AllowIfNotDenied *)
    destruct (memN b (deny s)) eqn:Hden; inversion Hstep; subst s'; clear Hstep.
    + repeat split.
      * intros k c pc b0 Hk Hpc. rewrite (thr_put s s i _ k eq_refl) in Hk. destruct (Nat.eqb_spec i k); [unfold thr in Hk; rewrite Hnth in Hk; discriminate|]. exact (HJ k c pc b0 Hk Hpc).
      * intros k c pc b0 Hk Hpc Hd. rewrite (thr_put s s i _ k eq_refl) in Hk. destruct (Nat.eqb_spec i k); [unfold thr in Hk; rewrite Hnth in Hk; discriminate|].
        cbn in Hd. destruct (HI k c pc b0 Hk Hpc Hd) as [H|[H|H]]; [left; exact H|right; left; exact H|right; right].
        eapply (pending_put s s i); [reflexivity|exact Hnth|auto|intros e' pc' He; discriminate|exact H].
      * intros k b0 Hin. cbn in Hin. destruct (HM k b0 Hin) as [c Hc]. exists c. rewrite (thr_put s s i _ k eq_refl).
        destruct (Nat.eqb_spec i k) as [->|]; [unfold thr in Hc; rewrite Hnth in Hc; discriminate|exact Hc].
    + repeat split.
      * intros k c pc b0 Hk Hpc. rewrite (thr_put s (op_track s b) i _ k eq_refl) in Hk. destruct (Nat.eqb_spec i k); [unfold thr in Hk; rewrite Hnth in Hk; discriminate|]. exact (HJ k c pc b0 Hk Hpc).
      * intros k c pc b0 Hk Hpc Hd. rewrite (thr_put s (op_track s b) i _ k eq_refl) in Hk. destruct (Nat.eqb_spec i k); [unfold thr in Hk; rewrite Hnth in Hk; discriminate|].
        cbn in Hd. destruct (HI k c pc b0 Hk Hpc Hd) as [H|[H|H]]; [left; exact H|right; left; exact H|right; right].
        eapply (pending_put s (op_track s b) i); [reflexivity|exact Hnth|auto|intros e' pc' He; discriminate|exact H].
      * intros k b0 Hin. cbn in Hin. destruct (HM k b0 Hin) as [c Hc]. exists c. rewrite (thr_put s (op_track s b) i _ k eq_refl).
        destruct (Nat.eqb_spec i k) as [->|]; [unfold thr in Hc; rewrite Hnth in Hc; discriminate|exact Hc].
  - (* TSession b 1 : SubmitToken *)
    inversion Hstep; subst s'; clear Hstep. repeat split.
    + intros k c pc b0 Hk Hpc. rewrite (thr_put s (op_submit s b) i _ k eq_refl) in Hk. destruct (Nat.eqb_spec i k); [unfold thr in Hk; rewrite Hnth in Hk; discriminate|]. exact (HJ k c pc b0 Hk Hpc).
    + intros k c pc b0 Hk Hpc Hd. rewrite (thr_put s (op_submit s b) i _ k eq_refl) in Hk. destruct (Nat.eqb_spec i k); [unfold thr in Hk; rewrite Hnth in Hk; discriminate|].
      cbn in Hd. destruct (HI k c pc b0 Hk Hpc Hd) as [H|[H|H]]; [left; exact H|right; left; exact H|right; right].
      eapply (pending_put s (op_submit s b) i); [reflexivity|exact Hnth|auto|intros e' pc' He; discriminate|exact H].
    + intros k b0 Hin. cbn in Hin. destruct (HM k b0 Hin) as [c Hc]. exists c. rewrite (thr_put s (op_submit s b) i _ k eq_refl).
      destruct (Nat.eqb_spec i k) as [->|]; [unfold thr in Hc; rewrite Hnth in Hc; discriminate|exact Hc].
  - (* TDeny b 0 : Deny *)
    inversion Hstep; subst s'; clear Hstep. repeat split.
    + intros k c pc b0 Hk Hpc. rewrite (thr_put s (op_deny_until s b e) i _ k eq_refl) in Hk. destruct (Nat.eqb_spec i k); [unfold thr in Hk; rewrite Hnth in Hk; discriminate|]. exact (HJ k c pc b0 Hk Hpc).
    + intros k c pc b0 Hk Hpc Hd. rewrite (thr_put s (op_deny_until s b e) i _ k eq_refl) in Hk. destruct (Nat.eqb_spec i k) as [|Hik]; [unfold thr in Hk; rewrite Hnth in Hk; discriminate|].
      cbn in Hd. destruct (N.eq_dec b0 b) as [->|Hn].
      * right; right. right. exists i, e, 1. split; [|left; reflexivity].
        rewrite (thr_put s (op_deny_until s b e) i _ i eq_refl), Nat.eqb_refl. unfold thr. rewrite Hnth. reflexivity.
      * rewrite memN_cons in Hd. destruct (N.eqb_spec b0 b); [contradiction|]. cbn in Hd. rewrite memN_rm_other in Hd by exact Hn.
        destruct (HI k c pc b0 Hk Hpc Hd) as [H|[H|H]]; [left; exact H|right; left; exact H|right; right].
        eapply (pending_put s (op_deny_until s b e) i); [reflexivity|exact Hnth|auto| |exact H].
        intros e' pc' He Hp'. inversion He; subst. destruct Hp'; discriminate.
    + intros k b0 Hin. cbn in Hin. destruct (HM k b0 Hin) as [c Hc]. exists c. rewrite (thr_put s (op_deny_until s b e) i _ k eq_refl).
      destruct (Nat.eqb_spec i k) as [->|]; [unfold thr in Hc; rewrite Hnth in Hc; discriminate|exact Hc].
  - (* TDeny b 1 : purge *)
    inversion Hstep; subst s'; clear Hstep. repeat split.
    + intros k c pc b0 Hk Hpc. rewrite (thr_put s (op_purge s b) i _ k eq_refl) in Hk. destruct (Nat.eqb_spec i k); [unfold thr in Hk; rewrite Hnth in Hk; discriminate|]. exact (HJ k c pc b0 Hk Hpc).
    + intros k c pc b0 Hk Hpc Hd. rewrite (thr_put s (op_purge s b) i _ k eq_refl) in Hk. destruct (Nat.eqb_spec i k); [unfold thr in Hk; rewrite Hnth in Hk; discriminate|].
      cbn in Hd. destruct (HI k c pc b0 Hk Hpc Hd) as [H|[H|H]]; [left; exact H|right; left; exact H|right; right].
      eapply (pending_put s (op_purge s b) i); [reflexivity|exact Hnth|auto| |exact H].
      intros e' pc' He Hp'. inversion He; subst. left. exists 2. split; [reflexivity|right; reflexivity].
    + intros k b0 Hin. cbn in Hin. destruct (HM k b0 Hin) as [c Hc]. exists c. rewrite (thr_put s (op_purge s b) i _ k eq_refl).
      destruct (Nat.eqb_spec i k) as [->|]; [unfold thr in Hc; rewrite Hnth in Hc; discriminate|exact Hc].
  - (* TDeny b 2 : notify *)
    inversion Hstep; subst s'; clear Hstep. repeat split.
    + intros k c pc b0 Hk Hpc. rewrite (thr_put s (op_notify s b) i _ k eq_refl) in Hk. destruct (Nat.eqb_spec i k); [unfold thr in Hk; rewrite Hnth in Hk; discriminate|]. exact (HJ k c pc b0 Hk Hpc).
    + intros k c pc b0 Hk Hpc Hd. rewrite (thr_put s (op_notify s b) i _ k eq_refl) in Hk. destruct (Nat.eqb_spec i k); [unfold thr in Hk; rewrite Hnth in Hk; discriminate|].
      cbn in Hd. destruct (HI k c pc b0 Hk Hpc Hd) as [H|[H|H]]; [left; exact H|right; left; exact H|right; right].
      eapply (pending_put s (op_notify s b) i); [reflexivity|exact Hnth| | |exact H].
      * intros x Hx. cbn. rewrite memN_app, Hx. reflexivity.
      * intros e' pc' He Hp'. inversion He; subst. right. cbn. rewrite memN_app, memN_cons, N.eqb_refl. cbn. apply orb_true_r.
    + intros k b0 Hin. cbn in Hin. destruct (HM k b0 Hin) as [c Hc]. exists c. rewrite (thr_put s (op_notify s b) i _ k eq_refl).
      destruct (Nat.eqb_spec i k) as [->|]; [unfold thr in Hc; rewrite Hnth in Hc; discriminate|exact Hc].
  - (* TAllow b 0 *)
    inversion Hstep; subst s'; clear Hstep. repeat split.
    + intros k c pc b0 Hk Hpc. rewrite (thr_put s (op_allow s b) i _ k eq_refl) in Hk. destruct (Nat.eqb_spec i k); [unfold thr in Hk; rewrite Hnth in Hk; discriminate|]. exact (HJ k c pc b0 Hk Hpc).
    + intros k c pc b0 Hk Hpc Hd. rewrite (thr_put s (op_allow s b) i _ k eq_refl) in Hk. destruct (Nat.eqb_spec i k); [unfold thr in Hk; rewrite Hnth in Hk; discriminate|].
      cbn in Hd. destruct (N.eq_dec b0 b) as [->|Hn]; [rewrite memN_rm_same in Hd; discriminate|].
      rewrite memN_rm_other in Hd by exact Hn.
      destruct (HI k c pc b0 Hk Hpc Hd) as [H|[H|H]]; [left; exact H|right; left; exact H|right; right].
      eapply (pending_put s (op_allow s b) i); [reflexivity|exact Hnth|auto|intros e' pc' He; discriminate|exact H].
    + intros k b0 Hin. cbn in Hin. destruct (HM k b0 Hin) as [c Hc]. exists c. rewrite (thr_put s (op_allow s b) i _ k eq_refl).
      destruct (Nat.eqb_spec i k) as [->|]; [unfold thr in Hc; rewrite Hnth in Hc; discriminate|exact Hc].
  - (* TWs c 0 (tok = Some _, impossible initially but harmless) *)
    destruct (lookupc c (codes s)) as [b1|] eqn:Hl; inversion Hstep; subst s'; clear Hstep.
    + repeat split.
      * intros k c0 pc b0 Hk Hpc. rewrite (thr_put s (op_exchange_record s c i b1) i _ k eq_refl) in Hk.
        destruct (Nat.eqb_spec i k) as [->|Hik].
        -- unfold thr in Hk; rewrite Hnth in Hk. inversion Hk; subst. left. cbn. left. reflexivity.
        -- destruct (HJ k c0 pc b0 Hk Hpc) as [H|[H|H]]; [left; cbn; right; exact H|right; left; exact H|right; right; exact H].
      * intros k c0 pc b0 Hk Hpc Hd. rewrite (thr_put s (op_exchange_record s c i b1) i _ k eq_refl) in Hk.
        destruct (Nat.eqb_spec i k) as [->|Hik].
        -- unfold thr in Hk; rewrite Hnth in Hk. inversion Hk; subst. destruct Hpc; discriminate.
        -- cbn in Hd. destruct (HI k c0 pc b0 Hk Hpc Hd) as [H|[H|H]]; [left; exact H|right; left; exact H|right; right].
           eapply (pending_put s (op_exchange_record s c i b1) i); [reflexivity|exact Hnth|auto|intros e' pc' He; discriminate|exact H].
      * intros k b0 Hin. cbn in Hin. destruct (HM k b0 Hin) as [c0 Hc]. exists c0. rewrite (thr_put s (op_exchange_record s c i b1) i _ k eq_refl).
        destruct (Nat.eqb_spec i k) as [->|]; [unfold thr in Hc; rewrite Hnth in Hc; discriminate|exact Hc].
    + repeat split.
      * intros k c0 pc b0 Hk Hpc. rewrite (thr_put s s i _ k eq_refl) in Hk.
        destruct (Nat.eqb_spec i k) as [->|Hik]; [unfold thr in Hk; rewrite Hnth in Hk; discriminate|]. exact (HJ k c0 pc b0 Hk Hpc).
      * intros k c0 pc b0 Hk Hpc Hd. rewrite (thr_put s s i _ k eq_refl) in Hk.
        destruct (Nat.eqb_spec i k) as [->|Hik]; [unfold thr in Hk; rewrite Hnth in Hk; discriminate|].
        cbn in Hd. destruct (HI k c0 pc b0 Hk Hpc Hd) as [H|[H|H]]; [left; exact H|right; left; exact H|right; right].
        eapply (pending_put s s i); [reflexivity|exact Hnth|auto|intros e' pc' He; discriminate|exact H].
      * intros k b0 Hin. cbn in Hin. destruct (HM k b0 Hin) as [c0 Hc]. exists c0. rewrite (thr_put s s i _ k eq_refl).
        destruct (Nat.eqb_spec i k) as [->|]; [unfold thr in Hc; rewrite Hnth in Hc; discriminate|exact Hc].
  - (* TWs c 0 None : exchange + record *)
    destruct (lookupc c (codes s)) as [b1|] eqn:Hl; inversion Hstep; subst s'; clear Hstep.
    + repeat split.
      * intros k c0 pc b0 Hk Hpc. rewrite (thr_put s (op_exchange_record s c i b1) i _ k eq_refl) in Hk.
        destruct (Nat.eqb_spec i k) as [->|Hik].
        -- unfold thr in Hk; rewrite Hnth in Hk. inversion Hk; subst. left. cbn. left. reflexivity.
        -- destruct (HJ k c0 pc b0 Hk Hpc) as [H|[H|H]]; [left; cbn; right; exact H|right; left; exact H|right; right; exact H].
      * intros k c0 pc b0 Hk Hpc Hd. rewrite (thr_put s (op_exchange_record s c i b1) i _ k eq_refl) in Hk.
        destruct (Nat.eqb_spec i k) as [->|Hik].
        -- unfold thr in Hk; rewrite Hnth in Hk. inversion Hk; subst. destruct Hpc; discriminate.
        -- cbn in Hd. destruct (HI k c0 pc b0 Hk Hpc Hd) as [H|[H|H]]; [left; exact H|right; left; exact H|right; right].
           eapply (pending_put s (op_exchange_record s c i b1) i); [reflexivity|exact Hnth|auto|intros e' pc' He; discriminate|exact H].
      * intros k b0 Hin. cbn in Hin. destruct (HM k b0 Hin) as [c0 Hc]. exists c0. rewrite (thr_put s (op_exchange_record s c i b1) i _ k eq_refl).
        destruct (Nat.eqb_spec i k) as [->|]; [unfold thr in Hc; rewrite Hnth in Hc; discriminate|exact Hc].
    + repeat split.
      * intros k c0 pc b0 Hk Hpc. rewrite (thr_put s s i _ k eq_refl) in Hk.
        destruct (Nat.eqb_spec i k) as [->|Hik]; [unfold thr in Hk; rewrite Hnth in Hk; discriminate|]. exact (HJ k c0 pc b0 Hk Hpc).
      * intros k c0 pc b0 Hk Hpc Hd. rewrite (thr_put s s i _ k eq_refl) in Hk.
        destruct (Nat.eqb_spec i k) as [->|Hik]; [unfold thr in Hk; rewrite Hnth in Hk; discriminate|].
        cbn in Hd. destruct (HI k c0 pc b0 Hk Hpc Hd) as [H|[H|H]]; [left; exact H|right; left; exact H|right; right].
        eapply (pending_put s s i); [reflexivity|exact Hnth|auto|intros e' pc' He; discriminate|exact H].
      * intros k b0 Hin. cbn in Hin. destruct (HM k b0 Hin) as [c0 Hc]. exists c0. rewrite (thr_put s s i _ k eq_refl).
        destruct (Nat.eqb_spec i k) as [->|]; [unfold thr in Hc; rewrite Hnth in Hc; discriminate|exact Hc].
  - (* TWs c 1 (Some b) : IsDenied re-check *)
    destruct (memN b (deny s)) eqn:Hden; inversion Hstep; subst s'; clear Hstep.
    + repeat split.
      * intros k c0 pc b0 Hk Hpc. rewrite (thr_put s (op_delchild s i) i _ k eq_refl) in Hk.
        destruct (Nat.eqb_spec i k) as [->|Hik].
        -- unfold thr in Hk; rewrite Hnth in Hk. inversion Hk; subst. destruct Hpc as [|[|]]; discriminate.
        -- destruct (HJ k c0 pc b0 Hk Hpc) as [H|[H|H]]; [left; cbn; apply kept_by_delchild; [exact H|congruence]|right; left; exact H|right; right; exact H].
      * intros k c0 pc b0 Hk Hpc Hd. rewrite (thr_put s (op_delchild s i) i _ k eq_refl) in Hk.
        destruct (Nat.eqb_spec i k) as [->|Hik].
        -- unfold thr in Hk; rewrite Hnth in Hk. inversion Hk; subst. destruct Hpc; discriminate.
        -- cbn in Hd. destruct (HI k c0 pc b0 Hk Hpc Hd) as [H|[H|H]]; [left; exact H|right; left; exact H|right; right].
           eapply (pending_put s (op_delchild s i) i); [reflexivity|exact Hnth|auto|intros e' pc' He; discriminate|exact H].
      * intros k b0 Hin. cbn in Hin. destruct (HM k b0 Hin) as [c0 Hc]. exists c0. rewrite (thr_put s (op_delchild s i) i _ k eq_refl).
        destruct (Nat.eqb_spec i k) as [->|]; [unfold thr in Hc; rewrite Hnth in Hc; discriminate|exact Hc].
    + repeat split.
      * intros k c0 pc b0 Hk Hpc. rewrite (thr_put s s i _ k eq_refl) in Hk.
        destruct (Nat.eqb_spec i k) as [->|Hik].
        -- unfold thr in Hk; rewrite Hnth in Hk. inversion Hk; subst.
           eapply HJ; [unfold thr; exact Hnth|left; reflexivity].
        -- exact (HJ k c0 pc b0 Hk Hpc).
      * intros k c0 pc b0 Hk Hpc Hd. rewrite (thr_put s s i _ k eq_refl) in Hk.
        destruct (Nat.eqb_spec i k) as [->|Hik].
        -- unfold thr in Hk; rewrite Hnth in Hk. inversion Hk; subst. cbn in Hd. congruence.
        -- cbn in Hd. destruct (HI k c0 pc b0 Hk Hpc Hd) as [H|[H|H]]; [left; exact H|right; left; exact H|right; right].
           eapply (pending_put s s i); [reflexivity|exact Hnth|auto|intros e' pc' He; discriminate|exact H].
      * intros k b0 Hin. cbn in Hin. destruct (HM k b0 Hin) as [c0 Hc]. exists c0. rewrite (thr_put s s i _ k eq_refl).
        destruct (Nat.eqb_spec i k) as [->|]; [unfold thr in Hc; rewrite Hnth in Hc; discriminate|exact Hc].
  - (* TWs c 2 (Some b) : register *)
    inversion Hstep; subst s'; clear Hstep. repeat split.
    + intros k c0 pc b0 Hk Hpc. rewrite (thr_put s (op_register s i b) i _ k eq_refl) in Hk.
      destruct (Nat.eqb_spec i k) as [->|Hik].
      * unfold thr in Hk; rewrite Hnth in Hk. inversion Hk; subst.
        eapply HJ; [unfold thr; exact Hnth|right; left; reflexivity].
      * exact (HJ k c0 pc b0 Hk Hpc).
    + intros k c0 pc b0 Hk Hpc Hd. rewrite (thr_put s (op_register s i b) i _ k eq_refl) in Hk.
      destruct (Nat.eqb_spec i k) as [->|Hik].
      * unfold thr in Hk; rewrite Hnth in Hk. inversion Hk; subst. cbn in Hd.
        edestruct HI as [H|[H|H]]; [unfold thr; exact Hnth|left; reflexivity|exact Hd|left; exact H|right; left; exact H|right; right].
        eapply (pending_put s (op_register s k b0) k); [reflexivity|exact Hnth|auto|intros e' pc' He; discriminate|exact H].
      * cbn in Hd. destruct (HI k c0 pc b0 Hk Hpc Hd) as [H|[H|H]]; [left; exact H|right; left; exact H|right; right].
        eapply (pending_put s (op_register s i b) i); [reflexivity|exact Hnth|auto|intros e' pc' He; discriminate|exact H].
    + intros k b0 Hin. cbn in Hin. rewrite (thr_put s (op_register s i b) i _ k eq_refl).
      destruct Hin as [Heq|Hin].
      * inversion Heq; subst. rewrite Nat.eqb_refl. unfold thr. rewrite Hnth. exists c. reflexivity.
      * destruct (HM k b0 Hin) as [c0 Hc]. exists c0.
        destruct (Nat.eqb_spec i k) as [->|]; [unfold thr in Hc; rewrite Hnth in Hc; discriminate|exact Hc].
  - (* TLeave k0 0 : the client goes away *)
    inversion Hstep; subst s'; clear Hstep. repeat split.
    + intros k c0 pc b0 Hk Hpc. rewrite (thr_put s (op_drop s k0) i _ k eq_refl) in Hk.
      destruct (Nat.eqb_spec i k) as [->|Hik]; [unfold thr in Hk; rewrite Hnth in Hk; discriminate|].
      destruct (Nat.eq_dec k k0) as [->|Hk0].
      * right; right. cbn. rewrite memn_cons, Nat.eqb_refl. reflexivity.
      * destruct (HJ k c0 pc b0 Hk Hpc) as [H|[H|H]]; [left; cbn; apply kept_by_delchild; assumption|right; left; exact H|right; right; cbn; rewrite memn_cons, H; apply orb_true_r].
    + intros k c0 pc b0 Hk Hpc Hd. rewrite (thr_put s (op_drop s k0) i _ k eq_refl) in Hk.
      destruct (Nat.eqb_spec i k) as [->|Hik]; [unfold thr in Hk; rewrite Hnth in Hk; discriminate|].
      cbn in Hd. destruct (HI k c0 pc b0 Hk Hpc Hd) as [H|[H|H]]; [left; exact H|right; left; cbn; rewrite memn_cons, H; apply orb_true_r|right; right].
      eapply (pending_put s (op_drop s k0) i); [reflexivity|exact Hnth|auto|intros e' pc' He; discriminate|exact H].
    + intros k b0 Hin. cbn in Hin. apply filter_In in Hin. destruct Hin as [Hin _].
      destruct (HM k b0 Hin) as [c0 Hc]. exists c0. rewrite (thr_put s (op_drop s k0) i _ k eq_refl).
      destruct (Nat.eqb_spec i k) as [->|]; [unfold thr in Hc; rewrite Hnth in Hc; discriminate|exact Hc].
  - (* TPrune tm 0 : DenyStore.Prune at clock tm - the deny list only shrinks *)
    inversion Hstep; subst s'; clear Hstep. repeat split.
    + intros k c0 pc b0 Hk Hpc. rewrite (thr_put s (op_prune s tm) i _ k eq_refl) in Hk.
      destruct (Nat.eqb_spec i k) as [->|Hik]; [unfold thr in Hk; rewrite Hnth in Hk; discriminate|]. exact (HJ k c0 pc b0 Hk Hpc).
    + intros k c0 pc b0 Hk Hpc Hd. rewrite (thr_put s (op_prune s tm) i _ k eq_refl) in Hk.
      destruct (Nat.eqb_spec i k) as [->|Hik]; [unfold thr in Hk; rewrite Hnth in Hk; discriminate|].
      cbn in Hd. apply memN_filter_sub in Hd.
      destruct (HI k c0 pc b0 Hk Hpc Hd) as [H|[H|H]]; [left; exact H|right; left; exact H|right; right].
      eapply (pending_put s (op_prune s tm) i); [reflexivity|exact Hnth|auto|intros e' pc' He; discriminate|exact H].
    + intros k b0 Hin. cbn in Hin. destruct (HM k b0 Hin) as [c0 Hc]. exists c0. rewrite (thr_put s (op_prune s tm) i _ k eq_refl).
      destruct (Nat.eqb_spec i k) as [->|]; [unfold thr in Hc; rewrite Hnth in Hc; discriminate|exact Hc].
Qed.

Lemma run_inv sched : forall s, Inv s -> Inv (run sched s).
Proof.
  induction sched as [|w r IH]; intros s H; cbn; [exact H|].
  destruct (step s w) as [s'|] eqn:E; [apply IH; eapply step_inv; eassumption|apply IH; exact H].
Qed.

(* ---- the property ---- *)

(* at quiescence, no connection of a denied booking is live: for every schedule, any number of threads *)
Theorem deny_closes_all ts cs n sched b k :
  Forall initial_thread ts ->
  let s := run sched (init ts cs n) in
  quiescent s = true -> memN b (deny s) = true -> live s k b = false.
Proof.
  intros Hall s Hq Hd. destruct (live s k b) eqn:Hl; [|reflexivity]. exfalso.
  assert (HInv : Inv s) by (apply run_inv, inv_init; exact Hall). destruct HInv as (HJ & HI & HM).
  unfold live in Hl. apply andb_true_iff in Hl. destruct Hl as [Hl He]. apply andb_true_iff in Hl. destruct Hl as [Hm Hc].
  apply existsb_exists in Hm. destruct Hm as [[k' b'] [Hin Hkb]]. cbn in Hkb. apply andb_true_iff in Hkb. destruct Hkb as [Hk Hb].
  apply Nat.eqb_eq in Hk. apply N.eqb_eq in Hb. subst k' b'.
  destruct (HM k b Hin) as [c Hc3].
  destruct (HI k c 3 b Hc3 (or_intror eq_refl) Hd) as [H|[H|H]].
  - rewrite H in Hc. discriminate.
  - rewrite H in He. discriminate.
  - unfold quiescent in Hq. apply andb_true_iff in Hq. destruct Hq as [Hf Hq0].
    destruct H as [H|[j [ej [pc [Hj Hpc]]]]].
    + destruct (q s); [cbn in H; discriminate|discriminate].
    + rewrite forallb_forall in Hf. unfold thr in Hj. apply nth_error_In in Hj. specialize (Hf _ Hj). cbn in Hf.
      destruct Hpc; subst pc; discriminate.
Qed.

Lemma memN_filter_keep x f l : memN x l = true -> f x = true -> memN x (filter f l) = true.
Proof.
  unfold memN. rewrite !existsb_exists. intros [y [Hy He]] Hf. apply N.eqb_eq in He. subst y.
  exists x. split; [apply filter_In; split; assumption|apply N.eqb_refl].
Qed.

(* a deny entry leaves the list only through an explicit allow request for that booking, or through a
   prune tick whose clock is past an expiry recorded for that booking *)
Theorem deny_sticks s w s' b :
  step s w = Some s' -> memN b (deny s) = true -> memN b (deny s') = false ->
  exists i, w = T i /\ (thr s i = Some (TAllow b 0) \/ exists t, thr s i = Some (TPrune t 0) /\ expired_at s t b = true).
Proof.
  intros Hstep Hd Hd'. destruct w as [i|]; cbn [step] in Hstep.
  2:{ unfold denyloop in Hstep. destruct (q s); [discriminate|]. inversion Hstep; subst s'. cbn in Hd'. congruence. }
  exists i. split; [reflexivity|].
  tstep_inv Hstep Hnth.
  - destruct (memN b0 (deny s)); inversion Hstep; subst s'; cbn in Hd'; congruence.
  - inversion Hstep; subst s'; cbn in Hd'; congruence.
  - inversion Hstep; subst s'; cbn in Hd'. rewrite memN_cons in Hd'. destruct (N.eqb_spec b b0); [cbn in Hd'; discriminate|].
    cbn in Hd'. rewrite memN_rm_other in Hd' by assumption. congruence.
  - inversion Hstep; subst s'; cbn in Hd'; congruence.
  - inversion Hstep; subst s'; cbn in Hd'; congruence.
  - inversion Hstep; subst s'; cbn in Hd'. destruct (N.eq_dec b b0) as [->|Hn]; [left; unfold thr; exact Hnth|].
    rewrite memN_rm_other in Hd' by assumption. congruence.
  - destruct (lookupc c (codes s)); inversion Hstep; subst s'; cbn in Hd'; congruence.
  - destruct (lookupc c (codes s)); inversion Hstep; subst s'; cbn in Hd'; congruence.
  - destruct (memN b0 (deny s)); inversion Hstep; subst s'; cbn in Hd'; congruence.
  - inversion Hstep; subst s'; cbn in Hd'; congruence.
  - inversion Hstep; subst s'; cbn in Hd'; congruence.
  - inversion Hstep; subst s'; cbn in Hd'. right. exists tm. split; [unfold thr; exact Hnth|].
    destruct (expired_at s tm b) eqn:Ex; [reflexivity|].
    rewrite (memN_filter_keep b (fun b1 => negb (expired_at s tm b1)) (deny s) Hd) in Hd' by (rewrite Ex; reflexivity).
    discriminate.
Qed.

(* the expiry table has one entry per booking: the one stated by its latest deny request *)
Definition InvK (s : sys) : Prop := NoDup (map fst (dexp s)).

Lemma rmE_not_in b l : ~ In b (map fst (rmE b l)).
Proof.
  unfold rmE. intros H. apply in_map_iff in H. destruct H as [[b' e] [Hb Hin]]. cbn in Hb. subst b'.
  apply filter_In in Hin. destruct Hin as [_ Hf]. cbn in Hf. rewrite N.eqb_refl in Hf. discriminate.
Qed.

Lemma nodup_filter_fst {A B} (f : A * B -> bool) (l : list (A * B)) : NoDup (map fst l) -> NoDup (map fst (filter f l)).
Proof.
  induction l as [|x l IH]; cbn; intros H; [constructor|].
  inversion H as [|? ? Hn Hr]; subst. destruct (f x); cbn; [|apply IH; exact Hr].
  constructor; [|apply IH; exact Hr]. intros Hin. apply Hn. apply in_map_iff in Hin. destruct Hin as [y [Hy Hin]].
  apply filter_In in Hin. apply in_map_iff. exists y. split; [exact Hy|apply Hin].
Qed.

Lemma step_invK s w s' : InvK s -> step s w = Some s' -> InvK s'.
Proof.
  unfold InvK. intros HK Hstep. destruct w as [i|]; cbn [step] in Hstep.
  2:{ unfold denyloop in Hstep. destruct (q s); [discriminate|]. inversion Hstep; subst s'. exact HK. }
  tstep_inv Hstep Hnth;
    try (destruct (memN b (deny s))); try (destruct (lookupc c (codes s)));
    inversion Hstep; subst s'; cbn; try exact HK.
  all: try (constructor; [apply rmE_not_in|unfold rmE; apply nodup_filter_fst; exact HK]).
  all: apply nodup_filter_fst; exact HK.
Qed.

Lemma run_invK sched : forall s, InvK s -> InvK (run sched s).
Proof.
  induction sched as [|w r IH]; intros s H; cbn; [exact H|].
  destruct (step s w) as [s'|] eqn:E; [apply IH; eapply step_invK; eassumption|apply IH; exact H].
Qed.

(* the deny step records exactly the expiry the request stated *)
Theorem deny_records_its_expiry s i b e :
  thr s i = Some (TDeny b e 0) ->
  exists s', tstep s i = Some s' /\ memN b (deny s') = true /\ In (b, e) (dexp s') /\ (forall e', In (b, e') (dexp s') -> e' = e).
Proof.
  intros Hi. unfold tstep. unfold thr in Hi. rewrite Hi. eexists. split; [reflexivity|]. cbn. repeat split.
  - rewrite memN_cons, N.eqb_refl. reflexivity.
  - left. reflexivity.
  - intros e' [H|H]; [inversion H; reflexivity|]. exfalso. apply (rmE_not_in b (dexp s)). apply in_map_iff. exists (b, e'). split; [reflexivity|exact H].
Qed.

(* "... until an explicit allow or the expiry given in the deny request": in every reachable state, a
   booking denied with recorded expiry e stops being denied only by an explicit allow request for it, or
   by a prune tick whose clock t is past e *)
Theorem deny_holds_until_allow_or_expiry ts cs n sched w s' b e :
  let s := run sched (init ts cs n) in
  step s w = Some s' -> memN b (deny s) = true -> In (b, e) (dexp s) -> memN b (deny s') = false ->
  exists i, w = T i /\ (thr s i = Some (TAllow b 0) \/ exists t, thr s i = Some (TPrune t 0) /\ (e < t)%Z).
Proof.
  intros s Hstep Hd He Hd'.
  assert (HK : InvK s) by (apply run_invK; unfold InvK; cbn; constructor).
  destruct (deny_sticks s w s' b Hstep Hd Hd') as [i [Hw [Ha|[t [Ht Hex]]]]]; exists i; (split; [exact Hw|]); [left; exact Ha|].
  right. exists t. split; [exact Ht|].
  unfold expired_at in Hex. apply existsb_exists in Hex. destruct Hex as [[b' e'] [Hin Hc]]. cbn in Hc.
  apply andb_true_iff in Hc. destruct Hc as [Hb Hlt]. apply N.eqb_eq in Hb. subst b'.
  assert (e' = e).
  { unfold InvK in HK. clear - HK Hin He. induction (dexp s) as [|[b1 e1] l IH]; [contradiction|].
    cbn in HK. inversion HK as [|? ? Hn Hr]; subst.
    destruct Hin as [Hin|Hin], He as [He|He].
    - congruence.
    - inversion Hin; subst. exfalso. apply Hn. apply in_map_iff. exists (b, e). split; [reflexivity|exact He].
    - inversion He; subst. exfalso. apply Hn. apply in_map_iff. exists (b, e'). split; [reflexivity|exact Hin].
    - apply IH; assumption. }
  subst e'. apply Z.ltb_lt in Hlt. exact Hlt.
Qed.

(* a session request whose check sees the deny entry is refused: 400, no code, nothing changes *)
Theorem deny_refuses_new s i b st :
  thr s i = Some (TSession b 0 st) -> memN b (deny s) = true ->
  tstep s i = Some (with_threads s (upd (threads s) i (TSession b 2 400))).
Proof. intros Hi Hd. unfold tstep. unfold thr in Hi. rewrite Hi, Hd. reflexivity. Qed.

(* a code presented while its booking is denied joins nothing (and its channel entry is dropped again) *)
Theorem denied_code_joins_nothing s i c b :
  thr s i = Some (TWs c 1 (Some b)) -> memN b (deny s) = true ->
  tstep s i = Some (with_threads (op_delchild s i) (upd (threads s) i (TWs c 9 (Some b)))).
Proof. intros Hi Hd. unfold tstep. unfold thr in Hi. rewrite Hi, Hd. reflexivity. Qed.

(* which booking a thread acts on in state s *)
Definition acts_on (s : sys) (t : thread) : option N :=
  match t with
  | TSession b _ _ | TDeny b _ _ | TAllow b _ => Some b
  | TWs c 0 _ => lookupc c (codes s)
  | TWs _ _ tok => tok
  | TLeave k _ => match nth_error (threads s) k with Some (TWs _ _ tok) => tok | _ => None end
  | TPrune _ _ => None
  end.

Definition codes_of (s : sys) (b : N) := filter (fun cb => N.eqb (snd cb) b) (codes s).
Definition chans_of (s : sys) (b : N) := filter (fun kb => N.eqb (snd kb) b) (chm s).

Lemma filter_filter_comm {A} (f g : A -> bool) l : filter f (filter g l) = filter g (filter f l).
Proof.
  induction l as [|x l IH]; cbn; [reflexivity|].
  destruct (f x) eqn:Ef, (g x) eqn:Eg; cbn; rewrite ?Ef, ?Eg, IH; reflexivity.
Qed.

Lemma filter_other {A} (f g : A -> bool) l :
  (forall x, In x l -> f x = true -> g x = true) -> filter f (filter g l) = filter f l.
Proof.
  intros H. induction l as [|x l IH]; cbn; [reflexivity|].
  assert (IH' : filter f (filter g l) = filter f l) by (apply IH; intros y Hy; apply H; right; exact Hy).
  destruct (g x) eqn:Eg; cbn.
  - rewrite IH'. reflexivity.
  - destruct (f x) eqn:Ef; [rewrite (H x (or_introl eq_refl) Ef) in Eg; discriminate|exact IH'].
Qed.

(* frame: a step of the deny / allow / session handlers for booking b leaves every other booking's
   deny and allow status, codes and recorded channels unchanged, and closes nothing *)
Theorem other_bookings_untouched s i s' t b b' :
  thr s i = Some t -> tstep s i = Some s' ->
  match t with TSession x _ _ | TDeny x _ _ | TAllow x _ => x = b | _ => False end -> b' <> b ->
  memN b' (deny s') = memN b' (deny s) /\ memN b' (allow s') = memN b' (allow s) /\
  codes_of s' b' = codes_of s b' /\ chans_of s' b' = chans_of s b' /\ closed s' = closed s /\ members s' = members s.
Proof.
  intros Hi Hstep Hb Hn. unfold thr in Hi.
  tstep_inv Hstep Hnth; inversion Hi; subst t; cbn in Hb; try contradiction; subst b0.
  - destruct (memN b (deny s)); inversion Hstep; subst s'; cbn; repeat split; try reflexivity.
    rewrite memN_cons. destruct (N.eqb_spec b' b); [contradiction|]. cbn. apply memN_rm_other; exact Hn.
  - inversion Hstep; subst s'; cbn; repeat split; try reflexivity.
    unfold codes_of; cbn. destruct (N.eqb_spec b b'); [congruence|reflexivity].
  - inversion Hstep; subst s'; cbn; repeat split; try reflexivity.
    + rewrite memN_cons. destruct (N.eqb_spec b' b); [contradiction|]. cbn. apply memN_rm_other; exact Hn.
    + apply memN_rm_other; exact Hn.
  - inversion Hstep; subst s'; cbn; repeat split; try reflexivity.
    unfold codes_of; cbn. apply filter_other. intros [c0 b0] _ Hf. cbn in *. apply N.eqb_eq in Hf. subst b0.
    destruct (N.eqb_spec b' b); [contradiction|reflexivity].
  - inversion Hstep; subst s'; cbn; repeat split; reflexivity.
  - inversion Hstep; subst s'; cbn; repeat split; try reflexivity.
    + apply memN_rm_other; exact Hn.
    + rewrite memN_cons. destruct (N.eqb_spec b' b); [contradiction|]. cbn. apply memN_rm_other; exact Hn.
Qed.

(* the deny loop closes only channels of the booking it was notified about *)
Theorem loop_closes_only_its_booking s s' b r k :
  q s = b :: r -> denyloop s = Some s' -> memn k (closed s') = true -> memn k (closed s) = false ->
  In (k, b) (chm s).
Proof.
  intros Hq Hl Hc' Hc. unfold denyloop in Hl. rewrite Hq in Hl. inversion Hl; subst s'. cbn in Hc'.
  rewrite memn_app, Hc, orb_false_r in Hc'. apply memn_in in Hc'. apply in_map_iff in Hc'.
  destruct Hc' as [[k' b'] [Hk Hin]]. cbn in Hk. subst k'. apply filter_In in Hin. destruct Hin as [Hin Hb].
  cbn in Hb. apply N.eqb_eq in Hb. subst b'. exact Hin.
Qed.
