(* Lemmas about Model/Reconws.v: the backoff arithmetic, the two reconnect loops for every
   schedule of server behaviours and every cancellation point, and the FIFO pumps of Dial. *)
From Relay Require Import Base.Prelude Model.Reconws.
Local Open Scope Z_scope.

(* ------------------------------------------------------------------ backoff arithmetic *)

Lemma f64_small x : 0 < x < 2 ^ 53 -> f64_of_Z x = x.
Proof.
  intros [Hp Hlt]. unfold f64_of_Z.
  assert (Hl : Z.log2 x < 53) by (apply Z.log2_lt_pow2; lia).
  destruct (Z.log2 x + 1 <=? 53) eqn:E; [reflexivity | lia].
Qed.

(* the configurations the theorems speak about: Min below 2^53 ns (104 days), Min < Max,
   Max at most 2^63-1024 ns (292 years), Factor 2 *)
Definition good_cfg (c : cfg) : Prop :=
  0 < cmin c < 2 ^ 53 /\ cmin c < cmax c <= max_int64_f /\ cfactor c = 2.

Lemma pow2_ge1 (n : nat) : 1 <= 2 ^ Z.of_nat n.
Proof. assert (0 < 2 ^ Z.of_nat n) by (apply Z.pow_pos_nonneg; lia). lia. Qed.

Lemma pow2_mono (n m : nat) : (n <= m)%nat -> 2 ^ Z.of_nat n <= 2 ^ Z.of_nat m.
Proof. intros H. apply Z.pow_le_mono_r; lia. Qed.

Lemma dur_good c n : good_cfg c -> dur c n = Z.min (cmax c) (cmin c * 2 ^ Z.of_nat n).
Proof.
  intros [[Hm0 Hm53] [[Hlt Hmax] Hf]]. unfold dur, backoff_dur, backoff_clamp, eff_min, eff_max. rewrite Hf.
  destruct (cmin c <=? 0) eqn:E1; [lia|].
  destruct (cmax c <=? 0) eqn:E2; [lia|].
  destruct (cmax c <=? cmin c) eqn:E3; [lia|].
  change (2 <=? 0) with false. cbv iota.
  rewrite f64_small by lia.
  pose proof (pow2_ge1 n) as Hp.
  assert (Hge : cmin c <= cmin c * 2 ^ Z.of_nat n) by nia.
  destruct (max_int64_f <? cmin c * 2 ^ Z.of_nat n) eqn:E4; [lia|].
  destruct (cmin c * 2 ^ Z.of_nat n <? cmin c) eqn:E5; [lia|].
  destruct (cmax c <? cmin c * 2 ^ Z.of_nat n) eqn:E6; lia.
Qed.

Lemma dur_first c : good_cfg c -> dur c 0 = cmin c.
Proof.
  intros H. rewrite dur_good by assumption. destruct H as [? [[? ?] ?]].
  change (2 ^ Z.of_nat 0) with 1. lia.
Qed.

Lemma dur_mono c n m : good_cfg c -> (n <= m)%nat -> dur c n <= dur c m.
Proof.
  intros H Hnm. rewrite !dur_good by assumption. destruct H as [[? ?] _].
  pose proof (pow2_mono n m Hnm). pose proof (pow2_ge1 n). nia.
Qed.

Lemma dur_bounds c n : good_cfg c -> cmin c <= dur c n <= cmax c.
Proof.
  intros H. rewrite dur_good by assumption. destruct H as [[? ?] [[? ?] _]].
  pose proof (pow2_ge1 n). nia.
Qed.

(* once Min*2^n has reached Max the wait IS Max - for every n, however long the outage (the
   arithmetic is unbounded: no n at which the product wraps and the wait falls back) *)
Lemma dur_at_cap c n : good_cfg c -> cmax c <= cmin c * 2 ^ Z.of_nat n -> dur c n = cmax c.
Proof. intros H Hle. rewrite dur_good by assumption. lia. Qed.

Lemma dur_cap_is_kept c n m : good_cfg c -> (n <= m)%nat -> dur c n = cmax c -> dur c m = cmax c.
Proof.
  intros H Hnm Hn. pose proof (dur_mono c n m H Hnm). pose proof (dur_bounds c m H). lia.
Qed.

Lemma dur_doubles c n : good_cfg c -> cmin c * 2 ^ Z.of_nat n <= cmax c -> dur c n = cmin c * 2 ^ Z.of_nat n.
Proof. intros H Hle. rewrite dur_good by assumption. lia. Qed.

(* the cap is reached and kept *)
Lemma dur_reaches_cap c : good_cfg c -> forall n, (Z.to_nat (Z.log2_up (cmax c)) <= n)%nat -> dur c n = cmax c.
Proof.
  intros H n Hn. rewrite dur_good by assumption. destruct H as [[? ?] [[? ?] _]].
  assert (Hl : cmax c <= 2 ^ Z.log2_up (cmax c)) by (apply Z.log2_up_spec; lia).
  assert (Hp : 2 ^ Z.log2_up (cmax c) <= 2 ^ Z.of_nat n).
  { apply Z.pow_le_mono_r; [lia|]. pose proof (Z.log2_up_nonneg (cmax c)). lia. }
  nia.
Qed.

(* for EVERY configuration (defaults, rounding of huge Min, any factor) a wait stays within the
   effective bounds *)
Lemma backoff_clamp_bounds mn' mx' d : mn' <= mx' -> mn' <= backoff_clamp mn' mx' d <= mx'.
Proof.
  intros H. unfold backoff_clamp.
  destruct (max_int64_f <? d); [lia|].
  destruct (d <? mn') eqn:E1; [lia|].
  destruct (mx' <? d) eqn:E2; lia.
Qed.

Lemma backoff_dur_bounds mn mx f n :
  let mn' := if mn <=? 0 then default_min else mn in
  let mx' := if mx <=? 0 then default_max else mx in
  Z.min mn' mx' <= backoff_dur mn mx f n <= mx'.
Proof.
  cbv zeta. unfold backoff_dur. fold (eff_min mn) (eff_max mx).
  destruct (eff_max mx <=? eff_min mn) eqn:E; [lia|].
  pose proof (backoff_clamp_bounds (eff_min mn) (eff_max mx)
                (f64_of_Z (eff_min mn) * (if f <=? 0 then 2 else f) ^ Z.of_nat n) ltac:(lia)). lia.
Qed.

(* with Jitter the wait is random, but whatever the random product is, it is kept within the
   same bounds *)
Lemma jittered_wait_within_bounds mn mx d :
  Z.min (eff_min mn) (eff_max mx) <= backoff_dur_jitter mn mx d <= eff_max mx.
Proof.
  unfold backoff_dur_jitter.
  destruct (eff_max mx <=? eff_min mn) eqn:E; [lia|].
  pose proof (backoff_clamp_bounds (eff_min mn) (eff_max mx) d ltac:(lia)). lia.
Qed.

(* the Backoff object: the k-th Duration() after a Reset (or from new) is ForAttempt(k) *)
Lemma boff_run_durations c a k :
  boff_run c a (repeat BDuration k) = map (fun j => dur c (a + j)) (seq 0 k).
Proof.
  revert a; induction k as [|k IH]; intros a; [reflexivity|].
  cbn [repeat boff_run seq map]. rewrite Nat.add_0_r. f_equal.
  rewrite IH. rewrite <- seq_shift, map_map. apply map_ext. intros j. f_equal. lia.
Qed.

Lemma boff_run_app c a xs ys :
  boff_run c a (xs ++ ys) =
  boff_run c a xs ++ boff_run c (fold_left (fun a o => match o with BDuration => S a | BReset => 0%nat end) xs a) ys.
Proof.
  revert a; induction xs as [|x xs IH]; intros a; [reflexivity|].
  destruct x; cbn [app boff_run fold_left]; rewrite IH; reflexivity.
Qed.

(* ------------------------------------------------------------------ the loops, no cancellation *)

(* the specification of both loops: after t consecutive failures the next attempt is preceded by
   wait_after t, every scheduled behaviour is attempted, a success zeroes the count; a connection
   that the server keeps open is where the run rests (the client stays connected) *)
Fixpoint spec (l : loopk) (c : cfg) (t : nat) (sch : list sbeh) : list event :=
  match sch with
  | [] => []
  | ab :: r => mkev (wait_after c t) (outcome_of l ab)
               :: (if keeps l ab then [] else spec l c (if fails l ab then S t else 0%nat) r)
  end.

(* how the concrete state encodes "t consecutive failures so far" *)
Definition inv (l : loopk) (c : cfg) (t : nat) (s : st) (carry : Z) : Prop :=
  cancelled s = false /\
  match l with
  | LPlain => attempt s = t /\ carry = wait_after c t
  | LAuth => match t with
             | O => wait s = false /\ attempt s = 0%nat
             | S j => wait s = true /\ attempt s = j
             end
  end.

Lemma inv_init l c : inv l c 0 init 0.
Proof. destruct l; unfold inv, init; cbn; repeat split; reflexivity. Qed.

Lemma phase_here_none i : phase_here None i = None.
Proof. reflexivity. Qed.

Lemma run_spec l c sch : forall i t s carry,
  inv l c t s carry -> run l c i s carry sch None = spec l c t sch.
Proof.
  induction sch as [|[a b] r IH]; intros i t s carry [Hc Hi]; [reflexivity|].
  cbn [run spec]. rewrite phase_here_none. cbn [seen_at_head blocked]. rewrite Hc.
  destruct l.
  - (* Reconnect *)
    destruct Hi as [Ha Hcarry]. cbn [snd iter_plain].
    unfold fails, outcome_of. cbn [snd].
    destruct (is_success (dial_outcome b None)) eqn:Es; cbn [negb app]; subst carry; f_equal;
      destruct (keeps LPlain (a, b)); try reflexivity; apply IH; unfold inv; cbn; rewrite ?Ha; auto.
  - (* ReconnectAuth *)
    cbn [iter_auth]. unfold fails, outcome_of. cbn [fst snd].
    assert (Hw : (if wait s then dur c (attempt s) else 0) = wait_after c t).
    { destruct t; destruct Hi as [Hw Ha]; rewrite Hw; [reflexivity | rewrite Ha; reflexivity]. }
    assert (Hatt : (if wait s then S (attempt s) else attempt s) = t).
    { destruct t; destruct Hi as [Hw' Ha]; rewrite Hw'; lia. }
    destruct (access_result a) as [f|] eqn:Ea.
    + assert (Hf : is_success f = false) by (destruct a; inversion Ea; reflexivity).
      rewrite Hf. cbn [negb app]. rewrite Hw. f_equal.
      destruct (keeps LAuth (a, b)); [reflexivity|].
      apply IH. unfold inv; cbn. rewrite Hatt. auto.
    + destruct (is_success (dial_outcome b None)) eqn:Es; cbn [negb app]; rewrite Hw; f_equal;
        destruct (keeps LAuth (a, b)); try reflexivity; apply IH; unfold inv; cbn; rewrite ?Hatt; auto.
Qed.

Lemma client_spec l c sch : client l c sch None = spec l c 0 sch.
Proof. apply run_spec, inv_init. Qed.

Definition no_keep (l : loopk) (sch : list sbeh) : Prop := Forall (fun ab => keeps l ab = false) sch.

Lemma keeps_not_fails l ab : keeps l ab = true -> fails l ab = false.
Proof.
  destruct ab as [a b]. unfold keeps, fails, outcome_of. cbn [fst snd]. destruct l.
  - destruct b; cbn; congruence.
  - destruct (access_result a); [congruence|]. destruct b; cbn; congruence.
Qed.

Lemma fails_not_keeps l ab : fails l ab = true -> keeps l ab = false.
Proof. intros H. destruct (keeps l ab) eqn:E; [|reflexivity]. apply keeps_not_fails in E. congruence. Qed.

Lemma all_fail_no_keep l fs : Forall (fun ab => fails l ab = true) fs -> no_keep l fs.
Proof. induction 1; constructor; auto using fails_not_keeps. Qed.

Lemma spec_length l c sch : no_keep l sch -> forall t, length (spec l c t sch) = length sch.
Proof. induction 1 as [|ab r Hab _ IH]; intros t; cbn; [reflexivity | rewrite Hab, IH; reflexivity]. Qed.

Lemma spec_outcomes l c sch : no_keep l sch -> forall t, map ev_out (spec l c t sch) = map (outcome_of l) sch.
Proof. induction 1 as [|ab r Hab _ IH]; intros t; cbn; [reflexivity | rewrite Hab, IH; reflexivity]. Qed.

Definition trail (l : loopk) (t : nat) (pre : list sbeh) : nat :=
  fold_left (fun t ab => if fails l ab then S t else 0%nat) pre t.

Lemma spec_app l c pre : no_keep l pre -> forall t post,
  spec l c t (pre ++ post) = spec l c t pre ++ spec l c (trail l t pre) post.
Proof.
  induction 1 as [|ab r Hab _ IH]; intros t post; [reflexivity|].
  cbn [app spec]. rewrite Hab, IH. reflexivity.
Qed.

Lemma spec_nth l c pre ab rest t : no_keep l pre ->
  nth_error (spec l c t (pre ++ ab :: rest)) (length pre) =
  Some (mkev (wait_after c (trail l t pre)) (outcome_of l ab)).
Proof.
  intros H. rewrite spec_app by assumption. rewrite nth_error_app2 by (rewrite spec_length by assumption; lia).
  rewrite spec_length by assumption. rewrite Nat.sub_diag. reflexivity.
Qed.

(* a connection the server keeps open is where the client rests: nothing scheduled after it is
   attempted while the context is live *)
Lemma kept_connection_rests l c pre ab rest : no_keep l pre -> keeps l ab = true ->
  client l c (pre ++ ab :: rest) None = client l c (pre ++ [ab]) None /\
  length (client l c (pre ++ ab :: rest) None) = S (length pre).
Proof.
  intros Hp Hk. rewrite !client_spec, !spec_app by assumption. cbn [spec]. rewrite Hk.
  split; [reflexivity|]. rewrite app_length, spec_length by assumption. cbn. lia.
Qed.

Lemma trail_app l t xs ys : trail l t (xs ++ ys) = trail l (trail l t xs) ys.
Proof. unfold trail. apply fold_left_app. Qed.

Lemma trail_all_fail l fs : Forall (fun ab => fails l ab = true) fs -> forall t, trail l t fs = (t + length fs)%nat.
Proof.
  induction 1 as [|ab r Hab _ IH]; intros t; cbn; [lia|].
  unfold trail in *. cbn [fold_left]. rewrite Hab, IH. lia.
Qed.

(* a prefix that is empty or ends with an established connection *)
Definition fresh (l : loopk) (pre : list sbeh) : Prop :=
  pre = [] \/ exists p ab, pre = p ++ [ab] /\ fails l ab = false.

Lemma trail_fresh l pre : fresh l pre -> trail l 0 pre = 0%nat.
Proof.
  intros [-> | [p [ab [-> Hs]]]]; [reflexivity|].
  rewrite trail_app. unfold trail at 1. cbn [fold_left]. rewrite Hs. reflexivity.
Qed.

Lemma trailing_failures_streak l pre fs :
  fresh l pre -> Forall (fun ab => fails l ab = true) fs ->
  trailing_failures l (pre ++ fs) = length fs.
Proof.
  intros Hp Hf. change (trail l 0 (pre ++ fs) = length fs).
  rewrite trail_app, trail_fresh by assumption. rewrite trail_all_fail by assumption. lia.
Qed.

(* every scheduled behaviour is attempted, whatever the failures before it *)
Lemma retries_forever l c sch : no_keep l sch ->
  length (client l c sch None) = length sch /\
  map ev_out (client l c sch None) = map (outcome_of l) sch.
Proof. intros H. rewrite client_spec. split; [apply spec_length | apply spec_outcomes]; assumption. Qed.

Lemma attempt_after_any_prefix l c pre ab rest : no_keep l pre ->
  exists e, nth_error (client l c (pre ++ ab :: rest) None) (length pre) = Some e /\
            ev_out e = outcome_of l ab /\
            ev_wait e = wait_after c (trailing_failures l pre).
Proof.
  intros H. rewrite client_spec, spec_nth by assumption. eexists; split; [reflexivity|]. split; reflexivity.
Qed.

(* after j consecutive failures (following a success or the start) the wait is min(Max, Min*2^(j-1)) *)
Lemma waits_grow_and_cap l c pre fs ab rest :
  good_cfg c -> no_keep l pre -> fresh l pre -> Forall (fun x => fails l x = true) fs ->
  exists e, nth_error (client l c (pre ++ fs ++ ab :: rest) None) (length pre + length fs) = Some e /\
            ev_out e = outcome_of l ab /\
            ev_wait e = match length fs with
                        | O => 0
                        | S j => Z.min (cmax c) (cmin c * 2 ^ Z.of_nat j)
                        end.
Proof.
  intros Hc Hnk Hp Hf.
  assert (Hnk2 : no_keep l (pre ++ fs)) by (apply Forall_app; split; [assumption | apply all_fail_no_keep; assumption]).
  destruct (attempt_after_any_prefix l c (pre ++ fs) ab rest Hnk2) as [e [Hn [Ho Hw]]].
  rewrite <- app_assoc, app_length in Hn. exists e. split; [exact Hn|]. split; [exact Ho|].
  rewrite Hw, trailing_failures_streak by assumption.
  destruct (length fs); [reflexivity|]. cbn [wait_after]. apply dur_good; assumption.
Qed.

Lemma wait_after_mono c j k : good_cfg c -> (j <= k)%nat -> wait_after c j <= wait_after c k.
Proof.
  intros Hc Hjk. destruct j, k; cbn [wait_after]; try lia.
  - pose proof (dur_bounds c k Hc). destruct Hc as [[? ?] _]. lia.
  - apply dur_mono; [assumption | lia].
Qed.

Lemma wait_after_bounds c j : good_cfg c -> cmin c <= wait_after c (S j) <= cmax c.
Proof. intros Hc. cbn [wait_after]. apply dur_bounds; assumption. Qed.

Lemma waits_monotone_bounded c : good_cfg c ->
    (forall j k, (j <= k)%nat -> wait_after c j <= wait_after c k) /\
    (forall j, cmin c <= wait_after c (S j) <= cmax c) /\
    wait_after c 1 = cmin c /\
    (forall j, cmin c * 2 ^ Z.of_nat j <= cmax c -> wait_after c (S j) = cmin c * 2 ^ Z.of_nat j) /\
    (forall j, (Z.to_nat (Z.log2_up (cmax c)) <= j)%nat -> wait_after c (S j) = cmax c) /\
    (forall j, cmax c <= cmin c * 2 ^ Z.of_nat j -> wait_after c (S j) = cmax c) /\
    (forall j k, (j <= k)%nat -> wait_after c (S j) = cmax c -> wait_after c (S k) = cmax c).
Proof.
  intros H. split; [|split; [|split; [|split; [|split; [|split]]]]]; cycle 5.
  { intros j. exact (dur_at_cap c j H). }
  { intros j k Hjk. exact (dur_cap_is_kept c j k H Hjk). }
  - intros j k. exact (wait_after_mono c j k H).
  - intros j. exact (wait_after_bounds c j H).
  - exact (dur_first c H).
  - intros j. exact (dur_doubles c j H).
  - exact (dur_reaches_cap c H).
Qed.

Lemma backoff_object :
  (forall c a k, boff_run c a (repeat BDuration k) = map (fun j => dur c (a + j)) (seq 0 k)) /\
  (forall mn mx f n,
      Z.min (if mn <=? 0 then default_min else mn) (if mx <=? 0 then default_max else mx)
        <= backoff_dur mn mx f n <= (if mx <=? 0 then default_max else mx)).
Proof. split; [exact boff_run_durations | exact backoff_dur_bounds]. Qed.

(* what one successful iteration leaves behind, for both loops *)
Lemma success_resets_state l c s carry ab :
  cancelled s = false -> fails l ab = false ->
  let '(evs, s1, carry1) := match l with
                            | LPlain => iter_plain c s carry (snd ab) None
                            | LAuth => iter_auth c s ab None
                            end in
  attempt s1 = 0%nat /\ wait s1 = false /\ carry1 = 0 /\ cancelled s1 = false.
Proof.
  intros Hc Hs. destruct ab as [a b]. unfold fails, outcome_of in Hs. cbn [fst snd] in Hs.
  destruct l; cbn [iter_plain iter_auth snd].
  - destruct (is_success (dial_outcome b None)) eqn:E; [|discriminate]. cbn. auto.
  - destruct (access_result a) as [f|] eqn:Ea.
    + assert (Hf : is_success f = false) by (destruct a; inversion Ea; reflexivity).
      rewrite Hf in Hs. discriminate.
    + destruct (is_success (dial_outcome b None)) eqn:E; [|discriminate]. cbn. auto.
Qed.

(* first retry after an established connection: immediate; the one after that (if the first
   failed): Min *)
Lemma reset_after_success l c p ok f nxt rest :
  good_cfg c -> no_keep l p -> keeps l ok = false -> fails l ok = false -> fails l f = true ->
  (exists e, nth_error (client l c (p ++ ok :: f :: nxt :: rest) None) (S (length p)) = Some e /\
             ev_wait e = 0 /\ ev_out e = outcome_of l f) /\
  (exists e, nth_error (client l c (p ++ ok :: f :: nxt :: rest) None) (S (S (length p))) = Some e /\
             ev_wait e = cmin c /\ ev_out e = outcome_of l nxt).
Proof.
  intros Hc Hnp Hnk Hok Hf.
  assert (Hfresh : fresh l (p ++ [ok])) by (right; exists p, ok; auto).
  assert (Hnk2 : no_keep l (p ++ [ok])) by (apply Forall_app; split; [assumption | constructor; [assumption | constructor]]).
  split.
  - destruct (waits_grow_and_cap l c (p ++ [ok]) [] f (nxt :: rest) Hc Hnk2 Hfresh (Forall_nil _)) as [e [Hn [Ho Hw]]].
    rewrite <- app_assoc in Hn. cbn [app length] in Hn. rewrite app_length in Hn. cbn [length] in Hn.
    replace (length p + 1 + 0)%nat with (S (length p)) in Hn by lia.
    exists e. auto.
  - assert (Hfs : Forall (fun x => fails l x = true) [f]) by (constructor; [exact Hf | constructor]).
    destruct (waits_grow_and_cap l c (p ++ [ok]) [f] nxt rest Hc Hnk2 Hfresh Hfs) as [e [Hn [Ho Hw]]].
    rewrite <- app_assoc in Hn. cbn [app length] in Hn. rewrite app_length in Hn. cbn [length] in Hn.
    replace (length p + 1 + 1)%nat with (S (S (length p))) in Hn by lia.
    exists e. split; [exact Hn|]. split; [|exact Ho].
    rewrite Hw. cbn [length Z.of_nat]. rewrite Z.pow_0_r. destruct Hc as [? [[? ?] ?]]. lia.
Qed.

(* a server that accepts and drops every time is redialled with no wait at all (this is what the
   code does; the property asks for waits between FAILED attempts only) *)
Lemma accept_drop_never_waits l c sch :
  Forall (fun ab => fails l ab = false) sch ->
  Forall (fun e => ev_wait e = 0) (client l c sch None).
Proof.
  rewrite client_spec.
  induction 1 as [|ab r Hab _ IH]; cbn [spec]; constructor; [reflexivity|].
  rewrite Hab. destruct (keeps l ab); [constructor | exact IH].
Qed.

(* ------------------------------------------------------------------ cancellation *)

Lemma run_cancelled l c sch i s carry cp : cancelled s = true -> run l c i s carry sch cp = [].
Proof.
  intros Hc. destruct sch as [|ab r]; [reflexivity|]. cbn [run].
  destruct (seen_at_head l (phase_here cp i)); cbn [stop cancelled]; rewrite ?Hc; reflexivity.
Qed.

Lemma phase_here_eq ci p : phase_here (Some (ci, p)) ci = Some p.
Proof. cbn. rewrite Nat.eqb_refl. reflexivity. Qed.

Lemma phase_here_neq ci p i : i <> ci -> phase_here (Some (ci, p)) i = None.
Proof. intros H. cbn. destruct (Nat.eqb ci i) eqn:E; [apply Nat.eqb_eq in E; congruence | reflexivity]. Qed.

(* one iteration in which the cancellation arrives: at most one event, the state is stopped *)
Lemma iter_cancel_stops l c s carry ab p :
  let '(evs, s1, _) := match l with
                       | LPlain => iter_plain c s carry (snd ab) (Some p)
                       | LAuth => iter_auth c s ab (Some p)
                       end in
  cancelled s1 = true /\ (length evs <= 1)%nat.
Proof.
  destruct ab as [a b]. destruct l; cbn [iter_plain iter_auth snd].
  - split; [reflexivity | cbn; lia].
  - destruct p; destruct (access_result a); cbn; split; try reflexivity; lia.
Qed.

Lemma iter_nocancel_one l c s carry ab :
  cancelled s = false ->
  let '(evs, s1, _) := match l with
                       | LPlain => iter_plain c s carry (snd ab) None
                       | LAuth => iter_auth c s ab None
                       end in
  cancelled s1 = false /\ length evs = 1%nat.
Proof.
  intros Hc. destruct ab as [a b]. destruct l; cbn [iter_plain iter_auth snd].
  - destruct (is_success (dial_outcome b None)); cbn; auto.
  - destruct (access_result a); [cbn; auto|].
    destruct (is_success (dial_outcome b None)); cbn; auto.
Qed.

(* the run with a cancellation at (ci, p), started at iteration i <= ci *)
Lemma run_cancel_length l c ci p sch : forall i s carry,
  (i <= ci)%nat -> cancelled s = false ->
  (length (run l c i s carry sch (Some (ci, p))) <= S ci - i)%nat.
Proof.
  induction sch as [|ab r IH]; intros i s carry Hi Hc; [cbn; lia|].
  cbn [run]. destruct (Nat.eq_dec i ci) as [->|Hne].
  - rewrite phase_here_eq. cbn [blocked].
    destruct (seen_at_head l (Some p)); cbn [stop cancelled]; [cbn; lia|]. rewrite Hc.
    pose proof (iter_cancel_stops l c s carry ab p) as H.
    destruct (match l with LPlain => iter_plain c s carry (snd ab) (Some p) | LAuth => iter_auth c s ab (Some p) end)
      as [[evs s1] carry1]. destruct H as [Hs1 Hlen].
    rewrite run_cancelled by assumption. rewrite app_nil_r. lia.
  - rewrite phase_here_neq by assumption. cbn [seen_at_head blocked]. rewrite Hc.
    pose proof (iter_nocancel_one l c s carry ab Hc) as H.
    destruct (match l with LPlain => iter_plain c s carry (snd ab) None | LAuth => iter_auth c s ab None end)
      as [[evs s1] carry1]. destruct H as [Hs1 Hlen].
    rewrite app_length, Hlen. destruct (keeps l ab); [cbn [length]; lia|].
    specialize (IH (S i) s1 carry1 ltac:(lia) Hs1). lia.
Qed.

(* a cancellation observed at the loop head or during the backoff wait: attempt ci never starts *)
Definition before_contact (p : phase) : bool :=
  match p with CHead | CWait => true | _ => false end.

Lemma run_cancel_before_contact l c ci p sch : forall i s carry,
  before_contact p = true -> (i <= ci)%nat -> cancelled s = false ->
  (length (run l c i s carry sch (Some (ci, p))) <= ci - i)%nat.
Proof.
  intros i s carry Hp; revert i s carry.
  induction sch as [|ab r IH]; intros i s carry Hi Hc; [cbn; lia|].
  cbn [run]. destruct (Nat.eq_dec i ci) as [->|Hne].
  - rewrite phase_here_eq. cbn [blocked].
    destruct p; try discriminate.
    + cbn [seen_at_head stop cancelled]. cbn. lia.
    + destruct l; cbn [seen_at_head stop cancelled]; [cbn; lia|]. rewrite Hc.
      destruct ab as [a b]. cbn [iter_auth app]. rewrite run_cancelled by reflexivity. cbn. lia.
  - rewrite phase_here_neq by assumption. cbn [seen_at_head blocked]. rewrite Hc.
    pose proof (iter_nocancel_one l c s carry ab Hc) as H.
    destruct (match l with LPlain => iter_plain c s carry (snd ab) None | LAuth => iter_auth c s ab None end)
      as [[evs s1] carry1]. destruct H as [Hs1 Hlen].
    rewrite app_length, Hlen. destruct (keeps l ab); [cbn [length]; lia|].
    specialize (IH (S i) s1 carry1 ltac:(lia) Hs1). lia.
Qed.

(* attempts before the cancellation are not affected by it *)
Lemma run_cancel_prefix l c ci p sch : forall i s carry,
  (i <= ci)%nat -> cancelled s = false ->
  firstn (ci - i) (run l c i s carry sch (Some (ci, p))) = firstn (ci - i) (run l c i s carry sch None).
Proof.
  induction sch as [|ab r IH]; intros i s carry Hi Hc; [reflexivity|].
  destruct (Nat.eq_dec i ci) as [->|Hne]; [rewrite Nat.sub_diag; reflexivity|].
  cbn [run]. rewrite phase_here_neq by assumption. rewrite phase_here_none. cbn [seen_at_head blocked]. rewrite Hc.
  pose proof (iter_nocancel_one l c s carry ab Hc) as H.
  destruct (match l with LPlain => iter_plain c s carry (snd ab) None | LAuth => iter_auth c s ab None end)
    as [[evs s1] carry1]. destruct H as [Hs1 Hlen].
  destruct evs as [|e [|e' evs]]; try discriminate. cbn [app].
  destruct (keeps l ab); [reflexivity|].
  replace (ci - i)%nat with (S (ci - S i)) by lia. cbn [firstn]. f_equal.
  apply IH; [lia | exact Hs1].
Qed.

(* a cancellation that arrives while the access request is in flight: the websocket server is never
   contacted by that attempt *)
Lemma run_cancel_access_no_ws c ci sch : forall i s carry e,
  (i <= ci)%nat -> cancelled s = false ->
  nth_error (run LAuth c i s carry sch (Some (ci, CAccess))) (ci - i) = Some e ->
  contacts_ws (ev_out e) = false.
Proof.
  induction sch as [|ab r IH]; intros i s carry e Hi Hc Hn.
  - destruct (ci - i)%nat; discriminate.
  - cbn [run] in Hn. destruct (Nat.eq_dec i ci) as [->|Hne].
    + rewrite phase_here_eq in Hn. cbn [seen_at_head blocked] in Hn. rewrite Hc in Hn.
      destruct ab as [a b]. cbn [iter_auth] in Hn. rewrite Nat.sub_diag in Hn.
      cbn [app nth_error] in Hn. inversion Hn; subst e. cbn [ev_out].
      destruct a; reflexivity.
    + rewrite phase_here_neq in Hn by assumption. cbn [seen_at_head blocked] in Hn. rewrite Hc in Hn.
      pose proof (iter_nocancel_one LAuth c s carry ab Hc) as H.
      destruct (iter_auth c s ab None) as [[evs s1] carry1]. destruct H as [Hs1 Hlen].
      destruct evs as [|e0 [|e' evs]]; try discriminate. cbn [app] in Hn.
      replace (ci - i)%nat with (S (ci - S i)) in Hn by lia. cbn [nth_error] in Hn.
      destruct (keeps LAuth ab); [destruct (ci - S i)%nat; discriminate|].
      apply (IH (S i) s1 carry1 e); [lia | exact Hs1 | exact Hn].
Qed.

Lemma quiescent_after_cancel l c sch ci p :
  (length (client l c sch (Some (ci, p))) <= S ci)%nat /\
  (before_contact p = true -> (length (client l c sch (Some (ci, p))) <= ci)%nat) /\
  firstn ci (client l c sch (Some (ci, p))) = firstn ci (client l c sch None).
Proof.
  unfold client. split; [|split].
  - pose proof (run_cancel_length l c ci p sch 0 init 0 ltac:(lia) eq_refl). lia.
  - intros Hp. pose proof (run_cancel_before_contact l c ci p sch 0 init 0 Hp ltac:(lia) eq_refl). lia.
  - pose proof (run_cancel_prefix l c ci p sch 0 init 0 ltac:(lia) eq_refl) as H.
    rewrite Nat.sub_0_r in H. exact H.
Qed.

Lemma cancel_during_access_no_ws c sch ci e :
  nth_error (client LAuth c sch (Some (ci, CAccess))) ci = Some e -> contacts_ws (ev_out e) = false.
Proof.
  intros H. apply (run_cancel_access_no_ws c ci sch 0%nat init 0 e); [lia | reflexivity |].
  rewrite Nat.sub_0_r. exact H.
Qed.

(* cancelled while connected: Dial writes a close frame and closes the TCP connection whether or
   not the peer answers (a silent peer cannot keep the client from closing and returning) *)
Lemma cancel_closes_connection : forall answers, reaches_close answers dial_on_cancel = true.
Proof. intros []; reflexivity. Qed.

(* ... whereas a version that first waited for the peer's answer would hang on a silent peer *)
Lemma awaiting_the_peer_would_hang : reaches_close false [DSendClose; DAwaitPeer; DCloseConn] = false.
Proof. reflexivity. Qed.

(* a cancellation while the server keeps the connection open ends the run with that attempt *)
Lemma cancel_ends_kept_connection l c pre ab rest j :
  no_keep l pre -> keeps l ab = true ->
  length (client l c (pre ++ ab :: rest) (Some (length pre, CConn j))) = S (length pre) /\
  exists e, nth_error (client l c (pre ++ ab :: rest) (Some (length pre, CConn j))) (length pre) = Some e /\
            is_success (ev_out e) = true.
Proof.
  intros Hp Hk. unfold client.
  assert (Hgen : forall pre i t s carry, no_keep l pre -> inv l c t s carry ->
            run l c i s carry (pre ++ ab :: rest) (Some ((i + length pre)%nat, CConn j)) =
            spec l c t pre ++
            (let t' := trail l t pre in
             [mkev (wait_after c t') (match l with
                                     | LPlain => dial_outcome (snd ab) (Some (CConn j))
                                     | LAuth => dial_outcome (snd ab) (Some (CConn j))
                                     end)])).
  { clear pre Hp. induction pre as [|x pre IH]; intros i t s carry Hnp [Hc Hi].
    - cbn [app length spec trail fold_left]. rewrite Nat.add_0_r. cbn [run]. rewrite phase_here_eq.
      cbn [seen_at_head blocked]. rewrite Hc. destruct ab as [a b].
      unfold keeps in Hk. destruct l; cbn [snd fst] in *.
      + destruct Hi as [Ha Hcarry]. cbn [iter_plain]. rewrite run_cancelled.
        * subst carry. reflexivity.
        * destruct (is_success (dial_outcome b (Some (CConn j)))); reflexivity.
      + cbn [iter_auth]. destruct (access_result a) eqn:Ea; [discriminate|].
        assert (Hw : (if wait s then dur c (attempt s) else 0) = wait_after c t).
        { destruct t; destruct Hi as [Hw Ha]; rewrite Hw; [reflexivity | rewrite Ha; reflexivity]. }
        rewrite Hw. rewrite run_cancelled; [reflexivity|].
        destruct (is_success (dial_outcome b (Some (CConn j)))); reflexivity.
    - inversion Hnp as [|? ? Hx Hnp']; subst.
      cbn [app length]. replace (i + S (length pre))%nat with (S i + length pre)%nat by lia.
      cbn [run]. rewrite phase_here_neq by lia. cbn [seen_at_head blocked]. rewrite Hc, Hx.
      pose proof (run_spec l c [x] i t s carry (conj Hc Hi)) as Hone.
      cbn [run spec] in Hone. rewrite phase_here_none in Hone. cbn [seen_at_head blocked] in Hone.
      rewrite Hc, Hx in Hone.
      destruct (match l with LPlain => iter_plain c s carry (snd x) None | LAuth => iter_auth c s x None end)
        as [[evs s1] carry1] eqn:Eit.
      cbn [run] in Hone. rewrite app_nil_r in Hone. subst evs.
      cbn [spec app]. rewrite Hx. f_equal.
      assert (Hinv : inv l c (if fails l x then S t else 0%nat) s1 carry1).
      { clear IH. destruct x as [xa xb]. unfold fails, outcome_of. cbn [fst snd].
        destruct l; cbn [iter_plain iter_auth snd] in Eit.
        - destruct Hi as [Ha Hcarry].
          destruct (is_success (dial_outcome xb None)) eqn:Es; inversion Eit; subst; rewrite ?Es; unfold inv; cbn; auto.
        - assert (Hatt : (if wait s then S (attempt s) else attempt s) = t).
          { destruct t; destruct Hi as [Hw' Ha]; rewrite Hw'; lia. }
          destruct (access_result xa) as [f|] eqn:Ea.
          + assert (Hf : is_success f = false) by (destruct xa; inversion Ea; reflexivity).
            rewrite Hf. inversion Eit. unfold inv; cbn. rewrite Hatt. auto.
          + destruct (is_success (dial_outcome xb None)) eqn:Es; inversion Eit; rewrite ?Es; unfold inv; cbn; rewrite ?Hatt; auto. }
      rewrite (IH (S i) _ s1 carry1 Hnp' Hinv). reflexivity. }
  specialize (Hgen pre 0%nat 0%nat init 0 Hp (inv_init l c)). cbn [Nat.add] in Hgen. rewrite Hgen.
  split.
  - rewrite app_length, spec_length by assumption. cbn. lia.
  - rewrite nth_error_app2 by (rewrite spec_length by assumption; lia).
    rewrite spec_length by assumption. rewrite Nat.sub_diag. cbn [nth_error].
    eexists; split; [reflexivity|]. cbn [ev_out].
    destruct ab as [a b]. unfold keeps in Hk.
    assert (Hb : holds b = true).
    { destruct l; cbn [fst snd] in Hk; [exact Hk|]. destruct (access_result a); [discriminate | exact Hk]. }
    destruct b; try discriminate; destruct l; reflexivity.
Qed.

(* ------------------------------------------------------------------ the users of the client *)

(* the clauses of C19 about one loop kind, gathered: every scheduled behaviour is attempted; after j
   consecutive failures the wait is 0 / min(Max, Min*2^(j-1)); the first retry after an established
   connection waits 0 and the next Min; nothing is recorded after the attempt in flight at a
   cancellation, nothing at all if it is seen at the loop head or during a wait, and the attempts
   before it are unchanged *)
Definition reconnects_properly (l : loopk) : Prop :=
  (forall c sch, no_keep l sch ->
     length (client l c sch None) = length sch /\ map ev_out (client l c sch None) = map (outcome_of l) sch) /\
  (forall c pre fs ab rest, good_cfg c -> no_keep l pre -> fresh l pre -> Forall (fun x => fails l x = true) fs ->
     exists e, nth_error (client l c (pre ++ fs ++ ab :: rest) None) (length pre + length fs) = Some e /\
               ev_out e = outcome_of l ab /\
               ev_wait e = match length fs with O => 0 | S j => Z.min (cmax c) (cmin c * 2 ^ Z.of_nat j) end) /\
  (forall c p ok f nxt rest, good_cfg c -> no_keep l p -> keeps l ok = false -> fails l ok = false -> fails l f = true ->
     (exists e, nth_error (client l c (p ++ ok :: f :: nxt :: rest) None) (S (length p)) = Some e /\
                ev_wait e = 0 /\ ev_out e = outcome_of l f) /\
     (exists e, nth_error (client l c (p ++ ok :: f :: nxt :: rest) None) (S (S (length p))) = Some e /\
                ev_wait e = cmin c /\ ev_out e = outcome_of l nxt)) /\
  (forall c sch ci p,
     (length (client l c sch (Some (ci, p))) <= S ci)%nat /\
     (before_contact p = true -> (length (client l c sch (Some (ci, p))) <= ci)%nat) /\
     firstn ci (client l c sch (Some (ci, p))) = firstn ci (client l c sch None)).

Lemma every_loop_reconnects_properly l : reconnects_properly l.
Proof.
  unfold reconnects_properly. split; [|split; [|split]].
  - intros c sch. exact (retries_forever l c sch).
  - intros c pre fs ab rest. exact (waits_grow_and_cap l c pre fs ab rest).
  - intros c p ok f nxt rest. exact (reset_after_success l c p ok f nxt rest).
  - intros c sch ci p. exact (quiescent_after_cancel l c sch ci p).
Qed.

Lemma host_destination_reconnects token_is_empty : reconnects_properly (wrapper_choice token_is_empty).
Proof. apply every_loop_reconnects_properly. Qed.

Lemma file_tool_reconnects : reconnects_properly file_choice /\ reconnects_properly client_pkg_choice.
Proof. split; apply every_loop_reconnects_properly. Qed.

(* ------------------------------------------------------------------ who notices the loss *)

Lemma dial_nil_after_established : forall e, dial_returns_error e = false.
Proof. intros []; reflexivity. Qed.

Lemma ws_result_tw b : ws_result (to_writer b) = ws_result b.
Proof. destruct b; reflexivity. Qed.

Lemma holds_tw b : holds (to_writer b) = holds b.
Proof. destruct b; reflexivity. Qed.

Definition sched_to_writer (sch : list sbeh) : list sbeh := map (fun ab => (fst ab, to_writer (snd ab))) sch.

Lemma iter_plain_tw c s carry b ph : iter_plain c s carry (to_writer b) ph = iter_plain c s carry b ph.
Proof. unfold iter_plain, dial_outcome. rewrite ws_result_tw. reflexivity. Qed.

Lemma iter_auth_tw c s a b ph : iter_auth c s (a, to_writer b) ph = iter_auth c s (a, b) ph.
Proof. unfold iter_auth, dial_outcome. rewrite ws_result_tw. reflexivity. Qed.

Lemma keeps_tw l a b : keeps l (a, to_writer b) = keeps l (a, b).
Proof. unfold keeps. cbn [fst snd]. rewrite holds_tw. reflexivity. Qed.

Lemma run_to_writer l c cp sch : forall i s carry,
  run l c i s carry (sched_to_writer sch) cp = run l c i s carry sch cp.
Proof.
  induction sch as [|[a b] r IH]; intros i s carry; [reflexivity|].
  cbn [sched_to_writer map run fst snd]. fold (sched_to_writer r).
  unfold blocked. rewrite keeps_tw.
  destruct l; [rewrite iter_plain_tw | rewrite iter_auth_tw].
  - destruct (cancelled (if seen_at_head LPlain (phase_here cp i) then stop s else s)); [reflexivity|].
    destruct (iter_plain c (if seen_at_head LPlain (phase_here cp i) then stop s else s) carry b (phase_here cp i)) as [[evs s1] carry1].
    rewrite IH. reflexivity.
  - destruct (cancelled (if seen_at_head LAuth (phase_here cp i) then stop s else s)); [reflexivity|].
    destruct (iter_auth c (if seen_at_head LAuth (phase_here cp i) then stop s else s) (a, b) (phase_here cp i)) as [[evs s1] carry1].
    rewrite IH. reflexivity.
Qed.

(* an established connection resets the backoff whichever pump noticed its end: Dial returns nil for
   every way an established connection can end, and the whole run (waits, outcomes, behaviour under
   every cancellation) is the same when every drop is noticed by the writer instead of the reader *)
Lemma reset_whichever_pump_notices :
  (forall e, dial_returns_error e = false) /\
  (forall l c sch cp, client l c (sched_to_writer sch) cp = client l c sch cp).
Proof. split; [exact dial_nil_after_established | intros; apply run_to_writer]. Qed.

(* ------------------------------------------------------------------ the pumps are FIFO *)

Lemma firstn_len_app {A} (a b : list A) : firstn (length a) (a ++ b) = a.
Proof. rewrite firstn_app, Nat.sub_diag, firstn_all. cbn. apply app_nil_r. Qed.

Definition pump_inv (sent offered : list N) (p : pumps) : Prop :=
  to_in p ++ conn_in p = sent /\ conn_out p ++ from_out p = offered.

Lemma pump_step_inv sent offered p x : pump_inv sent offered p -> pump_inv sent offered (pump_step p x).
Proof.
  intros [H1 H2]. destruct x; cbn [pump_step].
  - destruct (conn_in p) as [|m r] eqn:E; [split; [rewrite E|]; assumption|].
    split; cbn; [rewrite <- app_assoc; exact H1 | exact H2].
  - destruct (from_out p) as [|m r] eqn:E; [split; [|rewrite E]; assumption|].
    split; cbn; [exact H1 | rewrite <- app_assoc; exact H2].
Qed.

Lemma pump_run_inv sent offered xs : forall p, pump_inv sent offered p -> pump_inv sent offered (pump_run p xs).
Proof.
  induction xs as [|x xs IH]; intros p H; [exact H|].
  cbn [pump_run fold_left]. apply IH, pump_step_inv, H.
Qed.

(* for every interleaving of the reader goroutine and the writer loop: what has arrived on r.In is
   a prefix of what the server sent, what has been written is a prefix of what was offered on
   r.Out - nothing reordered, duplicated or skipped *)
Lemma in_order_while_connected sent offered xs :
  let p := pump_run (pumps_init sent offered) xs in
  to_in p = firstn (length (to_in p)) sent /\
  conn_out p = firstn (length (conn_out p)) offered /\
  to_in p ++ conn_in p = sent /\ conn_out p ++ from_out p = offered.
Proof.
  cbv zeta.
  assert (H : pump_inv sent offered (pump_run (pumps_init sent offered) xs))
    by (apply pump_run_inv; split; reflexivity).
  revert H. generalize (pump_run (pumps_init sent offered) xs) as p. intros p [H1 H2].
  repeat split; try assumption.
  - subst sent. symmetry. apply firstn_len_app.
  - subst offered. symmetry. apply firstn_len_app.
Qed.

(* ---- the write loop across connections, with failed writes ---- *)

Lemma is_subseq_refl a : is_subseq a a = true.
Proof. induction a as [|x a IH]; cbn; [reflexivity|]. rewrite N.eqb_refl. exact IH. Qed.

Lemma is_subseq_both b :
  (forall a x, is_subseq (x :: a) b = true -> is_subseq a b = true) /\
  (forall a y, is_subseq a b = true -> is_subseq a (y :: b) = true).
Proof.
  induction b as [|z b [IHt IHc]].
  - split; [intros a x H; discriminate|].
    intros a y H. destruct a; [reflexivity | discriminate].
  - assert (Ht : forall a x, is_subseq (x :: a) (z :: b) = true -> is_subseq a (z :: b) = true).
    { intros a x H. cbn [is_subseq] in H. destruct (N.eqb x z).
      - apply IHc. exact H.
      - apply IHc. apply (IHt a x). exact H. }
    split; [exact Ht|].
    intros a y H. destruct a as [|x a]; [reflexivity|].
    change (is_subseq (x :: a) (y :: z :: b)) with (if N.eqb x y then is_subseq a (z :: b) else is_subseq (x :: a) (z :: b)).
    destruct (N.eqb x y); [apply (Ht a x); exact H | exact H].
Qed.

Lemma is_subseq_cons_r a y b : is_subseq a b = true -> is_subseq a (y :: b) = true.
Proof. apply is_subseq_both. Qed.

(* whatever the outcomes of the writes: what reached the wire is an order-preserving sub-list of what
   was offered (nothing twice, nothing overtaking), the rest is still offered in its order, and with no
   failed write nothing is missing *)
Lemma writer_keeps_order rs : forall offered,
  is_subseq (fst (writer_run offered rs)) offered = true /\
  is_subseq (snd (writer_run offered rs)) offered = true /\
  (Forall (fun r => r = WOk) rs -> fst (writer_run offered rs) ++ snd (writer_run offered rs) = offered).
Proof.
  induction rs as [|r rs IH]; intros offered.
  - assert (E : writer_run offered [] = ([], offered)) by (destruct offered; reflexivity).
    rewrite E. cbn [fst snd app]. repeat split; try apply is_subseq_refl. destruct offered; reflexivity.
  - destruct offered as [|m rest]; [destruct r; cbn; repeat split; reflexivity|].
    destruct (IH rest) as [H1 [H2 H3]].
    destruct r; cbn [writer_run].
    + destruct (writer_run rest rs) as [w rem] eqn:E. cbn [fst snd] in *.
      repeat split.
      * cbn. rewrite N.eqb_refl. exact H1.
      * apply is_subseq_cons_r. exact H2.
      * intros Hall. inversion Hall; subst. cbn. f_equal. apply H3. assumption.
    + repeat split.
      * apply is_subseq_cons_r. exact H1.
      * apply is_subseq_cons_r. exact H2.
      * intros Hall. inversion Hall as [|? ? Hr _]. discriminate.
Qed.

(* ---- pipelines of forwarders (the wrappers around the client) ---- *)

Lemma exists_last_or_nil {A} (l : list A) : l = [] \/ exists l' x, l = l' ++ [x].
Proof. destruct l as [|a l]; [left; reflexivity|]. right. destruct (exists_last (l := a :: l)) as [l' [x H]]; [discriminate|]. eauto. Qed.


Lemma pipe_step_S q0 r i : pipe_step (q0 :: r) (S i) = q0 :: pipe_step r i.
Proof. destruct q0 as [|m q0]; [|destruct r]; reflexivity. Qed.

Lemma pipe_step_contents qs : forall i, pipe_contents (pipe_step qs i) = pipe_contents qs.
Proof.
  unfold pipe_contents.
  induction qs as [|q0 r IH]; intros i; [destruct i; reflexivity|].
  destruct i as [|i'].
  - destruct q0 as [|m q0]; [destruct r; reflexivity|].
    destruct r as [|q1 r]; [reflexivity|].
    cbn [pipe_step rev]. rewrite !concat_app. cbn [concat]. rewrite !app_nil_r, <- !app_assoc. reflexivity.
  - rewrite pipe_step_S. cbn [rev]. rewrite !concat_app, IH. reflexivity.
Qed.

Lemma pipe_run_contents xs : forall qs, pipe_contents (pipe_run qs xs) = pipe_contents qs.
Proof.
  induction xs as [|x xs IH]; intros qs; [reflexivity|].
  cbn [pipe_run fold_left]. fold (pipe_run (pipe_step qs x) xs). rewrite IH. apply pipe_step_contents.
Qed.

Lemma pipe_init_contents n input : pipe_contents (pipe_init n input) = input.
Proof.
  unfold pipe_contents, pipe_init. cbn [rev]. rewrite concat_app. cbn [concat]. rewrite app_nil_r.
  replace (concat (rev (repeat [] n))) with (@nil N); [reflexivity|].
  induction n as [|n IH]; [reflexivity|]. cbn [repeat rev]. rewrite concat_app, <- IH. reflexivity.
Qed.

(* any number of forwarders in a row, any interleaving: nothing is lost, duplicated or reordered -
   what has reached the sink is a prefix of the input *)
Lemma pipeline_fifo stages input xs :
  pipe_contents (pipe_run (pipe_init stages input) xs) = input /\
  let sink := last (pipe_run (pipe_init stages input) xs) [] in
  sink = firstn (length sink) input.
Proof.
  assert (H : pipe_contents (pipe_run (pipe_init stages input) xs) = input)
    by (rewrite pipe_run_contents; apply pipe_init_contents).
  split; [exact H|]. cbv zeta.
  revert H. generalize (pipe_run (pipe_init stages input) xs) as qs. intros qs H.
  destruct (exists_last_or_nil qs) as [-> | [qs' [q ->]]]; [reflexivity|].
  rewrite last_last. unfold pipe_contents in H. rewrite rev_app_distr in H. cbn [rev app concat] in H.
  subst input. symmetry. apply firstn_len_app.
Qed.

(* the decoding stage of pkg/status: after n messages taken, Status has received exactly the decodable
   ones among the first n, in their order *)
Lemma filt_run_spec ok n : forall pending out,
  filt_run ok n (pending, out) = (skipn n pending, out ++ filter ok (firstn n pending)).
Proof.
  induction n as [|n IH]; intros pending out; [cbn; rewrite app_nil_r; reflexivity|].
  destruct pending as [|m r]; cbn [filt_run filt_step fst snd].
  - rewrite IH. destruct n; cbn; rewrite ?app_nil_r; reflexivity.
  - rewrite IH. cbn [skipn firstn filter]. destruct (ok m); [rewrite <- app_assoc|]; reflexivity.
Qed.

Lemma status_stage_in_order ok n input :
  filt_run ok n (input, []) = (skipn n input, filter ok (firstn n input)).
Proof. rewrite filt_run_spec. reflexivity. Qed.

(* and the pumps make progress: a read step with a pending frame delivers exactly that frame *)
Lemma pump_read_delivers_next p m r :
  conn_in p = m :: r -> to_in (pump_step p PRead) = to_in p ++ [m] /\ conn_in (pump_step p PRead) = r.
Proof. intros H. cbn [pump_step]. rewrite H. cbn. auto. Qed.
