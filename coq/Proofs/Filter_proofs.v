(* C20, filter half: for every sequence of accept / deny / reset commands the filter passes a
   line iff no filter is set, or no deny pattern set since the last reset matches it and some
   accept pattern set since the last reset does. *)
From Relay Require Import Base.Prelude Base.AList Model.Filter.

Local Notation E := String.eqb_eq.

(* ---------------------------------------------------------------- the maps *)
(* every entry is keyed by the source text of its own pattern *)
Definition KV (m : pmap) : Prop := forall k v, In (k, v) m -> k = v.
Definition Inv (f : filt) : Prop := KV (accepts f) /\ KV (denies f).

Lemma in_remove k (m : pmap) kv : In kv (prm k m) -> In kv m.
Proof.
  induction m as [|[k' v'] m IH]; cbn; [intros []|].
  destruct (String.eqb k k'); cbn; intros H; [right; apply IH; exact H|].
  destruct H as [H|H]; [left; exact H|right; apply IH; exact H].
Qed.

Lemma KV_insert p m : KV m -> KV (pins p p m).
Proof.
  intros H k v [Hin|Hin]; [injection Hin as <- <-; reflexivity|]. apply H. eapply in_remove; exact Hin.
Qed.

Lemma inv_new : Inv fnew.
Proof. split; intros k v []. Qed.

Lemma inv_apply f a : Inv f -> Inv (fapply f a).
Proof.
  intros [Ha Hd]. destruct a; cbn; try (split; assumption).
  - split; [apply KV_insert; exact Ha|exact Hd].
  - split; [exact Ha|apply KV_insert; exact Hd].
  - exact inv_new.
  - split; [intros k v Hin; apply Ha; eapply in_remove; exact Hin|exact Hd].
  - split; [exact Ha|intros k v Hin; apply Hd; eapply in_remove; exact Hin].
Qed.

Lemma ffinal_snoc acts a : ffinal (acts ++ [a]) = fapply (ffinal acts) a.
Proof. unfold ffinal. rewrite fold_left_app. reflexivity. Qed.

Lemma inv_final acts : Inv (ffinal acts).
Proof.
  induction acts as [|a acts IH] using rev_ind; [exact inv_new|]. rewrite ffinal_snoc. apply inv_apply; exact IH.
Qed.

Lemma keys_insert k p (m : pmap) : In k (keys (pins p p m)) <-> k = p \/ In k (keys m).
Proof.
  rewrite !(in_keys_lookup String.eqb E). destruct (string_dec k p) as [->|N].
  - rewrite (lookup_insert_eq String.eqb E). split; [left; reflexivity|discriminate].
  - rewrite (lookup_insert_neq String.eqb E) by exact N. split; [right; assumption|intros [C|H]; [contradiction|exact H]].
Qed.

Lemma keys_remove k p (m : pmap) : In k (keys (prm p m)) <-> k <> p /\ In k (keys m).
Proof.
  rewrite !(in_keys_lookup String.eqb E). destruct (string_dec k p) as [->|N].
  - rewrite (lookup_remove_eq String.eqb). split; [intros H; exfalso; apply H; reflexivity|intros [H _]; exfalso; apply H; reflexivity].
  - rewrite (lookup_remove_neq String.eqb E) by exact N. split; [intros H; split; assumption|intros [_ H]; exact H].
Qed.

Lemma in_keys_KV (m : pmap) k : KV m -> (In k (keys m) <-> In (k, k) m).
Proof.
  intros H. unfold keys. rewrite in_map_iff. split.
  - intros ([k' v] & <- & Hin). cbn. pose proof (H _ _ Hin) as Hk. subst v. exact Hin.
  - intros Hin. exists (k, k). split; [reflexivity|exact Hin].
Qed.

Lemma remove_idem k (m : pmap) : prm k (prm k m) = prm k m.
Proof.
  induction m as [|[k' v] m IH]; cbn; [reflexivity|].
  destruct (String.eqb k k') eqn:Ek; [exact IH|]. cbn. rewrite Ek, IH. reflexivity.
Qed.

Lemma insert_idem p (m : pmap) : pins p p (pins p p m) = pins p p m.
Proof. unfold insert. cbn. rewrite String.eqb_refl, remove_idem. reflexivity. Qed.

(* ---------------------------------------------------------------- which patterns are in force *)
(* p was named by an Accept (Deny) and nothing after it took it back: no Reset, no delete of p *)
Definition kills_accept (p : string) (a : faction) : Prop := a = Reset \/ a = DelAccept p.
Definition kills_deny (p : string) (a : faction) : Prop := a = Reset \/ a = DelDeny p.

Definition accept_in_force (p : string) (acts : list faction) : Prop :=
  exists a1 a2, acts = a1 ++ Accept p :: a2 /\ forall x, In x a2 -> ~ kills_accept p x.
Definition deny_in_force (p : string) (acts : list faction) : Prop :=
  exists a1 a2, acts = a1 ++ Deny p :: a2 /\ forall x, In x a2 -> ~ kills_deny p x.

Lemma in_force_snoc (mk : faction) (kills : faction -> Prop) acts a :
  (exists a1 a2, acts ++ [a] = a1 ++ mk :: a2 /\ forall x, In x a2 -> ~ kills x) <->
  (a = mk \/ (~ kills a /\ exists a1 a2, acts = a1 ++ mk :: a2 /\ forall x, In x a2 -> ~ kills x)).
Proof.
  split.
  - intros (a1 & a2 & Eq & NK).
    destruct a2 as [|x a2] using rev_ind.
    + left. apply app_inj_tail in Eq as [_ ->]. reflexivity.
    + clear IHa2. right.
      replace (a1 ++ mk :: a2 ++ [x]) with ((a1 ++ mk :: a2) ++ [x]) in Eq by (rewrite <- app_assoc; reflexivity).
      apply app_inj_tail in Eq as [-> ->]. split.
      * apply NK. apply in_or_app. right. left. reflexivity.
      * exists a1, a2. split; [reflexivity|]. intros y H. apply NK. apply in_or_app. left. exact H.
  - intros [->|(NK & a1 & a2 & -> & NK2)].
    + exists acts, []. split; [reflexivity|intros x []].
    + exists a1, (a2 ++ [a]). split; [rewrite <- app_assoc; reflexivity|].
      intros y H. apply in_app_or in H as [H|[H|[]]]; [apply NK2; exact H|subst y; exact NK].
Qed.

Lemma not_in_force_nil (mk : faction) (kills : faction -> Prop) :
  ~ exists a1 a2, @nil faction = a1 ++ mk :: a2 /\ forall x, In x a2 -> ~ kills x.
Proof. intros (a1 & a2 & Eq & _). destruct a1; discriminate. Qed.

Theorem accepts_are_in_force acts p : In p (keys (accepts (ffinal acts))) <-> accept_in_force p acts.
Proof.
  unfold accept_in_force. induction acts as [|a acts IH] using rev_ind.
  - split; [intros []|intros H; exfalso; exact (not_in_force_nil _ _ H)].
  - rewrite ffinal_snoc, (in_force_snoc (Accept p) (kills_accept p)). rewrite <- IH. unfold kills_accept.
    destruct a as [q|q| | |q|q]; cbn [fapply accepts denies fnew].
    + rewrite keys_insert. split.
      * intros [->|H]; [left; reflexivity|right; split; [intros [C|C]; discriminate|exact H]].
      * intros [H|[_ H]]; [injection H as ->; left; reflexivity|right; exact H].
    + split; [intros H; right; split; [intros [C|C]; discriminate|exact H]|intros [H|[_ H]]; [discriminate|exact H]].
    + split; [intros []|intros [H|[H _]]; [discriminate|exfalso; apply H; left; reflexivity]].
    + split; [intros H; right; split; [intros [C|C]; discriminate|exact H]|intros [H|[_ H]]; [discriminate|exact H]].
    + rewrite keys_remove. split.
      * intros [N H]. right. split; [intros [C|C]; [discriminate|injection C as ->; apply N; reflexivity]|exact H].
      * intros [H|[N H]]; [discriminate|]. split; [intros ->; apply N; right; reflexivity|exact H].
    + split; [intros H; right; split; [intros [C|C]; discriminate|exact H]|intros [H|[_ H]]; [discriminate|exact H]].
Qed.

Theorem denies_are_in_force acts p : In p (keys (denies (ffinal acts))) <-> deny_in_force p acts.
Proof.
  unfold deny_in_force. induction acts as [|a acts IH] using rev_ind.
  - split; [intros []|intros H; exfalso; exact (not_in_force_nil _ _ H)].
  - rewrite ffinal_snoc, (in_force_snoc (Deny p) (kills_deny p)). rewrite <- IH. unfold kills_deny.
    destruct a as [q|q| | |q|q]; cbn [fapply accepts denies fnew].
    + split; [intros H; right; split; [intros [C|C]; discriminate|exact H]|intros [H|[_ H]]; [discriminate|exact H]].
    + rewrite keys_insert. split.
      * intros [->|H]; [left; reflexivity|right; split; [intros [C|C]; discriminate|exact H]].
      * intros [H|[_ H]]; [injection H as ->; left; reflexivity|right; exact H].
    + split; [intros []|intros [H|[H _]]; [discriminate|exfalso; apply H; left; reflexivity]].
    + split; [intros H; right; split; [intros [C|C]; discriminate|exact H]|intros [H|[_ H]]; [discriminate|exact H]].
    + split; [intros H; right; split; [intros [C|C]; discriminate|exact H]|intros [H|[_ H]]; [discriminate|exact H]].
    + rewrite keys_remove. split.
      * intros [N H]. right. split; [intros [C|C]; [discriminate|injection C as ->; apply N; reflexivity]|exact H].
      * intros [H|[N H]]; [discriminate|]. split; [intros ->; apply N; right; reflexivity|exact H].
Qed.

Section Pass.
  Variable matches : string -> string -> bool.
  Notation pass := (pass matches).
  Notation any_match := (any_match matches).

  Lemma any_match_keys m line : KV m -> (any_match m line = true <-> exists p, In p (keys m) /\ matches p line = true).
  Proof.
    intros H. unfold any_match. rewrite existsb_exists. split.
    - intros ([k v] & Hin & Hm). cbn in Hm. pose proof (H _ _ Hin) as ->. exists v. split; [|exact Hm].
      apply in_keys_KV; assumption.
    - intros (p & Hin & Hm). apply in_keys_KV in Hin; [|exact H]. exists (p, p). split; [exact Hin|exact Hm].
  Qed.

  Lemma is_nil_keys (m : pmap) : is_nil m = true <-> forall p, ~ In p (keys m).
  Proof.
    destruct m as [|[k v] m]; cbn; split; try discriminate; auto.
    intros H. exfalso. apply (H k). left; reflexivity.
  Qed.

  (* the rule on a filter state *)
  Theorem pass_spec f line :
    Inv f ->
    (pass f line = true <->
       (accepts f = [] /\ denies f = []) \/
       ((forall p, In p (keys (denies f)) -> matches p line = false) /\
        exists p, In p (keys (accepts f)) /\ matches p line = true)).
  Proof.
    intros [Ha Hd]. unfold Model.Filter.pass, all_pass.
    destruct (accepts f) as [|xa ma] eqn:EA; destruct (denies f) as [|xd md] eqn:ED; cbn [is_nil andb].
    - split; [intros _; left; split; reflexivity|reflexivity].
    - rewrite <- ED in *. destruct (any_match (denies f) line) eqn:AD.
      + split; [discriminate|]. intros [[_ C]|[_ (p & [] & _)]]. rewrite ED in C; discriminate.
      + cbn. split; [discriminate|]. intros [[_ C]|[_ (p & [] & _)]]. rewrite ED in C; discriminate.
    - rewrite <- EA in *. cbn [any_match existsb]. rewrite (any_match_keys _ _ Ha). split.
      + intros H. right. split; [intros p []|exact H].
      + intros [[C _]|[_ H]]; [rewrite EA in C; discriminate|exact H].
    - rewrite <- EA, <- ED in *. destruct (any_match (denies f) line) eqn:AD.
      + split; [discriminate|]. intros [[C _]|[ND _]]; [rewrite EA in C; discriminate|].
        apply (any_match_keys _ _ Hd) in AD as (p & Hin & Hm). rewrite (ND p Hin) in Hm. discriminate.
      + rewrite (any_match_keys _ _ Ha). split.
        * intros H. right. split; [|exact H]. intros p Hin. destruct (matches p line) eqn:Hm; [|reflexivity].
          assert (any_match (denies f) line = true) by (apply (any_match_keys _ _ Hd); exists p; split; assumption).
          congruence.
        * intros [[C _]|[_ H]]; [rewrite EA in C; discriminate|exact H].
  Qed.

  (* the rule of the property, over histories: for EVERY sequence of filter commands and every line *)
  Theorem filter_spec acts line :
    pass (ffinal acts) line = true <->
      ((forall p, ~ accept_in_force p acts) /\ (forall p, ~ deny_in_force p acts)) \/
      ((forall p, deny_in_force p acts -> matches p line = false) /\
       exists p, accept_in_force p acts /\ matches p line = true).
  Proof.
    rewrite (pass_spec _ _ (inv_final acts)).
    assert (NA : accepts (ffinal acts) = [] <-> forall p, ~ accept_in_force p acts).
    { split.
      - intros H p Hp. apply accepts_are_in_force in Hp. rewrite H in Hp. exact Hp.
      - intros H. destruct (accepts (ffinal acts)) as [|[k v] m] eqn:EA; [reflexivity|].
        exfalso. apply (H k). apply accepts_are_in_force. rewrite EA. left; reflexivity. }
    assert (ND : denies (ffinal acts) = [] <-> forall p, ~ deny_in_force p acts).
    { split.
      - intros H p Hp. apply denies_are_in_force in Hp. rewrite H in Hp. exact Hp.
      - intros H. destruct (denies (ffinal acts)) as [|[k v] m] eqn:EA; [reflexivity|].
        exfalso. apply (H k). apply denies_are_in_force. rewrite EA. left; reflexivity. }
    rewrite NA, ND. split.
    - intros [H|[HD (p & Hp & Hm)]]; [left; exact H|right]. split.
      + intros q Hq. apply HD. apply denies_are_in_force; exact Hq.
      + exists p. split; [apply accepts_are_in_force; exact Hp|exact Hm].
    - intros [H|[HD (p & Hp & Hm)]]; [left; exact H|right]. split.
      + intros q Hq. apply HD. apply denies_are_in_force; exact Hq.
      + exists p. split; [apply accepts_are_in_force; exact Hp|exact Hm].
  Qed.

  (* a reset makes the filter all-pass again, whatever came before *)
  Theorem reset_clears acts line : pass (ffinal (acts ++ [Reset])) line = true.
  Proof. rewrite ffinal_snoc. reflexivity. Qed.

  Theorem reset_forgets acts : ffinal (acts ++ [Reset]) = fnew.
  Proof. rewrite ffinal_snoc. reflexivity. Qed.

  (* naming a pattern twice is the same as naming it once *)
  Theorem readd_idempotent f a : fapply (fapply f a) a = fapply f a.
  Proof. destruct a; cbn; try reflexivity; rewrite ?insert_idem, ?remove_idem; reflexivity. Qed.

  (* and naming again, later, a pattern that is still in force changes no verdict *)
  Theorem readd_in_force_same_verdict acts p line :
    accept_in_force p acts -> pass (ffinal (acts ++ [Accept p])) line = pass (ffinal acts) line.
  Proof.
    intros F. apply eq_true_iff_eq. rewrite !filter_spec.
    assert (A : forall q, accept_in_force q (acts ++ [Accept p]) <-> accept_in_force q acts).
    { intros q. unfold accept_in_force. rewrite (in_force_snoc (Accept q) (kills_accept q)). split.
      - intros [H|[_ H]]; [injection H as ->; exact F|exact H].
      - intros H. right. split; [intros [C|C]; discriminate|exact H]. }
    assert (D : forall q, deny_in_force q (acts ++ [Accept p]) <-> deny_in_force q acts).
    { intros q. unfold deny_in_force. rewrite (in_force_snoc (Deny q) (kills_deny q)). split.
      - intros [H|[_ H]]; [discriminate|exact H].
      - intros H. right. split; [intros [C|C]; discriminate|exact H]. }
    split; intros [[H1 H2]|[H1 (q & Hq & Hm)]].
    - left. split; intros q Hq; [apply (H1 q), A; exact Hq|apply (H2 q), D; exact Hq].
    - right. split; [intros r Hr; apply H1, D; exact Hr|exists q; split; [apply A; exact Hq|exact Hm]].
    - left. split; intros q Hq; [apply (H1 q), A; exact Hq|apply (H2 q), D; exact Hq].
    - right. split; [intros r Hr; apply H1, D; exact Hr|exists q; split; [apply A; exact Hq|exact Hm]].
  Qed.

  (* ---- FilterLines: the stream of events ---- *)
  Definition acts_of (evs : list fev) : list faction :=
    flat_map (fun e => match e with Act a => [a] | Line _ => [] end) evs.

  Lemma fstate_fold f evs : fstate f evs = fold_left fapply (acts_of evs) f.
  Proof. revert f; induction evs as [|[a|s] evs IH]; intros f; cbn; [reflexivity|apply IH|apply IH]. Qed.

  Lemma frun_app f e1 e2 : frun matches f (e1 ++ e2) = frun matches f e1 ++ frun matches (fstate f e1) e2.
  Proof.
    revert f; induction e1 as [|[a|s] e1 IH]; intros f; cbn; [reflexivity|apply IH|].
    destruct (pass f s); cbn; rewrite IH; reflexivity.
  Qed.

  (* a received line is written to the log iff it passes the filter set by the commands before it *)
  Theorem filter_lines_spec evs s :
    frun matches fnew (evs ++ [Line s]) =
    frun matches fnew evs ++ (if pass (ffinal (acts_of evs)) s then [s] else []).
  Proof. rewrite frun_app, fstate_fold. cbn. destruct (pass _ s); reflexivity. Qed.

  (* ---- the bounded log channel and its consumer: whoever moves, nothing is lost ---- *)
  (* what has been delivered, what waits in the channel, and what the rule still owes *)
  Definition ptotal (p : pipe) : list string := deliv p ++ pbuf p ++ frun matches (pf p) (pend p).

  Lemma pstep_total cap p a q : pstep matches cap p a = Some q -> ptotal q = ptotal p.
  Proof.
    unfold ptotal. destruct p as [f pe b d]. destruct a; cbn [pstep pf pend pbuf deliv].
    - destruct pe as [|[c|s] r]; [discriminate| |].
      + intros H; injection H as <-. reflexivity.
      + cbn [frun]. destruct (pass f s).
        * destruct (length b <? cap)%nat; [|discriminate]. intros H; injection H as <-.
          cbn [pf pend pbuf deliv]. rewrite <- !app_assoc. reflexivity.
        * intros H; injection H as <-. reflexivity.
    - destruct b as [|x r]; [discriminate|]. intros H; injection H as <-.
      cbn [pf pend pbuf deliv]. rewrite <- !app_assoc. reflexivity.
    - destruct pe as [|[c|s] r]; try discriminate. destruct b; [|discriminate].
      cbn [frun]. destruct (pass f s); [|discriminate]. intros H; injection H as <-.
      cbn [pf pend pbuf deliv]. rewrite <- !app_assoc. reflexivity.
  Qed.

  Lemma pstep_measure cap p a q : pstep matches cap p a = Some q -> (pmeasure q < pmeasure p)%nat.
  Proof.
    unfold pmeasure. destruct p as [f pe b d]. destruct a; cbn [pstep pf pend pbuf deliv].
    - destruct pe as [|[c|s] r]; [discriminate| |].
      + intros H; injection H as <-. cbn. lia.
      + destruct (pass f s).
        * destruct (length b <? cap)%nat; [|discriminate]. intros H; injection H as <-.
          cbn [pf pend pbuf deliv length]. rewrite app_length. cbn. lia.
        * intros H; injection H as <-. cbn. lia.
    - destruct b as [|x r]; [discriminate|]. intros H; injection H as <-. cbn. lia.
    - destruct pe as [|[c|s] r]; try discriminate. destruct b; [|discriminate].
      destruct (pass f s); [|discriminate]. intros H; injection H as <-. cbn. lia.
  Qed.

  Lemma pmove_total cap p a : ptotal (pmove matches cap p a) = ptotal p.
  Proof. unfold pmove. destruct (pstep matches cap p a) eqn:E; [eapply pstep_total; exact E|reflexivity]. Qed.

  Lemma prun_total_from cap sched p : ptotal (prun matches cap p sched) = ptotal p.
  Proof.
    revert p; induction sched as [|a sched IH]; intros p; [reflexivity|].
    cbn [prun fold_left]. fold (prun matches cap (pmove matches cap p a) sched). rewrite IH. apply pmove_total.
  Qed.

  (* for EVERY capacity and EVERY schedule of filter and consumer moves (so: however long the
     consumer does not read, however full the channel): delivered ++ in the channel ++ still owed
     is exactly what the rule lets through - no line lost, none duplicated, order kept *)
  Theorem pipe_loses_nothing cap sched evs :
    let p := prun matches cap (pinit evs) sched in
    deliv p ++ pbuf p ++ frun matches (pf p) (pend p) = frun matches fnew evs.
  Proof. cbv zeta. apply (prun_total_from cap sched (pinit evs)). Qed.

  (* so, once every event has been handled and the channel is drained, exactly the permitted lines
     have arrived *)
  Theorem pipe_finished_exact cap sched evs :
    pdone (prun matches cap (pinit evs) sched) = true ->
    deliv (prun matches cap (pinit evs) sched) = frun matches fnew evs.
  Proof.
    intros D. pose proof (pipe_loses_nothing cap sched evs) as T. cbv zeta in T.
    unfold pdone in D. apply andb_prop in D as [D1 D2].
    destruct (pend (prun matches cap (pinit evs) sched)); [|discriminate].
    destruct (pbuf (prun matches cap (pinit evs) sched)); [|discriminate].
    cbn in T. rewrite app_nil_r in T. exact T.
  Qed.

  (* at any moment (e.g. when the context is cancelled) what has arrived is a prefix of them *)
  Theorem pipe_delivered_is_prefix cap sched evs :
    exists rest, frun matches fnew evs = deliv (prun matches cap (pinit evs) sched) ++ rest.
  Proof. eexists. symmetry. apply (pipe_loses_nothing cap sched evs). Qed.

  (* never stuck: while something is left, the filter or the consumer can move *)
  Theorem pipe_progress cap p : pdone p = false -> exists a q, pstep matches cap p a = Some q.
  Proof.
    destruct p as [f pe b d]. unfold pdone. cbn [pend pbuf]. intros D.
    destruct b as [|x r].
    - destruct pe as [|[c|s] pe']; [discriminate| |].
      + exists StepFilter. eexists. reflexivity.
      + destruct (pass f s) eqn:P.
        * exists StepRendezvous. eexists. cbn [pstep pend pbuf pf]. rewrite P. reflexivity.
        * exists StepFilter. eexists. cbn [pstep pend pbuf pf]. rewrite P. reflexivity.
    - exists StepConsumer. eexists. reflexivity.
  Qed.

  (* and every move lowers the measure: a schedule that keeps moving finishes *)
  Theorem pipe_completes cap p : exists sched, pdone (prun matches cap p sched) = true.
  Proof.
    remember (pmeasure p) as n eqn:M. revert p M.
    induction n as [n IH] using lt_wf_ind. intros p M.
    destruct (pdone p) eqn:D; [exists []; exact D|].
    destruct (pipe_progress cap p D) as (a & q & S).
    destruct (IH (pmeasure q) ltac:(subst n; eapply pstep_measure; exact S) q eq_refl) as (sched & Hs).
    exists (a :: sched). cbn [prun fold_left]. unfold pmove at 2. rewrite S. exact Hs.
  Qed.
End Pass.
