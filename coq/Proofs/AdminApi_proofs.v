(* Lemmas about the JSON layer (Model/AdminJson.v) and the admin interface model (Model/AdminApi.v). *)
From Relay Require Import Base.Prelude Base.AList Model.AdminJson Model.AdminApi.
Local Open Scope N_scope.

(* ================================================================== bytes as map keys *)

Lemma beqb_spec (a b : bytes) : beqb a b = true <-> a = b.
Proof. unfold beqb. apply list_eqb_eq. intros x y. apply N.eqb_eq. Qed.

Lemma beqb_false_neq a b : beqb a b = false -> a <> b.
Proof. intros E H. apply beqb_spec in H. congruence. Qed.

(* ================================================================== strings: quote is accepted *)

Lemma sb_plain b r : 32 <= b -> b <> 34 -> b <> 92 -> string_body (b :: r) = string_body r.
Proof.
  intros H1 H2 H3. cbn [string_body].
  destruct (N.eqb_spec b 34) as [E|_]; [contradiction|].
  destruct (N.eqb_spec b 92) as [E|_]; [contradiction|].
  destruct (N.ltb_spec b 32) as [E|_]; [lia|]. reflexivity.
Qed.

Lemma sb_esc e r : is_simple_esc e = true -> string_body (92 :: e :: r) = string_body r.
Proof. intros H. cbn [string_body]. change (92 =? 34) with false. change (92 =? 92) with true. cbv iota. rewrite H. reflexivity. Qed.

Lemma sb_u h1 h2 h3 h4 r :
  is_hex h1 = true -> is_hex h2 = true -> is_hex h3 = true -> is_hex h4 = true ->
  string_body (92 :: 117 :: h1 :: h2 :: h3 :: h4 :: r) = string_body r.
Proof.
  intros A B C D. cbn [string_body]. change (92 =? 34) with false. change (92 =? 92) with true. cbv iota.
  change (is_simple_esc 117) with false. change (117 =? 117) with true. cbv iota.
  rewrite A, B, C, D. reflexivity.
Qed.

Lemma hexd_hex n : n < 16 -> is_hex (hexd n) = true.
Proof.
  intros H. unfold hexd, is_hex, is_digit.
  destruct (N.ltb_spec n 10) as [L|L].
  - replace ((48 <=? 48 + n) && (48 + n <=? 57)) with true; [reflexivity|]. symmetry. apply andb_true_iff. split; apply N.leb_le; lia.
  - replace ((97 <=? 87 + n) && (87 + n <=? 102)) with true; [apply orb_true_iff; left; apply orb_true_r|].
    symmetry. apply andb_true_iff. split; apply N.leb_le; lia.
Qed.

(* the next [k] bytes (as far as there are any) are >= 128 *)
Fixpoint high_prefix (k : nat) (l : bytes) : bool :=
  match k, l with
  | O, _ => true
  | S _, [] => true
  | S k', b :: r => (128 <=? b) && high_prefix k' r
  end.

Lemma is_cont_high c : is_cont c = true -> (128 <=? c) = true.
Proof. unfold is_cont. intros H. apply andb_true_iff in H. apply H. Qed.

Lemma in_rng_high lo hi c : 128 <= lo -> in_rng lo hi c = true -> (128 <=? c) = true.
Proof. unfold in_rng. intros Hlo H. apply andb_true_iff in H. destruct H as [H _]. apply N.leb_le in H. apply N.leb_le. lia. Qed.

Lemma utf8_len_high b r n : utf8_len b r = S n -> high_prefix n r = true.
Proof.
  unfold utf8_len. destruct r as [|c1 r1]; [discriminate|].
  destruct (in_rng 194 223 b).
  - destruct (is_cont c1) eqn:C1; [|discriminate]. intros H; inversion H; subst. cbn. rewrite (is_cont_high _ C1). reflexivity.
  - destruct (in_rng 224 239 b).
    + destruct r1 as [|c2 r2]; [discriminate|].
      match goal with |- (if ?c && _ then _ else _) = _ -> _ => destruct c eqn:O1 end; cbn [andb]; [|discriminate].
      destruct (is_cont c2) eqn:C2; [|discriminate]. intros H; inversion H; subst. cbn [high_prefix].
      rewrite (is_cont_high _ C2). cbn [andb]. rewrite andb_true_r.
      destruct (b =? 224); [apply (in_rng_high 160 191); [lia|exact O1]|].
      destruct (b =? 237); [apply (in_rng_high 128 159); [lia|exact O1]|]. apply is_cont_high; exact O1.
    + destruct (in_rng 240 244 b); [|discriminate].
      destruct r1 as [|c2 [|c3 r3]]; try discriminate.
      match goal with |- (if ?c && _ && _ then _ else _) = _ -> _ => destruct c eqn:O1 end; cbn [andb]; [|discriminate].
      destruct (is_cont c2) eqn:C2; cbn [andb]; [|discriminate].
      destruct (is_cont c3) eqn:C3; [|discriminate]. intros H; inversion H; subst. cbn [high_prefix].
      rewrite (is_cont_high _ C2), (is_cont_high _ C3). cbn [andb]. rewrite andb_true_r.
      destruct (b =? 240); [apply (in_rng_high 144 191); [lia|exact O1]|].
      destruct (b =? 244); [apply (in_rng_high 128 143); [lia|exact O1]|]. apply is_cont_high; exact O1.
Qed.

Lemma high_prefix_tail n b r : high_prefix (S n) (b :: r) = true -> 128 <= b /\ high_prefix n r = true.
Proof. cbn [high_prefix]. intros H. apply andb_true_iff in H. destruct H as [H1 H2]. apply N.leb_le in H1. auto. Qed.

Lemma quote_go_body l : forall keep drop rest,
  high_prefix keep l = true -> string_body (quote_go keep drop l ++ rest) = Some rest.
Proof.
  induction l as [|b r IH]; intros keep drop rest Hk.
  - cbn. reflexivity.
  - destruct keep as [|k].
    + destruct drop as [|d].
      * cbn [quote_go].
        destruct (N.ltb_spec b 128) as [Lt|Ge].
        -- destruct ((b =? 34) || (b =? 92)) eqn:Q.
           { cbn [app]. rewrite sb_esc; [apply IH; reflexivity|].
             apply orb_true_iff in Q. destruct Q as [Q|Q]; apply N.eqb_eq in Q; subst; reflexivity. }
           apply orb_false_iff in Q. destruct Q as [Q1 Q2]. apply N.eqb_neq in Q1, Q2.
           destruct (b =? 8); [cbn [app]; rewrite sb_esc; [apply IH|]; reflexivity|].
           destruct (b =? 12); [cbn [app]; rewrite sb_esc; [apply IH|]; reflexivity|].
           destruct (b =? 10); [cbn [app]; rewrite sb_esc; [apply IH|]; reflexivity|].
           destruct (b =? 13); [cbn [app]; rewrite sb_esc; [apply IH|]; reflexivity|].
           destruct (b =? 9); [cbn [app]; rewrite sb_esc; [apply IH|]; reflexivity|].
           destruct ((b <? 32) || (b =? 60) || (b =? 62) || (b =? 38)) eqn:C.
           { unfold esc_u00. cbn [app]. rewrite sb_u; [apply IH; reflexivity|reflexivity|reflexivity| |].
             - apply hexd_hex. apply N.div_lt_upper_bound; lia.
             - apply hexd_hex. apply N.mod_lt; lia. }
           cbn [app]. rewrite sb_plain; [apply IH; reflexivity| |exact Q1|exact Q2].
           apply orb_false_iff in C. destruct C as [C _]. apply orb_false_iff in C. destruct C as [C _].
           apply orb_false_iff in C. destruct C as [C _]. apply N.ltb_ge in C. exact C.
        -- destruct (utf8_len b r) as [|n] eqn:U.
           { cbn [app]. rewrite sb_u; [apply IH; reflexivity|reflexivity..]. }
           assert (Hplain : string_body ((b :: quote_go n 0 r) ++ rest) = Some rest).
           { cbn [app]. rewrite sb_plain; [apply IH; eapply utf8_len_high; exact U|lia|lia|lia]. }
           destruct r as [|c1 [|c2 r2]]; try exact Hplain.
           destruct ((b =? 226) && (c1 =? 128) && ((c2 =? 168) || (c2 =? 169))); [|exact Hplain].
           cbn [app]. rewrite sb_u; [apply IH; reflexivity|reflexivity|reflexivity|reflexivity|].
           apply hexd_hex. apply N.mod_lt; lia.
      * cbn [quote_go]. apply IH. reflexivity.
    + apply high_prefix_tail in Hk. destruct Hk as [Hb Hr]. cbn [quote_go app].
      rewrite sb_plain; [apply IH; exact Hr|lia|lia|lia].
Qed.

Lemma quote_body s rest : string_body (quote_go 0 0 s ++ rest) = Some rest.
Proof. apply quote_go_body. reflexivity. Qed.

(* ================================================================== values: print is accepted *)

Fixpoint print_elems (l : list jv) : bytes :=
  match l with
  | [] => [93]
  | x :: r => print x ++ match r with [] => [93] | _ :: _ => 44 :: print_elems r end
  end.

Fixpoint print_membs (m : list (bytes * jv)) : bytes :=
  match m with
  | [] => [125]
  | (k, x) :: r => quote k ++ 58 :: print x ++ match r with [] => [125] | _ :: _ => 44 :: print_membs r end
  end.

Lemma print_arr l : print (JArr l) = 91 :: print_elems l.
Proof.
  reflexivity.
Qed.

Lemma print_obj m : print (JObj m) = 123 :: print_membs m.
Proof.
  reflexivity.
Qed.

Section jv_induction.
  Variable P : jv -> Prop.
  Hypothesis Hn : P JNull.
  Hypothesis Hs : forall s, P (JStr s).
  Hypothesis Ha : forall l, Forall P l -> P (JArr l).
  Hypothesis Ho : forall m, Forall (fun kv => P (snd kv)) m -> P (JObj m).
  Fixpoint jv_ind' (v : jv) : P v :=
    match v with
    | JNull => Hn
    | JStr s => Hs s
    | JArr l => Ha l ((fix go (l : list jv) : Forall P l :=
                        match l with [] => Forall_nil _ | x :: r => Forall_cons _ (jv_ind' x) (go r) end) l)
    | JObj m => Ho m ((fix go (m : list (bytes * jv)) : Forall (fun kv => P (snd kv)) m :=
                        match m with [] => Forall_nil _ | kv :: r => Forall_cons _ (jv_ind' (snd kv)) (go r) end) m)
    end.
End jv_induction.

(* first byte of a printed value: never white space, never a closing bracket *)
Definition opener (b : N) : Prop := b = 110 \/ b = 34 \/ b = 91 \/ b = 123.

Lemma print_head v : exists b t, print v = b :: t /\ opener b.
Proof.
  destruct v as [|s|l|m].
  - exists 110, [117;108;108]. split; [reflexivity|left; reflexivity].
  - exists 34, (quote_go 0 0 s). split; [reflexivity|right; left; reflexivity].
  - rewrite print_arr. eexists _, _. split; [reflexivity|right; right; left; reflexivity].
  - rewrite print_obj. eexists _, _. split; [reflexivity|right; right; right; reflexivity].
Qed.

Lemma skip_ws_opener b t : opener b -> skip_ws (b :: t) = b :: t.
Proof. intros [H|[H|[H|H]]]; subst; reflexivity. Qed.

Definition accepted (x : jv) : Prop :=
  forall f rest, (2 * length (print x ++ rest) < f)%nat -> value f (print x ++ rest) = Some rest.

Lemma value_S f l :
  value (S f) l =
  match skip_ws l with
  | [] => None
  | b :: r =>
      if b =? 34 then string_body r
      else if b =? 123 then
        match skip_ws r with c :: r' => if c =? 125 then Some r' else members f r | [] => None end
      else if b =? 91 then
        match skip_ws r with c :: r' => if c =? 93 then Some r' else elements f r | [] => None end
      else if b =? 116 then lit w_true (b :: r)
      else if b =? 102 then lit w_false (b :: r)
      else if b =? 110 then lit w_null (b :: r)
      else if (b =? 45) || is_digit b then number b r
      else None
  end.
Proof. reflexivity. Qed.

Lemma elements_S f l :
  elements (S f) l =
  match value f l with
  | Some r1 =>
      match skip_ws r1 with
      | d :: r2 => if d =? 44 then elements f r2 else if d =? 93 then Some r2 else None
      | [] => None
      end
  | None => None
  end.
Proof. reflexivity. Qed.

Lemma members_S f l :
  members (S f) l =
  match skip_ws l with
  | q :: r =>
      if q =? 34 then
        match string_body r with
        | Some r1 =>
            match skip_ws r1 with
            | c :: r2 =>
                if c =? 58 then
                  match value f r2 with
                  | Some r3 =>
                      match skip_ws r3 with
                      | d :: r4 => if d =? 44 then members f r4 else if d =? 125 then Some r4 else None
                      | [] => None
                      end
                  | None => None
                  end
                else None
            | [] => None
            end
        | None => None
        end
      else None
  | [] => None
  end.
Proof. reflexivity. Qed.

Lemma elements_print l : l <> [] -> Forall accepted l ->
  forall f rest, (2 * length (print_elems l ++ rest) + 1 < f)%nat -> elements f (print_elems l ++ rest) = Some rest.
Proof.
  induction l as [|x r IH]; intros Hne Hall f rest Hf; [congruence|].
  inversion Hall as [|? ? Hx Hr]; subst.
  destruct f as [|f]; [lia|]. rewrite elements_S.
  cbn [print_elems] in *. rewrite <- app_assoc in *.
  rewrite (Hx f); [|lia].
  destruct r as [|y r'].
  - cbn. reflexivity.
  - cbn [app]. change (skip_ws (44 :: ?t)) with (44 :: t).
    change (44 =? 44) with true. cbv iota.
    apply IH; [discriminate|exact Hr|].
    rewrite app_length in Hf. cbn [length app] in Hf. lia.
Qed.

Ltac len_lia H :=
  cbn [length app] in H |- *; repeat (rewrite app_length in H; cbn [length app] in H);
  repeat (rewrite app_length; cbn [length app]); lia.

Lemma members_print m : m <> [] -> Forall (fun kv => accepted (snd kv)) m ->
  forall f rest, (2 * length (print_membs m ++ rest) < f)%nat -> members f (print_membs m ++ rest) = Some rest.
Proof.
  induction m as [|[k x] r IH]; intros Hne Hall f rest Hf; [congruence|].
  inversion Hall as [|? ? Hx Hr]; subst. cbn [snd] in Hx.
  destruct f as [|f]; [lia|]. rewrite members_S.
  cbn [print_membs] in *. unfold quote in *. cbn [app] in *.
  change (skip_ws (34 :: ?t)) with (34 :: t).
  rewrite <- app_assoc in *. rewrite quote_body. cbn [app] in *.
  change (skip_ws (58 :: ?t)) with (58 :: t).
  change (34 =? 34) with true. change (58 =? 58) with true. cbv iota.
  rewrite <- app_assoc in *.
  rewrite (Hx f); [|len_lia Hf].
  destruct r as [|y r'].
  - cbn. reflexivity.
  - cbn [app]. change (skip_ws (44 :: ?t)) with (44 :: t). change (44 =? 44) with true. cbv iota.
    apply IH; [discriminate|exact Hr|]. len_lia Hf.
Qed.

Lemma print_accepted v : accepted v.
Proof.
  induction v as [|s|l Hl|m Hm] using jv_ind'; intros f rest Hf; (destruct f as [|f]; [lia|]); rewrite value_S.
  - reflexivity.
  - cbn [print]. unfold quote. cbn [app]. change (skip_ws (34 :: ?t)) with (34 :: t).
    change (34 =? 34) with true. cbv iota. apply quote_body.
  - rewrite print_arr in *. cbn [app] in *. change (skip_ws (91 :: ?t)) with (91 :: t).
    change (91 =? 34) with false. change (91 =? 123) with false. change (91 =? 91) with true. cbv iota.
    destruct l as [|x r].
    + reflexivity.
    + destruct (print_head x) as [b [t [Hp Hb]]].
      assert (Hsk : skip_ws (print_elems (x :: r) ++ rest) = b :: (t ++ match r with [] => [93] | _ :: _ => 44 :: print_elems r end ++ rest)).
      { cbn [print_elems]. rewrite Hp. rewrite <- app_assoc. cbn [app]. apply skip_ws_opener. exact Hb. }
      rewrite Hsk.
      assert (Hb93 : (b =? 93) = false) by (destruct Hb as [H|[H|[H|H]]]; subst; reflexivity).
      rewrite Hb93. apply elements_print; [discriminate|exact Hl|]. cbn [length] in Hf. lia.
  - rewrite print_obj in *. cbn [app] in *. change (skip_ws (123 :: ?t)) with (123 :: t).
    change (123 =? 34) with false. change (123 =? 123) with true. cbv iota.
    destruct m as [|[k x] r].
    + reflexivity.
    + assert (Hsk : skip_ws (print_membs ((k, x) :: r) ++ rest) = print_membs ((k, x) :: r) ++ rest).
      { cbn [print_membs]. unfold quote. cbn [app]. reflexivity. }
      rewrite Hsk. cbn [print_membs]. unfold quote. cbn [app].
      change (34 =? 125) with false. cbv iota.
      change (34 :: quote_go 0 0 k ++ 58 :: print x ++ match r with [] => [125] | _ :: _ => 44 :: print_membs r end)
        with (print_membs ((k, x) :: r)) in *.
      change (34 :: (quote_go 0 0 k ++ 58 :: print x ++ match r with [] => [125] | _ :: _ => 44 :: print_membs r end) ++ rest)
        with (print_membs ((k, x) :: r) ++ rest).
      apply members_print; [discriminate|exact Hm|]. cbn [length] in Hf. lia.
Qed.

Theorem wf_print v : wf (print v) = true.
Proof.
  unfold wf. pose proof (print_accepted v (2 * length (print v) + 2)%nat []) as H.
  rewrite app_nil_r in H. rewrite H; [reflexivity|lia].
Qed.

Corollary wf_quote s : wf (quote s) = true.
Proof. exact (wf_print (JStr s)). Qed.

(* ================================================================== the admin commands *)

Section Admin.
  Variable dec_dest : bytes -> drule + bytes.
  Variable dec_stream : bytes -> srule + bytes.
  Variable api : bytes.

  Notation step := (step dec_dest dec_stream api).
  Notation run := (run dec_dest dec_stream api).
  Notation final := (final dec_dest dec_stream api).
  Notation sets_api_rule := (sets_api_rule dec_dest).
  Notation hstep := (hstep).

  Ltac split_step :=
    repeat match goal with
           | |- context [match ?x with _ => _ end] =>
               match x with
               | context [match _ with _ => _ end] => fail 1
               | _ => destruct x eqn:?
               end
           end.

  (* F11a repaired: no command makes the handler dereference a nil rule *)
  Lemma admin_total s c : snd (step repaired s c) <> Panic.
  Proof. unfold AdminApi.step. cbn [fx_nil fx_quote fx_delall repaired]. split_step; cbn [snd]; discriminate. Qed.

  Lemma admin_total_run cs : forall s, ~ In Panic (snd (run repaired s cs)).
  Proof.
    induction cs as [|c r IH]; intros s; cbn [AdminApi.run]; [intros []|].
    destruct (step repaired s c) as [s1 a] eqn:E. destruct (run repaired s1 r) as [s2 l] eqn:E2.
    cbn [snd]. intros [H|H].
    - apply (admin_total s c). rewrite E. exact H.
    - apply (IH s1). rewrite E2. exact H.
  Qed.

  Lemma wf_deleted_all : wf (bytes_of "{""deleted"":""deleteAll""}") = true.
  Proof. vm_compute. reflexivity. Qed.

  (* F11b repaired: whatever is put on the control topic is JSON *)
  Definition good_answer (a : answer) : Prop :=
    match a with Ok b => wf b = true | Err _ => True | Panic => False end.

  Lemma step_good_answer s c : good_answer (snd (step repaired s c)).
  Proof.
    unfold AdminApi.step, deleted_reply. cbn [fx_nil fx_quote fx_delall repaired].
    split_step; cbn [snd good_answer]; try exact I; try apply wf_print; try apply wf_deleted_all.
  Qed.

  Lemma reply_is_json s c b : render repaired (snd (step repaired s c)) = Some b -> wf b = true.
  Proof.
    pose proof (step_good_answer s c) as G. destruct (snd (step repaired s c)) as [b0|t|]; cbn [render good_answer] in *.
    - intros H. assert (b = b0) by congruence. subst. exact G.
    - cbn [fx_quote repaired]. intros H.
      assert (b = print (j_one (bytes_of "error") t)) by congruence. subst. apply wf_print.
    - contradiction.
  Qed.

  Definition answered_with_json (a : answer) : Prop := exists b, render repaired a = Some b /\ wf b = true.

  Lemma every_command_answered s c : answered_with_json (snd (step repaired s c)).
  Proof.
    pose proof (admin_total s c) as T. pose proof (reply_is_json s c) as J.
    destruct (snd (step repaired s c)) as [b|t|]; [| |congruence]; (eexists; split; [reflexivity|]; apply J; reflexivity).
  Qed.

  Lemma every_command_answered_run cs : forall s, Forall answered_with_json (snd (run repaired s cs)).
  Proof.
    induction cs as [|c r IH]; intros s; cbn [AdminApi.run]; [constructor|].
    pose proof (every_command_answered s c) as A.
    destruct (step repaired s c) as [s1 a] eqn:E. specialize (IH s1).
    destruct (run repaired s1 r) as [s2 l] eqn:E2. cbn [snd] in *. constructor; assumption.
  Qed.

  (* what is not even a command (the outer json.Unmarshal failed: not JSON, or a member of the wrong type) is
     refused with the plain error and changes nothing - in every variant of the code *)
  Lemma undecodable_is_refused fx s : step fx s None = (s, Err e_bad).
  Proof. reflexivity. Qed.

  (* an error is reported as the JSON object {"error": <text>} *)
  Lemma error_reply_is_error_object t :
    render repaired (Err t) = Some (print (JObj [(bytes_of "error", JStr t)])).
  Proof. reflexivity. Qed.

  (* ---- the busy window: what the handler takes it answers; what arrives while it is busy is dropped *)
  Notation trun := (trun dec_dest dec_stream api).
  Notation tstep := (tstep dec_dest dec_stream api).

  Definition taken_answered (o : option answer) : Prop :=
    match o with Some a => answered_with_json a | None => True end.

  Lemma command_taken_is_answered evs : forall t, Forall taken_answered (snd (trun repaired t evs)).
  Proof.
    induction evs as [|e r IH]; intros t; cbn [AdminApi.trun]; [constructor|].
    destruct e as [c|]; cbn [AdminApi.tstep].
    - destruct (t_busy t).
      + specialize (IH t). destruct (trun repaired t r) as [t2 l]. cbn [snd] in *. constructor; [exact I|exact IH].
      + pose proof (every_command_answered (t_st t) c) as A.
        destruct (step repaired (t_st t) c) as [s' a]. cbn [snd] in A.
        specialize (IH (mkt s' true)). destruct (trun repaired (mkt s' true) r) as [t2 l]. cbn [snd] in *.
        constructor; [exact A|exact IH].
    - specialize (IH (mkt (t_st t) false)). destruct (trun repaired (mkt (t_st t) false) r) as [t2 l]. exact IH.
  Qed.

  (* a command that arrives while the handler is busy changes nothing and is never answered *)
  Lemma busy_arrival_dropped fx t c : t_busy t = true -> tstep fx t (TArrive c) = (t, Some None).
  Proof. intros H. cbn [AdminApi.tstep]. rewrite H. reflexivity. Qed.

  (* a command answered with an error leaves both tables as they were (any variant of the code) *)
  Lemma invalid_keeps_rules fx s c t : snd (step fx s c) = Err t -> fst (step fx s c) = s.
  Proof. unfold AdminApi.step. split_step; cbn [snd fst]; intros H; try discriminate; reflexivity. Qed.

  Lemma panic_keeps_rules fx s c : snd (step fx s c) = Panic -> fst (step fx s c) = s.
  Proof. unfold AdminApi.step. split_step; cbn [snd fst]; intros H; try discriminate; reflexivity. Qed.

  (* ---- the control connection's own rule *)
  Definition has_api (s : st) : Prop := dlk k_apiRule (dests s) = Some (api_rule api).
  Definition api_present (s : st) : Prop := dlk k_apiRule (dests s) <> None.

  Lemma rwc_add_other t r : d_id r <> k_apiRule -> dlk k_apiRule (rwc_add t r) = dlk k_apiRule t.
  Proof.
    intros Hn. unfold rwc_add. destruct (beqb (d_id r) k_deleteAll); [reflexivity|].
    apply (lookup_insert_neq beqb beqb_spec). congruence.
  Qed.

  Lemma rwc_add_api t r : d_id r = k_apiRule -> dlk k_apiRule (rwc_add t r) = Some r.
  Proof.
    intros He. unfold rwc_add. rewrite He. change (beqb k_apiRule k_deleteAll) with false. cbv iota.
    apply (lookup_insert_eq beqb beqb_spec).
  Qed.

  Lemma rwc_delete_other t w : w <> k_apiRule -> w <> k_deleteAll -> dlk k_apiRule (rwc_delete t w) = dlk k_apiRule t.
  Proof.
    intros Hn Hd. unfold rwc_delete. destruct (beqb w k_deleteAll) eqn:E; [apply beqb_spec in E; contradiction|].
    apply (lookup_remove_neq beqb beqb_spec). congruence.
  Qed.

  Hypothesis api_configured : api <> [].

  Lemma is_nil_api : is_nil api = false.
  Proof. destruct api; [contradiction|reflexivity]. Qed.

  (* one step: unless the command itself rewrites apiRule, the rule is exactly what it was *)
  Lemma step_keeps_api s c : has_api s -> sets_api_rule c = false -> has_api (fst (step repaired s c)).
  Proof.
    unfold has_api, AdminApi.sets_api_rule, AdminApi.step. cbn [fx_nil fx_quote fx_delall repaired andb].
    intros Hs Hc. rewrite is_nil_api.
    split_step; cbn [fst dests]; try exact Hs.
    - (* add destination, rule decodes *)
      cbn [negb andb] in Hc. rewrite rwc_add_other; [exact Hs|]. cbn [d_id]. apply beqb_false_neq. exact Hc.
    - (* delete all / deleteAll *)
      apply rwc_add_api. reflexivity.
    - (* delete one *)
      match goal with H : _ || _ = false |- _ => apply orb_false_iff in H; destruct H as [_ Hd] end.
      rewrite rwc_delete_other; [exact Hs| |]; apply beqb_false_neq; assumption.
  Qed.

  (* delete-all (which = "all" or the reserved id "deleteAll") re-creates the control connection's rule in the
     same step, whatever the table held before - even a rule that an earlier "add" had put under that id *)
  Definition c_delete_dest (w : bytes) : option command := Some (mkc k_delete k_destination w None).

  Lemma delete_all_recreates_api_rule s w :
    w = k_all \/ w = k_deleteAll ->
    has_api (fst (step repaired s (c_delete_dest w))) /\
    forall id, id <> k_apiRule -> dlk id (dests (fst (step repaired s (c_delete_dest w)))) = None.
  Proof.
    intros Hw. unfold has_api, AdminApi.step, c_delete_dest.
    cbn [verb what which rule fx_nil fx_quote fx_delall repaired andb].
    change (beqb k_delete k_healthcheck) with false. change (beqb k_destination k_destination) with true.
    change (beqb k_delete k_add) with false. change (beqb k_delete k_delete) with true. cbv iota.
    rewrite is_nil_api.
    assert (E : is_nil w = false /\ (beqb w k_all || beqb w k_deleteAll) = true).
    { destruct Hw as [->| ->]; split; reflexivity. }
    destruct E as [E1 E2]. rewrite E1, E2. cbn [fst dests].
    split; [apply rwc_add_api; reflexivity|].
    intros id Hid. unfold rwc_add, rwc_delete. cbn [d_id api_rule].
    change (beqb k_apiRule k_deleteAll) with false. change (beqb k_deleteAll k_deleteAll) with true. cbv iota.
    rewrite (lookup_insert_neq beqb beqb_spec); [reflexivity|exact Hid].
  Qed.

  Lemma final_keeps_api cs : forall s,
    has_api s -> forallb (fun c => negb (sets_api_rule c)) cs = true -> has_api (final repaired s cs).
  Proof.
    induction cs as [|c r IH]; intros s Hs Hall; [exact Hs|].
    cbn [forallb] in Hall. apply andb_true_iff in Hall. destruct Hall as [Hc Hr].
    unfold AdminApi.final. cbn [fold_left]. apply IH; [|exact Hr].
    apply step_keeps_api; [exact Hs|]. apply negb_true_iff. exact Hc.
  Qed.

  (* any command at all: a rule with the id apiRule is still there afterwards *)
  Lemma step_api_present s c : api_present s -> api_present (fst (step repaired s c)).
  Proof.
    unfold api_present, AdminApi.step. cbn [fx_nil fx_quote fx_delall repaired andb].
    intros Hs. rewrite is_nil_api.
    split_step; cbn [fst dests]; try exact Hs.
    - (* add destination *)
      match goal with |- dlk _ (rwc_add _ ?r) <> None =>
        destruct (beqb (AdminApi.d_id r) k_apiRule) eqn:E;
        [apply beqb_spec in E; rewrite (rwc_add_api _ r E); discriminate
        |rewrite rwc_add_other; [exact Hs|apply beqb_false_neq; exact E]] end.
    - rewrite rwc_add_api; [discriminate|reflexivity].
    - match goal with H : _ || _ = false |- _ => apply orb_false_iff in H; destruct H as [_ Hd] end.
      rewrite rwc_delete_other; [exact Hs| |]; apply beqb_false_neq; assumption.
  Qed.

  Lemma final_api_present cs : forall s, api_present s -> api_present (final repaired s cs).
  Proof.
    induction cs as [|c r IH]; intros s Hs; [exact Hs|].
    unfold AdminApi.final. cbn [fold_left]. apply IH. apply step_api_present. exact Hs.
  Qed.
End Admin.

(* ---- the HTTP rule API: always a status from {200, 404, 500}; 200 bodies are JSON *)
Lemma http_total s q :
  let r := snd (hstep s q) in
  (fst r = 200 /\ wf (snd r) = true) \/ (fst r = 404 /\ exists n, q = HStreamShow n) \/
  (fst r = 500 /\ ((exists t, q = HDestAdd (inr t)) \/ exists t, q = HStreamAdd (inr t))).
Proof.
  destruct q as [[r|t]|id| |id|[r|t]|n| |n]; cbn [hstep snd fst].
  - left. split; [reflexivity|apply wf_print].
  - right. right. split; [reflexivity|left; eexists; reflexivity].
  - left. split; [reflexivity|apply wf_quote].
  - left. split; [reflexivity|apply wf_print].
  - left. split; [reflexivity|apply wf_print].
  - left. split; [reflexivity|apply wf_print].
  - right. right. split; [reflexivity|right; eexists; reflexivity].
  - left. split; [reflexivity|apply wf_quote].
  - left. split; [reflexivity|apply wf_print].
  - destruct (slk n (streams s)); cbn [snd fst].
    + left. split; [reflexivity|apply wf_print].
    + right. left. split; [reflexivity|eexists; reflexivity].
Qed.

(* an HTTP request answered with anything but 200 leaves both tables as they were *)
Lemma http_error_keeps_rules s q : fst (snd (hstep s q)) <> 200 -> fst (hstep s q) = s.
Proof.
  destruct q as [[r|t]|id| |id|[r|t]|n| |n]; cbn [hstep snd fst]; intros H; try reflexivity; try (exfalso; apply H; reflexivity).
  destruct (slk n (streams s)); cbn [fst snd] in *; [exfalso; apply H; reflexivity|reflexivity].
Qed.

(* ---- what the pinned tree did (F11a, F11b, F11c): witnesses, for any oracle *)
Definition c_add_stream_norule := Some (mkc k_add k_stream [] None).
Definition c_delete_quote := Some (mkc k_delete k_destination (bytes_of "a""b") None).
Definition c_delete_deleteAll := Some (mkc k_delete k_destination k_deleteAll None).

Lemma pinned_panics dd ds api s : snd (step dd ds api pinned s c_add_stream_norule) = Panic.
Proof. reflexivity. Qed.

Lemma pinned_reply_not_json dd ds api s :
  exists b, render pinned (snd (step dd ds api pinned s c_delete_quote)) = Some b /\ wf b = false.
Proof. eexists. split; [reflexivity|vm_compute; reflexivity]. Qed.

Lemma pinned_loses_api_rule dd ds api :
  let s := mkst [(k_apiRule, api_rule api)] [] in
  dlk k_apiRule (dests s) = Some (api_rule api) /\
  dlk k_apiRule (dests (fst (step dd ds api pinned s c_delete_deleteAll))) = None.
Proof. split; reflexivity. Qed.

(* ---- F17: two commands back to back on the control topic: the second arrives while the handler is busy with
   the first and is never answered (for every oracle, every state) *)
Definition c_healthcheck := Some (mkc k_healthcheck [] [] None).

Lemma second_back_to_back_command_unanswered dd ds api s :
  snd (trun dd ds api repaired (mkt s false) [TArrive c_healthcheck; TArrive c_healthcheck; TReady]) =
  [Some (Ok (print (j_one k_healthcheck (bytes_of "ok")))); None].
Proof. reflexivity. Qed.
