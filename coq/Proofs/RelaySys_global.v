(* C07, provenance over whole executions: nothing is cancelled that no request cancelled.
   For every schedule from an initial pool of handler threads:
   - a booking is on the deny list only if the pool contains a deny request naming it;
   - a notification is in the deny channel only if the pool contains a deny request naming that booking;
   - the relay closes a connection's deny channel only if the connection exchanged a code of a booking
     that some deny request of the pool names.
   Together with deny_refuses_new this is the global form of "other bookings are unaffected". *)
From Relay Require Import Base.Prelude Model.RelaySys Proofs.RelaySys_proofs.

(* what never changes about a thread: the request it serves *)
Definition request_of (t : thread) : thread :=
  match t with
  | TSession b _ _ => TSession b 0 0
  | TDeny b e _ => TDeny b e 0
  | TAllow b _ => TAllow b 0
  | TWs c _ _ => TWs c 0 None
  | TLeave k _ => TLeave k 0
  | TPrune t _ => TPrune t 0
  end.

(* the token of a websocket thread, once exchanged, stays *)
Definition tok_of (t : thread) : option N := match t with TWs _ _ tok => tok | _ => None end.

Definition denies (t : thread) (b : N) : Prop := exists e pc, t = TDeny b e pc.

Record G (ts : list thread) (s : sys) : Prop := {
  g_len : length (threads s) = length ts;
  g_t0 : forall i c tok, thr s i = Some (TWs c 0 tok) -> tok = None;
  g_req : forall i t, thr s i = Some t -> exists t0, nth_error ts i = Some t0 /\ request_of t0 = request_of t;
  g_q : forall b, In b (q s) -> exists i t, thr s i = Some t /\ denies t b;
  g_d : forall b, memN b (deny s) = true -> exists i t, thr s i = Some t /\ denies t b;
  g_c : forall k b, In (k, b) (chm s) -> exists t, thr s k = Some t /\ tok_of t = Some b;
  g_p : forall k, memn k (closed s) = true ->
        exists t b i t', thr s k = Some t /\ tok_of t = Some b /\ thr s i = Some t' /\ denies t' b
}.

Lemma G_init ts cs n : Forall initial_thread ts -> G ts (init ts cs n).
Proof.
  intros Hall. constructor; cbn.
  - reflexivity.
  - intros i c tok Hi. unfold thr in Hi; cbn in Hi. apply nth_error_In in Hi. rewrite Forall_forall in Hall.
    specialize (Hall _ Hi). cbn in Hall. exact (proj2 Hall).
  - intros i t Hi. exists t. split; [exact Hi|reflexivity].
  - intros b [].
  - intros b Hb. discriminate.
  - intros k b [].
  - intros k Hk. discriminate.
Qed.

(* one thread step, seen from outside: thread i moves from t to t' keeping its request and any token it has;
   every other thread is untouched *)
Definition evolves (t t' : thread) : Prop :=
  request_of t' = request_of t /\ (forall b, tok_of t = Some b -> tok_of t' = Some b).

Lemma thr_with s s0 i t t' j :
  threads s0 = threads s -> thr s i = Some t ->
  thr (with_threads s0 (upd (threads s) i t')) j = if Nat.eqb i j then Some t' else thr s j.
Proof. intros H Hi. rewrite (thr_put s s0 i t' j H), Hi. reflexivity. Qed.

Lemma upd_length {A} (l : list A) i x : length (upd l i x) = length l.
Proof. revert i; induction l as [|a l IH]; intros [|i]; cbn; auto. Qed.

(* persistence of facts about some thread across a move of thread i *)
Lemma keep_denies s s0 i t t' b :
  threads s0 = threads s -> thr s i = Some t -> evolves t t' ->
  (exists j u, thr s j = Some u /\ denies u b) ->
  exists j u, thr (with_threads s0 (upd (threads s) i t')) j = Some u /\ denies u b.
Proof.
  intros H Hi [Hr _] [j [u [Hj [e [pc ->]]]]].
  destruct (Nat.eq_dec i j) as [->|Hn].
  - rewrite Hi in Hj. inversion Hj; subst t. exists j, t'. split.
    + rewrite (thr_with s s0 j _ t' j H Hi), Nat.eqb_refl. reflexivity.
    + destruct t'; cbn in Hr; try discriminate. inversion Hr; subst. eexists _, _; reflexivity.
  - exists j, (TDeny b e pc). split; [|eexists _, _; reflexivity].
    rewrite (thr_with s s0 i t t' j H Hi). destruct (Nat.eqb_spec i j); [contradiction|exact Hj].
Qed.

Lemma keep_tok s s0 i t t' k b :
  threads s0 = threads s -> thr s i = Some t -> evolves t t' ->
  (exists u, thr s k = Some u /\ tok_of u = Some b) ->
  exists u, thr (with_threads s0 (upd (threads s) i t')) k = Some u /\ tok_of u = Some b.
Proof.
  intros H Hi [_ Ht] [u [Hk Hu]].
  destruct (Nat.eq_dec i k) as [->|Hn].
  - rewrite Hi in Hk. inversion Hk; subst t. exists t'. split; [|apply Ht; exact Hu].
    rewrite (thr_with s s0 k _ t' k H Hi), Nat.eqb_refl. reflexivity.
  - exists u. split; [|exact Hu]. rewrite (thr_with s s0 i t t' k H Hi). destruct (Nat.eqb_spec i k); [contradiction|exact Hk].
Qed.

(* the generic preservation step: the stores of s0 relate to those of s as a thread step allows *)
Lemma G_put ts s s0 i t t' :
  G ts s -> threads s0 = threads s -> thr s i = Some t -> evolves t t' ->
  (forall c tok, t' = TWs c 0 tok -> tok = None) ->
  (forall b, In b (q s0) -> In b (q s) \/ denies t' b) ->
  (forall b, memN b (deny s0) = true -> memN b (deny s) = true \/ denies t' b) ->
  (forall k b, In (k, b) (chm s0) -> In (k, b) (chm s) \/ (k = i /\ tok_of t' = Some b)) ->
  closed s0 = closed s ->
  G ts (with_threads s0 (upd (threads s) i t')).
Proof.
  intros [HL HT HR HQ HD HC HP] Hts Hi Hev Ht0 Hq Hd Hc Hcl.
  assert (Hself : thr (with_threads s0 (upd (threads s) i t')) i = Some t')
    by (rewrite (thr_with s s0 i t t' i Hts Hi), Nat.eqb_refl; reflexivity).
  constructor.
  - cbn. rewrite upd_length. exact HL.
  - intros j c tok Hj. rewrite (thr_with s s0 i t t' j Hts Hi) in Hj. destruct (Nat.eqb_spec i j) as [->|Hn].
    + inversion Hj. exact (Ht0 c tok H0).
    + exact (HT j c tok Hj).
  - intros j u Hj. rewrite (thr_with s s0 i t t' j Hts Hi) in Hj. destruct (Nat.eqb_spec i j) as [->|Hn].
    + inversion Hj; subst u. destruct (HR j t Hi) as [t0 [H0 Hr0]]. exists t0. split; [exact H0|].
      destruct Hev as [Hr _]. rewrite Hr. exact Hr0.
    + exact (HR j u Hj).
  - intros b Hb. cbn in Hb. destruct (Hq b Hb) as [H|H].
    + apply (keep_denies s s0 i t t' b Hts Hi Hev). exact (HQ b H).
    + exists i, t'. split; [exact Hself|exact H].
  - intros b Hb. cbn in Hb. destruct (Hd b Hb) as [H|H].
    + apply (keep_denies s s0 i t t' b Hts Hi Hev). exact (HD b H).
    + exists i, t'. split; [exact Hself|exact H].
  - intros k b Hb. cbn in Hb. destruct (Hc k b Hb) as [H|[-> H]].
    + apply (keep_tok s s0 i t t' k b Hts Hi Hev). exact (HC k b H).
    + exists t'. split; [exact Hself|exact H].
  - intros k Hk. cbn in Hk. rewrite Hcl in Hk. destruct (HP k Hk) as [u [b [j [u' [Hu [Htok [Hj Hden]]]]]]].
    destruct (keep_tok s s0 i t t' k b Hts Hi Hev (ex_intro _ u (conj Hu Htok))) as [v [Hv Hvt]].
    destruct (keep_denies s s0 i t t' b Hts Hi Hev (ex_intro _ j (ex_intro _ u' (conj Hj Hden)))) as [j' [v' [Hj' Hd']]].
    exists v, b, j', v'. repeat split; assumption.
Qed.

Lemma in_filter_sub {A} (f : A -> bool) x l : In x (filter f l) -> In x l.
Proof. intros H. apply filter_In in H. exact (proj1 H). Qed.

Lemma evolves_refl_req t t' : request_of t' = request_of t -> tok_of t = None -> evolves t t'.
Proof. intros H Hn. split; [exact H|]. intros b Hb. rewrite Hn in Hb. discriminate. Qed.

Ltac ev := first [apply evolves_refl_req; [reflexivity|reflexivity] | split; [reflexivity | let b := fresh in let H := fresh in intros b H; cbn in *; exact H]].
Ltac t0 := let c := fresh in let tk := fresh in let H := fresh in intros c tk H; discriminate H.

Lemma step_G ts s w s' : G ts s -> step s w = Some s' -> G ts s'.
Proof.
  intros HG Hstep. destruct w as [i|]; cbn [step] in Hstep.
  2:{ (* the deny loop: closes exactly the recorded channels of the booking it was notified of *)
    destruct HG as [HL HT HR HQ HD HC HP].
    unfold denyloop in Hstep. destruct (q s) as [|b0 r] eqn:Hq; [discriminate|]. inversion Hstep; subst s'; clear Hstep.
    constructor; cbn.
    - exact HL.
    - exact HT.
    - exact HR.
    - intros b Hb. apply HQ. right. exact Hb.
    - exact HD.
    - intros k b Hb. apply in_filter_sub in Hb. exact (HC k b Hb).
    - intros k Hk. rewrite memn_app in Hk. apply orb_true_iff in Hk. destruct Hk as [Hk|Hk]; [|exact (HP k Hk)].
      apply memn_in in Hk. apply in_map_iff in Hk. destruct Hk as [[k' b'] [Hk' Hin]]. cbn in Hk'. subst k'.
      apply filter_In in Hin. destruct Hin as [Hin Hb]. cbn in Hb. apply N.eqb_eq in Hb. subst b'.
      destruct (HC k b0 Hin) as [u [Hu Htok]].
      destruct (HQ b0) as [j [u' [Hj Hden]]]; [left; reflexivity|].
      exists u, b0, j, u'. repeat split; assumption. }
  tstep_inv Hstep Hnth.
  all: try (inversion Hstep; subst s'; clear Hstep).
  - (* TSession 0 *)
    destruct (memN b (deny s)) eqn:Hden; inversion Hstep; subst s'; clear Hstep.
    + apply (G_put ts s s i _ _ HG eq_refl Hnth); [ev|t0|auto|auto|auto|reflexivity].
    + apply (G_put ts s (op_track s b) i _ _ HG eq_refl Hnth); [ev|t0|cbn; auto|cbn; auto|cbn; auto|reflexivity].
  - (* TSession 1 *)
    apply (G_put ts s (op_submit s b) i _ _ HG eq_refl Hnth); [ev|t0|cbn; auto|cbn; auto|cbn; auto|reflexivity].
  - (* TDeny 0: on the deny list, by this very request *)
    apply (G_put ts s (op_deny_until s b e) i _ _ HG eq_refl Hnth); [ev|t0|cbn; auto| |cbn; auto|reflexivity].
    intros b' Hb'. cbn in Hb'. rewrite memN_cons in Hb'. apply orb_true_iff in Hb'. destruct Hb' as [Hb'|Hb'].
    + apply N.eqb_eq in Hb'. subst b'. right. eexists _, _; reflexivity.
    + left. unfold rmN in Hb'. eapply memN_filter_sub; exact Hb'.
  - (* TDeny 1 *)
    apply (G_put ts s (op_purge s b) i _ _ HG eq_refl Hnth); [ev|t0|cbn; auto|cbn; auto|cbn; auto|reflexivity].
  - (* TDeny 2: notification, by this very request *)
    apply (G_put ts s (op_notify s b) i _ _ HG eq_refl Hnth); [ev|t0| |cbn; auto|cbn; auto|reflexivity].
    intros b' Hb'. cbn in Hb'. apply in_app_or in Hb'. destruct Hb' as [Hb'|[->|[]]]; [left; exact Hb'|right; eexists _, _; reflexivity].
  - (* TAllow 0 *)
    apply (G_put ts s (op_allow s b) i _ _ HG eq_refl Hnth); [ev|t0|cbn; auto| |cbn; auto|reflexivity].
    intros b' Hb'. cbn in Hb'. left. unfold rmN in Hb'. eapply memN_filter_sub; exact Hb'.
  - (* TWs 0 with a token: not reachable *)
    exfalso. destruct HG as [_ HT _ _ _ _ _]. specialize (HT i c (Some b) Hnth). discriminate.
  - (* TWs 0: exchange; the channel is recorded under the booking of the code *)
    destruct (lookupc c (codes s)) as [b|] eqn:Hl; inversion Hstep; subst s'; clear Hstep.
    + apply (G_put ts s (op_exchange_record s c i b) i _ _ HG eq_refl Hnth); [ev|t0|cbn; auto|cbn; auto| |reflexivity].
      intros k b' Hb'. cbn in Hb'. destruct Hb' as [Hb'|Hb']; [inversion Hb'; subst; right; split; reflexivity|left; exact Hb'].
    + apply (G_put ts s s i _ _ HG eq_refl Hnth); [ev|t0|auto|auto|auto|reflexivity].
  - (* TWs 1: re-check *)
    destruct (memN b (deny s)) eqn:Hden; inversion Hstep; subst s'; clear Hstep.
    + apply (G_put ts s (op_delchild s i) i _ _ HG eq_refl Hnth); [ev|t0|cbn; auto|cbn; auto| |reflexivity].
      intros k b' Hb'. cbn in Hb'. left. eapply in_filter_sub; exact Hb'.
    + apply (G_put ts s s i _ _ HG eq_refl Hnth); [ev|t0|auto|auto|auto|reflexivity].
  - (* TWs 2: register *)
    apply (G_put ts s (op_register s i b) i _ _ HG eq_refl Hnth); [ev|t0|cbn; auto|cbn; auto|cbn; auto|reflexivity].
  - (* TLeave *)
    apply (G_put ts s (op_drop s k0) i _ _ HG eq_refl Hnth); [ev|t0|cbn; auto|cbn; auto| |reflexivity].
    intros k b' Hb'. cbn in Hb'. left. eapply in_filter_sub; exact Hb'.
  - (* TPrune: only removes from the deny list *)
    apply (G_put ts s (op_prune s tm) i _ _ HG eq_refl Hnth); [ev|t0|cbn; auto| |cbn; auto|reflexivity].
    intros b' Hb'. cbn in Hb'. left. eapply memN_filter_sub; exact Hb'.
Qed.

Lemma run_G ts sched : forall s, G ts s -> G ts (run sched s).
Proof.
  induction sched as [|w r IH]; intros s H; cbn; [exact H|].
  destruct (step s w) as [s'|] eqn:E; [apply IH; eapply step_G; eassumption|apply IH; exact H].
Qed.

(* ---- the statements ---- *)

(* a booking is on the deny list only if a deny request of the pool names it *)
Theorem denied_only_if_requested ts cs n sched b :
  Forall initial_thread ts ->
  memN b (deny (run sched (init ts cs n))) = true ->
  exists j e, nth_error ts j = Some (TDeny b e 0).
Proof.
  intros Hall Hd. assert (HG : G ts (run sched (init ts cs n))) by (apply run_G, G_init; exact Hall).
  destruct (g_d ts _ HG b Hd) as [i [t [Hi [e [pc ->]]]]].
  destruct (g_req ts _ HG i _ Hi) as [t0 [H0 Hr]]. exists i, e.
  rewrite Forall_forall in Hall. specialize (Hall t0 (nth_error_In _ _ H0)).
  destruct t0; cbn in Hr; try discriminate. inversion Hr; subst. cbn in Hall. subst pc0. exact H0.
Qed.

(* the relay closes a connection's deny channel only if that connection exchanged a code of a booking which a
   deny request of the pool names *)
Theorem closed_only_if_denied ts cs n sched k :
  Forall initial_thread ts ->
  memn k (closed (run sched (init ts cs n))) = true ->
  exists c pc b j e, thr (run sched (init ts cs n)) k = Some (TWs c pc (Some b)) /\ nth_error ts j = Some (TDeny b e 0).
Proof.
  intros Hall Hk. assert (HG : G ts (run sched (init ts cs n))) by (apply run_G, G_init; exact Hall).
  destruct (g_p ts _ HG k Hk) as [t [b [i [t' [Ht [Htok [Hi [e [pc ->]]]]]]]]].
  destruct (g_req ts _ HG i _ Hi) as [t0 [H0 Hr]].
  rewrite Forall_forall in Hall. specialize (Hall t0 (nth_error_In _ _ H0)).
  destruct t0; cbn in Hr; try discriminate. inversion Hr; subst. cbn in Hall. subst pc0.
  destruct t; cbn in Htok; try discriminate. subst tok. eexists _, _, b, i, e. split; [exact Ht|exact H0].
Qed.

(* hence: with no deny request for b in the pool, whatever else runs, every session request for b that reaches its
   deny check passes it, and no connection made under b is ever closed by the relay *)
Theorem undenied_booking_is_served ts cs n sched b i st :
  Forall initial_thread ts ->
  (forall j e, nth_error ts j <> Some (TDeny b e 0)) ->
  thr (run sched (init ts cs n)) i = Some (TSession b 0 st) ->
  tstep (run sched (init ts cs n)) i =
    Some (with_threads (op_track (run sched (init ts cs n)) b) (upd (threads (run sched (init ts cs n))) i (TSession b 1 0))).
Proof.
  intros Hall Hno Hi. unfold tstep. unfold thr in Hi. rewrite Hi.
  destruct (memN b (deny (run sched (init ts cs n)))) eqn:Hd; [|reflexivity].
  exfalso. destruct (denied_only_if_requested ts cs n sched b Hall Hd) as [j [e Hj]]. exact (Hno j e Hj).
Qed.
