(* Lemmas about the ingest model (Model/Ingest.v): every statement is over ALL event lists, i.e. every
   chunking of the input, every placement of the flushes, every consumer delay. *)
From Relay Require Import Base.Prelude Model.Ingest.

(* ------------------------------------------------------------------ generalities *)

Lemma run_snoc byref maxf s evs e : run byref maxf s (evs ++ [e]) = step byref maxf (run byref maxf s evs) e.
Proof. unfold run. rewrite fold_left_app. reflexivity. Qed.

Lemma input_of_app a b : input_of (a ++ b) = input_of a ++ input_of b.
Proof.
  induction a as [|e a IH]; [reflexivity|]. destruct e; cbn [app input_of]; rewrite ?IH, ?app_assoc; reflexivity.
Qed.

Lemma wsmsgs_of_app a b : wsmsgs_of (a ++ b) = wsmsgs_of a ++ wsmsgs_of b.
Proof.
  induction a as [|e a IH]; [reflexivity|]. destruct e; cbn [app wsmsgs_of]; rewrite ?IH; reflexivity.
Qed.

Lemma weave_snoc fs ds f d : length fs = length ds -> weave (fs ++ [f]) (ds ++ [d]) = weave fs ds ++ f ++ d.
Proof.
  revert ds; induction fs as [|x fs IH]; intros [|y ds] H; try discriminate.
  - cbn. rewrite app_nil_r. reflexivity.
  - cbn [app weave]. rewrite IH; [|cbn in H; lia]. rewrite <- !app_assoc. reflexivity.
Qed.

Definition is_ws_ev (e : ev) : bool := match e with WsMsg _ => true | _ => false end.
Definition is_flush (e : ev) : bool := match e with Flush => true | _ => false end.

(* ------------------------------------------------------------------ slices_of_input *)

(* frame k is full-size whenever something was thrown away after it *)
Definition frame_ok (maxf : nat) (f d : bytes) : Prop :=
  0 < length f <= maxf /\ (d <> [] -> length f = maxf).

Definition ts_inv (maxf : nat) (evs : list ev) (s : st) : Prop :=
  input_of evs = weave (handed s) (dropped s) ++ acc s /\ Forall2 (frame_ok maxf) (handed s) (dropped s).

Lemma Forall2_snoc {A B} (P : A -> B -> Prop) l1 l2 a b : Forall2 P l1 l2 -> P a b -> Forall2 P (l1 ++ [a]) (l2 ++ [b]).
Proof. intros H Hab. apply Forall2_app; [exact H|constructor; [exact Hab|constructor]]. Qed.

Lemma Forall2_length {A B} (P : A -> B -> Prop) l1 l2 : Forall2 P l1 l2 -> length l1 = length l2.
Proof. induction 1; cbn; congruence. Qed.

Lemma ts_inv_run byref maxf caps evs :
  0 < maxf -> forallb (fun e => negb (is_ws_ev e)) evs = true ->
  ts_inv maxf evs (run byref maxf (init caps) evs).
Proof.
  intros Hm. induction evs as [|e evs IH] using rev_ind; intros Hws.
  - split; [reflexivity|constructor].
  - rewrite forallb_app in Hws. apply andb_true_iff in Hws. destruct Hws as [Hws He].
    specialize (IH Hws). destruct IH as [Hin Hfr].
    rewrite run_snoc. set (s := run byref maxf (init caps) evs) in *.
    unfold ts_inv. rewrite input_of_app.
    destruct e as [chunk| |m|c|c|c]; cbn [step input_of handed dropped acc];
      try (rewrite app_nil_r; split; assumption).
    + (* Write *) rewrite app_nil_r, Hin, app_assoc. split; [reflexivity|exact Hfr].
    + (* Flush *)
      rewrite app_nil_r.
      destruct (firstn maxf (acc s)) as [|b fr] eqn:F.
      * cbn [handed dropped acc]. split; [|exact Hfr].
        assert (E : acc s = []).
        { destruct (acc s) as [|x a]; [reflexivity|]. destruct maxf; [lia|discriminate]. }
        rewrite Hin, E. reflexivity.
      * unfold broadcast. cbn [handed dropped acc]. rewrite <- F.
        split.
        -- rewrite weave_snoc; [|eapply Forall2_length; exact Hfr].
           rewrite app_nil_r, firstn_skipn. exact Hin.
        -- apply Forall2_snoc; [exact Hfr|]. split.
           ++ split; [rewrite F; cbn; lia|]. rewrite firstn_length. lia.
           ++ intros Hd. rewrite firstn_length.
              assert (maxf < length (acc s)); [|lia].
              destruct (Nat.lt_ge_cases maxf (length (acc s))) as [L|L]; [exact L|].
              exfalso. apply Hd. apply skipn_all2. exact L.
    + (* WsMsg: excluded *) cbn in He. discriminate.
Qed.

(* explicit positions: frame k sits at input[a_k, a_k + |f_k|), a_(k+1) = a_k + |f_k| + |d_k| *)
Fixpoint slices_at (inp : bytes) (pos : nat) (fs ds : list bytes) : Prop :=
  match fs, ds with
  | f :: fr, d :: dr =>
      firstn (length f) (skipn pos inp) = f /\ pos + length f <= length inp /\
      slices_at inp (pos + length f + length d) fr dr
  | _, _ => True
  end.

Lemma slices_at_weave fs : forall ds pre rest,
  slices_at (pre ++ weave fs ds ++ rest) (length pre) fs ds.
Proof.
  induction fs as [|f fr IH]; intros [|d dr] pre rest; cbn [slices_at]; try exact I.
  cbn [weave]. split; [|split].
  - rewrite skipn_app, skipn_all, Nat.sub_diag. cbn [app skipn].
    rewrite <- !app_assoc. rewrite firstn_app, firstn_all, Nat.sub_diag. cbn [firstn]. apply app_nil_r.
  - rewrite !app_length. lia.
  - specialize (IH dr (pre ++ f ++ d) rest).
    rewrite !app_length in IH. rewrite <- !app_assoc in IH. rewrite <- !app_assoc.
    replace (length pre + length f + length d) with (length pre + (length f + length d)) by lia. exact IH.
Qed.

Lemma slices_of_input byref maxf caps evs :
  0 < maxf -> forallb (fun e => negb (is_ws_ev e)) evs = true ->
  let s := run byref maxf (init caps) evs in
  slices_at (input_of evs) 0 (handed s) (dropped s) /\
  Forall2 (frame_ok maxf) (handed s) (dropped s) /\
  input_of evs = weave (handed s) (dropped s) ++ acc s.
Proof.
  intros Hm Hws s. destruct (ts_inv_run byref maxf caps evs Hm Hws) as [Hin Hfr]. fold s in Hin, Hfr.
  split; [|split; assumption].
  rewrite Hin. exact (slices_at_weave (handed s) (dropped s) [] (acc s)).
Qed.

(* nothing is thrown away as long as no more than a frame's worth has been written in total *)
Lemma weave_nils fs ds : Forall (fun d => d = []) ds -> length fs = length ds -> weave fs ds = concat fs.
Proof.
  revert ds; induction fs as [|f fr IH]; intros [|d dr] Hd Hl; try discriminate; [reflexivity|].
  inversion Hd as [|? ? Hd1 Hd2]; subst. cbn [weave concat app]. rewrite IH; [reflexivity|exact Hd2|cbn in Hl; lia].
Qed.

Lemma no_truncation_small_input byref maxf caps evs :
  0 < maxf -> forallb (fun e => negb (is_ws_ev e)) evs = true ->
  length (input_of evs) <= maxf ->
  let s := run byref maxf (init caps) evs in
  input_of evs = concat (handed s) ++ acc s.
Proof.
  intros Hm Hws Hlen s.
  assert (Hd : Forall (fun d => d = []) (dropped s)).
  { subst s. revert Hws Hlen. induction evs as [|e evs IH] using rev_ind; intros Hws Hlen; [constructor|].
    rewrite forallb_app in Hws. apply andb_true_iff in Hws. destruct Hws as [Hws He].
    rewrite input_of_app, app_length in Hlen.
    assert (Hl' : length (input_of evs) <= maxf) by lia. specialize (IH Hws Hl').
    destruct (ts_inv_run byref maxf caps evs Hm Hws) as [Hin _].
    rewrite run_snoc. set (s := run byref maxf (init caps) evs) in *.
    destruct e as [chunk| |m|c|c|c]; cbn [step dropped]; try exact IH.
    destruct (firstn maxf (acc s)) as [|b fr] eqn:F; cbn [dropped]; [exact IH|].
    unfold broadcast. cbn [dropped]. apply Forall_app. split; [exact IH|]. constructor; [|constructor].
    apply skipn_all2. assert (length (acc s) <= length (input_of evs)); [|lia].
    rewrite Hin, app_length. lia. }
  destruct (ts_inv_run byref maxf caps evs Hm Hws) as [Hin Hfr]. fold s in Hin, Hfr.
  rewrite Hin. rewrite weave_nils; [reflexivity|exact Hd|eapply Forall2_length; exact Hfr].
Qed.

(* ------------------------------------------------------------------ the lists [upd] touches *)

Lemma Forall_upd {A} (P : A -> Prop) (f : A -> A) i l :
  (forall x, P x -> P (f x)) -> Forall P l -> Forall P (upd i f l).
Proof.
  intros Hf. revert i; induction l as [|x r IH]; intros i H; [destruct i; constructor|].
  inversion H as [|? ? Hx Hr]; subst. destruct i; cbn [upd]; constructor; auto.
Qed.

Lemma Forall_map_same {A} (P : A -> Prop) (f : A -> A) l :
  (forall x, P x -> P (f x)) -> Forall P l -> Forall P (map f l).
Proof. intros Hf H. induction H; cbn; constructor; auto. Qed.

(* ------------------------------------------------------------------ content_stable *)

Definition held_ok (h : held) : Prop := fst h = Val (snd h).
Definition cons_ok (c : consumer) : Prop :=
  Forall held_ok (chanq c) /\ Forall held_ok (hand c) /\ got c = want c.

Lemma offer_ok h c : held_ok h -> cons_ok c -> cons_ok (offer h c).
Proof.
  intros Hh [Hq [Hh' Hg]]. unfold offer. destruct (busy c); [split; [|split]; assumption|].
  destruct (length (chanq c) <? cap c); [|split; [|split]; assumption].
  split; [|split]; cbn; try assumption. apply Forall_app. split; [exact Hq|constructor; [exact Hh|constructor]].
Qed.

Lemma take1_ok c : cons_ok c -> cons_ok (take1 c).
Proof.
  intros [Hq [Hh Hg]]. unfold take1. destruct (chanq c) as [|h q] eqn:E.
  - split; [rewrite E; constructor|split; assumption].
  - inversion Hq as [|? ? H1 H2]; subst. split; [|split]; cbn [chanq hand got want]; try assumption.
    apply Forall_app. split; [exact Hh|constructor; [exact H1|constructor]].
Qed.

Lemma consume1_ok fb c : cons_ok c -> cons_ok (consume1 fb c).
Proof.
  intros [Hq [Hh Hg]]. unfold consume1. destruct (hand c) as [|[m shown] r] eqn:E.
  - destruct (chanq c) as [|[m shown] q] eqn:E2.
    + split; [rewrite E2; constructor|split; [rewrite E; constructor|exact Hg]].
    + inversion Hq as [|? ? H1 H2]; subst. unfold held_ok in H1. cbn [fst snd] in H1. subst m.
      split; [|split]; cbn [chanq hand got want deref]; [exact H2|constructor|rewrite Hg; reflexivity].
  - inversion Hh as [|? ? H1 H2]; subst. unfold held_ok in H1. cbn [fst snd] in H1. subst m.
    split; [|split]; cbn [chanq hand got want deref]; [exact Hq|exact H2|rewrite Hg; reflexivity].
Qed.

(* a step that creates no window into the flush buffer keeps every consumer's view intact *)
Lemma step_cons_ok byref maxf s e :
  (byref = false \/ is_flush e = false) -> Forall cons_ok (cons s) -> Forall cons_ok (cons (step byref maxf s e)).
Proof.
  intros Hfresh H. destruct e as [chunk| |m|c|c|c]; cbn [step cons]; try exact H.
  - destruct (firstn maxf (acc s)) as [|b fr]; cbn [cons]; [exact H|].
    unfold broadcast. cbn [cons]. apply Forall_map_same; [|exact H].
    intros x Hx. apply offer_ok; [|exact Hx].
    destruct Hfresh as [->|Hf]; [reflexivity|discriminate].
  - apply Forall_map_same; [|exact H]. intros x Hx. apply offer_ok; [reflexivity|exact Hx].
  - apply Forall_upd; [|exact H]. intros x [A [B C]]. split; [|split]; assumption.
  - apply Forall_upd; [|exact H]. apply take1_ok.
  - apply Forall_upd; [|exact H]. apply consume1_ok.
Qed.

Lemma init_cons_ok caps : Forall cons_ok (cons (init caps)).
Proof. cbn. induction caps; cbn; constructor; auto. split; [|split]; constructor. Qed.

(* after the repair: whatever a consumer reads, whenever it reads it, is what was handed on *)
Lemma content_stable maxf caps evs :
  Forall (fun c => got c = want c) (cons (run false maxf (init caps) evs)).
Proof.
  assert (H : Forall cons_ok (cons (run false maxf (init caps) evs))).
  { induction evs as [|e evs IH] using rev_ind; [apply init_cons_ok|].
    rewrite run_snoc. apply step_cons_ok; [left; reflexivity|exact IH]. }
  eapply Forall_impl; [|exact H]. intros c [_ [_ Hg]]. exact Hg.
Qed.

(* websocket messages (ingest, or arriving from a destination) are slices of their own: stable even on
   the code before the repair, as long as no flush happens on the same host state *)
Lemma content_stable_ws byref maxf caps evs :
  forallb (fun e => negb (is_flush e)) evs = true ->
  Forall (fun c => got c = want c) (cons (run byref maxf (init caps) evs)).
Proof.
  intros Hnf.
  assert (H : Forall cons_ok (cons (run byref maxf (init caps) evs))).
  { induction evs as [|e evs IH] using rev_ind; [apply init_cons_ok|].
    rewrite forallb_app in Hnf. apply andb_true_iff in Hnf. destruct Hnf as [Hnf He].
    rewrite run_snoc. apply step_cons_ok; [right|exact (IH Hnf)].
    cbn in He. rewrite andb_true_r in He. apply negb_true_iff. exact He. }
  eapply Forall_impl; [|exact H]. intros c [_ [_ Hg]]. exact Hg.
Qed.

(* ------------------------------------------------------------------ order: no repeats, nothing backwards *)

Definition pending (c : consumer) : list bytes := want c ++ map snd (hand c) ++ map snd (chanq c).
Definition ordered (hs : list bytes) (c : consumer) : Prop := sub (pending c) hs.

Lemma sub_snoc_keep {A} (a b : list A) x : sub a b -> sub (a ++ [x]) (b ++ [x]).
Proof. induction 1; cbn; [repeat constructor|constructor; assumption|apply sub_skip; assumption]. Qed.

Lemma sub_snoc_skip {A} (a b : list A) x : sub a b -> sub a (b ++ [x]).
Proof. induction 1; cbn; [apply sub_skip; constructor|constructor; assumption|apply sub_skip; assumption]. Qed.

Lemma offer_ordered hs m shown c : ordered hs c -> ordered (hs ++ [shown]) (offer (m, shown) c).
Proof.
  unfold ordered, pending, offer. intros H. destruct (busy c).
  - cbn [want hand chanq]. apply sub_snoc_skip; exact H.
  - destruct (length (chanq c) <? cap c).
    + cbn [want hand chanq]. rewrite map_app. cbn [map snd]. rewrite !app_assoc. apply sub_snoc_keep.
      rewrite <- !app_assoc. exact H.
    + apply sub_snoc_skip; exact H.
Qed.

Lemma take1_pending c : pending (take1 c) = pending c.
Proof.
  unfold pending, take1. destruct (chanq c) as [|h q] eqn:E.
  - rewrite E. reflexivity.
  - cbn [want hand chanq]. rewrite map_app. cbn [map]. rewrite <- !app_assoc. reflexivity.
Qed.

Lemma consume1_pending fb c : pending (consume1 fb c) = pending c.
Proof.
  unfold pending, consume1. destruct (hand c) as [|[m shown] r] eqn:E.
  - destruct (chanq c) as [|[m shown] q] eqn:E2.
    + rewrite E, E2. reflexivity.
    + cbn [want hand chanq map snd app]. rewrite <- !app_assoc. reflexivity.
  - cbn [want hand chanq map snd app]. rewrite <- !app_assoc. reflexivity.
Qed.

Lemma step_ordered byref maxf s e :
  Forall (ordered (handed s)) (cons s) ->
  Forall (ordered (handed (step byref maxf s e))) (cons (step byref maxf s e)).
Proof.
  intros H. destruct e as [chunk| |m|c|c|c]; cbn [step cons handed]; try exact H.
  - destruct (firstn maxf (acc s)) as [|b fr]; cbn [cons handed]; [exact H|].
    unfold broadcast. cbn [cons handed]. induction H; cbn; constructor; auto. apply offer_ordered; assumption.
  - induction H; cbn; constructor; auto. apply offer_ordered; assumption.
  - apply Forall_upd; [|exact H]. intros x Hx. exact Hx.
  - apply Forall_upd; [|exact H]. intros x Hx. unfold ordered. rewrite take1_pending. exact Hx.
  - apply Forall_upd; [|exact H]. intros x Hx. unfold ordered. rewrite consume1_pending. exact Hx.
Qed.

Lemma sub_app_l {A} (a b c : list A) : sub (a ++ b) c -> sub a c.
Proof.
  revert a b. induction c as [|x c IH]; intros a b H.
  - inversion H as [E1| |]. destruct a; [constructor|discriminate].
  - destruct a as [|y a]; [clear H; induction (x :: c); [constructor|apply sub_skip; assumption]|].
    inversion H as [|? ? ? H1|? ? ? H1]; subst.
    + constructor. eapply IH. exact H1.
    + apply sub_skip. eapply IH. exact H1.
Qed.

(* every consumer's reads are hand-off contents, in hand-off order, none twice *)
Lemma reads_in_order byref maxf caps evs :
  let s := run byref maxf (init caps) evs in Forall (fun c => sub (want c) (handed s)) (cons s).
Proof.
  intros s.
  assert (H : Forall (ordered (handed s)) (cons s)).
  { subst s. induction evs as [|e evs IH] using rev_ind.
    - cbn. induction caps; cbn; constructor; auto. unfold ordered, pending. cbn. constructor.
    - rewrite run_snoc. apply step_ordered. exact IH. }
  eapply Forall_impl; [|exact H]. intros c Hc. unfold ordered, pending in Hc. eapply sub_app_l. exact Hc.
Qed.

(* repaired code: what each consumer READ is a sub-sequence of what was handed on *)
Lemma reads_are_handed_frames maxf caps evs :
  let s := run false maxf (init caps) evs in Forall (fun c => sub (got c) (handed s)) (cons s).
Proof.
  intros s. pose proof (reads_in_order false maxf caps evs) as H1. pose proof (content_stable maxf caps evs) as H2.
  fold s in H1, H2. induction H1 as [|c l Hc Hl IH]; [constructor|].
  inversion H2 as [|? ? Hg Hr]; subst. constructor; [rewrite Hg; exact Hc|apply IH; exact Hr].
Qed.

(* ------------------------------------------------------------------ websocket paths: one message in, the same message on *)

Lemma ws_handed_identity byref maxf caps evs :
  forallb (fun e => negb (is_flush e)) evs = true ->
  handed (run byref maxf (init caps) evs) = wsmsgs_of evs.
Proof.
  induction evs as [|e evs IH] using rev_ind; intros Hnf; [reflexivity|].
  rewrite forallb_app in Hnf. apply andb_true_iff in Hnf. destruct Hnf as [Hnf He].
  rewrite run_snoc, wsmsgs_of_app. specialize (IH Hnf).
  destruct e as [chunk| |m|c|c|c]; cbn [step handed wsmsgs_of]; rewrite ?app_nil_r; try exact IH.
  - cbn in He. discriminate.
  - rewrite IH. reflexivity.
Qed.

Lemma ws_reads_are_sent_messages byref maxf caps evs :
  forallb (fun e => negb (is_flush e)) evs = true ->
  let s := run byref maxf (init caps) evs in
  handed s = wsmsgs_of evs /\ Forall (fun c => got c = want c /\ sub (got c) (wsmsgs_of evs)) (cons s).
Proof.
  intros Hnf s. pose proof (ws_handed_identity byref maxf caps evs Hnf) as Hh. fold s in Hh.
  split; [exact Hh|].
  pose proof (reads_in_order byref maxf caps evs) as H1. pose proof (content_stable_ws byref maxf caps evs Hnf) as H2.
  cbv zeta in H1. fold s in H1, H2. rewrite Hh in H1. induction H1 as [|c l Hc Hl IH]; [constructor|].
  inversion H2 as [|? ? Hg Hr]; subst. constructor; [split; [exact Hg|rewrite Hg; exact Hc]|apply IH; exact Hr].
Qed.

(* ------------------------------------------------------------------ the pinned tree (F10) *)

Definition f10_events : list ev :=
  [Write [65;65;65]%N; Flush; Write [66;66;66]%N; Flush; Consume 0].

Lemma byref_content_changes :
  let s := run true 8 (init [2]) f10_events in
  map got (cons s) = [[[66;66;66]%N]] /\ map want (cons s) = [[[65;65;65]%N]] /\
  handed s = [[65;65;65]%N; [66;66;66]%N].
Proof. vm_compute. repeat split. Qed.

Lemma byval_same_events :
  let s := run false 8 (init [2]) f10_events in
  map got (cons s) = [[[65;65;65]%N]].
Proof. vm_compute. reflexivity. Qed.

(* ================================================================== websocket-out: hub -> feed client *)

Lemma wrun_snoc msg_at wcap evs e : wrun msg_at wcap (evs ++ [e]) = wstep msg_at wcap (wrun msg_at wcap evs) e.
Proof. unfold wrun. rewrite fold_left_app. reflexivity. Qed.

Lemma chain_snoc l : forall lo n, chain lo l n -> chain lo (l ++ [n]) (S n).
Proof.
  induction l as [|x r IH]; intros lo n H; cbn [app chain] in *.
  - split; [exact H|apply le_n].
  - destruct H as [H1 H2]. split; [exact H1|apply IH; exact H2].
Qed.

Lemma chain_mono l : forall lo n m, chain lo l n -> n <= m -> chain lo l m.
Proof.
  induction l as [|x r IH]; intros lo n m H L; cbn [chain] in *; [lia|].
  destruct H as [H1 H2]. split; [exact H1|eapply IH; eassumption].
Qed.

Lemma chain_app_l a : forall b lo hi, chain lo (a ++ b) hi -> exists mid, chain lo a mid /\ mid <= hi.
Proof.
  induction a as [|x a IH]; intros b lo hi H; cbn [app chain] in *.
  - exists lo. split; [apply le_n|].
    revert lo H. induction b as [|y b IHb]; intros lo H; cbn [chain] in H; [exact H|].
    destruct H as [H1 H2]. specialize (IHb _ H2). lia.
  - destruct H as [H1 H2]. destruct (IH _ _ _ H2) as [mid [Hm Hl]]. exists mid. split; [split; assumption|exact Hl].
Qed.

Section WsOutProofs.
  Variable msg_at : nat -> bytes.
  Variable wcap : nat.
  Notation wstep := (wstep msg_at wcap).
  Notation wrun := (wrun msg_at wcap).

  Definition part_ok (p : part) : Prop := snd p = msg_at (fst p).

  Definition winv (s : wst) : Prop :=
    chain 0 (map fst (wflat s)) (wnext s) /\ Forall part_ok (wflat s) /\ (wcap = 0 -> wq s = []).

  Lemma wflat_snoc_q n q c fr p : wflat (mkw n (q ++ [p]) c fr) = wflat (mkw n q c fr) ++ [p].
  Proof. unfold wflat. cbn [wframes wcur wq]. rewrite !app_assoc. reflexivity. Qed.

  Lemma winv_step s e : winv s -> winv (wstep s e).
  Proof.
    intros [Hc [Hp Hq]]. destruct e as [|n| |]; cbn [Ingest.wstep].
    - (* WOffer *)
      destruct wcap as [|c] eqn:Ecap.
      + specialize (Hq eq_refl). destruct (wcur s) as [f|] eqn:Ecur.
        * split; [|split]; [| |intros _; exact Hq].
          -- unfold wflat in *. cbn [wframes wcur wq wnext]. rewrite Ecur in Hc. eapply chain_mono; [exact Hc|lia].
          -- unfold wflat in *. cbn [wframes wcur wq]. rewrite Ecur in Hp. exact Hp.
        * assert (E : wflat (mkw (S (wnext s)) (wq s) (Some [(wnext s, msg_at (wnext s))]) (wframes s))
                      = wflat s ++ [(wnext s, msg_at (wnext s))]).
          { unfold wflat. cbn [wframes wcur wq]. rewrite Ecur, Hq. cbn [app]. rewrite !app_nil_r. reflexivity. }
          split; [|split]; [| |intros _; exact Hq].
          -- rewrite E, map_app. cbn [map fst wnext]. apply chain_snoc. exact Hc.
          -- rewrite E. apply Forall_app. split; [exact Hp|constructor; [reflexivity|constructor]].
      + destruct (length (wq s) <? S c).
        * split; [|split]; [| |intros H; congruence].
          -- rewrite wflat_snoc_q, map_app. cbn [map fst wnext]. apply chain_snoc.
             replace (wflat (mkw (S (wnext s)) (wq s) (wcur s) (wframes s))) with (wflat s) by reflexivity. exact Hc.
          -- rewrite wflat_snoc_q. apply Forall_app. split; [exact Hp|constructor; [reflexivity|constructor]].
        * split; [|split]; [| |intros H; congruence].
          -- change (wflat (mkw (S (wnext s)) (wq s) (wcur s) (wframes s))) with (wflat s). cbn [wnext].
             eapply chain_mono; [exact Hc|lia].
          -- exact Hp.
    - (* WMiss *)
      split; [|split]; [| |exact Hq].
      + change (wflat (mkw (wnext s + n) (wq s) (wcur s) (wframes s))) with (wflat s). cbn [wnext].
        eapply chain_mono; [exact Hc|lia].
      + exact Hp.
    - (* WFirst *)
      destruct (wcur s) as [f|] eqn:Ecur; [split; [|split]; assumption|].
      destruct (wq s) as [|p r] eqn:Eq; [split; [|split]; [exact Hc|exact Hp|intros _; exact Eq]|].
      assert (E : wflat (mkw (wnext s) r (Some [p]) (wframes s)) = wflat s).
      { unfold wflat. cbn [wframes wcur wq]. rewrite Ecur, Eq. reflexivity. }
      split; [|split]; [rewrite E; exact Hc|rewrite E; exact Hp|].
      intros H. specialize (Hq H). discriminate.
    - (* WRest *)
      destruct (wcur s) as [f|] eqn:Ecur; [|split; [|split]; assumption].
      assert (E : wflat (mkw (wnext s) [] None (wframes s ++ [f ++ wq s])) = wflat s).
      { unfold wflat. cbn [wframes wcur wq]. rewrite Ecur, concat_app. cbn [concat app]. repeat rewrite app_nil_r. repeat rewrite <- app_assoc. reflexivity. }
      split; [|split]; [rewrite E; exact Hc|rewrite E; exact Hp|intros _; reflexivity].
  Qed.

  Lemma winv_run evs : winv (wrun evs).
  Proof.
    induction evs as [|e evs IH] using rev_ind.
    - split; [|split]; cbn; [apply le_n|constructor|reflexivity].
    - rewrite wrun_snoc. apply winv_step. exact IH.
  Qed.

  Lemma Forall_concat_parts (fs : list (list part)) :
    Forall part_ok (concat fs) -> Forall (fun f => frame_bytes f = concat (map msg_at (map fst f))) fs.
  Proof.
    induction fs as [|f fs IH]; intros H; [constructor|].
    cbn [concat] in H. apply Forall_app in H. destruct H as [Hf Hr]. constructor; [|apply IH; exact Hr].
    unfold frame_bytes. f_equal. clear -Hf. induction Hf as [|p l Hp Hl IHl]; [reflexivity|].
    cbn [map]. rewrite IHl. unfold part_ok in Hp. rewrite Hp. reflexivity.
  Qed.

  (* every websocket message written is made of hub messages of the topic, unmodified; over all websocket
     messages the parts appear in stream order: forward only, none twice *)
  Lemma wsout_frames_in_stream_order evs :
    let s := wrun evs in
    (exists hi, chain 0 (map fst (concat (wframes s))) hi /\ hi <= wnext s) /\
    Forall (fun f => frame_bytes f = concat (map msg_at (map fst f))) (wframes s).
  Proof.
    intros s. destruct (winv_run evs) as [Hc [Hp _]]. fold s in Hc, Hp. unfold wflat in Hc, Hp. split.
    - rewrite map_app in Hc. apply chain_app_l in Hc. exact Hc.
    - apply Forall_app in Hp. destruct Hp as [Hp _]. apply Forall_concat_parts. exact Hp.
  Qed.

  (* a websocket message whose parts are consecutive hub messages is that piece of the stream *)
  Lemma wsout_consecutive_frame_is_slice evs f k :
    In f (wframes (wrun evs)) -> map fst f = seq k (length f) ->
    frame_bytes f = concat (map msg_at (seq k (length f))).
  Proof.
    intros Hin Hk. destruct (wsout_frames_in_stream_order evs) as [_ H].
    rewrite Forall_forall in H. rewrite (H f Hin), Hk. reflexivity.
  Qed.

  (* the code as it is (unbuffered Send): every websocket message is exactly one hub message *)
  Definition single (f : list part) : Prop := exists k, f = [(k, msg_at k)].

  Lemma wsout_unbuffered_single evs : wcap = 0 -> Forall single (wframes (wrun evs)).
  Proof.
    intros H0.
    assert (H : wq (wrun evs) = [] /\ match wcur (wrun evs) with Some f => single f | None => True end
                /\ Forall single (wframes (wrun evs))).
    { induction evs as [|e evs IH] using rev_ind; [split; [|split]; [reflexivity|exact I|constructor]|].
      rewrite wrun_snoc. destruct IH as [Hq [Hc Hf]]. set (s := wrun evs) in *.
      destruct e as [|n| |]; cbn [Ingest.wstep]; rewrite ?H0.
      - destruct (wcur s) as [f|] eqn:Ecur; cbn [wq wcur wframes]; (split; [exact Hq|split; [|exact Hf]]).
        + try try rewrite Ecur; exact Hc.
        + eexists. reflexivity.
      - cbn [wq wcur wframes]. split; [exact Hq|split; assumption].
      - destruct (wcur s) as [f|] eqn:Ecur.
        + split; [exact Hq|split; [try rewrite Ecur; exact Hc|exact Hf]].
        + rewrite Hq. split; [exact Hq|split; [try rewrite Ecur; exact I|exact Hf]].
      - destruct (wcur s) as [f|] eqn:Ecur.
        + cbn [wq wcur wframes]. split; [reflexivity|split; [exact I|]].
          apply Forall_app. split; [exact Hf|]. constructor; [|constructor]. rewrite Hq, app_nil_r. exact Hc.
        + split; [exact Hq|split; [try rewrite Ecur; exact I|exact Hf]]. }
    apply H.
  Qed.
End WsOutProofs.

(* a Send channel of capacity 2 ("like rwc's destination clients"): the appending loop of writePump glues
   hub messages from either side of a dropped one into one websocket message *)
Definition glue_events : list wev := [WOffer; WOffer; WOffer; WFirst; WOffer; WRest].

Lemma wsout_buffered_glues_across_drop :
  let s := wrun (fun k => [N.of_nat k]) 2 glue_events in
  map (map fst) (wframes s) = [[0; 1; 3]] /\ map frame_bytes (wframes s) = [[0; 1; 3]%N].
Proof. vm_compute. split; reflexivity. Qed.

Lemma wsout_unbuffered_same_events :
  map (map fst) (wframes (wrun (fun k => [N.of_nat k]) 0 glue_events)) = [[0]].
Proof. vm_compute. reflexivity. Qed.

(* ================================================================== reconnecting destination *)

Lemma chain_remove a : forall x b lo hi, chain lo (a ++ x :: b) hi -> chain lo (a ++ b) hi.
Proof.
  induction a as [|y a IH]; intros x b lo hi H; cbn [app chain] in *.
  - destruct H as [H1 H2]. clear -H1 H2. revert lo x H1 H2.
    induction b as [|z b IHb]; intros lo x H1 H2; cbn [chain] in *; [lia|].
    destruct H2 as [H2 H3]. split; [lia|exact H3].
  - destruct H as [H1 H2]. split; [exact H1|eapply IH; exact H2].
Qed.

Section DestOutProofs.
  Variable msg_at : nat -> bytes.
  Variable dcap : nat.
  Notation dstep := (dstep msg_at dcap).
  Notation drun := (drun msg_at dcap).

  Definition dinv (s : dst) : Prop :=
    chain 0 (map fst (dout s ++ dq s)) (dnext s) /\ Forall (part_ok msg_at) (dout s ++ dq s).

  Lemma dinv_step s e : dinv s -> dinv (dstep s e).
  Proof.
    unfold dinv. intros [Hc Hp]. destruct e as [|n| |]; cbn [Ingest.dstep].
    - destruct (length (dq s) <? dcap); cbn [dout dq dnext].
      + split.
        * rewrite app_assoc, map_app. cbn [map fst]. apply chain_snoc. exact Hc.
        * rewrite app_assoc. apply Forall_app. split; [exact Hp|constructor; [reflexivity|constructor]].
      + split; [eapply chain_mono; [exact Hc|lia]|exact Hp].
    - cbn [dout dq dnext]. split; [eapply chain_mono; [exact Hc|lia]|exact Hp].
    - destruct (dq s) as [|p r] eqn:E.
      + rewrite E. split; assumption.
      + cbn [dout dq dnext]. rewrite <- app_assoc. cbn [app]. split; assumption.
    - destruct (dq s) as [|p r] eqn:E.
      + rewrite E. split; assumption.
      + cbn [dout dq dnext]. split.
        * rewrite map_app in *. cbn [map] in Hc. eapply chain_remove. exact Hc.
        * apply Forall_app in Hp. destruct Hp as [H1 H2]. inversion H2; subst. apply Forall_app. split; assumption.
  Qed.

  Lemma dinv_run evs : dinv (drun evs).
  Proof.
    induction evs as [|e evs IH] using rev_ind.
    - split; cbn; [apply le_n|constructor].
    - unfold Ingest.drun. rewrite fold_left_app. cbn [fold_left]. apply dinv_step. exact IH.
  Qed.

  (* whatever the destination does - lag, end the session, come back - what it receives over all its
     connections is a sub-sequence of the hub messages of the stream, in their order: unmodified, strictly
     forward, none twice.  (Messages may be missing: dropped while the queue was full, or lost at a cut.) *)
  Lemma destination_receives_in_order evs :
    let s := drun evs in
    (exists hi, chain 0 (map fst (dout s)) hi /\ hi <= dnext s) /\
    Forall (fun p => snd p = msg_at (fst p)) (dout s).
  Proof.
    intros s. destruct (dinv_run evs) as [Hc Hp]. fold s in Hc, Hp. split.
    - rewrite map_app in Hc. apply chain_app_l in Hc. exact Hc.
    - apply Forall_app in Hp. apply Hp.
  Qed.
End DestOutProofs.

(* ================================================================== a destination that keeps up gets everything *)

Lemma upd_nth_same {A} (f : A -> A) l : forall i x, nth_error l i = Some x -> nth_error (upd i f l) i = Some (f x).
Proof.
  induction l as [|y r IH]; intros [|i] x H; cbn in *; try discriminate.
  - inversion H; reflexivity.
  - apply IH; exact H.
Qed.

Lemma upd_nth_other {A} (f : A -> A) l : forall i j, i <> j -> nth_error (upd i f l) j = nth_error l j.
Proof.
  induction l as [|y r IH]; intros [|i] [|j] H; cbn; try reflexivity; try congruence.
  apply IH. congruence.
Qed.

(* the schedule seen from consumer c: writes, hand-offs each followed at once by c looking at what it got,
   and anything the OTHER consumers do *)
Inductive blk :=
| BW (chunk : bytes)
| BF
| BM (m : bytes)
| BO (e : ev).

Definition others (c : nat) (e : ev) : bool :=
  match e with
  | Busy k | Take k | Consume k => negb (Nat.eqb k c)
  | _ => false
  end.

Definition blk_ok (c : nat) (b : blk) : bool := match b with BO e => others c e | _ => true end.

Definition expand (c : nat) (b : blk) : list ev :=
  match b with
  | BW ch => [Write ch]
  | BF => [Flush; Consume c]
  | BM m => [WsMsg m; Consume c]
  | BO e => [e]
  end.

Definition caught_up (c : nat) (s : st) : Prop :=
  exists cs, nth_error (cons s) c = Some cs /\ 1 <= cap cs /\ busy cs = false /\ chanq cs = [] /\ hand cs = [] /\
             got cs = handed s.

Lemma run_app byref maxf s a b : run byref maxf s (a ++ b) = run byref maxf (run byref maxf s a) b.
Proof. unfold run. apply fold_left_app. Qed.

Lemma caught_up_block maxf c s b : blk_ok c b = true -> caught_up c s -> caught_up c (run false maxf s (expand c b)).
Proof.
  intros Hb [cs [Hn [Hcap [Hbusy [Hq [Hh Hg]]]]]]. unfold caught_up, run.
  assert (Hoff : forall f, offer (Val f, f) cs = mkcons (cap cs) false [(Val f, f)] [] (got cs) (want cs)).
  { intros f. unfold offer. rewrite Hbusy, Hq, Hh. cbn [length app]. destruct (cap cs); [lia|reflexivity]. }
  destruct b as [ch| |m|e]; cbn [expand fold_left].
  - cbn [step cons handed]. exists cs. repeat split; assumption.
  - cbn [step]. destruct (firstn maxf (acc s)) as [|x fr] eqn:F.
    + cbn [step cons handed fbuf]. exists cs. split; [|repeat split; assumption].
      rewrite (upd_nth_same _ _ _ _ Hn). unfold consume1. rewrite Hh, Hq. destruct cs; reflexivity.
    + unfold broadcast. cbn [step cons handed fbuf].
      eexists. split; [apply upd_nth_same; apply map_nth_error; exact Hn|].
      rewrite Hoff. unfold consume1. cbn [hand chanq cap busy got deref]. repeat split; try assumption. rewrite Hg. reflexivity.
  - cbn [step cons handed fbuf].
    eexists. split; [apply upd_nth_same; apply map_nth_error; exact Hn|].
    rewrite Hoff. unfold consume1. cbn [hand chanq cap busy got deref]. repeat split; try assumption. rewrite Hg. reflexivity.
  - cbn [blk_ok] in Hb. destruct e as [ch| |m|k|k|k]; cbn [others] in Hb; try discriminate;
      apply negb_true_iff, Nat.eqb_neq in Hb; cbn [step cons handed]; exists cs;
      (split; [rewrite upd_nth_other; [exact Hn|exact Hb]|repeat split; assumption]).
Qed.

(* a destination whose channel holds at least one message and that looks at every message as soon as it is
   handed on misses nothing: what it has read is everything that was handed on, in order *)
Lemma keeping_up_gets_everything maxf caps c k bs :
  nth_error caps c = Some k -> 1 <= k -> forallb (blk_ok c) bs = true ->
  let s := run false maxf (init caps) (concat (map (expand c) bs)) in
  exists cs, nth_error (cons s) c = Some cs /\ got cs = handed s.
Proof.
  intros Hn Hk Hbs s.
  assert (H : caught_up c s).
  { subst s. assert (H0 : caught_up c (init caps)).
    { exists (mkcons k false [] [] [] []). cbn [init cons handed]. split.
      - apply (map_nth_error (fun k0 => mkcons k0 false [] [] [] []) c caps Hn).
      - repeat split; try reflexivity; exact Hk. }
    revert H0. generalize (init caps) as s0. induction bs as [|b r IH]; intros s0 H0; [exact H0|].
    cbn [forallb] in Hbs. apply andb_true_iff in Hbs. destruct Hbs as [Hb Hr].
    cbn [map concat]. rewrite run_app. apply (IH Hr). apply caught_up_block; assumption. }
  destruct H as [cs [H1 [_ [_ [_ [_ H6]]]]]]. exists cs. split; assumption.
Qed.

(* ================================================================== what a consumer reads is a slice of the input *)

Lemma slices_at_in inp fs : forall ds pos f,
  slices_at inp pos fs ds -> length fs = length ds -> In f fs ->
  exists a, pos <= a /\ firstn (length f) (skipn a inp) = f /\ a + length f <= length inp.
Proof.
  induction fs as [|x fr IH]; intros [|d dr] pos f Hs Hl Hin; cbn in Hl; try discriminate; [destruct Hin|].
  cbn [slices_at] in Hs. destruct Hs as [H1 [H2 H3]]. destruct Hin as [->|Hin].
  - exists pos. split; [apply le_n|split; assumption].
  - destruct (IH dr _ f H3 (eq_add_S _ _ Hl) Hin) as [a [Ha Hb]]. exists a. split; [lia|exact Hb].
Qed.

Lemma sub_in {A} (a b : list A) x : sub a b -> In x a -> In x b.
Proof. induction 1; intros Hin; [destruct Hin| |right; auto]. destruct Hin as [->|Hin]; [left; reflexivity|right; auto]. Qed.

(* repaired code, POST /ts and tcpconnect: every message any consumer reads, however late, is input[a, a+n) *)
Lemma reads_are_slices_of_input maxf caps evs :
  0 < maxf -> forallb (fun e => negb (is_ws_ev e)) evs = true ->
  Forall (fun c => Forall (fun r => exists a, firstn (length r) (skipn a (input_of evs)) = r /\ a + length r <= length (input_of evs)) (got c))
         (cons (run false maxf (init caps) evs)).
Proof.
  intros Hm Hws.
  destruct (slices_of_input false maxf caps evs Hm Hws) as [Hs [Hf _]].
  pose proof (reads_are_handed_frames maxf caps evs) as Hr. cbv zeta in Hr, Hs, Hf.
  eapply Forall_impl; [|exact Hr]. intros c Hc. apply Forall_forall. intros r Hin.
  destruct (slices_at_in _ _ _ _ r Hs (Forall2_length _ _ _ Hf) (sub_in _ _ _ Hc Hin)) as [a [_ Ha]].
  exists a. exact Ha.
Qed.
