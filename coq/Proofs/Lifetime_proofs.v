(* Lemmas about the connection-lifetime model (C06). *)
From Relay Require Import Base.Prelude Model.Lifetime.
Open Scope Z_scope.

Ltac unfold_consts :=
  change slack with 6000000000 in *; change ping_period with 54000000000 in *;
  change pong_wait with 60000000000 in *; unfold ns_per_s, max_ttl, two63 in *.

Lemma ns_pos : 0 < ns_per_s.
Proof. unfold ns_per_s; lia. Qed.

Lemma floor_decomp t : exists r, t = floor_s t * ns_per_s + r /\ 0 <= r < ns_per_s.
Proof.
  unfold floor_s. exists (t mod ns_per_s). pose proof ns_pos as Hp.
  split; [rewrite Z.mul_comm; apply Z.div_mod; lia|apply Z.mod_pos_bound; exact Hp].
Qed.

(* ---- int64 ---- *)
Lemma wrap64_id x : - two63 <= x < two63 -> wrap64 x = x.
Proof.
  intros H. unfold wrap64. rewrite Z.mod_small; [lia|unfold two63 in *; lia].
Qed.

Lemma dur_small ttl : 0 <= ttl <= max_ttl -> dur ttl = ttl * ns_per_s.
Proof.
  intros H. unfold dur, clamp_ttl. rewrite Z.min_l by lia.
  apply wrap64_id. unfold_consts; lia.
Qed.

Lemma dur_raw_small ttl : 0 <= ttl <= max_ttl -> dur_raw ttl = ttl * ns_per_s.
Proof. intros H. unfold dur_raw. apply wrap64_id. unfold_consts; lia. Qed.

Lemma dur_large ttl : max_ttl <= ttl -> dur ttl = max_ttl * ns_per_s.
Proof.
  intros H. unfold dur, clamp_ttl. rewrite Z.min_r by lia.
  apply wrap64_id. unfold_consts; lia.
Qed.

(* the repaired product never wraps: it is never negative for a non-negative lifetime *)
Lemma dur_nonneg ttl : 0 <= ttl -> 0 <= dur ttl.
Proof.
  intros H. destruct (Z_le_gt_dec ttl max_ttl) as [Hle|Hgt].
  - rewrite dur_small by lia. unfold ns_per_s; lia.
  - rewrite dur_large by lia. unfold_consts; lia.
Qed.

(* ---- closing within the second after E ---- *)
Lemma close_within_a_second t E :
  0 <= E - floor_s t <= max_ttl ->
  E * ns_per_s <= fire_at t E < (E + 1) * ns_per_s.
Proof.
  intros H. unfold fire_at, timer_fire. rewrite dur_small by exact H.
  destruct (floor_decomp t) as (r & Ht & Hr).
  pose proof ns_pos as Hp.
  rewrite Z.max_r by nia.
  nia.
Qed.

(* the same for the arithmetic as it was before the clamp, below the overflow bound *)
Lemma close_within_a_second_raw t E :
  0 <= E - floor_s t <= max_ttl ->
  E * ns_per_s <= fire_at_raw t E < (E + 1) * ns_per_s.
Proof.
  intros H. unfold fire_at_raw, timer_fire. rewrite dur_raw_small by exact H.
  destruct (floor_decomp t) as (r & Ht & Hr).
  pose proof ns_pos as Hp.
  rewrite Z.max_r by nia.
  nia.
Qed.

(* beyond the bound the repaired timer is the longest one a Duration can express (292 years):
   never an immediate close *)
Lemma clamped_far_future t E :
  max_ttl <= E - floor_s t ->
  fire_at t E = t + max_ttl * ns_per_s /\ t + 9223372036 * ns_per_s <= fire_at t E.
Proof.
  intros H. unfold fire_at, timer_fire. rewrite dur_large by exact H.
  unfold_consts. split; lia.
Qed.

Lemma never_fires_before_accept t E : t <= fire_at t E.
Proof. unfold fire_at, timer_fire. lia. Qed.

(* F12a: what the unclamped multiplication does at and beyond the bound *)
Lemma raw_wraps_at_bound : dur_raw (max_ttl + 1) < 0.
Proof. vm_compute. reflexivity. Qed.

Lemma raw_overflow_closes_at_once t E :
  E - floor_s t = 10000000000 -> fire_at_raw t E = t.
Proof.
  intros H. unfold fire_at_raw, timer_fire. rewrite H.
  replace (dur_raw 10000000000) with (-8446744073709551616) by (vm_compute; reflexivity). lia.
Qed.

Lemma ttl_overflow_raw :
  exists t E, 0 <= E - floor_s t /\ 0 <= t /\ fire_at_raw t E = t /\ fire_at_raw t E < E * ns_per_s.
Proof.
  exists 1700000000500000000, 11700000000. vm_compute. repeat split; congruence.
Qed.

Lemma raw_wraps_from_bound_on ttl :
  max_ttl < ttl < 2 * max_ttl -> dur_raw ttl < 0.
Proof.
  intros H. unfold dur_raw, wrap64.
  assert (Hq : (ttl * ns_per_s + two63) mod (2 * two63) = ttl * ns_per_s + two63 - 2 * two63).
  { symmetry. apply Z.mod_unique with (q := 1); unfold_consts; lia. }
  rewrite Hq. unfold_consts; lia.
Qed.

(* ---- admission window ---- *)
Lemma not_before_nbf t tok o : floor_s t < nbf tok -> ws_accept t tok o = Refused TooEarly.
Proof. intros H. unfold ws_accept. destruct (floor_s t <? nbf tok) eqn:E; [reflexivity|lia]. Qed.

Lemma not_after_exp t tok o : exp tok < floor_s t -> exists r, ws_accept t tok o = Refused r.
Proof.
  intros H. unfold ws_accept. destruct (floor_s t <? nbf tok); [eexists; reflexivity|].
  destruct (exp tok - floor_s t <? 0) eqn:E; [eexists; reflexivity|lia].
Qed.

Lemma accepted_inside_window t tok o f :
  ws_accept t tok o = Accepted f ->
  nbf tok <= floor_s t <= exp tok /\ o = true /\ f = fire_at t (exp tok).
Proof.
  unfold ws_accept. destruct (floor_s t <? nbf tok) eqn:E1; [discriminate|].
  destruct (exp tok - floor_s t <? 0) eqn:E2; [discriminate|].
  destruct o; cbn [negb]; [|discriminate]. intros H; inversion H. repeat split; lia.
Qed.

Lemma inside_window_accepted t tok :
  nbf tok <= floor_s t <= exp tok -> ws_accept t tok true = Accepted (fire_at t (exp tok)).
Proof.
  intros H. unfold ws_accept. destruct (floor_s t <? nbf tok) eqn:E1; [lia|].
  destruct (exp tok - floor_s t <? 0) eqn:E2; [lia|]. reflexivity.
Qed.

(* the boundary second: accepted, with a zero timer (closed at once) *)
Lemma boundary_zero_timer t tok :
  nbf tok <= floor_s t -> floor_s t = exp tok ->
  ws_accept t tok true = Accepted t.
Proof.
  intros Hn He. rewrite inside_window_accepted by lia.
  unfold fire_at, timer_fire. rewrite <- He, Z.sub_diag.
  replace (dur 0) with 0 by (vm_compute; reflexivity). f_equal. lia.
Qed.

(* ---- the timeline ---- *)
Lemma advance_fire c tau : fire (advance c tau) = fire c.
Proof.
  unfold advance. destruct (status c); [|reflexivity].
  destruct ((fire c <=? tau) && (fire c <=? deadline c)); [reflexivity|].
  destruct (deadline c <? tau); reflexivity.
Qed.

Lemma apply_ev_fire c e tau : fire (apply_ev c e tau) = fire c.
Proof. unfold apply_ev, apply_ev_v. destruct (status c); [|reflexivity]. destruct e; reflexivity. Qed.

Lemma step_fire c x : fire (step c x) = fire c.
Proof. unfold step. rewrite apply_ev_fire, advance_fire. reflexivity. Qed.

(* closure is never later than the watcher's firing time, whatever happens *)
Definition upto (f : Z) (c : conn) : Prop :=
  fire c = f /\ match status c with Open => True | Closed _ a => a <= f end.

Lemma advance_upto f c tau : upto f c -> upto f (advance c tau).
Proof.
  intros [Hf Hs]. split; [rewrite advance_fire; exact Hf|].
  unfold advance. destruct (status c) eqn:Es; [|rewrite Es; exact Hs].
  destruct ((fire c <=? tau) && (fire c <=? deadline c)) eqn:E1; cbn [status]; [lia|].
  destruct (deadline c <? tau) eqn:E2; cbn [status]; [|rewrite Es; exact I].
  apply andb_false_iff in E1. lia.
Qed.

Lemma advance_open_before c tau :
  status c = Open -> status (advance c tau) = Open -> tau <= deadline c /\ (tau < fire c).
Proof.
  intros Es. unfold advance. rewrite Es.
  destruct ((fire c <=? tau) && (fire c <=? deadline c)) eqn:E1; cbn [status]; [discriminate|].
  destruct (deadline c <? tau) eqn:E2; cbn [status]; [discriminate|].
  intros _. apply andb_false_iff in E1. lia.
Qed.

Lemma advance_status_cases c tau :
  status (advance c tau) = status c \/
  (status c = Open /\ (status (advance c tau) = Closed Expiry (fire c) \/
                       status (advance c tau) = Closed ReadTimeout (deadline c))).
Proof.
  unfold advance. destruct (status c) eqn:Es; [|left; exact Es].
  destruct ((fire c <=? tau) && (fire c <=? deadline c)); cbn [status]; [right; auto|].
  destruct (deadline c <? tau); cbn [status]; [right; auto|left; exact Es].
Qed.

Lemma advance_deadline c tau : deadline (advance c tau) = deadline c.
Proof.
  unfold advance. destruct (status c); [|reflexivity].
  destruct ((fire c <=? tau) && (fire c <=? deadline c)); [reflexivity|].
  destruct (deadline c <? tau); reflexivity.
Qed.

Lemma step_upto f c x : upto f c -> upto f (step c x).
Proof.
  intros H. destruct x as [e tau]. unfold step; cbn [fst snd].
  pose proof (advance_upto f c tau H) as [Hf Hs].
  split; [rewrite apply_ev_fire; exact Hf|].
  unfold apply_ev, apply_ev_v. destruct (status (advance c tau)) eqn:Ea; [|rewrite Ea; exact Hs].
  (* the event found the connection open at tau: so tau < fire *)
  assert (Hlt : tau < f).
  { destruct H as [Hf0 Hs0]. destruct (status c) eqn:Ec.
    - destruct (advance_open_before c tau Ec Ea). lia.
    - unfold advance in Ea. rewrite Ec in Ea. congruence. }
  destruct e; cbn [status close_with]; try rewrite Ea; try exact I; lia.
Qed.

Lemma fold_upto f evs : forall c, upto f c -> upto f (fold_left step evs c).
Proof. induction evs as [|x r IH]; intros c H; cbn [fold_left]; [exact H|apply IH, step_upto, H]. Qed.

Lemma watcher_independent c evs h :
  status c = Open -> fire c <= h ->
  exists r a, status (run c evs h) = Closed r a /\ a <= fire c.
Proof.
  intros Ho Hh. unfold run.
  assert (H0 : upto (fire c) c) by (split; [reflexivity|rewrite Ho; exact I]).
  pose proof (fold_upto (fire c) evs c H0) as H1. set (c1 := fold_left step evs c) in *.
  pose proof (advance_upto _ _ h H1) as [Hf Hs].
  destruct (status (advance c1 h)) eqn:Ea.
  - exfalso. destruct H1 as [Hf1 Hs1]. destruct (status c1) eqn:E1.
    + destruct (advance_open_before c1 h E1 Ea). lia.
    + unfold advance in Ea. rewrite E1 in Ea. congruence.
  - exists why, at_ns. split; [reflexivity|exact Hs].
Qed.

(* ---- answered pings: the read deadline is never reached ---- *)
Definition window_end (np : Z) (out : option Z) : Z :=
  match out with None => np + slack | Some p => p + slack end.

(* either still open with the deadline beyond the current window, or closed by the expiry timer *)
Definition alive (f np : Z) (out : option Z) (c : conn) : Prop :=
  fire c = f /\
  match status c with
  | Open => window_end np out <= deadline c
  | Closed r a => r = Expiry /\ a = f
  end.

Lemma alive_advance f np out c tau :
  alive f np out c -> tau < window_end np out -> alive f np out (advance c tau).
Proof.
  intros [Hf Hs] Ht. split; [rewrite advance_fire; exact Hf|].
  unfold advance. destruct (status c) eqn:Es; [|rewrite Es; exact Hs].
  destruct ((fire c <=? tau) && (fire c <=? deadline c)) eqn:E1; cbn [status]; [split; [reflexivity|lia]|].
  destruct (deadline c <? tau) eqn:E2; cbn [status]; [lia|rewrite Es; exact Hs].
Qed.

Definition wf (np : Z) (out : option Z) : Prop :=
  match out with Some p => np = p + ping_period | None => True end.

(* what [timely] demands of the head of the list, and the window it hands to the rest *)
Lemma timely_head np out e tau r :
  timely np out ((e, tau) :: r) = true ->
  benign e = true /\ tau < window_end np out /\
  exists np' out', timely np' out' r = true /\
    match e, out with
    | EPing, None => tau = np /\ np' = np + ping_period /\ out' = Some tau
    | EPong, Some p => p <= tau /\ np' = np /\ out' = None
    | EPong, None => np - ping_period <= tau /\ np' = np /\ out' = None
    | EPongUnsolicited, None => np - ping_period <= tau /\ np' = np /\ out' = None
    | EPongUnsolicited, Some p => p <= tau /\ np' = np /\ out' = out
    | EPing, Some _ => False
    | _, _ => np' = np /\ out' = out
    end.
Proof.
  cbn [timely]. intros Ht. apply andb_true_iff in Ht. destruct Ht as [Hb Ht].
  split; [exact Hb|]. unfold window_end.
  destruct e, out as [p|]; try discriminate;
    repeat (apply andb_true_iff in Ht; destruct Ht as [Ht ?]);
    (split; [unfold_consts; lia|]);
    eexists; eexists; (split; [eassumption|]); repeat split; try reflexivity; lia.
Qed.

Lemma timely_step f np out c e tau r :
  alive f np out c -> wf np out -> timely np out ((e, tau) :: r) = true ->
  exists np' out', alive f np' out' (step c (e, tau)) /\ wf np' out' /\ timely np' out' r = true.
Proof.
  intros Ha Hwf Ht. destruct (timely_head np out e tau r Ht) as (Hb & Hw & np' & out' & Hr & Hm).
  exists np', out'. split; [|split; [|exact Hr]].
  - unfold step; cbn [fst snd].
    pose proof (alive_advance f np out c tau Ha Hw) as [Hf Hs].
    split; [rewrite apply_ev_fire; exact Hf|].
    unfold apply_ev, apply_ev_v. destruct (status (advance c tau)) eqn:Es; [|rewrite Es; exact Hs].
    unfold wf, window_end in *.
    destruct e, out as [p|]; try discriminate; try contradiction;
      cbn [status deadline close_with]; try rewrite Es;
      repeat match goal with H : _ /\ _ |- _ => destruct H end; subst; unfold_consts; lia.
  - unfold wf in *. destruct e, out as [p|]; try discriminate; try contradiction;
      repeat match goal with H : _ /\ _ |- _ => destruct H end; subst; try exact I; try reflexivity; try assumption.
Qed.

Lemma timely_alive f evs : forall np out c,
  alive f np out c -> wf np out -> timely np out evs = true ->
  exists np' out', alive f np' out' (fold_left step evs c).
Proof.
  induction evs as [|[e tau] r IH]; intros np out c Ha Hwf Ht; cbn [fold_left]; [exists np, out; exact Ha|].
  destruct (timely_step f np out c e tau r Ha Hwf Ht) as (np' & out' & Ha' & Hwf' & Ht').
  exact (IH np' out' _ Ha' Hwf' Ht').
Qed.

Lemma start_alive t f : alive f (t + ping_period) None (start t f).
Proof. split; [reflexivity|]. cbn [start status deadline window_end]. unfold_consts; lia. Qed.

Lemma run_as_fold c evs h : run c evs h = fold_left step (evs ++ [(EDataIn, h)]) c.
Proof.
  unfold run. rewrite fold_left_app. cbn [fold_left].
  set (c1 := fold_left step evs c). unfold step; cbn [fst snd].
  unfold apply_ev, apply_ev_v. destruct (status (advance c1 h)); reflexivity.
Qed.

(* nothing but the expiry timer ends a connection whose client answers pings *)
Lemma no_early_close t f evs h :
  timely (t + ping_period) None (evs ++ [(EDataIn, h)]) = true ->
  match status (run (start t f) evs h) with
  | Open => True
  | Closed r a => r = Expiry /\ a = f
  end.
Proof.
  intros Ht. rewrite run_as_fold.
  destruct (timely_alive f _ _ _ _ (start_alive t f) I Ht) as (np' & out' & [_ Hs]).
  destruct (status _); [exact I|exact Hs].
Qed.

(* any number of idle rounds is timely: ping k at t + k*period, pong d_k later, d_k < slack *)
Lemma idle_rounds_timely ds : forall np tail,
  Forall (fun d => 0 <= d < slack) ds ->
  timely (np + ping_period * Z.of_nat (length ds)) None tail = true ->
  timely np None (idle_rounds np ds ++ tail) = true.
Proof.
  induction ds as [|d r IH]; intros np tail Hd Ht.
  - cbn [idle_rounds app length Z.of_nat] in *. rewrite Z.mul_0_r, Z.add_0_r in Ht. exact Ht.
  - inversion Hd as [|? ? Hd0 Hr]; subst.
    cbn [idle_rounds app timely benign andb].
    rewrite Z.eqb_refl. cbn [andb].
    replace (np <=? np + d) with true by lia.
    replace (np + d <? np + slack) with true by lia. cbn [andb].
    apply IH; [exact Hr|].
    replace (np + ping_period + ping_period * Z.of_nat (length r))
      with (np + ping_period * Z.of_nat (length (d :: r))) by (cbn [length]; lia).
    exact Ht.
Qed.

Lemma idle_any_duration t f ds :
  Forall (fun d => 0 <= d < slack) ds ->
  let h := t + ping_period * (1 + Z.of_nat (length ds)) in
  match status (run (start t f) (idle_rounds (t + ping_period) ds) h) with
  | Open => True
  | Closed r a => r = Expiry /\ a = f
  end.
Proof.
  intros Hd h. apply no_early_close. apply idle_rounds_timely; [exact Hd|].
  cbn [timely benign andb]. subst h.
  replace (t + ping_period * (1 + Z.of_nat (length ds)) <=? t + ping_period + ping_period * Z.of_nat (length ds)) with true by lia.
  reflexivity.
Qed.

(* before its firing time the expiry timer closes nothing *)
Lemma no_expiry_before f h evs : forall c,
  fire c = f -> h < f -> Forall (fun x : ev * Z => snd x <= h) evs ->
  match status c with Closed Expiry _ => False | _ => True end ->
  match status (fold_left step evs c) with Closed Expiry _ => False | _ => True end.
Proof.
  induction evs as [|[e tau] r IH]; intros c Hfc Hh Hev Hc; cbn [fold_left]; [exact Hc|].
  inversion Hev as [|x l Htau Hr]; subst x l. cbn [snd] in Htau.
  apply IH; [rewrite step_fire; exact Hfc|exact Hh|exact Hr|].
  unfold step; cbn [fst snd]. unfold apply_ev, apply_ev_v.
  assert (Hadv : match status (advance c tau) with Closed Expiry _ => False | _ => True end).
  { unfold advance. destruct (status c) eqn:Ec; [|rewrite Ec; exact Hc].
    destruct ((fire c <=? tau) && (fire c <=? deadline c)) eqn:E1; cbn [status].
    - apply andb_true_iff in E1. lia.
    - destruct (deadline c <? tau); cbn [status]; [exact I|rewrite Ec; exact I]. }
  destruct (status (advance c tau)) eqn:Ea; [|rewrite Ea; exact Hadv].
  destruct e; cbn [status close_with]; try rewrite Ea; exact I.
Qed.

Lemma idle_rounds_times ds : forall np,
  Forall (fun d => 0 <= d < slack) ds ->
  Forall (fun x : ev * Z => snd x <= np + ping_period * Z.of_nat (length ds)) (idle_rounds np ds).
Proof.
  induction ds as [|d r IH]; intros np Hd; cbn [idle_rounds]; [constructor|].
  inversion Hd as [|x l Hd0 Hr]; subst x l.
  constructor; [cbn [snd length]; unfold_consts; lia|].
  constructor; [cbn [snd length]; unfold_consts; lia|].
  eapply Forall_impl; [|apply (IH (np + ping_period) Hr)].
  intros x Hx. cbn [length]. unfold_consts. lia.
Qed.

(* and it is still open as long as the token has not expired *)
Lemma idle_stays_open t f ds :
  Forall (fun d => 0 <= d < slack) ds ->
  let h := t + ping_period * (1 + Z.of_nat (length ds)) in
  h < f ->
  status (run (start t f) (idle_rounds (t + ping_period) ds) h) = Open.
Proof.
  intros Hd h Hh. pose proof (idle_any_duration t f ds Hd) as H. cbv zeta in H. fold h in H.
  destruct (status (run (start t f) (idle_rounds (t + ping_period) ds) h)) eqn:Es; [reflexivity|].
  destruct H as [Hw Ha]. exfalso.
  assert (Hev : Forall (fun x : ev * Z => snd x <= h) (idle_rounds (t + ping_period) ds)).
  { eapply Forall_impl; [|apply (idle_rounds_times ds (t + ping_period) Hd)].
    intros x Hx. unfold h. unfold_consts. lia. }
  pose proof (no_expiry_before f h _ (start t f) eq_refl Hh Hev I) as H1.
  unfold run in Es.
  remember (fold_left step (idle_rounds (t + ping_period) ds) (start t f)) as c1 eqn:Hc1.
  assert (Hf1 : fire c1 = f).
  { assert (Hu : upto f (start t f)) by (split; [reflexivity|exact I]).
    rewrite Hc1. apply (fold_upto f _ _ Hu). }
  unfold advance in Es. destruct (status c1) eqn:E1.
  - destruct ((fire c1 <=? h) && (fire c1 <=? deadline c1)) eqn:E2; cbn [status] in Es.
    + apply andb_true_iff in E2. lia.
    + destruct (deadline c1 <? h); cbn [status] in Es; [inversion Es; congruence|congruence].
  - rewrite E1 in Es. inversion Es; subst why0 at_ns0. rewrite Hw in H1. exact H1.
Qed.

(* a client that never answers is dropped when the first read deadline passes *)
Lemma unanswered_dropped t f k h :
  t + pong_wait < f -> t + pong_wait < h -> (1 <= k)%nat ->
  status (run (start t f) (pings_only (t + ping_period) k) h) = Closed ReadTimeout (t + pong_wait).
Proof.
  intros Hf Hh Hk. unfold run.
  assert (Hgen : forall n np c, status c = Open -> fire c = f -> deadline c = t + pong_wait -> t < np ->
            let c' := fold_left step (pings_only np n) c in
            fire c' = f /\ deadline c' = t + pong_wait /\
            (status c' = Open \/ status c' = Closed ReadTimeout (t + pong_wait))).
  { clear Hk. induction n as [|n IH]; intros np c Ho Hfc Hdc Hnp; cbn [pings_only fold_left]; [auto|].
    assert (Hst : step c (EPing, np) = apply_ev (advance c np) EPing np) by reflexivity.
    destruct (status (advance c np)) eqn:Ea.
    - apply IH.
      + rewrite Hst. unfold apply_ev, apply_ev_v. rewrite Ea. reflexivity.
      + rewrite step_fire. exact Hfc.
      + rewrite Hst. unfold apply_ev, apply_ev_v. rewrite Ea. cbn [deadline]. rewrite advance_deadline. exact Hdc.
      + unfold_consts; lia.
    - (* closed during advance: by ReadTimeout (expiry is later than the deadline) *)
      assert (Hw : why = ReadTimeout /\ at_ns = t + pong_wait).
      { unfold advance in Ea. rewrite Ho in Ea.
        destruct ((fire c <=? np) && (fire c <=? deadline c)) eqn:E1; cbn [status] in Ea.
        - apply andb_true_iff in E1. lia.
        - destruct (deadline c <? np); cbn [status] in Ea; [inversion Ea; subst; auto|congruence]. }
      destruct Hw as [-> ->].
      assert (Hstay : forall evs c0, status c0 = Closed ReadTimeout (t + pong_wait) ->
                fold_left step evs c0 = c0).
      { induction evs as [|x r IHr]; intros c0 Hc0; cbn [fold_left]; [reflexivity|].
        assert (Hs : step c0 x = c0).
        { unfold step, advance, apply_ev, apply_ev_v. rewrite Hc0. rewrite Hc0. reflexivity. }
        rewrite Hs. apply IHr; exact Hc0. }
      assert (Hc1 : status (step c (EPing, np)) = Closed ReadTimeout (t + pong_wait)).
      { rewrite Hst. unfold apply_ev, apply_ev_v. rewrite Ea. exact Ea. }
      rewrite (Hstay _ _ Hc1).
      split; [rewrite step_fire; exact Hfc|].
      split; [|right; exact Hc1].
      rewrite Hst. unfold apply_ev, apply_ev_v. rewrite Ea. rewrite advance_deadline. exact Hdc. }
  destruct (Hgen k (t + ping_period) (start t f) eq_refl eq_refl eq_refl) as (Hf1 & Hd1 & Hs1); [unfold_consts; lia|].
  set (c1 := fold_left step (pings_only (t + ping_period) k) (start t f)) in *.
  unfold advance. destruct Hs1 as [Hs1|Hs1]; rewrite Hs1; cbv iota; [|exact Hs1].
  destruct ((fire c1 <=? h) && (fire c1 <=? deadline c1)) eqn:E1.
  - apply andb_true_iff in E1. lia.
  - replace (deadline c1 <? h) with true by lia. cbn [status]. rewrite Hd1. reflexivity.
Qed.

(* F12c: with the code as it was, a stalled reader kept an expired connection up to writeWait longer *)
Lemma blocked_writer_late :
  exists f w, w <= f /\ f + ns_per_s < cancel_seen_unrepaired f (Some w) /\
              cancel_seen_unrepaired f (Some w) <= f + write_wait.
Proof. exists 2000000000, 500000000. vm_compute. repeat split; congruence. Qed.

Lemma cancel_seen_at_fire f b : cancel_seen f b = f.
Proof. reflexivity. Qed.

(* The ping must set its own write deadline.  In the variant where it goes out under the deadline
   the last DATA write left behind, a connection that was sent one message and then nothing for
   more than writeWait loses its first ping (the stale deadline is in the past), writePump returns
   and the relay itself closes a healthy connection long before its expiry - although the client
   answers every ping in time. *)
Lemma stale_deadline_kills_quiet_connection :
  exists t f evs h a,
    timely (t + ping_period) None (evs ++ [(EDataIn, h)]) = true /\
    status (run_v false false (start t f) evs h) = Closed WriteTimeout a /\ a + 200 * ns_per_s < f /\
    status (run (start t f) evs h) = Open.
Proof.
  exists 1700000000000000000, (1700000000000000000 + 300 * ns_per_s),
         [(EDataOut, 1700000000000000000 + ns_per_s); (EPing, 1700000000000000000 + ping_period)],
         (1700000000000000000 + 57 * ns_per_s), (1700000000000000000 + ping_period).
  vm_compute. repeat split; congruence.
Qed.

(* the variant is harmless only while no data write has ever happened or the last one is recent *)
Lemma stale_deadline_needs_old_write c tau :
  status c = Open -> write_fails c tau = false ->
  status (apply_ev_v false false c EPing tau) = Open.
Proof. intros Ho Hw. unfold apply_ev_v. rewrite Ho, Hw. reflexivity. Qed.

(* The pong handler must accept every pong.  In the variant where it rejects a pong that does not
   echo the relay's ping, a client that reads and answers pings but also sends an unsolicited pong
   as a one-way heartbeat (RFC 6455 5.5.3) is dropped by the relay at once, with a valid token. *)
Lemma strict_pong_kills_heartbeat_client :
  exists t f evs h a,
    timely (t + ping_period) None (evs ++ [(EDataIn, h)]) = true /\
    status (run_v true true (start t f) evs h) = Closed PongRejected a /\ a + 200 * ns_per_s < f /\
    status (run (start t f) evs h) = Open.
Proof.
  exists 1700000000000000000, (1700000000000000000 + 300 * ns_per_s),
         [(EClientPing, 1700000000000000000 + ns_per_s); (EPongUnsolicited, 1700000000000000000 + 2 * ns_per_s);
          (EPing, 1700000000000000000 + ping_period); (EPongUnsolicited, 1700000000000000000 + ping_period + ns_per_s);
          (EPong, 1700000000000000000 + ping_period + 2 * ns_per_s)],
         (1700000000000000000 + 57 * ns_per_s), (1700000000000000000 + 2 * ns_per_s).
  vm_compute. repeat split; congruence.
Qed.

(* end to end: a connection accepted with a token expiring at E whose client keeps answering
   pings (and is neither cancelled nor evicted nor closing itself) is ended by the relay only by
   the expiry timer, and that inside the second after E - never before E *)
Lemma not_ended_before_expiry t tok f evs h :
  ws_accept t tok true = Accepted f -> exp tok - floor_s t <= max_ttl ->
  timely (t + ping_period) None (evs ++ [(EDataIn, h)]) = true ->
  match status (run (start t f) evs h) with
  | Open => True
  | Closed r a => r = Expiry /\ exp tok * ns_per_s <= a < (exp tok + 1) * ns_per_s
  end.
Proof.
  intros Ha Hm Ht. destruct (accepted_inside_window t tok true f Ha) as (Hw & _ & Hf).
  pose proof (no_early_close t f evs h Ht) as Hn.
  destruct (status (run (start t f) evs h)); [exact I|].
  destruct Hn as [-> ->]. split; [reflexivity|]. subst f.
  apply close_within_a_second. lia.
Qed.
