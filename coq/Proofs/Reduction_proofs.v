(* The reduction theorem for C12: every execution of the value-carrying lock-IR semantics ([vstep]: one IR step of one
   thread at a time, any schedule) by threads whose code is a sequence of un-nested critical sections, exclusive
   (Lock) or shared (RLock, read-only) ([msec]), is
   simulated by an execution of the ATOMIC-SECTION semantics ([astep]: whole sections run alone, in one step), and
   whenever nobody holds a lock - in particular at the end - the two configurations coincide: same object states,
   same thread-local states (hence same results), same remaining code.

   Method: forward simulation with ROLL-BACK abstraction and commit point at Rel. The abstract configuration is the
   concrete one in which every thread that is inside a section is put back to its Acq (local state and code as
   they were, object of its lock as it was); the steps a thread takes inside its section are stutter steps, its
   Rel is the one atomic step. This is sound because while the thread holds m nobody else can change the object of m
   (a writer holds m exclusively, which excludes every other holder; accesses to m's fields happen only inside a
   section on m), so the steps it took are
   exactly a run of the section ALONE from the rolled-back state ([solos]). No fuel / termination assumption is
   needed (rolling back instead of running forward), loops and choices inside sections are allowed. *)
From Relay Require Import Base.Prelude Model.LockIR Model.Reduction Proofs.LockIR_proofs.

Section Proofs.
  Context {L F Ob Lo : Type}.
  Variable leqb : L -> L -> bool.
  Hypothesis leqb_spec : forall a b, leqb a b = true <-> a = b.
  Variable guard : F -> L.
  Variable rd : F -> Lo -> Ob -> Lo.
  Variable wr : F -> Lo -> Ob -> Lo * Ob.

  Notation vthread := (@vthread L F Lo).
  Notation cfg := (@cfg L F Ob Lo).
  Notation held := (held leqb).
  Notation drop := (drop leqb).
  Notation oset := (@oset L Ob leqb).
  Notation vtstep := (vtstep leqb guard rd wr).
  Notation vstep := (vstep leqb guard rd wr).
  Notation vsteps := (vsteps leqb guard rd wr).
  Notation solo := (@solo L F Ob Lo guard rd wr).
  Notation solos := (@solos L F Ob Lo guard rd wr).
  Notation astep := (astep leqb guard rd wr).
  Notation asteps := (asteps leqb guard rd wr).
  Notation msec := (@msec L F leqb guard).
  Notation msec_cont := (@msec_cont L F leqb guard).
  Notation mphase_eqb := (@mphase_eqb L leqb).

  Lemma lrefl m : leqb m m = true.
  Proof. apply leqb_spec; reflexivity. Qed.

  Lemma lneq a b : a <> b -> leqb a b = false.
  Proof. intro H. destruct (leqb a b) eqn:E; [apply leqb_spec in E; contradiction|reflexivity]. Qed.

  Lemma ldec (a b : L) : {a = b} + {a <> b}.
  Proof.
    destruct (leqb a b) eqn:E; [left; apply leqb_spec; exact E|right].
    intro H. apply leqb_spec in H. congruence.
  Qed.

  (* ------------------------------------------------------------ lists of threads *)
  Lemma nth_vupd_same (ts : list vthread) i t u : nth_error ts i = Some u -> nth_error (vupd ts i t) i = Some t.
  Proof. revert i; induction ts as [|x ts IH]; intros [|i]; cbn; try discriminate; auto. Qed.

  Lemma nth_vupd_other (ts : list vthread) i j t : i <> j -> nth_error (vupd ts i t) j = nth_error ts j.
  Proof.
    revert i j; induction ts as [|x ts IH]; intros i j H; destruct i, j; cbn; try reflexivity; try congruence.
    apply IH; lia.
  Qed.

  Lemma length_vupd (ts : list vthread) i t : length (vupd ts i t) = length ts.
  Proof. revert i; induction ts as [|x ts IH]; intros [|i]; cbn; auto. Qed.

  Lemma erase_vupd (ts : list vthread) i t : erase (vupd ts i t) = upd (erase ts) i (erase_t t).
  Proof. unfold erase. revert i; induction ts as [|x ts IH]; intros [|i]; cbn; try reflexivity. rewrite IH. reflexivity. Qed.

  (* ------------------------------------------------------------ the value semantics refines LockIR's *)
  (* every step of the value-carrying semantics is a step of Model/LockIR.v's interleaving semantics on the erased
     pool (whatever its jump predicate): the data-race-freedom and atomicity theorems of Proofs/LockIR_proofs.v
     apply to it unchanged *)
  Theorem vstep_erases (jump_ok : list (L * mode) -> list (stmt L F) -> Prop) c i c' :
    vstep c i c' -> exists e, step leqb jump_ok (erase (thrs c)) i e (erase (thrs c')).
  Proof.
    intros [c0 i0 t o' t' Hi Ht]. cbn [thrs]. rewrite erase_vupd.
    assert (He : nth_error (erase (thrs c0)) i0 = Some (erase_t t)).
    { unfold erase. rewrite nth_error_map, Hi. reflexivity. }
    destruct Ht as [ls lo k lo' k' Hl|ls lo m k Hf|ls lo m k Hn Hh|ls lo m k|ls lo f k|ls lo f k].
    - inversion Hl; subst; eexists; eapply Step; try exact He; unfold erase_t; cbn;
        first [apply TSkip|apply TSeq|apply TChoiceL|apply TChoiceR|apply TLoopExit|apply TLoopIter|apply TBlock|apply TRet].
    - eexists. eapply Step; [exact He|]. unfold erase_t; cbn. apply TAcqEx. exact Hf.
    - eexists. eapply Step; [exact He|]. unfold erase_t; cbn. apply TAcqSh; assumption.
    - eexists. eapply Step; [exact He|]. unfold erase_t; cbn. apply TRel.
    - eexists. eapply Step; [exact He|]. unfold erase_t; cbn. apply TRd.
    - eexists. eapply Step; [exact He|]. unfold erase_t; cbn. apply TWr.
  Qed.

  (* ------------------------------------------------------------ the section discipline is preserved *)
  Lemma mphase_eqb_eq a b : mphase_eqb a b = true -> a = b.
  Proof.
    destruct a as [|m md], b as [|m' md']; cbn; try discriminate; auto. intro H.
    apply andb_prop in H as [H1 H2]. apply leqb_spec in H1. destruct md, md'; try discriminate; congruence.
  Qed.

  Lemma mphase_eqb_refl a : mphase_eqb a a = true.
  Proof. destruct a as [|m md]; cbn; auto. rewrite lrefl. destruct md; reflexivity. Qed.

  Lemma msec_lstep ph (lo : Lo) k (lo' : Lo) k' : lstep (lo, k) (lo', k') -> msec_cont ph k = true -> msec_cont ph k' = true.
  Proof.
    intros Hs Hc. inversion Hs; subst; cbn in Hc |- *.
    - exact Hc.
    - destruct (msec ph a) as [[p1|]|] eqn:Ea; try discriminate; auto.
    - destruct (msec ph a) as [[p1|]|] eqn:Ea; destruct (msec ph b) as [[p2|]|] eqn:Eb; try discriminate; auto.
      destruct (mphase_eqb p1 p2) eqn:E; try discriminate. exact Hc.
    - destruct (msec ph a) as [[p1|]|] eqn:Ea; destruct (msec ph b) as [[p2|]|] eqn:Eb; try discriminate; auto.
      destruct (mphase_eqb p1 p2) eqn:E; try discriminate. apply mphase_eqb_eq in E. subst. exact Hc.
    - destruct (msec ph b) as [[p1|]|] eqn:Eb; try discriminate; auto.
      destruct (mphase_eqb p1 ph) eqn:E; try discriminate. exact Hc.
    - destruct (msec ph b) as [[p1|]|] eqn:Eb; try discriminate; auto.
      destruct (mphase_eqb p1 ph) eqn:E; try discriminate. apply mphase_eqb_eq in E. subst.
      rewrite Eb, mphase_eqb_refl. exact Hc.
    - exact Hc.
    - destruct ph; [reflexivity|discriminate].
  Qed.

  Lemma held_single m' m md : held m' [(m, md)] = if leqb m' m then Some md else None.
  Proof. reflexivity. Qed.

  (* ------------------------------------------------------------ the simulation relation *)
  Definition th_rel (c a : cfg) (i : nat) : Prop :=
    forall ls lo k, nth_error (thrs c) i = Some (ls, lo, k) ->
      (ls = [] /\ msec_cont MOut k = true /\ nth_error (thrs a) i = Some ([], lo, k)) \/
      (exists m md lo0 k0, ls = [(m, md)] /\ msec_cont (MIn m md) k = true /\
         nth_error (thrs a) i = Some ([], lo0, Acq m md :: k0) /\
         solos m (lo0, k0, objs a m) (lo, k, objs c m)).

  Record sim (c a : cfg) : Prop := {
    s_len : length (thrs a) = length (thrs c);
    s_thr : forall i, th_rel c a i;
    (* an object nobody holds the lock of exclusively has its committed value *)
    s_obj : forall m, (forall i ls lo k, nth_error (thrs c) i = Some (ls, lo, k) -> held m ls <> Some Ex) ->
                      objs a m = objs c m;
    s_excl : forall i j li loi ki lj loj kj m, i <> j ->
      nth_error (thrs c) i = Some (li, loi, ki) -> nth_error (thrs c) j = Some (lj, loj, kj) ->
      held m li = Some Ex -> held m lj = None
  }.

  (* threads other than the one that moved keep their relation, provided the objects they hold are untouched *)
  Lemma th_rel_frame c a i t' oc' a' j :
    th_rel c a j -> i <> j ->
    nth_error (thrs a') j = nth_error (thrs a) j ->
    (forall ls lo k m, nth_error (thrs c) j = Some (ls, lo, k) -> held m ls <> None ->
        oc' m = objs c m /\ objs a' m = objs a m) ->
    th_rel (mkcfg oc' (vupd (thrs c) i t')) a' j.
  Proof.
    intros Hr Hne Ha Hobj ls lo k Hj. cbn [thrs objs] in *. rewrite nth_vupd_other in Hj by assumption.
    destruct (Hr _ _ _ Hj) as [(E1 & E2 & E3)|(m & md & lo0 & k0 & E1 & E2 & E3 & E4)].
    - left. rewrite Ha. auto.
    - right. exists m, md, lo0, k0. rewrite Ha. repeat split; auto.
      assert (Hh : held m ls <> None) by (subst ls; rewrite held_single, lrefl; discriminate).
      destruct (Hobj _ _ _ m Hj Hh) as [O1 O2]. rewrite O1, O2. exact E4.
  Qed.

  Lemma solos_step m x y z : solos m x y -> solo m y z -> solos m x z.
  Proof. intros; eapply solos_snoc; eauto. Qed.

  (* bookkeeping shared by all the steps that do not change any lockset *)
  Lemma same_locks_excl (c : cfg) i ls lo k lo' k' :
    nth_error (thrs c) i = Some (ls, lo, k) ->
    (forall p q lp lop kp lq loq kq m, p <> q ->
       nth_error (thrs c) p = Some (lp, lop, kp) -> nth_error (thrs c) q = Some (lq, loq, kq) ->
       held m lp = Some Ex -> held m lq = None) ->
    forall p q lp lop kp lq loq kq m, p <> q ->
       nth_error (vupd (thrs c) i (ls, lo', k')) p = Some (lp, lop, kp) ->
       nth_error (vupd (thrs c) i (ls, lo', k')) q = Some (lq, loq, kq) ->
       held m lp = Some Ex -> held m lq = None.
  Proof.
    intros Hi Hex p q lp lop kp lq loq kq m Hpq Hp Hq Hh.
    assert (Gp : exists lo2 k2, nth_error (thrs c) p = Some (lp, lo2, k2)).
    { destruct (Nat.eq_dec i p) as [<-|Hne]; [rewrite (nth_vupd_same _ _ _ _ Hi) in Hp; inversion Hp; subst; eauto|
        rewrite nth_vupd_other in Hp by assumption; eauto]. }
    assert (Gq : exists lo2 k2, nth_error (thrs c) q = Some (lq, lo2, k2)).
    { destruct (Nat.eq_dec i q) as [<-|Hne]; [rewrite (nth_vupd_same _ _ _ _ Hi) in Hq; inversion Hq; subst; eauto|
        rewrite nth_vupd_other in Hq by assumption; eauto]. }
    destruct Gp as (? & ? & Gp). destruct Gq as (? & ? & Gq). eapply (Hex p q); eauto.
  Qed.

  Lemma same_locks_noex (c : cfg) i ls lo k lo' k' m :
    nth_error (thrs c) i = Some (ls, lo, k) ->
    (forall j ls1 lo1 k1, nth_error (vupd (thrs c) i (ls, lo', k')) j = Some (ls1, lo1, k1) -> held m ls1 <> Some Ex) ->
    forall j ls1 lo1 k1, nth_error (thrs c) j = Some (ls1, lo1, k1) -> held m ls1 <> Some Ex.
  Proof.
    intros Hi Hm j ls1 lo1 k1 Hj. destruct (Nat.eq_dec i j) as [<-|Hne].
    - rewrite Hi in Hj. inversion Hj; subst. apply (Hm i ls1 lo' k'). eapply nth_vupd_same; eauto.
    - apply (Hm j ls1 lo1 k1). rewrite nth_vupd_other by assumption. exact Hj.
  Qed.

  (* ONE STEP of the fine-grained semantics is a stutter or one step of the atomic-section semantics *)
  Lemma sim_step c a i c' :
    sim c a -> vstep c i c' -> exists a', (a' = a \/ astep a i a') /\ sim c' a'.
  Proof.
    intros [Hlen Hthr Hobj Hex] Hs. destruct Hs as [c i t o' t' Hi Ht].
    destruct Ht as [ls lo k lo' k' Hl|ls lo m k Hf|ls lo m k Hn Hh|ls lo m k|ls lo f k|ls lo f k].
    - (* a step that touches no object *)
      destruct (Hthr i _ _ _ Hi) as [(E1 & E2 & E3)|(m & md & lo0 & k0 & E1 & E2 & E3 & E4)].
      + (* outside a section: the same step in the atomic semantics *)
        subst ls. exists (mkcfg (objs a) (vupd (thrs a) i ([], lo', k'))). split.
        * right. eapply ALocal; eauto.
        * constructor; cbn [thrs objs].
          -- rewrite !length_vupd. exact Hlen.
          -- intro j. destruct (Nat.eq_dec i j) as [<-|Hne].
             ++ intros ls1 lo1 k1 Hj. cbn [thrs objs] in Hj |- *. rewrite (nth_vupd_same _ _ _ _ Hi) in Hj. inversion Hj; subst.
                left. repeat split; [eapply msec_lstep; eauto|eapply nth_vupd_same; eauto].
             ++ apply (th_rel_frame c a); auto; cbn [thrs objs]; try (apply nth_vupd_other; assumption); auto.
          -- intros m Hm. apply Hobj. eapply same_locks_noex; eauto.
          -- eapply same_locks_excl; eauto.
      + (* inside its section: a stutter; the run-alone of the section grows by this step *)
        subst ls. exists a. split; [left; reflexivity|].
        constructor; cbn [thrs objs].
        * rewrite length_vupd. exact Hlen.
        * intro j. destruct (Nat.eq_dec i j) as [<-|Hne].
          -- intros ls1 lo1 k1 Hj. cbn [thrs objs] in Hj |- *. rewrite (nth_vupd_same _ _ _ _ Hi) in Hj. inversion Hj; subst.
             right. exists m, md, lo0, k0. repeat split; auto; [eapply msec_lstep; eauto|].
             eapply solos_step; [exact E4|]. apply SoLocal. exact Hl.
          -- apply (th_rel_frame c a); auto.
        * intros m' Hm. apply Hobj. eapply same_locks_noex; eauto.
        * eapply same_locks_excl; eauto.
    - (* Acq m Ex: a stutter; the thread is rolled back to this point from now on *)
      destruct (Hthr i _ _ _ Hi) as [(E1 & E2 & E3)|(m1 & md1 & lo0 & k0 & E1 & E2 & E3 & E4)]; [|cbn in E2; discriminate].
      subst ls. cbn in E2.
      assert (Hfree : forall j ls1 lo1 k1, nth_error (thrs c) j = Some (ls1, lo1, k1) -> held m ls1 = None).
      { intros j ls1 lo1 k1 Hj. apply (Hf j (erase_t (ls1, lo1, k1))). unfold erase. rewrite nth_error_map, Hj. reflexivity. }
      exists a. split; [left; reflexivity|].
      constructor; cbn [thrs objs].
      + rewrite length_vupd. exact Hlen.
      + intro j. destruct (Nat.eq_dec i j) as [<-|Hne].
        * intros ls1 lo1 k1 Hj. cbn [thrs objs] in Hj |- *. rewrite (nth_vupd_same _ _ _ _ Hi) in Hj. inversion Hj; subst.
          right. exists m, Ex, lo1, k1. repeat split; auto.
          rewrite (Hobj m); [apply solos_refl|]. intros j ls2 lo2 k2 Hj2. rewrite (Hfree _ _ _ _ Hj2). discriminate.
        * apply (th_rel_frame c a); auto.
      + intros m' Hm. apply Hobj. intros j ls1 lo1 k1 Hj.
        destruct (Nat.eq_dec i j) as [<-|Hne].
        * rewrite Hi in Hj. inversion Hj; subst. discriminate.
        * apply (Hm j ls1 lo1 k1). rewrite nth_vupd_other by assumption. exact Hj.
      + intros p q lp lop kp lq loq kq m' Hpq Hp Hq Hh.
        destruct (Nat.eq_dec i p) as [<-|Hnp]; destruct (Nat.eq_dec i q) as [<-|Hnq]; try congruence.
        * rewrite (nth_vupd_same _ _ _ _ Hi) in Hp. inversion Hp; subst.
          rewrite nth_vupd_other in Hq by assumption.
          rewrite held_single in Hh. destruct (leqb m' m) eqn:E; [|discriminate]. apply leqb_spec in E. subst m'.
          eapply Hfree; eauto.
        * rewrite (nth_vupd_same _ _ _ _ Hi) in Hq. inversion Hq; subst.
          rewrite nth_vupd_other in Hp by assumption.
          rewrite held_single. destruct (leqb m' m) eqn:E; [|reflexivity]. apply leqb_spec in E. subst m'.
          rewrite (Hfree _ _ _ _ Hp) in Hh. discriminate.
        * rewrite nth_vupd_other in Hp, Hq by assumption. eapply (Hex p q); eauto.
    - (* Acq m Sh: a stutter as well; nobody holds m exclusively, so the object has its committed value *)
      destruct (Hthr i _ _ _ Hi) as [(E1 & E2 & E3)|(m1 & md1 & lo0 & k0 & E1 & E2 & E3 & E4)]; [|cbn in E2; discriminate].
      subst ls. cbn in E2.
      assert (Hnoex : forall j ls1 lo1 k1, nth_error (thrs c) j = Some (ls1, lo1, k1) -> held m ls1 <> Some Ex).
      { intros j ls1 lo1 k1 Hj. apply (Hn j (erase_t (ls1, lo1, k1))). unfold erase. rewrite nth_error_map, Hj. reflexivity. }
      exists a. split; [left; reflexivity|].
      constructor; cbn [thrs objs].
      + rewrite length_vupd. exact Hlen.
      + intro j. destruct (Nat.eq_dec i j) as [<-|Hne].
        * intros ls1 lo1 k1 Hj. cbn [thrs objs] in Hj |- *. rewrite (nth_vupd_same _ _ _ _ Hi) in Hj. inversion Hj; subst.
          right. exists m, Sh, lo1, k1. repeat split; auto.
          rewrite (Hobj m Hnoex). apply solos_refl.
        * apply (th_rel_frame c a); auto.
      + intros m' Hm. apply Hobj. intros j ls1 lo1 k1 Hj.
        destruct (Nat.eq_dec i j) as [<-|Hne].
        * rewrite Hi in Hj. inversion Hj; subst. discriminate.
        * apply (Hm j ls1 lo1 k1). rewrite nth_vupd_other by assumption. exact Hj.
      + intros p q lp lop kp lq loq kq m' Hpq Hp Hq Hh'.
        destruct (Nat.eq_dec i p) as [<-|Hnp]; destruct (Nat.eq_dec i q) as [<-|Hnq]; try congruence.
        * rewrite (nth_vupd_same _ _ _ _ Hi) in Hp. inversion Hp; subst.
          rewrite held_single in Hh'. destruct (leqb m' m); discriminate.
        * rewrite (nth_vupd_same _ _ _ _ Hi) in Hq. inversion Hq; subst.
          rewrite nth_vupd_other in Hp by assumption.
          rewrite held_single. destruct (leqb m' m) eqn:E; [|reflexivity]. apply leqb_spec in E. subst m'.
          exfalso. eapply Hnoex; eauto.
        * rewrite nth_vupd_other in Hp, Hq by assumption. eapply (Hex p q); eauto.
    - (* Rel m: the commit point - the whole section as ONE atomic step *)
      destruct (Hthr i _ _ _ Hi) as [(E1 & E2 & E3)|(m1 & md & lo0 & k0 & E1 & E2 & E3 & E4)]; [cbn in E2; discriminate|].
      subst ls. cbn in E2. destruct (leqb m m1) eqn:Em; [|discriminate]. apply leqb_spec in Em. subst m1.
      assert (Hd : drop m [(m, md)] = []) by (cbn; rewrite lrefl; reflexivity). rewrite Hd.
      exists (mkcfg (oset (objs a) m (objs c m)) (vupd (thrs a) i ([], lo, k))). split.
      + right. eapply ASection; eauto.
      + (* a thread that holds m' either holds another lock than m, or shares m with us: then the object of m
           has its committed value already *)
        assert (Hoth : forall j ls1 lo1 k1 m', i <> j -> nth_error (thrs c) j = Some (ls1, lo1, k1) ->
                        held m' ls1 <> None -> m' <> m \/ objs a m = objs c m).
        { intros j ls1 lo1 k1 m' Hne Hj Hh'. destruct (ldec m' m) as [->|Hd']; [|left; exact Hd'].
          right. apply Hobj. intros p lp lop kp Hp Hpe.
          destruct (Nat.eq_dec p j) as [->|Hpj].
          - (* j itself exclusive on m: then we would hold nothing *)
            rewrite Hj in Hp. inversion Hp; subst.
            pose proof (Hex j i _ _ _ _ _ _ m (not_eq_sym Hne) Hj Hi Hpe) as Hn. rewrite held_single, lrefl in Hn. discriminate.
          - pose proof (Hex p j _ _ _ _ _ _ m Hpj Hp Hj Hpe) as Hn. contradiction. }
        constructor; cbn [thrs objs].
        * rewrite !length_vupd. exact Hlen.
        * intro j. destruct (Nat.eq_dec i j) as [<-|Hne].
          -- intros ls1 lo1 k1 Hj. cbn [thrs objs] in Hj |- *. rewrite (nth_vupd_same _ _ _ _ Hi) in Hj. inversion Hj; subst.
             left. repeat split; auto. eapply nth_vupd_same; eauto.
          -- apply (th_rel_frame c a); auto; cbn [thrs objs]; [apply nth_vupd_other; assumption|].
             intros ls1 lo1 k1 m' Hj Hh'. split; [reflexivity|].
             unfold Reduction.oset. destruct (leqb m' m) eqn:E; [|reflexivity].
             apply leqb_spec in E. subst m'.
             destruct (Hoth _ _ _ _ _ Hne Hj Hh') as [Hc|Hc]; [congruence|symmetry; exact Hc].
        * intros m' Hm. unfold Reduction.oset. destruct (leqb m' m) eqn:E.
          -- apply leqb_spec in E. subst m'. reflexivity.
          -- apply Hobj. intros j ls1 lo1 k1 Hj. destruct (Nat.eq_dec i j) as [<-|Hne].
             ++ rewrite Hi in Hj. inversion Hj; subst. rewrite held_single, E. discriminate.
             ++ apply (Hm j ls1 lo1 k1). rewrite nth_vupd_other by assumption. exact Hj.
        * intros p q lp lop kp lq loq kq m' Hpq Hp Hq Hh'.
          destruct (Nat.eq_dec i p) as [<-|Hnp]; destruct (Nat.eq_dec i q) as [<-|Hnq]; try congruence.
          -- rewrite (nth_vupd_same _ _ _ _ Hi) in Hp. inversion Hp; subst. discriminate.
          -- rewrite (nth_vupd_same _ _ _ _ Hi) in Hq. inversion Hq; subst. reflexivity.
          -- rewrite nth_vupd_other in Hp, Hq by assumption. eapply (Hex p q); eauto.
    - (* Rd f: inside a section (exclusive or shared) on guard f; a stutter *)
      destruct (Hthr i _ _ _ Hi) as [(E1 & E2 & E3)|(m & md & lo0 & k0 & E1 & E2 & E3 & E4)]; [cbn in E2; discriminate|].
      subst ls. cbn in E2. destruct (leqb (guard f) m) eqn:Eg; [|discriminate]. apply leqb_spec in Eg.
      exists a. split; [left; reflexivity|].
      constructor; cbn [thrs objs].
      + rewrite length_vupd. exact Hlen.
      + intro j. destruct (Nat.eq_dec i j) as [<-|Hne].
        * intros ls1 lo1 k1 Hj. cbn [thrs objs] in Hj |- *. rewrite (nth_vupd_same _ _ _ _ Hi) in Hj. inversion Hj; subst.
          right. exists (guard f), md, lo0, k0. repeat split; auto.
          eapply solos_step; [exact E4|]. apply SoRd. reflexivity.
        * apply (th_rel_frame c a); auto.
      + intros m' Hm. apply Hobj. eapply same_locks_noex; eauto.
      + eapply same_locks_excl; eauto.
    - (* Wr f: inside an EXCLUSIVE section on guard f; a stutter - only the holder's own object changes *)
      destruct (Hthr i _ _ _ Hi) as [(E1 & E2 & E3)|(m & md & lo0 & k0 & E1 & E2 & E3 & E4)]; [cbn in E2; discriminate|].
      subst ls. cbn in E2. destruct md; [discriminate|].
      destruct (leqb (guard f) m) eqn:Eg; [|discriminate]. apply leqb_spec in Eg.
      assert (Hoth : forall j ls1 lo1 k1 m', i <> j -> nth_error (thrs c) j = Some (ls1, lo1, k1) ->
                      held m' ls1 <> None -> m' <> m).
      { intros j ls1 lo1 k1 m' Hne Hj Hh' ->. apply Hh'. eapply (Hex i j); eauto. rewrite held_single, lrefl. reflexivity. }
      exists a. split; [left; reflexivity|].
      constructor; cbn [thrs objs].
      + rewrite length_vupd. exact Hlen.
      + intro j. destruct (Nat.eq_dec i j) as [<-|Hne].
        * intros ls1 lo1 k1 Hj. cbn [thrs objs] in Hj |- *. rewrite (nth_vupd_same _ _ _ _ Hi) in Hj. inversion Hj; subst.
          right. exists (guard f), Ex, lo0, k0. repeat split; auto.
          unfold Reduction.oset. rewrite lrefl.
          eapply solos_step; [exact E4|]. apply SoWr. reflexivity.
        * apply (th_rel_frame c a); auto; cbn [thrs objs].
          intros ls1 lo1 k1 m' Hj Hh'. split; [|reflexivity].
          unfold Reduction.oset. rewrite Eg, (lneq _ _ (Hoth _ _ _ _ _ Hne Hj Hh')). reflexivity.
      + intros m' Hm.
        assert (Hm' : m' <> m).
        { intros ->. apply (Hm i [(m, Ex)] (fst (wr f lo (objs c (guard f)))) k (nth_vupd_same _ _ _ _ Hi)).
          rewrite held_single, lrefl. reflexivity. }
        unfold Reduction.oset. rewrite Eg, (lneq _ _ Hm'). apply Hobj. eapply same_locks_noex; eauto.
      + eapply same_locks_excl; eauto.
  Qed.

  Lemma sim_init c : red_init leqb guard c -> sim c c.
  Proof.
    intro H. constructor.
    - reflexivity.
    - intros i ls lo k Hi. destruct (H _ _ Hi) as (lo1 & k1 & E & Hm). inversion E; subst. left. auto.
    - reflexivity.
    - intros i j li loi ki lj loj kj m _ Hi _ Hh. destruct (H _ _ Hi) as (lo1 & k1 & E & _). inversion E; subst.
      cbn in Hh. discriminate.
  Qed.

  Lemma asteps_trans_step a a1 i a2 : asteps a a1 -> (a2 = a1 \/ astep a1 i a2) -> asteps a a2.
  Proof. intros H [->|Hs]; [exact H|eapply asteps_snoc; eauto]. Qed.

  Theorem sim_steps c c' : vsteps c c' -> forall a0 a, asteps a0 a -> sim c a -> exists a', asteps a0 a' /\ sim c' a'.
  Proof.
    induction 1 as [c|c i c1 c2 Hs _ IH]; intros a0 a Ha Hsim.
    - exists a. auto.
    - destruct (sim_step _ _ _ _ Hsim Hs) as (a1 & Hor & Hsim1).
      apply (IH a0 a1); [eapply asteps_trans_step; eauto|exact Hsim1].
  Qed.

  Lemma nth_error_extensional {A} (l1 l2 : list A) : (forall i, nth_error l1 i = nth_error l2 i) -> l1 = l2.
  Proof.
    revert l2; induction l1 as [|x l1 IH]; intros [|y l2] H.
    - reflexivity.
    - specialize (H 0). discriminate.
    - specialize (H 0). discriminate.
    - pose proof (H 0) as H0. cbn in H0. inversion H0; subst. f_equal. apply IH. intro i. exact (H (S i)).
  Qed.

  (* when nobody holds a lock the abstract configuration IS the concrete one *)
  Lemma sim_quiescent c a : sim c a -> quiescent c -> thrs a = thrs c /\ forall m, objs a m = objs c m.
  Proof.
    intros [Hlen Hthr Hobj _] Hq. split.
    - apply nth_error_extensional. intro i. destruct (nth_error (thrs c) i) as [[[ls lo] k]|] eqn:E.
      + pose proof (Hq _ _ E) as Hl. cbn in Hl. subst ls.
        destruct (Hthr i _ _ _ E) as [(_ & _ & E3)|(m & md & lo0 & k0 & E1 & _)]; [exact E3|discriminate].
      + apply nth_error_None. rewrite Hlen. apply nth_error_None. exact E.
    - intro m. apply Hobj. intros i ls lo k Hi. pose proof (Hq _ _ Hi) as Hl. cbn in Hl. subst ls. discriminate.
  Qed.

  (* THE REDUCTION THEOREM. Threads whose code is a sequence of un-nested critical sections (exclusive, or shared and
     read-only), each touching only its own lock's object; any number of threads, any schedule, any interleaving of their individual IR steps. Every
     configuration in which nobody holds a lock (in particular: every final configuration) is reached - with the
     same object states, the same thread-local states and the same remaining code - by an execution in which
     every critical section ran alone in one atomic step. *)
  Theorem reduction c0 c :
    red_init leqb guard c0 -> vsteps c0 c -> quiescent c ->
    exists a, asteps c0 a /\ thrs a = thrs c /\ forall m, objs a m = objs c m.
  Proof.
    intros Hi Hs Hq.
    destruct (sim_steps _ _ Hs c0 c0 (asteps_refl _ _ _ _ _) (sim_init _ Hi)) as (a & Ha & Hsim).
    exists a. split; [exact Ha|]. apply sim_quiescent; assumption.
  Qed.

  (* at ANY moment (not only quiescent ones) the concrete configuration is an atomic-section configuration in which
     the threads that are inside a section have been run forward alone *)
  Theorem reduction_anytime c0 c :
    red_init leqb guard c0 -> vsteps c0 c -> exists a, asteps c0 a /\ sim c a.
  Proof.
    intros Hi Hs. exact (sim_steps _ _ Hs c0 c0 (asteps_refl _ _ _ _ _) (sim_init _ Hi)).
  Qed.
  (* the same with schedules: the atomic-section execution moves the threads in the order in which the fine-grained
     one moved them, minus the stutter steps - every atomic step happens where the same thread made a fine-grained
     step (a section: where it made its Rel). Every thread's own order is kept. *)
  Lemma sim_run c sch c' : vrun leqb guard rd wr c sch c' ->
    forall a0 s0 a, arun leqb guard rd wr a0 s0 a -> sim c a ->
    exists s' a', arun leqb guard rd wr a0 (s0 ++ s') a' /\ sublist s' sch /\ sim c' a'.
  Proof.
    induction 1 as [c|c i c1 s c2 Hs _ IH]; intros a0 s0 a Ha Hsim.
    - exists [], a. rewrite app_nil_r. split; [exact Ha|split; [apply sl_nil|exact Hsim]].
    - destruct (sim_step _ _ _ _ Hsim Hs) as (a1 & [->|Hst] & Hsim1).
      + destruct (IH a0 s0 a Ha Hsim1) as (s' & a' & H1 & H2 & H3).
        exists s', a'. split; [exact H1|split; [apply sl_skip; exact H2|exact H3]].
      + destruct (IH a0 (s0 ++ [i]) a1 (arun_snoc _ _ _ _ _ _ _ _ _ Ha Hst) Hsim1) as (s' & a' & H1 & H2 & H3).
        exists (i :: s'), a'. rewrite <- app_assoc in H1. cbn in H1.
        split; [exact H1|split; [apply sl_keep; exact H2|exact H3]].
  Qed.

  Theorem reduction_schedule c0 sch c :
    red_init leqb guard c0 -> vrun leqb guard rd wr c0 sch c -> quiescent c ->
    exists sch' a, arun leqb guard rd wr c0 sch' a /\ sublist sch' sch /\
                   thrs a = thrs c /\ forall m, objs a m = objs c m.
  Proof.
    intros Hi Hs Hq.
    destruct (sim_run _ _ _ Hs c0 [] c0 (arun_nil _ _ _ _ _) (sim_init _ Hi)) as (s' & a & H1 & H2 & H3).
    exists s', a. cbn in H1. destruct (sim_quiescent _ _ H3 Hq) as [E1 E2]. auto.
  Qed.
End Proofs.


(* ------------------------------------------------------------------------------------------ *)
(* the discipline is stable under an injective renaming of locks that commutes with guard (syntactic prefixes ->
   runtime objects) *)
Section Rename.
  Context {L F L' F' : Type}.
  Variable leqb : L -> L -> bool.
  Hypothesis leqb_spec : forall a b, leqb a b = true <-> a = b.
  Variable leqb' : L' -> L' -> bool.
  Hypothesis leqb'_spec : forall a b, leqb' a b = true <-> a = b.
  Variable guard : F -> L.
  Variable guard' : F' -> L'.
  Variable fl : L -> L'.
  Variable ff : F -> F'.
  Hypothesis fl_inj : forall a b, fl a = fl b -> a = b.
  Hypothesis guard_comm : forall f, guard' (ff f) = fl (guard f).

  Lemma leqb_fl' a b : leqb' (fl a) (fl b) = leqb a b.
  Proof.
    destruct (leqb a b) eqn:E.
    - apply leqb_spec in E. subst. apply leqb'_spec. reflexivity.
    - destruct (leqb' (fl a) (fl b)) eqn:E'; [|reflexivity].
      apply leqb'_spec in E'. apply fl_inj in E'. apply leqb_spec in E'. congruence.
  Qed.

  Definition mapmph (ph : @mphase L) : @mphase L' := match ph with MOut => MOut | MIn m md => MIn (fl m) md end.

  Lemma mphase_eqb_map a b : mphase_eqb leqb' (mapmph a) (mapmph b) = mphase_eqb leqb a b.
  Proof. destruct a as [|m md], b as [|m' md']; cbn; try reflexivity. rewrite leqb_fl'. reflexivity. Qed.

  Lemma msec_smap s : forall ph,
    msec leqb' guard' (mapmph ph) (smap fl ff s) = option_map (option_map mapmph) (msec leqb guard ph s).
  Proof.
    induction s as [|a IHa b IHb|a IHa b IHb|b IHb|m md|m|f|f|c|]; intro ph; cbn [smap msec].
    - reflexivity.
    - rewrite IHa. destruct (msec leqb guard ph a) as [[p1|]|]; cbn; auto.
    - rewrite IHa, IHb.
      destruct (msec leqb guard ph a) as [[p1|]|]; destruct (msec leqb guard ph b) as [[p2|]|]; cbn; auto.
      rewrite mphase_eqb_map. destruct (mphase_eqb leqb p1 p2); reflexivity.
    - rewrite IHb. destruct (msec leqb guard ph b) as [[p1|]|]; cbn; auto.
      rewrite mphase_eqb_map. destruct (mphase_eqb leqb p1 ph); reflexivity.
    - destruct ph; reflexivity.
    - destruct ph as [|m' md']; cbn; try reflexivity. rewrite leqb_fl'. destruct (leqb m m'); reflexivity.
    - destruct ph as [|m' md']; cbn; try reflexivity. rewrite guard_comm, leqb_fl'. destruct (leqb (guard f) m'); reflexivity.
    - destruct ph as [|m' [|]]; cbn; try reflexivity. rewrite guard_comm, leqb_fl'. destruct (leqb (guard f) m'); reflexivity.
    - reflexivity.
    - destruct ph; reflexivity.
  Qed.

  Lemma msec_fn_smap s : msec_fn leqb' guard' (smap fl ff s) = msec_fn leqb guard s.
  Proof.
    unfold msec_fn. cbn [msec_cont]. change (@MOut L') with (mapmph MOut). rewrite msec_smap.
    destruct (msec leqb guard MOut s) as [[[|m md]|]|]; reflexivity.
  Qed.
End Rename.

(* ------------------------------------------------------------------------------------------ *)
(* the relay instance: threads run exported store methods of the generated program on runtime objects *)
Lemma inst_msec rho s :
  (forall a b, rho a = rho b -> a = b) -> msec_fn oname_eqb guard_of (inst rho s) = msec_sfn s.
Proof.
  intro Hinj. unfold inst, msec_sfn.
  assert (Hs : forall a b, sname_eqb a b = true <-> a = b).
  { intros [a1 a2] [b1 b2]. unfold sname_eqb. cbn.
    rewrite andb_true_iff, !String.eqb_eq. split; [intros [-> ->]; reflexivity|intros [= -> ->]; auto]. }
  assert (Ho : forall a b, oname_eqb a b = true <-> a = b).
  { intros [a1 a2] [b1 b2]. unfold oname_eqb. cbn.
    rewrite andb_true_iff, N.eqb_eq, String.eqb_eq. split; [intros [-> ->]; reflexivity|intros [= -> ->]; auto]. }
  apply (msec_fn_smap sname_eqb Hs oname_eqb Ho guard_of guard_of).
  - intros [a1 a2] [b1 b2] H. inversion H. f_equal. apply Hinj. assumption.
  - intros [p f]. reflexivity.
Qed.

Lemma msec_prog_body names prog name body :
  msec_prog names prog = true -> In (name, body) prog -> In name names -> msec_sfn body = true.
Proof.
  unfold msec_prog. intros H Hin Hn. rewrite forallb_forall in H. specialize (H _ Hin). cbn in H.
  assert (E : existsb (String.eqb name) names = true).
  { apply existsb_exists. exists name. split; [assumption|apply String.eqb_refl]. }
  rewrite E in H. exact H.
Qed.

Section RelayReduction.
  Context {Ob Lo : Type}.
  Variable rd : oname -> Lo -> Ob -> Lo.
  Variable wr : oname -> Lo -> Ob -> Lo * Ob.

  (* every thread is one call of an exported store method (any method, any injective instantiation of its
     prefixes with runtime objects, any initial local state = its arguments) *)
  Definition runs_methods (names : list string) (prog : program) (c : @cfg oname oname Ob Lo) : Prop :=
    forall i t, nth_error (thrs c) i = Some t ->
      exists name body rho lo, In (name, body) prog /\ In name names /\
        (forall a b, rho a = rho b -> a = b) /\ t = ([], lo, [inst rho body]).

  Theorem prog_methods_reduce names prog c0 c :
    msec_prog names prog = true -> runs_methods names prog c0 ->
    vsteps oname_eqb guard_of rd wr c0 c -> quiescent c ->
    exists a, asteps oname_eqb guard_of rd wr c0 a /\ thrs a = thrs c /\ forall m, objs a m = objs c m.
  Proof.
    intros Hm Hr Hs Hq.
    assert (Ho : forall a b, oname_eqb a b = true <-> a = b).
    { intros [a1 a2] [b1 b2]. unfold oname_eqb. cbn.
      rewrite andb_true_iff, N.eqb_eq, String.eqb_eq. split; [intros [-> ->]; reflexivity|intros [= -> ->]; auto]. }
    apply (reduction oname_eqb Ho guard_of rd wr c0 c); auto.
    intros i t Hi. destruct (Hr _ _ Hi) as (name & body & rho & lo & Hin & Hn & Hinj & ->).
    exists lo, [inst rho body]. split; [reflexivity|].
    change (msec_fn oname_eqb guard_of (inst rho body) = true). rewrite inst_msec by assumption.
    eapply msec_prog_body; eauto.
  Qed.
End RelayReduction.

(* ------------------------------------------------------------------------------------------ *)
(* MOVERS, for ANY well-locked pool (nested sections included): a step that is neither an acquisition nor a release
   commutes with the next step of any other thread - the both-mover half of Lipton's reduction *)
Section Movers.
  Context {L F Ob Lo : Type}.
  Variable leqb : L -> L -> bool.
  Hypothesis leqb_spec : forall a b, leqb a b = true <-> a = b.
  Variable guard : F -> L.
  Variable rd : F -> Lo -> Ob -> Lo.
  Variable wr : F -> Lo -> Ob -> Lo * Ob.

  Notation vthread := (@vthread L F Lo).
  Notation cfg := (@cfg L F Ob Lo).
  Notation held := (held leqb).
  Notation oset := (@oset L Ob leqb).
  Notation vtstep := (vtstep leqb guard rd wr).
  Notation vstep := (vstep leqb guard rd wr).

  (* the lock discipline, as far as the movers need it: accesses happen under the guard lock (writes exclusively),
     and an exclusive holder excludes every other holder *)
  Record wl (c : cfg) : Prop := {
    wl_rd : forall i ls lo f k, nth_error (thrs c) i = Some (ls, lo, Rd f :: k) -> held (guard f) ls <> None;
    wl_wr : forall i ls lo f k, nth_error (thrs c) i = Some (ls, lo, Wr f :: k) -> held (guard f) ls = Some Ex;
    wl_ex : forall i j li loi ki lj loj kj m, i <> j ->
      nth_error (thrs c) i = Some (li, loi, ki) -> nth_error (thrs c) j = Some (lj, loj, kj) ->
      held m li = Some Ex -> held m lj = None
  }.

  Lemma vupd_comm (ts : list vthread) i j a b : i <> j -> vupd (vupd ts i a) j b = vupd (vupd ts j b) i a.
  Proof.
    revert i j; induction ts as [|x ts IH]; intros [|i] [|j] H; cbn; try reflexivity; try congruence.
    f_equal. apply IH. lia.
  Qed.

  Lemma free_erase m (ts : list vthread) :
    free leqb m (erase ts) <-> (forall j ls lo k, nth_error ts j = Some (ls, lo, k) -> held m ls = None).
  Proof.
    unfold free, erase. split.
    - intros H j ls lo k Hj. apply (H j (erase_t (ls, lo, k))). rewrite nth_error_map, Hj. reflexivity.
    - intros H j t Hj. rewrite nth_error_map in Hj. destruct (nth_error ts j) as [[[ls lo] k]|] eqn:E; inversion Hj; subst.
      cbn. eapply H; eauto.
  Qed.

  Lemma noex_erase m (ts : list vthread) :
    no_ex leqb m (erase ts) <-> (forall j ls lo k, nth_error ts j = Some (ls, lo, k) -> held m ls <> Some Ex).
  Proof.
    unfold no_ex, erase. split.
    - intros H j ls lo k Hj. apply (H j (erase_t (ls, lo, k))). rewrite nth_error_map, Hj. reflexivity.
    - intros H j t Hj. rewrite nth_error_map in Hj. destruct (nth_error ts j) as [[[ls lo] k]|] eqn:E; inversion Hj; subst.
      cbn. eapply H; eauto.
  Qed.
  Lemma free_vupd_same (ts : list vthread) i ls lo k lo' k' m :
    nth_error ts i = Some (ls, lo, k) ->
    (free leqb m (erase (vupd ts i (ls, lo', k'))) <-> free leqb m (erase ts)).
  Proof.
    intro Hi. rewrite !free_erase. split; intros H j ls1 lo1 k1 Hj; destruct (Nat.eq_dec i j) as [<-|Hne].
    - rewrite Hi in Hj. inversion Hj; subst. apply (H i ls1 lo' k'). eapply nth_vupd_same; eauto.
    - apply (H j ls1 lo1 k1). rewrite nth_vupd_other by assumption. exact Hj.
    - rewrite (nth_vupd_same _ _ _ _ Hi) in Hj. inversion Hj; subst. eapply H; eauto.
    - rewrite nth_vupd_other in Hj by assumption. eapply H; eauto.
  Qed.

  Lemma noex_vupd_same (ts : list vthread) i ls lo k lo' k' m :
    nth_error ts i = Some (ls, lo, k) ->
    (no_ex leqb m (erase (vupd ts i (ls, lo', k'))) <-> no_ex leqb m (erase ts)).
  Proof.
    intro Hi. rewrite !noex_erase. split; intros H j ls1 lo1 k1 Hj; destruct (Nat.eq_dec i j) as [<-|Hne].
    - rewrite Hi in Hj. inversion Hj; subst. apply (H i ls1 lo' k'). eapply nth_vupd_same; eauto.
    - apply (H j ls1 lo1 k1). rewrite nth_vupd_other by assumption. exact Hj.
    - rewrite (nth_vupd_same _ _ _ _ Hi) in Hj. inversion Hj; subst. eapply H; eauto.
    - rewrite nth_vupd_other in Hj by assumption. eapply H; eauto.
  Qed.

  Definition same (a b : cfg) : Prop := thrs a = thrs b /\ forall m, objs a m = objs b m.

  (* a step that keeps the thread's lockset: control, blocking, an access *)
  Definition quiet (c : cfg) (i : nat) : Prop :=
    exists ls lo s k, nth_error (thrs c) i = Some (ls, lo, s :: k) /\
      match s with Acq _ _ | Rel _ => False | _ => True end.

  (* two accesses of different threads to the same object are never both enabled unless both are reads *)
  Lemma guards_differ c i j li loi ki lj loj kj f f' :
    wl c -> i <> j ->
    nth_error (thrs c) i = Some (li, loi, Wr f :: ki) ->
    nth_error (thrs c) j = Some (lj, loj, kj) -> held (guard f') lj <> None -> guard f' <> guard f.
  Proof.
    intros [_ Hw Hx] Hne Hi Hj Hh E. apply Hh. rewrite E. eapply (Hx i j); eauto.
  Qed.

  Lemma oset_other (ob : L -> Ob) g v m : m <> g -> oset ob g v m = ob m.
  Proof.
    intro H. unfold Reduction.oset. destruct (leqb m g) eqn:E; [apply leqb_spec in E; contradiction|reflexivity].
  Qed.

  (* RIGHT MOVER (and, read backwards, LEFT MOVER): a step that is neither Acq nor Rel commutes with the next step of
     any other thread: same final configuration *)
  Theorem quiet_step_commutes c i c1 j c2 :
    wl c -> i <> j -> quiet c i -> vstep c i c1 -> vstep c1 j c2 ->
    exists c1' c2', vstep c j c1' /\ vstep c1' i c2' /\ same c2' c2.
  Proof.
    intros Hwl Hne Hq H1 H2.
    destruct H1 as [c i ti o1 ti' Hi Hti].
    inversion H2 as [c1x jx tj o2 tj' Hj Htj]; subst c1x jx c2. cbn [thrs objs] in Hj, Htj.
    rewrite nth_vupd_other in Hj by assumption.
    destruct Hq as (ls0 & lo0 & s0 & k0 & Hq & Hs0). rewrite Hi in Hq.
    (* common endings: j's step first (tactic tj), then i's (tactic ti) *)
    Ltac comm Hi Hj tj ti :=
      do 2 eexists; split; [eapply VStep; [exact Hj|tj]|
        split; [eapply VStep; [cbn [thrs objs]; rewrite nth_vupd_other by auto; exact Hi|ti]|
          split; [cbn [thrs objs]; apply vupd_comm; auto|intro; reflexivity]]].
    destruct Hti as [ls lo k lo' k' Hl|ls lo m k Hf|ls lo m k Hn Hh|ls lo m k|ls lo f k|ls lo f k];
      try (inversion Hq; subst; contradiction).
    - (* i: a step touching no object *)
      inversion Htj as [ls2 lo2 k2 lo2' k2' Hl2|ls2 lo2 m2 k2 Hf2|ls2 lo2 m2 k2 Hn2 Hh2|ls2 lo2 m2 k2|ls2 lo2 f2 k2|ls2 lo2 f2 k2];
        subst tj tj'; try subst o2.
      + comm Hi Hj ltac:(apply VLocal; exact Hl2) ltac:(apply VLocal; exact Hl).
      + comm Hi Hj ltac:(apply VAcqEx; exact (proj1 (free_vupd_same _ _ _ _ _ _ _ _ Hi) Hf2)) ltac:(apply VLocal; exact Hl).
      + comm Hi Hj ltac:(apply VAcqSh; [exact (proj1 (noex_vupd_same _ _ _ _ _ _ _ _ Hi) Hn2)|exact Hh2]) ltac:(apply VLocal; exact Hl).
      + comm Hi Hj ltac:(apply VRel) ltac:(apply VLocal; exact Hl).
      + comm Hi Hj ltac:(apply VRd) ltac:(apply VLocal; exact Hl).
      + comm Hi Hj ltac:(apply VWr) ltac:(apply VLocal; exact Hl).
    - (* i: Rd f *)
      inversion Htj as [ls2 lo2 k2 lo2' k2' Hl2|ls2 lo2 m2 k2 Hf2|ls2 lo2 m2 k2 Hn2 Hh2|ls2 lo2 m2 k2|ls2 lo2 f2 k2|ls2 lo2 f2 k2];
        subst tj tj'; try subst o2.
      + comm Hi Hj ltac:(apply VLocal; exact Hl2) ltac:(apply VRd).
      + comm Hi Hj ltac:(apply VAcqEx; exact (proj1 (free_vupd_same _ _ _ _ _ _ _ _ Hi) Hf2)) ltac:(apply VRd).
      + comm Hi Hj ltac:(apply VAcqSh; [exact (proj1 (noex_vupd_same _ _ _ _ _ _ _ _ Hi) Hn2)|exact Hh2]) ltac:(apply VRd).
      + comm Hi Hj ltac:(apply VRel) ltac:(apply VRd).
      + comm Hi Hj ltac:(apply VRd) ltac:(apply VRd).
      + (* j writes: another object than the one i reads *)
        assert (Hg : guard f <> guard f2).
        { eapply (guards_differ c j i); eauto. eapply (wl_rd _ Hwl i); eauto. }
        do 2 eexists. split; [eapply VStep; [exact Hj|apply VWr]|].
        split; [eapply VStep; [cbn [thrs objs]; rewrite nth_vupd_other by auto; exact Hi|apply VRd]|].
        split; [cbn [thrs objs]; rewrite (oset_other _ _ _ _ Hg); apply vupd_comm; auto|intro; reflexivity].
    - (* i: Wr f *)
      assert (Hother : forall f2 ls2 lo2 k2, nth_error (thrs c) j = Some (ls2, lo2, k2) -> held (guard f2) ls2 <> None -> guard f2 <> guard f).
      { intros f2 ls2 lo2 k2 Hj2 Hh2. eapply (guards_differ c i j); eauto. }
      inversion Htj as [ls2 lo2 k2 lo2' k2' Hl2|ls2 lo2 m2 k2 Hf2|ls2 lo2 m2 k2 Hn2 Hh2|ls2 lo2 m2 k2|ls2 lo2 f2 k2|ls2 lo2 f2 k2];
        subst tj tj'; try subst o2.
      + comm Hi Hj ltac:(apply VLocal; exact Hl2) ltac:(apply VWr).
      + comm Hi Hj ltac:(apply VAcqEx; exact (proj1 (free_vupd_same _ _ _ _ _ _ _ _ Hi) Hf2)) ltac:(apply VWr).
      + comm Hi Hj ltac:(apply VAcqSh; [exact (proj1 (noex_vupd_same _ _ _ _ _ _ _ _ Hi) Hn2)|exact Hh2]) ltac:(apply VWr).
      + comm Hi Hj ltac:(apply VRel) ltac:(apply VWr).
      + (* j reads another object *)
        assert (Hg : guard f2 <> guard f) by (eapply Hother; eauto; eapply (wl_rd _ Hwl j); eauto).
        do 2 eexists. split; [eapply VStep; [exact Hj|apply VRd]|].
        split; [eapply VStep; [cbn [thrs objs]; rewrite nth_vupd_other by auto; exact Hi|apply VWr]|].
        split; [cbn [thrs objs]; rewrite (oset_other _ _ _ _ Hg); apply vupd_comm; auto|intro; reflexivity].
      + (* j writes another object *)
        assert (Hg : guard f2 <> guard f).
        { eapply Hother; eauto. rewrite (wl_wr _ Hwl j _ _ _ _ Hj). discriminate. }
        assert (Hg' : guard f <> guard f2) by congruence.
        do 2 eexists. split; [eapply VStep; [exact Hj|apply VWr]|].
        split; [eapply VStep; [cbn [thrs objs]; rewrite nth_vupd_other by auto; exact Hi|apply VWr]|].
        split.
        * cbn [thrs objs]. rewrite (oset_other _ _ _ _ Hg), (oset_other _ _ _ _ Hg'). apply vupd_comm; auto.
        * intro m. cbn [thrs objs]. rewrite (oset_other _ _ _ _ Hg), (oset_other _ _ _ _ Hg').
          unfold Reduction.oset. destruct (leqb m (guard f)) eqn:E1; destruct (leqb m (guard f2)) eqn:E2; try reflexivity.
          apply leqb_spec in E1. apply leqb_spec in E2. congruence.
  Qed.

  (* the discipline holds in every configuration reachable from well-locked code (any nesting): it is what the
     invariant of Proofs/LockIR_proofs.v says about the erased pool *)
  Lemma inv_wl rank nb ord (c : cfg) : inv leqb guard rank nb ord (erase (thrs c)) -> wl c.
  Proof.
    intros [Hok Hex]. constructor.
    - intros i ls lo f k Hi.
      assert (He : nth_error (erase (thrs c)) i = Some (ls, Rd f :: k)) by (unfold erase; rewrite nth_error_map, Hi; reflexivity).
      destruct (at_access_held leqb guard rank nb ord (ls, Rd f :: k) f false (Hok _ _ He)) as [_ H]; [cbn; auto|exact H].
    - intros i ls lo f k Hi.
      assert (He : nth_error (erase (thrs c)) i = Some (ls, Wr f :: k)) by (unfold erase; rewrite nth_error_map, Hi; reflexivity).
      destruct (at_access_held leqb guard rank nb ord (ls, Wr f :: k) f true (Hok _ _ He)) as [H _]; [cbn; auto|auto].
    - intros i j li loi ki lj loj kj m Hne Hi Hj Hh.
      apply (Hex i j (li, ki) (lj, kj) m Hne); auto; unfold erase; rewrite nth_error_map; [rewrite Hi|rewrite Hj]; reflexivity.
  Qed.

  Lemma vstep_inv rank nb ord c i c' :
    inv leqb guard rank nb ord (erase (thrs c)) -> vstep c i c' -> inv leqb guard rank nb ord (erase (thrs c')).
  Proof.
    intros Hinv Hs. destruct (vstep_erases leqb guard rd wr (jump_chk leqb guard rank nb ord) c i c' Hs) as [e He].
    eapply step_inv; eauto.
  Qed.

  Theorem wl_reachable rank nb ord c0 c :
    initial leqb guard rank nb ord (erase (thrs c0)) -> vsteps leqb guard rd wr c0 c -> wl c.
  Proof.
    intros Hi Hs. apply (inv_wl rank nb ord).
    assert (H0 : inv leqb guard rank nb ord (erase (thrs c0))) by (apply initial_inv; exact Hi).
    clear Hi. induction Hs as [c|c i c1 c2 Hst _ IH]; [exact H0|]. apply IH. eapply vstep_inv; eauto.
  Qed.
End Movers.

(* ------------------------------------------------------------------------------------------ *)
(* non-vacuity: two threads add their local value to the same object and keep the old value; thread 1 takes a
   local step in the middle of thread 0's section and then has to wait for the lock *)
Definition w_rd (_ : nat) (lo ob : N) : N := lo.
Definition w_wr (_ : nat) (lo ob : N) : N * N := (ob, (ob + lo)%N).
Definition w_code0 : list (stmt nat nat) := [Acq 0 Ex; Wr 0; Rel 0].
Definition w_code1 : list (stmt nat nat) := [Skip; Acq 0 Ex; Wr 0; Rel 0].
Definition w_c0 : @cfg nat nat N N := mkcfg (fun _ => 1%N) [([], 5%N, w_code0); ([], 7%N, w_code1)].

Lemma reduction_witness :
  red_init Nat.eqb (fun f => f) w_c0 /\
  exists c, vsteps Nat.eqb (fun f => f) w_rd w_wr w_c0 c /\ quiescent c /\
            objs c 0 = 13%N /\ thrs c = [([], 1%N, []); ([], 6%N, [])].
Proof.
  split.
  - intros [|[|i]] t Hi; cbn in Hi; inversion Hi; subst; [exists 5%N, w_code0|exists 7%N, w_code1|destruct i; discriminate];
      split; reflexivity.
  - eexists. split; [|split; [|split]].
    + eapply vsteps_cons. { eapply (VStep _ _ _ _ _ 0); [reflexivity|]. apply VAcqEx.
        intros [|[|j]] t Hj; cbn in Hj; inversion Hj; subst; try reflexivity. destruct j; discriminate. }
      cbn [vupd thrs objs].
      eapply vsteps_cons. { eapply (VStep _ _ _ _ _ 1); [reflexivity|]. apply VLocal. apply LSkip. }
      cbn [vupd thrs objs].
      eapply vsteps_cons. { eapply (VStep _ _ _ _ _ 0); [reflexivity|]. apply VWr. }
      cbn [vupd thrs objs].
      eapply vsteps_cons. { eapply (VStep _ _ _ _ _ 0); [reflexivity|]. apply VRel. }
      cbn [vupd thrs objs].
      eapply vsteps_cons. { eapply (VStep _ _ _ _ _ 1); [reflexivity|]. apply VAcqEx.
        intros [|[|j]] t Hj; cbn in Hj; inversion Hj; subst; try reflexivity. destruct j; discriminate. }
      cbn [vupd thrs objs].
      eapply vsteps_cons. { eapply (VStep _ _ _ _ _ 1); [reflexivity|]. apply VWr. }
      cbn [vupd thrs objs].
      eapply vsteps_cons. { eapply (VStep _ _ _ _ _ 1); [reflexivity|]. apply VRel. }
      apply vsteps_refl.
    + intros [|[|i]] t Hi; cbn in Hi; inversion Hi; subst; try reflexivity. destruct i; discriminate.
    + vm_compute. reflexivity.
    + vm_compute. reflexivity.
Qed.

(* non-vacuity for the movers: thread 0 is inside a shared section on lock 1 NESTED in a shared section on lock 0 and
   reads; thread 1 takes a control step next; the discipline holds in that configuration *)
Definition mv_c : @cfg nat nat N N :=
  mkcfg (fun _ => 4%N) [([(1, Sh); (0, Sh)], 0%N, [Rd 1; Rel 1; Rel 0]); ([], 9%N, [Skip])].

Lemma movers_witness :
  wl Nat.eqb (fun f => f) mv_c /\ quiet mv_c 0 /\
  exists c1 c2, vstep Nat.eqb (fun f => f) w_rd w_wr mv_c 0 c1 /\ vstep Nat.eqb (fun f => f) w_rd w_wr c1 1 c2.
Proof.
  split; [|split].
  - constructor.
    + intros [|[|i]] ls lo f k Hi; cbn in Hi; inversion Hi; subst; [cbn; discriminate|destruct i; discriminate].
    + intros [|[|i]] ls lo f k Hi; cbn in Hi; inversion Hi; subst. destruct i; discriminate.
    + intros [|[|i]] j li loi ki lj loj kj m _ Hi _ Hh; cbn in Hi; inversion Hi; subst.
      * cbn in Hh. destruct (Nat.eqb m 1); [discriminate|]. destruct (Nat.eqb m 0); discriminate.
      * discriminate.
      * destruct i; discriminate.
  - exists [(1, Sh); (0, Sh)], 0%N, (Rd 1), [Rel 1; Rel 0]. split; [reflexivity|exact I].
  - do 2 eexists. split.
    + eapply (VStep _ _ _ _ mv_c 0); [reflexivity|apply VRd].
    + eapply VStep; [reflexivity|apply VLocal; apply LSkip].
Qed.
