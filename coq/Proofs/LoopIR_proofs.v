(* Generic facts about the for/select loop shapes of Model/LoopIR.v (C13, "loops stop"). *)
From Relay Require Import Base.Prelude Model.LoopIR.

Lemma loop_ok_parts l :
  loop_ok l = true ->
  has_default l = false /\ forallb case_ok (cases l) = true /\ (sees_closed l = true -> listens l = true).
Proof.
  unfold loop_ok. intros H.
  apply andb_true_iff in H. destruct H as [H Hs].
  apply andb_true_iff in H. destruct H as [Hd Hc].
  repeat split.
  - destruct (has_default l); [discriminate|reflexivity].
  - exact Hc.
  - intros E. rewrite E in Hs. exact Hs.
Qed.

(* taking the shutdown case of a checked loop ends the loop *)
Lemma shutdown_case_exits l i c :
  loop_ok l = true -> nth_error (cases l) i = Some c -> is_shutdown c = true -> iter l i = Exited.
Proof.
  intros Hok Hn Hs. destruct (loop_ok_parts l Hok) as (_ & Hc & _).
  rewrite forallb_forall in Hc. specialize (Hc c (nth_error_In _ _ Hn)).
  unfold case_ok in Hc. rewrite Hs in Hc. apply andb_true_iff in Hc. destruct Hc as [_ Hc].
  unfold iter. rewrite Hn, Hc. reflexivity.
Qed.

(* a run that contains an exiting choice has exited (at that iteration or at an earlier one) *)
Lemma run_exits_at l i sched : iter l i = Exited -> In i sched -> run l sched = Exited.
Proof.
  intros Hi. induction sched as [|j r IH]; intros Hin; [destruct Hin|].
  cbn [run]. destruct (iter l j) eqn:Ej; [|reflexivity].
  destruct Hin as [->|Hin]; [congruence|apply IH; exact Hin].
Qed.

Lemma stops_in ls l : stops_on_close ls = true -> In l ls -> loop_ok l = true.
Proof. unfold stops_on_close. rewrite forallb_forall. intros H Hin. apply H; exact Hin. Qed.

Lemma loops_stop ls :
  stops_on_close ls = true ->
  forall l, In l ls ->
  forall i c, nth_error (cases l) i = Some c -> is_shutdown c = true ->
  forall sched, In i sched -> run l sched = Exited.
Proof.
  intros Hs l Hl i c Hn Hc sched Hin.
  eapply run_exits_at; [|exact Hin].
  eapply shutdown_case_exits; [eapply stops_in; eassumption|exact Hn|exact Hc].
Qed.

(* ---- what is ready after close(closed) ---- *)
Lemma ready_from_spec cs busy : forall k i,
  In i (ready_from k cs busy) <->
  (k <= i)%nat /\ exists c, nth_error cs (i - k) = Some c /\ (is_shutdown c || existsb (Nat.eqb i) busy = true).
Proof.
  induction cs as [|c r IH]; intros k i; cbn [ready_from].
  - split; [intros []|]. intros (_ & c & Hn & _). destruct (i - k)%nat; discriminate.
  - assert (Hstep : In i (ready_from (S k) r busy) <->
              (S k <= i)%nat /\ exists c0, nth_error r (i - S k) = Some c0 /\ (is_shutdown c0 || existsb (Nat.eqb i) busy = true))
      by apply IH.
    destruct (is_shutdown c || existsb (Nat.eqb k) busy) eqn:E.
    + cbn [In]. rewrite Hstep. split.
      * intros [<-|(Hle & c0 & Hn & Hc)].
        -- split; [lia|]. exists c. rewrite Nat.sub_diag. split; [reflexivity|exact E].
        -- split; [lia|]. exists c0. replace (i - k)%nat with (S (i - S k)) by lia. split; assumption.
      * intros (Hle & c0 & Hn & Hc).
        destruct (Nat.eq_dec k i) as [->|Hne]; [left; reflexivity|right].
        split; [lia|]. exists c0. replace (i - k)%nat with (S (i - S k)) in Hn by lia. split; assumption.
    + rewrite Hstep. split.
      * intros (Hle & c0 & Hn & Hc). split; [lia|]. exists c0.
        replace (i - k)%nat with (S (i - S k)) by lia. split; assumption.
      * intros (Hle & c0 & Hn & Hc).
        destruct (Nat.eq_dec k i) as [->|Hne].
        -- rewrite Nat.sub_diag in Hn. cbn in Hn. inversion Hn; subst c0. congruence.
        -- split; [lia|]. exists c0. replace (i - k)%nat with (S (i - S k)) in Hn by lia. split; assumption.
Qed.

Lemma ready_after_close_spec l busy i :
  In i (ready_after_close l busy) <->
  exists c, nth_error (cases l) i = Some c /\ (is_shutdown c || existsb (Nat.eqb i) busy = true).
Proof.
  unfold ready_after_close. rewrite ready_from_spec. rewrite Nat.sub_0_r.
  split; [intros (_ & H); exact H|intros H; split; [lia|exact H]].
Qed.

Lemma shutdown_case_ready l busy i c :
  nth_error (cases l) i = Some c -> is_shutdown c = true -> In i (ready_after_close l busy).
Proof.
  intros Hn Hc. apply ready_after_close_spec. exists c. split; [exact Hn|]. rewrite Hc. reflexivity.
Qed.

Lemma existsb_nth {A} (p : A -> bool) l : existsb p l = true -> exists i x, nth_error l i = Some x /\ p x = true.
Proof.
  induction l as [|a r IH]; cbn; [discriminate|].
  destruct (p a) eqn:E; cbn.
  - intros _. exists 0%nat, a. split; [reflexivity|exact E].
  - intros H. destruct (IH H) as (i & x & Hn & Hp). exists (S i), x. split; assumption.
Qed.

(* with the other channels quiet: after close(closed) a checked loop that can see `closed`
   does not sleep, and whatever its select picks ends it *)
Lemma quiet_exit ls :
  stops_on_close ls = true ->
  forall l, In l ls -> sees_closed l = true ->
  blocks l (ready_after_close l []) = false /\
  forall i, In i (ready_after_close l []) -> forall rest, run l (i :: rest) = Exited.
Proof.
  intros Hs l Hl Hsee. pose proof (stops_in ls l Hs Hl) as Hok.
  destruct (loop_ok_parts l Hok) as (_ & _ & Hlis). specialize (Hlis Hsee).
  split.
  - unfold listens in Hlis. destruct (existsb_nth _ _ Hlis) as (i & c & Hn & Hc).
    pose proof (shutdown_case_ready l [] i c Hn Hc) as Hin.
    destruct (ready_after_close l []); [destruct Hin|reflexivity].
  - intros i Hin rest. apply ready_after_close_spec in Hin. destruct Hin as (c & Hn & Hc).
    cbn [existsb] in Hc. rewrite orb_false_r in Hc.
    cbn [run]. rewrite (shutdown_case_exits l i c Hok Hn Hc). reflexivity.
Qed.

(* with nothing ready a checked loop sleeps in its select (no default arm) *)
Lemma idle_blocks l : loop_ok l = true -> blocks l [] = true.
Proof. intros Hok. destruct (loop_ok_parts l Hok) as (Hd & _). unfold blocks. rewrite Hd. reflexivity. Qed.

(* ---- the defect shape: a shutdown case that only leaves the select ---- *)
Lemma spins l i c busy :
  nth_error (cases l) i = Some c -> is_shutdown c = true -> leaves (tm c) = false ->
  forall n, run l (repeat i n) = Running /\
            In i (ready_after_close l busy) /\ blocks l (ready_after_close l busy) = false.
Proof.
  intros Hn Hc Hl n. split; [|split].
  - induction n as [|n IH]; cbn [repeat run]; [reflexivity|].
    unfold iter. rewrite Hn, Hl. exact IH.
  - eapply shutdown_case_ready; eassumption.
  - pose proof (shutdown_case_ready l busy i c Hn Hc) as Hin.
    destruct (ready_after_close l busy); [destruct Hin|reflexivity].
Qed.

Lemma break_select_spins l i c busy :
  nth_error (cases l) i = Some c -> is_shutdown c = true -> tm c = BreakSelect ->
  forall n, run l (repeat i n) = Running /\
            In i (ready_after_close l busy) /\ blocks l (ready_after_close l busy) = false.
Proof. intros Hn Hc Ht. apply (spins l i c busy Hn Hc). rewrite Ht; reflexivity. Qed.

(* and the checker rejects exactly that *)
Lemma spinner_rejected ls l i c :
  In l ls -> nth_error (cases l) i = Some c -> is_shutdown c = true -> leaves (tm c) = false ->
  stops_on_close ls = false.
Proof.
  intros Hl Hn Hc Hlv. destruct (stops_on_close ls) eqn:E; [|reflexivity].
  pose proof (shutdown_case_exits l i c (stops_in ls l E Hl) Hn Hc) as Hx.
  unfold iter in Hx. rewrite Hn, Hlv in Hx. discriminate.
Qed.

(* a loop none of whose cases leaves it never stops, whatever its select picks (this is the shape
   of a loop WITHOUT a shutdown case such as Hub.run: it parks in its select, it does not exit) *)
Lemma never_exits l :
  forallb (fun c => negb (leaves (tm c))) (cases l) = true -> forall sched, run l sched = Running.
Proof.
  intros H sched. induction sched as [|i r IH]; cbn [run]; [reflexivity|].
  unfold iter. destruct (nth_error (cases l) i) as [c|] eqn:En; [|exact IH].
  rewrite forallb_forall in H. specialize (H c (nth_error_In _ _ En)).
  destruct (leaves (tm c)); [discriminate|exact IH].
Qed.

(* a checked loop has no case on a timer that is made once and never re-armed *)
Lemma no_oneshot_case l c : loop_ok l = true -> In c (cases l) -> is_oneshot c = false.
Proof.
  intros Hok Hin. destruct (loop_ok_parts l Hok) as (_ & Hc & _).
  rewrite forallb_forall in Hc. specialize (Hc c Hin). unfold case_ok in Hc.
  apply andb_true_iff in Hc. destruct Hc as [Hc _]. destruct (is_oneshot c); [discriminate|reflexivity].
Qed.
