(* Duration.String followed by ParseDuration (and by the lower/trim/"never" reading that pkg/status
   applies) gives the duration back, for every int64 duration.  Stdlib only. *)
From Relay Require Import Base.Prelude Base.Json Base.Dur.
Local Open Scope Z_scope.

Lemma two63_val : two63 = 9223372036854775808.
Proof. reflexivity. Qed.
Lemma two64_val : two64 = 18446744073709551616.
Proof. reflexivity. Qed.

Fixpoint pow10 (n : nat) : Z := match n with O => 1 | S k => 10 * pow10 k end.

Lemma pow10_pos n : 0 < pow10 n.
Proof. induction n as [|n IH]; cbn [pow10]; lia. Qed.

(* ---------------------------------------------------------------- digit strings *)

Definition all_digits (ds : bytes) : Prop := Forall (fun c => is_digit c = true) ds.

Fixpoint dval (ds : bytes) (x : Z) : Z :=
  match ds with
  | [] => x
  | c :: r => dval r (x * 10 + (Z.of_N c - 48))
  end.

Lemma is_digit_range c : is_digit c = true <-> (48 <= c <= 57)%N.
Proof. unfold is_digit, in_range. lia. Qed.

Lemma digit_ok v : 0 <= v <= 9 -> is_digit (digit v) = true /\ Z.of_N (digit v) - 48 = v.
Proof. unfold is_digit, in_range, digit. lia. Qed.

Lemma dval_app ds1 : forall ds2 x, dval (ds1 ++ ds2) x = dval ds2 (dval ds1 x).
Proof.
  induction ds1 as [|c ds1 IH]; intros ds2 x; cbn [app dval]; [reflexivity|apply IH].
Qed.

Lemma dval_ge ds : all_digits ds -> forall x, 0 <= x -> x <= dval ds x.
Proof.
  induction ds as [|c ds IH]; intros Hd x Hx; cbn [dval]; [lia|].
  inversion Hd as [|c' ds' Hc Hds]; subst.
  apply is_digit_range in Hc.
  specialize (IH Hds (x * 10 + (Z.of_N c - 48)) ltac:(lia)). lia.
Qed.

Lemma all_digits_app a b : all_digits a -> all_digits b -> all_digits (a ++ b).
Proof. intros Ha Hb. apply Forall_app. split; assumption. Qed.

(* the start of what follows a number: not a digit *)
Definition nds (s : bytes) : Prop := match s with [] => True | c :: _ => is_digit c = false end.
(* the start of what follows a unit: a digit, or the end *)
Definition rest_ok (s : bytes) : Prop := match s with [] => True | c :: _ => is_digit c = true end.

Lemma leading_int_digits ds : forall x rest,
  all_digits ds -> nds rest -> 0 <= x -> dval ds x <= two63 ->
  leading_int (ds ++ rest) x = Some (dval ds x, rest).
Proof.
  induction ds as [|c ds IH]; intros x rest Hd Hr Hx Hv.
  - cbn [app dval]. destruct rest as [|c r]; cbn [leading_int]; [reflexivity|].
    cbn [nds] in Hr. rewrite Hr. reflexivity.
  - inversion Hd as [|c' ds' Hc Hds]; subst.
    cbn [app leading_int dval] in *. rewrite Hc.
    apply is_digit_range in Hc.
    pose proof (dval_ge ds Hds (x * 10 + (Z.of_N c - 48)) ltac:(lia)) as Hge.
    pose proof (Z.div_le_lower_bound two63 10 x ltac:(lia) ltac:(lia)) as Hq.
    destruct (two63 / 10 <? x) eqn:E1; [lia|].
    destruct (two63 <? x * 10 + (Z.of_N c - 48)) eqn:E2; [lia|].
    apply IH; [assumption|assumption|lia|assumption].
Qed.

Lemma leading_frac_digits ds : forall x sc rest,
  all_digits ds -> nds rest -> 0 <= x -> dval ds x <= two63 - 1 ->
  leading_frac (ds ++ rest) x sc false = (dval ds x, sc * pow10 (length ds), rest).
Proof.
  induction ds as [|c ds IH]; intros x sc rest Hd Hr Hx Hv.
  - cbn [app dval length pow10]. rewrite Z.mul_1_r.
    destruct rest as [|c r]; cbn [leading_frac]; [reflexivity|].
    cbn [nds] in Hr. rewrite Hr. reflexivity.
  - inversion Hd as [|c' ds' Hc Hds]; subst.
    cbn [app leading_frac dval length pow10] in *. rewrite Hc.
    apply is_digit_range in Hc.
    pose proof (dval_ge ds Hds (x * 10 + (Z.of_N c - 48)) ltac:(lia)) as Hge.
    pose proof (Z.div_le_lower_bound (two63 - 1) 10 x ltac:(lia) ltac:(lia)) as Hq.
    destruct ((two63 - 1) / 10 <? x) eqn:E1; [lia|].
    destruct (two63 <? x * 10 + (Z.of_N c - 48)) eqn:E2; [lia|].
    rewrite IH; [|assumption|assumption|lia|assumption].
    f_equal. f_equal. lia.
Qed.

(* ---------------------------------------------------------------- fmt_int *)

Lemma fmt_int_aux_spec k : forall v acc, 0 <= v < pow10 k ->
  exists ds, fmt_int_aux k v acc = ds ++ acc /\ all_digits ds /\ dval ds 0 = v /\ (0 < v -> ds <> []).
Proof.
  induction k as [|k IH]; intros v acc Hv; cbn [pow10] in Hv; cbn [fmt_int_aux].
  - exists []. repeat split; [constructor|cbn [dval]; lia|lia].
  - destruct (v =? 0) eqn:E0.
    + exists []. repeat split; [constructor|cbn [dval]; lia|lia].
    + pose proof (Z.div_mod v 10 ltac:(lia)) as Hdm.
      pose proof (Z.mod_pos_bound v 10 ltac:(lia)) as Hmb.
      destruct (IH (v / 10) (digit (v mod 10) :: acc) ltac:(lia)) as (ds & H1 & H2 & H3 & _).
      destruct (digit_ok (v mod 10) ltac:(lia)) as [Hd1 Hd2].
      exists (ds ++ [digit (v mod 10)]). rewrite H1, <- app_assoc. cbn [app].
      split; [reflexivity|]. split; [apply all_digits_app; [assumption|repeat constructor; assumption]|].
      split.
      * rewrite dval_app. cbn [dval]. rewrite H3, Hd2. lia.
      * intros _ Hn. apply app_eq_nil in Hn. destruct Hn as [_ Hn]. discriminate Hn.
Qed.

Lemma fmt_int_spec v : 0 <= v <= two63 ->
  all_digits (fmt_int v) /\ dval (fmt_int v) 0 = v /\ fmt_int v <> [].
Proof.
  intros Hv. unfold fmt_int. destruct (v =? 0) eqn:E0.
  - split; [repeat constructor|]. split; [cbn [dval]; lia|discriminate].
  - destruct (fmt_int_aux_spec 20 v []) as (ds & H1 & H2 & H3 & H4).
    { change (pow10 20) with 100000000000000000000. rewrite two63_val in Hv. lia. }
    rewrite H1, app_nil_r. split; [assumption|]. split; [assumption|]. apply H4. lia.
Qed.

(* ---------------------------------------------------------------- fmt_frac *)

Lemma fmt_frac_aux_true prec : forall v acc, 0 <= v ->
  exists ds, fmt_frac_aux prec v true acc = (ds ++ acc, v / pow10 prec, true)
    /\ all_digits ds /\ length ds = prec /\ dval ds 0 = v mod pow10 prec.
Proof.
  induction prec as [|prec IH]; intros v acc Hv.
  - exists []. cbn [fmt_frac_aux pow10 app length dval]. rewrite Z.div_1_r, Z.mod_1_r.
    repeat split. constructor.
  - cbn [fmt_frac_aux orb pow10].
    pose proof (Z.div_mod v 10 ltac:(lia)) as Hdm.
    pose proof (Z.mod_pos_bound v 10 ltac:(lia)) as Hmb.
    pose proof (pow10_pos prec) as Hp.
    destruct (IH (v / 10) (digit (v mod 10) :: acc) ltac:(lia)) as (ds & H1 & H2 & H3 & H4).
    destruct (digit_ok (v mod 10) ltac:(lia)) as [Hd1 Hd2].
    exists (ds ++ [digit (v mod 10)]). rewrite H1, <- app_assoc. cbn [app].
    rewrite Z.div_div by lia.
    split; [reflexivity|]. split; [apply all_digits_app; [assumption|repeat constructor; assumption]|].
    split; [rewrite app_length; cbn [length]; lia|].
    rewrite dval_app. cbn [dval]. rewrite H4, Hd2.
    rewrite (Z.rem_mul_r v 10 (pow10 prec)) by lia. lia.
Qed.

Lemma fmt_frac_aux_false prec : forall v acc, 0 <= v ->
  exists ds t, fmt_frac_aux prec v false acc = (ds ++ acc, v / pow10 prec, negb (v mod pow10 prec =? 0))
    /\ all_digits ds /\ 0 < t /\ pow10 (length ds) * t = pow10 prec
    /\ dval ds 0 * t = v mod pow10 prec /\ (v mod pow10 prec = 0 -> ds = []).
Proof.
  induction prec as [|prec IH]; intros v acc Hv.
  - exists [], 1. cbn [fmt_frac_aux pow10 app length dval]. rewrite Z.div_1_r, Z.mod_1_r.
    repeat split; try lia; try constructor.
  - cbn [fmt_frac_aux orb pow10].
    pose proof (Z.div_mod v 10 ltac:(lia)) as Hdm.
    pose proof (Z.mod_pos_bound v 10 ltac:(lia)) as Hmb.
    pose proof (pow10_pos prec) as Hp.
    pose proof (Z.rem_mul_r v 10 (pow10 prec) ltac:(lia) Hp) as Hrem.
    pose proof (Z.mod_pos_bound (v / 10) (pow10 prec) Hp) as Hmb2.
    destruct (v mod 10 =? 0) eqn:E0; cbn [negb].
    + destruct (IH (v / 10) acc ltac:(lia)) as (ds & t & H1 & H2 & H3 & H4 & H5 & H6).
      exists ds, (10 * t). rewrite H1. rewrite Z.div_div by lia.
      split; [f_equal; lia|].
      split; [assumption|]. split; [lia|]. split; [lia|]. split; [lia|].
      intros H0. apply H6. lia.
    + destruct (fmt_frac_aux_true prec (v / 10) (digit (v mod 10) :: acc) ltac:(lia))
        as (ds & H1 & H2 & H3 & H4).
      destruct (digit_ok (v mod 10) ltac:(lia)) as [Hd1 Hd2].
      exists (ds ++ [digit (v mod 10)]), 1. rewrite H1, <- app_assoc. cbn [app].
      rewrite Z.div_div by lia.
      split; [f_equal; lia|].
      split; [apply all_digits_app; [assumption|repeat constructor; assumption]|].
      split; [lia|].
      split; [rewrite app_length; cbn [length]; rewrite H3, Nat.add_1_r; cbn [pow10]; lia|].
      split; [rewrite dval_app; cbn [dval]; rewrite H4, Hd2; lia|].
      intros H0. lia.
Qed.

(* the fraction part of one component: nothing, or '.' and digits f with f * t = m, 10^|f| * t = U *)
Definition frac_ok (fr : bytes) (U m : Z) : Prop :=
  (fr = [] /\ m = 0) \/
  (exists ds t, fr = 46%N :: ds /\ all_digits ds /\ 0 < t /\ pow10 (length ds) * t = U
                /\ dval ds 0 * t = m /\ 0 < m < U).

Lemma fmt_frac_spec v prec : 0 <= v ->
  exists fr, fmt_frac v prec = (fr, v / pow10 prec) /\ frac_ok fr (pow10 prec) (v mod pow10 prec).
Proof.
  intros Hv. unfold fmt_frac.
  destruct (fmt_frac_aux_false prec v [] Hv) as (ds & t & H1 & H2 & H3 & H4 & H5 & H6).
  rewrite H1, app_nil_r.
  pose proof (Z.mod_pos_bound v (pow10 prec) (pow10_pos prec)) as Hmb.
  destruct (v mod pow10 prec =? 0) eqn:E0; cbn [negb].
  - rewrite (H6 ltac:(lia)). exists []. split; [reflexivity|]. left. split; [reflexivity|lia].
  - exists (46%N :: ds). split; [reflexivity|]. right. exists ds, t.
    repeat split; try assumption; lia.
Qed.

(* ---------------------------------------------------------------- strings that lower/trim keep *)

Definition okb (c : N) : bool :=
  ((c <? 128) && negb (in_range 65 90 c) && negb (is_space c) && negb (c =? 0))%N.

Inductive okstr : bytes -> Prop :=
| ok_nil : okstr []
| ok_ascii c s : okb c = true -> okstr s -> okstr (c :: s)
| ok_micro s : okstr s -> okstr (194%N :: 181%N :: s).

Lemma okstr_app a b : okstr a -> okstr b -> okstr (a ++ b).
Proof.
  intros Ha Hb. induction Ha as [|c s Hc Hs IH|s Hs IH]; cbn [app];
    [assumption|apply ok_ascii; assumption|apply ok_micro; assumption].
Qed.

Lemma okstr_digits ds : all_digits ds -> okstr ds.
Proof.
  induction ds as [|c ds IH]; intros Hd; [constructor|].
  inversion Hd as [|c' ds' Hc Hds]; subst. apply ok_ascii; [|apply IH; assumption].
  apply is_digit_range in Hc. unfold okb, in_range, is_space, in_range. lia.
Qed.

(* ---------------------------------------------------------------- units *)

Definition nd (c : N) : bool := negb ((c =? 46)%N || is_digit c).

Lemma unit_span_app ub : forall rest, forallb nd ub = true -> rest_ok rest ->
  unit_span (ub ++ rest) = (ub, rest).
Proof.
  induction ub as [|c ub IH]; intros rest Hu Hr; cbn [app].
  - destruct rest as [|c r]; cbn [unit_span]; [reflexivity|].
    cbn [rest_ok] in Hr. rewrite Hr, orb_true_r. reflexivity.
  - cbn [forallb] in Hu. apply andb_prop in Hu. destruct Hu as [Hc Hu].
    cbn [unit_span]. unfold nd in Hc. apply negb_true_iff in Hc. rewrite Hc.
    rewrite (IH rest Hu Hr). reflexivity.
Qed.

Definition unit_ok (ub : bytes) (U : Z) : Prop :=
  (ub = unit_ns /\ U = 1) \/ (ub = unit_micro /\ U = 1000) \/ (ub = unit_ms /\ U = 1000000) \/
  (ub = unit_s /\ U = 1000000000) \/ (ub = unit_m /\ U = 60000000000) \/
  (ub = unit_h /\ U = 3600000000000).

Lemma unit_ok_facts ub U : unit_ok ub U ->
  exists b ub', ub = b :: ub' /\ nd b = true /\ forallb nd ub' = true /\ unit_of ub = Some U
                /\ okstr ub /\ 0 < U <= 3600000000000.
Proof.
  intros [[-> ->]|[[-> ->]|[[-> ->]|[[-> ->]|[[-> ->]|[-> ->]]]]]];
    (eexists; eexists; split; [reflexivity|]; split; [reflexivity|]; split; [reflexivity|];
     split; [reflexivity|]; split; [|lia]).
  all: repeat (first [apply ok_nil | apply ok_micro | apply ok_ascii; [reflexivity|]]).
Qed.

(* ---------------------------------------------------------------- one step of parse_loop *)

Definition split_frac (s1 : bytes) : Z * Z * bytes * bool :=
  match s1 with
  | 46%N :: r => let '(f, sc, s2) := leading_frac r 0 1 false in
                 (f, sc, s2, negb (Nat.eqb (length s2) (length r)))
  | _ => (0, 1, s1, false)
  end.

Definition parse_unit (k : nat) (d v f scale : Z) (s2 : bytes) : option Z :=
  let '(u, s3) := unit_span s2 in
  match u with
  | [] => None
  | _ =>
    match unit_of u with
    | None => None
    | Some unit =>
      if two63 / unit <? v then None
      else let v1 := v * unit in
           let v2 := if 0 <? f then v1 + (f * unit) / scale else v1 in
           if (0 <? f) && (two63 <? v2) then None
           else let d' := (d + v2) mod two64 in
                if two63 <? d' then None else parse_loop k s3 d'
    end
  end.

Definition parse_body (k : nat) (s : bytes) (d : Z) : option Z :=
  match leading_int s 0 with
  | None => None
  | Some (v, s1) =>
    let pre := negb (Nat.eqb (length s1) (length s)) in
    let '(f, scale, s2, post) := split_frac s1 in
    if negb pre && negb post then None else parse_unit k d v f scale s2
  end.

Lemma parse_loop_S k c r d :
  parse_loop (S k) (c :: r) d =
  if negb ((c =? 46)%N || is_digit c) then None else parse_body k (c :: r) d.
Proof. reflexivity. Qed.

Lemma split_frac_nodot c r : c <> 46%N -> split_frac (c :: r) = (0, 1, c :: r, false).
Proof.
  intros Hc. unfold split_frac.
  destruct c as [|p]; [reflexivity|].
  do 6 (try (destruct p as [p|p|]; try reflexivity)).
  all: try (exfalso; apply Hc; reflexivity).
Qed.

Lemma split_frac_dot r :
  split_frac (46%N :: r) =
  let '(f, sc, s2) := leading_frac r 0 1 false in (f, sc, s2, negb (Nat.eqb (length s2) (length r))).
Proof. reflexivity. Qed.

Lemma frac_ok_nonneg fr U m : frac_ok fr U m -> 0 <= m.
Proof. intros [[_ ->]|(ds & t & _ & _ & _ & _ & _ & Hm)]; lia. Qed.

Lemma parse_unit_step k d w f scale ub U rest m :
  unit_ok ub U -> rest_ok rest -> 0 <= w -> 0 <= d -> 0 <= m -> d + (w * U + m) <= two63 ->
  ((f = 0 /\ m = 0) \/ (0 < f /\ f * U / scale = m)) ->
  parse_unit k d w f scale (ub ++ rest) = parse_loop k rest (d + (w * U + m)).
Proof.
  intros Hub Hrest Hw Hd Hm Hsum Hf.
  destruct (unit_ok_facts ub U Hub) as (b & ub' & Eub & Hb & Hub' & Hof & _ & HU).
  unfold parse_unit. rewrite unit_span_app; [|rewrite Eub; cbn [forallb]; rewrite Hb, Hub'; reflexivity|assumption].
  rewrite Hof. rewrite Eub at 1.
  assert (HwU : 0 <= w * U) by nia.
  pose proof (Z.div_le_lower_bound two63 U w ltac:(lia) ltac:(lia)) as Hq.
  destruct (two63 / U <? w) eqn:E1; [lia|].
  destruct Hf as [[-> ->]|[Hfpos Hfm]].
  - change (0 <? 0) with false. cbn [andb].
    rewrite Z.mod_small by (rewrite two64_val; rewrite two63_val in Hsum; lia).
    destruct (two63 <? d + w * U) eqn:E2; [lia|].
    f_equal. lia.
  - rewrite (proj2 (Z.ltb_lt 0 f) Hfpos). rewrite Hfm. cbn [andb].
    destruct (two63 <? w * U + m) eqn:E3; [lia|].
    rewrite Z.mod_small by (rewrite two64_val; rewrite two63_val in Hsum; lia).
    destruct (two63 <? d + (w * U + m)) eqn:E2; [lia|].
    reflexivity.
Qed.

Lemma parse_component k w fr ub U m rest d :
  0 <= w -> frac_ok fr U m -> unit_ok ub U -> rest_ok rest -> 0 <= d ->
  d + (w * U + m) <= two63 ->
  parse_loop (S k) (fmt_int w ++ fr ++ ub ++ rest) d = parse_loop k rest (d + (w * U + m)).
Proof.
  intros Hw Hfr Hub Hrest Hd Hsum.
  pose proof (frac_ok_nonneg fr U m Hfr) as Hm.
  destruct (unit_ok_facts ub U Hub) as (b & ub' & Eub & Hb & Hub' & Hof & _ & HU).
  assert (HwU : w <= w * U) by nia.
  destruct (fmt_int_spec w ltac:(lia)) as (Hwd & Hwv & Hwn).
  destruct (fmt_int w) as [|c0 ws] eqn:Ew; [contradiction|].
  inversion Hwd as [|c0' ws' Hc0 Hws]; subst c0' ws'.
  assert (Hbnd : is_digit b = false /\ b <> 46%N).
  { unfold nd in Hb. apply negb_true_iff in Hb. apply orb_false_elim in Hb.
    destruct Hb as [Hb1 Hb2]. split; [assumption|]. apply N.eqb_neq. assumption. }
  destruct Hbnd as [Hbd Hb46].
  assert (Hnds : nds (fr ++ ub ++ rest)).
  { destruct Hfr as [[-> _]|(ds & t & -> & _)]; [rewrite Eub|]; cbn [app nds]; [assumption|reflexivity]. }
  cbn [app]. rewrite parse_loop_S. rewrite Hc0, orb_true_r. cbn [negb].
  change (c0 :: ws ++ fr ++ ub ++ rest) with ((c0 :: ws) ++ fr ++ ub ++ rest).
  unfold parse_body.
  rewrite leading_int_digits; [|assumption|assumption|lia|lia].
  rewrite Hwv.
  assert (Hpre : Nat.eqb (length (fr ++ ub ++ rest)) (length ((c0 :: ws) ++ fr ++ ub ++ rest)) = false).
  { apply Nat.eqb_neq. rewrite (app_length (c0 :: ws)). cbn [length]. lia. }
  rewrite Hpre. cbn [negb andb].
  destruct Hfr as [[-> ->]|(ds & t & -> & Hds & Ht & HtU & Htm & Hmr)].
  - cbn [app]. rewrite Eub at 1. cbn [app]. rewrite split_frac_nodot by assumption.
    change (b :: ub' ++ rest) with ((b :: ub') ++ rest). rewrite <- Eub.
    apply parse_unit_step; try assumption. left. split; reflexivity.
  - cbn [app]. rewrite split_frac_dot.
    pose proof (dval_ge ds Hds 0 ltac:(lia)) as Hf0.
    assert (Hfle : dval ds 0 <= m) by nia.
    rewrite leading_frac_digits; [|assumption|rewrite Eub; cbn [app nds]; assumption|lia|rewrite two63_val; lia].
    apply parse_unit_step; try assumption. right. split; [nia|].
    rewrite Z.mul_1_l, <- HtU.
    replace (dval ds 0 * (pow10 (length ds) * t)) with (m * pow10 (length ds)) by (rewrite <- Htm; ring).
    apply Z.div_mul. pose proof (pow10_pos (length ds)). lia.
Qed.

(* ---------------------------------------------------------------- a string of components *)

Record comp := mkc { cw : Z; cfr : bytes; cub : bytes; cU : Z; cm : Z }.

Definition comp_bytes (c : comp) : bytes := fmt_int (cw c) ++ cfr c ++ cub c.
Definition comp_val (c : comp) : Z := cw c * cU c + cm c.
Definition comp_ok (c : comp) : Prop :=
  0 <= cw c /\ frac_ok (cfr c) (cU c) (cm c) /\ unit_ok (cub c) (cU c) /\ comp_val c <= two63.

Definition flat (cs : list comp) : bytes := flat_map comp_bytes cs.
Fixpoint total (cs : list comp) : Z :=
  match cs with [] => 0 | c :: r => comp_val c + total r end.

Lemma comp_val_nonneg c : comp_ok c -> 0 <= comp_val c.
Proof.
  intros (Hw & Hfr & Hub & _). unfold comp_val.
  pose proof (frac_ok_nonneg _ _ _ Hfr).
  destruct (unit_ok_facts _ _ Hub) as (_ & _ & _ & _ & _ & _ & _ & HU). nia.
Qed.

Lemma total_nonneg cs : Forall comp_ok cs -> 0 <= total cs.
Proof.
  induction 1 as [|c cs Hc Hcs IH]; cbn [total]; [lia|].
  pose proof (comp_val_nonneg c Hc). lia.
Qed.

(* a component: first byte a digit, at least two bytes, only bytes that lower/trim keep *)
Lemma comp_bytes_shape c rest : comp_ok c ->
  exists c1 c2 r, comp_bytes c ++ rest = c1 :: c2 :: r /\ is_digit c1 = true.
Proof.
  intros (Hw & Hfr & Hub & Hv). unfold comp_bytes.
  destruct (unit_ok_facts _ _ Hub) as (b & ub' & Eub & _ & _ & _ & _ & HU).
  pose proof (frac_ok_nonneg _ _ _ Hfr) as Hm. unfold comp_val in Hv.
  assert (HwU : cw c <= cw c * cU c) by nia.
  destruct (fmt_int_spec (cw c) ltac:(lia)) as (Hwd & _ & Hwn).
  destruct (fmt_int (cw c)) as [|c0 ws]; [contradiction|].
  inversion Hwd as [|c0' ws' Hc0 Hws]; subst c0' ws'.
  rewrite Eub. cbn [app].
  destruct ((ws ++ cfr c ++ b :: ub') ++ rest) as [|c2 r] eqn:E.
  - apply (f_equal (@length N)) in E. rewrite !app_length in E. cbn [length] in E. lia.
  - exists c0, c2, r. split; [reflexivity|assumption].
Qed.

Lemma comp_bytes_okstr c : comp_ok c -> okstr (comp_bytes c).
Proof.
  intros (Hw & Hfr & Hub & Hv). unfold comp_bytes.
  destruct (unit_ok_facts _ _ Hub) as (b & ub' & Eub & _ & _ & _ & Hok & HU).
  pose proof (frac_ok_nonneg _ _ _ Hfr) as Hm. unfold comp_val in Hv.
  assert (HwU : cw c <= cw c * cU c) by nia.
  destruct (fmt_int_spec (cw c) ltac:(lia)) as (Hwd & _ & _).
  apply okstr_app; [apply okstr_digits; assumption|]. apply okstr_app; [|assumption].
  destruct Hfr as [[-> _]|(ds & t & -> & Hds & _)]; [constructor|].
  apply ok_ascii; [reflexivity|apply okstr_digits; assumption].
Qed.

Lemma flat_rest_ok cs : Forall comp_ok cs -> rest_ok (flat cs).
Proof.
  intros Hcs. destruct Hcs as [|c cs Hc Hcs]; [exact I|].
  unfold flat. cbn [flat_map].
  destruct (comp_bytes_shape c (flat_map comp_bytes cs) Hc) as (c1 & c2 & r & -> & Hd).
  exact Hd.
Qed.

Lemma flat_okstr cs : Forall comp_ok cs -> okstr (flat cs).
Proof.
  induction 1 as [|c cs Hc Hcs IH]; [constructor|].
  unfold flat. cbn [flat_map]. apply okstr_app; [apply comp_bytes_okstr; assumption|exact IH].
Qed.

Lemma flat_length cs : Forall comp_ok cs -> (length cs <= length (flat cs))%nat.
Proof.
  induction 1 as [|c cs Hc Hcs IH]; [cbn; lia|].
  unfold flat in *. cbn [flat_map length].
  destruct (comp_bytes_shape c [] Hc) as (c1 & c2 & r & E & _). rewrite app_nil_r in E.
  rewrite app_length, E. cbn [length]. lia.
Qed.

Lemma parse_comps cs : forall fuel d, Forall comp_ok cs -> (length cs <= fuel)%nat -> 0 <= d ->
  d + total cs <= two63 -> parse_loop fuel (flat cs) d = Some (d + total cs).
Proof.
  induction cs as [|c cs IH]; intros fuel d Hcs Hfuel Hd Hsum.
  - cbn [flat flat_map total]. destruct fuel; cbn [parse_loop]; f_equal; lia.
  - inversion Hcs as [|c' cs' Hc Hcs']; subst c' cs'.
    destruct fuel as [|k]; [cbn [length] in Hfuel; lia|]. cbn [length] in Hfuel.
    cbn [total] in *. pose proof (total_nonneg cs Hcs') as Ht.
    pose proof (comp_val_nonneg c Hc) as Hv.
    unfold flat. cbn [flat_map]. change (flat_map comp_bytes cs) with (flat cs).
    destruct Hc as (Hw & Hfr & Hub & Hle). unfold comp_bytes. rewrite <- !app_assoc.
    unfold comp_val in *.
    rewrite (parse_component k (cw c) (cfr c) (cub c) (cU c) (cm c));
      [|assumption|assumption|assumption|apply flat_rest_ok; assumption|assumption|lia].
    rewrite IH; [f_equal; lia|assumption|lia|lia|lia].
Qed.

(* ---------------------------------------------------------------- dur_body as components *)

Lemma frac_ok_none U : frac_ok [] U 0.
Proof. left. split; reflexivity. Qed.

Lemma comp_ok_intro w fr ub U m :
  0 <= w -> frac_ok fr U m -> unit_ok ub U -> w * U + m <= two63 -> comp_ok (mkc w fr ub U m).
Proof. intros Hw Hfr Hub Hv. unfold comp_ok, comp_val. cbn [cw cfr cub cU cm]. tauto. Qed.

Ltac comp_tac :=
  apply comp_ok_intro;
  [lia | first [apply frac_ok_none | assumption] | unfold unit_ok; tauto | rewrite two63_val; lia].
Ltac comps_tac := repeat (apply Forall_cons; [comp_tac|]); apply Forall_nil.
Ltac flat_tac := unfold flat; cbn [flat_map]; unfold comp_bytes; cbn [cw cfr cub app]; rewrite app_nil_r; reflexivity.
Ltac total_tac := cbn [total]; unfold comp_val; cbn [cw cU cm]; lia.

Lemma dur_body_comps u : 0 <= u <= two63 ->
  exists cs, dur_body u = flat cs /\ Forall comp_ok cs /\ total cs = u /\ cs <> [].
Proof.
  intros Hu. rewrite two63_val in Hu. unfold dur_body.
  destruct (u <? 1000000000) eqn:E1.
  - destruct (u =? 0) eqn:E0.
    { exists [mkc 0 [] unit_s 1000000000 0].
      split; [reflexivity|]. split; [comps_tac|]. split; [total_tac|discriminate]. }
    destruct (u <? 1000) eqn:E2.
    { change (fmt_frac u 0) with (@nil N, u). cbv iota beta.
      exists [mkc u [] unit_ns 1 0].
      split; [flat_tac|]. split; [comps_tac|]. split; [total_tac|discriminate]. }
    destruct (u <? 1000000) eqn:E3.
    { destruct (fmt_frac_spec u 3 ltac:(lia)) as (fr & Hfr & Hok). rewrite Hfr.
      change (pow10 3) with 1000 in *.
      pose proof (Z.div_mod u 1000 ltac:(lia)) as Hdm.
      pose proof (Z.mod_pos_bound u 1000 ltac:(lia)) as Hmb.
      exists [mkc (u / 1000) fr unit_micro 1000 (u mod 1000)].
      split; [flat_tac|]. split; [comps_tac|]. split; [total_tac|discriminate]. }
    { destruct (fmt_frac_spec u 6 ltac:(lia)) as (fr & Hfr & Hok). rewrite Hfr.
      change (pow10 6) with 1000000 in *.
      pose proof (Z.div_mod u 1000000 ltac:(lia)) as Hdm.
      pose proof (Z.mod_pos_bound u 1000000 ltac:(lia)) as Hmb.
      exists [mkc (u / 1000000) fr unit_ms 1000000 (u mod 1000000)].
      split; [flat_tac|]. split; [comps_tac|]. split; [total_tac|discriminate]. }
  - destruct (fmt_frac_spec u 9 ltac:(lia)) as (fr & Hfr & Hok). rewrite Hfr.
    change (pow10 9) with 1000000000 in *.
    pose proof (Z.div_mod u 1000000000 ltac:(lia)) as Hdm.
    pose proof (Z.mod_pos_bound u 1000000000 ltac:(lia)) as Hmb.
    remember (u / 1000000000) as s eqn:Es.
    remember (u mod 1000000000) as m9 eqn:Em9.
    pose proof (Z.div_mod s 60 ltac:(lia)) as Hdm1.
    pose proof (Z.mod_pos_bound s 60 ltac:(lia)) as Hmb1.
    remember (s / 60) as mm eqn:Emm.
    remember (s mod 60) as ss eqn:Ess.
    pose proof (Z.div_mod mm 60 ltac:(lia)) as Hdm2.
    pose proof (Z.mod_pos_bound mm 60 ltac:(lia)) as Hmb2.
    remember (mm / 60) as hh eqn:Ehh.
    remember (mm mod 60) as ms eqn:Ems.
    destruct (0 <? mm) eqn:E2.
    + destruct (0 <? hh) eqn:E3.
      * exists [mkc hh [] unit_h 3600000000000 0; mkc ms [] unit_m 60000000000 0;
                mkc ss fr unit_s 1000000000 m9].
        split; [flat_tac|]. split; [comps_tac|]. split; [total_tac|discriminate].
      * exists [mkc ms [] unit_m 60000000000 0; mkc ss fr unit_s 1000000000 m9].
        split; [flat_tac|]. split; [comps_tac|]. split; [total_tac|discriminate].
    + exists [mkc ss fr unit_s 1000000000 m9].
      split; [flat_tac|]. split; [comps_tac|]. split; [total_tac|discriminate].
Qed.

(* ---------------------------------------------------------------- parse_duration_bytes *)

Definition sign_split (s : bytes) : bool * bytes :=
  match s with
  | 45%N :: r => (true, r)
  | 43%N :: r => (false, r)
  | _ => (false, s)
  end.

Definition pd_tail (neg : bool) (s1 : bytes) : option Z :=
  match s1 with
  | [] => None
  | [48%N] => Some 0
  | _ =>
    match parse_loop (length s1) s1 0 with
    | None => None
    | Some d => if neg then Some (- d) else if two63 - 1 <? d then None else Some d
    end
  end.

Lemma parse_duration_bytes_eq s :
  parse_duration_bytes s = let '(neg, s1) := sign_split s in pd_tail neg s1.
Proof. reflexivity. Qed.

Lemma sign_split_digit c r : is_digit c = true -> sign_split (c :: r) = (false, c :: r).
Proof.
  intros Hc. apply is_digit_range in Hc.
  assert (H : (c = 48 \/ c = 49 \/ c = 50 \/ c = 51 \/ c = 52 \/ c = 53 \/ c = 54 \/ c = 55
               \/ c = 56 \/ c = 57)%N) by lia.
  destruct H as [->|[->|[->|[->|[->|[->|[->|[->|[->| ->]]]]]]]]]; reflexivity.
Qed.

Lemma pd_tail_two neg c1 c2 r :
  pd_tail neg (c1 :: c2 :: r) =
  match parse_loop (length (c1 :: c2 :: r)) (c1 :: c2 :: r) 0 with
  | None => None
  | Some d => if neg then Some (- d) else if two63 - 1 <? d then None else Some d
  end.
Proof.
  unfold pd_tail. destruct c1 as [|p]; [reflexivity|].
  do 6 (try (destruct p as [p|p|]; try reflexivity)).
Qed.

Lemma parse_dur_body u : 0 <= u <= two63 ->
  exists c1 c2 r, dur_body u = c1 :: c2 :: r /\ is_digit c1 = true /\ okstr (dur_body u)
    /\ forall neg, pd_tail neg (dur_body u) =
                   if neg then Some (- u) else if two63 - 1 <? u then None else Some u.
Proof.
  intros Hu. destruct (dur_body_comps u Hu) as (cs & E & Hcs & Ht & Hne).
  rewrite E.
  destruct cs as [|c cs]; [contradiction|].
  inversion Hcs as [|c' cs' Hc Hcs']; subst c' cs'.
  pose proof (flat_length (c :: cs) Hcs) as Hlen.
  pose proof (flat_okstr (c :: cs) Hcs) as Hok.
  pose proof (parse_comps (c :: cs) (length (flat (c :: cs))) 0 Hcs Hlen ltac:(lia) ltac:(lia)) as Hp.
  destruct (comp_bytes_shape c (flat_map comp_bytes cs) Hc) as (c1 & c2 & r & E2 & Hd).
  assert (EF : flat (c :: cs) = c1 :: c2 :: r) by exact E2.
  rewrite EF in *.
  exists c1, c2, r. split; [reflexivity|]. split; [assumption|]. split; [assumption|].
  intros neg. rewrite pd_tail_two, Hp, Ht. reflexivity.
Qed.

Theorem duration_roundtrip_bytes :
  forall d : Z, (- two63 <= d < two63)%Z -> parse_duration_bytes (duration_bytes d) = Some d.
Proof.
  intros d Hd. rewrite parse_duration_bytes_eq. unfold duration_bytes.
  destruct (d <? 0) eqn:E.
  - destruct (parse_dur_body (- d) ltac:(lia)) as (c1 & c2 & r & _ & _ & _ & Hp).
    change (sign_split (45%N :: dur_body (- d))) with (true, dur_body (- d)).
    cbv iota beta. rewrite Hp. f_equal. lia.
  - destruct (parse_dur_body d ltac:(lia)) as (c1 & c2 & r & E1 & Hc1 & _ & Hp).
    rewrite E1 at 1. rewrite sign_split_digit by assumption. rewrite <- E1.
    cbv iota beta. rewrite Hp.
    destruct (two63 - 1 <? d) eqn:E2; [lia|reflexivity].
Qed.

(* ---------------------------------------------------------------- runes, ToLower, TrimSpace *)

Lemma utf8_dec_shorter s r ok rest :
  utf8_dec s = Some (r, ok, rest) -> (length rest < length s)%nat.
Proof.
  unfold utf8_dec. intros H.
  destruct s as [|b0 [|b1 [|b2 [|b3 t]]]]; [discriminate| | | |];
    repeat match type of H with
           | context [if ?b then _ else _] => destruct b
           end;
    inversion H; subst; cbn [length]; lia.
Qed.

Lemma runes_f_nil fuel : runes_f fuel [] = [].
Proof. destruct fuel; reflexivity. Qed.

Lemma runes_f_fuel n : forall s f1 f2,
  (length s <= n)%nat -> (length s <= f1)%nat -> (length s <= f2)%nat -> runes_f f1 s = runes_f f2 s.
Proof.
  induction n as [|n IH]; intros s f1 f2 Hn H1 H2.
  - destruct s; [|cbn [length] in Hn; lia]. rewrite !runes_f_nil. reflexivity.
  - destruct s as [|b s']; [rewrite !runes_f_nil; reflexivity|].
    destruct f1 as [|f1]; [cbn [length] in H1; lia|].
    destruct f2 as [|f2]; [cbn [length] in H2; lia|].
    cbn [runes_f]. destruct (utf8_dec (b :: s')) as [[[r ok] rest]|] eqn:E; [|reflexivity].
    apply utf8_dec_shorter in E. f_equal. apply IH; lia.
Qed.

Lemma runes_ascii c s : (c <? 128)%N = true -> runes (c :: s) = (c, true) :: runes s.
Proof.
  intros Hc. unfold runes. cbn [length runes_f]. unfold utf8_dec. rewrite Hc. reflexivity.
Qed.

Lemma runes_micro s : runes (194%N :: 181%N :: s) = (181%N, true) :: runes s.
Proof.
  unfold runes.
  change (runes_f (length (194%N :: 181%N :: s)) (194%N :: 181%N :: s))
    with ((181%N, true) :: runes_f (S (length s)) s).
  f_equal. apply (runes_f_fuel (length s)); lia.
Qed.

Lemma okb_facts c : okb c = true ->
  (c <? 128)%N = true /\ lower_rune (fun x => x) c = c /\ is_space c = false
  /\ enc_rune c = [c] /\ utf8_enc c = [c].
Proof.
  unfold okb, lower_rune, enc_rune, is_scalar, utf8_enc. intros H.
  assert (H1 : (c <? 128)%N = true) by lia.
  assert (H2 : in_range 65 90 c = false) by lia.
  assert (H3 : is_space c = false) by lia.
  rewrite H1, H2, H3. assert (H4 : (c <? 55296)%N = true) by lia. rewrite H4.
  cbn [orb]. repeat split; reflexivity.
Qed.

Lemma lower_rune_ascii lr c : (c <? 128)%N = true -> lower_rune lr c = lower_rune (fun x => x) c.
Proof. intros H. unfold lower_rune. rewrite H. reflexivity. Qed.

Lemma to_lower_ok lr s : lr 181%N = 181%N -> okstr s -> to_lower lr s = s.
Proof.
  intros Hlr Hs. unfold to_lower.
  induction Hs as [|c s Hc Hs IH|s Hs IH].
  - reflexivity.
  - destruct (okb_facts c Hc) as (H1 & H2 & H3 & H4 & H5).
    rewrite runes_ascii by assumption. cbn [flat_map fst].
    rewrite lower_rune_ascii by assumption. rewrite H2, H4, IH. reflexivity.
  - rewrite runes_micro. cbn [flat_map fst].
    change (lower_rune lr 181%N) with (lr 181%N). rewrite Hlr, IH. reflexivity.
Qed.

Lemma runes_nospace s : okstr s -> Forall (fun u => snd u && is_space (fst u) = false) (runes s).
Proof.
  induction 1 as [|c s Hc Hs IH|s Hs IH].
  - constructor.
  - destruct (okb_facts c Hc) as (H1 & H2 & H3 & H4 & H5).
    rewrite runes_ascii by assumption. constructor; [cbn [fst snd]; rewrite H3; reflexivity|exact IH].
  - rewrite runes_micro. constructor; [reflexivity|exact IH].
Qed.

Lemma sanitize_ok s : okstr s -> flat_map (fun u => utf8_enc (fst u)) (runes s) = s.
Proof.
  induction 1 as [|c s Hc Hs IH|s Hs IH].
  - reflexivity.
  - destruct (okb_facts c Hc) as (H1 & H2 & H3 & H4 & H5).
    rewrite runes_ascii by assumption. cbn [flat_map fst]. rewrite H5, IH. reflexivity.
  - rewrite runes_micro. cbn [flat_map fst]. rewrite IH. reflexivity.
Qed.

Lemma drop_space_id l : Forall (fun u => snd u && is_space (fst u) = false) l -> drop_space l = l.
Proof.
  intros H. destruct H as [|[r ok] t Hu Ht]; [reflexivity|].
  cbn [drop_space]. cbn [fst snd] in Hu. rewrite Hu. reflexivity.
Qed.

Lemma trim_space_ok s : okstr s -> trim_space s = s.
Proof.
  intros Hs. unfold trim_space. pose proof (runes_nospace s Hs) as Hn.
  rewrite (drop_space_id _ Hn).
  rewrite (drop_space_id (rev (runes s))) by (apply Forall_rev; exact Hn).
  rewrite rev_involutive. apply sanitize_ok. exact Hs.
Qed.

Lemma duration_bytes_okstr d : - two63 <= d < two63 ->
  okstr (duration_bytes d) /\ exists c r, duration_bytes d = c :: r /\ (c = 45%N \/ is_digit c = true).
Proof.
  intros Hd. unfold duration_bytes. destruct (d <? 0) eqn:E.
  - destruct (parse_dur_body (- d) ltac:(lia)) as (c1 & c2 & r & _ & _ & Hok & _).
    split; [apply ok_ascii; [reflexivity|exact Hok]|].
    eexists; eexists; split; [reflexivity|left; reflexivity].
  - destruct (parse_dur_body d ltac:(lia)) as (c1 & c2 & r & E1 & Hc1 & Hok & _).
    split; [exact Hok|]. rewrite E1. eexists; eexists; split; [reflexivity|right; exact Hc1].
Qed.

Lemma duration_bytes_lower_trim :
  forall (lr : N -> N) (d : Z), lr 181%N = 181%N -> (- two63 <= d < two63)%Z ->
    trim_space (to_lower lr (duration_bytes d)) = duration_bytes d.
Proof.
  intros lr d Hlr Hd. destruct (duration_bytes_okstr d Hd) as [Hok _].
  rewrite to_lower_ok by assumption. apply trim_space_ok. exact Hok.
Qed.

Theorem duration_roundtrip :
  forall (lr : N -> N) (d : Z), lr 181%N = 181%N -> (- two63 <= d < two63)%Z ->
    read_last lr (duration_bytes d) = Some (d, false).
Proof.
  intros lr d Hlr Hd. unfold read_last. rewrite duration_bytes_lower_trim by assumption.
  rewrite duration_roundtrip_bytes by assumption.
  destruct (duration_bytes_okstr d Hd) as [_ (c & r & -> & Hc)].
  assert (Hn : (c =? 110)%N = false).
  { destruct Hc as [->|Hc]; [reflexivity|]. apply is_digit_range in Hc. lia. }
  unfold lit_never. cbn [bytes_eqb]. rewrite Hn. reflexivity.
Qed.

Theorem never_roundtrip :
  forall (lr : N -> N), read_last lr [78; 101; 118; 101; 114]%N = Some (dur_999h, true)
                     /\ read_last lr [] = Some (dur_999h, true).
Proof. intros lr. split; reflexivity. Qed.

(* ---------------------------------------------------------------- string form *)

Lemma okstr_bytes s : okstr s -> Forall (fun b => (b < 256)%N) s.
Proof.
  induction 1 as [|c s Hc Hs IH|s Hs IH].
  - constructor.
  - constructor; [|exact IH]. destruct (okb_facts c Hc) as (H1 & _). lia.
  - constructor; [lia|]. constructor; [lia|exact IH].
Qed.

Lemma bytes_of_str l : Forall (fun b => (b < 256)%N) l -> bytes_of (str l) = l.
Proof.
  induction 1 as [|b l Hb Hl IH]; [reflexivity|].
  unfold str. cbn [fold_right bytes_of]. fold (str l). rewrite IH, N_ascii_embedding by exact Hb.
  reflexivity.
Qed.

Theorem duration_roundtrip_string :
  forall d : Z, (- two63 <= d < two63)%Z -> parse_duration (duration_string d) = Some d.
Proof.
  intros d Hd. unfold parse_duration, duration_string.
  destruct (duration_bytes_okstr d Hd) as [Hok _].
  rewrite bytes_of_str by (apply okstr_bytes; exact Hok).
  apply duration_roundtrip_bytes. exact Hd.
Qed.

Print Assumptions duration_roundtrip.
Print Assumptions duration_roundtrip_bytes.
Print Assumptions duration_bytes_lower_trim.
Print Assumptions never_roundtrip.
Print Assumptions duration_roundtrip_string.
