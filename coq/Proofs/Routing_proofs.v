(* Lemmas about Model/Routing.v: which request lines reach an operation, and the composition of the router with
   the handler model, so that the request-level theorems of C09 / C11 quantify over every method and every
   request-target byte string. *)
From Relay Require Import Base.Prelude Base.AList Model.DenyStore Model.Token Model.Access Model.Routing
  Proofs.Access_proofs Proofs.Access_history.
Local Open Scope string_scope.

Definition operation (rt : route) : Prop :=
  match rt with RSession _ | RDeny | RAllow | RListDeny | RListAllow | RStatus => True | _ => False end.

Lemma get_table_inv p r :
  get_table p = Some r ->
  (p = "/bids/allow" /\ r = RListAllow) \/ (p = "/bids/deny" /\ r = RListDeny) \/ (p = "/status" /\ r = RStatus).
Proof.
  unfold get_table.
  destruct (p =? "/bids/allow") eqn:E1; [apply String.eqb_eq in E1; intros H; inversion H; auto|].
  destruct (p =? "/bids/deny") eqn:E2; [apply String.eqb_eq in E2; intros H; inversion H; auto|].
  destruct (p =? "/status") eqn:E3; [apply String.eqb_eq in E3; intros H; inversion H; auto|discriminate].
Qed.

Lemma post_table_inv segs p r :
  post_table segs p = Some r ->
  (p = "/bids/allow" /\ r = RAllow) \/ (p = "/bids/deny" /\ r = RDeny) \/
  (exists seg, segs = ["session"; seg] /\
     ((seg = ":" /\ r = RSession "") \/
      (seg <> ":" /\ exists id, r = RSession id /\ (unescape seg = Some id \/ (unescape seg = None /\ id = seg))))).
Proof.
  unfold post_table.
  destruct (p =? "/bids/allow") eqn:E1; [apply String.eqb_eq in E1; intros H; inversion H; auto|].
  destruct (p =? "/bids/deny") eqn:E2; [apply String.eqb_eq in E2; intros H; inversion H; auto|].
  destruct segs as [|s1 [|s2 [|s3 rest]]]; try discriminate.
  destruct (s1 =? "session") eqn:E3; [apply String.eqb_eq in E3; subst s1|discriminate].
  intros H. right; right. exists s2. split; [reflexivity|].
  destruct (s2 =? ":") eqn:E4.
  - apply String.eqb_eq in E4. inversion H; auto.
  - apply String.eqb_neq in E4. right. split; [exact E4|].
    destruct (unescape s2) as [id|] eqn:Eu; inversion H; eauto.
Qed.

(* no aliasing: a line reaches an operation only if net/http accepts it, its method is GET or POST up to ASCII case,
   and the CLEANED ESCAPED path is, byte for byte, one of the six patterns of the swagger spec *)
Lemma route_operation_inv m t r :
  route_of m t = r -> operation r ->
  valid_method m = true /\
  exists raw dec, raw_path_of_target m t = Some raw /\ unescape raw = Some dec /\
    dec <> "/swagger.json" /\ dec <> "/docs" /\
    let esc := escaped_path raw dec in
    (upper m = "GET" /\ get_table (clean esc) = Some r) \/
    (upper m = "POST" /\ post_table (clean_segments esc) (clean esc) = Some r).
Proof.
  unfold route_of. intros H Hop.
  destruct (valid_method m) eqn:Hm; cbn [negb] in H; [|subst r; contradiction].
  split; [reflexivity|].
  destruct (raw_path_of_target m t) as [raw|] eqn:Hr; [|subst r; contradiction].
  destruct (unescape raw) as [dec|] eqn:Hd; [|subst r; contradiction].
  destruct ((m =? "OPTIONS") && (t =? "*")); [subst r; contradiction|].
  destruct (dec =? "/swagger.json") eqn:E1; [subst r; contradiction|].
  destruct (dec =? "/docs") eqn:E2; [subst r; contradiction|].
  apply String.eqb_neq in E1, E2.
  exists raw, dec. split; [reflexivity|]. split; [exact Hd|]. split; [exact E1|]. split; [exact E2|]. cbn zeta.
  destruct (escaped_path raw dec) as [|a rest] eqn:Ee; [subst r; contradiction|].
  destruct (byte a =? 47)%N; [|subst r; contradiction].
  destruct (upper m =? "GET") eqn:Eg.
  - apply String.eqb_eq in Eg. left. split; [exact Eg|].
    destruct (get_table (clean (String a rest))) as [r'|]; [congruence|].
    destruct (post_table _ _); subst r; contradiction.
  - destruct (upper m =? "POST") eqn:Ep.
    + apply String.eqb_eq in Ep. right. split; [exact Ep|].
      destruct (post_table (clean_segments (String a rest)) (clean (String a rest))) as [r'|]; [congruence|].
      destruct (get_table _); subst r; contradiction.
    + destruct (get_table _); destruct (post_table _ _); subst r; contradiction.
Qed.

(* every other accepted line is 404 / 405 / a public resource; every refused line is net/http's 400 *)
Lemma route_of_classes m t :
  operation (route_of m t) \/ public_route (route_of m t) \/
  route_of m t = RNotFound \/ route_of m t = RBadMethod \/ route_of m t = ROpaque.
Proof. destruct (route_of m t); cbn; auto 6. Qed.

(* 405 only where the OTHER method's table has the cleaned path; 404 only where no table has it *)
Lemma route_bad_method_inv m t :
  route_of m t = RBadMethod ->
  exists raw dec, raw_path_of_target m t = Some raw /\ unescape raw = Some dec /\
    let esc := escaped_path raw dec in
    (get_table (clean esc) <> None /\ upper m <> "GET") \/
    (post_table (clean_segments esc) (clean esc) <> None /\ upper m <> "POST").
Proof.
  unfold route_of. intros H.
  destruct (valid_method m); cbn [negb] in H; [|discriminate].
  destruct (raw_path_of_target m t) as [raw|]; [|discriminate].
  destruct (unescape raw) as [dec|] eqn:Hd; [|discriminate].
  destruct ((m =? "OPTIONS") && (t =? "*")); [discriminate|].
  destruct (dec =? "/swagger.json"); [discriminate|]. destruct (dec =? "/docs"); [discriminate|].
  exists raw, dec. split; [reflexivity|]. split; [exact Hd|]. cbn zeta.
  destruct (escaped_path raw dec) as [|a rest]; [discriminate|].
  destruct (byte a =? 47)%N; [|discriminate].
  destruct (upper m =? "GET") eqn:Eg.
  - destruct (get_table _) as [r'|] eqn:Egt;
      [apply get_table_inv in Egt; destruct Egt as [[_ ->]|[[_ ->]|[_ ->]]]; discriminate|].
    destruct (post_table _ _) eqn:Ep; [|discriminate]. right. split; [discriminate|].
    apply String.eqb_eq in Eg. rewrite Eg. discriminate.
  - apply String.eqb_neq in Eg. destruct (upper m =? "POST") eqn:Ep.
    + destruct (post_table _ _) as [r'|] eqn:Ept.
      { apply post_table_inv in Ept.
        destruct Ept as [[_ ->]|[[_ ->]|(seg & _ & [[_ ->]|(_ & id & -> & _)])]]; discriminate. }
      destruct (get_table _) eqn:Egt; [|discriminate]. left. split; [discriminate|exact Eg].
    + apply String.eqb_neq in Ep. destruct (get_table _) eqn:Egt.
      * left. split; [discriminate|exact Eg].
      * destruct (post_table _ _) eqn:Ept; [|discriminate]. right. split; [discriminate|exact Ep].
Qed.

(* ------------------------------------------------------------------ router composed with the handlers *)
(* every request line, whatever its method and target bytes, is answered; and the answer is one of three kinds *)
Lemma line_answered cfg s l : snd (handle true cfg s (req_of l)) <> Panic.
Proof. apply handle_answers. Qed.

Lemma line_trichotomy cfg s l :
  let r := req_of l in
  (refusal (snd (handle true cfg s r)) /\ fst (handle true cfg s r) = s) \/
  (public_route (r_route r) /\ success (snd (handle true cfg s r)) /\ fst (handle true cfg s r) = s) \/
  (operation (r_route r) /\ success (snd (handle true cfg s r)) /\ valid_request cfg s r).
Proof.
  cbn zeta. set (r := req_of l).
  destruct (handle_refusal_or_success cfg s r) as [Hr|Hs].
  - left. split; [exact Hr|apply handle_refusal_frame; exact Hr].
  - destruct (handle_success_valid cfg s r Hs) as [Hp|Hv].
    + right; left. destruct (handle_public cfg s r Hp) as [Hf _]. auto.
    + right; right. split; [|split; [exact Hs|exact Hv]].
      unfold valid_request in Hv. destruct (r_route r); cbn; auto; contradiction.
Qed.

(* a line that is not routed to an operation changes nothing and is 400 / 404 / 405 - or one of the three public
   resources, which answer 200 without reading or changing anything *)
Lemma unrouted_line_frame cfg s l :
  ~ operation (route_of (l_method l) (l_target l)) -> fst (handle true cfg s (req_of l)) = s.
Proof.
  intros Hn. unfold handle, req_of. cbn [r_route].
  destruct (route_of (l_method l) (l_target l)); cbn in Hn |- *; try reflexivity; exfalso; apply Hn; exact I.
Qed.

Lemma guarded_line cfg s l :
  let r := req_of l in
  success (snd (handle true cfg s r)) \/ fst (handle true cfg s r) <> s ->
  (public_route (r_route r) /\ fst (handle true cfg s r) = s) \/
  (exists id, r_route r = RSession id /\ valid_request cfg s r) \/
  (admin_route (r_route r) /\
     exists b, r_cred r = Bearer b /\ valid_principal (clock s) (cfg_host cfg) (cfg_secret cfg) b /\ In "relay:admin" (c_scopes (b_claims b))) \/
  (r_route r = RStatus /\
     exists b, r_cred r = Bearer b /\ valid_principal (clock s) (cfg_host cfg) (cfg_secret cfg) b /\ In "relay:stats" (c_scopes (b_claims b))).
Proof.
  cbn zeta. set (r := req_of l). intros H.
  assert (Hs : success (snd (handle true cfg s r))) by (destruct H; [assumption|apply changed_means_success; assumption]).
  destruct (handle_success_valid cfg s r Hs) as [Hp|Hv].
  - left. split; [exact Hp|apply handle_public; exact Hp].
  - right. destruct (r_route r) eqn:Hr; unfold valid_request in Hv; rewrite Hr in Hv; try contradiction.
    + left. exists id. split; [reflexivity|]. unfold valid_request. rewrite Hr. exact Hv.
    + right; left. split; [exact I|]. apply (admin_only cfg s r); [rewrite Hr; exact I|left; exact Hs].
    + right; left. split; [exact I|]. apply (admin_only cfg s r); [rewrite Hr; exact I|left; exact Hs].
    + right; left. split; [exact I|]. apply (admin_only cfg s r); [rewrite Hr; exact I|left; exact Hs].
    + right; left. split; [exact I|]. apply (admin_only cfg s r); [rewrite Hr; exact I|left; exact Hs].
    + right; right. split; [reflexivity|]. apply (stats_only cfg s r); [exact Hr|left; exact Hs].
Qed.
