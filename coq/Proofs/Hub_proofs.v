(* Proofs about the hub model (Model/Hub.v) used by C03 (topic isolation, no echo),
   C04 (capabilities) and C05 (per-reader stream, bounded queue, eviction). *)
From Relay Require Import Base.Prelude Model.Hub.

Local Open Scope list_scope.

(* ================= list helpers ================= *)

Lemma skipn_app_le {A} (k : nat) (l x : list A) :
  k <= length l -> skipn k (l ++ x) = skipn k l ++ x.
Proof.
  intros Hk. rewrite skipn_app. replace (k - length l) with 0 by lia. reflexivity.
Qed.

Lemma filter_filter {A} (p q : A -> bool) (l : list A) :
  filter p (filter q l) = filter (fun x => p x && q x) l.
Proof.
  induction l as [|a l IH]; cbn; [reflexivity|].
  destruct (q a) eqn:Q; cbn.
  - destruct (p a); cbn; rewrite IH; reflexivity.
  - rewrite andb_false_r. exact IH.
Qed.

Lemma map_same {A} (f : A -> A) (l : list A) : (forall x, f x = x) -> map f l = l.
Proof.
  intros Hf. induction l as [|a l IH]; cbn; [reflexivity|]. rewrite Hf, IH. reflexivity.
Qed.

Lemma app_one_neq {A} (l : list A) (x : A) : l ++ [x] <> l.
Proof.
  intros H. apply (f_equal (@length A)) in H. rewrite app_length in H. cbn in H. lia.
Qed.

Lemma nth_error_nil_none {A} (k : nat) : nth_error (@nil A) k = None.
Proof. destruct k; reflexivity. Qed.

(* ================= one step, seen per connection ================= *)

Lemma run_snoc s evs e : run s (evs ++ [e]) = step (run s evs) e.
Proof. unfold run. rewrite fold_left_app. reflexivity. Qed.

Lemma run_cons s e evs : run s (e :: evs) = run (step s e) evs.
Proof. reflexivity. Qed.

Lemma run_app s evs1 evs2 : run s (evs1 ++ evs2) = run (run s evs1) evs2.
Proof. unfold run. apply fold_left_app. Qed.

(* the fields no transition writes *)
Definition same_id (c' c : client) : Prop :=
  name c' = name c /\ topic c' = topic c /\ can_read c' = can_read c /\
  can_write c' = can_write c /\ cap c' = cap c /\ since c' = since c.

Lemma same_id_refl c : same_id c c.
Proof. repeat split. Qed.

Lemma offer_static m c : same_id (offer m c) c.
Proof.
  unfold offer. destruct (is_joined c && wants c m); [|apply same_id_refl].
  destruct (length (queue c) <? cap c); repeat split.
Qed.

Lemma take_static c : same_id (take c) c.
Proof.
  unfold take. destruct (is_closed c), (cur c), (queue c), (can_read c), (st c); repeat split.
Qed.

Lemma more_static c : same_id (more c) c.
Proof.
  unfold more. destruct (is_closed c), (cur c), (queue c); repeat split.
Qed.

Lemma close_static c : same_id (close_frame c) c.
Proof.
  unfold close_frame. destruct (is_closed c), (cur c); repeat split.
Qed.

Lemma cstep_static om e c : same_id (cstep om e c) c.
Proof.
  destruct e as [r|n|n mt d|n|n|n]; cbn [cstep]; unfold on.
  - apply same_id_refl.
  - destruct (N.eqb (name c) n); repeat split.
  - destruct om as [m|]; [apply offer_static|apply same_id_refl].
  - destruct (N.eqb (name c) n); [apply take_static|apply same_id_refl].
  - destruct (N.eqb (name c) n); [apply more_static|apply same_id_refl].
  - destruct (N.eqb (name c) n); [apply close_static|apply same_id_refl].
Qed.

Lemma cstep_name om e c : name (cstep om e c) = name c.
Proof. apply cstep_static. Qed.
Lemma cstep_topic om e c : topic (cstep om e c) = topic c.
Proof. apply cstep_static. Qed.
Lemma cstep_can_read om e c : can_read (cstep om e c) = can_read c.
Proof. apply cstep_static. Qed.
Lemma cstep_can_write om e c : can_write (cstep om e c) = can_write c.
Proof. apply cstep_static. Qed.
Lemma cstep_cap om e c : cap (cstep om e c) = cap c.
Proof. apply cstep_static. Qed.
Lemma cstep_since om e c : since (cstep om e c) = since c.
Proof. apply cstep_static. Qed.

Lemma wants_same c' c m : name c' = name c -> topic c' = topic c -> wants c' m = wants c m.
Proof. intros Hn Ht. unfold wants. rewrite Hn, Ht. reflexivity. Qed.

Lemma relevant_same c' c l : name c' = name c -> topic c' = topic c -> relevant c' l = relevant c l.
Proof.
  intros Hn Ht. unfold relevant. apply filter_ext. intros m. apply wants_same; assumption.
Qed.

(* positions are stable *)
Lemma nth_step_fwd s e i c :
  nth_error (conns s) i = Some c ->
  nth_error (conns (step s e)) i = Some (cstep (event_msg s e) e c).
Proof.
  intros Hi. cbn [step conns]. rewrite nth_error_app1.
  - apply map_nth_error. exact Hi.
  - rewrite map_length. apply nth_error_Some. congruence.
Qed.

Lemma nth_step s e i c' :
  nth_error (conns (step s e)) i = Some c' ->
  (exists c, nth_error (conns s) i = Some c /\ c' = cstep (event_msg s e) e c) \/
  (exists r, e = Register r /\ i = length (conns s) /\ c' = fresh r (length (log s))).
Proof.
  intros Hi. destruct (nth_error (conns s) i) as [c|] eqn:Hc.
  - left. exists c. split; [reflexivity|].
    rewrite (nth_step_fwd s e i c Hc) in Hi. congruence.
  - right. apply nth_error_None in Hc. cbn [step conns] in Hi.
    rewrite nth_error_app2 in Hi by (rewrite map_length; exact Hc).
    rewrite map_length in Hi.
    destruct e as [r|n|n mt d|n|n|n]; cbn [newcomers] in Hi;
      try (rewrite nth_error_nil_none in Hi; discriminate).
    exists r. destruct (i - length (conns s)) as [|k] eqn:Hk.
    + cbn in Hi. split; [reflexivity|]. split; [lia|congruence].
    + cbn in Hi. rewrite nth_error_nil_none in Hi. discriminate.
Qed.

Lemma in_step s e c' :
  In c' (conns (step s e)) ->
  (exists c, In c (conns s) /\ c' = cstep (event_msg s e) e c) \/
  (exists r, e = Register r /\ c' = fresh r (length (log s))).
Proof.
  intros Hin. apply In_nth_error in Hin. destruct Hin as [i Hi].
  apply nth_step in Hi. destruct Hi as [(c & Hc & ->)|(r & -> & _ & ->)].
  - left. exists c. split; [eapply nth_error_In; exact Hc|reflexivity].
  - right. exists r. split; reflexivity.
Qed.

Lemma log_step s e : log (step s e) = log s ++ accepted s e.
Proof. reflexivity. Qed.

(* induction over the connections of reachable states *)
Lemma reach_client_ind (P : state -> client -> Prop) :
  (forall evs r, P (step (run init evs) (Register r)) (fresh r (length (log (run init evs))))) ->
  (forall evs e c, In c (conns (run init evs)) -> P (run init evs) c ->
                   P (step (run init evs) e) (cstep (event_msg (run init evs) e) e c)) ->
  forall evs c, In c (conns (run init evs)) -> P (run init evs) c.
Proof.
  intros Hfresh Hstep evs. induction evs as [|e evs IH] using rev_ind; intros c Hin.
  - cbn in Hin. contradiction.
  - rewrite run_snoc in *. apply in_step in Hin.
    destruct Hin as [(c0 & Hc0 & ->)|(r & -> & ->)].
    + apply Hstep; [exact Hc0|apply IH; exact Hc0].
    + apply Hfresh.
Qed.

Lemma since_le evs c : In c (conns (run init evs)) -> since c <= length (log (run init evs)).
Proof.
  revert evs c. apply (reach_client_ind (fun s c => since c <= length (log s))).
  - intros evs r. rewrite log_step, app_length. cbn [fresh since]. lia.
  - intros evs e c _ IH. rewrite log_step, app_length, cstep_since. lia.
Qed.

Lemma sender_spec s n sd : sender s n = Some sd -> name sd = n /\ In sd (conns s) /\ is_closed sd = false.
Proof.
  unfold sender. intros H. apply find_some in H. destruct H as [Hin Hp].
  apply andb_true_iff in Hp. destruct Hp as [Hn Hc].
  apply N.eqb_eq in Hn. apply negb_true_iff in Hc. repeat split; assumption.
Qed.

Lemma event_msg_spec s e m :
  event_msg s e = Some m ->
  exists n mt d sd, e = Recv n mt d /\ sender s n = Some sd /\ can_write sd = true /\
                    m = mkmsg n (topic sd) mt d.
Proof.
  destruct e as [r|n|n mt d|n|n|n]; cbn [event_msg]; try discriminate.
  destruct (sender s n) as [sd|] eqn:Hs; [|discriminate].
  destruct (can_write sd) eqn:Hw; [|discriminate].
  intros H. injection H as <-. exists n, mt, d, sd. repeat split; assumption.
Qed.

(* ================= content under the writer's steps ================= *)

Lemma content_set_st x c : content (set_st x c) = content c.
Proof. reflexivity. Qed.

Lemma content_take_reader c : can_read c = true -> content (take c) = content c.
Proof.
  intros Hr. unfold take. destruct (is_closed c); [reflexivity|].
  destruct (cur c) as [|a l] eqn:Hcur; [|reflexivity].
  destruct (queue c) as [|h q] eqn:Hq.
  - destruct (st c); reflexivity.
  - rewrite Hr. unfold content; cbn [set_cur out cur queue]. rewrite Hcur, Hq. reflexivity.
Qed.

Lemma content_take_incl c m : In m (content (take c)) -> In m (content c).
Proof.
  unfold take. destruct (is_closed c); [tauto|].
  destruct (cur c) as [|a l] eqn:Hcur; [|tauto].
  destruct (queue c) as [|h q] eqn:Hq.
  - destruct (st c); tauto.
  - destruct (can_read c); unfold content; cbn [set_cur set_queue out cur queue]; rewrite Hcur, Hq.
    + tauto.
    + rewrite !in_app_iff. cbn. tauto.
Qed.

Lemma content_more c : content (more c) = content c.
Proof.
  unfold more. destruct (is_closed c); [reflexivity|].
  destruct (cur c) as [|a l] eqn:Hcur; [reflexivity|].
  destruct (queue c) as [|h q] eqn:Hq; [reflexivity|].
  unfold content; cbn [set_cur out cur queue]. rewrite Hcur, Hq.
  rewrite <- !app_assoc. reflexivity.
Qed.

Lemma content_close c : content (close_frame c) = content c.
Proof.
  unfold close_frame. destruct (is_closed c); [reflexivity|].
  destruct (cur c) as [|a l] eqn:Hcur; [reflexivity|].
  unfold content; cbn [set_out out cur queue]. rewrite Hcur.
  rewrite concat_app. cbn [concat]. rewrite app_nil_r, <- !app_assoc. reflexivity.
Qed.

(* status moves only Joined -> Evicted -> Closed or Joined -> Closed *)
Lemma take_st c : st (take c) = st c \/ (st c = Evicted /\ st (take c) = Closed).
Proof.
  unfold take. destruct (is_closed c); [left; reflexivity|].
  destruct (cur c); [|left; reflexivity].
  destruct (queue c).
  - destruct (st c) eqn:Hs; cbn [set_st st]; [left; assumption|right; split; reflexivity|left; assumption].
  - destruct (can_read c); left; reflexivity.
Qed.

Lemma more_st c : st (more c) = st c.
Proof. unfold more. destruct (is_closed c), (cur c), (queue c); reflexivity. Qed.

Lemma close_st c : st (close_frame c) = st c.
Proof. unfold close_frame. destruct (is_closed c), (cur c); reflexivity. Qed.

Lemma offer_st m c :
  st (offer m c) = st c \/ (st c = Joined /\ st (offer m c) = Evicted).
Proof.
  unfold offer. destruct (is_joined c && wants c m) eqn:Hj; [|left; reflexivity].
  destruct (length (queue c) <? cap c); [left; reflexivity|].
  right. apply andb_true_iff in Hj. destruct Hj as [Hj _]. unfold is_joined in Hj.
  destruct (st c); try discriminate. split; reflexivity.
Qed.

Lemma cstep_joined om e c : st (cstep om e c) = Joined -> st c = Joined.
Proof.
  destruct e as [r|n|n mt d|n|n|n]; cbn [cstep]; unfold on.
  - tauto.
  - destruct (N.eqb (name c) n); [cbn; discriminate|tauto].
  - destruct om as [m|]; [|tauto]. destruct (offer_st m c) as [->|[_ ->]]; [tauto|discriminate].
  - destruct (N.eqb (name c) n); [|tauto]. destruct (take_st c) as [->|[_ ->]]; [tauto|discriminate].
  - destruct (N.eqb (name c) n); [|tauto]. rewrite more_st. tauto.
  - destruct (N.eqb (name c) n); [|tauto]. rewrite close_st. tauto.
Qed.

Lemma cstep_none_content e c : can_read c = true -> content (cstep None e c) = content c.
Proof.
  intros Hr. destruct e as [r|n|n mt d|n|n|n]; cbn [cstep]; unfold on; try reflexivity;
    destruct (N.eqb (name c) n); try reflexivity.
  - apply content_take_reader. exact Hr.
  - apply content_more.
  - apply content_close.
Qed.

Lemma cstep_none_st e c : st (cstep None e c) = st c \/ st (cstep None e c) = Closed.
Proof.
  destruct e as [r|n|n mt d|n|n|n]; cbn [cstep]; unfold on; try (left; reflexivity);
    destruct (N.eqb (name c) n); try (left; reflexivity).
  - right. reflexivity.
  - destruct (take_st c) as [H|[_ H]]; [left|right]; exact H.
  - left. apply more_st.
  - left. apply close_st.
Qed.

Lemma relevant_app c l1 l2 : relevant c (l1 ++ l2) = relevant c l1 ++ relevant c l2.
Proof. apply filter_app. Qed.

(* ================= C05: what a reader holds is a prefix of its stream ================= *)

Definition stream_ok (s : state) (c : client) : Prop :=
  exists rest, content c ++ rest = relevant c (log_since s c) /\
               (st c = Joined -> rest = []) /\ (st c = Evicted -> rest <> []).

Lemma log_since_step s e c :
  since c <= length (log s) ->
  log_since (step s e) (cstep (event_msg s e) e c) = log_since s c ++ accepted s e.
Proof.
  intros Hs. unfold log_since. rewrite cstep_since, log_step. apply skipn_app_le. exact Hs.
Qed.

Lemma stream_step s e c :
  since c <= length (log s) -> can_read c = true -> stream_ok s c ->
  stream_ok (step s e) (cstep (event_msg s e) e c).
Proof.
  intros Hsince Hr (rest & Heq & HJ & HE). unfold stream_ok.
  rewrite (log_since_step s e c Hsince).
  rewrite (relevant_same _ c) by (apply cstep_name || apply cstep_topic).
  rewrite relevant_app, <- Heq. unfold accepted.
  destruct (event_msg s e) as [m|] eqn:Hm.
  - apply event_msg_spec in Hm. destruct Hm as (n & mt & d & sd & -> & _ & _ & _).
    cbn [cstep relevant filter]. unfold offer.
    destruct (is_joined c) eqn:Hj; cbn [andb].
    + assert (Hst : st c = Joined) by (unfold is_joined in Hj; destruct (st c); congruence).
      rewrite (HJ Hst). destruct (wants c m) eqn:Hw.
      * destruct (length (queue c) <? cap c).
        -- exists []. split; [|split; [reflexivity|]].
           ++ unfold content; cbn [set_queue out cur queue]. rewrite !app_nil_r, <- !app_assoc. reflexivity.
           ++ cbn [set_queue st]. rewrite Hst. discriminate.
        -- exists [m]. split; [|split].
           ++ rewrite content_set_st, app_nil_r. reflexivity.
           ++ cbn [set_st st]. discriminate.
           ++ intros _. discriminate.
      * exists []. rewrite !app_nil_r. split; [reflexivity|]. split; [reflexivity|].
        rewrite Hst. discriminate.
    + assert (Hst : st c <> Joined) by (unfold is_joined in Hj; destruct (st c); congruence).
      destruct (wants c m).
      * exists (rest ++ [m]). split; [rewrite app_assoc; reflexivity|]. split; [tauto|].
        intros _ H. apply app_eq_nil in H. destruct H as [_ H]. discriminate.
      * exists rest. rewrite app_nil_r. split; [reflexivity|]. split; assumption.
  - cbn [relevant filter]. rewrite app_nil_r, (cstep_none_content e c Hr).
    exists rest. split; [reflexivity|].
    destruct (cstep_none_st e c) as [-> | ->]; split; try assumption; discriminate.
Qed.

Lemma stream_inv evs c :
  In c (conns (run init evs)) -> can_read c = true ->
  exists rest, content c ++ rest = relevant c (log_since (run init evs) c) /\
               (st c = Joined -> rest = []) /\ (st c = Evicted -> rest <> []).
Proof.
  revert evs c.
  apply (reach_client_ind (fun s c => can_read c = true -> stream_ok s c)).
  - intros evs r _. exists []. unfold log_since. cbn [fresh since log step content out cur queue st concat app].
    rewrite skipn_app_le by lia. rewrite skipn_all. cbn [app].
    split; [|split; [reflexivity|discriminate]].
    unfold accepted. cbn [event_msg]. reflexivity.
  - intros evs e c Hin IH Hr. rewrite cstep_can_read in Hr.
    apply stream_step; [apply since_le; exact Hin|exact Hr|apply IH; exact Hr].
Qed.

Lemma stream_joined evs c :
  In c (conns (run init evs)) -> can_read c = true -> st c = Joined ->
  content c = relevant c (log_since (run init evs) c).
Proof.
  intros Hin Hr Hst. destruct (stream_inv evs c Hin Hr) as (rest & Heq & HJ & _).
  rewrite (HJ Hst), app_nil_r in Heq. exact Heq.
Qed.

Lemma concat_data_frames (o : list (list msg)) :
  concat (map m_data (concat o)) = concat (map (fun f => snd (wire f)) o).
Proof.
  induction o as [|f o IH]; cbn [concat map]; [reflexivity|].
  rewrite map_app, concat_app, IH. reflexivity.
Qed.

Lemma stream_bytes evs c :
  In c (conns (run init evs)) -> can_read c = true -> st c = Joined ->
  concat (map (fun f => snd (wire f)) (out c)) ++ concat (map m_data (cur c)) ++ concat (map m_data (queue c))
  = concat (map m_data (relevant c (log_since (run init evs) c))).
Proof.
  intros Hin Hr Hst. rewrite <- (stream_joined evs c Hin Hr Hst). unfold content.
  rewrite !map_app, !concat_app, concat_data_frames. reflexivity.
Qed.

(* frames on the socket are never empty *)
Lemma out_nonempty evs c : In c (conns (run init evs)) -> Forall (fun f => f <> []) (out c).
Proof.
  revert evs c. apply (reach_client_ind (fun _ c => Forall (fun f => f <> []) (out c))).
  - intros evs r. constructor.
  - intros evs e c _ IH.
    destruct e as [r|n|n mt d|n|n|n]; cbn [cstep]; unfold on; try exact IH.
    + destruct (N.eqb (name c) n); exact IH.
    + destruct (event_msg (run init evs) (Recv n mt d)) as [m|]; [|exact IH].
      unfold offer. destruct (is_joined c && wants c m); [|exact IH].
      destruct (length (queue c) <? cap c); exact IH.
    + destruct (N.eqb (name c) n); [|exact IH]. unfold take.
      destruct (is_closed c), (cur c), (queue c), (can_read c), (st c); exact IH.
    + destruct (N.eqb (name c) n); [|exact IH]. unfold more.
      destruct (is_closed c), (cur c), (queue c); exact IH.
    + destruct (N.eqb (name c) n); [|exact IH]. unfold close_frame.
      destruct (is_closed c); [exact IH|]. destruct (cur c) as [|a l] eqn:Hcur; [exact IH|].
      cbn [set_out out]. apply Forall_app. split; [exact IH|]. constructor; [discriminate|constructor].
Qed.

Lemma frames_are_runs evs c :
  In c (conns (run init evs)) -> can_read c = true ->
  Forall (fun f => f <> []) (out c) /\
  (exists rest, concat (out c) ++ rest = relevant c (log_since (run init evs) c)) /\
  (forall f, In f (out c) -> exists h t, f = h :: t /\ wire f = (m_mt h, concat (map m_data f))).
Proof.
  intros Hin Hr. pose proof (out_nonempty evs c Hin) as Hne. split; [exact Hne|]. split.
  - destruct (stream_inv evs c Hin Hr) as (rest & Heq & _).
    exists ((cur c ++ queue c) ++ rest). rewrite <- Heq. unfold content. rewrite <- !app_assoc. reflexivity.
  - intros f Hf. rewrite Forall_forall in Hne. specialize (Hne f Hf).
    destruct f as [|h t]; [congruence|]. exists h, t. split; reflexivity.
Qed.

(* ================= C05: the bounded queue and eviction ================= *)

Lemma full_queue_drops_reader s n mt d m i c :
  event_msg s (Recv n mt d) = Some m -> nth_error (conns s) i = Some c ->
  st c = Joined -> wants c m = true -> cap c <= length (queue c) ->
  exists c', nth_error (conns (step s (Recv n mt d))) i = Some c' /\
             st c' = Evicted /\ is_joined c' = false /\ content c' = content c.
Proof.
  intros Hm Hi Hst Hw Hfull. exists (set_st Evicted c).
  split; [|split; [reflexivity|split; reflexivity]].
  rewrite (nth_step_fwd s (Recv n mt d) i c Hi), Hm. cbn [cstep]. unfold offer, is_joined.
  rewrite Hst, Hw. cbn [andb].
  destruct (Nat.ltb_spec (length (queue c)) (cap c)) as [Hlt|_]; [lia|reflexivity].
Qed.

Lemma dropped_stays_dropped evs : forall s i c,
  nth_error (conns s) i = Some c -> st c <> Joined ->
  exists c', nth_error (conns (run s evs)) i = Some c' /\ st c' <> Joined /\ name c' = name c.
Proof.
  induction evs as [|e evs IH]; intros s i c Hi Hst.
  - exists c. repeat split; assumption.
  - rewrite run_cons.
    destruct (IH (step s e) i (cstep (event_msg s e) e c)) as (c' & Hc' & Hs' & Hn').
    + apply nth_step_fwd. exact Hi.
    + intros H. apply Hst. eapply cstep_joined. exact H.
    + exists c'. rewrite Hn', cstep_name. repeat split; assumption.
Qed.

Lemma kept_means_enqueued s n mt d m i c c' :
  event_msg s (Recv n mt d) = Some m -> nth_error (conns s) i = Some c ->
  nth_error (conns (step s (Recv n mt d))) i = Some c' ->
  st c = Joined -> wants c m = true -> st c' = Joined ->
  queue c' = queue c ++ [m] /\ length (queue c) < cap c.
Proof.
  intros Hm Hi Hi' Hst Hw Hst'.
  rewrite (nth_step_fwd s (Recv n mt d) i c Hi), Hm in Hi'. injection Hi' as <-.
  cbn [cstep] in *. unfold offer, is_joined in *. rewrite Hst, Hw in *. cbn [andb] in *.
  destruct (Nat.ltb_spec (length (queue c)) (cap c)) as [Hlt|Hge].
  - split; [reflexivity|exact Hlt].
  - cbn in Hst'. discriminate.
Qed.

Lemma queue_bounded evs c : In c (conns (run init evs)) -> length (queue c) <= cap c.
Proof.
  revert evs c. apply (reach_client_ind (fun _ c => length (queue c) <= cap c)).
  - intros evs r. cbn. lia.
  - intros evs e c _ IH.
    destruct e as [r|n|n mt d|n|n|n]; cbn [cstep]; unfold on; try exact IH.
    + destruct (N.eqb (name c) n); exact IH.
    + destruct (event_msg (run init evs) (Recv n mt d)) as [m|]; [|exact IH].
      unfold offer. destruct (is_joined c && wants c m); [|exact IH].
      destruct (Nat.ltb_spec (length (queue c)) (cap c)) as [Hlt|_]; [|exact IH].
      cbn [set_queue queue cap]. rewrite app_length. cbn [length]. lia.
    + destruct (N.eqb (name c) n); [|exact IH]. unfold take.
      destruct (is_closed c); [exact IH|]. destruct (cur c); [|exact IH].
      destruct (queue c) as [|h q] eqn:Hq.
      * destruct (st c); cbn [set_st queue cap]; rewrite Hq; exact IH.
      * cbn [length] in IH. destruct (can_read c); cbn [set_cur set_queue queue cap]; lia.
    + destruct (N.eqb (name c) n); [|exact IH]. unfold more.
      destruct (is_closed c); [exact IH|]. destruct (cur c) eqn:Hcur; [exact IH|].
      destruct (queue c) as [|h q] eqn:Hq; [rewrite Hq; exact IH|].
      cbn [length] in IH. cbn [set_cur queue cap]. lia.
    + destruct (N.eqb (name c) n); [|exact IH]. unfold close_frame.
      destruct (is_closed c); [exact IH|]. destruct (cur c); exact IH.
Qed.

Lemma per_writer_order evs c w :
  In c (conns (run init evs)) -> can_read c = true -> st c = Joined ->
  filter (fun m => N.eqb (m_name m) w) (content c) =
  filter (fun m => N.eqb (m_name m) w && wants c m) (log_since (run init evs) c).
Proof.
  intros Hin Hr Hst. rewrite (stream_joined evs c Hin Hr Hst). unfold relevant.
  apply filter_filter.
Qed.

Fixpoint accepted_along (s : state) (evs : list event) : list msg :=
  match evs with
  | [] => []
  | e :: r => accepted s e ++ accepted_along (step s e) r
  end.

Lemma log_spec evs : forall s, log (run s evs) = log s ++ accepted_along s evs.
Proof.
  induction evs as [|e evs IH]; intros s; cbn [accepted_along].
  - cbn. rewrite app_nil_r. reflexivity.
  - rewrite run_cons, IH, log_step, app_assoc. reflexivity.
Qed.

Lemma evicted_drains_then_closes c :
  st c = Evicted -> cur c = [] -> queue c = [] -> st (take c) = Closed.
Proof.
  intros Hst Hcur Hq. unfold take, is_closed. rewrite Hst, Hcur, Hq. reflexivity.
Qed.

(* ================= C03: where every held message came from ================= *)

Definition delivered_by (evs : list event) (i : nat) (c : client) (m : msg) : Prop :=
  exists evs1 n mt d evs2 sd c0,
    evs = evs1 ++ Recv n mt d :: evs2 /\
    sender (run init evs1) n = Some sd /\ can_write sd = true /\
    m = mkmsg n (topic sd) mt d /\
    nth_error (conns (run init evs1)) i = Some c0 /\ st c0 = Joined /\
    name c0 = name c /\ topic c0 = topic c /\
    topic sd = topic c /\ n <> name c.

Lemma delivered_by_later evs e i c0 c m :
  delivered_by evs i c0 m -> name c = name c0 -> topic c = topic c0 ->
  delivered_by (evs ++ [e]) i c m.
Proof.
  intros (evs1 & n & mt & d & evs2 & sd & c00 & Hev & Hsd & Hw & Hm & Hi & Hst & Hn & Ht & Hts & Hne) Hnc Htc.
  exists evs1, n, mt, d, (evs2 ++ [e]), sd, c00.
  rewrite Hev, <- app_assoc. cbn [app].
  repeat split; try assumption; congruence.
Qed.

Lemma content_cstep om e c m :
  In m (content (cstep om e c)) ->
  In m (content c) \/
  (exists n mt d, e = Recv n mt d /\ om = Some m /\ is_joined c = true /\ wants c m = true).
Proof.
  destruct e as [r|n|n mt d|n|n|n]; cbn [cstep]; unfold on.
  - tauto.
  - destruct (N.eqb (name c) n); [rewrite content_set_st|]; tauto.
  - destruct om as [m'|]; [|tauto]. unfold offer.
    destruct (is_joined c && wants c m') eqn:Hj; [|tauto].
    destruct (length (queue c) <? cap c); [|rewrite content_set_st; tauto].
    unfold content; cbn [set_queue out cur queue]. rewrite !in_app_iff. cbn [In].
    intros [H|[H|[H|[H|[]]]]]; try (left; tauto).
    subst m'. right. apply andb_true_iff in Hj. exists n, mt, d. tauto.
  - destruct (N.eqb (name c) n); [|tauto]. intros H. left. apply content_take_incl. exact H.
  - destruct (N.eqb (name c) n); [rewrite content_more|]; tauto.
  - destruct (N.eqb (name c) n); [rewrite content_close|]; tauto.
Qed.

Lemma queue_inv evs : forall i c m,
  nth_error (conns (run init evs)) i = Some c -> In m (content c) -> delivered_by evs i c m.
Proof.
  induction evs as [|e evs IH] using rev_ind; intros i c m Hi Hin.
  - cbn in Hi. rewrite nth_error_nil_none in Hi. discriminate.
  - rewrite run_snoc in Hi. apply nth_step in Hi.
    destruct Hi as [(c0 & Hc0 & ->)|(r & -> & _ & ->)].
    + apply content_cstep in Hin. destruct Hin as [Hin|(n & mt & d & -> & Hm & Hj & Hw)].
      * apply (delivered_by_later evs e i c0); [apply IH; assumption|apply cstep_name|apply cstep_topic].
      * apply event_msg_spec in Hm.
        destruct Hm as (n' & mt' & d' & sd & He & Hsd & Hcw & Hm). injection He as <- <- <-.
        exists evs, n, mt, d, [], sd, c0.
        rewrite cstep_name, cstep_topic.
        unfold wants in Hw. apply andb_true_iff in Hw. destruct Hw as [Ht Hn].
        apply String.eqb_eq in Ht. apply negb_true_iff, N.eqb_neq in Hn.
        subst m. cbn [m_topic m_name] in Ht, Hn.
        unfold is_joined in Hj.
        repeat split; try assumption; try congruence.
        destruct (st c0); congruence.
    + cbn in Hin. contradiction.
Qed.

Lemma no_cross_topic evs c m :
  In c (conns (run init evs)) -> In m (content c) -> m_topic m = topic c.
Proof.
  intros Hc Hm. apply In_nth_error in Hc. destruct Hc as [i Hi].
  destruct (queue_inv evs i c m Hi Hm) as (evs1 & n & mt & d & evs2 & sd & c0 & _ & _ & _ & -> & _ & _ & _ & _ & Hts & _).
  exact Hts.
Qed.

Lemma no_echo evs c m :
  In c (conns (run init evs)) -> In m (content c) -> m_name m <> name c.
Proof.
  intros Hc Hm. apply In_nth_error in Hc. destruct Hc as [i Hi].
  destruct (queue_inv evs i c m Hi Hm) as (evs1 & n & mt & d & evs2 & sd & c0 & _ & _ & _ & -> & _ & _ & _ & _ & _ & Hne).
  exact Hne.
Qed.

Lemma offer_exact m c :
  queue (offer m c) = queue c ++ [m] <->
  (st c = Joined /\ topic c = m_topic m /\ name c <> m_name m /\ length (queue c) < cap c).
Proof.
  unfold offer, is_joined, wants. split.
  - intros H. destruct (st c) eqn:Hst; cbn [andb] in H;
      try (exfalso; symmetry in H; exact (app_one_neq _ _ H)).
    destruct (String.eqb_spec (topic c) (m_topic m)) as [Ht|Ht]; cbn [andb] in H;
      [|exfalso; symmetry in H; exact (app_one_neq _ _ H)].
    destruct (N.eqb_spec (name c) (m_name m)) as [Hn|Hn]; cbn [negb] in H;
      [exfalso; symmetry in H; exact (app_one_neq _ _ H)|].
    destruct (Nat.ltb_spec (length (queue c)) (cap c)) as [Hlt|Hge].
    + repeat split; assumption.
    + cbn [set_st queue] in H. exfalso; symmetry in H; exact (app_one_neq _ _ H).
  - intros (Hst & Ht & Hn & Hlt). rewrite Hst, Ht, String.eqb_refl.
    apply N.eqb_neq in Hn. rewrite Hn. cbn [andb negb].
    apply Nat.ltb_lt in Hlt. rewrite Hlt. reflexivity.
Qed.

(* ---- admission ---- *)

Lemma accept_fields rq c :
  ws_accept rq = Some c ->
  topic c = topic_of_path (slashify (r_path rq)) /\ topic c = r_token_topic rq /\
  name c = r_name rq /\ cap c = r_cap rq /\
  (can_read c, can_write c) = caps (r_scopes rq) /\
  conn_type_of_path (slashify (r_path rq)) = "session"%string.
Proof.
  unfold ws_accept.
  destruct (String.eqb_spec (conn_type_of_path (slashify (r_path rq))) "session") as [Hty|_];
    cbn [negb]; [|discriminate].
  destruct (String.eqb_spec (topic_of_path (slashify (r_path rq))) (r_token_topic rq)) as [Htp|_];
    cbn [negb]; [|discriminate].
  destruct (negb (fst (caps (r_scopes rq)) || snd (caps (r_scopes rq)))); [discriminate|].
  intros H. injection H as <-. cbn [topic name cap can_read can_write].
  repeat split; try assumption. symmetry. apply surjective_pairing.
Qed.

Lemma topic_key_exact rq1 rq2 c1 c2 :
  ws_accept rq1 = Some c1 -> ws_accept rq2 = Some c2 ->
  ((forall m, String.eqb (topic c1) (m_topic m) = String.eqb (topic c2) (m_topic m)) <->
   topic_of_path (slashify (r_path rq1)) = topic_of_path (slashify (r_path rq2))).
Proof.
  intros H1 H2. apply accept_fields in H1. apply accept_fields in H2.
  destruct H1 as (<- & _). destruct H2 as (<- & _). split.
  - intros H. specialize (H (mkmsg 0%N (topic c1) 0%N [])). cbn [m_topic] in H.
    rewrite String.eqb_refl in H. symmetry in H. apply String.eqb_eq in H. congruence.
  - intros -> m. reflexivity.
Qed.

(* ================= C04: capabilities ================= *)

Lemma nonwriter_noop s n mt d sd :
  sender s n = Some sd -> can_write sd = false -> step s (Recv n mt d) = s.
Proof.
  intros Hs Hw. destruct s as [cs lg]. unfold step, accepted.
  cbn [event_msg]. rewrite Hs, Hw. cbn [cstep newcomers conns log].
  rewrite !app_nil_r, map_same by reflexivity. reflexivity.
Qed.

Lemma unknown_sender_noop s n mt d : sender s n = None -> step s (Recv n mt d) = s.
Proof.
  intros Hs. destruct s as [cs lg]. unfold step, accepted.
  cbn [event_msg]. rewrite Hs. cbn [cstep newcomers conns log].
  rewrite !app_nil_r, map_same by reflexivity. reflexivity.
Qed.

Lemma heard_only_from_writers evs c m :
  In c (conns (run init evs)) -> In m (content c) ->
  exists evs1 n mt d evs2 sd,
    evs = evs1 ++ Recv n mt d :: evs2 /\ sender (run init evs1) n = Some sd /\
    can_write sd = true /\ m = mkmsg n (topic sd) mt d.
Proof.
  intros Hc Hm. apply In_nth_error in Hc. destruct Hc as [i Hi].
  destruct (queue_inv evs i c m Hi Hm) as (evs1 & n & mt & d & evs2 & sd & c0 & H1 & H2 & H3 & H4 & _).
  exists evs1, n, mt, d, evs2, sd. repeat split; assumption.
Qed.

Lemma nonreader_deaf evs c :
  In c (conns (run init evs)) -> can_read c = false -> out c = [] /\ cur c = [].
Proof.
  revert evs c.
  apply (reach_client_ind (fun _ c => can_read c = false -> out c = [] /\ cur c = [])).
  - intros evs r _. split; reflexivity.
  - intros evs e c _ IH Hr. rewrite cstep_can_read in Hr. specialize (IH Hr). destruct IH as [Ho Hc].
    destruct e as [r|n|n mt d|n|n|n]; cbn [cstep]; unfold on; try (split; assumption).
    + destruct (N.eqb (name c) n); split; assumption.
    + destruct (event_msg (run init evs) (Recv n mt d)) as [m|]; [|split; assumption].
      unfold offer. destruct (is_joined c && wants c m); [|split; assumption].
      destruct (length (queue c) <? cap c); split; assumption.
    + destruct (N.eqb (name c) n); [|split; assumption]. unfold take. rewrite Hc, Hr.
      destruct (is_closed c), (queue c), (st c); split; assumption.
    + destruct (N.eqb (name c) n); [|split; assumption]. unfold more. rewrite Hc.
      destruct (is_closed c); split; assumption.
    + destruct (N.eqb (name c) n); [|split; assumption]. unfold close_frame. rewrite Hc.
      destruct (is_closed c); split; assumption.
Qed.

Lemma caps_fold scopes : forall a b,
  fold_left (fun rw sc => (fst rw || String.eqb sc "read", snd rw || String.eqb sc "write")) scopes (a, b)
  = (a || existsb (fun sc => String.eqb sc "read") scopes,
     b || existsb (fun sc => String.eqb sc "write") scopes).
Proof.
  induction scopes as [|sc l IH]; intros a b; cbn [fold_left existsb fst snd].
  - rewrite !orb_false_r. reflexivity.
  - rewrite IH, !orb_assoc. reflexivity.
Qed.

Lemma caps_exact scopes :
  caps scopes = (existsb (fun sc => String.eqb sc "read") scopes,
                 existsb (fun sc => String.eqb sc "write") scopes).
Proof. unfold caps. rewrite caps_fold. reflexivity. Qed.

Lemma existsb_eqb_in (k : string) scopes : existsb (fun sc => String.eqb sc k) scopes = true <-> In k scopes.
Proof.
  rewrite existsb_exists. split.
  - intros (x & Hin & Heq). apply String.eqb_eq in Heq. subst x. exact Hin.
  - intros Hin. exists k. split; [exact Hin|apply String.eqb_refl].
Qed.

Lemma caps_membership scopes :
  (fst (caps scopes) = true <-> In "read"%string scopes) /\
  (snd (caps scopes) = true <-> In "write"%string scopes).
Proof. rewrite caps_exact. cbn [fst snd]. split; apply existsb_eqb_in. Qed.

Lemma neither_refused rq :
  ~ In "read"%string (r_scopes rq) -> ~ In "write"%string (r_scopes rq) -> ws_accept rq = None.
Proof.
  intros Hr Hw. unfold ws_accept.
  destruct (negb (String.eqb (conn_type_of_path (slashify (r_path rq))) "session")); [reflexivity|].
  destruct (negb (String.eqb (topic_of_path (slashify (r_path rq))) (r_token_topic rq))); [reflexivity|].
  destruct (caps_membership (r_scopes rq)) as [H1 H2].
  destruct (fst (caps (r_scopes rq))); [exfalso; apply Hr, H1; reflexivity|].
  destruct (snd (caps (r_scopes rq))); [exfalso; apply Hw, H2; reflexivity|].
  reflexivity.
Qed.

Lemma existsb_filter_sub {A} (p q : A -> bool) l :
  (forall x, p x = true -> q x = true) -> existsb p (filter q l) = existsb p l.
Proof.
  intros Hpq. induction l as [|a l IH]; cbn [filter existsb]; [reflexivity|].
  destruct (q a) eqn:Q; cbn [existsb].
  - rewrite IH. reflexivity.
  - destruct (p a) eqn:P; [rewrite (Hpq a P) in Q; discriminate|]. cbn [orb]. exact IH.
Qed.

Lemma extra_scopes_add_nothing scopes :
  caps (filter (fun sc => String.eqb sc "read" || String.eqb sc "write") scopes) = caps scopes.
Proof.
  rewrite !caps_exact. f_equal; apply existsb_filter_sub; intros x Hx; rewrite Hx.
  - reflexivity.
  - apply orb_true_r.
Qed.

(* ================= C03: the path scanner ================= *)

Lemma span_fst_all (p : ascii -> bool) (s : string) (a : ascii) :
  In a (list_ascii_of_string (fst (span p s))) -> p a = true.
Proof.
  induction s as [|b r IH]; cbn [span]; [cbn; tauto|].
  destruct (p b) eqn:Pb; [|cbn; tauto].
  destruct (span p r) as [x y]. cbn [fst list_ascii_of_string In] in *.
  intros [<-|H]; [exact Pb|apply IH; exact H].
Qed.

Lemma topic_chars p a : In a (list_ascii_of_string (topic_of_path p)) -> class2 a = true.
Proof.
  unfold topic_of_path. destruct p as [|c r]; [cbn; tauto|].
  destruct (Ascii.eqb c slash); [|cbn; tauto].
  destruct (snd (span class1 r)) as [|b r2]; [cbn; tauto|].
  destruct (Ascii.eqb b slash); [|cbn; tauto].
  apply span_fst_all.
Qed.

Lemma span_app_stop (p : ascii -> bool) (seg rest : string) :
  (forall a, In a (list_ascii_of_string seg) -> p a = true) ->
  (rest = EmptyString \/ exists b r, rest = String b r /\ p b = false) ->
  span p (seg ++ rest)%string = (seg, rest).
Proof.
  intros Hseg Hrest. induction seg as [|c seg IH]; cbn [append span].
  - destruct Hrest as [->|(b & r & -> & Hb)]; cbn [span]; [reflexivity|]. rewrite Hb. reflexivity.
  - rewrite (Hseg c) by (cbn; tauto). rewrite IH; [reflexivity|].
    intros a Ha. apply Hseg. cbn. tauto.
Qed.

Lemma class1_slash : class1 slash = false.
Proof. vm_compute. reflexivity. Qed.

Lemma topic_of_path_spec seg t rest :
  (forall a, In a (list_ascii_of_string seg) -> class1 a = true) ->
  (forall a, In a (list_ascii_of_string t) -> class2 a = true) ->
  (rest = EmptyString \/ exists b r, rest = String b r /\ class2 b = false) ->
  topic_of_path (String slash (seg ++ String slash (t ++ rest)))%string = t.
Proof.
  intros Hseg Ht Hrest. unfold topic_of_path. rewrite Ascii.eqb_refl.
  rewrite (span_app_stop class1 seg (String slash (t ++ rest))%string Hseg).
  - cbn [snd]. rewrite Ascii.eqb_refl. rewrite (span_app_stop class2 t rest Ht Hrest). reflexivity.
  - right. exists slash, (t ++ rest)%string. split; [reflexivity|exact class1_slash].
Qed.

(* the capacity a relay hands to its connections is always a legal one, is the configured value when
   that is legal, and is 256 - never a one-slot queue - when it is not *)
Lemma effective_cap_legal : forall z, 1 <= effective_cap z <= 512.
Proof.
  intros z. unfold effective_cap.
  destruct ((z <? 1) || (512 <? z))%Z eqn:E; lia.
Qed.

Lemma effective_cap_in_range : forall z, (1 <= z <= 512)%Z -> effective_cap z = Z.to_nat z.
Proof.
  intros z Hz. unfold effective_cap.
  destruct ((z <? 1) || (512 <? z))%Z eqn:E; [lia|reflexivity].
Qed.

Lemma effective_cap_fallback : forall z, (z < 1 \/ 512 < z)%Z -> effective_cap z = 256.
Proof.
  intros z Hz. unfold effective_cap.
  destruct ((z <? 1) || (512 <? z))%Z eqn:E; [reflexivity|lia].
Qed.
