(* Lemmas about Model/Token.v and Model/Access.v: request-level facts (totality, success only if
   valid, failures leave the state alone, scope exactness) used by C09 and C11.
   History-level facts (provenance of codes and of hub members) are in Access_history.v. *)
From Relay Require Import Base.Prelude Base.AList Model.DenyStore Model.Token Model.Access.
Local Open Scope string_scope.

(* ------------------------------------------------------------------ small facts *)
Lemma str_mem_in x l : str_mem x l = true <-> In x l.
Proof.
  induction l as [|y r IH]; cbn; [split; [discriminate|intros []]|].
  rewrite orb_true_iff, IH, String.eqb_eq. reflexivity.
Qed.

Lemma str_mem_false x l : str_mem x l = false <-> ~ In x l.
Proof.
  rewrite <- str_mem_in. destruct (str_mem x l); split; intros H; try reflexivity; try discriminate; try congruence.
Qed.

Lemma verify_aud_in aud host : verify_aud aud host = true -> In host aud.
Proof.
  unfold verify_aud. destruct aud as [|a r]; [discriminate|].
  destruct (all_empty (a :: r)); [discriminate|]. apply str_mem_in.
Qed.

Lemma nonempty_true {A} (l : list A) : nonempty l = true <-> l <> [].
Proof. destruct l; cbn; split; intros H; try reflexivity; try discriminate; try congruence. Qed.

(* ------------------------------------------------------------------ the spec predicates *)
(* "a currently valid session token": HMAC-signed under the relay secret, inside its window with all
   three dates present, addressed to this host, complete in its required claims *)
Definition good_bearer (now : Z) (host : string) (secret : N) (b : bearer) : Prop :=
  b_shape b = SWell /\ is_hmac (b_alg b) = true /\ sig_ok secret b = true /\
  (exists e i n, c_exp (b_claims b) = Some e /\ c_iat (b_claims b) = Some i /\ c_nbf (b_claims b) = Some n /\
                 (now < e)%Z /\ (i <= now)%Z /\ (n <= now)%Z) /\
  In host (c_aud (b_claims b)) /\
  c_topic (b_claims b) <> "" /\ c_prefix (b_claims b) <> "" /\ c_scopes (b_claims b) <> [].

(* a verified, unexpired token for this host that carries scopes (what the admin and status endpoints need
   besides their own scope): iat / nbf are optional, as in jwt *)
Definition valid_principal (now : Z) (host : string) (secret : N) (b : bearer) : Prop :=
  b_shape b = SWell /\ is_hmac (b_alg b) = true /\ sig_ok secret b = true /\
  (exists e, c_exp (b_claims b) = Some e /\ (now < e)%Z) /\
  (forall i, c_iat (b_claims b) = Some i -> (i <= now)%Z) /\
  (forall n, c_nbf (b_claims b) = Some n -> (n <= now)%Z) /\
  In host (c_aud (b_claims b)) /\ c_scopes (b_claims b) <> [].

Definition bound_params (s : st) (r : request) : Prop :=
  exists bid raw e, r_bid r = Some bid /\ bid <> 0%N /\ r_exp r = Some raw /\ parse_int64 raw = Some e /\ (clock s <= e)%Z.

(* "valid in every respect", per endpoint *)
Definition valid_request (cfg : config) (s : st) (r : request) : Prop :=
  match r_route r with
  | RSession id =>
      exists b, r_cred r = Bearer b /\ good_bearer (clock s) (cfg_host cfg) (cfg_secret cfg) b /\
                c_topic (b_claims b) = id /\
                (c_booking (b_claims b) = 0%N -> cfg_allow_empty cfg = true) /\
                denied s (c_booking (b_claims b)) = false
  | RDeny | RAllow =>
      exists b, r_cred r = Bearer b /\ valid_principal (clock s) (cfg_host cfg) (cfg_secret cfg) b /\
                In "relay:admin" (c_scopes (b_claims b)) /\ bound_params s r
  | RListDeny | RListAllow =>
      exists b, r_cred r = Bearer b /\ valid_principal (clock s) (cfg_host cfg) (cfg_secret cfg) b /\
                In "relay:admin" (c_scopes (b_claims b))
  | RStatus =>
      exists b, r_cred r = Bearer b /\ valid_principal (clock s) (cfg_host cfg) (cfg_secret cfg) b /\
                In "relay:stats" (c_scopes (b_claims b))
  | RNotFound | RBadMethod | ROpaque | RDocSpec | RDocUI | ROptionsStar => False
  end.

(* the three request lines that are answered 200 without reaching any operation: go-openapi's documentation
   middlewares (/swagger.json, /docs) and net/http's own answer to OPTIONS * *)
Definition public_route (rt : route) : Prop :=
  match rt with RDocSpec | RDocUI | ROptionsStar => True | _ => False end.

(* ------------------------------------------------------------------ the authenticator *)
Lemma validate_bearer_principal now host secret b c :
  validate_bearer now host secret b = Principal c ->
  c = b_claims b /\ b_shape b = SWell /\ is_hmac (b_alg b) = true /\ sig_ok secret b = true /\
  claims_time_ok now c = true /\ In host (c_aud c).
Proof.
  unfold validate_bearer. destruct (b_shape b) eqn:Hs; try discriminate.
  destruct (alg_registered (b_alg b)); cbn [negb]; [|discriminate].
  destruct (is_hmac (b_alg b)) eqn:Hh; cbn [negb]; [|discriminate].
  destruct (claims_time_ok now (b_claims b)) eqn:Ht; cbn [andb negb]; [|discriminate].
  destruct (sig_ok secret b) eqn:Hg; cbn [negb]; [|discriminate].
  destruct (verify_aud (c_aud (b_claims b)) host) eqn:Ha; cbn [negb]; [|discriminate].
  intros H; inversion H; subst c. repeat split; auto. apply verify_aud_in; exact Ha.
Qed.

Lemma validate_header_principal now host secret cr c :
  validate_header now host secret cr = Principal c ->
  exists b, cr = Bearer b /\ c = b_claims b /\ b_shape b = SWell /\ is_hmac (b_alg b) = true /\ sig_ok secret b = true /\
            claims_time_ok now c = true /\ In host (c_aud c).
Proof.
  destruct cr as [|b]; cbn; [discriminate|]. intros H. exists b. split; [reflexivity|].
  apply validate_bearer_principal; exact H.
Qed.

Lemma claims_time_ok_inv now c :
  claims_time_ok now c = true ->
  (forall e, c_exp c = Some e -> (now < e)%Z) /\ (forall i, c_iat c = Some i -> (i <= now)%Z) /\
  (forall n, c_nbf c = Some n -> (n <= now)%Z).
Proof.
  unfold claims_time_ok, exp_ok, notbefore_ok. rewrite !andb_true_iff. intros [[He Hi] Hn].
  repeat split; intros x Hx; rewrite Hx in *; lia.
Qed.

(* ------------------------------------------------------------------ claim checks under the guard *)
Lemma exp_set_guarded e : exp_set true e <> Fault.
Proof. destruct e; cbn; discriminate. Qed.

Lemma exp_set_true g e : exp_set g e = Ok true -> exists x, e = Some x.
Proof. destruct e as [x|]; cbn; [intros _; exists x; reflexivity|destruct g; discriminate]. Qed.

Lemma hrc_guarded c : has_required_claims true c <> Fault.
Proof.
  unfold has_required_claims.
  destruct (c_topic c =? ""); [discriminate|]. destruct (negb (nonempty (c_scopes c))); [discriminate|].
  destruct (c_prefix c =? ""); [discriminate|]. destruct (negb (nonempty (c_aud c))); [discriminate|].
  apply exp_set_guarded.
Qed.

Lemma hrc_true g c :
  has_required_claims g c = Ok true ->
  c_topic c <> "" /\ c_scopes c <> [] /\ c_prefix c <> "" /\ exists e, c_exp c = Some e.
Proof.
  unfold has_required_claims.
  destruct (c_topic c =? "") eqn:Ht; [discriminate|].
  destruct (nonempty (c_scopes c)) eqn:Hs; cbn [negb]; [|discriminate].
  destruct (c_prefix c =? "") eqn:Hp; [discriminate|].
  destruct (nonempty (c_aud c)) eqn:Ha; cbn [negb]; [|discriminate].
  intros H. apply exp_set_true in H.
  apply String.eqb_neq in Ht. apply String.eqb_neq in Hp. apply nonempty_true in Hs. auto.
Qed.

Lemma claims_check_guarded c : claims_check true c <> Fault.
Proof.
  unfold claims_check. destruct (negb (nonempty (c_scopes c))); [discriminate|].
  destruct (negb (nonempty (c_aud c))); [discriminate|]. apply exp_set_guarded.
Qed.

Lemma has_scope_guarded x c : has_scope true x c <> Fault.
Proof.
  unfold has_scope. pose proof (claims_check_guarded c) as H.
  destruct (claims_check true c) as [|[|]]; [contradiction|discriminate|discriminate].
Qed.

Lemma has_scope_true g x c :
  has_scope g x c = Ok true -> In x (c_scopes c) /\ c_scopes c <> [] /\ exists e, c_exp c = Some e.
Proof.
  unfold has_scope, claims_check.
  destruct (nonempty (c_scopes c)) eqn:Hs; cbn [negb]; [|discriminate].
  destruct (nonempty (c_aud c)); cbn [negb]; [|discriminate].
  destruct (exp_set g (c_exp c)) as [|[|]] eqn:He; try discriminate.
  intros H; inversion H as [Hm]. apply str_mem_in in Hm. apply exp_set_true in He. apply nonempty_true in Hs. auto.
Qed.

Lemma has_scope_absent g x c : ~ In x (c_scopes c) -> has_scope g x c = Ok false \/ has_scope g x c = Fault.
Proof.
  intros Hn. apply str_mem_false in Hn. unfold has_scope.
  destruct (claims_check g c) as [|[|]]; [right|left|left]; try reflexivity. rewrite Hn; reflexivity.
Qed.

(* ------------------------------------------------------------------ handlers, one by one *)
Definition refusal (x : response) : Prop :=
  match x with Resp st _ => (400 <= st)%N | Panic => False end.

Definition success (x : response) : Prop :=
  match x with Resp st _ => (st < 300)%N | Panic => False end.

Lemma refusal_not_success x : refusal x -> ~ success x.
Proof. destruct x; cbn; [lia|auto]. Qed.

Lemma session_step_cases cfg s id c s' x :
  session_step true cfg s id c = (s', x) ->
  (refusal x /\ s' = s) \/
  (exists e i n, c_exp c = Some e /\ c_iat c = Some i /\ c_nbf c = Some n /\
     c_topic c <> "" /\ c_scopes c <> [] /\ c_prefix c <> "" /\ c_topic c = id /\
     (c_booking c = 0%N -> cfg_allow_empty cfg = true) /\ denied s (c_booking c) = false /\
     (s', x) = mint cfg s id c e i n).
Proof.
  unfold session_step. pose proof (hrc_guarded c) as Hg.
  destruct (has_required_claims true c) as [|[|]] eqn:Hr; [contradiction| |].
  2:{ intros H; inversion H; subst. left; split; [cbn; lia|reflexivity]. }
  apply hrc_true in Hr. destruct Hr as (Ht & Hs & Hp & e & He).
  cbn [andb]. destruct (c_iat c) as [i|] eqn:Hi; destruct (c_nbf c) as [n|] eqn:Hn; cbn [negb];
    try (intros H; inversion H; subst; left; split; [cbn; lia|reflexivity]).
  destruct (id =? "") eqn:Hid; [intros H; inversion H; subst; left; split; [cbn; lia|reflexivity]|].
  destruct (c_topic c =? id) eqn:Hti; cbn [negb]; [|intros H; inversion H; subst; left; split; [cbn; lia|reflexivity]].
  destruct ((c_booking c =? 0)%N && negb (cfg_allow_empty cfg)) eqn:Hb;
    [intros H; inversion H; subst; left; split; [cbn; lia|reflexivity]|].
  destruct (denied s (c_booking c)) eqn:Hd; [intros H; inversion H; subst; left; split; [cbn; lia|reflexivity]|].
  rewrite He. intros H. right. exists e, i, n. apply String.eqb_eq in Hti.
  repeat split; auto.
  intros H0. rewrite H0 in Hb. cbn in Hb. destruct (cfg_allow_empty cfg); [reflexivity|discriminate].
Qed.

Lemma admin_gate_cases c k s s' x :
  admin_gate true c k s = (s', x) ->
  (x = Resp 401 BError /\ s' = s) \/ (has_scope true "relay:admin" c = Ok true /\ k = (s', x)).
Proof.
  unfold admin_gate. pose proof (has_scope_guarded "relay:admin" c) as Hg.
  destruct (has_scope true "relay:admin" c) as [|[|]]; [contradiction| |].
  - intros H; right; auto.
  - intros H; inversion H; left; auto.
Qed.

Lemma deny_step_cases s c bid e s' x :
  deny_step true s c bid e = (s', x) ->
  (refusal x /\ s' = s) \/
  (has_scope true "relay:admin" c = Ok true /\ bid <> 0%N /\ (clock s <= e)%Z /\ x = Resp 204 BEmpty /\
   s' = mkstate (purge_booking bid (codes s)) (do_deny (reg s) bid e) (drop_booking bid (hub s)) (next_code s) (next_conn s)).
Proof.
  unfold deny_step. intros H. apply admin_gate_cases in H. destruct H as [[-> ->]|[Hs H]]; [left; split; [cbn; lia|reflexivity]|].
  destruct (bid =? 0)%N eqn:Hb; [inversion H; subst; left; split; [cbn; lia|reflexivity]|].
  destruct (e <? clock s)%Z eqn:He; [inversion H; subst; left; split; [cbn; lia|reflexivity]|].
  inversion H; subst. right. repeat split; auto; lia.
Qed.

Lemma allow_step_cases s c bid e s' x :
  allow_step true s c bid e = (s', x) ->
  (refusal x /\ s' = s) \/
  (has_scope true "relay:admin" c = Ok true /\ bid <> 0%N /\ (clock s <= e)%Z /\ x = Resp 204 BEmpty /\
   s' = set_reg s (do_allow (reg s) bid e)).
Proof.
  unfold allow_step. intros H. apply admin_gate_cases in H. destruct H as [[-> ->]|[Hs H]]; [left; split; [cbn; lia|reflexivity]|].
  destruct (bid =? 0)%N eqn:Hb; [inversion H; subst; left; split; [cbn; lia|reflexivity]|].
  destruct (e <? clock s)%Z eqn:He; [inversion H; subst; left; split; [cbn; lia|reflexivity]|].
  inversion H; subst. right. repeat split; auto; lia.
Qed.

Lemma list_step_cases (which : bool) s c s' x :
  (if which then list_denied_step true s c else list_allowed_step true s c) = (s', x) ->
  s' = s /\ ((x = Resp 401 BError) \/
             (has_scope true "relay:admin" c = Ok true /\ exists l, x = Resp 200 (BIds l))).
Proof.
  destruct which; unfold list_denied_step, list_allowed_step; intros H; apply admin_gate_cases in H;
    destruct H as [[-> ->]|[Hs H]]; try (split; [reflexivity|left; reflexivity]);
    inversion H; subst; (split; [reflexivity|right; split; [exact Hs|eexists; reflexivity]]).
Qed.

Lemma status_step_cases s c s' x :
  status_step true s c = (s', x) ->
  s' = s /\ ((x = Resp 401 BError) \/
             (has_scope true "relay:stats" c = Ok true /\ x = Resp 200 (BReports (map report_of (hub s))))).
Proof.
  unfold status_step. pose proof (has_scope_guarded "relay:stats" c) as Hg.
  destruct (has_scope true "relay:stats" c) as [|[|]]; [contradiction| |]; intros H; inversion H; subst; split; auto.
Qed.

Lemma bind_params_some r b e :
  bind_params r = Some (b, e) ->
  r_bid r = Some b /\ b <> 0%N /\ exists raw, r_exp r = Some raw /\ parse_int64 raw = Some e.
Proof.
  unfold bind_params, bind_bid, bind_exp.
  destruct (r_bid r) as [n|]; [|discriminate].
  destruct (n =? 0)%N eqn:Hn; [discriminate|].
  destruct (r_exp r) as [raw|]; [|discriminate].
  destruct (parse_int64 raw) as [v|] eqn:Hp; [|discriminate].
  intros H; inversion H; subst. repeat split; auto; [lia|]. exists raw; auto.
Qed.

(* what a verified principal is, in terms of the bearer presented *)
Lemma principal_valid now host secret cr c x :
  validate_header now host secret cr = Principal c ->
  In x (c_scopes c) -> (exists e, c_exp c = Some e) ->
  exists b, cr = Bearer b /\ c = b_claims b /\ valid_principal now host secret b /\ In x (c_scopes (b_claims b)).
Proof.
  intros Hv Hx [e He]. apply validate_header_principal in Hv.
  destruct Hv as (b & -> & -> & Hs & Hh & Hg & Ht & Ha). exists b. repeat split; auto.
  - apply claims_time_ok_inv in Ht. destruct Ht as (H1 & _ & _). exists e; auto.
  - apply claims_time_ok_inv in Ht. apply Ht.
  - apply claims_time_ok_inv in Ht. apply Ht.
  - intros Hn. rewrite Hn in Hx. destruct Hx.
Qed.

(* ------------------------------------------------------------------ the dispatcher *)
(* always_answers: with the nil checks in place no request makes a handler fault *)
Lemma handle_answers cfg s r : snd (handle true cfg s r) <> Panic.
Proof.
  destruct (handle true cfg s r) as [s' x] eqn:H. cbn [snd]. intros ->.
  unfold handle in H.
  destruct (r_route r) eqn:Hr; try (inversion H; fail);
    destruct (validate_header (clock s) (cfg_host cfg) (cfg_secret cfg) (r_cred r)) as [| |c]; try (inversion H; fail).
  - apply session_step_cases in H. destruct H as [[Hf _]|(e & i & n & _ & _ & _ & _ & _ & _ & _ & _ & _ & Hm)]; [exact Hf|].
    unfold mint in Hm. inversion Hm.
  - destruct (bind_params r) as [[b e]|]; [|inversion H].
    apply deny_step_cases in H. destruct H as [[Hf _]|(_ & _ & _ & Hx & _)]; [exact Hf|discriminate].
  - destruct (bind_params r) as [[b e]|]; [|inversion H].
    apply allow_step_cases in H. destruct H as [[Hf _]|(_ & _ & _ & Hx & _)]; [exact Hf|discriminate].
  - apply (list_step_cases true) in H. destruct H as [_ [Hx|[_ [l Hx]]]]; discriminate.
  - apply (list_step_cases false) in H. destruct H as [_ [Hx|[_ [l Hx]]]]; discriminate.
  - apply status_step_cases in H. destruct H as [_ [Hx|[_ Hx]]]; discriminate.
Qed.

(* every answer is a refusal (status >= 400) or a success (2xx); nothing in between *)
Lemma handle_refusal_or_success cfg s r : refusal (snd (handle true cfg s r)) \/ success (snd (handle true cfg s r)).
Proof.
  destruct (handle true cfg s r) as [s' x] eqn:H. cbn [snd].
  unfold handle in H.
  destruct (r_route r) eqn:Hr; try (inversion H; (left + right); cbn; lia);
    destruct (validate_header (clock s) (cfg_host cfg) (cfg_secret cfg) (r_cred r)) as [| |c]; try (inversion H; left; cbn; lia).
  - apply session_step_cases in H. destruct H as [[Hf _]|(e & i & n & _ & _ & _ & _ & _ & _ & _ & _ & _ & Hm)]; [left; exact Hf|].
    unfold mint in Hm. inversion Hm. right; cbn; lia.
  - destruct (bind_params r) as [[b e]|]; [|inversion H; left; cbn; lia].
    apply deny_step_cases in H. destruct H as [[Hf _]|(_ & _ & _ & -> & _)]; [left; exact Hf|right; cbn; lia].
  - destruct (bind_params r) as [[b e]|]; [|inversion H; left; cbn; lia].
    apply allow_step_cases in H. destruct H as [[Hf _]|(_ & _ & _ & -> & _)]; [left; exact Hf|right; cbn; lia].
  - apply (list_step_cases true) in H. destruct H as [_ [->|[_ [l ->]]]]; [left|right]; cbn; lia.
  - apply (list_step_cases false) in H. destruct H as [_ [->|[_ [l ->]]]]; [left|right]; cbn; lia.
  - apply status_step_cases in H. destruct H as [_ [->|[_ ->]]]; [left|right]; cbn; lia.
Qed.

(* stateless_failure: a refused request leaves every component of the state as it was *)
Lemma handle_refusal_frame cfg s r : refusal (snd (handle true cfg s r)) -> fst (handle true cfg s r) = s.
Proof.
  destruct (handle true cfg s r) as [s' x] eqn:H. cbn [fst snd]. intros Hf.
  unfold handle in H.
  destruct (r_route r) eqn:Hr; try (inversion H; reflexivity);
    destruct (validate_header (clock s) (cfg_host cfg) (cfg_secret cfg) (r_cred r)) as [| |c]; try (inversion H; reflexivity).
  - apply session_step_cases in H. destruct H as [[_ ->]|(e & i & n & _ & _ & _ & _ & _ & _ & _ & _ & _ & Hm)]; [reflexivity|].
    unfold mint in Hm. inversion Hm; subst x. cbn in Hf; lia.
  - destruct (bind_params r) as [[b e]|]; [|inversion H; reflexivity].
    apply deny_step_cases in H. destruct H as [[_ ->]|(_ & _ & _ & -> & _)]; [reflexivity|cbn in Hf; lia].
  - destruct (bind_params r) as [[b e]|]; [|inversion H; reflexivity].
    apply allow_step_cases in H. destruct H as [[_ ->]|(_ & _ & _ & -> & _)]; [reflexivity|cbn in Hf; lia].
  - apply (list_step_cases true) in H. destruct H as [-> _]; reflexivity.
  - apply (list_step_cases false) in H. destruct H as [-> _]; reflexivity.
  - apply status_step_cases in H. destruct H as [-> _]; reflexivity.
Qed.

(* success_only_if_valid *)
Lemma handle_success_valid0 cfg s r : ~ public_route (r_route r) -> success (snd (handle true cfg s r)) -> valid_request cfg s r.
Proof.
  intros Hnp. destruct (handle true cfg s r) as [s' x] eqn:H. cbn [snd]. intros Hs.
  unfold handle in H. unfold valid_request.
  destruct (r_route r) eqn:Hr; try (exfalso; apply Hnp; exact I); try (inversion H; subst x; cbn in Hs; lia);
    destruct (validate_header (clock s) (cfg_host cfg) (cfg_secret cfg) (r_cred r)) as [| |c] eqn:Hv; try (inversion H; subst x; cbn in Hs; lia).
  - apply session_step_cases in H.
    destruct H as [[Hf _]|(e & i & n & He & Hi & Hn & Ht & Hsc & Hp & Hid & Hb & Hd & _)]; [exfalso; eapply refusal_not_success; eauto|].
    apply validate_header_principal in Hv. destruct Hv as (b & Hc & -> & Hsh & Hh & Hg & Htm & Ha).
    exists b. split; [exact Hc|]. split; [|auto].
    apply claims_time_ok_inv in Htm. destruct Htm as (T1 & T2 & T3).
    repeat split; auto. exists e, i, n. repeat split; auto.
  - destruct (bind_params r) as [[b e]|] eqn:Hb; [|inversion H; subst x; cbn in Hs; lia].
    apply deny_step_cases in H. destruct H as [[Hf _]|(Hsc & Hb0 & Hc & _ & _)]; [exfalso; eapply refusal_not_success; eauto|].
    apply has_scope_true in Hsc. destruct Hsc as (Hin & _ & Hex).
    destruct (principal_valid _ _ _ _ _ _ Hv Hin Hex) as (bb & -> & -> & Hvp & Hin'). exists bb. split; [reflexivity|]. split; [exact Hvp|]. split; [exact Hin'|].
    apply bind_params_some in Hb. destruct Hb as (B1 & B2 & raw & B3 & B4). exists b, raw, e. auto.
  - destruct (bind_params r) as [[b e]|] eqn:Hb; [|inversion H; subst x; cbn in Hs; lia].
    apply allow_step_cases in H. destruct H as [[Hf _]|(Hsc & Hb0 & Hc & _ & _)]; [exfalso; eapply refusal_not_success; eauto|].
    apply has_scope_true in Hsc. destruct Hsc as (Hin & _ & Hex).
    destruct (principal_valid _ _ _ _ _ _ Hv Hin Hex) as (bb & -> & -> & Hvp & Hin'). exists bb. split; [reflexivity|]. split; [exact Hvp|]. split; [exact Hin'|].
    apply bind_params_some in Hb. destruct Hb as (B1 & B2 & raw & B3 & B4). exists b, raw, e. auto.
  - apply (list_step_cases true) in H. destruct H as [_ [->|[Hsc _]]]; [cbn in Hs; lia|].
    apply has_scope_true in Hsc. destruct Hsc as (Hin & _ & Hex).
    destruct (principal_valid _ _ _ _ _ _ Hv Hin Hex) as (bb & -> & -> & Hvp & Hin'). exists bb. auto.
  - apply (list_step_cases false) in H. destruct H as [_ [->|[Hsc _]]]; [cbn in Hs; lia|].
    apply has_scope_true in Hsc. destruct Hsc as (Hin & _ & Hex).
    destruct (principal_valid _ _ _ _ _ _ Hv Hin Hex) as (bb & -> & -> & Hvp & Hin'). exists bb. auto.
  - apply status_step_cases in H. destruct H as [_ [->|[Hsc _]]]; [cbn in Hs; lia|].
    apply has_scope_true in Hsc. destruct Hsc as (Hin & _ & Hex).
    destruct (principal_valid _ _ _ _ _ _ Hv Hin Hex) as (bb & -> & -> & Hvp & Hin'). exists bb. auto.
Qed.

Lemma public_route_dec rt : {public_route rt} + {~ public_route rt}.
Proof. destruct rt; cbn; auto. Qed.

Lemma handle_success_valid cfg s r : success (snd (handle true cfg s r)) -> public_route (r_route r) \/ valid_request cfg s r.
Proof.
  intros Hs. destruct (public_route_dec (r_route r)) as [Hp|Hnp]; [left; exact Hp|right; apply handle_success_valid0; assumption].
Qed.

(* what a public route answers: 200, nothing read, nothing changed *)
Lemma handle_public cfg s r : public_route (r_route r) -> fst (handle true cfg s r) = s /\ success (snd (handle true cfg s r)).
Proof. unfold handle. destruct (r_route r); cbn; intros H; try contradiction; split; try reflexivity; lia. Qed.


(* ------------------------------------------------------------------ C01: bad session requests *)
Lemma session_rejects_bad cfg s id cr bid ex :
  (forall b, cr = Bearer b ->
     ~ good_bearer (clock s) (cfg_host cfg) (cfg_secret cfg) b \/ c_topic (b_claims b) <> id \/
     (c_booking (b_claims b) = 0%N /\ cfg_allow_empty cfg = false) \/ denied s (c_booking (b_claims b)) = true) ->
  refusal (snd (handle true cfg s (mkreq (RSession id) cr bid ex))) /\
  fst (handle true cfg s (mkreq (RSession id) cr bid ex)) = s.
Proof.
  intros Hbad. set (r := mkreq (RSession id) cr bid ex).
  assert (Hr : refusal (snd (handle true cfg s r))).
  { destruct (handle_refusal_or_success cfg s r) as [H|H]; [exact H|exfalso].
    apply handle_success_valid0 in H; [|cbn; auto]. unfold valid_request in H. cbn [r_route r] in H.
    destruct H as (b & Hc & Hg & Ht & Hb & Hd). cbn [r_cred r] in Hc.
    destruct (Hbad b Hc) as [H1|[H1|[[H1 H2]|H1]]]; try contradiction; try congruence.
    rewrite (Hb H1) in H2; discriminate. }
  split; [exact Hr|apply handle_refusal_frame; exact Hr].
Qed.

(* ------------------------------------------------------------------ C09: scopes *)
Definition admin_route (rt : route) : Prop :=
  match rt with RDeny | RAllow | RListDeny | RListAllow => True | _ => False end.

Lemma changed_means_success cfg s r : fst (handle true cfg s r) <> s -> success (snd (handle true cfg s r)).
Proof.
  intros Hne. destruct (handle_refusal_or_success cfg s r) as [H|H]; [|exact H].
  exfalso; apply Hne; apply handle_refusal_frame; exact H.
Qed.

Lemma admin_only cfg s r :
  admin_route (r_route r) ->
  success (snd (handle true cfg s r)) \/ fst (handle true cfg s r) <> s ->
  exists b, r_cred r = Bearer b /\ valid_principal (clock s) (cfg_host cfg) (cfg_secret cfg) b /\ In "relay:admin" (c_scopes (b_claims b)).
Proof.
  intros Ha Hs. assert (H : success (snd (handle true cfg s r))) by (destruct Hs; [assumption|apply changed_means_success; assumption]).
  apply handle_success_valid0 in H; [|destruct (r_route r); cbn in Ha |- *; auto]. unfold valid_request in H.
  destruct (r_route r); cbn in Ha; try contradiction; destruct H as (b & H1 & H2 & H3); exists b; split; auto; split; auto;
    try exact H3; destruct H3 as [H3 _]; exact H3.
Qed.

Lemma stats_only cfg s r :
  r_route r = RStatus ->
  success (snd (handle true cfg s r)) \/ fst (handle true cfg s r) <> s ->
  exists b, r_cred r = Bearer b /\ valid_principal (clock s) (cfg_host cfg) (cfg_secret cfg) b /\ In "relay:stats" (c_scopes (b_claims b)).
Proof.
  intros Ha Hs. assert (H : success (snd (handle true cfg s r))) by (destruct Hs; [assumption|apply changed_means_success; assumption]).
  apply handle_success_valid0 in H; [|rewrite Ha; cbn; auto]. unfold valid_request in H. rewrite Ha in H. exact H.
Qed.

(* a bearer without the exact scope: refused, nothing changes; and when the token itself is valid and the
   request is otherwise well-formed the status is 401 *)
Lemma missing_scope_refused cfg s r b (scope : string) :
  (admin_route (r_route r) /\ scope = "relay:admin") \/ (r_route r = RStatus /\ scope = "relay:stats") ->
  r_cred r = Bearer b -> ~ In scope (c_scopes (b_claims b)) ->
  refusal (snd (handle true cfg s r)) /\ fst (handle true cfg s r) = s.
Proof.
  intros Hrt Hc Hn.
  assert (Hr : refusal (snd (handle true cfg s r))).
  { destruct (handle_refusal_or_success cfg s r) as [H|H]; [exact H|exfalso].
    destruct Hrt as [[Ha ->]|[Ha ->]].
    - destruct (admin_only cfg s r Ha (or_introl H)) as (b' & Hc' & _ & Hin). congruence.
    - destruct (stats_only cfg s r Ha (or_introl H)) as (b' & Hc' & _ & Hin). congruence. }
  split; [exact Hr|apply handle_refusal_frame; exact Hr].
Qed.

Lemma missing_scope_401 cfg s r c :
  validate_header (clock s) (cfg_host cfg) (cfg_secret cfg) (r_cred r) = Principal c ->
  (r_route r = RListDeny /\ ~ In "relay:admin" (c_scopes c)) \/
  (r_route r = RListAllow /\ ~ In "relay:admin" (c_scopes c)) \/
  (r_route r = RDeny /\ bind_params r <> None /\ ~ In "relay:admin" (c_scopes c)) \/
  (r_route r = RAllow /\ bind_params r <> None /\ ~ In "relay:admin" (c_scopes c)) \/
  (r_route r = RStatus /\ ~ In "relay:stats" (c_scopes c)) ->
  handle true cfg s r = (s, Resp 401 BError).
Proof.
  intros Hv H. unfold handle.
  assert (G : forall x, ~ In x (c_scopes c) -> has_scope true x c = Ok false).
  { intros x Hx. destruct (has_scope_absent true x c Hx) as [E|E]; [exact E|]. exfalso; eapply has_scope_guarded; exact E. }
  destruct H as [[-> Hn]|[[-> Hn]|[(-> & Hb & Hn)|[(-> & Hb & Hn)|[-> Hn]]]]]; rewrite Hv.
  - unfold list_denied_step, admin_gate. rewrite (G _ Hn). reflexivity.
  - unfold list_allowed_step, admin_gate. rewrite (G _ Hn). reflexivity.
  - destruct (bind_params r) as [[bb e]|]; [|congruence]. unfold deny_step, admin_gate. rewrite (G _ Hn). reflexivity.
  - destruct (bind_params r) as [[bb e]|]; [|congruence]. unfold allow_step, admin_gate. rewrite (G _ Hn). reflexivity.
  - unfold status_step. rewrite (G _ Hn). reflexivity.
Qed.

(* scope strings that look like the admin scope but are not it *)
Definition lookalikes : list string :=
  ["relay:admin "; " relay:admin"; "Relay:Admin"; "RELAY:ADMIN"; "relay:Admin"; "admin"; "relay"; "relay:"; "relay:admi";
   "relay:admins"; "relay:admin:"; "relay-admin"; "relay.admin"; "relay:admin,relay:stats"; "relay:admin relay:stats";
   "relay:stats"; "read"; "write"; "host"; "client"; ""; "*"; "relay:*";
   (* Unicode compatibility look-alikes, as UTF-8 bytes: full-width letters and colon, small colon, modifier r,
      superscript n, long s, zero-width space, byte-order mark *)
   "ｒｅｌａｙ：ａｄｍｉｎ"; "relay：admin"; "relay﹕admin"; "ʳelay:admin"; "relay:admiⁿ"; "relay:ａdmin";
   "relay：stats"; "relay:ſtats"; "relay:ｓtats"; "relay:admin​"; "﻿relay:admin"].

Lemma lookalikes_not_admin : ~ In "relay:admin" lookalikes.
Proof. apply str_mem_false. vm_compute. reflexivity. Qed.

Lemma lookalikes_not_stats : ~ In "relay:stats" (filter (fun x => negb (String.eqb x "relay:stats")) lookalikes).
Proof. apply str_mem_false. vm_compute. reflexivity. Qed.

Lemma lookalike_scopes cfg s r b :
  admin_route (r_route r) -> r_cred r = Bearer b ->
  (forall x, In x (c_scopes (b_claims b)) -> In x lookalikes) ->
  refusal (snd (handle true cfg s r)) /\ fst (handle true cfg s r) = s.
Proof.
  intros Ha Hc Hall. apply (missing_scope_refused cfg s r b "relay:admin"); auto.
  intros Hin. apply lookalikes_not_admin. apply Hall. exact Hin.
Qed.

(* a refused call disconnects nobody and spends no code *)
Lemma no_disconnect cfg s r :
  refusal (snd (handle true cfg s r)) ->
  hub (fst (handle true cfg s r)) = hub s /\ codes (fst (handle true cfg s r)) = codes s /\ reg (fst (handle true cfg s r)) = reg s.
Proof. intros H. rewrite (handle_refusal_frame cfg s r H). auto. Qed.

(* the fault the guard removes: without the nil checks a signed token lacking exp faults every endpoint,
   and one lacking iat faults the session handler after the allow list has been written *)
Definition f07_claims (e i n : option Z) : claims :=
  mkclaims "t" "session" 1 ["read"; "relay:admin"; "relay:stats"] ["h"] e n i.
Definition f07_req (rt : route) (e i n : option Z) : request :=
  mkreq rt (Bearer (mkbearer SWell HS256 [] (Some 7%N) (f07_claims e i n))) (Some 1%N) (Some "99").
Definition f07_cfg : config := mkconfig false "h" "w" "w" 30 7.

Lemma unguarded_faults :
  Forall (fun rt => snd (handle false f07_cfg (init 10) (f07_req rt None (Some 5%Z) (Some 5%Z))) = Panic)
         [RSession "t"; RDeny; RAllow; RListDeny; RListAllow; RStatus] /\
  handle false f07_cfg (init 10) (f07_req (RSession "t") (Some 50%Z) None (Some 5%Z))
    = (set_reg (init 10) (do_allow (reg (init 10)) 1 50), Panic).
Proof. split; [repeat constructor|reflexivity]. Qed.

(* ------------------------------------------------------------------ the secret, the key, the header *)
(* a signature verifies only under the key it was made with: acceptance means that key IS the configured secret *)
Lemma sig_ok_exact secret b : sig_ok secret b = true <-> b_signed b = Some secret.
Proof.
  unfold sig_ok. destruct (b_signed b) as [k|]; [|split; discriminate].
  rewrite N.eqb_eq. split; [intros ->; reflexivity|intros H; inversion H; reflexivity].
Qed.

Lemma principal_signed_with_secret now host secret cr c :
  validate_header now host secret cr = Principal c -> exists b, cr = Bearer b /\ b_signed b = Some secret.
Proof.
  intros H. apply validate_header_principal in H. destruct H as (b & -> & _ & _ & _ & Hg & _).
  exists b. split; [reflexivity|apply sig_ok_exact; exact Hg].
Qed.

(* any other key - the empty one, a part or a prefix of the secret, a longer one - and no HMAC at all: refused by
   the authenticator, on every route that has one, with nothing changed *)
Lemma unauthenticated_refused cfg s r :
  ~ public_route (r_route r) ->
  (forall c, validate_header (clock s) (cfg_host cfg) (cfg_secret cfg) (r_cred r) <> Principal c) ->
  refusal (snd (handle true cfg s r)) /\ fst (handle true cfg s r) = s.
Proof.
  intros Hnp Hn. unfold handle.
  destruct (r_route r); try (exfalso; apply Hnp; exact I); try (cbn; split; [lia|reflexivity]);
    destruct (validate_header (clock s) (cfg_host cfg) (cfg_secret cfg) (r_cred r)) as [| |c] eqn:Hv;
    try (cbn; split; [lia|reflexivity]); exfalso; apply (Hn c); reflexivity.
Qed.

Lemma wrong_key_refused cfg s r b :
  ~ public_route (r_route r) ->
  r_cred r = Bearer b -> b_signed b <> Some (cfg_secret cfg) ->
  refusal (snd (handle true cfg s r)) /\ fst (handle true cfg s r) = s.
Proof.
  intros Hnp Hc Hk. apply unauthenticated_refused; [exact Hnp|]. intros c Hv.
  apply principal_signed_with_secret in Hv. destruct Hv as (b' & Hc' & Hs). congruence.
Qed.

(* the further header members are read by nobody *)
Definition set_header (b : bearer) (h : list string) : bearer :=
  mkbearer (b_shape b) (b_alg b) h (b_signed b) (b_claims b).

Lemma header_irrelevant cfg s rt b h bid ex :
  handle true cfg s (mkreq rt (Bearer (set_header b h)) bid ex) = handle true cfg s (mkreq rt (Bearer b) bid ex).
Proof. reflexivity. Qed.

(* ------------------------------------------------------------------ query values *)
Lemma parse_int64_range s v : parse_int64 s = Some v -> (-9223372036854775808 <= v <= 9223372036854775807)%Z.
Proof.
  unfold parse_int64.
  destruct (match s with
            | EmptyString => (false, s)
            | String a r => if Ascii.eqb a "-" then (true, r) else if Ascii.eqb a "+" then (false, r) else (false, s)
            end) as [neg digits].
  destruct digits as [|d ds]; [discriminate|].
  destruct (digits_val (String d ds) 0) as [w|]; [|discriminate].
  destruct ((-9223372036854775808 <=? (if neg then (- w)%Z else w))%Z && ((if neg then (- w)%Z else w) <=? 9223372036854775807)%Z) eqn:Hr; [|discriminate].
  intros H; inversion H; subst. lia.
Qed.

Lemma bind_params_none_iff r :
  bind_params r = None <->
  r_bid r = None \/ r_bid r = Some 0%N \/ r_exp r = None \/ (exists raw, r_exp r = Some raw /\ parse_int64 raw = None).
Proof.
  unfold bind_params, bind_bid, bind_exp.
  destruct (r_bid r) as [n|]; [|split; auto].
  destruct (n =? 0)%N eqn:Hn.
  { apply N.eqb_eq in Hn; subst. split; auto. }
  apply N.eqb_neq in Hn. destruct (r_exp r) as [raw|]; [|split; auto].
  destruct (parse_int64 raw) eqn:Hp; split; intros H; try discriminate; eauto.
  - destruct H as [H|[H|[H|(raw' & H & H')]]]; try discriminate; inversion H; congruence.
  - right; right; right. exists raw; auto.
Qed.

Lemma unbound_params_422 cfg s r c :
  validate_header (clock s) (cfg_host cfg) (cfg_secret cfg) (r_cred r) = Principal c ->
  r_route r = RDeny \/ r_route r = RAllow -> bind_params r = None ->
  handle true cfg s r = (s, Resp 422 BError).
Proof. intros Hv [Hr|Hr] Hb; unfold handle; rewrite Hr, Hv, Hb; reflexivity. Qed.

Lemma bound_params_range r b e :
  bind_params r = Some (b, e) -> b <> 0%N /\ (-9223372036854775808 <= e <= 9223372036854775807)%Z.
Proof.
  intros H. apply bind_params_some in H. destruct H as (_ & Hb & raw & _ & Hp). split; [exact Hb|].
  eapply parse_int64_range; exact Hp.
Qed.

(* a code appears in an answer only when it has just been minted (status 200) *)
Lemma uri_only_on_success cfg s r st k : snd (handle true cfg s r) = Resp st (BUri k) -> st = 200%N.
Proof.
  unfold handle, session_step, deny_step, allow_step, list_denied_step, list_allowed_step, status_step, admin_gate, mint.
  repeat match goal with
         | |- context [match ?x with _ => _ end] => destruct x
         end; cbn; intros H; try discriminate; inversion H; reflexivity.
Qed.
