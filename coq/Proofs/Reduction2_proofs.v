(* Reduction for arbitrary nesting: every execution of the value-carrying lock-IR semantics from well-locked code is
   simulated by an execution in which every maximal run "(control | Acq | Rd | Wr)* Rel" of a thread is one atomic
   step, and whenever nobody holds a lock the two configurations coincide.
   Method: the roll-back simulation of Proofs/Reduction_proofs.v, generalised: a thread is rolled back to the state
   it had just after its last release (or at its start); everything it has done since - including acquisitions - is
   an uncommitted run alone ([prun]); its next Rel commits the run as one [ABlock]. Sound because what the thread
   acquired is still held by it at the commit (so it is available in the abstract pool too), and the objects it
   touched were protected by those locks all along. *)
From Relay Require Import Base.Prelude Model.LockIR Model.Reduction Model.Reduction2.
From Relay Require Import Proofs.LockIR_proofs Proofs.Reduction_proofs.

Section Proofs2.
  Context {L F Ob Lo : Type}.
  Variable leqb : L -> L -> bool.
  Hypothesis leqb_spec : forall a b, leqb a b = true <-> a = b.
  Variable guard : F -> L.
  Variable rd : F -> Lo -> Ob -> Lo.
  Variable wr : F -> Lo -> Ob -> Lo * Ob.

  Notation vthread := (@vthread L F Lo).
  Notation cfg := (@cfg L F Ob Lo).
  Notation held := (held leqb).
  Notation drop := (drop leqb).
  Notation oset := (@oset L Ob leqb).
  Notation vstep := (vstep leqb guard rd wr).
  Notation pstep := (pstep leqb guard rd wr).
  Notation prun := (prun leqb guard rd wr).
  Notation astep2 := (astep2 leqb guard rd wr).
  Notation arun2 := (arun2 leqb guard rd wr).
  Notation compat := (@compat L F Lo leqb).
  Notation wl := (wl leqb guard).

  Definition lsof (x : vthread * (L -> Ob)) : @lockset L := fst (fst (fst x)).

  Lemma held_cons m m0 md0 ls : held m ((m0, md0) :: ls) = if leqb m m0 then Some md0 else held m ls.
  Proof. reflexivity. Qed.

  Lemma e_refl m : leqb m m = true.
  Proof. apply leqb_spec; reflexivity. Qed.

  Lemma e_neq a b : a <> b -> leqb a b = false.
  Proof. intro H. destruct (leqb a b) eqn:E; [apply leqb_spec in E; contradiction|reflexivity]. Qed.

  Lemma oset_same (o : L -> Ob) g v : oset o g v g = v.
  Proof. unfold Reduction.oset. rewrite e_refl. reflexivity. Qed.

  Lemma oset_diff (o : L -> Ob) g v m : m <> g -> oset o g v m = o m.
  Proof. intro H. unfold Reduction.oset. rewrite (e_neq _ _ H). reflexivity. Qed.

  (* ------------------------------------------------------------ runs alone *)
  Lemma pstep_held_mono x y m md : pstep x y -> held m (lsof x) = Some md -> held m (lsof y) = Some md.
  Proof.
    intros Hs Hh. destruct Hs as [ls lo k lo' k' o Hl|ls lo m0 md0 k o Hn|ls lo f k o Hg|ls lo f k o Hg]; unfold lsof in *; cbn [fst snd] in *; auto.
    rewrite held_cons. destruct (leqb m m0) eqn:E; [|exact Hh].
    apply leqb_spec in E. subst m0. congruence.
  Qed.

  Lemma prun_held_mono x y m md : prun x y -> held m (lsof x) = Some md -> held m (lsof y) = Some md.
  Proof. induction 1 as [x|x y z _ IH Hs]; intro Hh; [exact Hh|]. eapply pstep_held_mono; eauto. Qed.

  Lemma pstep_held_some x y m : pstep x y -> held m (lsof x) <> None -> held m (lsof y) <> None.
  Proof.
    intros Hs Hh. destruct (held m (lsof x)) as [md|] eqn:E; [|congruence].
    rewrite (pstep_held_mono _ _ _ _ Hs E). discriminate.
  Qed.

  Lemma pstep_none_back x y m : pstep x y -> held m (lsof y) = None -> held m (lsof x) = None.
  Proof.
    intros Hs Hn. destruct (held m (lsof x)) as [md|] eqn:E; [|reflexivity].
    rewrite (pstep_held_mono _ _ _ _ Hs E) in Hn. discriminate.
  Qed.

  (* an object whose lock the thread does not hold at the end was not changed by its run *)
  Lemma pstep_untouched x y m : pstep x y -> held m (lsof y) = None -> snd y m = snd x m.
  Proof.
    intros Hs Hn. destruct Hs as [ls lo k lo' k' o Hl|ls lo m0 md0 k o Hn0|ls lo f k o Hg|ls lo f k o Hg]; unfold lsof in *; cbn [fst snd] in *; auto.
    apply oset_diff. intros ->. congruence.
  Qed.

  Lemma prun_untouched x y m : prun x y -> held m (lsof y) = None -> snd y m = snd x m.
  Proof.
    induction 1 as [x|x y z Hr IH Hs]; intro Hn; [reflexivity|].
    rewrite (pstep_untouched _ _ _ Hs Hn). apply IH. eapply pstep_none_back; eauto.
  Qed.

  (* FRAME: a run only depends on the objects whose locks the thread holds at its end *)
  Lemma prun_frame t o t' o1 : prun (t, o) (t', o1) ->
    forall o2, (forall m, held m (fst (fst t')) <> None -> o2 m = o m) ->
    exists o3, prun (t, o2) (t', o3) /\
               (forall m, held m (fst (fst t')) <> None -> o3 m = o1 m) /\
               (forall m, held m (fst (fst t')) = None -> o3 m = o2 m).
  Proof.
    intro Hr. remember (t, o) as x eqn:Ex. remember (t', o1) as z eqn:Ez. revert t' o1 Ez.
    induction Hr as [x|x y z Hr IH Hs]; intros t' o1 Ez o2 H2; subst.
    - inversion Ez; subst. exists o2. split; [apply prun_refl|]. split; [exact H2|auto].
    - destruct y as [ty oy].
      assert (H2y : forall m, held m (fst (fst ty)) <> None -> o2 m = o m).
      { intros m Hm. apply H2. exact (pstep_held_some (ty, oy) (t', o1) m Hs Hm). }
      destruct (IH eq_refl ty oy eq_refl o2 H2y) as (o3 & R3 & A3 & B3).
      inversion Hs as [ls lo k lo' k' o0 Hl|ls lo m0 md0 k o0 Hn0|ls lo f k o0 Hg|ls lo f k o0 Hg]; subst; cbn [fst snd] in *.
      + exists o3. split; [eapply prun_snoc; [exact R3|apply PLocal; exact Hl]|]. split; assumption.
      + exists o3. split; [eapply prun_snoc; [exact R3|apply PAcq; exact Hn0]|]. split.
        * intros m Hm. rewrite held_cons in Hm. destruct (leqb m m0) eqn:E.
          -- apply leqb_spec in E. subst m0. rewrite (B3 m Hn0).
             rewrite (H2 m) by (rewrite held_cons, e_refl; discriminate).
             symmetry. exact (prun_untouched (t, o) ((ls, lo, Acq m md0 :: k), o1) m Hr Hn0).
          -- apply A3. exact Hm.
        * intros m Hm. rewrite held_cons in Hm. destruct (leqb m m0) eqn:E; [discriminate|]. apply B3. exact Hm.
      + exists o3. split.
        * eapply prun_snoc; [exact R3|]. rewrite <- (A3 (guard f) Hg). apply PRd. exact Hg.
        * split; assumption.
      + assert (Hg' : held (guard f) ls <> None) by (rewrite Hg; discriminate).
        exists (oset o3 (guard f) (snd (wr f lo (o3 (guard f))))). split.
        * eapply prun_snoc; [exact R3|]. rewrite <- (A3 (guard f) Hg') at 1. apply PWr. exact Hg.
        * rewrite (A3 (guard f) Hg'). split.
          -- intros m Hm. destruct (leqb m (guard f)) eqn:E.
             ++ apply leqb_spec in E. subst m. rewrite !oset_same. reflexivity.
             ++ assert (m <> guard f) by (intro; subst; rewrite e_refl in E; discriminate).
                rewrite !oset_diff by assumption. apply A3. exact Hm.
          -- intros m Hm. assert (m <> guard f) by (intros ->; congruence).
             rewrite oset_diff by assumption. apply B3. exact Hm.
  Qed.
  (* ------------------------------------------------------------ the simulation relation *)
  (* thread i of the concrete configuration is its abstract thread run forward alone by an uncommitted run; [oi] is
     what the objects would be after that run: the concrete values for the objects whose locks it holds, the abstract
     (committed) ones for all others. A thread that holds nothing has no uncommitted run. *)
  Definition th2 (c a : cfg) (i : nat) : Prop :=
    forall ls lo k, nth_error (thrs c) i = Some (ls, lo, k) ->
      exists ta oi, nth_error (thrs a) i = Some ta /\
        prun (ta, objs a) ((ls, lo, k), oi) /\
        (forall m, held m ls <> None -> oi m = objs c m) /\
        (forall m, held m ls = None -> oi m = objs a m) /\
        (ls = [] -> ta = (ls, lo, k)).

  Record sim2 (c a : cfg) : Prop := {
    s2_len : length (thrs a) = length (thrs c);
    s2_thr : forall i, th2 c a i;
    s2_obj : forall m, (forall j ls lo k, nth_error (thrs c) j = Some (ls, lo, k) -> held m ls <> Some Ex) ->
                       objs a m = objs c m
  }.

  (* a stutter step of thread i leaves the relation of the other threads alone, if it did not change an object
     they hold the lock of *)
  Lemma th2_frame c a i t' oc' j :
    th2 c a j -> i <> j ->
    (forall ls lo k m, nth_error (thrs c) j = Some (ls, lo, k) -> held m ls <> None -> oc' m = objs c m) ->
    th2 (mkcfg oc' (vupd (thrs c) i t')) a j.
  Proof.
    intros Hr Hne Hobj ls lo k Hj. cbn [thrs objs] in *. rewrite nth_vupd_other in Hj by assumption.
    destruct (Hr _ _ _ Hj) as (ta & oi & H1 & H2 & H3 & H4 & H5).
    exists ta, oi. repeat split; auto. intros m Hm. rewrite (Hobj _ _ _ m Hj Hm). apply H3. exact Hm.
  Qed.

  Lemma noex_transfer (c : cfg) i ls lo k ls' lo' k' m :
    nth_error (thrs c) i = Some (ls, lo, k) ->
    (held m ls' <> Some Ex -> held m ls <> Some Ex) ->
    (forall j ls1 lo1 k1, nth_error (vupd (thrs c) i (ls', lo', k')) j = Some (ls1, lo1, k1) -> held m ls1 <> Some Ex) ->
    forall j ls1 lo1 k1, nth_error (thrs c) j = Some (ls1, lo1, k1) -> held m ls1 <> Some Ex.
  Proof.
    intros Hi Himp Hm j ls1 lo1 k1 Hj. destruct (Nat.eq_dec i j) as [<-|Hne].
    - rewrite Hi in Hj. inversion Hj; subst. apply Himp. apply (Hm i ls' lo' k'). eapply nth_vupd_same; eauto.
    - apply (Hm j ls1 lo1 k1). rewrite nth_vupd_other by assumption. exact Hj.
  Qed.

  (* ONE STEP of the fine-grained semantics is a stutter or one step of the block-atomic semantics *)
  Lemma sim2_step c a i c' :
    wl c -> sim2 c a -> vstep c i c' -> exists a', (a' = a \/ astep2 a i a') /\ sim2 c' a'.
  Proof.
    intros Hwl [Hlen Hthr Hobj] Hs. destruct Hs as [c i t o' t' Hi Ht].
    destruct Ht as [ls lo k lo' k' Hl|ls lo m k Hf|ls lo m k Hn Hh|ls lo m k|ls lo f k|ls lo f k];
      destruct (Hthr i _ _ _ Hi) as (ta & oi & Ha & Hrun & HA & HB & HS).
    - (* a control / blocking step *)
      destruct ls as [|l0 ls0].
      + (* holding nothing: the same step in the block-atomic semantics *)
        specialize (HS eq_refl). subst ta.
        exists (mkcfg (objs a) (vupd (thrs a) i ([], lo', k'))). split.
        * right. eapply ALocal2; eauto.
        * constructor; cbn [thrs objs].
          -- rewrite !length_vupd. exact Hlen.
          -- intro j. destruct (Nat.eq_dec i j) as [<-|Hne].
             ++ intros ls1 lo1 k1 Hj. cbn [thrs objs] in Hj |- *. rewrite (nth_vupd_same _ _ _ _ Hi) in Hj. inversion Hj; subst.
                exists ([], lo1, k1), (objs a). split; [eapply nth_vupd_same; eauto|]. split; [apply prun_refl|].
                split; [intros m Hm; cbn in Hm; congruence|]. split; auto.
             ++ intros ls1 lo1 k1 Hj. cbn [thrs objs] in Hj |- *. rewrite nth_vupd_other in Hj by assumption.
                destruct (Hthr j _ _ _ Hj) as (tb & ob & B1 & B2 & B3 & B4 & B5).
                exists tb, ob. rewrite nth_vupd_other by assumption. auto.
          -- intros m Hm. apply Hobj. eapply (noex_transfer c i); eauto.
      + (* holding a lock: a stutter, the uncommitted run grows *)
        exists a. split; [left; reflexivity|].
        constructor; cbn [thrs objs].
        * rewrite length_vupd. exact Hlen.
        * intro j. destruct (Nat.eq_dec i j) as [<-|Hne].
          -- intros ls1 lo1 k1 Hj. cbn [thrs objs] in Hj |- *. rewrite (nth_vupd_same _ _ _ _ Hi) in Hj. inversion Hj; subst.
             exists ta, oi. split; [exact Ha|]. split; [eapply prun_snoc; [exact Hrun|apply PLocal; exact Hl]|].
             split; [exact HA|]. split; [exact HB|discriminate].
          -- apply th2_frame; auto.
        * intros m Hm. apply Hobj. eapply (noex_transfer c i); eauto.
    - (* Acq m Ex: a stutter *)
      assert (Hfree : forall j ls1 lo1 k1, nth_error (thrs c) j = Some (ls1, lo1, k1) -> held m ls1 = None)
        by (apply free_erase; exact Hf).
      assert (Hown : held m ls = None) by (eapply Hfree; eauto).
      assert (Hom : objs a m = objs c m).
      { apply Hobj. intros j ls1 lo1 k1 Hj. rewrite (Hfree _ _ _ _ Hj). discriminate. }
      exists a. split; [left; reflexivity|].
      constructor; cbn [thrs objs].
      + rewrite length_vupd. exact Hlen.
      + intro j. destruct (Nat.eq_dec i j) as [<-|Hne].
        * intros ls1 lo1 k1 Hj. cbn [thrs objs] in Hj |- *. rewrite (nth_vupd_same _ _ _ _ Hi) in Hj. inversion Hj; subst.
          exists ta, oi. split; [exact Ha|]. split; [eapply prun_snoc; [exact Hrun|apply PAcq; exact Hown]|].
          split; [|split; [|discriminate]].
          -- intros m' Hm'. rewrite held_cons in Hm'. destruct (leqb m' m) eqn:E.
             ++ apply leqb_spec in E. subst m'. rewrite (HB m Hown). exact Hom.
             ++ apply HA. exact Hm'.
          -- intros m' Hm'. rewrite held_cons in Hm'. destruct (leqb m' m) eqn:E; [discriminate|]. apply HB. exact Hm'.
        * apply th2_frame; auto.
      + intros m' Hm. apply Hobj. apply (noex_transfer c i ls lo (Acq m Ex :: k) ((m, Ex) :: ls) lo k m' Hi); [|exact Hm].
        intros H. rewrite held_cons in H. destruct (leqb m' m) eqn:E.
        * apply leqb_spec in E. subst m'. rewrite Hown. discriminate.
        * exact H.
    - (* Acq m Sh: a stutter *)
      assert (Hnoex : forall j ls1 lo1 k1, nth_error (thrs c) j = Some (ls1, lo1, k1) -> held m ls1 <> Some Ex)
        by (apply noex_erase; exact Hn).
      assert (Hom : objs a m = objs c m) by (apply Hobj; exact Hnoex).
      exists a. split; [left; reflexivity|].
      constructor; cbn [thrs objs].
      + rewrite length_vupd. exact Hlen.
      + intro j. destruct (Nat.eq_dec i j) as [<-|Hne].
        * intros ls1 lo1 k1 Hj. cbn [thrs objs] in Hj |- *. rewrite (nth_vupd_same _ _ _ _ Hi) in Hj. inversion Hj; subst.
          exists ta, oi. split; [exact Ha|]. split; [eapply prun_snoc; [exact Hrun|apply PAcq; exact Hh]|].
          split; [|split; [|discriminate]].
          -- intros m' Hm'. rewrite held_cons in Hm'. destruct (leqb m' m) eqn:E.
             ++ apply leqb_spec in E. subst m'. rewrite (HB m Hh). exact Hom.
             ++ apply HA. exact Hm'.
          -- intros m' Hm'. rewrite held_cons in Hm'. destruct (leqb m' m) eqn:E; [discriminate|]. apply HB. exact Hm'.
        * apply th2_frame; auto.
      + intros m' Hm. apply Hobj. apply (noex_transfer c i ls lo (Acq m Sh :: k) ((m, Sh) :: ls) lo k m' Hi); [|exact Hm].
        intros H. rewrite held_cons in H. destruct (leqb m' m) eqn:E.
        * apply leqb_spec in E. subst m'. rewrite Hh. discriminate.
        * exact H.
    - (* Rel m: the commit - the whole uncommitted run and this release as ONE atomic block *)
      set (ls' := drop m ls).
      exists (mkcfg oi (vupd (thrs a) i (ls', lo, k))). split.
      + right. eapply ABlock; [exact Ha|exact Hrun|].
        (* what the thread holds is available in the abstract pool: the others hold there no more than they hold now *)
        intros j lj loj kj m' Hne Hj.
        destruct (nth_error (thrs c) j) as [[[lcj locj] kcj]|] eqn:Ecj.
        2:{ exfalso. apply nth_error_None in Ecj. assert (j < length (thrs a)) by (apply nth_error_Some; congruence). lia. }
        destruct (Hthr j _ _ _ Ecj) as (tb & ob & B1 & B2 & _ & _ & _). rewrite Hj in B1. inversion B1; subst tb.
        assert (Hmono : forall md, held m' lj = Some md -> held m' lcj = Some md).
        { intros md Hmd. exact (prun_held_mono ((lj, loj, kj), objs a) ((lcj, locj, kcj), ob) m' md B2 Hmd). }
        split.
        * intro Hex. destruct (held m' lj) as [md|] eqn:E; [|reflexivity].
          rewrite (wl_ex _ _ _ Hwl i j _ _ _ _ _ _ m' (not_eq_sym Hne) Hi Ecj Hex) in Hmono. specialize (Hmono md eq_refl). discriminate.
        * intros Hsome Hex. specialize (Hmono Ex Hex).
          rewrite (wl_ex _ _ _ Hwl j i _ _ _ _ _ _ m' Hne Ecj Hi Hmono) in Hsome. congruence.
      + constructor; cbn [thrs objs].
        * rewrite !length_vupd. exact Hlen.
        * intro j. destruct (Nat.eq_dec i j) as [<-|Hne].
          -- intros ls1 lo1 k1 Hj. cbn [thrs objs] in Hj |- *. rewrite (nth_vupd_same _ _ _ _ Hi) in Hj. inversion Hj; subst.
             exists (ls', lo1, k1), oi. split; [eapply nth_vupd_same; eauto|]. split; [apply prun_refl|].
             split; [|split; auto].
             intros m' Hm'. apply HA. destruct (held m' ls') as [md|] eqn:E; [|congruence].
             unfold ls' in E. rewrite (held_drop_sub leqb leqb_spec _ _ _ _ E). discriminate.
          -- (* another thread: its run started from the old committed objects; those it depends on are the same in
                the new ones *)
             intros ls1 lo1 k1 Hj. cbn [thrs objs] in Hj |- *. rewrite nth_vupd_other in Hj by assumption.
             destruct (Hthr j _ _ _ Hj) as (tb & ob & B1 & B2 & B3 & B4 & B5).
             assert (Hagree : forall m', held m' ls1 <> None -> oi m' = objs a m').
             { intros m' Hm'. destruct (held m' ls) as [md|] eqn:E.
               - (* both hold m': shared on both sides, so nobody holds it exclusively and it is committed *)
                 rewrite (HA m') by (rewrite E; discriminate). symmetry. apply Hobj.
                 intros p lp lop kp Hp Hpe. destruct (Nat.eq_dec p j) as [->|Hpj].
                 + rewrite Hj in Hp. inversion Hp; subst.
                   rewrite (wl_ex _ _ _ Hwl j i _ _ _ _ _ _ m' (not_eq_sym Hne) Hj Hi Hpe) in E. discriminate.
                 + apply Hm'. exact (wl_ex _ _ _ Hwl p j _ _ _ _ _ _ m' Hpj Hp Hj Hpe).
               - apply HB. exact E. }
             destruct (prun_frame tb (objs a) (ls1, lo1, k1) ob B2 oi Hagree) as (o3 & R3 & A3 & C3).
             exists tb, o3. rewrite nth_vupd_other by assumption.
             split; [exact B1|]. split; [exact R3|]. split; [|split; [exact C3|exact B5]].
             intros m' Hm'. rewrite (A3 m' Hm'). apply B3. exact Hm'.
        * intros m' Hm. destruct (held m' ls) as [md|] eqn:E.
          -- apply HA. rewrite E. discriminate.
          -- rewrite (HB m' E). apply Hobj. apply (noex_transfer c i ls lo (Rel m :: k) ls' lo k m' Hi); [|exact Hm]. intros _. rewrite E. discriminate.
    - (* Rd f: a stutter *)
      pose proof (wl_rd _ _ _ Hwl i _ _ _ _ Hi) as Hg.
      exists a. split; [left; reflexivity|].
      constructor; cbn [thrs objs].
      + rewrite length_vupd. exact Hlen.
      + intro j. destruct (Nat.eq_dec i j) as [<-|Hne].
        * intros ls1 lo1 k1 Hj. cbn [thrs objs] in Hj |- *. rewrite (nth_vupd_same _ _ _ _ Hi) in Hj. inversion Hj; subst.
          exists ta, oi. split; [exact Ha|]. split.
          -- eapply prun_snoc; [exact Hrun|]. rewrite <- (HA (guard f) Hg). apply PRd. exact Hg.
          -- split; [exact HA|]. split; [exact HB|]. intros ->. cbn in Hg. congruence.
        * apply th2_frame; auto.
      + intros m Hm. apply Hobj. eapply (noex_transfer c i); eauto.
    - (* Wr f: a stutter; only the writer's own object changes *)
      pose proof (wl_wr _ _ _ Hwl i _ _ _ _ Hi) as Hg.
      assert (Hg' : held (guard f) ls <> None) by (rewrite Hg; discriminate).
      exists a. split; [left; reflexivity|].
      constructor; cbn [thrs objs].
      + rewrite length_vupd. exact Hlen.
      + intro j. destruct (Nat.eq_dec i j) as [<-|Hne].
        * intros ls1 lo1 k1 Hj. cbn [thrs objs] in Hj |- *. rewrite (nth_vupd_same _ _ _ _ Hi) in Hj. inversion Hj; subst.
          exists ta, (oset oi (guard f) (snd (wr f lo (oi (guard f))))). split; [exact Ha|]. split.
          -- eapply prun_snoc; [exact Hrun|]. rewrite <- (HA (guard f) Hg') at 1. apply PWr. exact Hg.
          -- rewrite (HA (guard f) Hg'). split; [|split].
             ++ intros m Hm. destruct (leqb m (guard f)) eqn:E.
                ** apply leqb_spec in E. subst m. rewrite !oset_same. reflexivity.
                ** assert (m <> guard f) by (intro; subst; rewrite e_refl in E; discriminate).
                   rewrite !oset_diff by assumption. apply HA. exact Hm.
             ++ intros m Hm. assert (m <> guard f) by (intros ->; congruence).
                rewrite oset_diff by assumption. apply HB. exact Hm.
             ++ intros ->. cbn in Hg. discriminate.
        * apply th2_frame; auto; cbn [thrs objs].
          intros ls1 lo1 k1 m Hj Hm. apply oset_diff. intros ->.
          apply Hm. exact (wl_ex _ _ _ Hwl i j _ _ _ _ _ _ (guard f) Hne Hi Hj Hg).
      + intros m Hm.
        assert (Hm' : m <> guard f).
        { intros ->. apply (Hm i ls (fst (wr f lo (objs c (guard f)))) k (nth_vupd_same _ _ _ _ Hi)). exact Hg. }
        rewrite oset_diff by assumption. apply Hobj. eapply (noex_transfer c i); eauto.
  Qed.
  Lemma sim2_init c : (forall i t, nth_error (thrs c) i = Some t -> fst (fst t) = []) -> sim2 c c.
  Proof.
    intro H. constructor; [reflexivity| |reflexivity].
    intros i ls lo k Hi. exists (ls, lo, k), (objs c). repeat split; auto. apply prun_refl.
  Qed.

  Lemma sim2_quiescent c a : sim2 c a -> quiescent c -> thrs a = thrs c /\ forall m, objs a m = objs c m.
  Proof.
    intros [Hlen Hthr Hobj] Hq. split.
    - apply nth_error_extensional. intro i. destruct (nth_error (thrs c) i) as [[[ls lo] k]|] eqn:E.
      + pose proof (Hq _ _ E) as Hl. cbn in Hl. subst ls.
        destruct (Hthr i _ _ _ E) as (ta & oi & H1 & _ & _ & _ & H5). rewrite H1, (H5 eq_refl). reflexivity.
      + apply nth_error_None. rewrite Hlen. apply nth_error_None. exact E.
    - intro m. apply Hobj. intros j ls lo k Hj. pose proof (Hq _ _ Hj) as Hl. cbn in Hl. subst ls. discriminate.
  Qed.

  Section WithChecker.
    Variable rank : L -> nat.
    Variable nb ord : bool.

    Lemma sim2_run c sch c' : vrun leqb guard rd wr c sch c' ->
      inv leqb guard rank nb ord (erase (thrs c)) ->
      forall a0 s0 a, arun2 a0 s0 a -> sim2 c a ->
      exists s' a', arun2 a0 (s0 ++ s') a' /\ sublist s' sch /\ sim2 c' a'.
    Proof.
      induction 1 as [c|c i c1 s c2 Hs _ IH]; intros Hinv a0 s0 a Ha Hsim.
      - exists [], a. rewrite app_nil_r. split; [exact Ha|split; [apply sl_nil|exact Hsim]].
      - pose proof (inv_wl leqb guard rank nb ord c Hinv) as Hwl.
        pose proof (vstep_inv leqb leqb_spec guard rd wr rank nb ord c i c1 Hinv Hs) as Hinv1.
        destruct (sim2_step _ _ _ _ Hwl Hsim Hs) as (a1 & [->|Hst] & Hsim1).
        + destruct (IH Hinv1 a0 s0 a Ha Hsim1) as (s' & a' & H1 & H2 & H3).
          exists s', a'. split; [exact H1|split; [apply sl_skip; exact H2|exact H3]].
        + destruct (IH Hinv1 a0 (s0 ++ [i]) a1 (arun2_snoc _ _ _ _ _ _ _ _ _ Ha Hst) Hsim1) as (s' & a' & H1 & H2 & H3).
          exists (i :: s'), a'. rewrite <- app_assoc in H1. cbn in H1.
          split; [exact H1|split; [apply sl_keep; exact H2|exact H3]].
    Qed.

    (* THE REDUCTION THEOREM, ANY NESTING. Well-locked code (the checker of Model/LockIR.v accepts every thread's body);
       any number of threads, any schedule. Every configuration in which nobody holds a lock is reached - same objects,
       same thread-local states, same remaining code - by an execution in which every maximal run
       "(control | Acq | Rd | Wr)* Rel" of a thread is ONE atomic step, and that execution moves the threads in the
       order of the fine-grained schedule minus the stutter steps (every block sits where its Rel was). *)
    Theorem reduction2 c0 sch c :
      initial leqb guard rank nb ord (erase (thrs c0)) ->
      vrun leqb guard rd wr c0 sch c -> quiescent c ->
      exists sch' a, arun2 c0 sch' a /\ sublist sch' sch /\ thrs a = thrs c /\ forall m, objs a m = objs c m.
    Proof.
      intros Hi Hs Hq.
      assert (H0 : forall i t, nth_error (thrs c0) i = Some t -> fst (fst t) = []).
      { intros i [[ls lo] k] Ht.
        destruct (Hi i (erase_t (ls, lo, k))) as (s & E & _); [unfold erase; rewrite nth_error_map, Ht; reflexivity|].
        inversion E; subst. reflexivity. }
      destruct (sim2_run _ _ _ Hs (initial_inv leqb guard rank nb ord _ Hi) c0 [] c0 (arun2_nil _ _ _ _ _) (sim2_init _ H0))
        as (s' & a & H1 & H2 & H3).
      exists s', a. cbn in H1. destruct (sim2_quiescent _ _ H3 Hq) as [E1 E2]. auto.
    Qed.
  End WithChecker.
End Proofs2.

(* ------------------------------------------------------------------------------------------ *)
(* the relay instance: ANY body of the regenerated program, nested sections included *)
Lemma nth_erase {L F Lo : Type} (ts : list (@vthread L F Lo)) i t :
  nth_error (erase ts) i = Some t -> exists tc, nth_error ts i = Some tc /\ t = erase_t tc.
Proof.
  revert i; induction ts as [|x ts IH]; intros [|i] H; cbn in *; try discriminate.
  - inversion H; eauto.
  - apply IH. exact H.
Qed.

Section Relay2.
  Context {Ob Lo : Type}.
  Variable rd : oname -> Lo -> Ob -> Lo.
  Variable wr : oname -> Lo -> Ob -> Lo * Ob.

  Definition runs_bodies (prog : program) (c : @cfg oname oname Ob Lo) : Prop :=
    forall i t, nth_error (thrs c) i = Some t ->
      exists name body rho lo, In (name, body) prog /\ injective rho /\ t = ([], lo, [inst rho body]).

  Theorem prog_all_bodies_reduce prog c0 sch c :
    well_locked_prog prog = true -> runs_bodies prog c0 ->
    vrun oname_eqb guard_of rd wr c0 sch c -> quiescent c ->
    exists sch' a, arun2 oname_eqb guard_of rd wr c0 sch' a /\ sublist sch' sch /\
                   thrs a = thrs c /\ forall m, objs a m = objs c m.
  Proof.
    intros Hw Hr Hs Hq.
    apply (reduction2 oname_eqb oname_eqb_spec guard_of rd wr rank_of false false c0 sch c); auto.
    apply (runs_initial false false prog); [exact Hw|].
    intros i t Hi. destruct (nth_erase _ _ _ Hi) as (tc & E & ->).
    destruct (Hr _ _ E) as (name & body & rho & lo & Hin & Hinj & ->).
    exists name, body, rho. split; [exact Hin|split; [exact Hinj|reflexivity]].
  Qed.
End Relay2.

(* ------------------------------------------------------------------------------------------ *)
(* non-vacuity: thread 0 reads object 0 under a shared lock on 0 and, nested inside, object 1 under a shared lock on
   1; thread 1 runs an exclusive section on lock 1 (adds 5 to object 1) in the middle of thread 0's outer section *)
Definition n_rd (_ : nat) (lo ob : N) : N := (lo + ob)%N.
Definition n_wr (_ : nat) (lo ob : N) : N * N := (ob, (ob + lo)%N).
Definition n_body0 : stmt nat nat :=
  Seq (Acq 0 Sh) (Seq (Rd 0) (Seq (Acq 1 Sh) (Seq (Rd 1) (Seq (Rel 1) (Seq (Rd 0) (Rel 0)))))).
Definition n_body1 : stmt nat nat := Seq (Acq 1 Ex) (Seq (Wr 1) (Rel 1)).
Definition n_c0 : @cfg nat nat N N :=
  mkcfg (fun m => if Nat.eqb m 0 then 2%N else 10%N) [([], 0%N, [n_body0]); ([], 5%N, [n_body1])].

Ltac n_free := intros [|[|?j]] ?t ?Hj; cbn in Hj; inversion Hj; subst; try reflexivity; try discriminate;
               match goal with j : nat |- _ => destruct j; discriminate end.
Ltac n_noex := intros [|[|?j]] ?t ?Hj; cbn in Hj; inversion Hj; subst; cbn; try discriminate;
               match goal with j : nat |- _ => destruct j; discriminate end.
Ltac n_step i tac :=
  eapply vrun_cons; [eapply (VStep _ _ _ _ _ i); [reflexivity|tac]|cbn [vupd thrs objs]].

Lemma reduction2_witness :
  initial Nat.eqb (fun f => f) (fun m => m) false false (erase (thrs n_c0)) /\
  exists sch c, vrun Nat.eqb (fun f => f) n_rd n_wr n_c0 sch c /\ quiescent c /\
                objs c 1 = 15%N /\ thrs c = [([], 19%N, []); ([], 10%N, [])].
Proof.
  split.
  - intros [|[|i]] t Hi; cbn in Hi.
    + inversion Hi; subst. exists n_body0. split; [reflexivity|vm_compute; reflexivity].
    + inversion Hi; subst. exists n_body1. split; [reflexivity|vm_compute; reflexivity].
    + destruct i; discriminate.
  - exists [0;0;0;0; 1;1;1;1;1; 0;0;0;0;0;0;0;0;0]. eexists. split; [|split; [|split]].
    + n_step 0 ltac:(apply VLocal; apply LSeq).
      n_step 0 ltac:(apply VAcqSh; [n_noex|reflexivity]).
      n_step 0 ltac:(apply VLocal; apply LSeq).
      n_step 0 ltac:(apply VRd).
      n_step 1 ltac:(apply VLocal; apply LSeq).
      n_step 1 ltac:(apply VAcqEx; n_free).
      n_step 1 ltac:(apply VLocal; apply LSeq).
      n_step 1 ltac:(apply VWr).
      n_step 1 ltac:(apply VRel).
      n_step 0 ltac:(apply VLocal; apply LSeq).
      n_step 0 ltac:(apply VAcqSh; [n_noex|reflexivity]).
      n_step 0 ltac:(apply VLocal; apply LSeq).
      n_step 0 ltac:(apply VRd).
      n_step 0 ltac:(apply VLocal; apply LSeq).
      n_step 0 ltac:(apply VRel).
      n_step 0 ltac:(apply VLocal; apply LSeq).
      n_step 0 ltac:(apply VRd).
      n_step 0 ltac:(apply VRel).
      apply vrun_nil.
    + intros [|[|i]] t Hi; cbn in Hi; [inversion Hi; subst; reflexivity|inversion Hi; subst; reflexivity|destruct i; discriminate].
    + vm_compute. reflexivity.
    + vm_compute. reflexivity.
Qed.
