(* Lemmas about the code store model (C02): single use, expiry, purge by booking, frames,
   and the interleaving statement.  All by induction over histories / schedules. *)
From Relay Require Import Base.Prelude Base.AList Model.CodeStore.

Local Notation E := N.eqb_eq.
Ltac sim := cbn [store now ttl fst snd do_submit do_remove do_sweep do_purge tok bk exp].

Definition Inv (s : st) : Prop := NoDup (keys (store s)).

Lemma inv_init t l : Inv (init t l).
Proof. constructor. Qed.

Lemma inv_step s o : Inv s -> Inv (fst (step s o)).
Proof.
  unfold Inv; intros H. destruct o as [c t b|c| |b|dt|]; cbn [step].
  - sim. apply nodup_insert; [exact E|exact H].
  - destruct (clk c (store s)); sim; [apply nodup_remove; exact H|exact H].
  - sim. apply nodup_filterv; exact H.
  - sim. apply nodup_filterv; exact H.
  - sim. exact H.
  - sim. exact H.
Qed.

Lemma final_cons s o r : final s (o :: r) = final (fst (step s o)) r.
Proof. reflexivity. Qed.

Lemma final_app s a b : final s (a ++ b) = final (final s a) b.
Proof. unfold final. apply fold_left_app. Qed.

Lemma inv_final s ops : Inv s -> Inv (final s ops).
Proof.
  revert s; induction ops as [|o r IH]; intros s H; [exact H|].
  rewrite final_cons. apply IH. apply inv_step; exact H.
Qed.

Lemma ttl_step s o : ttl (fst (step s o)) = ttl s.
Proof. destruct o as [c t b|c| |b|dt|]; cbn [step]; try reflexivity. destruct (clk c (store s)); reflexivity. Qed.

Lemma ttl_final s ops : ttl (final s ops) = ttl s.
Proof.
  revert s; induction ops as [|o r IH]; intros s; [reflexivity|].
  rewrite final_cons, IH. apply ttl_step.
Qed.

(* ---- what each operation does to the entry of a given code ---- *)
Lemma lookup_sweep s c : Inv s ->
  clk c (store (do_sweep s)) =
  match clk c (store s) with Some e => if expired (now s) e then None else Some e | None => None end.
Proof.
  intros H. sim. rewrite lookup_filterv by (exact E || exact H).
  destruct (clk c (store s)) as [e|]; [|reflexivity]. destruct (expired (now s) e); reflexivity.
Qed.

Lemma lookup_purge s b c : Inv s ->
  clk c (store (do_purge s b)) =
  match clk c (store s) with Some e => if (bk e =? b)%N then None else Some e | None => None end.
Proof.
  intros H. sim. rewrite lookup_filterv by (exact E || exact H).
  destruct (clk c (store s)) as [e|]; [|reflexivity]. destruct (bk e =? b)%N; reflexivity.
Qed.

(* an operation that is not a Submit of c either leaves c's entry as it was or removes it *)
Lemma lookup_step_stable s o c : Inv s -> is_submit c o = false ->
  clk c (store (fst (step s o))) = None \/ clk c (store (fst (step s o))) = clk c (store s).
Proof.
  intros H Hs. destruct o as [c' t b|c'| |b|dt|]; cbn [step].
  - cbn [is_submit] in Hs. apply N.eqb_neq in Hs. sim. right.
    apply lookup_insert_neq; [exact E|congruence].
  - destruct (clk c' (store s)) as [e|] eqn:L; sim; [|right; reflexivity].
    destruct (N.eq_dec c c') as [->|Hn]; [left; apply lookup_remove_eq; exact E|right].
    apply lookup_remove_neq; [exact E|exact Hn].
  - cbn [fst]. rewrite lookup_sweep by exact H. destruct (clk c (store s)) as [e|]; [|left; reflexivity].
    destruct (expired (now s) e); [left|right]; reflexivity.
  - cbn [fst]. rewrite lookup_purge by exact H. destruct (clk c (store s)) as [e|]; [|left; reflexivity].
    destruct (bk e =? b)%N; [left|right]; reflexivity.
  - right; reflexivity.
  - right; reflexivity.
Qed.

Lemma submits_cons c o r : submits c (o :: r) = ((if is_submit c o then 1 else 0) + submits c r)%nat.
Proof. unfold submits; cbn [filter]. destruct (is_submit c o); reflexivity. Qed.

Lemma submits_app c a b : submits c (a ++ b) = (submits c a + submits c b)%nat.
Proof. unfold submits. rewrite filter_app, app_length. reflexivity. Qed.

Lemma submits_zero_cons c o r : submits c (o :: r) = 0%nat -> is_submit c o = false /\ submits c r = 0%nat.
Proof. rewrite submits_cons. destruct (is_submit c o); [discriminate|]. intros H; split; [reflexivity|exact H]. Qed.

Lemma lookup_final_stable s ops c : Inv s -> submits c ops = 0%nat ->
  clk c (store (final s ops)) = None \/ clk c (store (final s ops)) = clk c (store s).
Proof.
  revert s; induction ops as [|o r IH]; intros s H Hs; [right; reflexivity|].
  apply submits_zero_cons in Hs. destruct Hs as [Ho Hr].
  rewrite final_cons.
  destruct (IH (fst (step s o)) (inv_step s o H) Hr) as [Hn|He]; [left; exact Hn|].
  rewrite He. apply lookup_step_stable; assumption.
Qed.

Lemma gone_stays_gone s ops c : Inv s -> submits c ops = 0%nat ->
  clk c (store s) = None -> clk c (store (final s ops)) = None.
Proof.
  intros H Hs Hn. destruct (lookup_final_stable s ops c H Hs) as [Hx|Hx]; [exact Hx|congruence].
Qed.

(* ---- single use ---- *)
Definition memb (c : N) (s : st) : nat := if mem N.eqb c (store s) then 1 else 0.

Lemma memb_le1 c s : (memb c s <= 1)%nat.
Proof. unfold memb. destruct (mem N.eqb c (store s)); lia. Qed.

Lemma mem_filterv_le (p : N -> entry -> bool) c (m : cstore) :
  mem N.eqb c (filterv p m) = true -> mem N.eqb c m = true.
Proof.
  rewrite !mem_true_iff by exact E. apply keys_filterv_subset.
Qed.

(* every successful exchange of c uses up either the entry present at the start or one submission *)
Lemma wins_bound c ops : forall s, (wins c s ops <= memb c s + submits c ops)%nat.
Proof.
  induction ops as [|o r IH]; intros s; [cbn; lia|].
  cbn [wins]. rewrite submits_cons. specialize (IH (fst (step s o))).
  destruct o as [c' t b|c'| |b|dt|]; cbn [step is_win is_submit fst snd] in *.
  - destruct (N.eqb_spec c' c) as [->|Hn].
    + pose proof (memb_le1 c (do_submit s c t b)). lia.
    + assert (memb c (do_submit s c' t b) = memb c s) as Hm.
      { unfold memb, mem. sim. rewrite lookup_insert_neq by (exact E || congruence). reflexivity. }
      lia.
  - destruct (clk c' (store s)) as [e|] eqn:L; cbn [fst snd] in *.
    + destruct (N.eqb_spec c' c) as [->|Hn].
      * assert (memb c (do_remove s c) = 0%nat) as H0.
        { unfold memb, mem. sim. rewrite lookup_remove_eq by exact E. reflexivity. }
        assert (memb c s = 1%nat) as H1 by (unfold memb, mem; rewrite L; reflexivity).
        destruct (expired (now s) e); cbn [is_win]; lia.
      * assert (memb c (do_remove s c') = memb c s) as Hm.
        { unfold memb, mem. sim. rewrite lookup_remove_neq by (exact E || congruence). reflexivity. }
        destruct (expired (now s) e); cbn [is_win]; lia.
    + lia.
  - assert (memb c (do_sweep s) <= memb c s)%nat as Hm.
    { unfold memb. sim. destruct (mem N.eqb c (filterv _ (store s))) eqn:M; [|lia].
      apply mem_filterv_le in M. rewrite M. lia. }
    lia.
  - assert (memb c (do_purge s b) <= memb c s)%nat as Hm.
    { unfold memb. sim. destruct (mem N.eqb c (filterv _ (store s))) eqn:M; [|lia].
      apply mem_filterv_le in M. rewrite M. lia. }
    lia.
  - unfold memb in *; cbn [store] in *. lia.
  - lia.
Qed.

Lemma submits_count c ops : submits c ops = count_occ N.eq_dec (submitted ops) c.
Proof.
  induction ops as [|o r IH]; [reflexivity|].
  rewrite submits_cons, IH. unfold submitted; cbn [flat_map]. fold (submitted r).
  destruct o as [c' t b|c'| |b|dt|]; cbn [is_submit app]; try reflexivity.
  cbn [count_occ]. destruct (N.eq_dec c' c) as [->|Hn].
  - rewrite N.eqb_refl. reflexivity.
  - apply N.eqb_neq in Hn. rewrite Hn. reflexivity.
Qed.

Lemma fresh_submits_le1 c ops : fresh ops -> (submits c ops <= 1)%nat.
Proof.
  intros H. rewrite submits_count. apply (proj1 (NoDup_count_occ N.eq_dec (submitted ops)) H).
Qed.

Lemma exchange_at_most_once t l ops c : fresh ops -> (wins c (init t l) ops <= 1)%nat.
Proof.
  intros H. pose proof (wins_bound c ops (init t l)) as Hb. pose proof (fresh_submits_le1 c ops H).
  unfold memb in Hb; cbn in Hb. lia.
Qed.

(* a token that comes out was put in under that code *)
Lemma exchange_returns_stored s c t b :
  snd (step s (Exchange c)) = OTok t b ->
  exists e, clk c (store s) = Some e /\ tok e = t /\ bk e = b /\ (now s <= exp e)%Z.
Proof.
  cbn [step]. destruct (clk c (store s)) as [e|]; cbn [snd]; [|discriminate].
  unfold expired. destruct (exp e <? now s)%Z eqn:X; [discriminate|].
  intros H; inversion H; subst. exists e. repeat split. lia.
Qed.

(* ---- expiry ---- *)
Lemma exchange_expired_refused s c e :
  clk c (store s) = Some e -> (exp e < now s)%Z -> snd (step s (Exchange c)) = ORefused.
Proof.
  intros L X. cbn [step]. rewrite L. cbn [snd]. unfold expired.
  destruct (exp e <? now s)%Z eqn:Y; [reflexivity|lia].
Qed.

Lemma exchange_absent_refused s c : clk c (store s) = None -> snd (step s (Exchange c)) = ORefused.
Proof. intros L. cbn [step]. rewrite L. reflexivity. Qed.

Lemma no_exchange_after_ttl t0 life ops1 c t b ops2 :
  let s1 := final (init t0 life) ops1 in
  let s2 := final (fst (step s1 (Submit c t b))) ops2 in
  submits c ops2 = 0%nat ->
  (now s1 + life < now s2)%Z ->
  snd (step s2 (Exchange c)) = ORefused.
Proof.
  intros s1 s2 Hs Ht.
  assert (I1 : Inv s1) by (apply inv_final, inv_init).
  assert (I2 : Inv (fst (step s1 (Submit c t b)))) by (apply inv_step; exact I1).
  assert (L1 : clk c (store (fst (step s1 (Submit c t b)))) = Some (mkentry t b (now s1 + ttl s1))).
  { cbn [step]. sim. apply lookup_insert_eq; exact E. }
  assert (T : ttl s1 = life) by (unfold s1; rewrite ttl_final; reflexivity).
  destruct (lookup_final_stable _ ops2 c I2 Hs) as [Hn|He].
  - apply exchange_absent_refused. exact Hn.
  - fold s2 in He. rewrite L1 in He. eapply exchange_expired_refused; [exact He|]. cbn [exp]. lia.
Qed.

(* ---- purge by booking ---- *)
Lemma purge_kills_booking s b c e : Inv s ->
  clk c (store (fst (step s (Purge b)))) = Some e -> bk e <> b.
Proof.
  intros H. cbn [step fst]. rewrite lookup_purge by exact H.
  destruct (clk c (store s)) as [e'|]; [|discriminate].
  destruct (bk e' =? b)%N eqn:X; [discriminate|]. intros Q; inversion Q; subst. apply N.eqb_neq; exact X.
Qed.

Lemma purge_frame s b c : Inv s ->
  (forall e, clk c (store s) = Some e -> bk e <> b) ->
  clk c (store (fst (step s (Purge b)))) = clk c (store s).
Proof.
  intros H Hb. cbn [step fst]. rewrite lookup_purge by exact H.
  destruct (clk c (store s)) as [e|] eqn:L; [|reflexivity].
  specialize (Hb e eq_refl). apply N.eqb_neq in Hb. rewrite Hb. reflexivity.
Qed.

Lemma purged_code_dead t0 life ops1 c t b ops2 ops3 :
  submits c ops2 = 0%nat -> submits c ops3 = 0%nat ->
  snd (step (final (init t0 life) (ops1 ++ Submit c t b :: ops2 ++ Purge b :: ops3)) (Exchange c)) = ORefused.
Proof.
  intros H2 H3. apply exchange_absent_refused.
  rewrite final_app, final_cons, final_app, final_cons.
  set (s1 := final (init t0 life) ops1).
  assert (I1 : Inv s1) by (apply inv_final, inv_init).
  set (sa := fst (step s1 (Submit c t b))).
  assert (Ia : Inv sa) by (apply inv_step; exact I1).
  set (sb := final sa ops2).
  assert (Ib : Inv sb) by (apply inv_final; exact Ia).
  apply gone_stays_gone; [apply inv_step; exact Ib|exact H3|].
  cbn [step fst]. rewrite lookup_purge by exact Ib.
  pose proof (lookup_final_stable sa ops2 c Ia H2) as Hst. fold sb in Hst. destruct Hst as [Hn|He].
  - rewrite Hn. reflexivity.
  - rewrite He. unfold sa. cbn [step]. sim. rewrite lookup_insert_eq by exact E. cbn [bk].
    rewrite N.eqb_refl. reflexivity.
Qed.

(* ---- frames ---- *)
Lemma exchange_frame s c c' : c' <> c ->
  clk c' (store (fst (step s (Exchange c)))) = clk c' (store s).
Proof.
  intros Hn. cbn [step]. destruct (clk c (store s)); sim; [|reflexivity].
  apply lookup_remove_neq; [exact E|exact Hn].
Qed.

Lemma sweep_frame s c e : Inv s ->
  clk c (store s) = Some e -> (now s <= exp e)%Z ->
  clk c (store (fst (step s Sweep))) = Some e.
Proof.
  intros H L X. cbn [step fst]. rewrite lookup_sweep by exact H. rewrite L.
  unfold expired. destruct (exp e <? now s)%Z eqn:Y; [lia|reflexivity].
Qed.

Lemma sweep_removes_only_expired s c : Inv s ->
  clk c (store (fst (step s Sweep))) = None \/ clk c (store (fst (step s Sweep))) = clk c (store s).
Proof. intros H. apply lookup_step_stable; [exact H|reflexivity]. Qed.

Lemma submit_frame s c t b c' : c' <> c ->
  clk c' (store (fst (step s (Submit c t b)))) = clk c' (store s).
Proof. intros Hn. cbn [step]. sim. apply lookup_insert_neq; [exact E|exact Hn]. Qed.

Lemma tick_count_frame s o : (exists dt, o = Tick dt) \/ o = Count -> store (fst (step s o)) = store s.
Proof. intros [[dt ->]| ->]; reflexivity. Qed.

(* ---- interleavings ---- *)
Definition trace_ops (tr : list (nat * op * out)) : list op := map (fun e => snd (fst e)) tr.

Lemma trace_wins_is_wins c sched : forall s progs,
  trace_wins c (snd (run_sched s progs sched)) = wins c s (trace_ops (snd (run_sched s progs sched))).
Proof.
  induction sched as [|i rest IH]; intros s progs; [reflexivity|].
  cbn [run_sched]. destruct (nth_prog progs i) as [[o progs']|]; [|apply IH].
  destruct (step s o) as [s1 x] eqn:Es.
  specialize (IH s1 progs'). destruct (run_sched s1 progs' rest) as [s2 tr] eqn:Er.
  cbn [snd] in *. unfold trace_wins in *. cbn [filter trace_ops map fst snd wins].
  rewrite Es. cbn [fst snd]. fold (trace_ops tr). rewrite <- IH.
  destruct (is_win c o x); reflexivity.
Qed.

Lemma nth_prog_submits c progs : forall i o progs',
  nth_prog progs i = Some (o, progs') ->
  submits c (concat progs) = ((if is_submit c o then 1 else 0) + submits c (concat progs'))%nat.
Proof.
  induction progs as [|p r IH]; intros i o progs' H; [destruct i; discriminate|].
  destruct i as [|j]; cbn [nth_prog] in H.
  - destruct p as [|o1 p1]; [discriminate|]. inversion H; subst.
    cbn [concat]. rewrite !submits_app, submits_cons. destruct (is_submit c o); lia.
  - destruct (nth_prog r j) as [[o1 r1]|] eqn:N1; [|discriminate]. inversion H; subst.
    cbn [concat]. rewrite !submits_app. rewrite (IH _ _ _ N1). destruct (is_submit c o); lia.
Qed.

Lemma trace_submits_le c sched : forall s progs,
  (submits c (trace_ops (snd (run_sched s progs sched))) <= submits c (concat progs))%nat.
Proof.
  induction sched as [|i rest IH]; intros s progs; [cbn; lia|].
  cbn [run_sched]. destruct (nth_prog progs i) as [[o progs']|] eqn:N1; [|apply IH].
  destruct (step s o) as [s1 x] eqn:Es.
  specialize (IH s1 progs'). destruct (run_sched s1 progs' rest) as [s2 tr] eqn:Er.
  cbn [snd trace_ops map fst] in *. fold (trace_ops tr) in *. rewrite submits_cons.
  rewrite (nth_prog_submits c _ _ _ _ N1). destruct (is_submit c o); lia.
Qed.

Lemma sched_wins_bound c s progs sched :
  (trace_wins c (snd (run_sched s progs sched)) <= memb c s + submits c (concat progs))%nat.
Proof.
  rewrite trace_wins_is_wins.
  pose proof (wins_bound c (trace_ops (snd (run_sched s progs sched))) s).
  pose proof (trace_submits_le c sched s progs). lia.
Qed.

Lemma exchange_at_most_once_sched t l progs sched c :
  fresh (concat progs) -> (trace_wins c (snd (run_sched (init t l) progs sched)) <= 1)%nat.
Proof.
  intros H. pose proof (sched_wins_bound c (init t l) progs sched) as Hb.
  pose proof (fresh_submits_le1 c _ H). unfold memb in Hb; cbn in Hb. lia.
Qed.

Lemma submits_exchangers c c' n : submits c (concat (repeat [Exchange c'] n)) = 0%nat.
Proof. induction n as [|n IH]; [reflexivity|]. cbn [repeat concat]. rewrite submits_app, IH. reflexivity. Qed.

Lemma same_instant_at_most_one s c n sched :
  (trace_wins c (snd (run_sched s (repeat [Exchange c] n) sched)) <= 1)%nat.
Proof.
  pose proof (sched_wins_bound c s (repeat [Exchange c] n) sched) as Hb.
  rewrite submits_exchangers in Hb. pose proof (memb_le1 c s). lia.
Qed.

(* exactly one winner when the code is live and at least one presenter gets to run *)
Definition exchangers (c : N) (progs : list (list op)) : Prop :=
  Forall (fun p => p = [] \/ p = [Exchange c]) progs.

Lemma nth_prog_exchangers c progs : forall i o progs',
  exchangers c progs -> nth_prog progs i = Some (o, progs') -> o = Exchange c /\ exchangers c progs'.
Proof.
  induction progs as [|p r IH]; intros i o progs' F H; [destruct i; discriminate|].
  inversion F as [|? ? Hp Hr]; subst.
  destruct i as [|j]; cbn [nth_prog] in H.
  - destruct Hp as [->| ->]; [discriminate|]. inversion H; subst. split; [reflexivity|].
    constructor; [left; reflexivity|exact Hr].
  - destruct (nth_prog r j) as [[o1 r1]|] eqn:N1; [|discriminate]. inversion H; subst.
    destruct (IH _ _ _ Hr N1) as [Ho Hr1]. split; [exact Ho|]. constructor; [exact Hp|exact Hr1].
Qed.

Lemma live_code_some_winner c e sched : forall s progs,
  exchangers c progs -> clk c (store s) = Some e -> (now s <= exp e)%Z ->
  (exists i, In i sched /\ nth_prog progs i <> None) ->
  (1 <= trace_wins c (snd (run_sched s progs sched)))%nat.
Proof.
  induction sched as [|i rest IH]; intros s progs F L X [k [Hk Hp]]; [destruct Hk|].
  cbn [run_sched]. destruct (nth_prog progs i) as [[o progs']|] eqn:N1.
  - destruct (nth_prog_exchangers c _ _ _ _ F N1) as [-> F'].
    cbn [step]. rewrite L.
    destruct (run_sched (do_remove s c) progs' rest) as [s2 tr].
    unfold trace_wins. cbn [snd filter fst]. unfold expired.
    destruct (exp e <? now s)%Z eqn:Y; [lia|]. cbn [is_win]. rewrite N.eqb_refl. cbn [length]. lia.
  - apply IH; try assumption. exists k. split; [|exact Hp].
    destruct Hk as [->|Hk]; [congruence|exact Hk].
Qed.

Lemma nth_prog_repeat c n i : (i < n)%nat -> nth_prog (repeat [Exchange c] n) i <> None.
Proof.
  revert i; induction n as [|n IH]; intros i Hi; [lia|].
  destruct i as [|j]; cbn [repeat nth_prog]; [discriminate|].
  specialize (IH j ltac:(lia)). destruct (nth_prog (repeat [Exchange c] n) j) as [[o r]|]; [discriminate|congruence].
Qed.

Lemma exchangers_repeat c n : exchangers c (repeat [Exchange c] n).
Proof. induction n as [|n IH]; constructor; [right; reflexivity|exact IH]. Qed.

Lemma same_instant_exactly_one s c e n sched :
  clk c (store s) = Some e -> (now s <= exp e)%Z ->
  (exists i, In i sched /\ (i < n)%nat) ->
  trace_wins c (snd (run_sched s (repeat [Exchange c] n) sched)) = 1%nat.
Proof.
  intros L X [i [Hi Hn]].
  pose proof (same_instant_at_most_one s c n sched).
  pose proof (live_code_some_winner c e sched s _ (exchangers_repeat c n) L X
                (ex_intro _ i (conj Hi (nth_prog_repeat c n i Hn)))).
  lia.
Qed.

(* ---- admission-level view: presentations on the path of another topic ---- *)
Lemma is_win_view c o w x : is_win c o (view_out w x) = true -> is_win c o x = true.
Proof. destruct w; [|exact (fun H => H)]. destruct x; cbn; try (intros H; exact H). destruct o; discriminate. Qed.

Lemma admissions_le_wins c ops : forall s, (admissions c s ops <= wins c s (map snd ops))%nat.
Proof.
  induction ops as [|[w o] r IH]; intros s; [cbn; lia|].
  cbn [admissions wins map snd]. specialize (IH (fst (step s o))).
  destruct (is_win c o (view_out w (snd (step s o)))) eqn:V.
  - rewrite (is_win_view _ _ _ _ V). lia.
  - destruct (is_win c o (snd (step s o))); lia.
Qed.

Lemma admissions_at_most_once t l ops c : fresh (map snd ops) -> (admissions c (init t l) ops <= 1)%nat.
Proof.
  intros F. pose proof (admissions_le_wins c ops (init t l)). pose proof (exchange_at_most_once t l _ c F). lia.
Qed.

Lemma wrong_path_never_joins c o x : is_win c o (view_out true x) = false.
Proof. destruct x; destruct o; reflexivity. Qed.

(* a code that has been presented once - successfully or not, on whatever path - is dead *)
Lemma exchange_removes s c : clk c (store (fst (step s (Exchange c)))) = None.
Proof.
  cbn [step]. destruct (clk c (store s)) eqn:L; sim; [apply lookup_remove_eq; exact E|exact L].
Qed.

Lemma presented_code_dead t0 life ops1 c ops2 :
  submits c ops2 = 0%nat ->
  snd (step (final (init t0 life) (ops1 ++ Exchange c :: ops2)) (Exchange c)) = ORefused.
Proof.
  intros H2. apply exchange_absent_refused. rewrite final_app, final_cons.
  apply gone_stays_gone; [apply inv_step, inv_final, inv_init|exact H2|apply exchange_removes].
Qed.

(* ---- a schedule is a history: every theorem about histories speaks about every interleaving ---- *)
Lemma run_sched_is_run sched : forall s progs,
  fst (run_sched s progs sched) = final s (trace_ops (snd (run_sched s progs sched))) /\
  map snd (snd (run_sched s progs sched)) = snd (run s (trace_ops (snd (run_sched s progs sched)))).
Proof.
  induction sched as [|i rest IH]; intros s progs; [split; reflexivity|].
  cbn [run_sched]. destruct (nth_prog progs i) as [[o progs']|]; [|apply IH].
  destruct (step s o) as [s1 x] eqn:Es. specialize (IH s1 progs').
  destruct (run_sched s1 progs' rest) as [s2 tr] eqn:Er. cbn [fst snd] in *.
  cbn [trace_ops map fst snd]. fold (trace_ops tr). rewrite final_cons. cbn [run]. rewrite Es. cbn [fst].
  destruct IH as [I1 I2]. split; [exact I1|].
  destruct (run s1 (trace_ops tr)) as [s3 xs]. cbn [snd] in *. rewrite I2. reflexivity.
Qed.

Lemma nth_prog_in progs : forall i o progs',
  nth_prog progs i = Some (o, progs') -> In o (concat progs) /\ incl (concat progs') (concat progs).
Proof.
  induction progs as [|p r IH]; intros i o progs' H; [destruct i; discriminate|].
  destruct i as [|j]; cbn [nth_prog] in H.
  - destruct p as [|o1 p1]; [discriminate|]. inversion H; subst. cbn [concat]. split; [left; reflexivity|].
    intros x Hx. right. exact Hx.
  - destruct (nth_prog r j) as [[o1 r1]|] eqn:N1; [|discriminate]. inversion H; subst.
    destruct (IH _ _ _ N1) as [Hin Hincl]. cbn [concat]. split; [apply in_or_app; right; exact Hin|].
    intros x Hx. apply in_app_or in Hx. apply in_or_app. destruct Hx as [Hx|Hx]; [left; exact Hx|right; apply Hincl; exact Hx].
Qed.

Lemma trace_ops_in sched : forall s progs o,
  In o (trace_ops (snd (run_sched s progs sched))) -> In o (concat progs).
Proof.
  induction sched as [|i rest IH]; intros s progs o H; [destruct H|].
  cbn [run_sched] in H. destruct (nth_prog progs i) as [[o1 progs']|] eqn:N1; [|eapply IH; exact H].
  destruct (step s o1) as [s1 x]. specialize (IH s1 progs' o).
  destruct (run_sched s1 progs' rest) as [s2 tr]. cbn [snd trace_ops map fst] in *.
  destruct (nth_prog_in _ _ _ _ N1) as [Hin Hincl].
  destruct H as [<-|H]; [exact Hin|apply Hincl, IH, H].
Qed.

(* ---- what is left after a run: explainable by the operations that completed ---- *)
Lemma win_then_gone c ops : forall s, Inv s -> submits c ops = 0%nat ->
  (1 <= wins c s ops)%nat -> clk c (store (final s ops)) = None.
Proof.
  induction ops as [|o r IH]; intros s I Hs Hw; [cbn in Hw; lia|].
  apply submits_zero_cons in Hs. destruct Hs as [Ho Hr]. cbn [wins] in Hw. rewrite final_cons.
  destruct (is_win c o (snd (step s o))) eqn:W.
  - destruct o as [c' t b|c'| |b|dt|]; cbn [is_win] in W; try discriminate.
    destruct (snd (step s (Exchange c'))); try discriminate. apply N.eqb_eq in W. subst c'.
    apply gone_stays_gone; [apply inv_step; exact I|exact Hr|apply exchange_removes].
  - apply IH; [apply inv_step; exact I|exact Hr|lia].
Qed.

Lemma purged_stays_purged ops : forall s b, Inv s -> (forall c, submits c ops = 0%nat) -> In (Purge b) ops ->
  forall c e, clk c (store (final s ops)) = Some e -> bk e <> b.
Proof.
  intros s b I Hs Hin c e L. apply in_split in Hin. destruct Hin as [l1 [l2 ->]].
  rewrite final_app, final_cons in L.
  assert (H2 : submits c l2 = 0%nat).
  { specialize (Hs c). rewrite submits_app, submits_cons in Hs. cbn [is_submit] in Hs. lia. }
  set (s1 := final s l1) in *. assert (I1 : Inv s1) by (apply inv_final; exact I).
  destruct (lookup_final_stable (fst (step s1 (Purge b))) l2 c (inv_step _ _ I1) H2) as [Hn|He]; [congruence|].
  rewrite He in L. eapply purge_kills_booking; [exact I1|exact L].
Qed.

Lemma spared_kept c e ops : forall s, Inv s -> clk c (store s) = Some e -> (now s <= exp e)%Z ->
  forallb (spares c e) ops = true -> clk c (store (final s ops)) = Some e /\ now (final s ops) = now s.
Proof.
  induction ops as [|o r IH]; intros s I L X F; [split; [exact L|reflexivity]|].
  cbn [forallb] in F. apply andb_true_iff in F. destruct F as [Fo Fr]. rewrite final_cons.
  assert (clk c (store (fst (step s o))) = Some e /\ now (fst (step s o)) = now s) as [L1 N1].
  { destruct o as [c' t b|c'| |b|dt|]; cbn [spares] in Fo; try discriminate.
    - apply negb_true_iff, N.eqb_neq in Fo. split; [rewrite submit_frame by congruence; exact L|reflexivity].
    - apply negb_true_iff, N.eqb_neq in Fo. split; [rewrite exchange_frame by congruence; exact L|].
      cbn [step]. destruct (clk c' (store s)); reflexivity.
    - split; [apply sweep_frame; assumption|reflexivity].
    - apply negb_true_iff, N.eqb_neq in Fo. split; [|reflexivity].
      rewrite purge_frame; [exact L|exact I|]. intros e' L'. rewrite L in L'. inversion L'; subst. congruence.
    - split; [exact L|reflexivity]. }
  destruct (IH (fst (step s o)) (inv_step _ _ I) L1 ltac:(lia) Fr) as [L2 N2]. split; [exact L2|lia].
Qed.

(* every schedule of threads that exchange, purge, sweep and count (no thread issues codes): a code whose
   exchange succeeded is gone, no code of a purged booking is left, and a code nobody presented, of a
   booking nobody purged, is still there with its own entry *)
Lemma concurrent_final_state_consistent t0 life pre progs sched :
  let s := final (init t0 life) pre in
  let r := run_sched s progs sched in
  (forall c, submits c (concat progs) = 0%nat) ->
  (forall c, (1 <= trace_wins c (snd r))%nat -> clk c (store (fst r)) = None) /\
  (forall b, In (Purge b) (trace_ops (snd r)) -> forall c e, clk c (store (fst r)) = Some e -> bk e <> b) /\
  (forall c e, clk c (store s) = Some e -> (now s <= exp e)%Z -> forallb (spares c e) (concat progs) = true ->
     clk c (store (fst r)) = Some e).
Proof.
  intros s r Hs.
  assert (I : Inv s) by (apply inv_final, inv_init).
  destruct (run_sched_is_run sched s progs) as [Hf _]. fold r in Hf.
  assert (Hts : forall c, submits c (trace_ops (snd r)) = 0%nat).
  { intros c. pose proof (trace_submits_le c sched s progs). fold r in H. specialize (Hs c). lia. }
  split; [|split].
  - intros c Hw. rewrite Hf. apply win_then_gone; [exact I|apply Hts|].
    unfold r in *. rewrite <- trace_wins_is_wins. exact Hw.
  - intros b Hin c e L. rewrite Hf in L. eapply purged_stays_purged; [exact I|exact Hts|exact Hin|exact L].
  - intros c e L X F. rewrite Hf. apply (spared_kept c e); try assumption.
    apply forallb_forall. intros o Ho. apply (proj1 (forallb_forall _ _) F). eapply trace_ops_in. exact Ho.
Qed.
