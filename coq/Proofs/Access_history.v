(* History-level lemmas for C01: where codes and hub members come from, for every sequential history
   of the access / websocket-admission machine (induction over operation lists). *)
From Relay Require Import Base.Prelude Base.AList Model.DenyStore Model.Token Model.Access Proofs.Access_proofs.
Local Open Scope string_scope.
Local Open Scope list_scope.
Local Notation E := N.eqb_eq.

(* ------------------------------------------------------------------ lookups in the code store *)
Lemma clk_remove_some k k' (m : codemap) e : clk k (crm k' m) = Some e -> clk k m = Some e /\ k <> k'.
Proof.
  intros H. destruct (N.eq_dec k k') as [->|Hn].
  - rewrite lookup_remove_eq in H by exact E. discriminate.
  - rewrite lookup_remove_neq in H by (exact E || exact Hn). auto.
Qed.

Lemma clk_filterv_some p k (m : codemap) e :
  NoDup (keys m) -> clk k (filterv p m) = Some e -> clk k m = Some e /\ p k e = true.
Proof.
  intros Hn H. rewrite lookup_filterv in H by (exact E || exact Hn).
  destruct (clk k m) as [v|]; [|discriminate]. destruct (p k v) eqn:Hp; [|discriminate].
  inversion H; subst. auto.
Qed.

(* ------------------------------------------------------------------ what one request can do *)
Definition minted_by (cfg : config) (s : st) (r : request) (k : N) (e : entry) : Prop :=
  exists id b,
    r_route r = RSession id /\ r_cred r = Bearer b /\
    good_bearer (clock s) (cfg_host cfg) (cfg_secret cfg) b /\
    c_topic (b_claims b) = id /\
    (c_booking (b_claims b) = 0%N -> cfg_allow_empty cfg = true) /\
    denied s (c_booking (b_claims b)) = false /\
    e_topic e = id /\ e_prefix e = c_prefix (b_claims b) /\ e_scopes e = c_scopes (b_claims b) /\
    e_booking e = c_booking (b_claims b) /\ c_exp (b_claims b) = Some (e_exp e) /\
    e_aud e = cfg_target cfg /\ e_store_exp e = (clock s + cfg_ttl cfg)%Z /\
    k = next_code s /\
    snd (handle true cfg s r) = Resp 200 (BUri k).

Lemma handle_effect cfg s r :
  let s' := fst (handle true cfg s r) in
  s' = s \/
  (exists k e, minted_by cfg s r k e /\
     s' = mkstate (cins k e (codes s)) (do_allow (reg s) (e_booking e) (e_exp e)) (hub s) (N.succ (next_code s)) (next_conn s)) \/
  (exists bid e, s' = mkstate (purge_booking bid (codes s)) (do_deny (reg s) bid e) (drop_booking bid (hub s)) (next_code s) (next_conn s)) \/
  (exists bid e, s' = set_reg s (do_allow (reg s) bid e)).
Proof.
  cbn zeta. destruct (handle true cfg s r) as [s' x] eqn:H. cbn [fst].
  pose proof H as H0. unfold handle in H.
  destruct (r_route r) eqn:Hr; try (inversion H; left; reflexivity);
    destruct (validate_header (clock s) (cfg_host cfg) (cfg_secret cfg) (r_cred r)) as [| |c] eqn:Hv; try (inversion H; left; reflexivity).
  - apply session_step_cases in H.
    destruct H as [[_ ->]|(e & i & n & He & Hi & Hn & Ht & Hsc & Hp & Hid & Hb & Hd & Hm)]; [left; reflexivity|].
    right; left. unfold mint in Hm. inversion Hm as [[Hs' Hx]]. clear Hm.
    apply validate_header_principal in Hv. destruct Hv as (b & Hc & -> & Hsh & Hh & Hg & Htm & Ha).
    apply claims_time_ok_inv in Htm. destruct Htm as (T1 & T2 & T3).
    subst s' x.
    exists (next_code s), (mkentry id (c_prefix (b_claims b)) (c_scopes (b_claims b)) (c_booking (b_claims b)) (cfg_target cfg)
                                 i n e (clock s + cfg_ttl cfg)%Z).
    split; [|reflexivity].
    exists id, b. cbn [e_topic e_prefix e_scopes e_booking e_exp e_aud e_store_exp].
    repeat match goal with |- _ /\ _ => split end; auto.
    + unfold good_bearer. repeat match goal with |- _ /\ _ => split end; auto. exists e, i, n. auto 10.
    + rewrite H0. reflexivity.
  - destruct (bind_params r) as [[b e]|]; [|inversion H; left; reflexivity].
    apply deny_step_cases in H. destruct H as [[_ ->]|(_ & _ & _ & _ & ->)]; [left; reflexivity|].
    right; right; left. eauto.
  - destruct (bind_params r) as [[b e]|]; [|inversion H; left; reflexivity].
    apply allow_step_cases in H. destruct H as [[_ ->]|(_ & _ & _ & _ & ->)]; [left; reflexivity|].
    right; right; right. eauto.
  - apply (list_step_cases true) in H. destruct H as [-> _]; left; reflexivity.
  - apply (list_step_cases false) in H. destruct H as [-> _]; left; reflexivity.
  - apply status_step_cases in H. destruct H as [-> _]; left; reflexivity.
Qed.

(* ------------------------------------------------------------------ what one websocket attempt can do *)
Definition joined_by (cfg : config) (s : st) (path : string) (k : N) (ua : N) (e : entry) (m : member) : Prop :=
  clk k (codes s) = Some e /\
  prefix_of_path (slashify path) = "session" /\
  m_topic m = topic_of_path (slashify path) /\ m_topic m = e_topic e /\
  m_scopes m = e_scopes e /\ m_booking m = e_booking e /\ m_exp m = e_exp e /\ m_ua m = ua /\ m_conn m = next_conn s /\
  m_read m = str_mem "read" (e_scopes e) /\ m_write m = str_mem "write" (e_scopes e) /\
  (m_read m = true \/ m_write m = true) /\
  e_aud e = cfg_audience cfg /\ (e_nbf e <= clock s <= e_exp e)%Z /\ (clock s <= e_store_exp e)%Z /\
  denied s (e_booking e) = false.

Lemma ws_accept_cases cfg s path code ua :
  let s' := fst (ws_accept cfg s path code ua) in
  let w := snd (ws_accept cfg s path code ua) in
  ((w = WNotFound \/ w = WRefused) /\ hub s' = hub s /\ reg s' = reg s /\ next_code s' = next_code s /\ next_conn s' = next_conn s /\
   (codes s' = codes s \/ exists k, code = Some k /\ codes s' = crm k (codes s))) \/
  (exists k e m, code = Some k /\ w = WJoined m /\ joined_by cfg s path k ua e m /\
     s' = mkstate (crm k (codes s)) (reg s) (m :: hub s) (next_code s) (N.succ (next_conn s))).
Proof.
  cbn zeta. unfold ws_accept.
  destruct (prefix_of_path (slashify path) =? "session") eqn:Hp; cbn [negb]; [|left; cbn; auto 10].
  destruct code as [k|]; [|left; cbn; auto 10].
  destruct (clk k (codes s)) as [e|] eqn:Hk; [|left; cbn; auto 10].
  destruct (e_store_exp e <? clock s)%Z eqn:Hse; [left; cbn; eauto 12|].
  destruct (entry_complete e); cbn [negb]; [|left; cbn; eauto 12].
  destruct (clock s <? e_nbf e)%Z eqn:Hn; [left; cbn; eauto 12|].
  destruct (e_aud e =? cfg_audience cfg) eqn:Ha; cbn [negb]; [|left; cbn; eauto 12].
  destruct (topic_of_path (slashify path) =? e_topic e) eqn:Ht; cbn [negb]; [|left; cbn; eauto 12].
  destruct (e_exp e - clock s <? 0)%Z eqn:Hx; [left; cbn; eauto 12|].
  destruct (str_mem "read" (e_scopes e) || str_mem "write" (e_scopes e)) eqn:Hrw; cbn [negb]; [|left; cbn; eauto 12].
  destruct (denied s (e_booking e)) eqn:Hd; [left; cbn; eauto 12|].
  right. cbn [fst snd]. eexists k, e, _. split; [reflexivity|]. split; [reflexivity|]. split; [|reflexivity].
  apply String.eqb_eq in Hp, Ha, Ht. apply orb_true_iff in Hrw.
  unfold joined_by. cbn [m_topic m_scopes m_booking m_exp m_ua m_conn m_read m_write].
  repeat match goal with |- _ /\ _ => split end; auto; lia.
Qed.

(* ------------------------------------------------------------------ one step *)
Definition wf (s : st) : Prop := NoDup (keys (codes s)).

Lemma wf_init t : wf (init t).
Proof. constructor. Qed.

Lemma step_wf_core cfg s o : (forall r, o <> OFaultedReq r) -> wf s -> wf (fst (step cfg s o)).
Proof.
  unfold wf. intros Hnf Hw. destruct o as [r|path code ua|c|t| | | |fr]; unfold step, step_gen.
  - pose proof (handle_effect cfg s r) as H. cbn zeta in H. destruct (handle true cfg s r) as [s' x]. cbn [fst] in *.
    destruct H as [->|[(k & e & _ & ->)|[(bid & e & ->)|(bid & e & ->)]]]; cbn [codes set_reg]; auto.
    + apply nodup_insert; [exact E|exact Hw].
    + apply nodup_filterv; exact Hw.
  - pose proof (ws_accept_cases cfg s path code ua) as H. cbn zeta in H.
    destruct (ws_accept cfg s path code ua) as [s' w]. cbn [fst snd] in *.
    destruct H as [(_ & _ & _ & _ & _ & [->|(k & _ & ->)])|(k & e & m & _ & _ & _ & ->)]; cbn [codes]; auto;
      apply nodup_remove; exact Hw.
  - exact Hw.
  - exact Hw.
  - cbn [fst sweep set_codes codes]. apply nodup_filterv; exact Hw.
  - exact Hw.
  - exact Hw.
  - exfalso; eapply Hnf; reflexivity.
Qed.

(* an entry present after a step was there before, or this step minted it *)
Lemma step_codes_core cfg s o k e :
  (forall r, o <> OFaultedReq r) -> wf s -> clk k (codes (fst (step cfg s o))) = Some e ->
  clk k (codes s) = Some e \/ exists r, o = OReq r /\ minted_by cfg s r k e.
Proof.
  unfold wf. intros Hnf Hw. destruct o as [r|path code ua|c|t| | | |fr]; unfold step, step_gen.
  - pose proof (handle_effect cfg s r) as H. cbn zeta in H. destruct (handle true cfg s r) as [s' x]. cbn [fst] in *.
    destruct H as [->|[(k0 & e0 & Hm & ->)|[(bid & e0 & ->)|(bid & e0 & ->)]]]; cbn [codes set_reg]; auto.
    + intros H. destruct (N.eq_dec k k0) as [->|Hn].
      * rewrite lookup_insert_eq in H by exact E. inversion H; subst. right. exists r; auto.
      * rewrite lookup_insert_neq in H by (exact E || exact Hn). left; exact H.
    + intros H. apply clk_filterv_some in H; [left; apply H|exact Hw].
  - pose proof (ws_accept_cases cfg s path code ua) as H. cbn zeta in H.
    destruct (ws_accept cfg s path code ua) as [s' w]. cbn [fst snd] in *.
    destruct H as [(_ & _ & _ & _ & _ & [->|(k0 & _ & ->)])|(k0 & e0 & m & _ & _ & _ & ->)]; cbn [codes]; auto;
      intros H; apply clk_remove_some in H; left; apply H.
  - cbn; auto.
  - cbn; auto.
  - cbn [fst sweep set_codes codes]. intros H. apply clk_filterv_some in H; [left; apply H|exact Hw].
  - cbn; auto.
  - cbn; auto.
  - exfalso; eapply Hnf; reflexivity.
Qed.

(* a member present after a step was there before, or this step joined it *)
Lemma step_hub_core cfg s o m :
  (forall r, o <> OFaultedReq r) ->
  In m (hub (fst (step cfg s o))) ->
  In m (hub s) \/ exists path k ua e, o = OWs path (Some k) ua /\ joined_by cfg s path k ua e m /\
                                      snd (step cfg s o) = OutWs (WJoined m).
Proof.
  intros Hnf. destruct o as [r|path code ua|c|t| | | |fr]; unfold step, step_gen.
  - pose proof (handle_effect cfg s r) as H. cbn zeta in H. destruct (handle true cfg s r) as [s' x]. cbn [fst] in *.
    destruct H as [->|[(k0 & e0 & Hm & ->)|[(bid & e0 & ->)|(bid & e0 & ->)]]]; cbn [hub set_reg]; auto.
    unfold drop_booking. intros H. apply filter_In in H. left; apply H.
  - pose proof (ws_accept_cases cfg s path code ua) as H. cbn zeta in H.
    destruct (ws_accept cfg s path code ua) as [s' w]. cbn [fst snd] in *.
    destruct H as [(_ & -> & _)|(k0 & e0 & m0 & -> & -> & Hj & ->)]; auto.
    cbn [hub]. intros [<-|H]; [|left; exact H]. right. exists path, k0, ua, e0. auto.
  - cbn [fst set_hub hub]. intros H. apply filter_In in H. left; apply H.
  - cbn; auto.
  - cbn; auto.
  - cbn; auto.
  - cbn [fst set_hub hub]. intros H. apply filter_In in H. left; apply H.
  - exfalso; eapply Hnf; reflexivity.
Qed.

(* the request during which the random source fails: either it minted nothing anyway and behaves as the plain
   request, or its only trace is the register written before the fault *)
Lemma faulted_step cfg s r :
  (fst (step cfg s (OFaultedReq r)) = fst (step cfg s (OReq r)) /\
   forall st k, snd (handle true cfg s r) <> Resp st (BUri k)) \/
  (exists rg, fst (step cfg s (OFaultedReq r)) = set_reg s rg).
Proof.
  unfold step, step_gen. destruct (handle true cfg s r) as [s' x]. cbn [fst snd].
  destruct x as [st b|]; [destruct b|]; cbn [fst]; try (left; split; [reflexivity|intros st' k' H; discriminate H]).
  right. eauto.
Qed.

Lemma not_faulted_req r : forall r', OReq r <> OFaultedReq r'.
Proof. intros r' H; discriminate H. Qed.

Lemma step_wf cfg s o : wf s -> wf (fst (step cfg s o)).
Proof.
  intros Hw. destruct o as [r|path code ua|c|t| | | |fr]; try (apply step_wf_core; [intros r' H; discriminate H|exact Hw]).
  destruct (faulted_step cfg s fr) as [[-> _]|[rg ->]]; [apply step_wf_core; [apply not_faulted_req|exact Hw]|exact Hw].
Qed.

Lemma step_codes cfg s o k e :
  wf s -> clk k (codes (fst (step cfg s o))) = Some e ->
  clk k (codes s) = Some e \/ exists r, o = OReq r /\ minted_by cfg s r k e.
Proof.
  intros Hw. destruct o as [r|path code ua|c|t| | | |fr]; try (apply step_codes_core; [intros r' H; discriminate H|exact Hw]).
  destruct (faulted_step cfg s fr) as [[-> Hnb]|[rg ->]]; [|cbn; auto].
  intros H. apply step_codes_core in H; [|apply not_faulted_req|exact Hw].
  destruct H as [H|(r' & Hr & Hm)]; [left; exact H|exfalso]. inversion Hr; subst r'.
  destruct Hm as (id & b & Hm). eapply Hnb. apply Hm.
Qed.

Lemma step_hub cfg s o m :
  In m (hub (fst (step cfg s o))) ->
  In m (hub s) \/ exists path k ua e, o = OWs path (Some k) ua /\ joined_by cfg s path k ua e m /\
                                      snd (step cfg s o) = OutWs (WJoined m).
Proof.
  destruct o as [r|path code ua|c|t| | | |fr]; try (apply step_hub_core; intros r' H; discriminate H).
  destruct (faulted_step cfg s fr) as [[-> _]|[rg ->]]; [|cbn; auto].
  intros H. apply step_hub_core in H; [|apply not_faulted_req].
  destruct H as [H|(path & k & ua & e & Ho & _)]; [left; exact H|discriminate Ho].
Qed.


(* ------------------------------------------------------------------ histories *)
Lemma final_snoc cfg s ops o : final cfg s (ops ++ [o]) = fst (step cfg (final cfg s ops) o).
Proof. unfold final. rewrite fold_left_app. reflexivity. Qed.

Lemma final_wf cfg s ops : wf s -> wf (final cfg s ops).
Proof.
  intros Hw. induction ops as [|o ops IH] using rev_ind; [exact Hw|].
  rewrite final_snoc. apply step_wf; exact IH.
Qed.

Definition reach (cfg : config) (t : Z) (ops : list op) : st := final cfg (init t) ops.

(* the code k with entry e was minted at some point of the history ops *)
Definition minted (cfg : config) (t : Z) (ops : list op) (k : N) (e : entry) : Prop :=
  exists ops1 r ops2, ops = ops1 ++ OReq r :: ops2 /\ minted_by cfg (reach cfg t ops1) r k e.

Lemma minted_extend cfg t ops o k e : minted cfg t ops k e -> minted cfg t (ops ++ [o]) k e.
Proof.
  intros (a & r & b & -> & H). exists a, r, (b ++ [o]). split; [|exact H].
  rewrite <- app_assoc. reflexivity.
Qed.

Theorem code_provenance cfg t ops k e :
  clk k (codes (reach cfg t ops)) = Some e -> minted cfg t ops k e.
Proof.
  unfold reach. induction ops as [|o ops IH] using rev_ind.
  - cbn. discriminate.
  - rewrite final_snoc. intros H.
    apply step_codes in H; [|apply final_wf; apply wf_init].
    destruct H as [H|(r & -> & Hm)].
    + apply minted_extend. apply IH; exact H.
    + exists ops, r, []. split; [reflexivity|exact Hm].
Qed.

(* the member m joined at some point of the history, consuming a live code that had been minted before *)
Definition joined (cfg : config) (t : Z) (ops : list op) (m : member) : Prop :=
  exists ops1 path k ua ops2 e,
    ops = ops1 ++ OWs path (Some k) ua :: ops2 /\
    joined_by cfg (reach cfg t ops1) path k ua e m /\
    snd (step cfg (reach cfg t ops1) (OWs path (Some k) ua)) = OutWs (WJoined m) /\
    minted cfg t ops1 k e.

Lemma joined_extend cfg t ops o m : joined cfg t ops m -> joined cfg t (ops ++ [o]) m.
Proof.
  intros (a & path & k & ua & b & e & -> & H). exists a, path, k, ua, (b ++ [o]), e. split; [|exact H].
  rewrite <- app_assoc. reflexivity.
Qed.

Theorem join_sound cfg t ops m : In m (hub (reach cfg t ops)) -> joined cfg t ops m.
Proof.
  unfold reach. induction ops as [|o ops IH] using rev_ind.
  - cbn. intros [].
  - rewrite final_snoc. intros H. apply step_hub in H.
    destruct H as [H|(path & k & ua & e & -> & Hj & Hs)].
    + apply joined_extend. apply IH; exact H.
    + exists ops, path, k, ua, [], e. split; [reflexivity|]. split; [exact Hj|]. split; [exact Hs|].
      apply code_provenance. apply Hj.
Qed.

(* ------------------------------------------------------------------ no code, no join *)
Lemma no_code_no_join cfg s path code ua :
  code = None \/
  (exists k, code = Some k /\ clk k (codes s) = None) \/
  (exists k e, code = Some k /\ clk k (codes s) = Some e /\ e_topic e <> topic_of_path (slashify path)) \/
  prefix_of_path (slashify path) <> "session" ->
  let s' := fst (ws_accept cfg s path code ua) in
  let w := snd (ws_accept cfg s path code ua) in
  (w = WNotFound \/ w = WRefused) /\ hub s' = hub s /\ reg s' = reg s /\
  (forall c, snd (status_step true s' c) = snd (status_step true s c)).
Proof.
  intros Hc. cbn zeta.
  pose proof (ws_accept_cases cfg s path code ua) as H. cbn zeta in H.
  destruct H as [(Hw & Hh & Hr & _)|(k & e & m & -> & _ & Hj & _)].
  - repeat split; auto. intros c. unfold status_step. rewrite Hh.
    destruct (has_scope true "relay:stats" c) as [|[|]]; reflexivity.
  - exfalso. destruct Hj as (Hk & Hp & Ht & Hte & _).
    destruct Hc as [Hc|[(k' & Hc & Hn)|[(k' & e' & Hc & Hk' & Hne)|Hc]]]; try discriminate; try contradiction.
    + inversion Hc; subst. congruence.
    + inversion Hc; subst. rewrite Hk in Hk'. inversion Hk'; subst. congruence.
Qed.

(* a joined connection is bound to exactly the topic of its path, which is exactly the token's topic *)
Lemma topic_of_path_exact cfg s path code ua m :
  snd (ws_accept cfg s path code ua) = WJoined m ->
  exists k e, code = Some k /\ clk k (codes s) = Some e /\
              m_topic m = topic_of_path (slashify path) /\ m_topic m = e_topic e /\
              m_scopes m = e_scopes e /\ m_booking m = e_booking e /\ m_exp m = e_exp e /\
              prefix_of_path (slashify path) = "session".
Proof.
  intros Hw. pose proof (ws_accept_cases cfg s path code ua) as H. cbn zeta in H.
  destruct H as [([H|H] & _)|(k & e & m' & -> & Hw' & Hj & _)]; try congruence.
  rewrite Hw in Hw'. inversion Hw'; subst m'. exists k, e.
  destruct Hj as (Hk & Hp & Ht & Hte & Hsc & Hb & Hx & _). auto 10.
Qed.

(* a code is spent by the attempt that presents it, whatever the outcome *)
Lemma code_spent cfg s path k ua :
  prefix_of_path (slashify path) = "session" ->
  clk k (codes (fst (ws_accept cfg s path (Some k) ua))) = None.
Proof.
  intros Hp. unfold ws_accept. rewrite Hp. rewrite String.eqb_refl. cbn [negb].
  destruct (clk k (codes s)) as [e|] eqn:Hk; [|cbn; exact Hk].
  assert (R : clk k (crm k (codes s)) = None) by (apply lookup_remove_eq; exact E).
  repeat match goal with |- context [if ?c then _ else _] => destruct c end; cbn; exact R.
Qed.

(* ------------------------------------------------------------------ a spent code stays dead *)
Lemma step_next_code cfg s o : (next_code s <= next_code (fst (step cfg s o)))%N.
Proof.
  destruct o as [r|path code ua|c|t| | | |fr]; unfold step, step_gen; try (cbn; lia).
  - pose proof (handle_effect cfg s r) as H. cbn zeta in H. destruct (handle true cfg s r) as [s' x]. cbn [fst] in *.
    destruct H as [->|[(k & e & _ & ->)|[(bid & e & ->)|(bid & e & ->)]]]; cbn; lia.
  - pose proof (ws_accept_cases cfg s path code ua) as H. cbn zeta in H.
    destruct (ws_accept cfg s path code ua) as [s' w]. cbn [fst snd] in *.
    destruct H as [(_ & _ & _ & -> & _)|(k & e & m & _ & _ & _ & ->)]; cbn; lia.
  - pose proof (handle_effect cfg s fr) as H. cbn zeta in H. destruct (handle true cfg s fr) as [s' x]. cbn [fst] in *.
    destruct x as [st b|]; [destruct b|]; cbn [fst set_reg next_code]; try lia;
      destruct H as [->|[(k & e & _ & ->)|[(bid & e & ->)|(bid & e & ->)]]]; cbn; lia.
Qed.

Lemma step_keeps_dead cfg s o k :
  wf s -> (k < next_code s)%N -> clk k (codes s) = None -> clk k (codes (fst (step cfg s o))) = None.
Proof.
  intros Hw Hlt Hn. destruct (clk k (codes (fst (step cfg s o)))) as [e|] eqn:H; [|reflexivity].
  apply step_codes in H; [|exact Hw]. destruct H as [H|(r & _ & Hm)]; [congruence|].
  destruct Hm as (id & b & Hm). assert (k = next_code s) by apply Hm. lia.
Qed.

Lemma spent_code_stays_dead cfg s k ops :
  wf s -> (k < next_code s)%N -> clk k (codes s) = None -> clk k (codes (final cfg s ops)) = None.
Proof.
  intros Hw Hlt Hn. induction ops as [|o ops IH] using rev_ind; [exact Hn|].
  rewrite final_snoc. apply step_keeps_dead; [apply final_wf; exact Hw| |exact IH].
  clear IH. induction ops as [|o' ops IH] using rev_ind; [exact Hlt|].
  rewrite final_snoc. eapply N.lt_le_trans; [exact IH|apply step_next_code].
Qed.

(* once a code has been presented on a session path, no later attempt with it joins, in any continuation *)
Lemma reused_code_never_joins cfg t ops1 path k ua ops2 path' ua' :
  (k < next_code (reach cfg t ops1))%N ->
  prefix_of_path (slashify path) = "session" ->
  let s := reach cfg t (ops1 ++ OWs path (Some k) ua :: ops2) in
  snd (ws_accept cfg s path' (Some k) ua') = WNotFound \/ snd (ws_accept cfg s path' (Some k) ua') = WRefused.
Proof.
  intros Hlt Hp. cbn zeta. unfold reach.
  replace (ops1 ++ OWs path (Some k) ua :: ops2) with ((ops1 ++ [OWs path (Some k) ua]) ++ ops2)
    by (rewrite <- app_assoc; reflexivity).
  assert (Happ : forall a b, final cfg (init t) (a ++ b) = final cfg (final cfg (init t) a) b)
    by (intros a b; unfold final; apply fold_left_app).
  rewrite Happ, final_snoc.
  set (s1 := final cfg (init t) ops1) in *.
  set (s2 := fst (step cfg s1 (OWs path (Some k) ua))).
  assert (Hw2 : wf s2) by (apply step_wf; apply final_wf; apply wf_init).
  assert (Hd : clk k (codes s2) = None).
  { unfold s2, step, step_gen. pose proof (code_spent cfg s1 path k ua Hp) as H.
    destruct (ws_accept cfg s1 path (Some k) ua); exact H. }
  assert (Hl : (k < next_code s2)%N) by (eapply N.lt_le_trans; [exact Hlt|apply step_next_code]).
  pose proof (spent_code_stays_dead cfg s2 k ops2 Hw2 Hl Hd) as Hdead.
  assert (Hc : Some k = None \/ (exists k0, Some k = Some k0 /\ clk k0 (codes (final cfg s2 ops2)) = None) \/
               (exists k0 e, Some k = Some k0 /\ clk k0 (codes (final cfg s2 ops2)) = Some e /\
                             e_topic e <> topic_of_path (slashify path')) \/
               prefix_of_path (slashify path') <> "session")
    by (right; left; exists k; auto).
  pose proof (no_code_no_join cfg (final cfg s2 ops2) path' (Some k) ua' Hc) as H. cbn zeta in H. destruct H as [H _]. exact H.
Qed.

(* ------------------------------------------------------------------ runs never fault *)
Definition no_fault (ops : list op) : Prop := forall r, ~ In (OFaultedReq r) ops.

Lemma run_outputs cfg s ops x :
  In x (snd (run cfg s ops)) -> exists s1 o, In o ops /\ x = snd (step cfg s1 o).
Proof.
  revert s. induction ops as [|o ops IH]; intros s; [cbn; intros []|].
  unfold run. cbn [run_gen]. fold (step cfg s o).
  destruct (step cfg s o) as [s1 y] eqn:Hs. fold (run cfg s1 ops).
  destruct (run cfg s1 ops) as [s2 ys] eqn:Hr. cbn [snd]. intros [<-|Hin].
  - exists s, o. split; [left; reflexivity|]. rewrite Hs. reflexivity.
  - destruct (IH s1) as (s' & o' & Ho & Hx); [rewrite Hr; exact Hin|]. exists s', o'. split; [right; exact Ho|exact Hx].
Qed.

(* as long as the environment does not fail (no entropy fault), no request of any history goes unanswered *)
Lemma run_never_faults cfg s ops : no_fault ops -> ~ In (OutResp Panic) (snd (run cfg s ops)).
Proof.
  intros Hnf H. apply run_outputs in H. destruct H as (s1 & o & Ho & H).
  destruct o as [r|path code ua|c|t| | | |fr]; unfold step, step_gen in H; try (cbn in H; discriminate).
  - pose proof (handle_answers cfg s1 r) as Ha. destruct (handle true cfg s1 r) as [s' x]. cbn [snd] in *.
    inversion H; subst; contradiction.
  - destruct (ws_accept cfg s1 path code ua); cbn in H; discriminate.
  - exfalso. eapply Hnf; exact Ho.
Qed.

(* ------------------------------------------------------------------ path grammar: a plain topic is read back exactly *)
Fixpoint all_chars (p : ascii -> bool) (s : string) : bool :=
  match s with EmptyString => true | String a r => p a && all_chars p r end.

Lemma take_while_all p s : all_chars p s = true -> take_while p s = s.
Proof.
  induction s as [|a r IH]; cbn; [reflexivity|]. rewrite andb_true_iff. intros [Ha Hr]. rewrite Ha, IH; auto.
Qed.

Lemma topic_chars p : all_chars cls_topic (topic_of_path p) = true.
Proof.
  assert (G : forall s, all_chars cls_topic (take_while cls_topic s) = true).
  { induction s as [|a r IH]; cbn; [reflexivity|]. destruct (cls_topic a) eqn:Ha; cbn; [rewrite Ha, IH|]; reflexivity. }
  unfold topic_of_path. destruct p as [|a r]; [reflexivity|]. destruct (is_slash a); [|reflexivity].
  destruct (drop_while cls_prefix r) as [|b t]; [reflexivity|]. destruct (is_slash b); [apply G|reflexivity].
Qed.

(* a plain topic (characters of the second class, not ending in a slash) is read back exactly from the
   canonical path and from its spellings without the leading or with a trailing slash *)
Local Close Scope list_scope.
Fixpoint ends_with_slash (s : string) : bool :=
  match s with
  | EmptyString => false
  | String a r => match r with EmptyString => is_slash a | _ => ends_with_slash r end
  end.

Lemma trim_suffix_no_slash s : ends_with_slash s = false -> trim_suffix_slash s = s.
Proof.
  induction s as [|a r IH]; [reflexivity|]. cbn [ends_with_slash trim_suffix_slash].
  destruct r as [|b r']; [intros ->; reflexivity|]. intros H. rewrite (IH H). reflexivity.
Qed.

Lemma trim_suffix_app a t : t <> "" -> trim_suffix_slash (a ++ t) = a ++ trim_suffix_slash t.
Proof.
  intros Ht. induction a as [|c a IH]; [reflexivity|].
  cbn [append trim_suffix_slash]. rewrite IH.
  destruct (a ++ t) eqn:E; [|reflexivity].
  destruct a; cbn in E; [contradiction|discriminate].
Qed.

Lemma plain_topic_roundtrip t :
  t <> "" -> all_chars cls_topic t = true -> ends_with_slash t = false ->
  prefix_of_path (slashify ("/session/" ++ t)) = "session" /\
  topic_of_path (slashify ("/session/" ++ t)) = t /\
  prefix_of_path (slashify ("session/" ++ t)) = "session" /\
  topic_of_path (slashify ("session/" ++ t ++ "/")) = t.
Proof.
  intros Hne Hall Hend.
  assert (S1 : slashify ("/session/" ++ t) = "/session/" ++ t).
  { unfold slashify. rewrite trim_suffix_app by exact Hne. rewrite trim_suffix_no_slash by exact Hend. reflexivity. }
  assert (S2 : slashify ("session/" ++ t) = "/session/" ++ t).
  { unfold slashify. rewrite trim_suffix_app by exact Hne. rewrite trim_suffix_no_slash by exact Hend. reflexivity. }
  assert (S3 : slashify ("session/" ++ t ++ "/") = "/session/" ++ t).
  { unfold slashify. rewrite trim_suffix_app by (destruct t; discriminate).
    assert (G : forall u, u <> "" -> trim_suffix_slash (u ++ "/") = u).
    { induction u as [|c u IH]; [contradiction|]. intros _. cbn [append trim_suffix_slash].
      destruct u as [|d u']; [reflexivity|]. cbn [append]. cbn [append] in IH. rewrite IH by discriminate. reflexivity. }
    rewrite G by exact Hne. reflexivity. }
  rewrite S1, S2, S3. cbn. rewrite (take_while_all _ _ Hall). auto.
Qed.

Local Open Scope list_scope.

Lemma refused_then_next cfg s r o :
  refusal (snd (handle true cfg s r)) -> step cfg (fst (step cfg s (OReq r))) o = step cfg s o.
Proof.
  intros H. apply handle_refusal_frame in H. unfold step at 2. unfold step_gen.
  destruct (handle true cfg s r) as [s' x]. cbn [fst] in *. subst s'. reflexivity.
Qed.

(* ------------------------------------------------------------------ what a join requires at admission time *)
Lemma join_requires cfg s path code ua m :
  snd (ws_accept cfg s path code ua) = WJoined m ->
  exists k e, code = Some k /\ joined_by cfg s path k ua e m.
Proof.
  intros Hw. pose proof (ws_accept_cases cfg s path code ua) as H. cbn zeta in H.
  destruct H as [([H|H] & _)|(k & e & m' & -> & Hw' & Hj & _)]; try congruence.
  rewrite Hw in Hw'. inversion Hw'; subst m'. exists k, e. auto.
Qed.

(* a live code whose store lifetime has run out, whose token has expired or is not valid yet, whose booking is
   denied, whose audience is not the relay's or whose scopes hold neither read nor write: refused, nobody joins *)
Lemma ws_unfit_refused cfg s path k ua e :
  clk k (codes s) = Some e ->
  (e_store_exp e < clock s)%Z \/ (e_exp e < clock s)%Z \/ (clock s < e_nbf e)%Z \/ denied s (e_booking e) = true \/
  e_aud e <> cfg_audience cfg \/ (str_mem "read" (e_scopes e) = false /\ str_mem "write" (e_scopes e) = false) ->
  (snd (ws_accept cfg s path (Some k) ua) = WNotFound \/ snd (ws_accept cfg s path (Some k) ua) = WRefused) /\
  hub (fst (ws_accept cfg s path (Some k) ua)) = hub s.
Proof.
  intros Hk Hbad. pose proof (ws_accept_cases cfg s path (Some k) ua) as H. cbn zeta in H.
  destruct H as [(Hw & Hh & _)|(k' & e' & m & Hc & _ & Hj & _)]; [auto|exfalso].
  inversion Hc; subst k'. destruct Hj as (Hk' & _ & _ & _ & _ & _ & _ & _ & _ & Hr & Hwr & Hrw & Ha & Ht & Hs & Hd).
  rewrite Hk in Hk'. inversion Hk'; subst e'.
  destruct Hbad as [B|[B|[B|[B|[B|[B1 B2]]]]]]; try lia; try congruence.
Qed.

(* ------------------------------------------------------------------ bound to the token's expiry *)
(* once the due expiry timers have fired, nobody whose token expired more than a second ago is a member *)
Lemma timers_end_expired cfg s m :
  In m (hub (fst (step cfg s OTimers))) -> In m (hub s) /\ (clock s <= m_exp m + 1)%Z.
Proof.
  unfold step, step_gen. cbn [fst set_hub hub]. intros H. apply filter_In in H. destruct H as [Hin Hc].
  split; [exact Hin|]. lia.
Qed.

(* and the expiry a member carries is, through every history, the exp of the bearer its code was minted for *)
Lemma member_expiry_is_the_tokens cfg t ops m :
  In m (hub (reach cfg t ops)) ->
  exists ops1 r ops2 b, ops = ops1 ++ OReq r :: ops2 /\ r_cred r = Bearer b /\ c_exp (b_claims b) = Some (m_exp m) /\
                        good_bearer (clock (reach cfg t ops1)) (cfg_host cfg) (cfg_secret cfg) b.
Proof.
  intros H. apply join_sound in H. destruct H as (o1 & path & k & ua & o2 & e & -> & Hj & _ & Hm).
  destruct Hm as (a & r & b0 & -> & id & b & _ & Hc & Hg & _ & _ & _ & _ & _ & _ & _ & He & _).
  destruct Hj as (_ & _ & _ & _ & _ & _ & Hx & _).
  exists a, r, (b0 ++ OWs path (Some k) ua :: o2), b. split; [rewrite <- app_assoc; reflexivity|].
  split; [exact Hc|]. split; [rewrite Hx; exact He|exact Hg].
Qed.

(* ------------------------------------------------------------------ an entropy failure mints nothing *)
Lemma faulted_mints_nothing cfg t ops r :
  let s := reach cfg t ops in
  let s' := fst (step cfg s (OFaultedReq r)) in
  (forall k e, clk k (codes s') = Some e -> clk k (codes s) = Some e) /\
  (forall m, In m (hub s') -> In m (hub s)) /\
  (forall st k, snd (step cfg s (OFaultedReq r)) <> OutResp (Resp st (BUri k))).
Proof.
  cbn zeta. set (s := reach cfg t ops).
  assert (Hw : wf s) by (apply final_wf; apply wf_init).
  split; [|split].
  - intros k e H. apply step_codes in H; [|exact Hw]. destruct H as [H|(r' & Hr & _)]; [exact H|discriminate Hr].
  - intros m H. apply step_hub in H. destruct H as [H|(path & k & ua & e & Ho & _)]; [exact H|discriminate Ho].
  - intros st k. unfold step, step_gen. destruct (handle true cfg s r) as [s' x].
    destruct x as [st' b|]; [destruct b|]; cbn [snd]; intros H; inversion H.
Qed.
