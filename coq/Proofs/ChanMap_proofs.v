(* chanmap (C08): every sequence of operations whose Adds use fresh child names and channels runs
   without a panic, never closes a channel twice, and keeps the two maps mutually consistent. *)
From Relay Require Import Base.Prelude Base.AList Model.ChanMap.

Local Notation E := N.eqb_eq.

(* ---- association-list facts used below ---- *)
Lemma lookup_in {V} (m : alist N V) k v : lookup N.eqb k m = Some v -> In (k, v) m.
Proof.
  induction m as [|[k' v'] r IH]; cbn; [discriminate|].
  destruct (N.eqb_spec k k') as [->|Hn]; intros H; [inversion H; left; reflexivity|right; apply IH; exact H].
Qed.

Lemma in_lookup {V} (m : alist N V) k v : NoDup (keys m) -> In (k, v) m -> lookup N.eqb k m = Some v.
Proof.
  induction m as [|[k' v'] r IH]; cbn; intros Hnd Hin; [destruct Hin|].
  inversion Hnd as [|? ? Hk Hr]; subst.
  destruct Hin as [Heq|Hin].
  - inversion Heq; subst. rewrite N.eqb_refl. reflexivity.
  - destruct (N.eqb_spec k k') as [->|Hn]; [|apply IH; assumption].
    exfalso; apply Hk. unfold keys. apply in_map_iff. exists (k', v). split; [reflexivity|exact Hin].
Qed.

Lemma lookup_some_in_keys {V} (m : alist N V) k v : lookup N.eqb k m = Some v -> In k (keys m).
Proof. intros H. apply (in_keys_lookup N.eqb E). congruence. Qed.

Lemma in_keys_lookup_some {V} (m : alist N V) k : In k (keys m) -> exists v, lookup N.eqb k m = Some v.
Proof.
  intros H. apply (in_keys_lookup N.eqb E) in H. destruct (lookup N.eqb k m) as [v|]; [exists v; reflexivity|congruence].
Qed.

Lemma memN_true x l : memN x l = true <-> In x l.
Proof.
  unfold memN. rewrite existsb_exists. split.
  - intros [y [Hy Hxy]]. apply N.eqb_eq in Hxy. subst. exact Hy.
  - intros H. exists x. split; [exact H|apply N.eqb_refl].
Qed.

Lemma memN_false x l : memN x l = false <-> ~ In x l.
Proof. rewrite <- memN_true. destruct (memN x l); split; congruence. Qed.

(* forgetting the children of a deleted parent in ParentByChild *)
Definition forget (m : list (N * N)) (pb : alist N N) : alist N N :=
  fold_left (fun pb kv => mrm (fst kv) pb) m pb.

Lemma forget_none m : forall pb c, mlk c pb = None -> mlk c (forget m pb) = None.
Proof.
  induction m as [|[k v] r IH]; intros pb c H0; [exact H0|].
  cbn [forget fold_left fst]. fold (forget r (mrm k pb)). apply IH.
  destruct (N.eq_dec c k) as [->|Hn]; [apply lookup_remove_eq; exact E|].
  rewrite lookup_remove_neq by (exact E || exact Hn). exact H0.
Qed.

Lemma forget_in m : forall pb c, In c (keys m) -> mlk c (forget m pb) = None.
Proof.
  induction m as [|[k v] r IH]; intros pb c H; [destruct H|].
  cbn [forget fold_left fst]. fold (forget r (mrm k pb)).
  destruct H as [H|H].
  - cbn in H. subst k. apply forget_none. apply lookup_remove_eq; exact E.
  - apply IH; exact H.
Qed.

Lemma forget_notin m : forall pb c, ~ In c (keys m) -> mlk c (forget m pb) = mlk c pb.
Proof.
  induction m as [|[k v] r IH]; intros pb c H; [reflexivity|].
  cbn [forget fold_left fst]. fold (forget r (mrm k pb)).
  rewrite IH by (intros X; apply H; right; exact X).
  apply lookup_remove_neq; [exact E|]. intros ->. apply H. left. reflexivity.
Qed.

Lemma del_loop_spec close m : forall pb cl,
  NoDup (map snd m) -> (forall ch, In ch (map snd m) -> ~ In ch cl) ->
  exists cl', del_loop close m pb cl = Some (forget m pb, cl') /\
    (forall x, In x cl' <-> (close = true /\ In x (map snd m)) \/ In x cl) /\
    (NoDup cl -> NoDup cl').
Proof.
  induction m as [|[c ch] r IH]; intros pb cl Hnd Hdis.
  - exists cl. cbn. split; [reflexivity|]. split; [|tauto]. intros x. tauto.
  - cbn [map snd] in Hnd. inversion Hnd as [|? ? Hch Hr]; subst.
    cbn [del_loop]. destruct close.
    + unfold close_chan. assert (memN ch cl = false) as Hm.
      { apply memN_false. apply Hdis. left. reflexivity. }
      rewrite Hm.
      destruct (IH (mrm c pb) (ch :: cl) Hr) as [cl' [H1 [H2 H3]]].
      { intros x Hx [Hx'|Hx']; [subst; contradiction|]. apply (Hdis x); [right; exact Hx|exact Hx']. }
      exists cl'. split; [exact H1|]. split.
      * intros x. rewrite H2. cbn [map snd In]. split.
        -- intros [[_ Hx]|[Hx|Hx]]; [left; split; [reflexivity|right; exact Hx]|left; split; [reflexivity|left; exact Hx]|right; exact Hx].
        -- intros [[_ [Hx|Hx]]|Hx]; [right; left; exact Hx|left; split; [reflexivity|exact Hx]|right; right; exact Hx].
      * intros Hc. apply H3. constructor; [|exact Hc]. apply Hdis. left. reflexivity.
    + destruct (IH (mrm c pb) cl Hr) as [cl' [H1 [H2 H3]]].
      { intros x Hx. apply Hdis. right. exact Hx. }
      exists cl'. split; [exact H1|]. split; [|exact H3].
      intros x. rewrite H2. split; intros [[X _]|X]; try discriminate; right; exact X.
Qed.

Lemma nodup_vals (m : alist N N) :
  NoDup (keys m) -> (forall c c' ch, mlk c m = Some ch -> mlk c' m = Some ch -> c = c') -> NoDup (map snd m).
Proof.
  induction m as [|[k v] r IH]; intros Hnd Hinj; [constructor|].
  inversion Hnd as [|? ? Hk Hr]; subst. cbn [map snd]. constructor.
  - intros Hin. apply in_map_iff in Hin. destruct Hin as [[k' v'] [Hv Hin]]. cbn in Hv. subst v'.
    assert (mlk k' ((k, v) :: r) = Some v) as L1 by (apply in_lookup; [exact Hnd|right; exact Hin]).
    assert (mlk k ((k, v) :: r) = Some v) as L2 by (cbn; rewrite N.eqb_refl; reflexivity).
    pose proof (Hinj _ _ _ L1 L2) as Heq. subst k'.
    apply Hk. unfold keys. apply in_map_iff. exists (k, v). split; [reflexivity|exact Hin].
  - apply IH; [exact Hr|]. intros c c' ch H1 H2.
    assert (forall x y, mlk x r = Some y -> mlk x ((k, v) :: r) = Some y) as Hl.
    { intros x y Hx. apply in_lookup; [exact Hnd|]. right. apply lookup_in. exact Hx. }
    apply (Hinj c c' ch); apply Hl; assumption.
Qed.

(* ---- the invariant ---- *)
Definition entry (s : cm) (p c ch : N) : Prop :=
  exists m, plk p (children s) = Some (Some m) /\ mlk c m = Some ch.

Record Inv (s : cm) : Prop := mkInv {
  inv_nd : forall p m, plk p (children s) = Some (Some m) -> NoDup (keys m);
  inv_cons : forall c p, mlk c (pbc s) = Some p <-> exists ch, entry s p c ch;
  inv_nonil : forall p, plk p (children s) <> Some None;
  inv_inj : forall p c p' c' ch, entry s p c ch -> entry s p' c' ch -> c = c';
  inv_open : forall p c ch, entry s p c ch -> ~ In ch (closedl s);
  inv_ndc : NoDup (closedl s)
}.

Record Bound (s : cm) (uc uch : list N) : Prop := mkBound {
  b_child : forall c p, mlk c (pbc s) = Some p -> In c uc;
  b_chan : forall p c ch, entry s p c ch -> In ch uch;
  b_closed : forall ch, In ch (closedl s) -> In ch uch
}.

Lemma inv_consistent s : Inv s -> consistent s.
Proof.
  intros I c p. rewrite (inv_cons s I). unfold entry. split.
  - intros [ch [m [H1 H2]]]. exists m, ch. split; assumption.
  - intros [m [ch [H1 H2]]]. exists ch, m. split; assumption.
Qed.

Lemma inv_init : Inv cm_init.
Proof.
  constructor; cbn.
  - intros p m H. discriminate.
  - intros c p. split; [discriminate|]. intros [ch [m [H _]]]. discriminate.
  - intros p H. discriminate.
  - intros p c p' c' ch [m [H _]]. discriminate.
  - intros p c ch [m [H _]]. discriminate.
  - constructor.
Qed.

Lemma bound_init : Bound cm_init [] [].
Proof.
  constructor; cbn; [discriminate| |tauto]. intros p c ch [m [H _]]. discriminate.
Qed.

Lemma bound_weaken s uc uch uc' uch' :
  Bound s uc uch -> incl uc uc' -> incl uch uch' -> Bound s uc' uch'.
Proof.
  intros [B1 B2 B3] H1 H2. constructor.
  - intros c p H. apply H1. eapply B1; exact H.
  - intros p c ch H. apply H2. eapply B2; exact H.
  - intros ch H. apply H2. apply B3; exact H.
Qed.

Lemma entry_parent_unique s p p' c ch ch' : Inv s -> entry s p c ch -> entry s p' c ch' -> p = p'.
Proof.
  intros I H1 H2.
  assert (mlk c (pbc s) = Some p) as A by (apply (inv_cons s I); exists ch; exact H1).
  assert (mlk c (pbc s) = Some p') as B by (apply (inv_cons s I); exists ch'; exact H2).
  congruence.
Qed.

(* ---- Add ---- *)
Lemma add_core s uc uch p c ch m0 newch :
  Inv s -> Bound s uc uch -> ~ In c uc -> ~ In ch uch ->
  (plk p (children s) = Some (Some m0) \/ (plk p (children s) = None /\ m0 = [])) ->
  plk p newch = Some (Some (mins c ch m0)) ->
  (forall p', p' <> p -> plk p' newch = plk p' (children s)) ->
  Inv (mkcm newch (mins c p (pbc s)) (closedl s)) /\
  Bound (mkcm newch (mins c p (pbc s)) (closedl s)) (c :: uc) (ch :: uch).
Proof.
  intros I B Hc Hch Hm0 Hp Hother.
  set (s' := mkcm newch (mins c p (pbc s)) (closedl s)).
  assert (Hpbc : mlk c (pbc s) = None).
  { destruct (mlk c (pbc s)) as [q|] eqn:L; [|reflexivity]. exfalso. apply Hc. eapply (b_child s uc uch B); exact L. }
  assert (Hunder : forall c0 ch0, mlk c0 m0 = Some ch0 -> entry s p c0 ch0).
  { intros c0 ch0 L. destruct Hm0 as [H|[_ ->]]; [exists m0; split; assumption|discriminate]. }
  assert (Hnd0 : NoDup (keys m0)).
  { destruct Hm0 as [H|[_ ->]]; [eapply (inv_nd s I); exact H|constructor]. }
  (* an entry of the new state is the new one or an old one *)
  assert (Hnew : forall p1 c1 chx, entry s' p1 c1 chx -> (p1 = p /\ c1 = c /\ chx = ch) \/ (entry s p1 c1 chx /\ c1 <> c)).
  { intros p1 c1 chx [m1 [H1 H2]]. cbn [children s'] in H1.
    destruct (N.eq_dec p1 p) as [->|Hn].
    - rewrite Hp in H1. inversion H1; subst m1.
      destruct (N.eq_dec c1 c) as [->|Hnc].
      + rewrite lookup_insert_eq in H2 by exact E. inversion H2; subst. left; repeat split.
      + rewrite lookup_insert_neq in H2 by (exact E || exact Hnc). right. split; [apply Hunder; exact H2|exact Hnc].
    - rewrite Hother in H1 by exact Hn. right. split; [exists m1; split; assumption|].
      intros ->. assert (mlk c (pbc s) = Some p1) as X by (apply (inv_cons s I); exists chx, m1; split; assumption).
      congruence. }
  assert (Hold : forall p1 c1 chx, entry s p1 c1 chx -> c1 <> c -> entry s' p1 c1 chx).
  { intros p1 c1 chx [m1 [H1 H2]] Hnc. destruct (N.eq_dec p1 p) as [->|Hn].
    - exists (mins c ch m0). cbn [children s']. split; [exact Hp|].
      rewrite lookup_insert_neq by (exact E || exact Hnc).
      destruct Hm0 as [H|[H _]]; [|congruence]. rewrite H in H1. inversion H1; subst. exact H2.
    - exists m1. cbn [children s']. rewrite Hother by exact Hn. split; assumption. }
  assert (Hthe : entry s' p c ch).
  { exists (mins c ch m0). cbn [children s']. split; [exact Hp|apply lookup_insert_eq; exact E]. }
  split; constructor.
  - intros p1 m1 H1. cbn [children s'] in H1. destruct (N.eq_dec p1 p) as [->|Hn].
    + rewrite Hp in H1. inversion H1; subst. apply nodup_insert; [exact E|exact Hnd0].
    + rewrite Hother in H1 by exact Hn. eapply (inv_nd s I); exact H1.
  - intros c0 p0. cbn [pbc s']. destruct (N.eq_dec c0 c) as [->|Hnc].
    + rewrite lookup_insert_eq by exact E. split.
      * intros H; inversion H; subst. exists ch. exact Hthe.
      * intros [chx Hx]. destruct (Hnew _ _ _ Hx) as [[-> _]|[_ X]]; [reflexivity|congruence].
    + rewrite lookup_insert_neq by (exact E || exact Hnc). rewrite (inv_cons s I). split.
      * intros [chx Hx]. exists chx. apply Hold; assumption.
      * intros [chx Hx]. destruct (Hnew _ _ _ Hx) as [[_ [X _]]|[X _]]; [congruence|exists chx; exact X].
  - intros p1 H1. cbn [children s'] in H1. destruct (N.eq_dec p1 p) as [->|Hn].
    + rewrite Hp in H1. discriminate.
    + rewrite Hother in H1 by exact Hn. eapply (inv_nonil s I); exact H1.
  - intros p1 c1 p2 c2 chx H1 H2.
    destruct (Hnew _ _ _ H1) as [[_ [-> Hc1]]|[O1 _]]; destruct (Hnew _ _ _ H2) as [[_ [-> Hc2]]|[O2 _]]; try reflexivity.
    + subst chx. exfalso. apply Hch. eapply (b_chan s uc uch B); exact O2.
    + subst chx. exfalso. apply Hch. eapply (b_chan s uc uch B); exact O1.
    + eapply (inv_inj s I); [exact O1|exact O2].
  - intros p1 c1 chx H1. cbn [closedl s']. destruct (Hnew _ _ _ H1) as [[_ [_ ->]]|[O1 _]].
    + intros X. apply Hch. apply (b_closed s uc uch B). exact X.
    + eapply (inv_open s I); exact O1.
  - exact (inv_ndc s I).
  - intros c0 p0. cbn [pbc s']. destruct (N.eq_dec c0 c) as [->|Hnc]; [intros _; left; reflexivity|].
    rewrite lookup_insert_neq by (exact E || exact Hnc). intros H. right. eapply (b_child s uc uch B); exact H.
  - intros p1 c1 chx H1. destruct (Hnew _ _ _ H1) as [[_ [_ ->]]|[O1 _]]; [left; reflexivity|right].
    eapply (b_chan s uc uch B); exact O1.
  - intros x H. right. apply (b_closed s uc uch B). exact H.
Qed.

Lemma add_inv s uc uch p c ch :
  Inv s -> Bound s uc uch -> effective p c ch = true -> ~ In c uc -> ~ In ch uch ->
  snd (do_add s p c ch) = ROk /\ Inv (fst (do_add s p c ch)) /\ Bound (fst (do_add s p c ch)) (c :: uc) (ch :: uch).
Proof.
  intros I B He Hc Hch. unfold effective in He.
  apply andb_true_iff in He. destruct He as [He Hch0]. apply andb_true_iff in He. destruct He as [Hp0 Hc0].
  apply negb_true_iff in Hp0, Hc0, Hch0. unfold do_add. rewrite Hp0, Hc0, Hch0.
  destruct (plk p (children s)) as [[m|]|] eqn:L.
  - rewrite L. cbn [fst snd]. split; [reflexivity|].
    apply (add_core s uc uch p c ch m); try assumption.
    + left; exact L.
    + apply lookup_insert_eq; exact E.
    + intros p' Hn. apply lookup_insert_neq; [exact E|exact Hn].
  - exfalso. eapply (inv_nonil s I); exact L.
  - rewrite lookup_insert_eq by exact E. cbn [fst snd]. split; [reflexivity|].
    apply (add_core s uc uch p c ch []); try assumption.
    + right; split; [exact L|reflexivity].
    + apply lookup_insert_eq; exact E.
    + intros p' Hn. rewrite !lookup_insert_neq by (exact E || exact Hn). reflexivity.
Qed.

(* ---- delete child ---- *)
(* ---- what is left under the parent key after a child delete (F22) ---- *)
Lemma store_back_same p m chs :
  plk p (store_back p m chs) = match m with [] => None | _ :: _ => Some (Some m) end.
Proof.
  destruct m as [|x r]; cbn [store_back]; [apply lookup_remove_eq; exact E|apply lookup_insert_eq; exact E].
Qed.

Lemma store_back_other p m chs p' : p' <> p -> plk p' (store_back p m chs) = plk p' chs.
Proof.
  intros Hn. destruct m as [|x r]; cbn [store_back]; [apply lookup_remove_neq|apply lookup_insert_neq]; (exact E || exact Hn).
Qed.

Lemma store_back_entry p m chs c ch :
  (exists m1, plk p (store_back p m chs) = Some (Some m1) /\ mlk c m1 = Some ch) <-> mlk c m = Some ch.
Proof.
  rewrite store_back_same. destruct m as [|x r].
  - split; [intros [m1 [H _]]; discriminate|intros H; discriminate].
  - split; [intros [m1 [H1 H2]]; inversion H1; subst; exact H2|intros H; eexists; split; [reflexivity|exact H]].
Qed.

Lemma del_child_core s uc uch p c ch m cl' :
  Inv s -> Bound s uc uch ->
  plk p (children s) = Some (Some m) -> mlk c m = Some ch ->
  (cl' = closedl s \/ cl' = ch :: closedl s) ->
  let s' := mkcm (store_back p (mrm c m) (children s)) (mrm c (pbc s)) cl' in
  Inv s' /\ Bound s' uc uch.
Proof.
  intros I B Lp Lc Hcl s'.
  assert (Hthe : entry s p c ch) by (exists m; split; assumption).
  assert (Hnew : forall p1 c1 chx, entry s' p1 c1 chx -> entry s p1 c1 chx /\ c1 <> c).
  { intros p1 c1 chx Hent. destruct (N.eq_dec p1 p) as [->|Hn].
    - apply (store_back_entry p (mrm c m) (children s) c1 chx) in Hent.
      destruct (N.eq_dec c1 c) as [->|Hnc]; [rewrite lookup_remove_eq in Hent by exact E; discriminate|].
      rewrite lookup_remove_neq in Hent by (exact E || exact Hnc). split; [exists m; split; assumption|exact Hnc].
    - destruct Hent as [m1 [H1 H2]]. cbn [children s'] in H1. rewrite store_back_other in H1 by exact Hn.
      assert (entry s p1 c1 chx) as O by (exists m1; split; assumption). split; [exact O|].
      intros ->. apply Hn. eapply entry_parent_unique; [exact I|exact O|exact Hthe]. }
  assert (Hold : forall p1 c1 chx, entry s p1 c1 chx -> c1 <> c -> entry s' p1 c1 chx).
  { intros p1 c1 chx [m1 [H1 H2]] Hnc. unfold entry. cbn [children s']. destruct (N.eq_dec p1 p) as [->|Hn].
    - apply (store_back_entry p (mrm c m) (children s) c1 chx).
      rewrite lookup_remove_neq by (exact E || exact Hnc). rewrite Lp in H1. inversion H1; subst. exact H2.
    - exists m1. rewrite store_back_other by exact Hn. split; assumption. }
  assert (Hnotcl : ~ In ch (closedl s)) by (eapply (inv_open s I); exact Hthe).
  split; constructor.
  - intros p1 m1 H1. cbn [children s'] in H1. destruct (N.eq_dec p1 p) as [->|Hn].
    + rewrite store_back_same in H1. destruct (mrm c m) as [|x r] eqn:Em; [discriminate|]. inversion H1; subst m1.
      rewrite <- Em. apply nodup_remove. eapply (inv_nd s I); exact Lp.
    + rewrite store_back_other in H1 by exact Hn. eapply (inv_nd s I); exact H1.
  - intros c0 p0. cbn [pbc s']. destruct (N.eq_dec c0 c) as [->|Hnc].
    + rewrite lookup_remove_eq by exact E. split; [discriminate|]. intros [chx Hx]. destruct (Hnew _ _ _ Hx) as [_ X]. congruence.
    + rewrite lookup_remove_neq by (exact E || exact Hnc). rewrite (inv_cons s I). split.
      * intros [chx Hx]. exists chx. apply Hold; assumption.
      * intros [chx Hx]. exists chx. apply (Hnew _ _ _ Hx).
  - intros p1 H1. cbn [children s'] in H1. destruct (N.eq_dec p1 p) as [->|Hn].
    + rewrite store_back_same in H1. destruct (mrm c m); discriminate.
    + rewrite store_back_other in H1 by exact Hn. eapply (inv_nonil s I); exact H1.
  - intros p1 c1 p2 c2 chx H1 H2. eapply (inv_inj s I); [apply (Hnew _ _ _ H1)|apply (Hnew _ _ _ H2)].
  - intros p1 c1 chx H1. cbn [closedl s']. destruct (Hnew _ _ _ H1) as [O Hnc].
    destruct Hcl as [->| ->]; [eapply (inv_open s I); exact O|].
    intros [X|X]; [|eapply (inv_open s I); [exact O|exact X]].
    subst chx. apply Hnc. eapply (inv_inj s I); [exact O|exact Hthe].
  - cbn [closedl s']. destruct Hcl as [->| ->]; [exact (inv_ndc s I)|]. constructor; [exact Hnotcl|exact (inv_ndc s I)].
  - intros c0 p0. cbn [pbc s']. destruct (N.eq_dec c0 c) as [->|Hnc].
    + rewrite lookup_remove_eq by exact E. discriminate.
    + rewrite lookup_remove_neq by (exact E || exact Hnc). apply (b_child s uc uch B).
  - intros p1 c1 chx H1. eapply (b_chan s uc uch B). apply (Hnew _ _ _ H1).
  - intros x. cbn [closedl s']. destruct Hcl as [->| ->]; [apply (b_closed s uc uch B)|].
    intros [<-|X]; [eapply (b_chan s uc uch B); exact Hthe|apply (b_closed s uc uch B); exact X].
Qed.

Lemma del_child_inv s uc uch c close :
  Inv s -> Bound s uc uch ->
  is_panic (snd (do_del_child s c close)) = false /\ Inv (fst (do_del_child s c close)) /\ Bound (fst (do_del_child s c close)) uc uch.
Proof.
  intros I B. unfold do_del_child.
  destruct (c =? 0)%N; [cbn [fst snd is_panic]; split; [reflexivity|split; assumption]|].
  destruct (mlk c (pbc s)) as [p|] eqn:L; [|cbn [fst snd is_panic]; split; [reflexivity|split; assumption]].
  apply (inv_cons s I) in L. destruct L as [ch [m [Lp Lc]]].
  rewrite Lp, Lc.
  destruct close.
  - unfold close_chan.
    assert (memN ch (closedl s) = false) as Hm.
    { apply memN_false. eapply (inv_open s I). exists m. split; [exact Lp|exact Lc]. }
    rewrite Hm. cbn [fst snd is_panic]. split; [reflexivity|].
    apply (del_child_core s uc uch p c ch m (ch :: closedl s)); try assumption. right; reflexivity.
  - cbn [fst snd is_panic]. split; [reflexivity|].
    apply (del_child_core s uc uch p c ch m (closedl s)); try assumption. left; reflexivity.
Qed.

(* ---- delete parent ---- *)
Lemma del_parent_inv s uc uch p close :
  Inv s -> Bound s uc uch ->
  is_panic (snd (do_del_parent s p close)) = false /\ Inv (fst (do_del_parent s p close)) /\ Bound (fst (do_del_parent s p close)) uc uch.
Proof.
  intros I B. unfold do_del_parent.
  destruct (p =? 0)%N; [cbn [fst snd is_panic]; split; [reflexivity|split; assumption]|].
  destruct (plk p (children s)) as [[m|]|] eqn:Lp; [| exfalso; eapply (inv_nonil s I); exact Lp | cbn [fst snd is_panic]; split; [reflexivity|split; assumption]].
  assert (Hnd : NoDup (keys m)) by (eapply (inv_nd s I); exact Lp).
  assert (Hent : forall c ch, mlk c m = Some ch -> entry s p c ch) by (intros c ch L; exists m; split; assumption).
  assert (Hvals : NoDup (map snd m)).
  { apply nodup_vals; [exact Hnd|]. intros c c' ch L1 L2. eapply (inv_inj s I); apply Hent; eassumption. }
  assert (Hval_in : forall ch, In ch (map snd m) -> exists c, mlk c m = Some ch).
  { intros ch H. apply in_map_iff in H. destruct H as [[c ch'] [Hs Hin]]. cbn in Hs. subst ch'.
    exists c. apply in_lookup; assumption. }
  assert (Hdis : forall ch, In ch (map snd m) -> ~ In ch (closedl s)).
  { intros ch H. destruct (Hval_in ch H) as [c L]. eapply (inv_open s I). apply Hent. exact L. }
  destruct (del_loop_spec close m (pbc s) (closedl s) Hvals Hdis) as [cl' [Hloop [Hcl Hndcl]]].
  rewrite Hloop. cbn [fst snd is_panic]. split; [reflexivity|].
  set (s' := mkcm (prm p (children s)) (forget m (pbc s)) cl').
  assert (Hnew : forall p1 c1 chx, entry s' p1 c1 chx -> entry s p1 c1 chx /\ p1 <> p /\ ~ In c1 (keys m)).
  { intros p1 c1 chx [m1 [H1 H2]]. cbn [children s'] in H1.
    destruct (N.eq_dec p1 p) as [->|Hn]; [rewrite lookup_remove_eq in H1 by exact E; discriminate|].
    rewrite lookup_remove_neq in H1 by (exact E || exact Hn).
    assert (entry s p1 c1 chx) as O by (exists m1; split; assumption).
    split; [exact O|]. split; [exact Hn|]. intros Hin.
    destruct (in_keys_lookup_some m c1 Hin) as [ch2 L2].
    apply Hn. eapply entry_parent_unique; [exact I|exact O|apply Hent; exact L2]. }
  assert (Hold : forall p1 c1 chx, entry s p1 c1 chx -> p1 <> p -> entry s' p1 c1 chx).
  { intros p1 c1 chx [m1 [H1 H2]] Hn. exists m1. cbn [children s'].
    rewrite lookup_remove_neq by (exact E || exact Hn). split; assumption. }
  split; constructor.
  - intros p1 m1 H1. cbn [children s'] in H1. destruct (N.eq_dec p1 p) as [->|Hn].
    + rewrite lookup_remove_eq in H1 by exact E. discriminate.
    + rewrite lookup_remove_neq in H1 by (exact E || exact Hn). eapply (inv_nd s I); exact H1.
  - intros c0 p0. cbn [pbc s']. destruct (in_dec N.eq_dec c0 (keys m)) as [Hin|Hnin].
    + rewrite forget_in by exact Hin. split; [discriminate|].
      intros [chx Hx]. destruct (Hnew _ _ _ Hx) as [_ [_ X]]. contradiction.
    + rewrite forget_notin by exact Hnin. rewrite (inv_cons s I). split.
      * intros [chx Hx]. exists chx. apply Hold; [exact Hx|].
        intros ->. destruct Hx as [m1 [H1 H2]]. rewrite Lp in H1. inversion H1; subst m1.
        apply Hnin. eapply lookup_some_in_keys; exact H2.
      * intros [chx Hx]. exists chx. apply (Hnew _ _ _ Hx).
  - intros p1 H1. cbn [children s'] in H1. destruct (N.eq_dec p1 p) as [->|Hn].
    + rewrite lookup_remove_eq in H1 by exact E. discriminate.
    + rewrite lookup_remove_neq in H1 by (exact E || exact Hn). eapply (inv_nonil s I); exact H1.
  - intros p1 c1 p2 c2 chx H1 H2. eapply (inv_inj s I); [apply (Hnew _ _ _ H1)|apply (Hnew _ _ _ H2)].
  - intros p1 c1 chx H1. cbn [closedl s']. destruct (Hnew _ _ _ H1) as [O [Hn Hnin]].
    rewrite Hcl. intros [[_ X]|X]; [|eapply (inv_open s I); [exact O|exact X]].
    destruct (Hval_in chx X) as [c2 L2].
    apply Hnin. assert (c1 = c2) as -> by (eapply (inv_inj s I); [exact O|apply Hent; exact L2]).
    eapply lookup_some_in_keys; exact L2.
  - cbn [closedl s']. apply Hndcl. exact (inv_ndc s I).
  - intros c0 p0. cbn [pbc s']. destruct (in_dec N.eq_dec c0 (keys m)) as [Hin|Hnin].
    + rewrite forget_in by exact Hin. discriminate.
    + rewrite forget_notin by exact Hnin. apply (b_child s uc uch B).
  - intros p1 c1 chx H1. eapply (b_chan s uc uch B). apply (Hnew _ _ _ H1).
  - intros x. cbn [closedl s']. rewrite Hcl. intros [[_ X]|X]; [|apply (b_closed s uc uch B); exact X].
    destruct (Hval_in x X) as [c2 L2]. eapply (b_chan s uc uch B). apply Hent. exact L2.
Qed.

(* ---- one step, any operation ---- *)
Definition op_fresh (uc uch : list N) (o : cop) : Prop :=
  match o with Add p c ch => effective p c ch = true -> ~ In c uc /\ ~ In ch uch | _ => True end.

Definition used_after (uc uch : list N) (o : cop) : list N * list N :=
  match o with
  | Add p c ch => if effective p c ch then (c :: uc, ch :: uch) else (uc, uch)
  | _ => (uc, uch)
  end.

Lemma add_rejected s p c ch : effective p c ch = false -> do_add s p c ch = (s, RErr).
Proof.
  unfold effective, do_add. destruct (p =? 0)%N; [reflexivity|]. destruct (c =? 0)%N; [reflexivity|].
  destruct (ch =? 0)%N; [reflexivity|discriminate].
Qed.

Lemma cstep_inv s o uc uch :
  Inv s -> Bound s uc uch -> op_fresh uc uch o ->
  is_panic (snd (cstep s o)) = false /\ Inv (fst (cstep s o)) /\
  Bound (fst (cstep s o)) (fst (used_after uc uch o)) (snd (used_after uc uch o)).
Proof.
  intros I B F. destruct o as [p c ch|c|c|p|p]; cbn [cstep used_after fst snd].
  - cbn [op_fresh] in F. destruct (effective p c ch) eqn:He.
    + destruct (F eq_refl) as [Hc Hch]. destruct (add_inv s uc uch p c ch I B He Hc Hch) as [H1 [H2 H3]].
      rewrite H1. cbn [fst snd is_panic]. split; [reflexivity|split; assumption].
    + rewrite add_rejected by exact He. cbn [fst snd is_panic]. split; [reflexivity|split; assumption].
  - apply del_child_inv; assumption.
  - apply del_child_inv; assumption.
  - apply del_parent_inv; assumption.
  - apply del_parent_inv; assumption.
Qed.

(* ---- every fresh sequence ---- *)
Lemma crun_inv ops : forall s uc uch,
  Inv s -> Bound s uc uch -> fresh_from uc uch ops ->
  Forall (fun x => is_panic x = false) (snd (crun s ops)) /\
  length (snd (crun s ops)) = length ops /\
  Inv (fst (crun s ops)).
Proof.
  induction ops as [|o r IH]; intros s uc uch I B F; [cbn; split; [constructor|split; [reflexivity|exact I]]|].
  assert (op_fresh uc uch o /\ fresh_from (fst (used_after uc uch o)) (snd (used_after uc uch o)) r) as [Fo Fr].
  { destruct o as [p c ch|c|c|p|p]; cbn [fresh_from op_fresh used_after fst snd] in *; try (split; [exact Logic.I|exact F]).
    destruct (effective p c ch); cbn [fst snd]; [|split; [discriminate|exact F]].
    destruct F as [F1 [F2 F3]]. split; [intros _; split; assumption|exact F3]. }
  destruct (cstep_inv s o uc uch I B Fo) as [Hp [I1 B1]].
  cbn [crun]. destruct (cstep s o) as [s1 x] eqn:Es. cbn [fst snd] in *. rewrite Hp.
  destruct (IH s1 _ _ I1 B1 Fr) as [H1 [H2 H3]].
  destruct (crun s1 r) as [s2 xs]. cbn [fst snd] in *.
  split; [constructor; assumption|split; [cbn [length]; lia|exact H3]].
Qed.

(* ---- no empty map is ever kept under a parent key (F22) ---- *)
Definition NoEmpty (s : cm) : Prop := forall p, plk p (children s) <> Some (Some []).

Lemma noempty_init : NoEmpty cm_init.
Proof. intros p. cbn. discriminate. Qed.

Lemma noempty_store_back s p m pb cl : NoEmpty s -> NoEmpty (mkcm (store_back p m (children s)) pb cl).
Proof.
  intros H q. cbn [children]. destruct (N.eq_dec q p) as [->|Hn].
  - rewrite store_back_same. destruct m; [discriminate|]. intros X; inversion X.
  - rewrite store_back_other by exact Hn. apply H.
Qed.

Lemma noempty_prm s p pb cl : NoEmpty s -> NoEmpty (mkcm (prm p (children s)) pb cl).
Proof.
  intros H q. cbn [children]. destruct (N.eq_dec q p) as [->|Hn].
  - rewrite lookup_remove_eq by exact E. discriminate.
  - rewrite lookup_remove_neq by (exact E || exact Hn). apply H.
Qed.

Lemma cstep_noempty s o : NoEmpty s -> NoEmpty (fst (cstep s o)).
Proof.
  intros H. destruct o as [p c ch|c|c|p|p]; cbn [cstep].
  - unfold do_add. destruct (p =? 0)%N; [exact H|]. destruct (c =? 0)%N; [exact H|]. destruct (ch =? 0)%N; [exact H|].
    destruct (plk p (children s)) as [[m|]|] eqn:L.
    + rewrite L. cbn [fst]. intros q. cbn [children]. destruct (N.eq_dec q p) as [->|Hn].
      * rewrite lookup_insert_eq by exact E. unfold insert. discriminate.
      * rewrite lookup_insert_neq by (exact E || exact Hn). apply H.
    + rewrite L. cbn [fst]. exact H.
    + rewrite lookup_insert_eq by exact E. cbn [fst]. intros q. cbn [children]. destruct (N.eq_dec q p) as [->|Hn].
      * rewrite lookup_insert_eq by exact E. unfold insert. discriminate.
      * rewrite !lookup_insert_neq by (exact E || exact Hn). apply H.
  - unfold do_del_child. destruct (c =? 0)%N; [exact H|]. destruct (mlk c (pbc s)) as [p|]; [|exact H].
    destruct (plk p (children s)) as [[m|]|]; try (apply noempty_prm; exact H).
    destruct (mlk c m); apply noempty_store_back; exact H.
  - unfold do_del_child. destruct (c =? 0)%N; [exact H|]. destruct (mlk c (pbc s)) as [p|]; [|exact H].
    destruct (plk p (children s)) as [[m|]|]; try (apply noempty_prm; exact H).
    destruct (mlk c m) as [ch|]; [|apply noempty_store_back; exact H].
    destruct (close_chan ch (closedl s)); [apply noempty_store_back; exact H|exact H].
  - unfold do_del_parent. destruct (p =? 0)%N; [exact H|]. destruct (plk p (children s)) as [mo|]; [|exact H].
    destruct (del_loop false _ (pbc s) (closedl s)) as [[pb cl]|]; [apply noempty_prm; exact H|exact H].
  - unfold do_del_parent. destruct (p =? 0)%N; [exact H|]. destruct (plk p (children s)) as [mo|]; [|exact H].
    destruct (del_loop true _ (pbc s) (closedl s)) as [[pb cl]|]; [apply noempty_prm; exact H|exact H].
Qed.

Lemma crun_noempty ops : forall s, NoEmpty s -> NoEmpty (fst (crun s ops)).
Proof.
  induction ops as [|o r IH]; intros s H; [exact H|].
  cbn [crun]. pose proof (cstep_noempty s o H) as H1. destruct (cstep s o) as [s1 x]. cbn [fst] in H1.
  destruct (is_panic x); [exact H1|]. specialize (IH s1 H1). destruct (crun s1 r) as [s2 xs]. exact IH.
Qed.

(* a booking is known to the store exactly as long as one of its connections is: ChildrenByParent has a
   key iff some child maps to it (for every sequence, no freshness needed for the "no empty map" half) *)
Lemma no_empty_parent_entries ops :
  fresh_adds ops ->
  forall p, plk p (children (fst (crun cm_init ops))) <> None <->
            exists c, mlk c (pbc (fst (crun cm_init ops))) = Some p.
Proof.
  intros F p. destruct (crun_inv ops cm_init [] [] inv_init bound_init F) as [_ [_ I]].
  pose proof (crun_noempty ops cm_init noempty_init p) as NE.
  set (s := fst (crun cm_init ops)) in *. split.
  - intros Hk. destruct (plk p (children s)) as [[m|]|] eqn:L; [| exfalso; eapply (inv_nonil s I); exact L | congruence].
    destruct m as [|[c ch] r]; [exfalso; apply NE; (exact L || reflexivity)|]. exists c. apply (inv_cons s I). exists ch, ((c, ch) :: r).
    split; [exact L|]. cbn. rewrite N.eqb_refl. reflexivity.
  - intros [c Hc]. apply (inv_cons s I) in Hc. destruct Hc as [ch [m [L _]]]. congruence.
Qed.

Lemma chanmap_total ops :
  fresh_adds ops ->
  Forall (fun x => is_panic x = false) (snd (crun cm_init ops)) /\
  length (snd (crun cm_init ops)) = length ops /\
  NoDup (closedl (fst (crun cm_init ops))) /\
  consistent (fst (crun cm_init ops)) /\
  (forall p, plk p (children (fst (crun cm_init ops))) <> Some None).
Proof.
  intros F. destruct (crun_inv ops cm_init [] [] inv_init bound_init F) as [H1 [H2 H3]].
  split; [exact H1|]. split; [exact H2|]. split; [exact (inv_ndc _ H3)|].
  split; [apply inv_consistent; exact H3|exact (inv_nonil _ H3)].
Qed.
