(* Lemmas about the model of json.Unmarshal(msg, &vw.Command) (Model/AdminDecode.v) and its composition with
   the admin handler. *)
From Relay Require Import Base.Prelude Base.AList Model.AdminJson Model.AdminApi Model.AdminDecode
                          Proofs.AdminApi_proofs.
From Relay Require Base.Json.
Local Open Scope N_scope.

(* ---- the handler on bytes *)

Lemma every_byte_string_gets_a_json_reply dd ds api s msg :
  exists b, render repaired (snd (handle dd ds api repaired s msg)) = Some b /\ wf b = true.
Proof. unfold handle. exact (every_command_answered dd ds api s (decode msg)). Qed.

Lemma handle_never_panics dd ds api s msg : snd (handle dd ds api repaired s msg) <> Panic.
Proof. unfold handle. exact (admin_total dd ds api s (decode msg)). Qed.

Lemma undecodable_bytes_change_nothing dd ds api fx s msg :
  decode msg = None -> handle dd ds api fx s msg = (s, Err e_bad).
Proof. intros H. unfold handle. rewrite H. reflexivity. Qed.

Lemma not_json_is_undecodable msg : Json.json_wf msg = false -> decode msg = None.
Proof. intros H. unfold decode. rewrite H. reflexivity. Qed.

(* ---- which members decide *)

Definition is_string_field (f : fld) : bool := match f with FRule => false | _ => true end.

(* a member that cannot be stored: its key selects a string field and its value is neither a string nor null *)
Definition bad_member (m : bytes * bytes) : bool :=
  match field_of (fst m), classify (snd m) with
  | Some f, ROther => is_string_field f
  | _, _ => false
  end.

Definition fld_eqb (a b : fld) : bool :=
  match a, b with FVerb, FVerb | FWhat, FWhat | FWhich, FWhich | FRule, FRule => true | _, _ => false end.

(* the string the members give to field f: every string member for f replaces what was there; null members,
   members for other fields and unknown keys leave it *)
Definition upd_str (f : fld) (acc : bytes) (m : bytes * bytes) : bytes :=
  match field_of (fst m), classify (snd m) with
  | Some g, RStr s => if fld_eqb g f then s else acc
  | _, _ => acc
  end.
Definition last_str (f : fld) (ms : list (bytes * bytes)) : bytes := fold_left (upd_str f) ms [].

Definition upd_rule (acc : option bytes) (m : bytes * bytes) : option bytes :=
  match field_of (fst m) with
  | Some FRule => match classify (snd m) with RNull => None | _ => Some (snd m) end
  | _ => acc
  end.
Definition last_rule (ms : list (bytes * bytes)) : option bytes := fold_left upd_rule ms None.

Definition run_store (ms : list (bytes * bytes)) (d : dstate) : dstate :=
  fold_left (fun d m => store d (fst m) (snd m)) ms d.

Lemma store_spec d m :
  let d' := store d (fst m) (snd m) in
  verb (d_cmd d') = (if bad_member m then verb (d_cmd d) else upd_str FVerb (verb (d_cmd d)) m) /\
  what (d_cmd d') = (if bad_member m then what (d_cmd d) else upd_str FWhat (what (d_cmd d)) m) /\
  which (d_cmd d') = (if bad_member m then which (d_cmd d) else upd_str FWhich (which (d_cmd d)) m) /\
  rule (d_cmd d') = upd_rule (rule (d_cmd d)) m /\
  d_err d' = d_err d || bad_member m.
Proof.
  unfold store, bad_member, upd_str, upd_rule. destruct m as [k raw]. cbn [fst snd].
  destruct (field_of k) as [[| | |]|]; destruct (classify raw); cbn [d_cmd d_err verb what which rule fld_eqb is_string_field];
    rewrite ?orb_false_r, ?orb_true_r; repeat split; reflexivity.
Qed.

Lemma run_store_spec ms : forall d,
  existsb bad_member ms = false ->
  let d' := run_store ms d in
  verb (d_cmd d') = fold_left (upd_str FVerb) ms (verb (d_cmd d)) /\
  what (d_cmd d') = fold_left (upd_str FWhat) ms (what (d_cmd d)) /\
  which (d_cmd d') = fold_left (upd_str FWhich) ms (which (d_cmd d)) /\
  rule (d_cmd d') = fold_left upd_rule ms (rule (d_cmd d)) /\
  d_err d' = d_err d.
Proof.
  induction ms as [|m r IH]; intros d Hb; [repeat split; reflexivity|].
  cbn [existsb] in Hb. apply orb_false_iff in Hb. destruct Hb as [Hm Hr].
  destruct (store_spec d m) as [A [B [C [D E]]]]. rewrite Hm in A, B, C, E. rewrite orb_false_r in E.
  unfold run_store in *. cbn [fold_left]. specialize (IH (store d (fst m) (snd m)) Hr).
  cbv zeta in IH. rewrite A, B, C, D, E in IH. exact IH.
Qed.

Lemma run_store_err ms : forall d, d_err (run_store ms d) = d_err d || existsb bad_member ms.
Proof.
  induction ms as [|m r IH]; intros d; [cbn; rewrite orb_false_r; reflexivity|].
  unfold run_store in *. cbn [fold_left existsb]. rewrite IH.
  destruct (store_spec d m) as [_ [_ [_ [_ E]]]]. rewrite E, orb_assoc. reflexivity.
Qed.

(* the decoder returns an error exactly when some member cannot be stored *)
Lemma decode_members_none ms : decode_members ms = None <-> existsb bad_member ms = true.
Proof.
  unfold decode_members. fold (run_store ms (mkds zero_cmd false)). rewrite run_store_err. cbn [d_err orb].
  destruct (existsb bad_member ms); split; intros H; try reflexivity; discriminate.
Qed.

(* otherwise every field is what its LAST storable member says, fields independently of each other *)
Lemma decode_members_spec ms :
  existsb bad_member ms = false ->
  decode_members ms = Some (mkc (last_str FVerb ms) (last_str FWhat ms) (last_str FWhich ms) (last_rule ms)).
Proof.
  intros Hb. unfold decode_members. fold (run_store ms (mkds zero_cmd false)).
  destruct (run_store_spec ms (mkds zero_cmd false) Hb) as [A [B [C [D E]]]]. cbv zeta in *.
  rewrite E. cbn [d_err]. unfold last_str, last_rule.
  destruct (d_cmd (run_store ms (mkds zero_cmd false))) as [v w wh r]. cbn [verb what which rule d_cmd zero_cmd] in *.
  subst. reflexivity.
Qed.

(* "last one wins": a string member for f that is followed by no other string member for f decides f *)
Definition string_for (f : fld) (m : bytes * bytes) : bool :=
  match field_of (fst m), classify (snd m) with
  | Some g, RStr _ => fld_eqb g f
  | _, _ => false
  end.

Lemma fold_upd_str_quiet f rest : forall acc, existsb (string_for f) rest = false -> fold_left (upd_str f) rest acc = acc.
Proof.
  induction rest as [|m r IH]; intros acc H; [reflexivity|].
  cbn [existsb] in H. apply orb_false_iff in H. destruct H as [Hm Hr]. cbn [fold_left]. rewrite (IH _ Hr).
  unfold upd_str, string_for in *. destruct (field_of (fst m)); [|reflexivity]. destruct (classify (snd m)); try reflexivity.
  rewrite Hm. reflexivity.
Qed.

Lemma last_string_member_wins f pre k raw s rest :
  field_of k = Some f -> classify raw = RStr s -> existsb (string_for f) rest = false ->
  last_str f (pre ++ (k, raw) :: rest) = s.
Proof.
  intros Hk Hc Hq. unfold last_str. rewrite fold_left_app. cbn [fold_left]. rewrite (fold_upd_str_quiet f rest _ Hq).
  unfold upd_str. cbn [fst snd]. rewrite Hk, Hc. destruct f; reflexivity.
Qed.

(* keys are matched without regard to ASCII case *)
Lemma field_of_case_insensitive k k' : map lower k = map lower k' -> field_of k = field_of k'.
Proof. intros H. unfold field_of, fold_eqb. rewrite H. reflexivity. Qed.

Lemma field_of_examples :
  field_of (bytes_of "VERB") = Some FVerb /\ field_of (bytes_of "Verb") = Some FVerb /\
  field_of (bytes_of "wHiCh") = Some FWhich /\ field_of (bytes_of "RULE") = Some FRule /\
  field_of (bytes_of "verbs") = None /\ field_of (bytes_of " verb") = None /\ field_of [] = None.
Proof. vm_compute. repeat split. Qed.

(* every byte string is decoded, one way or the other, and it is known which way *)
Lemma decode_total msg :
  (decode msg = None /\
   (Json.json_wf msg = false \/ top_members msg = None \/
    exists ms, top_members msg = Some ms /\ existsb bad_member ms = true)) \/
  (exists ms, Json.json_wf msg = true /\ top_members msg = Some ms /\ existsb bad_member ms = false /\
              decode msg = Some (mkc (last_str FVerb ms) (last_str FWhat ms) (last_str FWhich ms) (last_rule ms))).
Proof.
  unfold decode. destruct (Json.json_wf msg) eqn:W; [|left; split; [reflexivity|left; reflexivity]].
  destruct (top_members msg) as [ms|] eqn:T; [|left; split; [reflexivity|right; left; reflexivity]].
  destruct (existsb bad_member ms) eqn:B.
  - left. split; [apply decode_members_none; exact B|right; right; exists ms; split; [reflexivity|exact B]].
  - right. exists ms. repeat split; try assumption. apply decode_members_spec. exact B.
Qed.

Lemma decode_wellformed_object msg ms :
  Json.json_wf msg = true -> top_members msg = Some ms -> existsb bad_member ms = false ->
  decode msg = Some (mkc (last_str FVerb ms) (last_str FWhat ms) (last_str FWhich ms) (last_rule ms)).
Proof. intros W T B. unfold decode. rewrite W, T. apply decode_members_spec. exact B. Qed.

(* ---- no oracle left: the inner decoding of the rule is the model's too ([handle_bytes]) *)
Lemma bytes_sequence_answered api msgs s :
  Forall (fun a => exists b, render repaired a = Some b /\ wf b = true)
         (snd (run dec_dest_model dec_stream_model api repaired s (map decode msgs))).
Proof. exact (every_command_answered_run dec_dest_model dec_stream_model api (map decode msgs) s). Qed.

Lemma bytes_sequence_never_panics api msgs s :
  ~ In Panic (snd (run dec_dest_model dec_stream_model api repaired s (map decode msgs))).
Proof. exact (admin_total_run dec_dest_model dec_stream_model api (map decode msgs) s). Qed.
