(* C08, chanmap under concurrent use: one object behind one mutex, each method one critical section (C12's generated
   obligation). Instantiating the value-level serial-equivalence theorem with the store's own step function: any
   schedule of any threads calling chanmap operations leaves the store in the state of the sequential sequence of the
   same operations in lock-acquisition order, so the theorems over operation sequences (no panic, no double close,
   consistent maps, no empty parent entries) speak about every concurrent execution as well. *)
From Relay Require Import Base.Prelude Model.ChanMap.
From Relay Require Model.SerialEq Proofs.SerialEq_proofs.

Definition cm_ueqb (_ _ : unit) : bool := true.
Lemma cm_ueqb_spec a b : cm_ueqb a b = true <-> a = b.
Proof. destruct a, b; split; reflexivity. Qed.

Definition cm_upd (_ : unit) (o : cop) (s : cm) : cm * cres := cstep s o.

Definition cm_cstate := @SerialEq.state unit cop cm cres.
Definition cm_ccall := @SerialEq.call unit cop.

(* the state after a sequence of operations, one after the other (crun additionally stops at a panic: for the
   sequences of the C08 theorems - fresh names - no operation panics, so the two agree there) *)
Definition cfinal (s : cm) (ops : list cop) : cm := fold_left (fun s o => fst (cstep s o)) ops s.

Lemma cm_serial_fst_is_cfinal (l : list cm_ccall) :
  forall (f : unit -> cm) (acc : list (cm_ccall * cres)),
    fst (fold_left (SerialEq.serial_step cm_ueqb cm_upd) l (f, acc)) tt = cfinal (f tt) (map (@SerialEq.c_op unit cop) l).
Proof.
  induction l as [|c l IH]; intros f acc; cbn [fold_left map]; [reflexivity|].
  unfold SerialEq.serial_step at 2. cbn [fst snd].
  rewrite IH. unfold cfinal at 2. cbn [fold_left]. unfold SerialEq.set, cm_ueqb, cm_upd. cbn.
  destruct (SerialEq.c_lock c). reflexivity.
Qed.

Theorem concurrent_chanmap_is_sequential progs (s0 : cm) sched (s : cm_cstate) :
  SerialEq.run cm_ueqb cm_upd sched (SerialEq.init progs (fun _ => s0)) = Some s -> SerialEq.finished s = true ->
  SerialEq.st s tt = cfinal s0 (map (@SerialEq.c_op unit cop) (SerialEq.acqs s)) /\
  (forall i p, nth_error progs i = Some p -> SerialEq.by_thread i (SerialEq.acqs s) = SerialEq.mkcalls i 0 p).
Proof.
  intros Hr Hf.
  destruct (SerialEq_proofs.serial_equivalence cm_ueqb cm_ueqb_spec cm_upd progs (fun _ => s0) sched s Hr Hf) as (Hp & Hst & _ & _).
  split; [|exact Hp].
  rewrite (Hst tt). unfold SerialEq.serial. apply (cm_serial_fst_is_cfinal (SerialEq.acqs s) (fun _ => s0) []).
Qed.

(* when no operation panics (which the C08 theorems establish for sequences with fresh names), crun and the plain fold
   agree, so the theorems about crun apply to the state a concurrent execution ends in *)
Lemma crun_cfinal ops : forall s,
  (forall x, In x (snd (crun s ops)) -> is_panic x = false) -> fst (crun s ops) = cfinal s ops.
Proof.
  induction ops as [|o r IH]; intros s H; [reflexivity|].
  unfold cfinal. cbn [fold_left]. fold (cfinal (fst (cstep s o)) r).
  cbn [crun] in *. destruct (cstep s o) as [s1 x] eqn:E. cbn [fst].
  destruct (is_panic x) eqn:Hp.
  - exfalso. cbn in H. specialize (H x (or_introl eq_refl)). rewrite H in Hp. discriminate.
  - destruct (crun s1 r) as [s2 xs] eqn:E2. cbn [fst].
    change s2 with (fst (s2, xs)). rewrite <- E2. apply IH.
    intros y Hy. apply H. cbn. right. rewrite E2 in Hy. exact Hy.
Qed.

(* the sequence theorems, for the state a concurrent execution ends in: when the operations, in the order in which they
   took the lock, carry fresh child names and channels, no channel has been closed twice, the two maps are mutually
   consistent, no nil map sits under a parent key, and a booking has a key exactly while one of its connections has *)
From Relay Require Import Proofs.ChanMap_proofs.

Theorem concurrent_chanmap_total progs sched (s : cm_cstate) :
  SerialEq.run cm_ueqb cm_upd sched (SerialEq.init progs (fun _ => cm_init)) = Some s -> SerialEq.finished s = true ->
  fresh_adds (map (@SerialEq.c_op unit cop) (SerialEq.acqs s)) ->
  SerialEq.st s tt = fst (crun cm_init (map (@SerialEq.c_op unit cop) (SerialEq.acqs s))) /\
  NoDup (closedl (SerialEq.st s tt)) /\
  consistent (SerialEq.st s tt) /\
  (forall p, plk p (children (SerialEq.st s tt)) <> Some None) /\
  (forall p, plk p (children (SerialEq.st s tt)) <> None <-> exists c, mlk c (pbc (SerialEq.st s tt)) = Some p).
Proof.
  intros Hr Hf Hfresh.
  destruct (concurrent_chanmap_is_sequential progs cm_init sched s Hr Hf) as [Hst _].
  destruct (chanmap_total _ Hfresh) as (Hnp & _ & Hnd & Hc & Hnil).
  assert (E : SerialEq.st s tt = fst (crun cm_init (map (@SerialEq.c_op unit cop) (SerialEq.acqs s)))).
  { rewrite Hst. symmetry. apply crun_cfinal. intros x Hx. rewrite Forall_forall in Hnp. exact (Hnp x Hx). }
  rewrite E. split; [reflexivity|]. split; [exact Hnd|]. split; [exact Hc|]. split; [exact Hnil|].
  exact (no_empty_parent_entries _ Hfresh).
Qed.

(* ---- the answers the concurrent callers get ---- *)
(* every operation of a sequence with its result (crun stops at the first panic; without one the two agree) *)
Fixpoint cfold (s : cm) (ops : list cop) : cm * list cres :=
  match ops with
  | [] => (s, [])
  | o :: r => let '(s1, x) := cstep s o in let '(s2, xs) := cfold s1 r in (s2, x :: xs)
  end.

Lemma crun_cfold ops : forall s,
  (forall x, In x (snd (crun s ops)) -> is_panic x = false) -> crun s ops = cfold s ops.
Proof.
  induction ops as [|o r IH]; intros s H; [reflexivity|].
  cbn [crun cfold] in *. destruct (cstep s o) as [s1 x] eqn:E.
  destruct (is_panic x) eqn:Hp.
  - exfalso. cbn in H. specialize (H x (or_introl eq_refl)). rewrite H in Hp. discriminate.
  - destruct (crun s1 r) as [s2 xs] eqn:E2.
    assert (Hr : crun s1 r = cfold s1 r).
    { apply IH. intros y Hy. apply H. cbn. right. rewrite E2 in Hy. exact Hy. }
    rewrite <- Hr, E2. reflexivity.
Qed.

Lemma cm_ret_on_all (l : list (cm_ccall * cres)) : SerialEq.ret_on cm_ueqb tt l = l.
Proof. induction l as [|x l IH]; cbn; [reflexivity|]. f_equal. exact IH. Qed.

Lemma cm_serial_snd_is_cfold (l : list cm_ccall) :
  forall (f : unit -> cm) (acc : list (cm_ccall * cres)),
    map fst (snd (fold_left (SerialEq.serial_step cm_ueqb cm_upd) l (f, acc))) = map fst acc ++ l /\
    map snd (snd (fold_left (SerialEq.serial_step cm_ueqb cm_upd) l (f, acc))) =
      map snd acc ++ snd (cfold (f tt) (map (@SerialEq.c_op unit cop) l)).
Proof.
  induction l as [|c l IH]; intros f acc; cbn [fold_left map cfold snd].
  - rewrite !app_nil_r. split; reflexivity.
  - pose (f' := SerialEq.set cm_ueqb f (SerialEq.c_lock c) (fst (cm_upd (SerialEq.c_lock c) (SerialEq.c_op c) (f (SerialEq.c_lock c))))).
    pose (acc' := acc ++ [(c, snd (cm_upd (SerialEq.c_lock c) (SerialEq.c_op c) (f (SerialEq.c_lock c))))]).
    change (SerialEq.serial_step cm_ueqb cm_upd (f, acc) c) with (f', acc').
    destruct (IH f' acc') as [IH1 IH2].
    rewrite IH1, IH2. unfold acc' at 1 2. rewrite !map_app. cbn [map fst snd]. rewrite <- !app_assoc. cbn [app].
    split; [reflexivity|]. f_equal.
    unfold acc', f', SerialEq.set, cm_ueqb, cm_upd. destruct (SerialEq.c_lock c).
    destruct (cstep (f tt) (SerialEq.c_op c)) as [s1 x]. cbn [fst snd].
    destruct (cfold s1 (map (@SerialEq.c_op unit cop) l)) as [s2 xs]. reflexivity.
Qed.

(* the calls, in the order their bodies ran, are the calls in lock-acquisition order, and every caller got the result
   the sequential sequence gives at that position *)
Theorem concurrent_chanmap_responses progs (s0 : cm) sched (s : cm_cstate) :
  SerialEq.run cm_ueqb cm_upd sched (SerialEq.init progs (fun _ => s0)) = Some s -> SerialEq.finished s = true ->
  map fst (SerialEq.hist s) = SerialEq.acqs s /\
  map snd (SerialEq.hist s) = snd (cfold s0 (map (@SerialEq.c_op unit cop) (SerialEq.acqs s))).
Proof.
  intros Hr Hf.
  destruct (SerialEq_proofs.serial_equivalence cm_ueqb cm_ueqb_spec cm_upd progs (fun _ => s0) sched s Hr Hf) as (_ & _ & Hret & _).
  specialize (Hret tt). rewrite !cm_ret_on_all in Hret. rewrite Hret. unfold SerialEq.serial.
  destruct (cm_serial_snd_is_cfold (SerialEq.acqs s) (fun _ => s0) []) as [H1 H2]. split; [exact H1|exact H2].
Qed.

(* hence no concurrent caller panics (nil map, double close) when the lock-acquisition order carries fresh names *)
Theorem concurrent_chanmap_no_caller_panics progs sched (s : cm_cstate) :
  SerialEq.run cm_ueqb cm_upd sched (SerialEq.init progs (fun _ => cm_init)) = Some s -> SerialEq.finished s = true ->
  fresh_adds (map (@SerialEq.c_op unit cop) (SerialEq.acqs s)) ->
  length (SerialEq.hist s) = length (SerialEq.acqs s) /\
  Forall (fun x => is_panic x = false) (map snd (SerialEq.hist s)).
Proof.
  intros Hr Hf Hfresh.
  destruct (concurrent_chanmap_responses progs cm_init sched s Hr Hf) as [H1 H2].
  destruct (chanmap_total _ Hfresh) as (Hnp & _).
  split; [rewrite <- H1, map_length; reflexivity|].
  rewrite H2, <- crun_cfold; [exact Hnp|].
  intros x Hx. rewrite Forall_forall in Hnp. exact (Hnp x Hx).
Qed.
