(* Generic soundness of the lock-discipline checkers of Model/LockIR.v, proved once, for every IR program,
   every guard table, every rank function, any number of threads and any schedule.

   Invariant carrying everything: every thread's continuation passes [check_cont] from the lockset the
   thread currently holds, and a lock held exclusively by one thread is not held by any other. *)
From Coq Require Import Relations.
From Relay Require Import Base.Prelude Model.LockIR.

Section Generic.
  Context {L F : Type}.
  Variable leqb : L -> L -> bool.
  Hypothesis leqb_spec : forall a b, leqb a b = true <-> a = b.
  Variable guard : F -> L.
  Variable rank : L -> nat.
  Variable nb ord : bool.

  Notation held := (held leqb).
  Notation drop := (drop leqb).
  Notation lockset_eqb := (lockset_eqb leqb).
  Notation check := (check leqb guard rank nb ord).
  Notation check_cont := (check_cont leqb guard rank nb ord).
  Notation check_fn := (check_fn leqb guard rank nb ord).
  Notation thread := (@thread L F).
  Notation pool := (@pool L F).
  (* threads may jump to any code the checker accepts from the locks they hold *)
  Definition jump_chk (ls : @lockset L) (k : list (stmt L F)) : Prop := check_cont ls k = true.
  Notation tstep := (@tstep L F leqb jump_chk).
  Notation step := (@step L F leqb jump_chk).
  Notation exec := (@exec L F leqb jump_chk).
  Notation steps := (@steps L F leqb jump_chk).
  Notation free := (@free L F leqb).
  Notation no_ex := (@no_ex L F leqb).
  Notation race := (@race L F).
  Notation waits_for := (@waits_for L F leqb).

  Lemma leqb_refl m : leqb m m = true.
  Proof. apply leqb_spec; reflexivity. Qed.

  Lemma leqb_neq a b : a <> b -> leqb a b = false.
  Proof. intro H. destruct (leqb a b) eqn:E; [apply leqb_spec in E; contradiction|reflexivity]. Qed.

  Lemma l_eq_dec (a b : L) : {a = b} + {a <> b}.
  Proof.
    destruct (leqb a b) eqn:E; [left; apply leqb_spec; exact E|right].
    intro H. apply leqb_spec in H. congruence.
  Qed.

  (* ---------------------------------------------------------------- pools *)
  Lemma nth_upd_same (p : pool) i t u : nth_error p i = Some u -> nth_error (upd p i t) i = Some t.
  Proof. revert i; induction p as [|x p IH]; intros [|i]; cbn; try discriminate; auto. Qed.

  Lemma nth_upd_other (p : pool) i j t : i <> j -> nth_error (upd p i t) j = nth_error p j.
  Proof.
    revert i j; induction p as [|x p IH]; intros i j H; destruct i, j; cbn; try reflexivity; try congruence.
    apply IH; lia.
  Qed.

  Lemma nth_upd_inv (p : pool) i j t u : nth_error (upd p i t) j = Some u ->
    (i = j /\ u = t /\ exists v, nth_error p i = Some v) \/ (i <> j /\ nth_error p j = Some u).
  Proof.
    destruct (Nat.eq_dec i j) as [->|Hne].
    - destruct (nth_error p j) eqn:E.
      + rewrite (nth_upd_same _ _ _ _ E). intros [= <-]. left; eauto.
      + intro H. exfalso. revert j E H.
        induction p as [|x p IH]; intros [|j]; cbn; try discriminate; eauto.
    - rewrite nth_upd_other by assumption. right; auto.
  Qed.

  (* ---------------------------------------------------------------- locksets *)
  Lemma mode_eqb_eq a b : mode_eqb a b = true -> a = b.
  Proof. destruct a, b; cbn; congruence. Qed.

  Lemma lockset_eqb_eq a b : lockset_eqb a b = true -> a = b.
  Proof.
    revert b; induction a as [|[m md] a IH]; intros [|[m' md'] b]; cbn; try discriminate; auto.
    intro H. apply andb_prop in H as [H1 H3]. apply andb_prop in H1 as [H1 H2].
    apply leqb_spec in H1. apply mode_eqb_eq in H2. apply IH in H3. subst. reflexivity.
  Qed.

  Lemma lockset_eqb_refl a : lockset_eqb a a = true.
  Proof. induction a as [|[m md] a IH]; cbn; auto. rewrite leqb_refl, IH. destruct md; reflexivity. Qed.

  Lemma held_drop_same m ls : held m (drop m ls) = None.
  Proof.
    induction ls as [|[m' md] ls IH]; cbn; auto.
    destruct (leqb m m') eqn:E; cbn; auto. rewrite E; auto.
  Qed.

  Lemma held_drop_other m m' ls : m <> m' -> held m (drop m' ls) = held m ls.
  Proof.
    intro H. induction ls as [|[m2 md] ls IH]; cbn; auto.
    destruct (leqb m' m2) eqn:E; cbn.
    - apply leqb_spec in E. subst. rewrite (leqb_neq _ _ H). exact IH.
    - rewrite IH; reflexivity.
  Qed.

  Lemma held_drop_sub m m' ls md : held m (drop m' ls) = Some md -> held m ls = Some md.
  Proof.
    destruct (l_eq_dec m m') as [->|H]; [rewrite held_drop_same; discriminate|].
    rewrite held_drop_other by assumption; auto.
  Qed.

  Lemma held_drop_none m m' ls : held m ls = None -> held m (drop m' ls) = None.
  Proof.
    intro H. destruct (l_eq_dec m m') as [->|Hne]; [apply held_drop_same|].
    rewrite held_drop_other; auto.
  Qed.

  Lemma held_in m ls md : held m ls = Some md -> In (m, md) ls.
  Proof.
    induction ls as [|[m' md'] ls IH]; cbn; [discriminate|].
    destruct (leqb m m') eqn:E.
    - apply leqb_spec in E. intros [= ->]. subst. left; reflexivity.
    - intro H. right; auto.
  Qed.

  Lemma in_held m md ls : In (m, md) ls -> held m ls <> None.
  Proof.
    induction ls as [|[m' md'] ls IH]; cbn; [tauto|].
    intros [H|H].
    - inversion H; subst. rewrite leqb_refl. discriminate.
    - destruct (leqb m m'); [discriminate|auto].
  Qed.

  (* ---------------------------------------------------------------- invariant *)
  Definition thread_ok (t : thread) : Prop := check_cont (fst t) (snd t) = true.
  Definition excl (p : pool) : Prop :=
    forall i j t u m, i <> j -> nth_error p i = Some t -> nth_error p j = Some u ->
      held m (fst t) = Some Ex -> held m (fst u) = None.
  Definition inv (p : pool) : Prop := (forall i t, nth_error p i = Some t -> thread_ok t) /\ excl p.

  Lemma at_access_held t f w : thread_ok t -> at_access t f w ->
    (w = true -> held (guard f) (fst t) = Some Ex) /\ (held (guard f) (fst t) <> None).
  Proof.
    destruct t as [ls k]. unfold thread_ok, at_access. cbn.
    destruct k as [|s k]; [tauto|].
    destruct s; try tauto; cbn; intros Hc [-> ->].
    - destruct (held (guard f) ls) eqn:E; [|discriminate]. split; [discriminate|congruence].
    - destruct (held (guard f) ls) as [[|]|] eqn:E; try discriminate. split; congruence.
  Qed.

  Theorem inv_no_race p : inv p -> ~ race p.
  Proof.
    intros [Hok Hex] (i & j & t & u & f & wt & wu & Hne & Hi & Hj & Ht & Hu & Hw).
    destruct (at_access_held _ _ _ (Hok _ _ Hi) Ht) as [Ht1 Ht2].
    destruct (at_access_held _ _ _ (Hok _ _ Hj) Hu) as [Hu1 Hu2].
    destruct Hw as [-> | ->].
    - apply Hu2. eapply (Hex i j); eauto.
    - apply Ht2. eapply (Hex j i); eauto.
  Qed.

  (* thread-local preservation of the static check *)
  Lemma tstep_ok p t e t' : thread_ok t -> tstep p t e t' -> thread_ok t'.
  Proof.
    unfold thread_ok. intros Hc Hs. destruct Hs; cbn in *.
    - exact Hc.
    - destruct (check ls a) as [[l1|]|] eqn:Ea; try discriminate; auto.
    - destruct (check ls a) as [[l1|]|] eqn:Ea; destruct (check ls b) as [[l2|]|] eqn:Eb; try discriminate; auto.
      destruct (lockset_eqb l1 l2) eqn:E; try discriminate. exact Hc.
    - destruct (check ls a) as [[l1|]|] eqn:Ea; destruct (check ls b) as [[l2|]|] eqn:Eb; try discriminate; auto.
      destruct (lockset_eqb l1 l2) eqn:E; try discriminate. apply lockset_eqb_eq in E. subst. exact Hc.
    - destruct (check ls b) as [[l1|]|] eqn:Eb; try discriminate; auto.
      destruct (lockset_eqb l1 ls) eqn:E; try discriminate. exact Hc.
    - destruct (check ls b) as [[l1|]|] eqn:Eb; try discriminate; auto.
      destruct (lockset_eqb l1 ls) eqn:E; try discriminate. apply lockset_eqb_eq in E. subst.
      rewrite Eb, lockset_eqb_refl. exact Hc.
    - destruct (held m ls) eqn:E; try discriminate.
      match type of Hc with context [if ?c then _ else _] => destruct c end; [exact Hc|discriminate].
    - rewrite H0 in Hc.
      match type of Hc with context [if ?c then _ else _] => destruct c end; [exact Hc|discriminate].
    - destruct (held m ls) eqn:E; try discriminate. exact Hc.
    - destruct (held (guard f) ls) eqn:E; try discriminate. exact Hc.
    - destruct (held (guard f) ls) as [[|]|] eqn:E; try discriminate. exact Hc.
    - match type of Hc with context [if ?c then _ else _] => destruct c end; [exact Hc|discriminate].
    - destruct ls; try discriminate. reflexivity.
    - exact H.
  Qed.

  (* how the stepping thread's lockset may change, relative to the other threads *)
  Lemma tstep_lockset p i t e t' : nth_error p i = Some t -> tstep p t e t' ->
    forall m,
     (held m (fst t') = Some Ex -> held m (fst t) = Some Ex \/
          (forall j u, j <> i -> nth_error p j = Some u -> held m (fst u) = None)) /\
     (held m (fst t') <> None -> held m (fst t) <> None \/
          (forall j u, j <> i -> nth_error p j = Some u -> held m (fst u) <> Some Ex)).
  Proof.
    intros Hi Hs m. destruct Hs; cbn; try (split; intro; left; assumption).
    - (* AcqEx *) destruct (leqb m m0) eqn:E.
      + apply leqb_spec in E; subst. split; intros _; right; intros j u _ Hj.
        * eapply H; eauto.
        * erewrite H; eauto. discriminate.
      + split; intro; left; assumption.
    - (* AcqSh *) destruct (leqb m m0) eqn:E.
      + apply leqb_spec in E; subst. split; [discriminate|]. intros _; right; intros j u _ Hj. eapply H; eauto.
      + split; intro; left; assumption.
    - (* Rel *) split; intro Hh; left.
      + eapply held_drop_sub; eauto.
      + intro Hn. apply Hh. apply held_drop_none. exact Hn.
  Qed.

  Theorem step_inv p i e q : inv p -> step p i e q -> inv q.
  Proof.
    intros [Hok Hex] Hs. destruct Hs as [p i t e t' Hi Ht]. split.
    - intros j u Hj. apply nth_upd_inv in Hj as [(-> & -> & _) | (Hne & Hj)].
      + eapply tstep_ok; eauto.
      + eauto.
    - intros a b ta tb m Hab Ha Hb Hm.
      pose proof (tstep_lockset _ _ _ _ _ Hi Ht m) as [L1 L2].
      apply nth_upd_inv in Ha as [(-> & -> & _) | (Hnea & Ha)];
      apply nth_upd_inv in Hb as [(Eb & -> & _) | (Hneb & Hb)]; try congruence.
      + destruct (L1 Hm) as [Hold | Hfree].
        * eapply (Hex a b); eauto.
        * eapply Hfree; eauto.
      + subst b. destruct (held m (fst t')) eqn:E; [|reflexivity]. exfalso.
        destruct L2 as [Hold | Hnoex]; [congruence| |].
        * apply Hold. eapply (Hex a i); eauto.
        * eapply (Hnoex a); eauto.
      + eapply (Hex a b); eauto.
  Qed.

  Theorem exec_inv p tr q : inv p -> exec p tr q -> inv q.
  Proof. intros H Hs. induction Hs; auto. apply IHHs. eapply step_inv; eauto. Qed.

  Theorem steps_inv p q : inv p -> steps p q -> inv q.
  Proof. intros H [tr Hs]. eapply exec_inv; eauto. Qed.

  (* initial pools: every thread starts with no locks, running a body the checker accepts *)
  Definition initial (p : pool) : Prop :=
    forall i t, nth_error p i = Some t -> exists s, t = ([], [s]) /\ check_fn s = true.

  Lemma initial_inv p : initial p -> inv p.
  Proof.
    intro H. split.
    - intros i t Hi. destruct (H _ _ Hi) as (s & -> & Hw). unfold thread_ok, LockIR.check_fn in *. cbn.
      destruct (check [] s) as [[[|]|]|]; try discriminate; reflexivity.
    - intros i j t u m _ Hi _ Hm. destruct (H _ _ Hi) as (s & -> & _). discriminate.
  Qed.

  Theorem well_locked_race_free p q : initial p -> steps p q -> ~ race q.
  Proof. intros Hi Hs. apply inv_no_race. eapply steps_inv; eauto. apply initial_inv; assumption. Qed.

  (* atomicity: while thread i holds m exclusively, only i can be at an access of a field guarded by m;
     while i holds m shared, nobody else can be at a write of such a field *)
  Theorem excl_section_uninterrupted p i j t u m f w :
    inv p -> nth_error p i = Some t -> held m (fst t) = Some Ex ->
    nth_error p j = Some u -> at_access u f w -> guard f = m -> j = i.
  Proof.
    intros [Hok Hex] Hi Hm Hj Hu Hg. destruct (Nat.eq_dec j i) as [|Hne]; [assumption|exfalso].
    destruct (at_access_held _ _ _ (Hok _ _ Hj) Hu) as [_ Hn]. apply Hn. rewrite Hg.
    eapply (Hex i j); eauto.
  Qed.

  Theorem shared_section_sees_no_write p i j t u m f :
    inv p -> nth_error p i = Some t -> held m (fst t) <> None ->
    nth_error p j = Some u -> at_access u f true -> guard f = m -> j = i.
  Proof.
    intros [Hok Hex] Hi Hm Hj Hu Hg. destruct (Nat.eq_dec j i) as [|Hne]; [assumption|exfalso].
    destruct (at_access_held _ _ _ (Hok _ _ Hj) Hu) as [Hx _]. apply Hm. rewrite <- Hg.
    eapply (Hex j i); eauto.
  Qed.
  (* ---------------------------------------------------------------- blocking while locked *)
  Theorem inv_no_block_while_locked p i t :
    nb = true -> inv p -> nth_error p i = Some t -> at_block t -> fst t = [].
  Proof.
    intros Hnb [Hok _] Hi Hb. specialize (Hok _ _ Hi). destruct t as [ls k].
    unfold thread_ok, at_block in *. cbn in *.
    destruct k as [|s k]; [tauto|]. destruct s; try tauto. cbn in Hok.
    rewrite Hnb in Hok. cbn in Hok. destruct ls; [reflexivity|discriminate].
  Qed.

  (* ---------------------------------------------------------------- lock order *)
  Definition wrank (t : thread) : option nat :=
    match snd t with Acq m _ :: _ => Some (rank m) | _ => None end.

  Lemma at_acq_above t m :
    ord = true -> thread_ok t -> at_acq t m ->
    forall m' md, In (m', md) (fst t) -> rank m' < rank m.
  Proof.
    intros Ho Hok Ha m' md Hin. destruct t as [ls k]. unfold thread_ok, at_acq in *. cbn in *.
    destruct k as [|s k]; [tauto|]. destruct s; try tauto. subst m0. cbn in Hok.
    destruct (held m ls); [discriminate|]. rewrite Ho in Hok. cbn in Hok.
    destruct (above rank m ls) eqn:E; [|discriminate].
    unfold above in E. rewrite forallb_forall in E. specialize (E _ Hin). cbn in E.
    apply Nat.ltb_lt in E. exact E.
  Qed.

  Lemma wait_rank p i j :
    ord = true -> inv p -> waits_for p i j ->
    exists ri, (exists t, nth_error p i = Some t /\ wrank t = Some ri) /\
               forall u rj, nth_error p j = Some u -> wrank u = Some rj -> ri < rj.
  Proof.
    intros Ho [Hok _] (t & u & m & Hi & Hj & Ha & Hh).
    exists (rank m). split.
    - exists t. split; [assumption|]. unfold wrank, at_acq in *.
      destruct (snd t) as [|s k]; [tauto|]. destruct s; try tauto. subst; reflexivity.
    - intros u' rj Hj' Hw. rewrite Hj in Hj'. inversion Hj'; subst u'.
      destruct (held m (fst u)) as [md|] eqn:E; [|congruence].
      apply held_in in E.
      unfold wrank in Hw. destruct (snd u) as [|s k] eqn:Ek; [discriminate|].
      destruct s; try discriminate. inversion Hw; subst rj.
      eapply (at_acq_above u m0 Ho (Hok _ _ Hj)); [unfold at_acq; rewrite Ek; reflexivity|exact E].
  Qed.

  Theorem inv_no_wait_cycle p i :
    ord = true -> inv p -> ~ clos_trans nat (waits_for p) i i.
  Proof.
    intros Ho Hinv Hc.
    assert (G : forall a b, clos_trans nat (waits_for p) a b ->
              exists ra, (exists t, nth_error p a = Some t /\ wrank t = Some ra) /\
                         forall u rb, nth_error p b = Some u -> wrank u = Some rb -> ra < rb).
    { intros a b H. induction H as [a b H|a c b H1 IH1 H2 IH2].
      - apply wait_rank; assumption.
      - destruct IH1 as (ra & Ha & Hac). destruct IH2 as (rc & (tc & Hc1 & Hc2) & Hcb).
        exists ra. split; [assumption|]. intros u rb Hu Hw.
        specialize (Hac _ _ Hc1 Hc2). specialize (Hcb _ _ Hu Hw). lia. }
    destruct (G _ _ Hc) as (ri & (t & Ht & Hw) & Hlt).
    specialize (Hlt _ _ Ht Hw). lia.
  Qed.
  (* ---------------------------------------------------------------- one critical section per operation *)
  Notation sec := (sec leqb guard).
  Notation sec_cont := (sec_cont leqb guard).
  Notation phase_eqb := (phase_eqb leqb).

  (* what an event does to the phase of a single-section thread (None = not allowed) *)
  Definition ev_phase (ph : @phase L) (e : @event L F) : option (@phase L) :=
    match ph, e with
    | Before, ETau | Before, EBlock _ | Before, ERet => Some Before
    | Before, EAcq m _ => Some (Inside m)
    | Inside m, ETau | Inside m, EBlock _ => Some (Inside m)
    | Inside m, ERd f | Inside m, EWr f => if leqb (guard f) m then Some (Inside m) else None
    | Inside m, ERel m' => if leqb m' m then Some After else None
    | After, ETau | After, EBlock _ | After, ERet => Some After
    | _, _ => None
    end.

  (* the locks a single-section thread holds are determined by its phase *)
  Definition phase_locks (ph : @phase L) (ls : @lockset L) : Prop :=
    match ph with
    | Before | After => ls = []
    | Inside m => exists md, ls = [(m, md)]
    end.

  Fixpoint run_phase (i : nat) (ph : @phase L) (tr : list (nat * @event L F)) : option (@phase L) :=
    match tr with
    | [] => Some ph
    | (j, e) :: r =>
        if Nat.eqb j i
        then match ev_phase ph e with Some ph' => run_phase i ph' r | None => None end
        else run_phase i ph r
    end.

  Lemma phase_eqb_eq a b : phase_eqb a b = true -> a = b.
  Proof. destruct a, b; cbn; try discriminate; auto. intro H. apply leqb_spec in H. congruence. Qed.

  Lemma phase_eqb_refl a : phase_eqb a a = true.
  Proof. destruct a; cbn; auto. apply leqb_refl. Qed.

  Lemma tstep_sec p ls k e ls' k' ph :
    tstep p (ls, k) e (ls', k') -> e <> EJump -> sec_cont ph k = true ->
    exists ph', ev_phase ph e = Some ph' /\ sec_cont ph' k' = true.
  Proof.
    intros Hs Hj Hc. inversion Hs; subst; cbn in Hc.
    - exists ph. split; [destruct ph; reflexivity|exact Hc].
    - exists ph. split; [destruct ph; reflexivity|]. cbn.
      destruct (sec ph a) as [[p1|]|] eqn:Ea; try discriminate; auto.
    - exists ph. split; [destruct ph; reflexivity|]. cbn.
      destruct (sec ph a) as [[p1|]|] eqn:Ea; destruct (sec ph b) as [[p2|]|] eqn:Eb; try discriminate; auto.
      destruct (phase_eqb p1 p2) eqn:E; try discriminate. exact Hc.
    - exists ph. split; [destruct ph; reflexivity|]. cbn.
      destruct (sec ph a) as [[p1|]|] eqn:Ea; destruct (sec ph b) as [[p2|]|] eqn:Eb; try discriminate; auto.
      destruct (phase_eqb p1 p2) eqn:E; try discriminate. apply phase_eqb_eq in E. subst. exact Hc.
    - exists ph. split; [destruct ph; reflexivity|].
      destruct (sec ph b) as [[p1|]|] eqn:Eb; try discriminate; auto.
      destruct (phase_eqb p1 ph) eqn:E; try discriminate. exact Hc.
    - exists ph. split; [destruct ph; reflexivity|]. cbn.
      destruct (sec ph b) as [[p1|]|] eqn:Eb; try discriminate; auto.
      destruct (phase_eqb p1 ph) eqn:E; try discriminate. apply phase_eqb_eq in E. subst.
      rewrite Eb, phase_eqb_refl. exact Hc.
    - destruct ph; try discriminate. exists (Inside m). split; [reflexivity|exact Hc].
    - destruct ph; try discriminate. exists (Inside m). split; [reflexivity|exact Hc].
    - destruct ph as [|m'|]; try discriminate. destruct (leqb m m') eqn:E; try discriminate.
      exists After. split; [cbn; rewrite E; reflexivity|exact Hc].
    - destruct ph as [|m'|]; try discriminate. destruct (leqb (guard f) m') eqn:E; try discriminate.
      exists (Inside m'). split; [cbn; rewrite E; reflexivity|exact Hc].
    - destruct ph as [|m'|]; try discriminate. destruct (leqb (guard f) m') eqn:E; try discriminate.
      exists (Inside m'). split; [cbn; rewrite E; reflexivity|exact Hc].
    - exists ph. split; [destruct ph; reflexivity|exact Hc].
    - destruct ph; try discriminate; eexists; split; reflexivity.
    - congruence.
  Qed.

  Lemma tstep_phase_locks p ls k e ls' k' ph ph' :
    tstep p (ls, k) e (ls', k') -> phase_locks ph ls -> ev_phase ph e = Some ph' -> phase_locks ph' ls'.
  Proof.
    intros Hs HJ He. inversion Hs; subst; cbn in He;
      try (destruct ph; inversion He; subst; exact HJ).
    - destruct ph; try discriminate. inversion He; subst. cbn in HJ. subst. unfold phase_locks. exists Ex. reflexivity.
    - destruct ph; try discriminate. inversion He; subst. cbn in HJ. subst. unfold phase_locks. exists Sh. reflexivity.
    - destruct ph as [|m'|]; try discriminate. cbn in He. destruct (leqb m m') eqn:E; try discriminate.
      inversion He; subst. destruct HJ as [md ->]. unfold phase_locks. cbn. rewrite E. reflexivity.
    - destruct ph as [|m'|]; try discriminate. cbn in He. destruct (leqb (guard f) m'); inversion He; subst. exact HJ.
    - destruct ph as [|m'|]; try discriminate. cbn in He. destruct (leqb (guard f) m'); inversion He; subst. exact HJ.
  Qed.

  Definition no_jump (i : nat) (tr : list (nat * @event L F)) : Prop := ~ In (i, EJump) tr.

  (* the trace of a single-section thread: (no access)* Acq m (accesses of fields of m)* Rel m (no access)* *)
  Theorem single_section_trace p tr q i :
    exec p tr q -> no_jump i tr ->
    forall ls k ph, nth_error p i = Some (ls, k) -> sec_cont ph k = true -> phase_locks ph ls ->
    exists ph' ls' k', run_phase i ph tr = Some ph' /\ nth_error q i = Some (ls', k') /\
                       sec_cont ph' k' = true /\ phase_locks ph' ls'.
  Proof.
    intros He. induction He as [p|p j e q tr r Hs He IH]; intros Hnj ls k ph Hi Hc HJ.
    - exists ph, ls, k. cbn. auto.
    - assert (Hnj' : no_jump i tr) by (intro H; apply Hnj; right; exact H).
      destruct Hs as [p j [ls0 k0] e [ls1 k1] Hj Ht]. cbn [run_phase].
      destruct (Nat.eqb j i) eqn:Eji.
      + apply Nat.eqb_eq in Eji. subst j. rewrite Hi in Hj. inversion Hj; subst ls0 k0.
        assert (Hne : e <> EJump) by (intro; subst e; apply Hnj; left; reflexivity).
        destruct (tstep_sec _ _ _ _ _ _ _ Ht Hne Hc) as (ph1 & Hev & Hc1).
        pose proof (tstep_phase_locks _ _ _ _ _ _ _ _ Ht HJ Hev) as HJ1.
        rewrite Hev. eapply IH; eauto. eapply nth_upd_same; eauto.
      + apply Nat.eqb_neq in Eji. eapply IH; eauto. rewrite nth_upd_other by assumption. exact Hi.
  Qed.

  (* a step of thread j that writes (reads) f: every other thread holds guard f not at all (not exclusively) *)
  Theorem step_conflict_excluded p j e q i t :
    inv p -> step p j e q -> nth_error p i = Some t -> i <> j ->
    (forall f, e = EWr f -> held (guard f) (fst t) = None) /\
    (forall f, e = ERd f -> held (guard f) (fst t) <> Some Ex).
  Proof.
    intros [Hok Hex] Hs Hi Hne. destruct Hs as [p j u e u' Hj Ht]. split; intros f ->.
    - assert (Ha : at_access u f true) by (inversion Ht; subst; cbn; auto).
      destruct (at_access_held _ _ _ (Hok _ _ Hj) Ha) as [Hx _].
      eapply (Hex j i); eauto.
    - assert (Ha : at_access u f false) by (inversion Ht; subst; cbn; auto).
      destruct (at_access_held _ _ _ (Hok _ _ Hj) Ha) as [_ Hn].
      intro Hx. apply Hn. eapply (Hex i j); eauto.
  Qed.

  (* Per-object atomicity (the part of "equivalent to a serial use" that is proved): while a single-section
     thread i is inside its section on m, no other thread writes a field guarded by m, and no other thread
     reads one unless i's own section is a shared one.
     FULL STATEMENT (not proved, stretch goal of DESIGN.md): for every execution there is an execution with the
     same per-thread traces in which the events of each critical section are contiguous, and it ends in the same
     store values - i.e. value-level serial equivalence. What is proved instead: all accesses of an operation lie
     inside one section (single_section_trace) and sections on the same lock never overlap with a conflicting
     access (this theorem); values are not modelled by the IR. *)
  Theorem single_section_atomic_partial p tr p1 i ls k j e p2 m :
    inv p -> exec p tr p1 -> no_jump i tr ->
    nth_error p i = Some (ls, k) -> sec_cont Before k = true -> ls = [] ->
    run_phase i Before tr = Some (Inside m) ->
    step p1 j e p2 -> j <> i ->
    (forall f, e = EWr f -> guard f <> m) /\
    (forall f, e = ERd f -> guard f = m -> exists k1, nth_error p1 i = Some ([(m, Sh)], k1)).
  Proof.
    intros Hinv He Hnj Hi Hc Hls Hrun Hs Hne.
    destruct (single_section_trace _ _ _ _ He Hnj ls k Before Hi Hc Hls) as (ph' & ls' & k' & Hr & Hi1 & _ & HJ).
    rewrite Hrun in Hr. inversion Hr; subst ph'. destruct HJ as [md ->].
    pose proof (exec_inv _ _ _ Hinv He) as Hinv1.
    assert (Hne' : i <> j) by congruence.
    destruct (step_conflict_excluded _ _ _ _ _ _ Hinv1 Hs Hi1 Hne') as [Hw Hrd]. split.
    - intros f -> Hg. specialize (Hw f eq_refl). cbn in Hw. rewrite Hg, leqb_refl in Hw. discriminate.
    - intros f -> Hg. specialize (Hrd f eq_refl). cbn in Hrd. rewrite Hg, leqb_refl in Hrd.
      destruct md; [exists k'; exact Hi1|congruence].
  Qed.
  Lemma single_section_cont s : single_section leqb guard s = true -> sec_cont Before [s] = true.
  Proof.
    unfold single_section. cbn. destruct (sec Before s) as [[[| |]|]|]; try discriminate; reflexivity.
  Qed.
End Generic.



(* ------------------------------------------------------------------------------------------ *)
(* The checker is stable under an injective renaming of locks that commutes with guard and rank:
   the generated program is checked over syntactic names, threads run over runtime objects. *)
Section Rename.
  Context {L F L' F' : Type}.
  Variable leqb : L -> L -> bool.
  Hypothesis leqb_spec : forall a b, leqb a b = true <-> a = b.
  Variable leqb' : L' -> L' -> bool.
  Hypothesis leqb'_spec : forall a b, leqb' a b = true <-> a = b.
  Variable guard : F -> L.
  Variable guard' : F' -> L'.
  Variable rank : L -> nat.
  Variable rank' : L' -> nat.
  Variable nb ord : bool.
  Variable fl : L -> L'.
  Variable ff : F -> F'.
  Hypothesis fl_inj : forall a b, fl a = fl b -> a = b.
  Hypothesis guard_comm : forall f, guard' (ff f) = fl (guard f).
  Hypothesis rank_comm : forall m, rank' (fl m) = rank m.

  Definition mapls (ls : @lockset L) : @lockset L' := map (fun e => (fl (fst e), snd e)) ls.

  Lemma leqb_fl a b : leqb' (fl a) (fl b) = leqb a b.
  Proof.
    destruct (leqb a b) eqn:E.
    - apply leqb_spec in E. subst. apply leqb'_spec. reflexivity.
    - destruct (leqb' (fl a) (fl b)) eqn:E'; [|reflexivity].
      apply leqb'_spec in E'. apply fl_inj in E'. apply leqb_spec in E'. congruence.
  Qed.

  Lemma held_map m ls : held leqb' (fl m) (mapls ls) = held leqb m ls.
  Proof.
    induction ls as [|[m' md] ls IH]; [reflexivity|].
    cbn [mapls map held fst snd]. fold (mapls ls). rewrite leqb_fl, IH. reflexivity.
  Qed.

  Lemma drop_map m ls : drop leqb' (fl m) (mapls ls) = mapls (drop leqb m ls).
  Proof.
    induction ls as [|[m' md] ls IH]; [reflexivity|].
    cbn [mapls map drop fst snd]. fold (mapls ls). rewrite leqb_fl.
    destruct (leqb m m'); [exact IH|]. cbn [mapls map fst snd]. fold (mapls (drop leqb m ls)). rewrite <- IH. reflexivity.
  Qed.

  Lemma lockset_eqb_map a b : lockset_eqb leqb' (mapls a) (mapls b) = lockset_eqb leqb a b.
  Proof.
    revert b; induction a as [|[m md] a IH]; intros [|[m' md'] b]; try reflexivity.
    cbn [mapls map lockset_eqb fst snd]. fold (mapls a). fold (mapls b). rewrite leqb_fl, IH. reflexivity.
  Qed.

  Lemma above_map m ls : above rank' (fl m) (mapls ls) = above rank m ls.
  Proof.
    unfold above. induction ls as [|[m' md] ls IH]; cbn [mapls map forallb fst snd]; [reflexivity|].
    fold (mapls ls). rewrite IH, !rank_comm. reflexivity.
  Qed.

  Lemma is_nil_map ls : is_nil (mapls ls) = is_nil ls.
  Proof. destruct ls; reflexivity. Qed.

  Definition mapres (r : option (option (@lockset L))) : option (option (@lockset L')) :=
    option_map (option_map mapls) r.

  Lemma check_smap s : forall ls,
    check leqb' guard' rank' nb ord (mapls ls) (smap fl ff s) = mapres (check leqb guard rank nb ord ls s).
  Proof.
    induction s as [|a IHa b IHb|a IHa b IHb|b IHb|m md|m|f|f|c|]; intro ls; cbn [smap check].
    - reflexivity.
    - rewrite IHa. destruct (check leqb guard rank nb ord ls a) as [[l1|]|]; cbn; auto.
    - rewrite IHa, IHb.
      destruct (check leqb guard rank nb ord ls a) as [[l1|]|];
      destruct (check leqb guard rank nb ord ls b) as [[l2|]|]; cbn; auto.
      rewrite lockset_eqb_map. destruct (lockset_eqb leqb l1 l2); reflexivity.
    - rewrite IHb. destruct (check leqb guard rank nb ord ls b) as [[l1|]|]; cbn; auto.
      rewrite lockset_eqb_map. destruct (lockset_eqb leqb l1 ls); reflexivity.
    - rewrite held_map, above_map. destruct (held leqb m ls); [reflexivity|].
      destruct (negb ord || above rank m ls); reflexivity.
    - rewrite held_map, drop_map. destruct (held leqb m ls); reflexivity.
    - rewrite guard_comm, held_map. destruct (held leqb (guard f) ls); reflexivity.
    - rewrite guard_comm, held_map. destruct (held leqb (guard f) ls) as [[|]|]; reflexivity.
    - rewrite is_nil_map. destruct (negb nb || is_nil ls); reflexivity.
    - destruct ls; reflexivity.
  Qed.

  Lemma check_fn_smap s :
    check_fn leqb' guard' rank' nb ord (smap fl ff s) = check_fn leqb guard rank nb ord s.
  Proof.
    unfold check_fn. change (@nil (L' * mode)) with (mapls []). rewrite check_smap.
    destruct (check leqb guard rank nb ord [] s) as [[[|e l]|]|]; reflexivity.
  Qed.
  Lemma check_cont_smap k : forall ls,
    check_cont leqb' guard' rank' nb ord (mapls ls) (map (smap fl ff) k) = check_cont leqb guard rank nb ord ls k.
  Proof.
    induction k as [|s k IH]; intro ls; cbn [map check_cont].
    - apply is_nil_map.
    - rewrite check_smap. destruct (check leqb guard rank nb ord ls s) as [[l1|]|]; cbn; auto.
  Qed.
  (* the single-section checker under the same renaming *)
  Definition mapph (ph : @phase L) : @phase L' :=
    match ph with Before => Before | Inside m => Inside (fl m) | After => After end.

  Lemma phase_eqb_map a b : phase_eqb leqb' (mapph a) (mapph b) = phase_eqb leqb a b.
  Proof. destruct a, b; cbn; try reflexivity. apply leqb_fl. Qed.

  Lemma sec_smap s : forall ph,
    sec leqb' guard' (mapph ph) (smap fl ff s) = option_map (option_map mapph) (sec leqb guard ph s).
  Proof.
    induction s as [|a IHa b IHb|a IHa b IHb|b IHb|m md|m|f|f|c|]; intro ph; cbn [smap sec].
    - reflexivity.
    - rewrite IHa. destruct (sec leqb guard ph a) as [[p1|]|]; cbn; auto.
    - rewrite IHa, IHb.
      destruct (sec leqb guard ph a) as [[p1|]|]; destruct (sec leqb guard ph b) as [[p2|]|]; cbn; auto.
      rewrite phase_eqb_map. destruct (phase_eqb leqb p1 p2); reflexivity.
    - rewrite IHb. destruct (sec leqb guard ph b) as [[p1|]|]; cbn; auto.
      rewrite phase_eqb_map. destruct (phase_eqb leqb p1 ph); reflexivity.
    - destruct ph; reflexivity.
    - destruct ph as [|m'|]; cbn; try reflexivity. rewrite leqb_fl. destruct (leqb m m'); reflexivity.
    - destruct ph as [|m'|]; cbn; try reflexivity. rewrite guard_comm, leqb_fl. destruct (leqb (guard f) m'); reflexivity.
    - destruct ph as [|m'|]; cbn; try reflexivity. rewrite guard_comm, leqb_fl. destruct (leqb (guard f) m'); reflexivity.
    - reflexivity.
    - destruct ph; reflexivity.
  Qed.

  Lemma single_section_smap s :
    single_section leqb' guard' (smap fl ff s) = single_section leqb guard s.
  Proof.
    unfold single_section. change (@Before L') with (mapph Before). rewrite sec_smap.
    destruct (sec leqb guard Before s) as [[[| |]|]|]; reflexivity.
  Qed.
End Rename.



(* ------------------------------------------------------------------------------------------ *)
(* The relay instance: syntactic program, threads over runtime objects. *)
Lemma sname_eqb_spec a b : sname_eqb a b = true <-> a = b.
Proof.
  destruct a as [a1 a2], b as [b1 b2]. unfold sname_eqb. cbn.
  rewrite andb_true_iff, !String.eqb_eq. split; [intros [-> ->]; reflexivity|intros [= -> ->]; auto].
Qed.

Lemma oname_eqb_spec a b : oname_eqb a b = true <-> a = b.
Proof.
  destruct a as [a1 a2], b as [b1 b2]. unfold oname_eqb. cbn.
  rewrite andb_true_iff, N.eqb_eq, String.eqb_eq. split; [intros [-> ->]; reflexivity|intros [= -> ->]; auto].
Qed.

Definition injective (rho : string -> N) : Prop := forall a b, rho a = rho b -> a = b.

(* a pool of any number of threads, each running any function of the program on any objects *)
Definition runs (prog : program) (p : @pool oname oname) : Prop :=
  forall i t, nth_error p i = Some t ->
    exists name body rho, In (name, body) prog /\ injective rho /\ t = ([], [inst rho body]).

(* reachable pools; [nb]/[ord] select which discipline the code a thread may jump to has to satisfy
   (the same one the program is checked against) *)
Definition ojump (nb ord : bool) := @jump_chk oname oname oname_eqb guard_of rank_of nb ord.
Definition reach (nb ord : bool) (prog : program) (q : @pool oname oname) : Prop :=
  exists p, runs prog p /\ steps oname_eqb (ojump nb ord) p q.

Section Relay.
  Variable nb ord : bool.
  Notation chk := (check_fn sname_eqb guard_of rank_of nb ord).
  Notation ochk := (check_fn oname_eqb guard_of rank_of nb ord).

  Lemma inst_check rho s : injective rho -> ochk (inst rho s) = chk s.
  Proof.
    intro Hinj. unfold inst.
    apply (check_fn_smap sname_eqb sname_eqb_spec oname_eqb oname_eqb_spec guard_of guard_of rank_of rank_of).
    - intros [a1 a2] [b1 b2] H. inversion H. f_equal. apply Hinj. assumption.
    - intros [p f]. reflexivity.
    - intros [p m]. reflexivity.
  Qed.

  Lemma runs_initial prog p :
    all_fns chk prog = true -> runs prog p -> initial oname_eqb guard_of rank_of nb ord p.
  Proof.
    intros Hall Hr i t Hi. destruct (Hr _ _ Hi) as (name & body & rho & Hin & Hinj & ->).
    exists (inst rho body). split; [reflexivity|]. rewrite inst_check by assumption.
    unfold all_fns in Hall. rewrite forallb_forall in Hall. exact (Hall _ Hin).
  Qed.

  Lemma reach_inv prog q :
    all_fns chk prog = true -> reach nb ord prog q -> inv oname_eqb guard_of rank_of nb ord q.
  Proof.
    intros Hall (p & Hr & Hs). eapply steps_inv; [exact oname_eqb_spec| |exact Hs].
    apply initial_inv. apply (runs_initial prog); assumption.
  Qed.
End Relay.

Theorem prog_race_free prog q : well_locked_prog prog = true -> reach false false prog q -> ~ race q.
Proof. intros Hw Hr. eapply inv_no_race. eapply (reach_inv false false prog); eassumption. Qed.

Theorem prog_excl_section_uninterrupted prog q i j t u m f w :
  well_locked_prog prog = true -> reach false false prog q ->
  nth_error q i = Some t -> held oname_eqb m (fst t) = Some Ex ->
  nth_error q j = Some u -> at_access u f w -> guard_of f = m -> j = i.
Proof.
  intros Hw Hr. eapply excl_section_uninterrupted. eapply (reach_inv false false prog); eassumption.
Qed.

Theorem prog_shared_section_sees_no_write prog q i j t u m f :
  well_locked_prog prog = true -> reach false false prog q ->
  nth_error q i = Some t -> held oname_eqb m (fst t) <> None ->
  nth_error q j = Some u -> at_access u f true -> guard_of f = m -> j = i.
Proof.
  intros Hw Hr. eapply shared_section_sees_no_write. eapply (reach_inv false false prog); eassumption.
Qed.

Theorem prog_no_block_while_locked prog q i t :
  no_block_while_locked prog = true -> reach true false prog q ->
  nth_error q i = Some t -> at_block t -> fst t = [].
Proof.
  intros Hw Hr. eapply inv_no_block_while_locked; [reflexivity|]. eapply (reach_inv true false prog); eassumption.
Qed.

Theorem prog_no_wait_cycle prog q i :
  lock_order_ok prog = true -> reach false true prog q -> ~ clos_trans nat (waits_for oname_eqb q) i i.
Proof.
  intros Hw Hr. eapply (inv_no_wait_cycle oname_eqb oname_eqb_spec); [reflexivity|].
  eapply (reach_inv false true prog); eassumption.
Qed.

(* ---- re-instantiation is a jump: between critical sections a name may come to denote another object *)
Definition inst_ls (rho : string -> N) (ls : @lockset sname) : @lockset oname :=
  map (fun e => ((rho (fst (fst e)), snd (fst e)), snd e)) ls.

Theorem rebind_is_jump nb ord rho rho' ls k :
  injective rho' ->
  (forall m md, In (m, md) ls -> rho' (fst m) = rho (fst m)) ->
  check_cont sname_eqb guard_of rank_of nb ord ls k = true ->
  ojump nb ord (inst_ls rho ls) (map (inst rho') k).
Proof.
  intros Hinj Hag Hc. unfold ojump, jump_chk.
  assert (E : inst_ls rho ls = inst_ls rho' ls).
  { unfold inst_ls. apply map_ext_in. intros [m md] Hin. cbn. rewrite (Hag _ _ Hin). reflexivity. }
  rewrite E. unfold inst.
  rewrite <- Hc.
  apply (check_cont_smap sname_eqb sname_eqb_spec oname_eqb oname_eqb_spec guard_of guard_of rank_of rank_of nb ord
           (fun m : sname => (rho' (fst m), snd m)) (fun f : sname => (rho' (fst f), snd f))).
  - intros [a1 a2] [b1 b2] H. inversion H. f_equal. apply Hinj. assumption.
  - intros [p f]. reflexivity.
  - intros [p m]. reflexivity.
Qed.

(* ---- single critical section per store operation *)
Lemma inst_single_section rho s :
  injective rho -> single_section oname_eqb guard_of (inst rho s) = single_section_fn s.
Proof.
  intro Hinj. unfold inst, single_section_fn.
  apply (single_section_smap sname_eqb sname_eqb_spec oname_eqb oname_eqb_spec guard_of guard_of).
  - intros [a1 a2] [b1 b2] H. inversion H. f_equal. apply Hinj. assumption.
  - intros [p f]. reflexivity.
Qed.

Lemma store_method_single names prog name body :
  single_section_prog names prog = true -> In (name, body) prog -> In name names ->
  single_section_fn body = true.
Proof.
  unfold single_section_prog. intros H Hin Hn. apply andb_prop in H as [H _].
  rewrite forallb_forall in H. specialize (H _ Hin). cbn in H.
  assert (E : existsb (String.eqb name) names = true).
  { apply existsb_exists. exists name. split; [assumption|apply String.eqb_refl]. }
  rewrite E in H. exact H.
Qed.

Theorem prog_single_section_trace nb ord names prog p tr q i name body rho :
  single_section_prog names prog = true -> In (name, body) prog -> In name names -> injective rho ->
  nth_error p i = Some ([], [inst rho body]) ->
  exec oname_eqb (ojump nb ord) p tr q -> no_jump i tr ->
  exists ph, run_phase oname_eqb guard_of i Before tr = Some ph.
Proof.
  intros Hs Hin Hn Hinj Hi He Hnj.
  pose proof (store_method_single _ _ _ _ Hs Hin Hn) as Hb.
  rewrite <- (inst_single_section rho) in Hb by assumption.
  apply (single_section_cont oname_eqb guard_of) in Hb.
  destruct (single_section_trace oname_eqb oname_eqb_spec guard_of rank_of nb ord _ _ _ _ He Hnj [] _ Before Hi Hb eq_refl)
    as (ph & _ & _ & Hr & _).
  exists ph. exact Hr.
Qed.

Theorem prog_single_section_atomic_partial names prog p tr p1 i name body rho j e p2 m :
  well_locked_prog prog = true -> single_section_prog names prog = true -> runs prog p ->
  In (name, body) prog -> In name names -> injective rho ->
  nth_error p i = Some ([], [inst rho body]) ->
  exec oname_eqb (ojump false false) p tr p1 -> no_jump i tr ->
  run_phase oname_eqb guard_of i Before tr = Some (Inside m) ->
  step oname_eqb (ojump false false) p1 j e p2 -> j <> i ->
  (forall f, e = EWr f -> guard_of f <> m) /\
  (forall f, e = ERd f -> guard_of f = m -> exists k1, nth_error p1 i = Some ([(m, Sh)], k1)).
Proof.
  intros Hw Hs Hr Hin Hn Hinj Hi He Hnj Hrun Hst Hne.
  pose proof (store_method_single _ _ _ _ Hs Hin Hn) as Hb.
  rewrite <- (inst_single_section rho) in Hb by assumption.
  apply (single_section_cont oname_eqb guard_of) in Hb.
  eapply (single_section_atomic_partial oname_eqb oname_eqb_spec guard_of rank_of false false); eauto.
  apply initial_inv. apply (runs_initial false false prog); assumption.
Qed.

(* ---- non-vacuity: an injective instantiation exists, and a concrete two-thread execution of a well-locked
   program reaches a pool where one thread is inside its exclusive section and the other waits for it *)
Fixpoint enc (s : string) : N :=
  match s with EmptyString => 0 | String a r => 1 + N_of_ascii a + 256 * enc r end.

Lemma enc_injective : injective enc.
Proof.
  intro a. induction a as [|x a IH]; intros [|y b]; cbn [enc]; intro H.
  - reflexivity.
  - exfalso. lia.
  - exfalso. lia.
  - pose proof (N_ascii_bounded x) as Bx. pose proof (N_ascii_bounded y) as By.
    assert (E1 : N_of_ascii x = N_of_ascii y) by lia.
    assert (E2 : enc a = enc b) by lia.
    apply IH in E2. subst b.
    apply (f_equal ascii_of_N) in E1. rewrite !ascii_N_embedding in E1. subst y. reflexivity.
Qed.

Local Open Scope string_scope.
Definition w_lock : sname := ("h", "Hub.mu").
Definition w_field : sname := ("h", "Hub.clients").
Definition w_writer : sstmt := Seq (Acq w_lock Ex) (Seq (Wr w_field) (Rel w_lock)).
Definition w_reader : sstmt := Seq (Acq w_lock Sh) (Seq (Loop (Rd w_field)) (Seq (Rel w_lock) Return)).
Definition w_prog : program := [("writer", w_writer); ("reader", w_reader)].

Lemma witness_execution :
  well_locked_prog w_prog = true /\ no_block_while_locked w_prog = true /\ lock_order_ok w_prog = true /\
  single_section_prog ["writer"; "reader"] w_prog = true /\
  exists q t0 t1,
    reach false false w_prog q /\
    nth_error q 0 = Some t0 /\ nth_error q 1 = Some t1 /\
    held oname_eqb (enc "h", "Hub.mu") (fst t0) = Some Ex /\
    at_access t0 (enc "h", "Hub.clients") true /\
    at_acq t1 (enc "h", "Hub.mu") /\
    waits_for oname_eqb q 1 0.
Proof.
  repeat (split; [vm_compute; reflexivity|]).
  set (m := (enc "h", "Hub.mu") : oname). set (f := (enc "h", "Hub.clients") : oname).
  set (p0 := [([], [inst enc w_writer]); ([], [inst enc w_reader])] : @pool oname oname).
  set (t0 := ([(m, Ex)], [Wr f; Rel m]) : @thread oname oname).
  set (t1 := ([], [Acq m Sh; Seq (Loop (Rd f)) (Seq (Rel m) Return)]) : @thread oname oname).
  exists [t0; t1], t0, t1.
  assert (Hfree : free oname_eqb m [([], [Acq m Ex; Seq (Wr f) (Rel m)]); ([], [inst enc w_reader])]).
  { intros [|[|j]] t Ht; cbn in Ht; inversion Ht; subst; try reflexivity. destruct j; discriminate. }
  split; [|split; [reflexivity|split; [reflexivity|split; [reflexivity|split; [split; reflexivity|split; [reflexivity|]]]]]].
  - exists p0. split.
    + intros [|[|j]] t Ht; cbn in Ht; inversion Ht; subst.
      * exists "writer", w_writer, enc. repeat split; [left; reflexivity|exact enc_injective].
      * exists "reader", w_reader, enc. repeat split; [right; left; reflexivity|exact enc_injective].
      * destruct j; discriminate.
    + exists [(0, ETau); (0, EAcq m Ex); (0, ETau); (1, ETau)].
      eapply exec_cons. { eapply (Step _ _ _ 0); [reflexivity|apply TSeq]. }
      eapply exec_cons. { eapply (Step _ _ _ 0); [reflexivity|apply TAcqEx; exact Hfree]. }
      eapply exec_cons. { eapply (Step _ _ _ 0); [reflexivity|apply TSeq]. }
      eapply exec_cons. { eapply (Step _ _ _ 1); [reflexivity|apply TSeq]. }
      apply exec_nil.
  - exists t1, t0, m. split; [reflexivity|split; [reflexivity|split; [reflexivity|vm_compute; discriminate]]].
Qed.
