(* Invariants of the aggregating hub model (C15): the hub never closes a Stopped channel twice,
   a stream client's sub-subscriptions are exactly its stream's latest rule, and a broadcast is
   offered to exactly the subscribers the history says. *)
From Relay Require Import Base.Prelude Base.AList Model.Agg.

(* ------------------------------------------------------------------ equalities *)
Lemma topic_eqb_spec a b : topic_eqb a b = true <-> a = b.
Proof.
  destruct a, b; cbn; rewrite ?N.eqb_eq; split; intros H; try discriminate; congruence.
Qed.

Lemma client_eqb_spec a b : client_eqb a b = true <-> a = b.
Proof.
  destruct a as [i t], b as [j u]; unfold client_eqb; cbn [fst snd].
  rewrite andb_true_iff, N.eqb_eq, topic_eqb_spec.
  split; [intros [-> ->]; reflexivity|intros H; inversion H; auto].
Qed.

Lemma member_eqb_spec a b : member_eqb a b = true <-> a = b.
Proof.
  destruct a as [c|i f o], b as [d|j g p]; cbn.
  - rewrite client_eqb_spec. split; congruence.
  - split; intros H; discriminate.
  - split; intros H; discriminate.
  - rewrite !andb_true_iff, !N.eqb_eq, client_eqb_spec.
    split; [intros [[-> ->] ->]; reflexivity|intros H; inversion H; auto].
Qed.

Local Notation EN := N.eqb_eq.
Local Notation EC := client_eqb_spec.

Lemma client_eqb_refl c : client_eqb c c = true.
Proof. apply EC; reflexivity. Qed.

Lemma client_eqb_neq a b : a <> b -> client_eqb a b = false.
Proof. intros H; destruct (client_eqb a b) eqn:E; [apply EC in E; contradiction|reflexivity]. Qed.

Lemma client_dec (a b : client) : a = b \/ a <> b.
Proof. destruct (client_eqb a b) eqn:E; [left; apply EC; exact E|right; intros H; apply EC in H; congruence]. Qed.

Lemma existsb_client c l : existsb (client_eqb c) l = true <-> In c l.
Proof.
  rewrite existsb_exists. split.
  - intros [x [Hx E]]. apply EC in E. subst; exact Hx.
  - intros H. exists c. split; [exact H|apply client_eqb_refl].
Qed.

Lemma existsb_N x l : existsb (N.eqb x) l = true <-> In x l.
Proof.
  rewrite existsb_exists. split.
  - intros [y [Hy E]]. apply EN in E. subst; exact Hy.
  - intros H. exists x. split; [exact H|apply N.eqb_refl].
Qed.

(* ------------------------------------------------------------------ the three maps *)
Lemma slk_ins_eq c l m : slk c (sins c l m) = Some l.
Proof. apply lookup_insert_eq; exact EC. Qed.
Lemma slk_ins_neq c c' l m : c <> c' -> slk c (sins c' l m) = slk c m.
Proof. intros H; apply lookup_insert_neq; [exact EC|exact H]. Qed.
Lemma slk_rm_eq c m : slk c (srm c m) = None.
Proof. apply lookup_remove_eq; exact EC. Qed.
Lemma slk_rm_neq c c' m : c <> c' -> slk c (srm c' m) = slk c m.
Proof. intros H; apply lookup_remove_neq; [exact EC|exact H]. Qed.
Lemma tlk_ins_eq t l m : tlk t (tins t l m) = Some l.
Proof. apply lookup_insert_eq; exact EN. Qed.
Lemma tlk_ins_neq t t' l m : t <> t' -> tlk t (tins t' l m) = tlk t m.
Proof. intros H; apply lookup_insert_neq; [exact EN|exact H]. Qed.
Lemma rlk_ins_eq t l m : rlk t (rins t l m) = Some l.
Proof. apply lookup_insert_eq; exact EN. Qed.
Lemma rlk_ins_neq t t' l m : t <> t' -> rlk t (rins t' l m) = rlk t m.
Proof. intros H; apply lookup_insert_neq; [exact EN|exact H]. Qed.
Lemma rlk_rm_eq t m : rlk t (rrm t m) = None.
Proof. apply lookup_remove_eq; exact EN. Qed.
Lemma rlk_rm_neq t t' m : t <> t' -> rlk t (rrm t' m) = rlk t m.
Proof. intros H; apply lookup_remove_neq; [exact EN|exact H]. Qed.

Lemma slk_drop_in c cs m : In c cs -> slk c (drop_keys cs m) = None.
Proof.
  induction cs as [|d r IH]; cbn [drop_keys fold_right]; [intros []|].
  intros [->|H]; [apply slk_rm_eq|].
  destruct (client_dec c d) as [->|Hn]; [apply slk_rm_eq|].
  rewrite slk_rm_neq by exact Hn. apply IH; exact H.
Qed.

Lemma slk_drop_out c cs m : ~ In c cs -> slk c (drop_keys cs m) = slk c m.
Proof.
  induction cs as [|d r IH]; cbn [drop_keys fold_right]; [reflexivity|].
  intros H. rewrite slk_rm_neq by (intros ->; apply H; left; reflexivity).
  apply IH. intros Hr; apply H; right; exact Hr.
Qed.

Lemma nodup_drop cs m : NoDup (keys m) -> NoDup (keys (drop_keys cs m)).
Proof.
  intros H; induction cs as [|d r IH]; cbn [drop_keys fold_right]; [exact H|].
  apply nodup_remove; try exact EC; exact IH.
Qed.

(* ------------------------------------------------------------------ small list facts *)
Lemma nodup_app_intro {A} (a b : list A) :
  NoDup a -> NoDup b -> (forall x, In x a -> ~ In x b) -> NoDup (a ++ b).
Proof.
  induction a as [|x a IH]; cbn; intros Ha Hb Hd; [exact Hb|].
  inversion Ha as [|? ? Hx Ha']; subst. constructor.
  - rewrite in_app_iff. intros [H|H]; [exact (Hx H)|exact (Hd x (or_introl eq_refl) H)].
  - apply IH; [exact Ha'|exact Hb|]. intros y Hy. apply Hd. right; exact Hy.
Qed.

Lemma in_unreg_sub m id inn : In m (unreg_sub id inn) <-> In m inn /\ is_sub id m = false.
Proof.
  unfold unreg_sub. rewrite filter_In. destruct (is_sub id m); cbn; split; intros [H1 H2]; split; congruence.
Qed.

Lemma in_add_client x c l : In x (add_client c l) <-> x = c \/ In x l.
Proof.
  unfold add_client. destruct (existsb (client_eqb c) l) eqn:E.
  - apply existsb_client in E. split; [intros H; right; exact H|intros [->|H]; assumption].
  - cbn. split; intros [H|H]; auto.
Qed.

Lemma nodup_add_client c l : NoDup l -> NoDup (add_client c l).
Proof.
  intros H. unfold add_client. destruct (existsb (client_eqb c) l) eqn:E; [exact H|].
  constructor; [|exact H]. intros Hin. apply existsb_client in Hin. congruence.
Qed.

Lemma in_del_client x c l : In x (del_client c l) <-> In x l /\ x <> c.
Proof.
  unfold del_client. rewrite filter_In. split.
  - intros [H1 H2]. split; [exact H1|]. intros ->. rewrite client_eqb_refl in H2. discriminate.
  - intros [H1 H2]. split; [exact H1|]. rewrite client_eqb_neq; [reflexivity|congruence].
Qed.

Lemma nodup_del_client c l : NoDup l -> NoDup (del_client c l).
Proof. apply NoDup_filter. Qed.

(* ------------------------------------------------------------------ fresh sub-clients *)
Lemma mk_subs_feeds fs n : map snd (mk_subs fs n) = fs.
Proof. revert n; induction fs as [|f r IH]; intros n; cbn; [reflexivity|rewrite IH; reflexivity]. Qed.

Lemma mk_subs_range fs : forall n id f, In (id, f) (mk_subs fs n) -> (n <= id < n + N.of_nat (length fs))%N.
Proof.
  induction fs as [|g r IH]; intros n id f; cbn [mk_subs length]; [intros []|].
  intros [H|H]; [inversion H; subst; lia|]. apply IH in H. lia.
Qed.

Lemma mk_subs_ids_range fs n id : In id (map fst (mk_subs fs n)) -> (n <= id < n + N.of_nat (length fs))%N.
Proof.
  rewrite in_map_iff. intros [[i f] [E H]]. cbn in E; subst i. eapply mk_subs_range; exact H.
Qed.

Lemma mk_subs_nodup fs : forall n, NoDup (map fst (mk_subs fs n)).
Proof.
  induction fs as [|g r IH]; intros n; cbn [mk_subs map fst]; constructor; [|apply IH].
  intros H. apply mk_subs_ids_range in H. lia.
Qed.

(* ------------------------------------------------------------------ teardown *)
Lemma teardown_ok l : forall inn cl,
  NoDup (map fst l) -> (forall id, In id (map fst l) -> ~ In id cl) ->
  exists inn' cl', teardown l inn cl = Some (inn', cl') /\
    (forall id, In id cl' <-> In id cl \/ In id (map fst l)) /\
    (forall m, In m inn' <-> In m inn /\ forall id, In id (map fst l) -> is_sub id m = false).
Proof.
  induction l as [|e r IH]; intros inn cl Hnd Hfresh; cbn [teardown map].
  - exists inn, cl. split; [reflexivity|]. split.
    + intros id. split; [intros H; left; exact H|intros [H|[]]; exact H].
    + intros m. split; [intros H; split; [exact H|intros ? []]|intros [H _]; exact H].
  - inversion Hnd as [|? ? Hx Hnd']; subst.
    destruct (existsb (N.eqb (fst e)) cl) eqn:E.
    { apply existsb_N in E. exfalso. apply (Hfresh (fst e)); [left; reflexivity|exact E]. }
    destruct (IH (unreg_sub (fst e) inn) (fst e :: cl) Hnd') as (inn' & cl' & Ht & Hcl & Hinn).
    { intros id Hid [E0|Hc]; [subst id; exact (Hx Hid)|]. apply (Hfresh id); [right; exact Hid|exact Hc]. }
    exists inn', cl'. split; [exact Ht|]. split.
    + intros id. rewrite Hcl. cbn [In]. tauto.
    + intros m. rewrite Hinn, in_unreg_sub. split.
      * intros [[H1 H2] H3]. split; [exact H1|]. intros id [E0|Hid]; [subst id; exact H2|apply H3; exact Hid].
      * intros [H1 H2]. split; [split; [exact H1|apply H2; left; reflexivity]|].
        intros id Hid. apply H2. right; exact Hid.
Qed.

(* ------------------------------------------------------------------ the identity invariant *)
(* every sub-client recorded in SubClients has its own, still open, Stopped channel and is a
   member of the inner hub; the streams table is a table of sets of stream clients *)
Record Base (s : st) : Prop := mkBase {
  b_nd_subs : NoDup (keys (subs s));
  b_cl : forall t l, tlk t (streams s) = Some l -> NoDup l /\ forall c, In c l -> snd c = TStream t;
  b_ids_nd : forall c, NoDup (map fst (entries c s));
  b_own : forall c c' id f f', In (id, f) (entries c s) -> In (id, f') (entries c' s) -> c = c';
  b_lt : forall c id f, In (id, f) (entries c s) -> (id < next s)%N;
  b_live : forall c id f, In (id, f) (entries c s) -> ~ In id (closed s);
  b_closed_lt : forall id, In id (closed s) -> (id < next s)%N;
  b_sub_reg : forall c id f, In (id, f) (entries c s) -> In (MSub id f c) (inner s);
  b_sub_owner : forall id f o, In (MSub id f o) (inner s) -> exists t, snd o = TStream t
}.

Lemma base_init : Base init.
Proof. constructor; cbn; try (intros; contradiction); try constructor; intros; discriminate. Qed.

Lemma in_cs_dec (c : client) cs : In c cs \/ ~ In c cs.
Proof.
  destruct (existsb (client_eqb c) cs) eqn:E; [left; apply existsb_client; exact E|].
  right; intros H. apply existsb_client in H. congruence.
Qed.

Lemma entries_in_flat s cs id :
  In id (map fst (flat_map (fun c => entries c s) cs)) <-> exists c f, In c cs /\ In (id, f) (entries c s).
Proof.
  rewrite in_map_iff. split.
  - intros [[i f] [E H]]. cbn in E; subst i. apply in_flat_map in H. destruct H as [c [Hc He]].
    exists c, f. auto.
  - intros (c & f & Hc & He). exists (id, f). split; [reflexivity|]. apply in_flat_map. exists c; auto.
Qed.

Lemma flat_ids_nodup s cs : Base s -> NoDup cs -> NoDup (map fst (flat_map (fun c => entries c s) cs)).
Proof.
  intros B; induction cs as [|c r IH]; intros Hnd; cbn [flat_map]; [constructor|].
  inversion Hnd as [|? ? Hc Hr]; subst. rewrite map_app. apply nodup_app_intro.
  - apply (b_ids_nd s B).
  - apply IH; exact Hr.
  - intros id H1 H2. apply in_map_iff in H1. destruct H1 as [[i f] [E H1]]; cbn in E; subst i.
    apply entries_in_flat in H2. destruct H2 as (c' & f' & Hc' & He').
    assert (c = c') by (eapply (b_own s B); eassumption). subst c'. exact (Hc Hc').
Qed.

Lemma stop_clients_spec drop cs s : Base s -> NoDup cs ->
  exists inn cl,
    stop_clients drop cs s =
      Some (mkst (rules s) (streams s) (if drop then drop_keys cs (subs s) else subs s) inn cl (next s)) /\
    (forall id, In id cl <-> In id (closed s) \/ exists c f, In c cs /\ In (id, f) (entries c s)) /\
    (forall m, In m inn <->
       In m (inner s) /\ forall c id f, In c cs -> In (id, f) (entries c s) -> is_sub id m = false).
Proof.
  intros B Hnd. unfold stop_clients.
  destruct (teardown_ok (flat_map (fun c => entries c s) cs) (inner s) (closed s)) as (inn & cl & Ht & Hcl & Hinn).
  - apply flat_ids_nodup; assumption.
  - intros id Hid. apply entries_in_flat in Hid. destruct Hid as (c & f & _ & He).
    eapply (b_live s B); exact He.
  - exists inn, cl. rewrite Ht. split; [reflexivity|]. split.
    + intros id. rewrite Hcl, entries_in_flat. reflexivity.
    + intros m. rewrite Hinn. split; intros [H1 H2]; (split; [exact H1|]).
      * intros c id f Hc He. apply H2. apply entries_in_flat. exists c, f. auto.
      * intros id Hid. apply entries_in_flat in Hid. destruct Hid as (c & f & Hc & He).
        eapply H2; eassumption.
Qed.

Definition stopped (cs : list client) (s : st) (inn : list member) (cl : list N) : st :=
  mkst (rules s) (streams s) (drop_keys cs (subs s)) inn cl (next s).

Lemma entries_stopped_in c cs s inn cl : In c cs -> entries c (stopped cs s inn cl) = [].
Proof. intros H. unfold entries, stopped; cbn [subs]. rewrite slk_drop_in by exact H. reflexivity. Qed.

Lemma entries_stopped_out c cs s inn cl : ~ In c cs -> entries c (stopped cs s inn cl) = entries c s.
Proof. intros H. unfold entries, stopped; cbn [subs]. rewrite slk_drop_out by exact H. reflexivity. Qed.

Lemma entries_stopped_sub c cs s inn cl e : In e (entries c (stopped cs s inn cl)) -> ~ In c cs /\ In e (entries c s).
Proof.
  intros H. destruct (in_cs_dec c cs) as [Hc|Hc].
  - rewrite entries_stopped_in in H by exact Hc. contradiction.
  - rewrite entries_stopped_out in H by exact Hc. auto.
Qed.

Lemma base_stopped cs s inn cl : Base s ->
  (forall id, In id cl <-> In id (closed s) \/ exists c f, In c cs /\ In (id, f) (entries c s)) ->
  (forall m, In m inn <->
     In m (inner s) /\ forall c id f, In c cs -> In (id, f) (entries c s) -> is_sub id m = false) ->
  Base (stopped cs s inn cl).
Proof.
  intros B Hcl Hinn. constructor.
  - cbn [stopped subs]. apply nodup_drop. apply (b_nd_subs s B).
  - cbn [stopped streams]. apply (b_cl s B).
  - intros c. destruct (in_cs_dec c cs) as [Hc|Hc].
    + rewrite entries_stopped_in by exact Hc. constructor.
    + rewrite entries_stopped_out by exact Hc. apply (b_ids_nd s B).
  - intros c c' id f f' H1 H2. apply entries_stopped_sub in H1, H2.
    eapply (b_own s B); [apply H1|apply H2].
  - intros c id f H. apply entries_stopped_sub in H. cbn [stopped next]. eapply (b_lt s B); apply H.
  - intros c id f H. apply entries_stopped_sub in H. destruct H as [Hc He]. cbn [stopped closed].
    rewrite Hcl. intros [Hin|(c' & f' & Hc' & He')].
    + eapply (b_live s B); eassumption.
    + assert (c = c') by (eapply (b_own s B); eassumption). subst c'. exact (Hc Hc').
  - intros id. cbn [stopped closed next]. rewrite Hcl. intros [H|(c & f & _ & He)].
    + apply (b_closed_lt s B); exact H.
    + eapply (b_lt s B); exact He.
  - intros c id f H. apply entries_stopped_sub in H. destruct H as [Hc He]. cbn [stopped inner].
    rewrite Hinn. split; [apply (b_sub_reg s B); exact He|].
    intros c' id' f' Hc' He'. cbn [is_sub]. destruct (N.eqb id' id) eqn:E; [|reflexivity].
    apply EN in E. subst id'. assert (c = c') by (eapply (b_own s B); eassumption). subst c'.
    exfalso; exact (Hc Hc').
  - intros id f o H. cbn [stopped inner] in H. apply Hinn in H. apply (b_sub_owner s B id f o). apply H.
Qed.

Lemma entries_attach_eq fs s c : entries c (attach fs s c) = mk_subs fs (next s).
Proof. unfold entries, attach; cbn [subs]. rewrite slk_ins_eq. reflexivity. Qed.

Lemma entries_attach_neq fs s c c' : c' <> c -> entries c' (attach fs s c) = entries c' s.
Proof. intros H. unfold entries, attach; cbn [subs]. rewrite slk_ins_neq by exact H. reflexivity. Qed.

Lemma base_attach fs s c : Base s -> (exists t, snd c = TStream t) -> Base (attach fs s c).
Proof.
  intros B Hstream. constructor.
  - unfold attach; cbn [subs]. apply nodup_insert; [exact EC|apply (b_nd_subs s B)].
  - unfold attach; cbn [streams]. apply (b_cl s B).
  - intros c'. destruct (client_dec c' c) as [->|Hn].
    + rewrite entries_attach_eq. apply mk_subs_nodup.
    + rewrite entries_attach_neq by exact Hn. apply (b_ids_nd s B).
  - intros c1 c2 id f f'. destruct (client_dec c1 c) as [->|H1], (client_dec c2 c) as [->|H2];
      rewrite ?entries_attach_eq, ?entries_attach_neq by assumption; intros A1 A2.
    + reflexivity.
    + apply mk_subs_range in A1. apply (b_lt s B) in A2. lia.
    + apply mk_subs_range in A2. apply (b_lt s B) in A1. lia.
    + eapply (b_own s B); eassumption.
  - intros c' id f. unfold attach at 2; cbn [next]. destruct (client_dec c' c) as [->|Hn].
    + rewrite entries_attach_eq. intros H. apply mk_subs_range in H. lia.
    + rewrite entries_attach_neq by exact Hn. intros H. apply (b_lt s B) in H. lia.
  - intros c' id f. unfold attach at 2; cbn [closed]. destruct (client_dec c' c) as [->|Hn].
    + rewrite entries_attach_eq. intros H Hc. apply mk_subs_range in H. apply (b_closed_lt s B) in Hc. lia.
    + rewrite entries_attach_neq by exact Hn. apply (b_live s B).
  - intros id. unfold attach; cbn [closed next]. intros H. apply (b_closed_lt s B) in H. lia.
  - intros c' id f. unfold attach at 2; cbn [inner]. rewrite in_app_iff. destruct (client_dec c' c) as [->|Hn].
    + rewrite entries_attach_eq. intros H. right. apply in_map_iff. exists (id, f). split; [reflexivity|exact H].
    + rewrite entries_attach_neq by exact Hn. intros H. left. apply (b_sub_reg s B); exact H.
  - intros id f o. unfold attach; cbn [inner]. rewrite in_app_iff, in_map_iff.
    intros [H|[[i g] [E _]]]; [apply (b_sub_owner s B id f o H)|]. cbn in E. inversion E; subst. exact Hstream.
Qed.

Lemma base_set_rules r s : Base s -> Base (set_rules r s).
Proof. intros B. destruct B. constructor; assumption. Qed.

Lemma base_set_streams t' s : Base s ->
  (forall t l, tlk t t' = Some l -> NoDup l /\ forall c, In c l -> snd c = TStream t) ->
  Base (set_streams t' s).
Proof. intros B H. destruct B. constructor; assumption. Qed.

Lemma base_set_inner inn s : Base s ->
  (forall id f o, In (MSub id f o) (inner s) -> In (MSub id f o) inn) ->
  (forall id f o, In (MSub id f o) inn -> In (MSub id f o) (inner s)) ->
  Base (set_inner inn s).
Proof.
  intros B H H'. destruct B as [a1 a2 a3 a4 a5 a6 a7 a8 a9]. constructor; try assumption.
  - intros c id f He. apply H. apply a8. exact He.
  - intros id f o Hm. cbn [set_inner inner] in Hm. apply (a9 id f o). apply H'. exact Hm.
Qed.

(* ------------------------------------------------------------------ rules, streams and sub-clients agree *)
Record Match (s : st) : Prop := mkMatch {
  m_own_reg : forall c, slk c (subs s) <> None -> exists t, snd c = TStream t /\ In c (clients_of t s);
  m_rule : forall t c, In c (clients_of t s) ->
     match rlk t (rules s) with
     | Some fs => exists l, slk c (subs s) = Some l /\ map snd l = fs
     | None => slk c (subs s) = None
     end;
  m_reserved : rlk reserved (rules s) = None
}.

Definition Inv (s : st) : Prop := Base s /\ Match s.

(* the inner hub holds exactly the recorded sub-clients (needs: a client object registers once) *)
Record InvD (s : st) : Prop := mkInvD {
  d_sub : forall id f o, In (MSub id f o) (inner s) -> In (id, f) (entries o s);
  d_plain : forall c, In (MPlain c) (inner s) -> exists f, snd c = TFeed f
}.

(* c is a subscriber in state s *)
Definition regP (s : st) (c : client) : Prop :=
  match snd c with
  | TStream t => In c (clients_of t s)
  | TFeed _ => In (MPlain c) (inner s)
  end.

Lemma inv_init : Inv init.
Proof. split; [exact base_init|]. constructor; cbn; intros; try contradiction; try reflexivity. Qed.

Lemma invd_init : InvD init.
Proof. constructor; cbn; intros; contradiction. Qed.

Lemma clients_of_wf s t : Base s -> NoDup (clients_of t s) /\ forall c, In c (clients_of t s) -> snd c = TStream t.
Proof.
  intros B. unfold clients_of. destruct (tlk t (streams s)) as [l|] eqn:E.
  - apply (b_cl s B); exact E.
  - split; [constructor|intros c []].
Qed.

Lemma clients_of_topic s t t' c : Base s -> In c (clients_of t s) -> In c (clients_of t' s) -> t = t'.
Proof.
  intros B H1 H2. apply (clients_of_wf s t B) in H1. apply (clients_of_wf s t' B) in H2. congruence.
Qed.

Lemma entries_none c s : slk c (subs s) = None -> entries c s = [].
Proof. intros H. unfold entries. rewrite H. reflexivity. Qed.

Lemma entries_slk_eq c s s' : slk c (subs s') = slk c (subs s) -> entries c s' = entries c s.
Proof. intros H. unfold entries. rewrite H. reflexivity. Qed.

Lemma entries_in_not_none c s e : In e (entries c s) -> slk c (subs s) <> None.
Proof. unfold entries. destruct (slk c (subs s)); [intros _; discriminate|intros []]. Qed.

Lemma is_sub_self id f o : is_sub id (MSub id f o) = true.
Proof. cbn. apply N.eqb_refl. Qed.

(* ---- attaching fresh sub-clients to a set of clients ---- *)
Lemma attach_all_spec fs cs : forall s, Base s -> NoDup cs -> (forall c, In c cs -> exists t, snd c = TStream t) ->
  let s' := fold_left (attach fs) cs s in
  Base s' /\ rules s' = rules s /\ streams s' = streams s /\
  (forall c, In c cs -> exists l, slk c (subs s') = Some l /\ map snd l = fs) /\
  (forall c, ~ In c cs -> slk c (subs s') = slk c (subs s)) /\
  (forall c, In (MPlain c) (inner s') <-> In (MPlain c) (inner s)) /\
  (forall id f o, In (MSub id f o) (inner s') ->
      In (MSub id f o) (inner s) \/ (In o cs /\ In (id, f) (entries o s'))).
Proof.
  induction cs as [|c r IH]; intros s B Hnd Hall; cbn [fold_left].
  - split; [exact B|]. split; [reflexivity|]. split; [reflexivity|]. split; [intros c []|].
    split; [reflexivity|]. split; [tauto|]. intros id f o H; left; exact H.
  - inversion Hnd as [|? ? Hc Hr]; subst.
    destruct (IH (attach fs s c) (base_attach fs s c B (Hall c (or_introl eq_refl))) Hr (fun x Hx => Hall x (or_intror Hx)))
      as (B' & Hru & Hst & Hin & Hout & Hpl & Hsub).
    split; [exact B'|]. split; [rewrite Hru; reflexivity|]. split; [rewrite Hst; reflexivity|].
    split; [|split; [|split]].
    + intros c' [->|H].
      * rewrite (Hout c' Hc). unfold attach; cbn [subs]. rewrite slk_ins_eq.
        exists (mk_subs fs (next s)). split; [reflexivity|apply mk_subs_feeds].
      * apply Hin; exact H.
    + intros c' H. rewrite Hout by (intros Hr'; apply H; right; exact Hr').
      unfold attach; cbn [subs]. apply slk_ins_neq. intros ->. apply H. left; reflexivity.
    + intros c'. rewrite Hpl. unfold attach; cbn [inner]. rewrite in_app_iff, in_map_iff.
      split; [intros [H|[x [E _]]]; [exact H|discriminate]|intros H; left; exact H].
    + intros id f o H. destruct (Hsub id f o H) as [H1|[H1 H2]].
      * unfold attach in H1; cbn [inner] in H1. rewrite in_app_iff, in_map_iff in H1.
        destruct H1 as [H1|[[i g] [E H1]]]; [left; exact H1|]. cbn in E. inversion E; subst i g o.
        right. split; [left; reflexivity|].
        unfold entries. rewrite (Hout c Hc). unfold attach; cbn [subs]. rewrite slk_ins_eq. exact H1.
      * right. split; [right; exact H1|exact H2].
Qed.

(* ---- what one operation guarantees ---- *)
Definition Facts (s : st) (o : op) (s' : st) : Prop :=
  Inv s' /\
  (forall t, rlk t (rules s') = rule_step t (rlk t (rules s)) o) /\
  (forall c, regP s' c <->
     match o with
     | Register c' => c = c' \/ regP s c
     | Unregister c' => c <> c' /\ regP s c
     | _ => regP s c
     end) /\
  (InvD s -> (forall c, o = Register c -> ~ regP s c) -> InvD s').

Lemma match_ext s s' : rules s' = rules s -> streams s' = streams s -> subs s' = subs s -> Match s -> Match s'.
Proof.
  intros Hr Ht Hs M. destruct M as [a b c]. constructor; unfold clients_of in *; rewrite ?Hr, ?Ht, ?Hs; assumption.
Qed.

Lemma regP_stream s c t : snd c = TStream t -> regP s c = In c (clients_of t s).
Proof. intros H. unfold regP. rewrite H. reflexivity. Qed.

Lemma regP_plain s c f : snd c = TFeed f -> regP s c = In (MPlain c) (inner s).
Proof. intros H. unfold regP. rewrite H. reflexivity. Qed.

Lemma not_reg_no_subs s c : Inv s -> ~ regP s c -> slk c (subs s) = None.
Proof.
  intros [B M] H. destruct (slk c (subs s)) eqn:E; [|reflexivity]. exfalso. apply H.
  destruct (m_own_reg s M c) as (t & Ht & Hin); [congruence|]. rewrite (regP_stream s c t Ht). exact Hin.
Qed.

Lemma step_register_stream s (c : client) t : Inv s -> snd c = TStream t ->
  exists s', step true s (Register c) = Ok s' [] /\ Facts s (Register c) s'.
Proof.
  intros [B M] Hc. cbn [step]. rewrite Hc.
  set (s1 := set_streams (tins t (add_client c (clients_of t s)) (streams s)) s).
  assert (Hcl : forall t' x, In x (clients_of t' s1) <-> (t' = t /\ x = c) \/ In x (clients_of t' s)).
  { intros t' x. unfold clients_of at 1. unfold s1; cbn [set_streams streams].
    destruct (N.eq_dec t' t) as [->|Hn].
    - rewrite tlk_ins_eq, in_add_client. tauto.
    - rewrite tlk_ins_neq by exact Hn. fold (clients_of t' s). tauto. }
  assert (B1 : Base s1).
  { apply base_set_streams; [exact B|]. intros t' l. destruct (N.eq_dec t' t) as [->|Hn].
    - rewrite tlk_ins_eq. intros E; inversion E; subst l. destruct (clients_of_wf s t B) as [Hnd Htp]. split.
      + apply nodup_add_client; exact Hnd.
      + intros x Hx. apply in_add_client in Hx. destruct Hx as [->|Hx]; [exact Hc|apply Htp; exact Hx].
    - rewrite tlk_ins_neq by exact Hn. apply (b_cl s B). }
  assert (Hreg1 : forall x, regP s1 x <-> x = c \/ regP s x).
  { intros x. unfold regP. destruct (snd x) as [t'|f] eqn:Ex.
    - rewrite Hcl. split.
      + intros [[_ ->]|H]; auto.
      + intros [->|H]; [left; split; congruence|right; exact H].
    - unfold s1; cbn [set_streams inner]. split; [intros H; right; exact H|intros [->|H]; [congruence|exact H]]. }
  destruct (rlk t (rules s)) as [fs|] eqn:Er.
  - exists (attach fs s1 c). split; [reflexivity|].
    assert (Hcl2 : forall t', clients_of t' (attach fs s1 c) = clients_of t' s1) by reflexivity.
    split; [split|split; [|split]].
    + apply base_attach; [exact B1|exists t; exact Hc].
    + constructor.
      * intros c' Hs. destruct (client_dec c' c) as [->|Hn].
        { exists t. split; [exact Hc|]. rewrite Hcl2, Hcl. left; auto. }
        unfold attach in Hs; cbn [subs] in Hs. rewrite slk_ins_neq in Hs by exact Hn.
        destruct (m_own_reg s M c' Hs) as (t' & Ht' & Hin). exists t'. split; [exact Ht'|].
        rewrite Hcl2, Hcl. right; exact Hin.
      * intros t' c' Hin. rewrite Hcl2 in Hin. unfold attach; cbn [rules subs]. unfold s1; cbn [set_streams rules subs].
        destruct (client_dec c' c) as [->|Hn].
        { assert (t' = t).
          { destruct (clients_of_wf s1 t' B1) as [_ Htp]. specialize (Htp c Hin). congruence. }
          subst t'. rewrite Er, slk_ins_eq. exists (mk_subs fs (next s)). split; [reflexivity|apply mk_subs_feeds]. }
        rewrite slk_ins_neq by exact Hn. apply (m_rule s M). apply Hcl in Hin.
        destruct Hin as [[_ ->]|Hin]; [contradiction|exact Hin].
      * exact (m_reserved s M).
    + intros t'. reflexivity.
    + intros x. rewrite <- Hreg1. unfold regP. destruct (snd x); [rewrite Hcl2; reflexivity|].
      unfold attach; cbn [inner]. rewrite in_app_iff, in_map_iff.
      split; [intros [H|[y [E _]]]; [exact H|discriminate]|intros H; left; exact H].
    + intros D Hwf. assert (Hno : slk c (subs s) = None).
      { apply not_reg_no_subs; [split; assumption|]. apply Hwf. reflexivity. }
      constructor.
      * intros id f o. unfold attach at 1; cbn [inner]. rewrite in_app_iff, in_map_iff.
        intros [H|[[i g] [E H]]].
        { apply (d_sub s D) in H. destruct (client_dec o c) as [->|Hn].
          - rewrite (entries_none c s Hno) in H. contradiction.
          - rewrite entries_attach_neq by exact Hn. exact H. }
        cbn in E. inversion E; subst i g o. rewrite entries_attach_eq. exact H.
      * intros x. unfold attach; cbn [inner]. rewrite in_app_iff, in_map_iff.
        intros [H|[y [E _]]]; [apply (d_plain s D); exact H|discriminate].
  - exists s1. split; [reflexivity|]. split; [split|split; [|split]].
    + exact B1.
    + constructor.
      * intros c' Hs. destruct (m_own_reg s M c' Hs) as (t' & Ht' & Hin). exists t'. split; [exact Ht'|].
        rewrite Hcl. right; exact Hin.
      * intros t' c' Hin. unfold s1; cbn [set_streams rules subs]. apply Hcl in Hin.
        destruct Hin as [[-> ->]|Hin]; [|apply (m_rule s M); exact Hin].
        rewrite Er. destruct (slk c (subs s)) eqn:Es; [|reflexivity]. exfalso.
        destruct (m_own_reg s M c) as (t' & Ht' & Hin); [congruence|].
        assert (t' = t) by congruence. subst t'.
        pose proof (m_rule s M t c Hin) as Hm. rewrite Er in Hm. congruence.
      * exact (m_reserved s M).
    + intros t'. reflexivity.
    + exact Hreg1.
    + intros D _. destruct D as [d1 d2]. constructor; assumption.
Qed.

Lemma in_inner_add x m l : In x (inner_add m l) <-> x = m \/ In x l.
Proof.
  unfold inner_add. destruct (existsb (member_eqb m) l) eqn:E.
  - apply existsb_exists in E. destruct E as [y [Hy E]]. apply member_eqb_spec in E. subst y.
    split; [intros H; right; exact H|intros [->|H]; assumption].
  - rewrite in_app_iff. cbn. split; [intros [H|[H|[]]]; auto|intros [H|H]; auto].
Qed.

Lemma in_inner_del x m l : In x (inner_del m l) <-> In x l /\ x <> m.
Proof.
  unfold inner_del. rewrite filter_In. split.
  - intros [H1 H2]. split; [exact H1|]. intros ->.
    assert (member_eqb m m = true) by (apply member_eqb_spec; reflexivity). rewrite H in H2. discriminate.
  - intros [H1 H2]. split; [exact H1|]. destruct (member_eqb m x) eqn:E; [|reflexivity].
    apply member_eqb_spec in E. congruence.
Qed.

Lemma step_register_plain s (c : client) f : Inv s -> snd c = TFeed f ->
  exists s', step true s (Register c) = Ok s' [] /\ Facts s (Register c) s'.
Proof.
  intros [B M] Hc. cbn [step]. rewrite Hc.
  exists (set_inner (inner_add (MPlain c) (inner s)) s). split; [reflexivity|].
  split; [split|split; [|split]].
  - apply base_set_inner; [exact B| |].
    + intros id g o H. apply in_inner_add. right; exact H.
    + intros id g o H. apply in_inner_add in H. destruct H as [H|H]; [discriminate|exact H].
  - apply (match_ext s); try reflexivity. exact M.
  - intros t. reflexivity.
  - intros x. unfold regP. destruct (snd x) as [t|g] eqn:Ex.
    + change (clients_of t (set_inner (inner_add (MPlain c) (inner s)) s)) with (clients_of t s).
      split; [intros H; right; exact H|intros [->|H]; [congruence|exact H]].
    + cbn [set_inner inner]. rewrite in_inner_add. split; (intros [H|H]; [left; congruence|right; exact H]).
  - intros D _. constructor; cbn [set_inner inner].
    + intros id g o H. apply in_inner_add in H. destruct H as [H|H]; [discriminate|].
      apply (d_sub s D) in H. exact H.
    + intros x H. apply in_inner_add in H. destruct H as [H|H]; [|apply (d_plain s D); exact H].
      inversion H; subst x. exists f; exact Hc.
Qed.

Lemma step_unregister_plain s (c : client) f : Inv s -> snd c = TFeed f ->
  exists s', step true s (Unregister c) = Ok s' [] /\ Facts s (Unregister c) s'.
Proof.
  intros [B M] Hc. cbn [step]. rewrite Hc.
  exists (set_inner (inner_del (MPlain c) (inner s)) s). split; [reflexivity|].
  split; [split|split; [|split]].
  - apply base_set_inner; [exact B| |].
    + intros id g o H. apply in_inner_del. split; [exact H|discriminate].
    + intros id g o H. apply in_inner_del in H. apply H.
  - apply (match_ext s); try reflexivity. exact M.
  - intros t. reflexivity.
  - intros x. unfold regP. destruct (snd x) as [t|g] eqn:Ex.
    + change (clients_of t (set_inner (inner_del (MPlain c) (inner s)) s)) with (clients_of t s).
      split; [intros H; split; [congruence|exact H]|intros [_ H]; exact H].
    + cbn [set_inner inner]. rewrite in_inner_del. split; intros [H1 H2].
      * split; [intros ->; apply H2; reflexivity|exact H1].
      * split; [exact H2|intros E; inversion E; contradiction].
  - intros D _. constructor; cbn [set_inner inner].
    + intros id g o H. apply in_inner_del in H. apply (d_sub s D). apply H.
    + intros x H. apply in_inner_del in H. apply (d_plain s D). apply H.
Qed.

Lemma step_unregister_stream s (c : client) t : Inv s -> snd c = TStream t ->
  exists s', step true s (Unregister c) = Ok s' [] /\ Facts s (Unregister c) s'.
Proof.
  intros [B M] Hc. cbn [step]. rewrite Hc.
  assert (Hnd : NoDup [c]) by (constructor; [intros []|constructor]).
  destruct (stop_clients_spec true [c] s B Hnd) as (inn & cl & Hstop & Hcl & Hinn).
  rewrite Hstop. fold (stopped [c] s inn cl).
  pose proof (base_stopped [c] s inn cl B Hcl Hinn) as B1.
  set (s1 := stopped [c] s inn cl) in *.
  assert (Hsubs1 : forall x, x <> c -> slk x (subs s1) = slk x (subs s)).
  { intros x Hx. unfold s1, stopped; cbn [subs]. apply slk_drop_out. intros [->|[]]; congruence. }
  assert (Hsubs1c : slk c (subs s1) = None).
  { unfold s1, stopped; cbn [subs]. apply slk_drop_in. left; reflexivity. }
  (* both branches of the streams lookup give the same membership *)
  assert (Hex : exists s',
     match tlk t (streams s1) with
     | Some l => Ok (set_streams (tins t (del_client c l) (streams s1)) s1) []
     | None => Ok s1 []
     end = Ok s' [] /\ Base s' /\ rules s' = rules s /\ subs s' = subs s1 /\ inner s' = inn /\
     (forall t' x, In x (clients_of t' s') <-> In x (clients_of t' s) /\ x <> c)).
  { change (streams s1) with (streams s). destruct (tlk t (streams s)) as [l|] eqn:El.
    - eexists. split; [reflexivity|]. split; [|split; [reflexivity|split; [reflexivity|split; [reflexivity|]]]].
      + apply base_set_streams; [exact B1|]. intros t' l'. destruct (N.eq_dec t' t) as [->|Hn].
        * rewrite tlk_ins_eq. intros E; inversion E; subst l'. destruct (b_cl s B t l El) as [Hndl Htp]. split.
          { apply nodup_del_client; exact Hndl. }
          intros x Hx. apply in_del_client in Hx. apply Htp. apply Hx.
        * rewrite tlk_ins_neq by exact Hn. apply (b_cl s B).
      + intros t' x. unfold clients_of at 1. cbn [set_streams streams]. destruct (N.eq_dec t' t) as [->|Hn].
        * rewrite tlk_ins_eq, in_del_client. unfold clients_of. rewrite El. reflexivity.
        * rewrite tlk_ins_neq by exact Hn. change (streams s1) with (streams s). fold (clients_of t' s).
          split; [intros H; split; [exact H|]|intros [H _]; exact H].
          intros ->. apply (clients_of_wf s t' B) in H. congruence.
    - exists s1. split; [reflexivity|]. split; [exact B1|]. split; [reflexivity|]. split; [reflexivity|]. split; [reflexivity|].
      intros t' x. change (clients_of t' s1) with (clients_of t' s).
      split; [intros H; split; [exact H|]|intros [H _]; exact H].
      intros ->. pose proof (clients_of_wf s t' B) as [_ Htp]. specialize (Htp c H).
      assert (t' = t) by congruence. subst t'. unfold clients_of in H. rewrite El in H. contradiction. }
  destruct Hex as (s' & Hs' & B' & Hru & Hsu & Hin' & Hcl').
  exists s'. split; [exact Hs'|]. split; [split|split; [|split]].
  - exact B'.
  - constructor.
    + intros x Hx. rewrite Hsu in Hx. destruct (client_dec x c) as [->|Hn]; [congruence|].
      rewrite Hsubs1 in Hx by exact Hn. destruct (m_own_reg s M x Hx) as (t' & Ht' & Hin).
      exists t'. split; [exact Ht'|]. apply Hcl'. split; assumption.
    + intros t' x Hx. apply Hcl' in Hx. destruct Hx as [Hx Hn]. rewrite Hru, Hsu, Hsubs1 by exact Hn.
      apply (m_rule s M); exact Hx.
    + rewrite Hru. exact (m_reserved s M).
  - intros t'. rewrite Hru. reflexivity.
  - intros x. unfold regP. destruct (snd x) as [t'|g] eqn:Ex.
    + rewrite Hcl'. tauto.
    + rewrite Hin', Hinn. split.
      * intros [H _]. split; [congruence|exact H].
      * intros [_ H]. split; [exact H|]. intros; reflexivity.
  - intros D _. constructor.
    + intros id g o. rewrite Hin', Hinn. intros [H1 H2]. apply (d_sub s D) in H1.
      destruct (client_dec o c) as [->|Hn].
      * specialize (H2 c id g (or_introl eq_refl) H1). rewrite is_sub_self in H2. discriminate.
      * unfold entries. rewrite Hsu, Hsubs1 by exact Hn. exact H1.
    + intros x. rewrite Hin', Hinn. intros [H _]. apply (d_plain s D); exact H.
Qed.

(* ---- "unregister clients from old feeds, if any" : the guarded loop shared by add-rule and delete ---- *)
Lemma clear_clients s t : Inv s ->
  exists s1,
    (if mem N.eqb t (rules s) then stop_clients true (clients_of t s) s else Some s) = Some s1 /\
    Base s1 /\ rules s1 = rules s /\ streams s1 = streams s /\
    (forall c, In c (clients_of t s) -> slk c (subs s1) = None) /\
    (forall c, ~ In c (clients_of t s) -> slk c (subs s1) = slk c (subs s)) /\
    (forall c, In (MPlain c) (inner s1) <-> In (MPlain c) (inner s)) /\
    (InvD s -> InvD s1).
Proof.
  intros [B M]. destruct (clients_of_wf s t B) as [Hnd Htp].
  unfold mem. destruct (rlk t (rules s)) as [fs|] eqn:Er.
  - destruct (stop_clients_spec true (clients_of t s) s B Hnd) as (inn & cl & Hstop & Hcl & Hinn).
    rewrite Hstop. fold (stopped (clients_of t s) s inn cl). eexists. split; [reflexivity|].
    split; [apply base_stopped; assumption|]. split; [reflexivity|]. split; [reflexivity|].
    split; [intros c H; cbn [stopped subs]; apply slk_drop_in; exact H|].
    split; [intros c H; cbn [stopped subs]; apply slk_drop_out; exact H|].
    split.
    + intros c. cbn [stopped inner]. rewrite Hinn. split; [intros [H _]; exact H|intros H; split; [exact H|intros; reflexivity]].
    + intros D. constructor; cbn [stopped inner].
      * intros id f o Hm. apply Hinn in Hm. destruct Hm as [H1 H2]. apply (d_sub s D) in H1.
        destruct (in_cs_dec o (clients_of t s)) as [Ho|Ho].
        { specialize (H2 o id f Ho H1). rewrite is_sub_self in H2. discriminate. }
        rewrite entries_stopped_out by exact Ho. exact H1.
      * intros c Hm. apply Hinn in Hm. apply (d_plain s D). apply Hm.
  - exists s. split; [reflexivity|]. split; [exact B|]. split; [reflexivity|]. split; [reflexivity|].
    split; [|split; [reflexivity|split; [reflexivity|intros D; exact D]]].
    intros c H. pose proof (m_rule s M t c H) as Hm. rewrite Er in Hm. exact Hm.
Qed.

Lemma step_addrule s t fs : Inv s ->
  exists s', step true s (AddRule t fs) = Ok s' [] /\ Facts s (AddRule t fs) s'.
Proof.
  intros I. pose proof I as [B M]. cbn [step]. destruct (N.eqb t reserved) eqn:Et.
  { exists s. split; [reflexivity|]. split; [exact I|]. split; [|split; [reflexivity|intros D _; exact D]].
    intros t'. cbn [rule_step]. rewrite Et. reflexivity. }
  apply N.eqb_neq in Et.
  destruct (clear_clients s t I) as (s1 & Hs1 & B1 & Hru1 & Hst1 & Hin1 & Hout1 & Hpl1 & HD1).
  rewrite Hs1.
  assert (Hcs : clients_of t s1 = clients_of t s) by (unfold clients_of; rewrite Hst1; reflexivity).
  rewrite Hcs. destruct (clients_of_wf s t B) as [Hnd Htp].
  set (s2 := set_rules (rins t fs (rules s1)) s1).
  destruct (attach_all_spec fs (clients_of t s) s2 (base_set_rules _ s1 B1) Hnd (fun x Hx => ex_intro _ t (Htp x Hx)))
    as (B' & Hru & Hst & Hin & Hout & Hpl & Hsub).
  set (s' := fold_left (attach fs) (clients_of t s) s2) in *.
  assert (Hcl : forall t', clients_of t' s' = clients_of t' s).
  { intros t'. unfold clients_of. rewrite Hst. unfold s2; cbn [set_rules streams]. rewrite Hst1. reflexivity. }
  exists s'. split; [reflexivity|]. split; [split|split; [|split]].
  - exact B'.
  - constructor.
    + intros c Hc. destruct (in_cs_dec c (clients_of t s)) as [Hi|Hi].
      * exists t. split; [apply Htp; exact Hi|rewrite Hcl; exact Hi].
      * rewrite (Hout c Hi) in Hc. unfold s2 in Hc; cbn [set_rules subs] in Hc. rewrite (Hout1 c Hi) in Hc.
        destruct (m_own_reg s M c Hc) as (t' & Ht' & Hin'). exists t'. split; [exact Ht'|rewrite Hcl; exact Hin'].
    + intros t' c Hc. rewrite Hcl in Hc. rewrite Hru. unfold s2 at 1; cbn [set_rules rules]. rewrite Hru1.
      destruct (N.eq_dec t' t) as [->|Hn].
      * rewrite rlk_ins_eq. apply Hin; exact Hc.
      * rewrite rlk_ins_neq by exact Hn.
        assert (Hi : ~ In c (clients_of t s)).
        { intros Hi. apply Hn. exact (clients_of_topic s t' t c B Hc Hi). }
        rewrite (Hout c Hi). unfold s2; cbn [set_rules subs]. rewrite (Hout1 c Hi). apply (m_rule s M); exact Hc.
    + rewrite Hru. unfold s2; cbn [set_rules rules]. rewrite Hru1.
      rewrite rlk_ins_neq by (intros E; apply Et; symmetry; exact E). exact (m_reserved s M).
  - intros t'. rewrite Hru. unfold s2; cbn [set_rules rules]. rewrite Hru1. cbn [rule_step].
    destruct (N.eqb t reserved) eqn:E; [apply EN in E; contradiction|].
    destruct (N.eqb t' t) eqn:E2.
    + apply EN in E2. subst t'. apply rlk_ins_eq.
    + apply N.eqb_neq in E2. apply rlk_ins_neq; exact E2.
  - intros c. unfold regP. destruct (snd c) as [t'|g].
    + rewrite Hcl. reflexivity.
    + rewrite Hpl. unfold s2; cbn [set_rules inner]. apply Hpl1.
  - intros D _. specialize (HD1 D). constructor.
    + intros id f o Hm. destruct (Hsub id f o Hm) as [H|[_ H]]; [|exact H].
      unfold s2 in H; cbn [set_rules inner] in H. apply (d_sub s1 HD1) in H.
      destruct (in_cs_dec o (clients_of t s)) as [Ho|Ho].
      * rewrite (entries_none o s1 (Hin1 o Ho)) in H. contradiction.
      * rewrite (entries_slk_eq o s1 s'); [exact H|]. rewrite (Hout o Ho). reflexivity.
    + intros c Hm. apply Hpl in Hm. unfold s2 in Hm; cbn [set_rules inner] in Hm. apply (d_plain s1 HD1); exact Hm.
Qed.

Lemma step_delete_one s t : Inv s -> N.eqb t reserved = false ->
  exists s', delete_one true t s = Ok s' [] /\ Facts s (Delete t) s'.
Proof.
  intros I Et. pose proof I as [B M]. unfold delete_one.
  destruct (clear_clients s t I) as (s1 & Hs1 & B1 & Hru1 & Hst1 & Hin1 & Hout1 & Hpl1 & HD1).
  rewrite Hs1. exists (set_rules (rrm t (rules s1)) s1). split; [reflexivity|].
  assert (Hcl : forall t', clients_of t' (set_rules (rrm t (rules s1)) s1) = clients_of t' s).
  { intros t'. unfold clients_of; cbn [set_rules streams]. rewrite Hst1. reflexivity. }
  apply N.eqb_neq in Et.
  split; [split|split; [|split]].
  - apply base_set_rules; exact B1.
  - constructor; cbn [set_rules subs rules].
    + intros c Hc. destruct (in_cs_dec c (clients_of t s)) as [Hi|Hi].
      * rewrite (Hin1 c Hi) in Hc. congruence.
      * rewrite (Hout1 c Hi) in Hc. destruct (m_own_reg s M c Hc) as (t' & Ht' & Hin').
        exists t'. split; [exact Ht'|rewrite Hcl; exact Hin'].
    + intros t' c Hc. rewrite Hcl in Hc. rewrite Hru1. destruct (N.eq_dec t' t) as [->|Hn].
      * rewrite rlk_rm_eq. apply Hin1; exact Hc.
      * rewrite rlk_rm_neq by exact Hn.
        assert (Hi : ~ In c (clients_of t s)).
        { intros Hi. apply Hn. exact (clients_of_topic s t' t c B Hc Hi). }
        rewrite (Hout1 c Hi). apply (m_rule s M); exact Hc.
    + rewrite Hru1. rewrite rlk_rm_neq by (intros E; apply Et; symmetry; exact E). exact (m_reserved s M).
  - intros t'. cbn [set_rules rules rule_step]. rewrite Hru1.
    destruct (N.eqb t reserved) eqn:E; [apply EN in E; contradiction|].
    destruct (N.eqb t' t) eqn:E2.
    + apply EN in E2. subst t'. apply rlk_rm_eq.
    + apply N.eqb_neq in E2. apply rlk_rm_neq; exact E2.
  - intros c. unfold regP. destruct (snd c) as [t'|g].
    + rewrite Hcl. reflexivity.
    + cbn [set_rules inner]. apply Hpl1.
  - intros D _. specialize (HD1 D). destruct HD1 as [d1 d2]. constructor; assumption.
Qed.

Lemma step_delete_all s : Inv s ->
  exists s', delete_all true s = Ok s' [] /\
    Inv s' /\ (forall t, rlk t (rules s') = None) /\ (forall c, regP s' c <-> regP s c) /\ (InvD s -> InvD s').
Proof.
  intros [B M]. unfold delete_all.
  destruct (stop_clients_spec false (keys (subs s)) s B (b_nd_subs s B)) as (inn & cl & Hstop & Hcl & Hinn).
  rewrite Hstop. cbn [rules streams subs inner closed next]. eexists. split; [reflexivity|].
  split; [split|split; [|split]].
  - constructor; unfold entries; cbn [rules streams subs inner closed next lookup map].
    + constructor.
    + apply (b_cl s B).
    + intros c. constructor.
    + intros c c' id f f' [].
    + intros c id f [].
    + intros c id f [].
    + intros id Hid. apply Hcl in Hid. destruct Hid as [H|(c & f & _ & H)].
      * apply (b_closed_lt s B); exact H.
      * eapply (b_lt s B); exact H.
    + intros c id f [].
    + intros id f o Hm. apply Hinn in Hm. apply (b_sub_owner s B id f o). apply Hm.
  - constructor; cbn [rules streams subs lookup].
    + intros c H. congruence.
    + intros t c _. reflexivity.
    + reflexivity.
  - intros t. reflexivity.
  - intros c. unfold regP. destruct (snd c) as [t|g]; [reflexivity|]. cbn [inner]. rewrite Hinn.
    split; [intros [H _]; exact H|intros H; split; [exact H|intros; reflexivity]].
  - intros D. constructor; cbn [inner].
    + intros id f o Hm. exfalso. apply Hinn in Hm. destruct Hm as [H1 H2]. apply (d_sub s D) in H1.
      assert (Hk : In o (keys (subs s))).
      { apply (in_keys_lookup client_eqb EC). eapply entries_in_not_none; exact H1. }
      specialize (H2 o id f Hk H1). rewrite is_sub_self in H2. discriminate.
    + intros c Hm. apply Hinn in Hm. apply (d_plain s D). apply Hm.
Qed.

(* ---- every operation, from every state satisfying the invariant ---- *)
Theorem step_facts s o : Inv s -> exists s' out, step true s o = Ok s' out /\ Facts s o s'.
Proof.
  intros I. destruct o as [c|c|t fs|t| |f].
  - destruct (snd c) as [t|f] eqn:Ec.
    + destruct (step_register_stream s c t I Ec) as (s' & H1 & H2). exists s', []. auto.
    + destruct (step_register_plain s c f I Ec) as (s' & H1 & H2). exists s', []. auto.
  - destruct (snd c) as [t|f] eqn:Ec.
    + destruct (step_unregister_stream s c t I Ec) as (s' & H1 & H2). exists s', []. auto.
    + destruct (step_unregister_plain s c f I Ec) as (s' & H1 & H2). exists s', []. auto.
  - destruct (step_addrule s t fs I) as (s' & H1 & H2). exists s', []. auto.
  - cbn [step]. destruct (N.eqb t reserved) eqn:Et.
    + destruct (step_delete_all s I) as (s' & H1 & H2 & H3 & H4 & H5). exists s', []. split; [exact H1|].
      split; [exact H2|]. split; [|split; [exact H4|intros D _; exact (H5 D)]].
      intros t'. rewrite H3. cbn [rule_step]. rewrite Et. reflexivity.
    + destruct (step_delete_one s t I Et) as (s' & H1 & H2). exists s', []. auto.
  - cbn [step]. destruct (step_delete_all s I) as (s' & H1 & H2 & H3 & H4 & H5). exists s', []. split; [exact H1|].
    split; [exact H2|]. split; [|split; [exact H4|intros D _; exact (H5 D)]].
    intros t'. rewrite H3. reflexivity.
  - exists s, (recipients f (inner s)). split; [reflexivity|]. split; [exact I|].
    split; [reflexivity|]. split; [reflexivity|]. intros D _; exact D.
Qed.

(* ------------------------------------------------------------------ histories *)
Lemma final_snoc fx ops o : final fx (ops ++ [o]) = bind_step fx (final fx ops) o.
Proof. unfold final. rewrite fold_left_app. reflexivity. Qed.

Lemma reg_of_snoc ops o c : reg_of (ops ++ [o]) c = reg_step c (reg_of ops c) o.
Proof. unfold reg_of. rewrite fold_left_app. reflexivity. Qed.

Lemma rule_of_snoc ops o t : rule_of (ops ++ [o]) t = rule_step t (rule_of ops t) o.
Proof. unfold rule_of. rewrite fold_left_app. reflexivity. Qed.

Lemma wf_snoc ops o : wf (ops ++ [o]) -> wf ops /\ forall c, o = Register c -> reg_of ops c = false.
Proof.
  intros H. split.
  - intros p c q E. apply (H p c (q ++ [o])). rewrite E, <- app_assoc. reflexivity.
  - intros c ->. apply (H ops c []). reflexivity.
Qed.

Lemma reg_step_link (P P' : Prop) c o b :
  (P' <-> match o with
          | Register c' => c = c' \/ P
          | Unregister c' => c <> c' /\ P
          | _ => P
          end) ->
  (P <-> b = true) -> (P' <-> reg_step c b o = true).
Proof.
  intros H1 H2. rewrite H1. destruct o as [c'|c'| | | |]; cbn [reg_step]; try exact H2.
  - destruct (client_eqb c c') eqn:E.
    + apply EC in E. split; [reflexivity|intros _; left; exact E].
    + rewrite <- H2. split; [intros [Hc|Hp]; [apply EC in Hc; congruence|exact Hp]|intros Hp; right; exact Hp].
  - destruct (client_eqb c c') eqn:E.
    + apply EC in E. split; [intros [Hn _]; contradiction|discriminate].
    + rewrite <- H2. split; [intros [_ Hp]; exact Hp|intros Hp; split; [|exact Hp]].
      intros Hc. apply EC in Hc. congruence.
Qed.

(* everything the later theorems need about the state after a history *)
Theorem reach ops :
  exists s, final true ops = Some s /\ Inv s /\
    (forall t, rlk t (rules s) = rule_of ops t) /\
    (forall c, regP s c <-> reg_of ops c = true) /\
    (wf ops -> InvD s).
Proof.
  induction ops as [|o ops IH] using rev_ind.
  - exists init. split; [reflexivity|]. split; [exact inv_init|]. split; [reflexivity|].
    split; [|intros _; exact invd_init].
    intros c. unfold regP, reg_of; cbn. destruct (snd c); split; intros H; try contradiction; discriminate.
  - destruct IH as (s & Hf & I & Hr & Hg & Hd).
    destruct (step_facts s o I) as (s' & out & Hs & I' & Fr & Fg & Fd).
    exists s'. split; [rewrite final_snoc, Hf; cbn [bind_step]; rewrite Hs; reflexivity|].
    split; [exact I'|]. split; [|split].
    + intros t. rewrite Fr, Hr, rule_of_snoc. reflexivity.
    + intros c. rewrite reg_of_snoc. eapply reg_step_link; [apply Fg|apply Hg].
    + intros W. apply wf_snoc in W. destruct W as [W1 W2]. apply Fd; [apply Hd; exact W1|].
      intros c E Hc. apply Hg in Hc. rewrite (W2 c E) in Hc. discriminate.
Qed.

Lemma run_never_panics ops : forall s, Inv s -> snd (run true s ops) = false.
Proof.
  induction ops as [|o r IH]; intros s I; cbn [run]; [reflexivity|].
  destruct (step_facts s o I) as (s' & out & Hs & I' & _). rewrite Hs.
  specialize (IH s' I'). destruct (run true s' r) as [outs p]. exact IH.
Qed.

Lemma fold_bind_none fx ops : fold_left (bind_step fx) ops None = None.
Proof. induction ops as [|o r IH]; cbn; [reflexivity|exact IH]. Qed.

Lemma run_app fx a : forall s b,
  run fx s (a ++ b) =
  match fold_left (bind_step fx) a (Some s) with
  | Some s' => (fst (run fx s a) ++ fst (run fx s' b), snd (run fx s' b))
  | None => run fx s a
  end.
Proof.
  induction a as [|o r IH]; intros s b.
  - cbn. destruct (run fx s b); reflexivity.
  - cbn [app run fold_left bind_step]. destruct (step fx s o) as [s1 out|].
    + rewrite IH. destruct (fold_left (bind_step fx) r (Some s1)) as [s'|].
      * destruct (run fx s1 r) as [o1 p1]. destruct (run fx s' b) as [o2 p2]. reflexivity.
      * destruct (run fx s1 r) as [o1 p1]. reflexivity.
    + rewrite fold_bind_none. reflexivity.
Qed.

(* ---- the property's clauses ---- *)
Theorem agg_never_panics ops : snd (run true init ops) = false.
Proof. apply run_never_panics. exact inv_init. Qed.

Theorem agg_never_dies ops : final true ops <> None.
Proof. destruct (reach ops) as (s & Hf & _). congruence. Qed.

(* feeds of the sub-subscriptions of c whose Stopped channel is still open *)
Definition live_feeds (c : client) (s : st) : list N :=
  map snd (filter (fun e => negb (existsb (N.eqb (fst e)) (closed s))) (entries c s)).

Lemma filter_all {A} (p : A -> bool) l : (forall x, In x l -> p x = true) -> filter p l = l.
Proof.
  induction l as [|x r IH]; intros H; cbn; [reflexivity|].
  rewrite (H x (or_introl eq_refl)). rewrite IH; [reflexivity|]. intros y Hy. apply H. right; exact Hy.
Qed.

Theorem subs_match_rule ops s c t :
  final true ops = Some s -> snd c = TStream t -> reg_of ops c = true ->
  live_feeds c s = match rule_of ops t with Some fs => fs | None => [] end /\
  (forall id f, In (id, f) (entries c s) -> ~ In id (closed s) /\ In (MSub id f c) (inner s)).
Proof.
  intros Hf Hc Hr. destruct (reach ops) as (s0 & Hf0 & [B M] & Hru & Hg & _).
  rewrite Hf in Hf0. inversion Hf0; subst s0. clear Hf0.
  apply Hg in Hr. rewrite (regP_stream s c t Hc) in Hr.
  split.
  - unfold live_feeds. rewrite filter_all.
    + pose proof (m_rule s M t c Hr) as Hm. rewrite <- Hru. unfold entries.
      destruct (rlk t (rules s)) as [fs|].
      * destruct Hm as (l & -> & Hl). exact Hl.
      * rewrite Hm. reflexivity.
    + intros [id f] He. cbn [fst]. destruct (existsb (N.eqb id) (closed s)) eqn:E; [|reflexivity].
      apply existsb_N in E. exfalso. eapply (b_live s B); eassumption.
  - intros id f He. split; [eapply (b_live s B); exact He|apply (b_sub_reg s B); exact He].
Qed.

Lemma in_recipients c f inn : In c (recipients f inn) <->
  (In (MPlain c) inn /\ snd c = TFeed f) \/ (exists id, In (MSub id f c) inn).
Proof.
  unfold recipients. rewrite in_flat_map. split.
  - intros [m [Hm Hc]]. destruct m as [c'|id g o]; cbn [recipient] in Hc.
    + destruct (topic_eqb (snd c') (TFeed f)) eqn:E; [|contradiction]. destruct Hc as [->|[]].
      apply topic_eqb_spec in E. left; auto.
    + destruct (N.eqb g f) eqn:E; [|contradiction]. destruct Hc as [->|[]].
      apply EN in E. subst g. right. exists id; exact Hm.
  - intros [[Hm Hc]|[id Hm]].
    + exists (MPlain c). split; [exact Hm|]. cbn [recipient].
      assert (E : topic_eqb (snd c) (TFeed f) = true) by (apply topic_eqb_spec; exact Hc).
      rewrite E. left; reflexivity.
    + exists (MSub id f c). split; [exact Hm|]. cbn [recipient]. rewrite N.eqb_refl. left; reflexivity.
Qed.

Theorem delivery_spec ops f : wf ops ->
  exists s, final true ops = Some s /\ forall c, In c (recipients f (inner s)) <-> expected ops f c.
Proof.
  intros W. destruct (reach ops) as (s & Hf & [B M] & Hru & Hg & Hd). specialize (Hd W).
  exists s. split; [exact Hf|]. intros c. rewrite in_recipients. unfold expected. rewrite <- Hg. split.
  - intros [[Hm Hc]|[id Hm]].
    + unfold regP. rewrite Hc. auto.
    + apply (d_sub s Hd) in Hm. pose proof (entries_in_not_none c s _ Hm) as Hs.
      destruct (m_own_reg s M c Hs) as (t & Ht & Hin). rewrite (regP_stream s c t Ht), Ht.
      split; [exact Hin|]. pose proof (m_rule s M t c Hin) as Hm2. rewrite <- Hru.
      destruct (rlk t (rules s)) as [fs|]; [|congruence].
      destruct Hm2 as (l & Hl & Hfs). exists fs. split; [reflexivity|].
      unfold entries in Hm. rewrite Hl in Hm. rewrite <- Hfs.
      apply in_map_iff. exists (id, f). auto.
  - intros [Hr Hx]. unfold regP in Hr. destruct (snd c) as [t|g] eqn:Ec.
    + destruct Hx as (fs & Hfs & Hin). rewrite <- Hru in Hfs.
      pose proof (m_rule s M t c Hr) as Hm. rewrite Hfs in Hm. destruct Hm as (l & Hl & Hmap).
      rewrite <- Hmap in Hin. apply in_map_iff in Hin. destruct Hin as [[id g] [E Hin]]. cbn in E; subst g.
      right. exists id. apply (b_sub_reg s B). unfold entries. rewrite Hl. exact Hin.
    + subst g. left. auto.
Qed.

Definition is_rule_op (o : op) : bool :=
  match o with AddRule _ _ | Delete _ | DeleteAll => true | _ => false end.

Lemma reg_of_ignores_rules c ops : forall b,
  fold_left (reg_step c) ops b = fold_left (reg_step c) (filter (fun o => negb (is_rule_op o)) ops) b.
Proof.
  induction ops as [|o r IH]; intros b; [reflexivity|].
  destruct o; cbn [filter is_rule_op negb fold_left reg_step]; apply IH.
Qed.

(* rule operations never change which plain (non-stream) clients are members of the inner hub;
   membership after a history depends on the client's own register / unregister operations only *)
Theorem plain_unaffected :
  (forall s o s' out c g, Inv s -> is_rule_op o = true -> step true s o = Ok s' out -> snd c = TFeed g ->
     (In (MPlain c) (inner s') <-> In (MPlain c) (inner s))) /\
  (forall ops c g, snd c = TFeed g ->
     exists s, final true ops = Some s /\
       (In (MPlain c) (inner s) <-> reg_of ops c = true) /\
       reg_of ops c = reg_of (filter (fun o => negb (is_rule_op o)) ops) c).
Proof.
  split.
  - intros s o s' out c g I Ho Hs Hc. destruct (step_facts s o I) as (s2 & out2 & Hs2 & _ & _ & Fg & _).
    rewrite Hs in Hs2. inversion Hs2; subst s2 out2. specialize (Fg c). unfold regP in Fg. rewrite Hc in Fg.
    destruct o; try discriminate; exact Fg.
  - intros ops c g Hc. destruct (reach ops) as (s & Hf & _ & _ & Hg & _). exists s. split; [exact Hf|].
    split; [|apply reg_of_ignores_rules]. specialize (Hg c). unfold regP in Hg. rewrite Hc in Hg. exact Hg.
Qed.

Theorem reserved_id :
  (forall fx s fs, step fx s (AddRule reserved fs) = Ok s []) /\
  (forall ops s, final true ops = Some s -> rlk reserved (rules s) = None).
Proof.
  split; [reflexivity|].
  intros ops s Hf. destruct (reach ops) as (s0 & Hf0 & [_ M] & _). rewrite Hf in Hf0. inversion Hf0; subst s0.
  exact (m_reserved s M).
Qed.

(* the output recorded for a broadcast that follows a history is the fan-out of the state after it *)
Lemma run_then_bcast ops f s : final true ops = Some s ->
  run true init (ops ++ [Bcast f]) = (fst (run true init ops) ++ [recipients f (inner s)], false).
Proof.
  intros Hf. rewrite run_app. unfold final in Hf. rewrite Hf. reflexivity.
Qed.

Theorem delivery_spec_run ops f : wf ops ->
  exists out, run true init (ops ++ [Bcast f]) = (fst (run true init ops) ++ [out], false) /\
    forall c, In c out <-> expected ops f c.
Proof.
  intros W. destruct (delivery_spec ops f W) as (s & Hf & H).
  exists (recipients f (inner s)). split; [apply run_then_bcast; exact Hf|exact H].
Qed.

(* ------------------------------------------------------------------ plain subscribers, every history *)
(* a plain subscriber of feed g is offered a broadcast on f exactly when it is registered and g = f -
   whatever the rule operations in the history, and without any assumption on how clients register *)
Theorem plain_delivery ops c g f : snd c = TFeed g ->
  exists s, final true ops = Some s /\
    (In c (recipients f (inner s)) <-> reg_of ops c = true /\ g = f).
Proof.
  intros Hc. destruct (reach ops) as (s & Hf & [B M] & _ & Hg & _). exists s. split; [exact Hf|].
  rewrite in_recipients, <- Hg. unfold regP. rewrite Hc. split.
  - intros [[Hm E]|[id Hm]]; [split; [exact Hm|congruence]|].
    destruct (b_sub_owner s B id f c Hm) as [t Ht]. congruence.
  - intros [Hm ->]. left. auto.
Qed.

(* ------------------------------------------------------------------ a rule edit takes effect at once *)
(* the operation leaves stream t without feed f: a rule for t that does not name f, a delete of t's
   rule, a delete-all *)
Definition mutes (o : op) (t f : N) : Prop :=
  match o with
  | AddRule t' fs => t' = t /\ t <> reserved /\ ~ In f fs
  | Delete t' => t' = t \/ t' = reserved
  | DeleteAll => True
  | _ => False
  end.

Lemma rule_of_after_mute ops o t f : mutes o t f -> forall fs, rule_of (ops ++ [o]) t = Some fs -> ~ In f fs.
Proof.
  intros Hm fs. rewrite rule_of_snoc. destruct o as [c|c|t' fs'|t'| |g]; cbn [mutes rule_step] in *; try contradiction.
  - destruct Hm as (-> & Hr & Hn). destruct (N.eqb_spec t reserved); [contradiction|].
    rewrite N.eqb_refl. intros E; inversion E; subst. exact Hn.
  - destruct (N.eqb_spec t' reserved); [discriminate|]. destruct Hm as [->|E]; [|contradiction].
    rewrite N.eqb_refl. discriminate.
  - discriminate.
Qed.

Theorem muted_feed_stops ops o t f c :
  wf (ops ++ [o]) -> mutes o t f -> snd c = TStream t ->
  exists out, run true init ((ops ++ [o]) ++ [Bcast f]) = (fst (run true init (ops ++ [o])) ++ [out], false) /\
    ~ In c out.
Proof.
  intros W Hm Hc. destruct (delivery_spec_run (ops ++ [o]) f W) as (out & Hr & H). exists out. split; [exact Hr|].
  intros Hin. apply H in Hin. destruct Hin as [_ Hx]. rewrite Hc in Hx. destruct Hx as (fs & Hfs & Hf).
  exact (rule_of_after_mute ops o t f Hm fs Hfs Hf).
Qed.

Theorem new_feed_starts ops t fs f c :
  wf (ops ++ [AddRule t fs]) -> t <> reserved -> In f fs -> snd c = TStream t -> reg_of ops c = true ->
  exists out, run true init ((ops ++ [AddRule t fs]) ++ [Bcast f]) =
                (fst (run true init (ops ++ [AddRule t fs])) ++ [out], false) /\ In c out.
Proof.
  intros W Hr Hf Hc Hreg. destruct (delivery_spec_run (ops ++ [AddRule t fs]) f W) as (out & Hrun & H).
  exists out. split; [exact Hrun|]. apply H. unfold expected. split.
  - rewrite reg_of_snoc. exact Hreg.
  - rewrite Hc. exists fs. split; [|exact Hf]. rewrite rule_of_snoc. cbn [rule_step].
    destruct (N.eqb_spec t reserved); [contradiction|]. rewrite N.eqb_refl. reflexivity.
Qed.

(* ------------------------------------------------------------------ names *)
Theorem topic_of_name_spec name n :
  (topic_of_name name n = TStream n <-> prefix "stream/" name = true) /\
  (topic_of_name name n = TFeed n <-> prefix "stream/" name = false).
Proof. unfold topic_of_name. destruct (prefix "stream/" name); split; split; intros H; try discriminate; reflexivity. Qed.

Theorem stream_reserved_is_exact_word name n : n <> reserved ->
  (stream_of_name name n = reserved <-> name = "deleteAll"%string).
Proof.
  intros Hn. unfold stream_of_name. destruct (String.eqb_spec name "deleteAll") as [->|Hne].
  - split; reflexivity.
  - split; intros E; contradiction.
Qed.
