(* Invariants of the destination-rule hub model (C16): the tables follow the latest add per id,
   every id has at most one live client, the old client is unregistered and cancelled before the
   new one is installed, and nothing is enqueued for a cancelled client. *)
From Relay Require Import Base.Prelude Base.AList Model.Rwc.

Local Notation EN := N.eqb_eq.

(* ------------------------------------------------------------------ the two maps *)
Lemma clk_ins id id' c m : clk id' (cins id c m) = if N.eqb id' id then Some c else clk id' m.
Proof.
  destruct (N.eqb_spec id' id) as [->|Hn]; [apply lookup_insert_eq; exact EN|].
  apply lookup_insert_neq; [exact EN|exact Hn].
Qed.
Lemma clk_rm id id' m : clk id' (crm id m) = if N.eqb id' id then None else clk id' m.
Proof.
  destruct (N.eqb_spec id' id) as [->|Hn]; [apply lookup_remove_eq; exact EN|].
  apply lookup_remove_neq; [exact EN|exact Hn].
Qed.
Lemma rlk_ins id id' r m : rlk id' (rins id r m) = if N.eqb id' id then Some r else rlk id' m.
Proof.
  destruct (N.eqb_spec id' id) as [->|Hn]; [apply lookup_insert_eq; exact EN|].
  apply lookup_insert_neq; [exact EN|exact Hn].
Qed.
Lemma rlk_rm id id' m : rlk id' (rrm id m) = if N.eqb id' id then None else rlk id' m.
Proof.
  destruct (N.eqb_spec id' id) as [->|Hn]; [apply lookup_remove_eq; exact EN|].
  apply lookup_remove_neq; [exact EN|exact Hn].
Qed.

Lemma in_drop_member x g l : In x (drop_member g l) <-> In x l /\ cgen x <> g.
Proof.
  unfold drop_member. rewrite filter_In. destruct (N.eqb_spec (cgen x) g); cbn; split; intros [H1 H2]; split; congruence.
Qed.

Lemma in_lookup_nodup {V} (m : alist N V) id v : NoDup (keys m) -> In (id, v) m -> lookup N.eqb id m = Some v.
Proof.
  induction m as [|[k w] r IH]; cbn; intros Hnd Hin; [contradiction|].
  inversion Hnd as [|? ? Hk Hr]; subst. destruct Hin as [E|Hin].
  - inversion E; subst. rewrite N.eqb_refl. reflexivity.
  - destruct (N.eqb_spec id k) as [->|Hn]; [|apply IH; assumption].
    exfalso. apply Hk. unfold keys. apply in_map_iff. exists (k, v). auto.
Qed.

Lemma lookup_in {V} (m : alist N V) id v : lookup N.eqb id m = Some v -> In (id, v) m.
Proof.
  induction m as [|[k w] r IH]; cbn; [discriminate|].
  destruct (N.eqb_spec id k) as [->|Hn]; [intros E; inversion E; left; reflexivity|intros H; right; apply IH; exact H].
Qed.

(* ------------------------------------------------------------------ stopping clients *)
Lemma stop_id_eq s id :
  stop_id id s =
  match clk id (clients s) with
  | Some c => (mkst (crm id (clients s)) (rules s) (drop_member (cgen c) (members s)) (cgen c :: ended s) (nextgen s),
               [EUnreg (cgen c); ECancel (cgen c)])
  | None => (s, [])
  end.
Proof. unfold stop_id. destruct (clk id (clients s)); reflexivity. Qed.

Definition stop_events (cs : list client) : list ev := flat_map (fun c => [EUnreg (cgen c); ECancel (cgen c)]) cs.

Lemma stop_all_spec cs : forall s,
  let s1 := fst (stop_all cs s) in
  snd (stop_all cs s) = stop_events cs /\
  clients s1 = clients s /\ rules s1 = rules s /\ nextgen s1 = nextgen s /\
  (forall x, In x (members s1) <-> In x (members s) /\ ~ In (cgen x) (map cgen cs)) /\
  (forall g, In g (ended s1) <-> In g (ended s) \/ In g (map cgen cs)).
Proof.
  induction cs as [|c r IH]; intros s; cbn [stop_all].
  - cbn [fst snd map]. split; [reflexivity|]. split; [reflexivity|]. split; [reflexivity|]. split; [reflexivity|].
    split; [intros x; cbn [In]; tauto|intros g; cbn [In]; tauto].
  - unfold stop. set (s0 := mkst (clients s) (rules s) (drop_member (cgen c) (members s)) (cgen c :: ended s) (nextgen s)).
    specialize (IH s0). destruct (stop_all r s0) as [s2 e2]. cbn [fst snd] in *.
    destruct IH as (He & Hc & Hr & Hn & Hm & Hd).
    split; [cbn [stop_events flat_map app]; rewrite He; reflexivity|].
    split; [exact Hc|]. split; [exact Hr|]. split; [exact Hn|]. split.
    + intros x. rewrite Hm. unfold s0; cbn [members map In]. rewrite in_drop_member. split.
      * intros [[H1 H2] H3]. split; [exact H1|]. intros [E|H]; [congruence|exact (H3 H)].
      * intros [H1 H2]. split; [split; [exact H1|intros E; apply H2; left; congruence]|].
        intros H; apply H2; right; exact H.
    + intros g. rewrite Hd. unfold s0; cbn [ended map In]. split.
      * intros [[E|H]|H]; auto.
      * intros [H|[E|H]]; auto.
Qed.

(* ------------------------------------------------------------------ the state invariant *)
Record SI (s : st) : Prop := mkSI {
  si_nd : NoDup (keys (clients s));
  si_ndr : NoDup (keys (rules s));
  si_rule : forall id c, clk id (clients s) = Some c -> rid (crule c) = id /\ rlk id (rules s) = Some (crule c);
  si_client : forall id r, rlk id (rules s) = Some r -> exists c, clk id (clients s) = Some c /\ crule c = r;
  si_gen : forall id c, clk id (clients s) = Some c -> (cgen c < nextgen s)%N /\ ~ In (cgen c) (ended s);
  si_inj : forall id id' c c', clk id (clients s) = Some c -> clk id' (clients s) = Some c' -> cgen c = cgen c' -> id = id';
  si_mem : forall c, In c (members s) <-> exists id, clk id (clients s) = Some c;
  si_ended : forall g, In g (ended s) -> (g < nextgen s)%N;
  si_res : clk reserved (clients s) = None
}.

Lemma si_init : SI init.
Proof.
  constructor; cbn.
  - constructor.
  - constructor.
  - intros; discriminate.
  - intros; discriminate.
  - intros; discriminate.
  - intros; discriminate.
  - intros c. split; [intros []|intros [id H]; discriminate].
  - intros g [].
  - reflexivity.
Qed.

Lemma si_add s r : SI s -> N.eqb (rid r) reserved = false -> SI (next s (Add r)).
Proof.
  intros I Hres. unfold next. cbn [step]. rewrite Hres. rewrite stop_id_eq.
  apply N.eqb_neq in Hres. remember (rid r) as id eqn:Hid.
  destruct (clk id (clients s)) as [c0|] eqn:E0; cbn [fst snd clients rules members ended nextgen].
  - (* a live client for the id is replaced *)
    destruct (si_gen s I id c0 E0) as [Hg0 He0].
    constructor; cbn [clients rules members ended nextgen].
    + apply nodup_insert; [exact EN|]. apply nodup_remove. apply (si_nd s I).
    + apply nodup_insert; [exact EN|]. apply nodup_remove. apply (si_ndr s I).
    + intros k c. rewrite clk_ins, rlk_ins, clk_rm, rlk_rm. destruct (N.eqb_spec k id) as [->|Hn].
      * intros E; inversion E; subst c. cbn [crule]. split; [congruence|reflexivity].
      * apply (si_rule s I).
    + intros k r0. rewrite clk_ins, rlk_ins, clk_rm, rlk_rm. destruct (N.eqb_spec k id) as [->|Hn].
      * intros E; inversion E; subst r0. eexists. split; reflexivity.
      * apply (si_client s I).
    + intros k c. rewrite clk_ins, clk_rm. destruct (N.eqb_spec k id) as [->|Hn].
      * intros E; inversion E; subst c. cbn [cgen In]. split; [lia|].
        intros [H|H]; [lia|]. apply (si_ended s I) in H. lia.
      * intros H. destruct (si_gen s I k c H) as [H1 H2]. split; [lia|]. cbn [In]. intros [E|E]; [|exact (H2 E)].
        apply Hn. apply (si_inj s I k id c c0 H E0). congruence.
    + intros k k' c c'. rewrite !clk_ins, !clk_rm.
      destruct (N.eqb_spec k id) as [->|Hn], (N.eqb_spec k' id) as [->|Hn']; try reflexivity.
      * intros E H Hg. inversion E; subst c. cbn in Hg. apply (si_gen s I) in H. lia.
      * intros H E Hg. inversion E; subst c'. cbn in Hg. apply (si_gen s I) in H. lia.
      * apply (si_inj s I).
    + intros c. rewrite in_app_iff, in_drop_member. cbn [In]. split.
      * intros [[Hm Hg]|[<-|[]]].
        { apply (si_mem s I) in Hm. destruct Hm as [k Hk]. exists k. rewrite clk_ins, clk_rm.
          destruct (N.eqb_spec k id) as [->|Hn]; [|exact Hk]. exfalso. apply Hg. congruence. }
        exists id. rewrite clk_ins, N.eqb_refl. reflexivity.
      * intros [k Hk]. rewrite clk_ins, clk_rm in Hk. revert Hk. destruct (N.eqb_spec k id) as [->|Hn]; intros Hk.
        { right. left. congruence. }
        left. split; [apply (si_mem s I); exists k; exact Hk|].
        intros Hg. apply Hn. apply (si_inj s I k id c c0 Hk E0 Hg).
    + intros g [<-|H]; [lia|]. apply (si_ended s I) in H. lia.
    + rewrite clk_ins, clk_rm. destruct (N.eqb_spec reserved id) as [E|_]; [congruence|apply (si_res s I)].
  - (* a new id *)
    constructor; cbn [clients rules members ended nextgen].
    + apply nodup_insert; [exact EN|]. apply (si_nd s I).
    + apply nodup_insert; [exact EN|]. apply nodup_remove. apply (si_ndr s I).
    + intros k c. rewrite clk_ins, rlk_ins, rlk_rm. destruct (N.eqb_spec k id) as [->|Hn].
      * intros E; inversion E; subst c. cbn [crule]. split; [congruence|reflexivity].
      * apply (si_rule s I).
    + intros k r0. rewrite clk_ins, rlk_ins, rlk_rm. destruct (N.eqb_spec k id) as [->|Hn].
      * intros E; inversion E; subst r0. eexists. split; reflexivity.
      * apply (si_client s I).
    + intros k c. rewrite clk_ins. destruct (N.eqb_spec k id) as [->|Hn].
      * intros E; inversion E; subst c. cbn [cgen]. split; [lia|].
        intros H. apply (si_ended s I) in H. lia.
      * intros H. destruct (si_gen s I k c H) as [H1 H2]. split; [lia|exact H2].
    + intros k k' c c'. rewrite !clk_ins.
      destruct (N.eqb_spec k id) as [->|Hn], (N.eqb_spec k' id) as [->|Hn']; try reflexivity.
      * intros E H Hg. inversion E; subst c. cbn in Hg. apply (si_gen s I) in H. lia.
      * intros H E Hg. inversion E; subst c'. cbn in Hg. apply (si_gen s I) in H. lia.
      * apply (si_inj s I).
    + intros c. rewrite in_app_iff. cbn [In]. split.
      * intros [Hm|[<-|[]]].
        { apply (si_mem s I) in Hm. destruct Hm as [k Hk]. exists k. rewrite clk_ins.
          destruct (N.eqb_spec k id) as [->|Hn]; [congruence|exact Hk]. }
        exists id. rewrite clk_ins, N.eqb_refl. reflexivity.
      * intros [k Hk]. rewrite clk_ins in Hk. revert Hk. destruct (N.eqb_spec k id) as [->|Hn]; intros Hk.
        { right. left. congruence. }
        left. apply (si_mem s I). exists k; exact Hk.
    + intros g H. apply (si_ended s I) in H. lia.
    + rewrite clk_ins. destruct (N.eqb_spec reserved id) as [E|_]; [congruence|apply (si_res s I)].
Qed.

Lemma si_delete_one s id : SI s -> N.eqb id reserved = false -> SI (next s (Delete id)).
Proof.
  intros I Hres. unfold next. cbn [step]. rewrite Hres. rewrite stop_id_eq.
  destruct (clk id (clients s)) as [c0|] eqn:E0; cbn [fst snd set_maps clients rules members ended nextgen].
  - destruct (si_gen s I id c0 E0) as [Hg0 He0].
    constructor; cbn [set_maps clients rules members ended nextgen].
    + apply nodup_remove. apply (si_nd s I).
    + apply nodup_remove. apply (si_ndr s I).
    + intros k c. rewrite clk_rm, rlk_rm. destruct (N.eqb_spec k id) as [->|Hn]; [discriminate|apply (si_rule s I)].
    + intros k r0. rewrite clk_rm, rlk_rm. destruct (N.eqb_spec k id) as [->|Hn]; [discriminate|apply (si_client s I)].
    + intros k c. rewrite clk_rm. destruct (N.eqb_spec k id) as [->|Hn]; [discriminate|].
      intros H. destruct (si_gen s I k c H) as [H1 H2]. split; [exact H1|]. cbn [In]. intros [E|E]; [|exact (H2 E)].
      apply Hn. apply (si_inj s I k id c c0 H E0). congruence.
    + intros k k' c c'. rewrite !clk_rm.
      destruct (N.eqb_spec k id) as [->|Hn]; [discriminate|]. destruct (N.eqb_spec k' id) as [->|Hn']; [discriminate|].
      apply (si_inj s I).
    + intros c. rewrite in_drop_member. split.
      * intros [Hm Hg]. apply (si_mem s I) in Hm. destruct Hm as [k Hk]. exists k. rewrite clk_rm.
        destruct (N.eqb_spec k id) as [->|Hn]; [|exact Hk]. exfalso. apply Hg. congruence.
      * intros [k Hk]. rewrite clk_rm in Hk. revert Hk. destruct (N.eqb_spec k id) as [->|Hn]; intros Hk; [discriminate|].
        split; [apply (si_mem s I); exists k; exact Hk|].
        intros Hg. apply Hn. apply (si_inj s I k id c c0 Hk E0 Hg).
    + intros g [<-|H]; [exact Hg0|]. apply (si_ended s I); exact H.
    + rewrite clk_rm. destruct (N.eqb reserved id); [reflexivity|apply (si_res s I)].
  - (* no client under the id: by the invariant there is no rule either, only Rules is touched *)
    constructor; cbn [set_maps clients rules members ended nextgen]; try apply I.
    + apply nodup_remove. apply (si_ndr s I).
    + intros k c H. rewrite rlk_rm. destruct (N.eqb_spec k id) as [->|Hn]; [congruence|apply (si_rule s I); exact H].
    + intros k r0. rewrite rlk_rm. destruct (N.eqb_spec k id) as [->|Hn]; [discriminate|apply (si_client s I)].
Qed.

Lemma si_delete_all s : SI s -> SI (fst (delete_all s)).
Proof.
  intros I. unfold delete_all.
  pose proof (stop_all_spec (map snd (clients s)) s) as H.
  destruct (stop_all (map snd (clients s)) s) as [s1 e1]. cbn [fst snd] in *.
  destruct H as (_ & Hc & Hr & Hn & Hm & Hd).
  constructor; cbn [set_maps clients rules members ended nextgen keys map lookup];
    try constructor; try (intros; discriminate).
  - intros H. exfalso. apply Hm in H. destruct H as [H1 H2].
    apply (si_mem s I) in H1. destruct H1 as [id Hid]. apply H2. apply in_map. apply in_map_iff.
    exists (id, c). split; [reflexivity|apply lookup_in; exact Hid].
  - intros [id H]; discriminate.
  - intros g H. rewrite Hn. apply Hd in H. destruct H as [H|H]; [apply (si_ended s I); exact H|].
    apply in_map_iff in H. destruct H as [c [<- H]]. apply in_map_iff in H. destruct H as [[id c'] [E H]].
    cbn in E; subst c'. apply (in_lookup_nodup _ _ _ (si_nd s I)) in H. apply (si_gen s I id c H).
Qed.

Lemma si_next s o : SI s -> SI (next s o).
Proof.
  intros I. destruct o as [r|id| |str].
  - destruct (N.eqb (rid r) reserved) eqn:E; [|apply si_add; assumption].
    unfold next; cbn [step]. rewrite E. exact I.
  - destruct (N.eqb id reserved) eqn:E; [|apply si_delete_one; assumption].
    unfold next; cbn [step]. rewrite E. pose proof (si_delete_all s I) as H.
    destruct (delete_all s) as [s1 e]. exact H.
  - unfold next; cbn [step]. pose proof (si_delete_all s I) as H. destruct (delete_all s) as [s1 e]. exact H.
  - exact I.
Qed.

Lemma si_fold ops : forall s, SI s -> SI (fold_left next ops s).
Proof. induction ops as [|o r IH]; intros s I; [exact I|]. cbn. apply IH. apply si_next; exact I. Qed.

Lemma si_final ops : SI (final ops).
Proof. apply si_fold. exact si_init. Qed.

(* ------------------------------------------------------------------ tables = latest add per id *)
Lemma delete_all_tables s : clients (fst (delete_all s)) = [] /\ rules (fst (delete_all s)) = [].
Proof.
  unfold delete_all. destruct (stop_all (map snd (clients s)) s) as [s1 e]. split; reflexivity.
Qed.

Lemma next_rules s o id : rlk id (rules (next s o)) = latest_step id (rlk id (rules s)) o.
Proof.
  unfold next. destruct o as [r|k| |str]; cbn [step latest_step].
  - destruct (N.eqb (rid r) reserved); [reflexivity|]. rewrite stop_id_eq.
    destruct (clk (rid r) (clients s)); cbn [fst snd rules]; rewrite rlk_ins, rlk_rm; destruct (N.eqb id (rid r)); reflexivity.
  - destruct (N.eqb k reserved).
    + pose proof (delete_all_tables s) as [_ H]. destruct (delete_all s) as [s1 e]. cbn [fst] in *. rewrite H. reflexivity.
    + rewrite stop_id_eq. destruct (clk k (clients s)); cbn [fst snd set_maps rules]; rewrite rlk_rm; reflexivity.
  - pose proof (delete_all_tables s) as [_ H]. destruct (delete_all s) as [s1 e]. cbn [fst] in *. rewrite H. reflexivity.
  - reflexivity.
Qed.

Lemma next_clients s o id :
  option_map crule (clk id (clients (next s o))) = latest_step id (option_map crule (clk id (clients s))) o.
Proof.
  unfold next. destruct o as [r|k| |str]; cbn [step latest_step].
  - destruct (N.eqb (rid r) reserved); [reflexivity|]. rewrite stop_id_eq.
    destruct (clk (rid r) (clients s)); cbn [fst snd clients]; rewrite clk_ins, ?clk_rm;
      destruct (N.eqb id (rid r)); reflexivity.
  - destruct (N.eqb k reserved).
    + pose proof (delete_all_tables s) as [H _]. destruct (delete_all s) as [s1 e]. cbn [fst] in *. rewrite H. reflexivity.
    + rewrite stop_id_eq. destruct (clk k (clients s)) eqn:E; cbn [fst snd set_maps clients].
      * rewrite clk_rm. destruct (N.eqb id k); reflexivity.
      * destruct (N.eqb_spec id k) as [->|Hn]; [rewrite E; reflexivity|reflexivity].
  - pose proof (delete_all_tables s) as [H _]. destruct (delete_all s) as [s1 e]. cbn [fst] in *. rewrite H. reflexivity.
  - reflexivity.
Qed.

Lemma fold_rules id ops : forall s,
  rlk id (rules (fold_left next ops s)) = fold_left (latest_step id) ops (rlk id (rules s)).
Proof. induction ops as [|o r IH]; intros s; cbn; [reflexivity|]. rewrite IH, next_rules. reflexivity. Qed.

Lemma fold_clients id ops : forall s,
  option_map crule (clk id (clients (fold_left next ops s))) =
  fold_left (latest_step id) ops (option_map crule (clk id (clients s))).
Proof. induction ops as [|o r IH]; intros s; cbn; [reflexivity|]. rewrite IH, next_clients. reflexivity. Qed.

(* the rule listing is exactly: for every id, the rule most recently added and not since deleted *)
Theorem listing_exact ops :
  NoDup (keys (rules (final ops))) /\ forall id, rlk id (rules (final ops)) = latest ops id.
Proof. split; [apply (si_ndr _ (si_final ops))|]. intros id. unfold final, latest. rewrite fold_rules. reflexivity. Qed.

(* the live client of an id carries the destination and stream of the most recent add for that id;
   no client if that rule has been deleted *)
Theorem live_is_latest ops id :
  option_map crule (clk id (clients (final ops))) = latest ops id.
Proof. unfold final, latest. rewrite fold_clients. reflexivity. Qed.

Lemma latest_reserved ops : forall a, a = None -> fold_left (latest_step reserved) ops a = None.
Proof.
  induction ops as [|o r IH]; intros a ->; cbn; [reflexivity|]. apply IH.
  destruct o as [ru|k| |str]; cbn [latest_step]; try reflexivity.
  - destruct (N.eqb_spec (rid ru) reserved) as [E|Hn]; [reflexivity|].
    destruct (N.eqb_spec reserved (rid ru)) as [E|_]; [congruence|reflexivity].
  - destruct (N.eqb k reserved); [reflexivity|]. destruct (N.eqb reserved k); reflexivity.
Qed.

Theorem reserved_id :
  (forall s r, rid r = reserved -> step s (Add r) = (s, [], [])) /\
  (forall ops, rlk reserved (rules (final ops)) = None /\ clk reserved (clients (final ops)) = None).
Proof.
  split.
  - intros s r H. cbn [step]. rewrite H. reflexivity.
  - intros ops. split.
    + destruct (listing_exact ops) as [_ H]. rewrite H. apply latest_reserved. reflexivity.
    + apply (si_res _ (si_final ops)).
Qed.

(* ------------------------------------------------------------------ the order of events *)
(* what must hold of an event given everything that happened before it *)
Definition ok_ext (past : list ev) (e : ev) : Prop :=
  match e with
  | EInstall id g =>
      (forall g', In (EInstall id g') past -> In (ECancel g') past /\ In (EUnreg g') past) /\
      (forall id', ~ In (EInstall id' g) past)
  | EEnq g => ~ In (ECancel g) past /\ ~ In (EUnreg g) past
  | _ => True
  end.

(* rt is a trace most-recent-first: every event was acceptable when it happened *)
Fixpoint okr (rt : list ev) : Prop :=
  match rt with
  | [] => True
  | e :: past => ok_ext past e /\ okr past
  end.

Lemma okr_suffix a b : okr (a ++ b) -> okr b.
Proof. induction a as [|e a IH]; cbn; [auto|]. intros [_ H]. apply IH; exact H. Qed.

Definition quiet (e : ev) : Prop := match e with EUnreg _ | ECancel _ | EReg _ => True | _ => False end.

Lemma okr_quiet l rt : (forall e, In e l -> quiet e) -> okr rt -> okr (l ++ rt).
Proof.
  induction l as [|e l IH]; cbn [app]; intros Hq Ho; [exact Ho|]. cbn [okr]. split.
  - specialize (Hq e (or_introl eq_refl)). destruct e; cbn in *; try exact I; contradiction.
  - apply IH; [|exact Ho]. intros x Hx. apply Hq. right; exact Hx.
Qed.

(* what the past trace and the state have to do with each other *)
Record TI (rt : list ev) (s : st) : Prop := mkTI {
  t_lt : forall id g, In (EInstall id g) rt -> (g < nextgen s)%N;
  t_inst : forall id g, In (EInstall id g) rt ->
      (exists c, clk id (clients s) = Some c /\ cgen c = g) \/ (In (ECancel g) rt /\ In (EUnreg g) rt);
  t_mem : forall c, In c (members s) -> ~ In (ECancel (cgen c)) rt /\ ~ In (EUnreg (cgen c)) rt;
  t_old : forall g, In (ECancel g) rt \/ In (EUnreg g) rt -> (g < nextgen s)%N
}.

Lemma ti_init : TI [] init.
Proof. constructor; cbn; try (intros; contradiction). intros g [[]|[]]. Qed.

Lemma in_stop_events e cs : In e (stop_events cs) <-> exists c, In c cs /\ (e = EUnreg (cgen c) \/ e = ECancel (cgen c)).
Proof.
  unfold stop_events. rewrite in_flat_map. split.
  - intros [c [Hc He]]. exists c. split; [exact Hc|]. cbn in He. destruct He as [<-|[<-|[]]]; auto.
  - intros [c [Hc [ -> | -> ]]]; exists c; (split; [exact Hc|cbn; auto]).
Qed.

Lemma in_enq_only e (l : list client) : In e (rev (map (fun c => EEnq (cgen c)) l)) -> exists g, e = EEnq g.
Proof. rewrite <- in_rev, in_map_iff. intros [c [<- _]]. eexists; reflexivity. Qed.

Lemma okr_enq (l : list client) : forall rt,
  (forall c, In c l -> ~ In (ECancel (cgen c)) rt /\ ~ In (EUnreg (cgen c)) rt) ->
  okr rt -> okr (rev (map (fun c => EEnq (cgen c)) l) ++ rt).
Proof.
  induction l as [|x l IH]; intros rt H Ho; [exact Ho|].
  cbn [map rev]. rewrite <- app_assoc. cbn [app]. apply IH.
  - intros c Hc. destruct (H c (or_intror Hc)) as [H1 H2]. cbn [In].
    split; intros [E|E]; try discriminate; auto.
  - cbn [okr ok_ext]. split; [apply H; left; reflexivity|exact Ho].
Qed.

Lemma delete_all_trace s rt : SI s -> TI rt s -> okr rt ->
  okr (rev (snd (delete_all s)) ++ rt) /\ TI (rev (snd (delete_all s)) ++ rt) (fst (delete_all s)).
Proof.
  intros HS T Ho. unfold delete_all.
  pose proof (stop_all_spec (map snd (clients s)) s) as H.
  destruct (stop_all (map snd (clients s)) s) as [s1 e1]. cbn [fst snd] in *.
  destruct H as (He & Hc & Hr & Hn & Hm & Hd). subst e1.
  assert (Hcs : forall id c, clk id (clients s) = Some c -> In c (map snd (clients s))).
  { intros id c H. apply in_map_iff. exists (id, c). split; [reflexivity|apply lookup_in; exact H]. }
  assert (Hev : forall e, In e (rev (stop_events (map snd (clients s)))) ->
            exists id c, clk id (clients s) = Some c /\ (e = EUnreg (cgen c) \/ e = ECancel (cgen c))).
  { intros e H. rewrite <- in_rev in H. apply in_stop_events in H. destruct H as (c & Hin & He).
    apply in_map_iff in Hin. destruct Hin as [[id c'] [E Hin]]. cbn in E; subst c'.
    exists id, c. split; [apply (in_lookup_nodup _ _ _ (si_nd s HS)); exact Hin|exact He]. }
  split.
  - apply okr_quiet; [|exact Ho]. intros e H. apply Hev in H. destruct H as (id & c & _ & [->| ->]); exact I.
  - constructor; cbn [set_maps clients rules members ended nextgen].
    + intros id g H. rewrite Hn. apply in_app_iff in H. destruct H as [H|H]; [|apply (t_lt rt s T) in H; exact H].
      apply Hev in H. destruct H as (k & c & _ & [E|E]); discriminate.
    + intros id g H. right. apply in_app_iff in H. destruct H as [H|H].
      { apply Hev in H. destruct H as (k & c & _ & [E|E]); discriminate. }
      destruct (t_inst rt s T id g H) as [(c & Hcl & Hg)|[H1 H2]].
      * subst g. split; apply in_app_iff; left; rewrite <- in_rev; apply in_stop_events; exists c; (split; [eapply Hcs; exact Hcl|auto]).
      * split; apply in_app_iff; right; assumption.
    + intros c H. exfalso. apply Hm in H. destruct H as [H1 H2]. apply (si_mem s HS) in H1.
      destruct H1 as [id Hid]. apply H2. apply in_map. eapply Hcs; exact Hid.
    + intros g H. rewrite Hn. destruct H as [H|H]; apply in_app_iff in H; destruct H as [H|H].
      * apply Hev in H. destruct H as (k & c & Hk & [E|E]); inversion E; subst. apply (si_gen s HS k c Hk).
      * apply (t_old rt s T). left; exact H.
      * apply Hev in H. destruct H as (k & c & Hk & [E|E]); inversion E; subst. apply (si_gen s HS k c Hk).
      * apply (t_old rt s T). right; exact H.
Qed.

Lemma step_trace s o rt : SI s -> TI rt s -> okr rt ->
  okr (rev (events s o) ++ rt) /\ TI (rev (events s o) ++ rt) (next s o).
Proof.
  intros HS T Ho. destruct o as [r|k| |str].
  - (* Add *)
    unfold events, next. cbn [step]. destruct (N.eqb (rid r) reserved) eqn:Hres; [cbn; auto|].
    rewrite stop_id_eq. remember (rid r) as id eqn:Hid.
    destruct (clk id (clients s)) as [c0|] eqn:E0; cbn [fst snd app rev cgen clients rules members ended nextgen].
    + set (g0 := cgen c0). set (g := nextgen s).
      assert (Hpast : okr (ECancel g0 :: EUnreg g0 :: rt)) by (cbn; auto).
      split.
      * cbn [okr ok_ext]. split; [exact I|]. split; [|exact Hpast]. split.
        { intros g' Hin. cbn [In] in Hin. destruct Hin as [Hx|[Hx|Hin]]; try discriminate.
          destruct (t_inst rt s T id g' Hin) as [(c & Hc & Hg)|[H1 H2]].
          - assert (c = c0) by congruence. subst c. subst g'. cbn [In]. split; auto 10.
          - cbn [In]. split; auto 10. }
        { intros id' Hin. cbn [In] in Hin. destruct Hin as [Hx|[Hx|Hin]]; try discriminate.
          apply (t_lt rt s T) in Hin. unfold g in Hin. lia. }
      * constructor; cbn [clients rules members ended nextgen].
        { intros k g'. cbn [In]. intros [Hx|[Hx|[Hx|[Hx|Hin]]]]; try discriminate.
          - inversion Hx; subst. unfold g. lia.
          - apply (t_lt rt s T) in Hin. lia. }
        { intros k g'. cbn [In]. intros [Hx|[Hx|[Hx|[Hx|Hin]]]]; try discriminate.
          - inversion Hx; subst k g'. left. eexists. rewrite clk_ins, N.eqb_refl. split; reflexivity.
          - destruct (t_inst rt s T k g' Hin) as [(c & Hc & Hg)|[H1 H2]].
            + destruct (N.eqb_spec k id) as [->|Hn].
              * assert (c = c0) by congruence. subst c. right. subst g'. fold g0. split; auto 10.
              * left. exists c. rewrite clk_ins, clk_rm. destruct (N.eqb_spec k id); [contradiction|]. auto.
            + right. split; auto 10. }
        { intros c. rewrite in_app_iff, in_drop_member. cbn [In]. intros [[Hm Hg]|[<-|[]]].
          - destruct (t_mem rt s T c Hm) as [H1 H2]. fold g0 in Hg. split.
            + intros [Hx|[Hx|[Hx|[Hx|Hin]]]]; try discriminate; [congruence|exact (H1 Hin)].
            + intros [Hx|[Hx|[Hx|[Hx|Hin]]]]; try discriminate; [congruence|exact (H2 Hin)].
          - cbn [cgen]. pose proof (si_gen s HS id c0 E0) as [Hlt _]. fold g0 in Hlt. split.
            + intros [Hx|[Hx|[Hx|[Hx|Hin]]]]; try discriminate.
              * inversion Hx. unfold g in *. lia.
              * assert (g < nextgen s)%N by (apply (t_old rt s T); left; exact Hin). unfold g in *. lia.
            + intros [Hx|[Hx|[Hx|[Hx|Hin]]]]; try discriminate.
              * inversion Hx. unfold g in *. lia.
              * assert (g < nextgen s)%N by (apply (t_old rt s T); right; exact Hin). unfold g in *. lia. }
        { intros g'. pose proof (si_gen s HS id c0 E0) as [Hlt _]. fold g0 in Hlt. cbn [In].
          intros [[Hx|[Hx|[Hx|[Hx|Hin]]]]|[Hx|[Hx|[Hx|[Hx|Hin]]]]]; try discriminate.
          - inversion Hx; subst. lia.
          - assert (g' < nextgen s)%N by (apply (t_old rt s T); left; exact Hin). lia.
          - inversion Hx; subst. lia.
          - assert (g' < nextgen s)%N by (apply (t_old rt s T); right; exact Hin). lia. }
    + set (g := nextgen s). split.
      * cbn [okr ok_ext]. split; [exact I|]. split; [|exact Ho]. split.
        { intros g' Hin. destruct (t_inst rt s T id g' Hin) as [(c & Hc & Hg)|[H1 H2]]; [congruence|auto]. }
        { intros id' Hin. apply (t_lt rt s T) in Hin. unfold g in Hin. lia. }
      * constructor; cbn [clients rules members ended nextgen].
        { intros k g'. cbn [In]. intros [Hx|[Hx|Hin]]; try discriminate.
          - inversion Hx; subst. unfold g. lia.
          - apply (t_lt rt s T) in Hin. lia. }
        { intros k g'. cbn [In]. intros [Hx|[Hx|Hin]]; try discriminate.
          - inversion Hx; subst k g'. left. eexists. rewrite clk_ins, N.eqb_refl. split; reflexivity.
          - destruct (t_inst rt s T k g' Hin) as [(c & Hc & Hg)|[H1 H2]].
            + left. exists c. rewrite clk_ins. destruct (N.eqb_spec k id) as [->|Hn]; [congruence|auto].
            + right. split; auto 10. }
        { intros c. rewrite in_app_iff. cbn [In]. intros [Hm|[<-|[]]].
          - destruct (t_mem rt s T c Hm) as [H1 H2]. split.
            + intros [Hx|[Hx|Hin]]; try discriminate. exact (H1 Hin).
            + intros [Hx|[Hx|Hin]]; try discriminate. exact (H2 Hin).
          - cbn [cgen]. split.
            + intros [Hx|[Hx|Hin]]; try discriminate.
              assert (g < nextgen s)%N by (apply (t_old rt s T); left; exact Hin). unfold g in *. lia.
            + intros [Hx|[Hx|Hin]]; try discriminate.
              assert (g < nextgen s)%N by (apply (t_old rt s T); right; exact Hin). unfold g in *. lia. }
        { intros g'. cbn [In]. intros [[Hx|[Hx|Hin]]|[Hx|[Hx|Hin]]]; try discriminate.
          - assert (g' < nextgen s)%N by (apply (t_old rt s T); left; exact Hin). lia.
          - assert (g' < nextgen s)%N by (apply (t_old rt s T); right; exact Hin). lia. }
  - (* Delete *)
    unfold events, next. cbn [step]. destruct (N.eqb k reserved) eqn:Hres.
    { pose proof (delete_all_trace s rt HS T Ho) as H. destruct (delete_all s) as [s1 e]. exact H. }
    rewrite stop_id_eq. destruct (clk k (clients s)) as [c0|] eqn:E0;
      cbn [fst snd app rev set_maps clients rules members ended nextgen].
    + set (g0 := cgen c0). split; [cbn; auto|].
      pose proof (si_gen s HS k c0 E0) as [Hlt _]. fold g0 in Hlt.
      constructor; cbn [set_maps clients rules members ended nextgen].
      * intros id g. cbn [In]. intros [Hx|[Hx|Hin]]; try discriminate. apply (t_lt rt s T) in Hin. exact Hin.
      * intros id g. cbn [In]. intros [Hx|[Hx|Hin]]; try discriminate.
        destruct (t_inst rt s T id g Hin) as [(c & Hc & Hg)|[H1 H2]].
        { destruct (N.eqb_spec id k) as [->|Hn].
          - assert (c = c0) by congruence. subst c. right. subst g. fold g0. split; auto 10.
          - left. exists c. rewrite clk_rm. destruct (N.eqb_spec id k); [contradiction|]. auto. }
        right. split; auto 10.
      * intros c. rewrite in_drop_member. intros [Hm Hg]. fold g0 in Hg.
        destruct (t_mem rt s T c Hm) as [H1 H2]. cbn [In]. split.
        { intros [Hx|[Hx|Hin]]; try discriminate; [congruence|exact (H1 Hin)]. }
        { intros [Hx|[Hx|Hin]]; try discriminate; [congruence|exact (H2 Hin)]. }
      * intros g. cbn [In]. intros [[Hx|[Hx|Hin]]|[Hx|[Hx|Hin]]]; try discriminate.
        { inversion Hx; subst. exact Hlt. }
        { apply (t_old rt s T). left; exact Hin. }
        { inversion Hx; subst. exact Hlt. }
        { apply (t_old rt s T). right; exact Hin. }
    + split; [exact Ho|]. destruct T as [a b c d]. constructor; assumption.
  - (* DeleteAll *)
    unfold events, next. cbn [step].
    pose proof (delete_all_trace s rt HS T Ho) as H. destruct (delete_all s) as [s1 e]. exact H.
  - (* Bcast *)
    unfold events, next. cbn [step fst snd]. split.
    + apply okr_enq; [|exact Ho]. intros c Hc. apply filter_In in Hc. apply (t_mem rt s T). apply Hc.
    + constructor.
      * intros id g H. apply in_app_iff in H. destruct H as [H|H]; [|apply (t_lt rt s T) in H; exact H].
        apply in_enq_only in H. destruct H as [g' E]; discriminate.
      * intros id g H. apply in_app_iff in H. destruct H as [H|H].
        { apply in_enq_only in H. destruct H as [g' E]; discriminate. }
        destruct (t_inst rt s T id g H) as [Hl|[H1 H2]]; [left; exact Hl|].
        right. split; apply in_app_iff; right; assumption.
      * intros c Hc. destruct (t_mem rt s T c Hc) as [H1 H2].
        split; intros H; apply in_app_iff in H; destruct H as [H|H]; auto;
          apply in_enq_only in H; destruct H as [g' E]; discriminate.
      * intros g [H|H]; apply in_app_iff in H; destruct H as [H|H];
          try (apply in_enq_only in H; destruct H as [g' E]; discriminate).
        { apply (t_old rt s T). left; exact H. }
        { apply (t_old rt s T). right; exact H. }
Qed.

Lemma trace_okr ops : forall s rt, SI s -> TI rt s -> okr rt -> okr (rev (trace_from s ops) ++ rt).
Proof.
  induction ops as [|o r IH]; intros s rt HS T Ho; cbn [trace_from rev app]; [exact Ho|].
  rewrite rev_app_distr, <- app_assoc.
  destruct (step_trace s o rt HS T Ho) as [Ho' T'].
  apply IH; [apply si_next; exact HS|exact T'|exact Ho'].
Qed.

Theorem trace_ok ops : okr (rev (trace ops)).
Proof.
  pose proof (trace_okr ops init [] si_init ti_init I) as H. rewrite app_nil_r in H. exact H.
Qed.

Lemma okr_split tr p e q : okr (rev tr) -> tr = p ++ e :: q -> ok_ext (rev p) e.
Proof.
  intros H ->. rewrite rev_app_distr in H. cbn [rev] in H. rewrite <- app_assoc in H.
  apply okr_suffix in H. cbn [app okr] in H. apply H.
Qed.

Lemma okr_prefix p q : okr (rev (p ++ q)) -> okr (rev p).
Proof. rewrite rev_app_distr. apply okr_suffix. Qed.

(* the step that installs a new client for an id has, before that, cancelled and unregistered every
   client installed for that id earlier *)
Theorem old_cancelled_before_new ops p id g q :
  trace ops = p ++ EInstall id g :: q ->
  forall g', In (EInstall id g') p -> In (ECancel g') p /\ In (EUnreg g') p.
Proof.
  intros E g' Hin. pose proof (okr_split _ _ _ _ (trace_ok ops) E) as [H _].
  rewrite !(in_rev p). apply H. rewrite <- in_rev. exact Hin.
Qed.

(* nothing is enqueued for a client after it has been cancelled *)
Theorem nothing_after_cancel ops p g q :
  trace ops = p ++ ECancel g :: q -> ~ In (EEnq g) q.
Proof.
  intros E Hin. apply in_split in Hin. destruct Hin as (q1 & q2 & ->).
  assert (E' : trace ops = (p ++ ECancel g :: q1) ++ EEnq g :: q2) by (rewrite E, <- app_assoc; reflexivity).
  pose proof (okr_split _ _ _ _ (trace_ok ops) E') as [H _]. apply H.
  rewrite <- in_rev. apply in_app_iff. right. left. reflexivity.
Qed.

(* at every moment of every history: at most one installed-and-not-cancelled client per id *)
Theorem one_live_per_id ops p q id g1 g2 :
  trace ops = p ++ q -> live_in p id g1 -> live_in p id g2 -> g1 = g2.
Proof.
  intros E [I1 C1] [I2 C2].
  assert (Hp : okr (rev p)) by (apply (okr_prefix p q); rewrite <- E; apply trace_ok).
  destruct (N.eq_dec g1 g2) as [|Hne]; [assumption|exfalso].
  apply in_split in I2. destruct I2 as (a & b & Ep). subst p.
  apply in_app_iff in I1. destruct I1 as [I1|[I1|I1]].
  - pose proof (okr_split _ _ _ _ Hp eq_refl) as [H _]. specialize (H g1).
    rewrite <- !in_rev in H. apply H in I1. apply C1. apply in_app_iff. left. apply I1.
  - inversion I1. congruence.
  - apply in_split in I1. destruct I1 as (b1 & b2 & ->).
    assert (E2 : a ++ EInstall id g2 :: b1 ++ EInstall id g1 :: b2 = (a ++ EInstall id g2 :: b1) ++ EInstall id g1 :: b2)
      by (rewrite <- app_assoc; reflexivity).
    pose proof (okr_split _ _ _ _ Hp E2) as [H _]. specialize (H g2). rewrite <- !in_rev in H.
    assert (Hin : In (EInstall id g2) (a ++ EInstall id g2 :: b1)) by (apply in_app_iff; right; left; reflexivity).
    apply H in Hin. apply C2. rewrite E2. apply in_app_iff. left. apply Hin.
Qed.

(* ------------------------------------------------------------------ frame *)
Lemma untouched_clients s o id : untouched o id -> clk id (clients (next s o)) = clk id (clients s).
Proof.
  unfold next. destruct o as [r|k| |str]; cbn [untouched step].
  - intros Hn. destruct (N.eqb (rid r) reserved); [reflexivity|]. rewrite stop_id_eq.
    destruct (clk (rid r) (clients s)); cbn [fst snd clients]; rewrite clk_ins, ?clk_rm;
      destruct (N.eqb_spec id (rid r)); congruence.
  - intros [Hn Hr]. destruct (N.eqb_spec k reserved); [contradiction|]. rewrite stop_id_eq.
    destruct (clk k (clients s)); cbn [fst snd set_maps clients]; rewrite ?clk_rm;
      destruct (N.eqb_spec id k); congruence.
  - intros [].
  - reflexivity.
Qed.

(* operations on other rules leave a rule's client alone (same generation: its connection is not
   restarted) and registered; a broadcast on its stream is offered to it *)
Theorem others_keep_flowing :
  (forall ops o id c, untouched o id -> clk id (clients (final ops)) = Some c ->
     clk id (clients (next (final ops) o)) = Some c /\ In c (members (next (final ops) o))) /\
  (forall ops id c, clk id (clients (final ops)) = Some c ->
     In (EEnq (cgen c)) (events (final ops) (Bcast (rstream (crule c)))) /\
     In (rdest (crule c)) (snd (step (final ops) (Bcast (rstream (crule c)))))).
Proof.
  split.
  - intros ops o id c Hu Hc. assert (H : clk id (clients (next (final ops) o)) = Some c)
      by (rewrite untouched_clients; assumption).
    split; [exact H|]. apply (si_mem _ (si_next _ o (si_final ops))). exists id; exact H.
  - intros ops id c Hc. assert (Hm : In c (members (final ops))) by (apply (si_mem _ (si_final ops)); exists id; exact Hc).
    assert (Hf : In c (filter (stream_eqb (rstream (crule c))) (members (final ops)))).
    { apply filter_In. split; [exact Hm|]. unfold stream_eqb. apply N.eqb_refl. }
    unfold events. cbn [step fst snd]. split.
    + apply in_map_iff. exists c. split; [reflexivity|exact Hf].
    + apply in_map_iff. exists c. split; [reflexivity|exact Hf].
Qed.

(* a broadcast is offered only to live clients of that stream: every destination it reaches is the
   destination of the latest rule of some id *)
Theorem bcast_only_live ops str d :
  In d (snd (step (final ops) (Bcast str))) ->
  exists id r, latest ops id = Some r /\ rdest r = d /\ rstream r = str.
Proof.
  cbn [step snd]. rewrite in_map_iff. intros [c [<- Hc]]. apply filter_In in Hc. destruct Hc as [Hm Hs].
  apply (si_mem _ (si_final ops)) in Hm. destruct Hm as [id Hid].
  exists id, (crule c). split; [|split; [reflexivity|apply N.eqb_eq; exact Hs]].
  rewrite <- live_is_latest, Hid. reflexivity.
Qed.

(* ------------------------------------------------------------------ every client that is gone was cancelled *)
Lemma final_fold_app s a b : fold_left next (a ++ b) s = fold_left next b (fold_left next a s).
Proof. apply fold_left_app. Qed.

Lemma trace_ti ops : forall s rt, SI s -> TI rt s -> okr rt ->
  TI (rev (trace_from s ops) ++ rt) (fold_left next ops s).
Proof.
  induction ops as [|o r IH]; intros s rt HS T Ho; cbn [trace_from rev app fold_left]; [exact T|].
  rewrite rev_app_distr, <- app_assoc.
  destruct (step_trace s o rt HS T Ho) as [Ho' T'].
  apply IH; [apply si_next; exact HS|exact T'|exact Ho'].
Qed.

(* a client installed at any time is either still the client of its id, or it has been unregistered
   from the messages hub and cancelled: replace, delete and delete-all all end the old client *)
Theorem installed_is_live_or_cancelled ops id g :
  In (EInstall id g) (trace ops) ->
  (exists c, clk id (clients (final ops)) = Some c /\ cgen c = g) \/
  (In (ECancel g) (trace ops) /\ In (EUnreg g) (trace ops)).
Proof.
  intros H. pose proof (trace_ti ops init [] si_init ti_init I) as T. rewrite app_nil_r in T.
  rewrite (in_rev (trace ops)) in H. destruct (t_inst _ _ T id g H) as [Hl|[H1 H2]]; [left; exact Hl|].
  right. rewrite !(in_rev (trace ops)). auto.
Qed.

(* so: once the latest operation on an id is a delete (or delete-all), every client ever made for
   that id has been cancelled and unregistered *)
Theorem deleted_rule_has_no_client ops id g :
  latest ops id = None -> In (EInstall id g) (trace ops) ->
  In (ECancel g) (trace ops) /\ In (EUnreg g) (trace ops).
Proof.
  intros Hl Hi. destruct (installed_is_live_or_cancelled ops id g Hi) as [(c & Hc & _)|H]; [|exact H].
  pose proof (live_is_latest ops id) as E. rewrite Hc, Hl in E. discriminate.
Qed.

(* the reserved word is exactly the string "deleteAll": no other name is read as reserved *)
Theorem reserved_is_exact_word name n : n <> reserved ->
  (id_of_name name n = reserved <-> name = "deleteAll"%string).
Proof.
  intros Hn. unfold id_of_name. destruct (String.eqb_spec name "deleteAll") as [->|Hne].
  - split; reflexivity.
  - split; [intros E; contradiction|intros E; contradiction].
Qed.
