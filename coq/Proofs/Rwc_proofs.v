(* Invariants of the destination-rule hub model (C16): the tables follow the latest add per id,
   every id has at most one live client, the old client is unregistered and cancelled before the
   new one is installed, and nothing is enqueued for a cancelled client. *)
From Relay Require Import Base.Prelude Base.AList Model.Rwc.

Local Notation EN := N.eqb_eq.

(* ------------------------------------------------------------------ the two maps *)
Lemma clk_ins id id' c m : clk id' (cins id c m) = if N.eqb id' id then Some c else clk id' m.
Proof.
  destruct (N.eqb_spec id' id) as [->|Hn]; [apply lookup_insert_eq; exact EN|].
  apply lookup_insert_neq; [exact EN|exact Hn].
Qed.
Lemma clk_rm id id' m : clk id' (crm id m) = if N.eqb id' id then None else clk id' m.
Proof.
  destruct (N.eqb_spec id' id) as [->|Hn]; [apply lookup_remove_eq; exact EN|].
  apply lookup_remove_neq; [exact EN|exact Hn].
Qed.
Lemma rlk_ins id id' r m : rlk id' (rins id r m) = if N.eqb id' id then Some r else rlk id' m.
Proof.
  destruct (N.eqb_spec id' id) as [->|Hn]; [apply lookup_insert_eq; exact EN|].
  apply lookup_insert_neq; [exact EN|exact Hn].
Qed.
Lemma rlk_rm id id' m : rlk id' (rrm id m) = if N.eqb id' id then None else rlk id' m.
Proof.
  destruct (N.eqb_spec id' id) as [->|Hn]; [apply lookup_remove_eq; exact EN|].
  apply lookup_remove_neq; [exact EN|exact Hn].
Qed.

Lemma in_drop_member x g l : In x (drop_member g l) <-> In x l /\ cgen x <> g.
Proof.
  unfold drop_member. rewrite filter_In. destruct (N.eqb_spec (cgen x) g); cbn; split; intros [H1 H2]; split; congruence.
Qed.

Lemma in_lookup_nodup {V} (m : alist N V) id v : NoDup (keys m) -> In (id, v) m -> lookup N.eqb id m = Some v.
Proof.
  induction m as [|[k w] r IH]; cbn; intros Hnd Hin; [contradiction|].
  inversion Hnd as [|? ? Hk Hr]; subst. destruct Hin as [E|Hin].
  - inversion E; subst. rewrite N.eqb_refl. reflexivity.
  - destruct (N.eqb_spec id k) as [->|Hn]; [|apply IH; assumption].
    exfalso. apply Hk. unfold keys. apply in_map_iff. exists (k, v). auto.
Qed.

Lemma lookup_in {V} (m : alist N V) id v : lookup N.eqb id m = Some v -> In (id, v) m.
Proof.
  induction m as [|[k w] r IH]; cbn; [discriminate|].
  destruct (N.eqb_spec id k) as [->|Hn]; [intros E; inversion E; left; reflexivity|intros H; right; apply IH; exact H].
Qed.

(* ------------------------------------------------------------------ stopping clients *)
Lemma stop_id_eq s id :
  stop_id id s =
  match clk id (clients s) with
  | Some c => (mkst (crm id (clients s)) (rules s) (drop_member (cgen c) (members s)) (cgen c :: ended s) (nextgen s),
               [EUnreg (cgen c); ECancel (cgen c)])
  | None => (s, [])
  end.
Proof. unfold stop_id. destruct (clk id (clients s)); reflexivity. Qed.

Definition stop_events (cs : list client) : list ev := flat_map (fun c => [EUnreg (cgen c); ECancel (cgen c)]) cs.

Lemma stop_all_spec cs : forall s,
  let s1 := fst (stop_all cs s) in
  snd (stop_all cs s) = stop_events cs /\
  clients s1 = clients s /\ rules s1 = rules s /\ nextgen s1 = nextgen s /\
  (forall x, In x (members s1) <-> In x (members s) /\ ~ In (cgen x) (map cgen cs)) /\
  (forall g, In g (ended s1) <-> In g (ended s) \/ In g (map cgen cs)).
Proof.
  induction cs as [|c r IH]; intros s; cbn [stop_all].
  - cbn [fst snd map]. split; [reflexivity|]. split; [reflexivity|]. split; [reflexivity|]. split; [reflexivity|].
    split; [intros x; cbn [In]; tauto|intros g; cbn [In]; tauto].
  - unfold stop. set (s0 := mkst (clients s) (rules s) (drop_member (cgen c) (members s)) (cgen c :: ended s) (nextgen s)).
    specialize (IH s0). destruct (stop_all r s0) as [s2 e2]. cbn [fst snd] in *.
    destruct IH as (He & Hc & Hr & Hn & Hm & Hd).
    split; [cbn [stop_events flat_map app]; rewrite He; reflexivity|].
    split; [exact Hc|]. split; [exact Hr|]. split; [exact Hn|]. split.
    + intros x. rewrite Hm. unfold s0; cbn [members map In]. rewrite in_drop_member. split.
      * intros [[H1 H2] H3]. split; [exact H1|]. intros [E|H]; [congruence|exact (H3 H)].
      * intros [H1 H2]. split; [split; [exact H1|intros E; apply H2; left; congruence]|].
        intros H; apply H2; right; exact H.
    + intros g. rewrite Hd. unfold s0; cbn [ended map In]. split.
      * intros [[E|H]|H]; auto.
      * intros [H|[E|H]]; auto.
Qed.

(* ------------------------------------------------------------------ the state invariant *)
Record SI (s : st) : Prop := mkSI {
  si_nd : NoDup (keys (clients s));
  si_ndr : NoDup (keys (rules s));
  si_rule : forall id c, clk id (clients s) = Some c -> rid (crule c) = id /\ rlk id (rules s) = Some (crule c);
  si_client : forall id r, rlk id (rules s) = Some r -> exists c, clk id (clients s) = Some c /\ crule c = r;
  si_gen : forall id c, clk id (clients s) = Some c -> (cgen c < nextgen s)%N /\ ~ In (cgen c) (ended s);
  si_inj : forall id id' c c', clk id (clients s) = Some c -> clk id' (clients s) = Some c' -> cgen c = cgen c' -> id = id';
  si_mem : forall c, In c (members s) <-> exists id, clk id (clients s) = Some c;
  si_ended : forall g, In g (ended s) -> (g < nextgen s)%N;
  si_res : clk reserved (clients s) = None
}.

Lemma si_init : SI init.
Proof.
  constructor; cbn.
  - constructor.
  - constructor.
  - intros; discriminate.
  - intros; discriminate.
  - intros; discriminate.
  - intros; discriminate.
  - intros c. split; [intros []|intros [id H]; discriminate].
  - intros g [].
  - reflexivity.
Qed.

Lemma si_add s r : SI s -> N.eqb (rid r) reserved = false -> SI (next s (Add r)).
Proof.
  intros I Hres. unfold next. cbn [step]. rewrite Hres. rewrite stop_id_eq.
  apply N.eqb_neq in Hres. remember (rid r) as id eqn:Hid.
  destruct (clk id (clients s)) as [c0|] eqn:E0; cbn [fst snd clients rules members ended nextgen].
  - (* a live client for the id is replaced *)
    destruct (si_gen s I id c0 E0) as [Hg0 He0].
    constructor; cbn [clients rules members ended nextgen].
    + apply nodup_insert; [exact EN|]. apply nodup_remove. apply (si_nd s I).
    + apply nodup_insert; [exact EN|]. apply nodup_remove. apply (si_ndr s I).
    + intros k c. rewrite clk_ins, rlk_ins, clk_rm, rlk_rm. destruct (N.eqb_spec k id) as [->|Hn].
      * intros E; inversion E; subst c. cbn [crule]. split; [congruence|reflexivity].
      * apply (si_rule s I).
    + intros k r0. rewrite clk_ins, rlk_ins, clk_rm, rlk_rm. destruct (N.eqb_spec k id) as [->|Hn].
      * intros E; inversion E; subst r0. eexists. split; reflexivity.
      * apply (si_client s I).
    + intros k c. rewrite clk_ins, clk_rm. destruct (N.eqb_spec k id) as [->|Hn].
      * intros E; inversion E; subst c. cbn [cgen In]. split; [lia|].
        intros [H|H]; [lia|]. apply (si_ended s I) in H. lia.
      * intros H. destruct (si_gen s I k c H) as [H1 H2]. split; [lia|]. cbn [In]. intros [E|E]; [|exact (H2 E)].
        apply Hn. apply (si_inj s I k id c c0 H E0). congruence.
    + intros k k' c c'. rewrite !clk_ins, !clk_rm.
      destruct (N.eqb_spec k id) as [->|Hn], (N.eqb_spec k' id) as [->|Hn']; try reflexivity.
      * intros E H Hg. inversion E; subst c. cbn in Hg. apply (si_gen s I) in H. lia.
      * intros H E Hg. inversion E; subst c'. cbn in Hg. apply (si_gen s I) in H. lia.
      * apply (si_inj s I).
    + intros c. rewrite in_app_iff, in_drop_member. cbn [In]. split.
      * intros [[Hm Hg]|[<-|[]]].
        { apply (si_mem s I) in Hm. destruct Hm as [k Hk]. exists k. rewrite clk_ins, clk_rm.
          destruct (N.eqb_spec k id) as [->|Hn]; [|exact Hk]. exfalso. apply Hg. congruence. }
        exists id. rewrite clk_ins, N.eqb_refl. reflexivity.
      * intros [k Hk]. rewrite clk_ins, clk_rm in Hk. revert Hk. destruct (N.eqb_spec k id) as [->|Hn]; intros Hk.
        { right. left. congruence. }
        left. split; [apply (si_mem s I); exists k; exact Hk|].
        intros Hg. apply Hn. apply (si_inj s I k id c c0 Hk E0 Hg).
    + intros g [<-|H]; [lia|]. apply (si_ended s I) in H. lia.
    + rewrite clk_ins, clk_rm. destruct (N.eqb_spec reserved id) as [E|_]; [congruence|apply (si_res s I)].
  - (* a new id *)
    constructor; cbn [clients rules members ended nextgen].
    + apply nodup_insert; [exact EN|]. apply (si_nd s I).
    + apply nodup_insert; [exact EN|]. apply nodup_remove. apply (si_ndr s I).
    + intros k c. rewrite clk_ins, rlk_ins, rlk_rm. destruct (N.eqb_spec k id) as [->|Hn].
      * intros E; inversion E; subst c. cbn [crule]. split; [congruence|reflexivity].
      * apply (si_rule s I).
    + intros k r0. rewrite clk_ins, rlk_ins, rlk_rm. destruct (N.eqb_spec k id) as [->|Hn].
      * intros E; inversion E; subst r0. eexists. split; reflexivity.
      * apply (si_client s I).
    + intros k c. rewrite clk_ins. destruct (N.eqb_spec k id) as [->|Hn].
      * intros E; inversion E; subst c. cbn [cgen]. split; [lia|].
        intros H. apply (si_ended s I) in H. lia.
      * intros H. destruct (si_gen s I k c H) as [H1 H2]. split; [lia|exact H2].
    + intros k k' c c'. rewrite !clk_ins.
      destruct (N.eqb_spec k id) as [->|Hn], (N.eqb_spec k' id) as [->|Hn']; try reflexivity.
      * intros E H Hg. inversion E; subst c. cbn in Hg. apply (si_gen s I) in H. lia.
      * intros H E Hg. inversion E; subst c'. cbn in Hg. apply (si_gen s I) in H. lia.
      * apply (si_inj s I).
    + intros c. rewrite in_app_iff. cbn [In]. split.
      * intros [Hm|[<-|[]]].
        { apply (si_mem s I) in Hm. destruct Hm as [k Hk]. exists k. rewrite clk_ins.
          destruct (N.eqb_spec k id) as [->|Hn]; [congruence|exact Hk]. }
        exists id. rewrite clk_ins, N.eqb_refl. reflexivity.
      * intros [k Hk]. rewrite clk_ins in Hk. revert Hk. destruct (N.eqb_spec k id) as [->|Hn]; intros Hk.
        { right. left. congruence. }
        left. apply (si_mem s I). exists k; exact Hk.
    + intros g H. apply (si_ended s I) in H. lia.
    + rewrite clk_ins. destruct (N.eqb_spec reserved id) as [E|_]; [congruence|apply (si_res s I)].
Qed.

Lemma si_delete_one s id : SI s -> N.eqb id reserved = false -> SI (next s (Delete id)).
Proof.
  intros I Hres. unfold next. cbn [step]. rewrite Hres. rewrite stop_id_eq.
  destruct (clk id (clients s)) as [c0|] eqn:E0; cbn [fst snd set_maps clients rules members ended nextgen].
  - destruct (si_gen s I id c0 E0) as [Hg0 He0].
    constructor; cbn [set_maps clients rules members ended nextgen].
    + apply nodup_remove. apply (si_nd s I).
    + apply nodup_remove. apply (si_ndr s I).
    + intros k c. rewrite clk_rm, rlk_rm. destruct (N.eqb_spec k id) as [->|Hn]; [discriminate|apply (si_rule s I)].
    + intros k r0. rewrite clk_rm, rlk_rm. destruct (N.eqb_spec k id) as [->|Hn]; [discriminate|apply (si_client s I)].
    + intros k c. rewrite clk_rm. destruct (N.eqb_spec k id) as [->|Hn]; [discriminate|].
      intros H. destruct (si_gen s I k c H) as [H1 H2]. split; [exact H1|]. cbn [In]. intros [E|E]; [|exact (H2 E)].
      apply Hn. apply (si_inj s I k id c c0 H E0). congruence.
    + intros k k' c c'. rewrite !clk_rm.
      destruct (N.eqb_spec k id) as [->|Hn]; [discriminate|]. destruct (N.eqb_spec k' id) as [->|Hn']; [discriminate|].
      apply (si_inj s I).
    + intros c. rewrite in_drop_member. split.
      * intros [Hm Hg]. apply (si_mem s I) in Hm. destruct Hm as [k Hk]. exists k. rewrite clk_rm.
        destruct (N.eqb_spec k id) as [->|Hn]; [|exact Hk]. exfalso. apply Hg. congruence.
      * intros [k Hk]. rewrite clk_rm in Hk. revert Hk. destruct (N.eqb_spec k id) as [->|Hn]; intros Hk; [discriminate|].
        split; [apply (si_mem s I); exists k; exact Hk|].
        intros Hg. apply Hn. apply (si_inj s I k id c c0 Hk E0 Hg).
    + intros g [<-|H]; [exact Hg0|]. apply (si_ended s I); exact H.
    + rewrite clk_rm. destruct (N.eqb reserved id); [reflexivity|apply (si_res s I)].
  - (* no client under the id: by the invariant there is no rule either, only Rules is touched *)
    constructor; cbn [set_maps clients rules members ended nextgen]; try apply I.
    + apply nodup_remove. apply (si_ndr s I).
    + intros k c H. rewrite rlk_rm. destruct (N.eqb_spec k id) as [->|Hn]; [congruence|apply (si_rule s I); exact H].
    + intros k r0. rewrite rlk_rm. destruct (N.eqb_spec k id) as [->|Hn]; [discriminate|apply (si_client s I)].
Qed.

Lemma si_delete_all s : SI s -> SI (fst (delete_all s)).
Proof.
  intros I. unfold delete_all.
  pose proof (stop_all_spec (map snd (clients s)) s) as H.
  destruct (stop_all (map snd (clients s)) s) as [s1 e1]. cbn [fst snd] in *.
  destruct H as (_ & Hc & Hr & Hn & Hm & Hd).
  constructor; cbn [set_maps clients rules members ended nextgen keys map lookup];
    try constructor; try (intros; discriminate).
  - intros H. exfalso. apply Hm in H. destruct H as [H1 H2].
    apply (si_mem s I) in H1. destruct H1 as [id Hid]. apply H2. apply in_map. apply in_map_iff.
    exists (id, c). split; [reflexivity|apply lookup_in; exact Hid].
  - intros [id H]; discriminate.
  - intros g H. rewrite Hn. apply Hd in H. destruct H as [H|H]; [apply (si_ended s I); exact H|].
    apply in_map_iff in H. destruct H as [c [<- H]]. apply in_map_iff in H. destruct H as [[id c'] [E H]].
    cbn in E; subst c'. apply (in_lookup_nodup _ _ _ (si_nd s I)) in H. apply (si_gen s I id c H).
Qed.

Lemma si_next s o : SI s -> SI (next s o).
Proof.
  intros I. destruct o as [r|id| |str].
  - destruct (N.eqb (rid r) reserved) eqn:E; [|apply si_add; assumption].
    unfold next; cbn [step]. rewrite E. exact I.
  - destruct (N.eqb id reserved) eqn:E; [|apply si_delete_one; assumption].
    unfold next; cbn [step]. rewrite E. pose proof (si_delete_all s I) as H.
    destruct (delete_all s) as [s1 e]. exact H.
  - unfold next; cbn [step]. pose proof (si_delete_all s I) as H. destruct (delete_all s) as [s1 e]. exact H.
  - exact I.
Qed.

Lemma si_fold ops : forall s, SI s -> SI (fold_left next ops s).
Proof. induction ops as [|o r IH]; intros s I; [exact I|]. cbn. apply IH. apply si_next; exact I. Qed.

Lemma si_final ops : SI (final ops).
Proof. apply si_fold. exact si_init. Qed.
