#!/bin/bash
# usage: coq/build.sh [targets...]   (targets relative to coq/, e.g. Props/C10.vo; none = everything)
# Regenerates _CoqProject from the .v files present, then runs a full .vo build (never -vos/-vok)
# under a lock so that concurrent checks do not trample each other.
set -e
cd "$(dirname "$0")"
exec 9>.build.lock
flock 9
{
  echo "-Q . Relay"
  echo "-arg -w -arg -notation-overridden,-deprecated-hint-without-locality,-deprecated-instance-without-locality"
  find Base Model Proofs Props Corr Gen -name '*.v' 2>/dev/null | sort
} > _CoqProject.new
if ! cmp -s _CoqProject.new _CoqProject 2>/dev/null || [ ! -f Makefile.coq ]; then
  mv _CoqProject.new _CoqProject
  coq_makefile -f _CoqProject -o Makefile.coq >/dev/null
else
  rm -f _CoqProject.new
fi
timeout "${COQ_BUILD_TIMEOUT:-1500}" make -f Makefile.coq -j"${COQ_JOBS:-16}" "$@"
