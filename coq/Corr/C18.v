(* Correspondence checker for C18.  A case is one session against a fresh real vw.App:
   the configured control destination, the oracle tables recorded from the real encoding/json during the
   session (raw rule -> decoded rule or error text), and the items of the session, each with what the real
   code answered and the contents of both rule tables read from the App afterwards.
   The model used is the REPAIRED code ([repaired]). *)
From Coq Require Import Uint63.
From Relay Require Import Base.Prelude Base.AList Model.AdminJson Model.AdminApi Model.AdminDecode.
Local Open Scope N_scope.

(* byte strings arrive packed seven to a 63-bit machine integer (one Coq term per seven bytes keeps the case
   files quick to read): [ub n ws] are the first n bytes, least significant byte of each word first *)
Fixpoint word (k : nat) (w : Uint63.int) : bytes :=
  match k with
  | O => []
  | S j => Z.to_N (Uint63.to_Z (Uint63.land w 255%uint63)) :: word j (Uint63.lsr w 8%uint63)
  end.
Fixpoint ubn (n : nat) (ws : list Uint63.int) : bytes :=
  match ws with
  | [] => []
  | w :: r => word (Nat.min n 7) w ++ ubn (n - 7) r
  end.
Definition ub (n : N) (ws : list Uint63.int) : bytes := ubn (N.to_nat n) ws.

Inductive obs :=
| OReply (b : bytes)       (* bytes seen on the control topic *)
| ODirectOk (b : bytes)    (* handleAdminMessage called directly: (b, nil) *)
| ODirectErr (t : bytes)   (* handleAdminMessage called directly: error with this text *)
| ONone.                   (* no reply within the deadline / the process ended *)

Inductive item :=
| ICmd (c : option command) (o : obs)
| IHttp (q : hreq) (status : N) (body : bytes)
| IArrive (c : option command) (o : option bytes)
                                 (* pipelined: a command broadcast on the api topic by a controller that does not
                                    wait; [Some r] = the reply r followed, [None] = no reply ever came (F17) *)
| IReady                         (* pipelined: the handler is waiting again (before the next command it takes) *)
| IPub                           (* traffic published on a feed/stream topic: no effect on the tables expected *)
| IHttpOther (status : N).      (* a request gorilla/mux did not route to a rule handler (404, 405, /api,
                                   /healthcheck): no effect on the tables expected *)

(* tables as the harness reads them from the App, sorted by key *)
(* [None]: the tables were not read after this item (pipelined sessions read them once, at the end) *)
Definition snap := option (list (bytes * drule) * list (bytes * option (list bytes)))%type.

(* [probes]: every command sent and every reply seen in the session, with what Go's json.Valid said about
   it - the checker [wf] the theorems speak about must agree with json.Valid on all of them;
   [decoded]: every command message sent, with what the real json.Unmarshal(msg, &vw.Command) produced for it
   ([None] = it returned an error): the model's [decode] must produce exactly that from the bytes *)
Definition case := (bytes * list (bytes * (drule + bytes)) * list (bytes * (srule + bytes)) * list (item * snap)
                    * list (bytes * bool) * list (bytes * option command))%type.

Definition command_eqb (a b : command) : bool :=
  beqb (verb a) (verb b) && beqb (what a) (what b) && beqb (which a) (which b) && option_eqb beqb (rule a) (rule b).
Definition decode_ok (p : bytes * option command) : bool := option_eqb command_eqb (decode (fst p)) (snd p).


Definition tab_dec {R} (t : list (bytes * (R + bytes))) (raw : bytes) : R + bytes :=
  match @lookup bytes (R + bytes) beqb raw t with Some r => r | None => inr [] end.

Definition drule_eqb (a b : drule) : bool :=
  beqb (d_id a) (d_id b) && beqb (d_stream a) (d_stream b) && beqb (d_dest a) (d_dest b) &&
  beqb (d_token a) (d_token b) && beqb (d_file a) (d_file b).
Definition feeds_eqb (a b : option (list bytes)) : bool := option_eqb (list_eqb beqb) a b.
Definition pair_eqb {V} (e : V -> V -> bool) (a b : bytes * V) : bool := beqb (fst a) (fst b) && e (snd a) (snd b).

(* the recorded results of the real inner json.Unmarshal (rule bytes -> rule or error text) are the EXPECTED
   values of the model's [dec_dest_model] / [dec_stream_model] *)
Definition sum_eqb {R} (e : R -> R -> bool) (a b : R + bytes) : bool :=
  match a, b with inl x, inl y => e x y | inr x, inr y => beqb x y | _, _ => false end.
Definition srule_eqb (a b : srule) : bool := beqb (s_stream a) (s_stream b) && option_eqb (list_eqb beqb) (s_feeds a) (s_feeds b).
Definition dest_dec_ok (p : bytes * (drule + bytes)) : bool := sum_eqb drule_eqb (dec_dest_model (fst p)) (snd p).
Definition stream_dec_ok (p : bytes * (srule + bytes)) : bool := sum_eqb srule_eqb (dec_stream_model (fst p)) (snd p).

Definition snap_ok (s : st) (n : snap) : bool :=
  match n with
  | None => true
  | Some n =>
      list_eqb (pair_eqb drule_eqb) (sort_keys (dests s)) (fst n) &&
      list_eqb (pair_eqb feeds_eqb) (sort_keys (streams s)) (snd n)
  end.

Definition ans_ok (a : answer) (o : obs) : bool :=
  match o, a with
  | OReply b, _ => option_eqb beqb (render repaired a) (Some b)
  | ODirectOk b, Ok b' => beqb b b'
  | ODirectErr t, Err t' => beqb t t'
  | _, _ => false
  end.

Section Run.
  Variable api : bytes.
  Variable dd : bytes -> drule + bytes.
  Variable ds : bytes -> srule + bytes.

  (* lock-step items find the handler waiting and leave it waiting; pipelined arrivals go through the busy
     window of the model ([tstep]) *)
  Definition item_step (t : tst) (i : item) : tst * bool :=
    let s := t_st t in
    match i with
    | ICmd c o => let '(s', a) := step dd ds api repaired s c in (mkt s' false, ans_ok a o)
    | IArrive c o =>
        let '(t', out) := tstep dd ds api repaired t (TArrive c) in
        (t', match out, o with
             | Some None, None => true
             | Some (Some a), Some r => option_eqb beqb (render repaired a) (Some r)
             | _, _ => false
             end)
    | IReady => (mkt s false, true)
    | IHttp q status body =>
        let '(s', (st', b')) := hstep s q in
        (mkt s' (t_busy t), (st' =? status) && (if st' =? 200 then beqb b' body else true))
    | IPub => (t, true)
    | IHttpOther status => (t, true)   (* only the tables are compared: they must not have changed *)
    end.

  Fixpoint items_ok (t : tst) (l : list (item * snap)) : bool :=
    match l with
    | [] => true
    | (i, n) :: r => let '(t', ok) := item_step t i in ok && snap_ok (t_st t') n && items_ok t' r
    end.

  Fixpoint nchanges (t : tst) (l : list (item * snap)) : N :=
    match l with
    | [] => 0
    | (i, _) :: r =>
        let t' := fst (item_step t i) in
        (if snap_ok (t_st t') (Some (sort_keys (dests (t_st t)), sort_keys (streams (t_st t)))) then 0 else 1) + nchanges t' r
    end.
End Run.

(* the App starts with apiRule in place when a control destination is configured (vw.Stream) *)
Definition start (api : bytes) : tst :=
  mkt (mkst (if is_nil api then [] else rwc_add [] (api_rule api)) []) false.

Definition case_ok (c : case) : bool :=
  let '(api, td, ts, items, probes, decoded) := c in
  items_ok api (tab_dec td) (tab_dec ts) (start api) items && forallb (fun p => Bool.eqb (wf (fst p)) (snd p)) probes &&
  forallb decode_ok decoded && forallb dest_dec_ok td && forallb stream_dec_ok ts.

(* non-trivial: the model run changes the rule tables at least twice *)
Definition case_nontrivial (c : case) : bool :=
  let '(api, td, ts, items, _, _) := c in 2 <=? nchanges api (tab_dec td) (tab_dec ts) (start api) items.


(* diagnostics: per item, (answer agrees, tables agree) *)
Section Diag.
  Variable api : bytes.
  Variable dd : bytes -> drule + bytes.
  Variable ds : bytes -> srule + bytes.
  Fixpoint item_flags (t : tst) (l : list (item * snap)) : list (bool * bool) :=
    match l with
    | [] => []
    | (i, n) :: r => let '(t', ok) := item_step api dd ds t i in (ok, snap_ok (t_st t') n) :: item_flags t' r
    end.
End Diag.
Definition case_flags (c : case) : list (bool * bool) * list bool :=
  let '(api, td, ts, items, probes, _) := c in
  (item_flags api (tab_dec td) (tab_dec ts) (start api) items,
   map (fun p => Bool.eqb (wf (fst p)) (snd p)) probes ++ [true; true; true] ++ map decode_ok (let '(_, _, _, _, _, d) := c in d)).

Definition mismatches (cs : list case) : list N := mismatch_idx case_ok 0 cs.
Definition nontrivial (cs : list case) : list N := idx_where case_nontrivial cs.
