(* Correspondence checker for C14: every case carries what the real code did (json.Marshal of
   crossbar.ClientReport values, the pkg/status decoder, time.Duration.String, time.ParseDuration,
   fpsFromNs, the listing of a real relay after a history) and passes when the model computes the
   same.  Library oracles arrive as finite tables recorded from the real library in that run. *)
From Relay Require Import Base.Prelude Base.Json Base.Dur Model.Status.
Local Open Scope N_scope.

Definition pair_eqb {A B} (ea : A -> A -> bool) (eb : B -> B -> bool) (x y : A * B) : bool :=
  ea (fst x) (fst y) && eb (snd x) (snd y).
Definition zz_eqb := pair_eqb Z.eqb Z.eqb.
Definition scopes_eqb := option_eqb (list_eqb bytes_eqb).

Definition dstats_eqb (a b : dstats) : bool :=
  Z.eqb (d_last a) (d_last b) && bytes_eqb (d_size a) (d_size b) && bytes_eqb (d_fps a) (d_fps b)
  && Bool.eqb (d_never a) (d_never b).

Definition dreport_eqb (a b : dreport) : bool :=
  Bool.eqb (d_canRead a) (d_canRead b) && Bool.eqb (d_canWrite a) (d_canWrite b)
  && zz_eqb (d_connected a) (d_connected b) && zz_eqb (d_expiresAt a) (d_expiresAt b)
  && bytes_eqb (d_remoteAddr a) (d_remoteAddr b) && scopes_eqb (d_scopes a) (d_scopes b)
  && dstats_eqb (d_tx a) (d_tx b) && dstats_eqb (d_rx a) (d_rx b)
  && bytes_eqb (d_topic a) (d_topic b) && bytes_eqb (d_userAgent a) (d_userAgent b).

Definition fnum_eqb (a b : fnum) : bool :=
  match a, b with
  | Finite x, Finite y => bytes_eqb x y
  | NonFinite, NonFinite => true
  | _, _ => false
  end.

(* the recorded library tables *)
Record tables := mk_tables {
  t_lower : list (N * N);                          (* unicode.ToLower on the non-ASCII runes met *)
  t_time : list (bytes * option (Z * Z));          (* Time.UnmarshalJSON on the raw literals met *)
  t_num : list (bytes * option bytes) }.           (* ParseFloat + re-encoding of the lexemes met *)

Fixpoint assoc {A B} (e : A -> A -> bool) (k : A) (l : list (A * B)) : option B :=
  match l with
  | [] => None
  | (k', v) :: r => if e k k' then Some v else assoc e k r
  end.

Definition lr_of (t : tables) (r : N) : N := match assoc N.eqb r (t_lower t) with Some x => x | None => r end.
Definition ptime_of (t : tables) (raw : bytes) : option (Z * Z) :=
  match assoc bytes_eqb raw (t_time t) with Some x => x | None => None end.
Definition ncanon_of (t : tables) (lex : bytes) : option bytes :=
  match assoc bytes_eqb lex (t_num t) with Some x => x | None => Some lex end.

Definition decode_with (t : tables) := decode_reports (lr_of t) (ptime_of t) (ncanon_of t).

(* who a listed connection is, as the decoded report shows it (times as their RFC 3339 text) *)
Definition ident := (bytes * option (list bytes) * bool * bool * bytes * bytes * bytes)%type.
Definition ident_eqb (a b : ident) : bool :=
  let '(t1, s1, r1, w1, e1, u1, a1) := a in
  let '(t2, s2, r2, w2, e2, u2, a2) := b in
  bytes_eqb t1 t2 && scopes_eqb s1 s2 && Bool.eqb r1 r2 && Bool.eqb w1 w2 && bytes_eqb e1 e2
  && bytes_eqb u1 u2 && bytes_eqb a1 a2.

Definition ident_of_member (m : member) : ident :=
  (sanitize (m_topic m), option_map (map sanitize) (m_scopes m), m_canRead m, m_canWrite m,
   m_expiresAt m, sanitize (m_userAgent m), sanitize (m_remoteAddr m)).

Fixpoint remove_first {A} (e : A -> A -> bool) (x : A) (l : list A) : option (list A) :=
  match l with
  | [] => None
  | y :: r => if e x y then Some r else match remove_first e x r with Some r' => Some (y :: r') | None => None end
  end.
Fixpoint multiset_eqb {A} (e : A -> A -> bool) (a b : list A) : bool :=
  match a with
  | [] => match b with [] => true | _ => false end
  | x :: a' => match remove_first e x b with Some b' => multiset_eqb e a' b' | None => false end
  end.

Inductive case :=
(* json.Marshal of reports: observed bytes (None = error), and what pkg/status decoded from them *)
| CEnc (rs : list report) (t : tables) (obs : option bytes) (dec : option (list dreport))
(* arbitrary bytes given to json.Valid and to the pkg/status decoder *)
| CDec (s : bytes) (t : tables) (valid : bool) (dec : option (list dreport))
(* time.Duration(d).String() and ParseDuration of it *)
| CDur (d : Z) (s : bytes) (back : option Z)
(* time.ParseDuration on any string *)
| CParse (s : bytes) (obs : option Z)
(* fpsFromNs: raw = the value of 1/(ns*1e-9) computed by the harness, obs = what the function returned *)
| CFps (raw obs : fnum)
(* a history on a real relay and the identities listed after it (stats topic or /status) *)
| CHist (evs : list event) (obs : list ident)
(* arrival times (ms) of successive reports at a viewer that asks for updates in bursts, and how many
   reports each websocket message carried: the rate limit keeps reports a second apart (600 ms are
   demanded of the arrival times, which jitter) and so one report per message *)
| CRate (arrivals : list Z) (per_message : list N)
(* a body GET /status answered, with the listing decoded from it (float texts as they stand in the
   body): the model's encoder must write the same bytes *)
| CRest (rs : list report) (body : bytes)
(* the longest silence (ms) a viewer of the stats topic saw while messages of some kind kept arriving
   there, StatsEvery = every: the repaired reporter is silent for less than StatsEvery at the end of
   every round and a round lasts at most rate limit + StatsEvery; one second of slack for arrival *)
| CQuiet (every : Z) (max_gap : Z)
(* a connection that has sent / received [count] messages: the "never" flags its reports showed *)
| CTraffic (count : N) (never : list bool).

Definition case_ok (c : case) : bool :=
  match c with
  | CEnc rs t obs dec =>
    option_eqb bytes_eqb (encode_reports rs) obs
    && match obs with
       | Some s => option_eqb (list_eqb dreport_eqb) (decode_with t s) dec
                   && json_wf s
                   (* the theorem's reading, re-checked on the data: decode = map normalize *)
                   && option_eqb (list_eqb dreport_eqb) (map_opt (normalize (lr_of t) (ptime_of t) (ncanon_of t)) rs) dec
       | None => true
       end
  | CDec s t valid dec =>
    Bool.eqb (json_wf s) valid && option_eqb (list_eqb dreport_eqb) (decode_with t s) dec
  | CDur d s back =>
    bytes_eqb (duration_bytes d) s && option_eqb Z.eqb (parse_duration_bytes s) back
    && option_eqb Z.eqb back (Some d)
  | CParse s obs => option_eqb Z.eqb (parse_duration_bytes s) obs
  | CFps raw obs => fnum_eqb (fps_from_ns raw) obs
  | CHist evs obs => multiset_eqb ident_eqb (map ident_of_member (listed (hub_run evs))) obs
  | CRest rs body => option_eqb bytes_eqb (encode_rest rs) (Some body) && json_wf body
  | CQuiet every max_gap => (max_gap <=? Z.max 1 every + (rate_limit_ms + every) + 1000)%Z
  | CTraffic count never =>
    let f := mk_frames count 0 lex_zero (Finite lex_zero) in
    let model_never := bytes_eqb (rs_last (stats_of_frames fps_from_ns 1 f)) lit_Never in
    forallb (Bool.eqb model_never) never
  | CRate arrivals per_message =>
    gaps_geb 600 arrivals
    && list_eqb N.eqb (map (fun g => N.of_nat (length g)) (messages arrivals (map (fun _ => 0%Z) arrivals))) per_message
  end.

(* non-trivial: the model run gets past its first guard *)
Definition case_nontrivial (c : case) : bool :=
  match c with
  | CEnc rs _ _ _ => match encode_reports rs with Some _ => negb (Nat.eqb (length rs) 0) | None => false end
  | CDec s t _ _ => match decode_with t s with Some (_ :: _) => true | _ => false end
  | CDur d _ _ => negb (Z.eqb d 0)
  | CParse s _ => match parse_duration_bytes s with Some _ => true | None => false end
  | CFps raw _ => match raw with NonFinite => true | _ => false end
  | CHist evs _ => Nat.leb 2 (length (listed (hub_run evs)))
  | CRate arrivals _ => Nat.leb 3 (length arrivals)
  | CTraffic count _ => 0 <? count
  | CRest rs _ => Nat.leb 2 (length rs)
  | CQuiet _ g => (0 <? g)%Z
  end.

Definition mismatches (cs : list case) : list N := mismatch_idx case_ok 0 cs.
Definition nontrivial (cs : list case) : list N := idx_where case_nontrivial cs.
