(* Correspondence checker for C10: a case is (initial clock, operations, outputs observed on the
   real deny.Store / access handlers); it passes when the model produces the same outputs. *)
From Relay Require Import Base.Prelude Base.AList Model.DenyStore.

Definition out_eqb (a b : out) : bool :=
  match a, b with
  | RUnit, RUnit => true
  | RBool x, RBool y => Bool.eqb x y
  | RList x, RList y => list_eqb N.eqb x y
  | RStatus x, RStatus y => N.eqb x y
  | _, _ => false
  end.

Definition case := (Z * list op * list out)%type.

Definition case_ok (c : case) : bool :=
  let '(t, ops, obs) := c in list_eqb out_eqb (snd (run (init t) ops)) obs.

(* non-trivial: the history changed the store at least twice (judged on the entry the operation names, or on
   the list sizes for prune: linear in the size of the store, so that histories over a thousand ids stay cheap) *)
Definition op_id (o : op) : option N :=
  match o with
  | ODeny i _ | OAllow i _ | OIsDenied i | HDeny i _ | HAllow i _ | HSession _ i _ => Some i
  | _ => None
  end.

Definition changes (s : st) (o : op) : bool :=
  let s' := fst (step s o) in
  match op_id o with
  | Some i => negb (option_eqb Z.eqb (lk i (denyl s)) (lk i (denyl s')) && option_eqb Z.eqb (lk i (allowl s)) (lk i (allowl s')))
  | None => negb (Nat.eqb (length (denyl s)) (length (denyl s')) && Nat.eqb (length (allowl s)) (length (allowl s')))
  end.

Fixpoint nchanges (s : st) (ops : list op) : N :=
  match ops with [] => 0 | o :: r => (if changes s o then 1 else 0) + nchanges (fst (step s o)) r end.

Definition case_nontrivial (c : case) : bool :=
  let '(t, ops, _) := c in (2 <=? nchanges (init t) ops)%N.

Definition mismatches (cs : list case) : list N := mismatch_idx case_ok 0 cs.
Definition nontrivial (cs : list case) : list N := idx_where case_nontrivial cs.
