(* Correspondence checker for C10: a case is (initial clock, operations, outputs observed on the
   real deny.Store / access handlers); it passes when the model produces the same outputs. *)
From Relay Require Import Base.Prelude Base.AList Model.DenyStore.

Definition out_eqb (a b : out) : bool :=
  match a, b with
  | RUnit, RUnit => true
  | RBool x, RBool y => Bool.eqb x y
  | RList x, RList y => list_eqb N.eqb x y
  | RStatus x, RStatus y => N.eqb x y
  | _, _ => false
  end.

Definition case := (Z * list op * list out)%type.

Definition case_ok (c : case) : bool :=
  let '(t, ops, obs) := c in list_eqb out_eqb (snd (run (init t) ops)) obs.

(* non-trivial: the history changed the store at least once and ends with a non-empty list *)
Definition changes (s : st) (o : op) : bool :=
  let s' := fst (step s o) in
  negb (list_eqb N.eqb (sortN (keys (denyl s))) (sortN (keys (denyl s')))
        && list_eqb N.eqb (sortN (keys (allowl s))) (sortN (keys (allowl s')))).

Fixpoint nchanges (s : st) (ops : list op) : N :=
  match ops with [] => 0 | o :: r => (if changes s o then 1 else 0) + nchanges (fst (step s o)) r end.

Definition case_nontrivial (c : case) : bool :=
  let '(t, ops, _) := c in (2 <=? nchanges (init t) ops)%N.

Definition mismatches (cs : list case) : list N := mismatch_idx case_ok 0 cs.
Definition nontrivial (cs : list case) : list N := idx_where case_nontrivial cs.
