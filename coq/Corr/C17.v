(* Correspondence checker for C17.  A case is one stream pushed through the real ingest code:
   the size of the flush buffer, the capacities of the subscribers' channels, the schedule (event list) the
   harness reconstructed - its own writes and consumer actions in the order it performed them, the flushes
   where the observed message boundaries put them - and what was observed: every message as first seen at
   hand-off, and what each consumer saw through the slice it had kept when it looked again at the end of
   the stream.  The model used is the REPAIRED code ([run false]).
   The input is pseudo-random and generated on both sides by the same function ([gen]), so that no input
   bytes travel as text; observed bytes do (packed), except for very large messages which are compared by
   length + a checksum over every 61st byte + first and last 32 bytes. *)
From Coq Require Import Uint63.
From Relay Require Import Base.Prelude Model.Ingest.
Local Open Scope N_scope.

(* byte strings arrive packed seven to a 63-bit machine integer (one Coq term per seven bytes keeps the case
   files quick to read): [ub n ws] are the first n bytes, least significant byte of each word first *)
Fixpoint word (k : nat) (w : Uint63.int) : bytes :=
  match k with
  | O => []
  | S j => Z.to_N (Uint63.to_Z (Uint63.land w 255%uint63)) :: word j (Uint63.lsr w 8%uint63)
  end.
Fixpoint ubn (n : nat) (ws : list Uint63.int) : bytes :=
  match ws with
  | [] => []
  | w :: r => word (Nat.min n 7) w ++ ubn (n - 7) r
  end.
Definition ub (n : N) (ws : list Uint63.int) : bytes := ubn (N.to_nat n) ws.

(* the input: three small counters (periods 251, 241, 239; together > 14 million) added up.  Cheap enough
   for vm_compute on megabyte inputs; harness/cmd/c17 computes the same bytes. *)
Fixpoint gen_go (x y z : N) (n : nat) : bytes :=
  match n with
  | O => []
  | S k =>
      let x' := if x =? 250 then 0 else x + 1 in
      let y' := if y <? 234 then y + 7 else y - 234 in
      let z' := if z <? 226 then z + 13 else z - 226 in
      N.land (x' + y' + z') 255 :: gen_go x' y' z' k
  end.
(* bytes [off, off+n) of the input with seed [seed] *)
Definition gen (seed off n : N) : bytes :=
  gen_go ((seed + off) mod 251) ((seed + 7 * off) mod 241) ((seed + 13 * off) mod 239) (N.to_nat n).

Definition beqb (a b : bytes) : bool := list_eqb N.eqb a b.

(* checksum over every 61st byte (large messages only) *)
Fixpoint every61 (k : nat) (l : bytes) : bytes :=
  match l with
  | [] => []
  | b :: r => match k with O => b :: every61 60 r | S k' => every61 k' r end
  end.
Definition checksum (l : bytes) : N :=
  fold_left (fun a b => N.land (N.shiftl a 5 + a + b + 1) 4294967295) (every61 0 l) 5381.
Definition lastn (n : nat) (l : bytes) : bytes := skipn (length l - n) l.

Inductive obsb :=
| OB (b : bytes)
| OD (len sum : N) (head tail : bytes).

Definition obs_match (m : bytes) (o : obsb) : bool :=
  match o with
  | OB b => beqb m b
  | OD len sum head tail =>
      (N.of_nat (length m) =? len) && (checksum m =? sum) && beqb (firstn 32 m) head && beqb (lastn 32 m) tail
  end.

Fixpoint all2 {A B} (p : A -> B -> bool) (a : list A) (b : list B) : bool :=
  match a, b with
  | [], [] => true
  | x :: a', y :: b' => p x y && all2 p a' b'
  | _, _ => false
  end.

(* a stream case: maxf, capacities, schedule, observed hand-offs, observed delayed reads per consumer;
   a websocket-out case: seed and size of the hub messages (message k = [wmsg seed blk k]), the schedule
   (which messages reached the slow client: WOffer; WRest - which were dropped: WMiss n), and the websocket
   messages the client received.  The model is the code as it is: Send unbuffered (capacity 0). *)
Inductive case :=
| CS (maxf : N) (caps : list nat) (evs : list ev) (tap : list obsb) (reads : list (list obsb))
| CW (seed blk : N) (evs : list wev) (frames : list obsb)
| CD (seed blk : N) (evs : list dev) (recv : list obsb).   (* reconnecting destination: what it received, all connections *)

Definition model (maxf : N) (caps : list nat) (evs : list ev) : st := run false (N.to_nat maxf) (init caps) evs.

(* hub message k of a websocket-out stream: 4 marker bytes, its index (4 bytes, big endian), then input bytes *)
Definition stamp (k : N) : bytes :=
  [86; 87; 79; 58; N.land (N.shiftr k 24) 255; N.land (N.shiftr k 16) 255; N.land (N.shiftr k 8) 255; N.land k 255].
Definition wmsg (seed blk : N) (k : nat) : bytes :=
  let kn := N.of_nat k in stamp kn ++ gen seed (blk * kn + 8) (blk - 8).

Definition wmodel (seed blk : N) (evs : list wev) : wst := wrun (wmsg seed blk) 0 evs.

(* self-describing websocket feed messages of any size: "WB", sequence number and length (4 bytes each, big
   endian), then a ramp of bytes mod 251 that starts at a value derived from both; messages shorter than the
   10-byte header are the ramp alone.  Cheap enough for megabyte messages. *)
Fixpoint ramp_go (x : N) (n : nat) : bytes :=
  match n with O => [] | S k => x :: ramp_go (if x =? 250 then 0 else x + 1) k end.
Definition be4 (k : N) : bytes :=
  [N.land (N.shiftr k 24) 255; N.land (N.shiftr k 16) 255; N.land (N.shiftr k 8) 255; N.land k 255].
Definition bmsg (sq len : N) : bytes :=
  let x := (sq * 31 + len) mod 251 in
  if len <? 10 then ramp_go x (N.to_nat len)
  else [87; 66] ++ be4 sq ++ be4 len ++ ramp_go x (N.to_nat (len - 10)).

Definition case_ok (c : case) : bool :=
  match c with
  | CS maxf caps evs tap reads =>
      let s := model maxf caps evs in
      all2 obs_match (handed s) tap && all2 (all2 obs_match) (map got (cons s)) reads
  | CW seed blk evs frames =>
      all2 obs_match (map frame_bytes (wframes (wmodel seed blk evs))) frames
  | CD seed blk evs recv =>
      all2 obs_match (map snd (dout (drun (wmsg seed blk) 2 evs))) recv
  end.

(* non-trivial (stream): at least two messages were handed on and some consumer read a message that had
   stayed queued or in hand over a later hand-off, or the flush threw bytes away;
   (websocket-out): at least two websocket messages arrived and the hub dropped some in between *)
Fixpoint exposed (fl : nat) (held : list (nat * nat)) (evs : list ev) : bool :=
  match evs with
  | [] => false
  | Flush :: r | WsMsg _ :: r => exposed (S fl) held r
  | Consume c :: r =>
      let last := match find (fun p => Nat.eqb (fst p) c) held with Some p => snd p | None => O end in
      if Nat.leb (last + 2) fl then true else exposed fl ((c, fl) :: held) r
  | _ :: r => exposed fl held r
  end.

Definition case_nontrivial (c : case) : bool :=
  match c with
  | CS maxf caps evs _ _ =>
      let s := model maxf caps evs in
      (Nat.leb 2 (length (handed s))) && (exposed O [] evs || existsb (fun d => negb (beqb d [])) (dropped s))
  | CW seed blk evs frames =>
      Nat.leb 2 (length frames) && existsb (fun e => match e with WMiss _ => true | _ => false end) evs
  | CD seed blk evs recv =>
      Nat.leb 2 (length recv) && existsb (fun e => match e with DMiss _ => true | _ => false end) evs
  end.

Definition case_flags (c : case) : list bool * list (list bool) :=
  match c with
  | CS maxf caps evs tap reads =>
      let s := model maxf caps evs in
      (map (fun p => obs_match (fst p) (snd p)) (combine (handed s) tap),
       map (fun p => map (fun q => obs_match (fst q) (snd q)) (combine (fst p) (snd p))) (combine (map got (cons s)) reads))
  | CW seed blk evs frames =>
      (map (fun p => obs_match (fst p) (snd p)) (combine (map frame_bytes (wframes (wmodel seed blk evs))) frames), [])
  | CD seed blk evs recv =>
      (map (fun p => obs_match (fst p) (snd p)) (combine (map snd (dout (drun (wmsg seed blk) 2 evs))) recv), [])
  end.

Definition mismatches (cs : list case) : list N := mismatch_idx case_ok 0 cs.
Definition nontrivial (cs : list case) : list N := idx_where case_nontrivial cs.
