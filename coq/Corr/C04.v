(* Correspondence checker for C04: same scripts as C03 (one topic, participants with arbitrary scope
   lists); observed per connection attempt: whether the hub registered it, the can_read / can_write
   flags /status reported for it, and the multiset of payload ids it received. *)
From Relay Require Import Base.Prelude Model.Hub Corr.C03.

Definition seen4 := (N * bool * bool * bool * list N)%type.
Definition case := (list op * list seen4)%type.

Definition seen4_ok (s : state) (x : seen4) : bool :=
  let '(n, joined, r, w, ids) := x in
  match conn_of s n with
  | Some c => joined && Bool.eqb (can_read c) r && Bool.eqb (can_write c) w && list_eqb N.eqb (received c) ids
  | None => negb joined && match ids with [] => true | _ => false end
  end.

Definition case_ok (c : case) : bool :=
  let '(ops, obs) := c in
  let s := run_script true ops in
  forallb (seen4_ok s) obs && Nat.eqb (length (conns s)) (length (filter (fun x => snd (fst (fst (fst x)))) obs)).

(* non-trivial: at least one registered connection lacks a capability, the hub took a message, and
   some connection attempted to send without being a writer or was offered data without being a reader *)
Definition case_nontrivial (c : case) : bool :=
  let s := run_script true (fst c) in
  existsb (fun c => negb (can_read c && can_write c)) (conns s) && (1 <=? length (log s))%nat && (2 <=? length (conns s))%nat.

Definition mismatches (cs : list case) : list N := mismatch_idx case_ok 0 cs.
Definition nontrivial (cs : list case) : list N := idx_where case_nontrivial cs.
