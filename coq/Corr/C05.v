(* Correspondence checker for C05: a REFINEMENT check.  The harness cannot see when the relay's
   writer took messages from a queue relative to the hub's enqueues, so it proposes a witness: the
   script in hub order (joins, sends with payload symbols, leaves) interleaved with writer steps
   (Take / More / Close) chosen so that the model would produce exactly the frames each reader
   received.  Here the model is run on that witness and must yield, for every connection, exactly
   the observed frames (type of the head message, payload symbols in order) and the observed end:
   0 = still connected when the script ended, with nothing pending (it missed nothing),
   1 = cut by the server (evicted on a full queue), everything queued before the cut delivered,
   2 = closed (left by itself, or its reader was ended by an oversize message). *)
From Relay Require Import Base.Prelude Model.Hub Corr.C03.

Definition frame_obs := (N * list N)%type.
Definition seen5 := (N * list frame_obs * N)%type.
Definition case := (list op * list seen5)%type.

Definition frame_eqb (a b : frame_obs) : bool := N.eqb (fst a) (fst b) && list_eqb N.eqb (snd a) (snd b).

Definition idle (c : client) : bool :=
  match queue c, cur c with [], [] => true | _, _ => false end.

Definition end_ok (c : client) (e : N) : bool :=
  match st c with
  | Joined => N.eqb e 0 && (idle c || negb (can_read c))
  | Evicted => N.eqb e 1 && idle c
  | Closed => N.eqb e 2
  end.

Definition seen5_ok (s : state) (x : seen5) : bool :=
  let '(n, frames, e) := x in
  match conn_of s n with
  | Some c => list_eqb frame_eqb (map wire (out c)) frames && end_ok c e
  | None => false
  end.

Definition case_ok (c : case) : bool :=
  let '(ops, obs) := c in
  let s := run_script false ops in
  forallb (seen5_ok s) obs && Nat.eqb (length (conns s)) (length obs).

(* non-trivial: at least two messages delivered and a frame that merged messages or an eviction *)
Definition case_nontrivial (c : case) : bool :=
  let s := run_script false (fst c) in
  (2 <=? delivered s)%nat &&
  (existsb (fun c => match st c with Evicted => true | _ => false end) (conns s) ||
   existsb (fun c => existsb (fun f => (2 <=? length f)%nat) (out c)) (conns s)).

Definition mismatches (cs : list case) : list N := mismatch_idx case_ok 0 cs.
Definition nontrivial (cs : list case) : list N := idx_where case_nontrivial cs.
