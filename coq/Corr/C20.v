(* Correspondence checker for C20.  A case is one of
     CParse : one line through the real ParseLine           -> the projected item
     CText  : the bytes of a play file through the real LoadFile / ParseByLine and Check
                                        -> items, number of errors, err != nil, load error,
                                           the error texts Check returned
     CFilter: commands and lines through the real FilterLines goroutine -> the lines it let through
   together with the oracle tables the harness recorded from time.ParseDuration, regexp.Compile,
   strconv.Atoi and Regexp.MatchString for exactly the operands of that case.  A case passes when
   the model, run with these tables as oracles, produces the observed output. *)
From Relay Require Import Base.Prelude Model.Filter Model.PlayParse.
Local Open Scope string_scope.

Definition tab (A : Type) := list (string * A).

Fixpoint assoc {A} (t : tab A) (k : string) : option A :=
  match t with
  | [] => None
  | (k', v) :: r => if k =? k' then Some v else assoc r k
  end.

(* an operand the harness did not record counts as "the library refused it" *)
Definition dur_tab (t : tab (option Z)) (s : string) : option Z :=
  match assoc t s with Some r => r | None => None end.
Definition re_tab (t : tab bool) (s : string) : bool :=
  match assoc t s with Some b => b | None => false end.
Definition int_tab (t : tab (option Z)) (s : string) : option Z :=
  match assoc t s with Some r => r | None => None end.
Definition str_tab (t : tab string) (s : string) : string :=
  match assoc t s with Some r => r | None => "" end.
(* per pattern: the lines of the case it matches *)
Definition match_tab (t : tab (list string)) (p line : string) : bool :=
  match assoc t p with Some ls => existsb (String.eqb line) ls | None => false end.

Definition faction_eqb (a b : faction) : bool :=
  match a, b with
  | Accept p, Accept q => p =? q
  | Deny p, Deny q => p =? q
  | Reset, Reset => true
  | Unknown, Unknown => true
  | _, _ => false
  end.

Definition item_eqb (a b : item) : bool :=
  match a, b with
  | IComment e m, IComment e' m' => Bool.eqb e e' && (m =? m')
  | IWait d, IWait d' => (d =? d')%Z
  | ISend m d p k t, ISend m' d' p' k' t' =>
      (m =? m') && (d =? d')%Z && (p =? p') && (k =? k')%Z && (t =? t')%Z
  | IFilter x, IFilter y => faction_eqb x y
  | IError, IError => true
  | _, _ => false
  end.

(* long texts are written run-length encoded: literal bytes, or n copies of one byte *)
Inductive chunk := Lit (bs : list N) | Rep (n : N) (b : N).
Definition chunk_str (c : chunk) : string :=
  match c with Lit bs => str bs | Rep n b => N.iter n (String (ascii_of_N b)) "" end.
Fixpoint text_of (cs : list chunk) : string :=
  match cs with [] => "" | c :: r => chunk_str c ++ text_of r end.

Inductive case :=
| CParse (durs : tab (option Z)) (res : tab bool) (ints : tab (option Z)) (l : string) (obs : item)
| CText (durs : tab (option Z)) (res : tab bool) (ints : tab (option Z)) (text : list chunk)
        (obs : list item) (nerr : N) (failed : bool) (too_long : bool)
        (* the texts Check returned, and the library's error texts they embed *)
        (reerr durerr : tab string) (texts : list string)
| CFilter (mt : tab (list string)) (evs : list fev) (obs : list string)
(* FilterLines in front of a log channel of capacity cap whose consumer read pause lines, then did
   not read for a while, then read on: obs is what had arrived when the history was complete *)
| CStalled (mt : tab (list string)) (cap pause : nat) (evs : list fev) (obs : list string)
(* the context was cancelled while the consumer was not reading: obs is what arrived *)
| CCancelled (mt : tab (list string)) (evs : list fev) (obs : list string)
(* FilterLines -> Write -> the log file, wired as Run does; after evs1 the log rotation fails (the
   file cannot be re-created) and evs2 arrive while nothing can be written; then a rotation
   succeeds and evs3 arrive.  obs1 = what the first file holds, obs3 = what the new file holds:
   exactly what the rule lets through of evs3 under the filter set by ALL commands before,
   possibly preceded by the last few permitted lines of evs2 that were still on their way *)
| CRotated (mt : tab (list string)) (evs1 evs2 evs3 : list fev) (obs1 obs3 : list string)
(* the lines of a play file parsed by the real ParseLine and PLAYED by the real Play against
   instrumented consumers: the stamps (ns since the start) each consumer took; tol in ns *)
| CPlay (durs : tab (option Z)) (res : tab bool) (ints : tab (option Z)) (ls : list string)
        (tol : Z) (obs : pobs).

(* one concrete schedule of the pipeline model: the consumer reads until it has pause lines, then
   the filter moves for as long as it can (the channel fills up, the send blocks), and only then
   the consumer reads again.  (Proofs/Filter_proofs.v: every schedule delivers the same lines.) *)
Definition first_move (mt : string -> string -> bool) (cap : nat) (p : pipe) (order : list pact) : pipe :=
  fold_right (fun a k => match pstep mt cap p a with Some q => q | None => k end) p order.

Fixpoint drive (mt : string -> string -> bool) (cap pause fuel : nat) (p : pipe) : pipe :=
  match fuel with
  | O => p
  | S k =>
      if pdone p then p
      else drive mt cap pause k
             (first_move mt cap p
                (if (List.length (deliv p) <? pause)%nat then [StepConsumer; StepRendezvous; StepFilter]
                 else [StepFilter; StepConsumer; StepRendezvous]))
  end.

Fixpoint prefixb (a b : list string) : bool :=
  match a, b with
  | [], _ => true
  | x :: a', y :: b' => (x =? y) && prefixb a' b'
  | _, [] => false
  end.

Definition case_ok (c : case) : bool :=
  match c with
  | CParse durs res ints l obs =>
      item_eqb (parse_line (dur_tab durs) (re_tab res) (int_tab ints) l) obs
  | CText durs res ints text obs nerr failed too_long reerr durerr texts =>
      (* too_long = "LoadFile returned an error": never, since F14d removed the scanner's limit *)
      let its := load_text (dur_tab durs) (re_tab res) (int_tab ints) (text_of text) in
      list_eqb item_eqb its obs && (check_count its =? nerr)%N && Bool.eqb (check_fails its) failed
      && negb too_long
      && list_eqb String.eqb
           (check_texts (dur_tab durs) (re_tab res) (int_tab ints) (str_tab reerr) (str_tab durerr)
              (file_lines (text_of text)))
           texts
  | CFilter mt evs obs =>
      list_eqb String.eqb (frun (match_tab mt) fnew evs) obs
  | CStalled mt cap pause evs obs =>
      let p := drive (match_tab mt) cap pause (3 * List.length evs + 3) (pinit evs) in
      pdone p && list_eqb String.eqb (deliv p) obs
  | CCancelled mt evs obs => prefixb obs (frun (match_tab mt) fnew evs)
  | CPlay durs res ints ls tol obs =>
      play_check tol 0 (parse_file (dur_tab durs) (re_tab res) (int_tab ints) ls) obs
  | CRotated mt evs1 evs2 evs3 obs1 obs3 =>
      let m := match_tab mt in
      let f1 := fstate fnew evs1 in
      let f2 := fstate f1 evs2 in
      let out3 := frun m f2 evs3 in
      let extra := (List.length obs3 - List.length out3)%nat in
      list_eqb String.eqb (frun m fnew evs1) obs1
      && list_eqb String.eqb (skipn extra obs3) out3
      && prefixb (rev (firstn extra obs3)) (rev (frun m f1 evs2))
  end.

(* non-trivial: a parse case whose line the model does NOT simply send verbatim (it is read as a
   comment or a command, valid or not); a file with both an error and a non-error item; a filter
   history in which the model blocks at least one line and passes at least one; a stalled-consumer
   history with more permitted lines than the log channel holds; a rotation history whose part after
   the recovery has more permitted lines than the channel holds and at least one blocked line *)
Definition lines_of (evs : list fev) : list string :=
  flat_map (fun e => match e with Line s => [s] | Act _ => [] end) evs.

Definition case_nontrivial (c : case) : bool :=
  match c with
  | CParse durs res ints l _ =>
      negb (item_eqb (parse_line (dur_tab durs) (re_tab res) (int_tab ints) l) (ISend l 0 "" 0 0))
  | CText durs res ints text _ _ _ _ _ _ _ =>
      let its := load_text (dur_tab durs) (re_tab res) (int_tab ints) (text_of text) in
      existsb is_error its && existsb (fun i => negb (is_error i)) its
  | CFilter mt evs _ | CCancelled mt evs _ =>
      let out := frun (match_tab mt) fnew evs in
      negb (is_nil out) && (List.length out <? List.length (lines_of evs))%nat
  | CPlay durs res ints ls _ _ =>
      (* at least one conditional send and one delayed send in the model's reading of the file *)
      let its := parse_file (dur_tab durs) (re_tab res) (int_tab ints) ls in
      existsb (fun i => match i with ISend _ _ p k T => complete_cond p k T | _ => false end) its
      && existsb (fun i => match i with ISend _ d _ _ _ => (0 <? d)%Z | _ => false end) its
  | CRotated mt evs1 evs2 evs3 _ _ =>
      let out := frun (match_tab mt) (fstate (fstate fnew evs1) evs2) evs3 in
      (10 <? List.length out)%nat && (List.length out <? List.length (lines_of evs3))%nat
  | CStalled mt cap _ evs _ =>
      (* more permitted lines than the channel holds: the model's filter does block *)
      (cap <? List.length (frun (match_tab mt) fnew evs))%nat
  end.

Definition mismatches (cs : list case) : list N := mismatch_idx case_ok 0 cs.
Definition nontrivial (cs : list case) : list N := idx_where case_nontrivial cs.
